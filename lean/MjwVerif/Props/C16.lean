/-
  C16  Capacity overflow is never silent.

  "If, in any world, contacts, broadphase pairs, constraint rows or constraint-Jacobian non-zeros exceed the
   capacity chosen at make_data (naconmax, njmax, njmax_nnz), the corresponding overflow bit of that world is
   set after step(); if no overflow bit is set, the step result equals the result obtained with ample
   capacities."   Quantifier: all capacities from 0 up to the needed amount INCLUDING exact fit, all request
   multisets, all thread orders.

  Structure
  ---------
  1. `alloc_sound*`            — the arena model `Model/Alloc.lean` (all request lists, all orders, all C).
  2. `<kernel>_safe/_guard/_exact_fit/_nnz_dropped/_capacity_transparent/_obeys/_exact` for ALL eleven row builders
     (connect k = 3, weld k = 6, eight k = 1 builders, contact init) — about the GENERATED kernels
     `Mjw.Gen.Constraint.*`, for all inputs, at every scalar type.
  3. `next_time_reports`       — the report computed by `Mjw.Gen.Forward._next_time_builder___next_time`.
  4. `write_contact_guard`, `add_geom_pair_guard` — contact / broadphase-pair slots.
  5. `row_overflow_never_silent*` — 1+2+3 combined through the `Builder` abstraction; `row_overflow_never_silent_all`
     instantiates it for every list of threads of the eleven builder kernels.
  6. `nnz_overflow_*`, `*_dropped_row_*` — the NJMAX_NNZ report (`Mjw.Gen.Constraint._nnz_overflow`) and what a
     dropped row leaves behind.

  FINDINGS (both found by this property and repaired in /repo; no open witness is left in `Props/C16Witness.lean`)
  -------------------------------------------------------------------
  F1  (REPAIRED in /repo, commit "fix: equality connect/weld rows were dropped silently…".)  `_equality_connect`
      and `_equality_weld` used the guards `efcid >= njmax_in - 3` / `- 6`, which rejected the exact fit
      `alloc0 + k = njmax_in` without any report.  The source now has `efcid + k > njmax_in`; the theorems below are
      about the repaired, regenerated kernels and the exact-fit statements HOLD (`equality_connect_exact_fit`,
      `equality_weld_exact_fit`).  The model keeps `Alloc.geMinusGuard` with `geMinusGuard_iff` /
      `geMinusGuard_not_ideal` as a record of why such a guard is wrong.
  F2  (REPAIRED in /repo, commits "fix: njmax_nnz overflow was silent unless the last constraint row happened to
      record it" and "fix: a row dropped for lack of njmax_nnz kept its non-zero count (out-of-bounds read of efc.J)".)
      A sparse row whose nnz request does not fit is dropped by its builder (`*_nnz_dropped`), and the NJMAX_NNZ bit
      used to be derived only from the `rowadr + rownnz` cells of the last row by `_next_time`, which misses the drop in
      general.  `make_constraint` now launches `_nnz_overflow` (bit 2 ⇔ `efc_nnz[w] > njmax_nnz`), and a dropped row
      stores `rownnz = 0`.  Proved below: `nnz_overflow_never_silent` (every dropped nnz request, of every builder, in
      every order, makes `_nnz_overflow` write the bit; if every request is granted it writes nothing),
      `<builder>_nnz_overflow_never_silent`, `<builder>_dropped_row_has_no_nonzeros`.
  F3  In sparse mode "no NEFC bit ⇒ all rows written" needs the additional hypothesis "nnz request granted"
      (`Builder.ok`) — and that hypothesis is now exactly "no NJMAX_NNZ bit" (`nnz_overflow_never_silent`); in dense mode
      it holds as is.
  NOT covered here: bounds of the sparse `efc_J_out/efc_J_colind_out[w, 0, adr]` addresses against `njmax_nnz`
  (needs the relation between the counting loop and the filling loop of each builder) and of the
  `efc_jtdaj_*[w, jgid]` block index (no capacity guard in the source).
  Everything else in the C16 statement that concerns the row/contact/pair arenas is proved below.

  Modelling assumptions (not theorems): the value returned by an allocating atomic is an input of the task
  (`alloc0`, `alloc2`); the arena model supplies it as the running sum in the order in which the tasks perform
  the atomic; int32 wrap-around of the counters is not modelled.
-/
import MjwVerif.Lemmas.Real
import MjwVerif.Lemmas.C16
import MjwVerif.Lemmas.C16KernelsA
import MjwVerif.Lemmas.C16KernelsB
import MjwVerif.Lemmas.C16KernelsC
import MjwVerif.Lemmas.C16KernelsD
import MjwVerif.Lemmas.C16KernelsE
import MjwVerif.Lemmas.C16KernelsF
import MjwVerif.Lemmas.C16KernelsG
import MjwVerif.Lemmas.C16KernelsH
import MjwVerif.Lemmas.C16KernelsI
import MjwVerif.Gen.Constraint
import MjwVerif.Gen.Forward
import MjwVerif.Gen.Collision_core
import MjwVerif.Gen.Collision_driver
set_option linter.unusedVariables false
set_option linter.unusedSimpArgs false
set_option linter.unusedSectionVars false

namespace Mjw.Props.C16
open Mjw Mjw.Alloc Mjw.Lemmas.C16

/-! ## 1. The arena model -/

/-- (1) **alloc_sound**: for every request list `l`, every order `o` (a permutation of `l`), every capacity `C`,
    with the ideal guard `off + k ≤ C` and the report `final > C`:
    (a)  the blocks are laid out one after the other (so pairwise disjoint), and a granted block lies in `[0, C)`;
    (fin) the final counter value does not depend on the order;
    (b)  if nothing is reported (`final ≤ C`, exact fit `final = C` included) EVERY request is granted, the run is
         the run with unbounded capacity, and the granted requests are a permutation of `l`;
    (c)  if some request is not granted, the report fires. -/
theorem alloc_sound (l o : List Req) (hp : o.Perm l) (C : Int) :
    (run idealGuard C o).Pairwise (fun g h => g.hi ≤ h.lo)
    ∧ (∀ g ∈ run idealGuard C o, g.granted = true → 0 ≤ g.lo ∧ g.hi ≤ C)
    ∧ final o = final l
    ∧ (reported idealReport C o = false →
        (∀ g ∈ run idealGuard C o, g.granted = true)
        ∧ run idealGuard C o = run noGuard C o
        ∧ (grantedReqs (run idealGuard C o)).Perm l)
    ∧ ((∃ g ∈ run idealGuard C o, g.granted = false) → reported idealReport C o = true) := by
  have hall : reported idealReport C o = false → ∀ g ∈ run idealGuard C o, g.granted = true := by
    intro hno g hg
    have hb := mem_runFrom_bounds idealGuard C o 0 g hg
    have hgr := mem_runFrom_granted idealGuard C o 0 g hg
    have hfin : final o ≤ C := by
      simp only [reported, idealReport, decide_eq_false_iff_not, gt_iff_lt, Int.not_lt] at hno
      exact hno
    rw [hgr]
    simp only [idealGuard, decide_eq_true_eq]
    have : finalFrom o 0 = final o := rfl
    omega
  refine ⟨runFrom_pairwise idealGuard C o 0, ?_, final_perm hp, ?_, ?_⟩
  · intro g hg hgr
    have hb := mem_runFrom_bounds idealGuard C o 0 g hg
    rw [mem_runFrom_granted idealGuard C o 0 g hg] at hgr
    simp only [idealGuard, decide_eq_true_eq] at hgr
    exact ⟨hb.1, hgr⟩
  · intro hno
    refine ⟨hall hno, ?_, ?_⟩
    · apply runFrom_congr
      intro off ho k hk
      have hfin : final o ≤ C := by
        simp only [reported, idealReport, decide_eq_false_iff_not, gt_iff_lt, Int.not_lt] at hno
        exact hno
      have : finalFrom o 0 = final o := rfl
      simp only [idealGuard, noGuard, decide_eq_true_eq]
      omega
    · rw [grantedReqs_all _ (hall hno)]
      unfold run
      rw [runFrom_reqs]
      exact hp
  · rintro ⟨g, hg, hgr⟩
    have hb := mem_runFrom_bounds idealGuard C o 0 g hg
    rw [mem_runFrom_granted idealGuard C o 0 g hg] at hgr
    simp only [idealGuard, decide_eq_false_iff_not, Int.not_le] at hgr
    simp only [reported, idealReport, decide_eq_true_eq, gt_iff_lt]
    have : finalFrom o 0 = final o := rfl
    omega

/-- (1') the same for ANY guard that is equivalent to the ideal one on the requests at hand -/
theorem alloc_sound_of_guard (guard : Guard) (l o : List Req) (hp : o.Perm l) (C : Int)
    (hguard : ∀ q ∈ l, ∀ i C, guard i q.k C = true ↔ i + (q.k : Int) ≤ C) :
    run guard C o = run idealGuard C o := by
  unfold run
  have key : ∀ (o : List Req) (c : Int), (∀ q ∈ o, ∀ i C, guard i q.k C = true ↔ i + (q.k : Int) ≤ C) →
      runFrom guard C o c = runFrom idealGuard C o c := by
    intro o
    induction o with
    | nil => intros; rfl
    | cons q qs ih =>
      intro c h
      simp only [runFrom]
      rw [ih _ (fun q' hq' => h q' (List.mem_cons_of_mem _ hq'))]
      have := h q List.mem_cons_self c C
      have h2 : guard c q.k C = idealGuard c q.k C := by
        simp only [idealGuard]
        cases hg : guard c q.k C
        · have : ¬ (c + (q.k : Int) ≤ C) := fun hc => by rw [this.mpr hc] at hg; cases hg
          simp [this]
        · simp [this.mp hg]
      rw [h2]
  exact key o 0 (fun q hq => hguard q (hp.subset hq))

/-- (1'') exact fit: if the requests add up to exactly the capacity, all are granted, nothing is reported -/
theorem alloc_exact_fit (o : List Req) :
    reported idealReport (final o) o = false ∧ ∀ g ∈ run idealGuard (final o) o, g.granted = true := by
  have hno : reported idealReport (final o) o = false := by simp [reported, idealReport]
  exact ⟨hno, (alloc_sound o o (List.Perm.refl _) (final o)).2.2.2.1 hno |>.1⟩

/-- the guard `if off >= C: return` of the k = 1 builders, `write_contact` and `_add_geom_pair` is the ideal
    guard for unit requests -/
theorem geGuard_unit (i C : Int) : geGuard i 1 C = true ↔ i + ((1 : Nat) : Int) ≤ C := by
  simp only [geGuard, Bool.not_eq_true', decide_eq_false_iff_not, ge_iff_le, Int.not_le]
  omega

/-- the ideal guard, as a proposition (connect/weld after the repair: `if efcid + k > njmax_in: return`) -/
theorem idealGuard_iff (i : Int) (k : Nat) (C : Int) : idealGuard i k C = true ↔ i + (k : Int) ≤ C := by
  simp only [idealGuard, decide_eq_true_eq]

/-- historical note: the guard `if off >= C - k: return` that connect/weld used BEFORE the repair is STRICTER than
    the ideal guard by one slot … -/
theorem geMinusGuard_iff (i : Int) (k : Nat) (C : Int) : geMinusGuard i k C = true ↔ i + (k : Int) < C := by
  simp only [geMinusGuard, Bool.not_eq_true', decide_eq_false_iff_not, ge_iff_le, Int.not_le]
  omega

/-- … so it is not an ideal guard: it differs exactly at the exact fit (one request of 3 into capacity 3 is dropped
    and `idealReport` stays silent) -/
theorem geMinusGuard_not_ideal :
    ¬ (∀ i C : Int, geMinusGuard i 3 C = true ↔ i + ((3 : Nat) : Int) ≤ C)
    ∧ run geMinusGuard 3 [⟨0, 3⟩] = [⟨0, 0, 3, false⟩] ∧ reported idealReport 3 [⟨0, 3⟩] = false := by
  refine ⟨fun h => ?_, by decide, by decide⟩
  have := (h 0 3).mpr (by decide)
  revert this; decide

/-- if every request is granted by the ideal guard (and `0 ≤ C`) the final counter value fits -/
theorem all_granted_final_le (l : List Req) (c C : Int) (hc : c ≤ C)
    (h : ∀ g ∈ runFrom idealGuard C l c, g.granted = true) : finalFrom l c ≤ C := by
  induction l generalizing c with
  | nil => exact hc
  | cons q qs ih =>
    simp only [runFrom, List.mem_cons, forall_eq_or_imp] at h
    simp only [finalFrom]
    apply ih
    · have := h.1
      simp only [idealGuard, decide_eq_true_eq] at this
      exact this
    · exact h.2

/-! ## 1b. The NJMAX_NNZ report kernel `constraint._nnz_overflow`

(launched by `make_constraint` in sparse mode after all row builders, with `efc_nnz_in` = the counter `efc_nnz` that the
builders' allocating atomics `atomic_add(efc_nnz_out, w, k·rownnz)` have accumulated) -/
section nnz_kernel
variable {K : Type} [Scalar K]

/-- (6a) **nnz_overflow_kernel**: the complete write list of the task of world `w`: it ORs NJMAX_NNZ (= 2) into
    `overflow_out[w]` iff `efc_nnz_in[w] > njmax_nnz_in`, and writes nothing otherwise. -/
theorem nnz_overflow_kernel (njmax_nnz_in : Int) (efc_nnz_in overflow_out : Int → Int) (w : Int) :
    Gen.Constraint._nnz_overflow (K := K) njmax_nnz_in efc_nnz_in overflow_out w
      = if efc_nnz_in w > njmax_nnz_in then
          [⟨"overflow_out", [w], WVal.i (Mjw.ior (overflow_out w) 2), WKind.set⟩]
        else [] :=
  nnz_overflow_eq njmax_nnz_in efc_nnz_in overflow_out w

/-- the word it writes has the NJMAX_NNZ bit, keeps every bit that was set, and sets no other bit -/
theorem nnz_overflow_word (x b : Int) : hasBit (Mjw.ior x 2) 2 ∧ (hasBit (Mjw.ior x 2) b ↔ hasBit x b ∨ hasBit 2 b) :=
  ⟨(hasBit_ior x 2 2).mpr (Or.inr (by decide)), hasBit_ior x 2 b⟩

/-- (6b) thread level, any write list `ws` (= any builder): if the thread's allocating atomic on `efc_nnz_out[w]`
    returned `a`, asked for `n`, the request is not granted (`¬ allocFits`), and the counter ends at least at `a + n`
    (it only grows: the other requests are ≥ 0), then `_nnz_overflow` writes the NJMAX_NNZ bit for world `w`. -/
theorem nnz_dropped_thread_reported (ws : List (Write K)) (w a cap n : Int)
    (hreq : allocReq ws "efc_nnz_out" [w] n) (hdrop : ¬ allocFits ws "efc_nnz_out" [w] a cap)
    (efc_nnz_in overflow_out : Int → Int) (hcount : a + n ≤ efc_nnz_in w) :
    Gen.Constraint._nnz_overflow (K := K) cap efc_nnz_in overflow_out w
      = [⟨"overflow_out", [w], WVal.i (Mjw.ior (overflow_out w) 2), WKind.set⟩] := by
  have hgt : a + n > cap := by
    apply Int.lt_of_not_ge
    intro hle
    apply hdrop
    obtain ⟨x, hx, h1, h2, h3, h4⟩ := hreq
    exact ⟨x, hx, h1, h2, h3, n, h4, hle⟩
  rw [nnz_overflow_kernel, if_pos (by omega)]

/-- (6) **nnz_overflow_never_silent**: let `o` be the nnz requests of the builder threads of world `w` in ANY order
    in which they perform their atomic (`Model/Alloc`: the atomic returns the running sum, the counter ends at
    `final o` = the sum of all requests, whatever is granted), and let `_nnz_overflow` read that counter.  Then
    (i)  for EVERY thread (any builder: any write list `ws` whose atomic asked for `g.k` and got `g.off`) whose request
         is not granted, the kernel writes the NJMAX_NNZ bit of world `w`;
    (ii) the same from the model's point of view: some request not granted ⇒ bit written;
    (iii) conversely, if every request is granted (`0 ≤ njmax_nnz`), the kernel writes nothing. -/
theorem nnz_overflow_never_silent (o : List Req) (cap : Int) (efc_nnz_in overflow_out : Int → Int) (w : Int)
    (hfin : efc_nnz_in w = final o) :
    (∀ g ∈ run idealGuard cap o, ∀ ws : List (Write K),
        allocReq ws "efc_nnz_out" [w] g.k → ¬ allocFits ws "efc_nnz_out" [w] g.off cap →
        Gen.Constraint._nnz_overflow (K := K) cap efc_nnz_in overflow_out w
          = [⟨"overflow_out", [w], WVal.i (Mjw.ior (overflow_out w) 2), WKind.set⟩])
    ∧ ((∃ g ∈ run idealGuard cap o, g.granted = false) →
        Gen.Constraint._nnz_overflow (K := K) cap efc_nnz_in overflow_out w
          = [⟨"overflow_out", [w], WVal.i (Mjw.ior (overflow_out w) 2), WKind.set⟩])
    ∧ (0 ≤ cap → (∀ g ∈ run idealGuard cap o, g.granted = true) →
        Gen.Constraint._nnz_overflow (K := K) cap efc_nnz_in overflow_out w = []) := by
  refine ⟨?_, ?_, ?_⟩
  · intro g hg ws hreq hdrop
    have hb := mem_runFrom_bounds idealGuard cap o 0 g hg
    have : finalFrom o 0 = final o := rfl
    exact nnz_dropped_thread_reported ws w g.off cap g.k hreq hdrop efc_nnz_in overflow_out (by omega)
  · intro hex
    have := (alloc_sound o o (List.Perm.refl _) cap).2.2.2.2 hex
    simp only [reported, idealReport, decide_eq_true_eq] at this
    rw [nnz_overflow_kernel, if_pos (by omega)]
  · intro hcap hall
    have := all_granted_final_le o 0 cap hcap hall
    have hf : finalFrom o 0 = final o := rfl
    rw [nnz_overflow_kernel, if_neg (by omega)]

/-- the counter value, hence the report, does not depend on the order of the atomics -/
theorem nnz_report_order_independent (l o : List Req) (hp : o.Perm l) (cap : Int) (ea eb overflow_out : Int → Int)
    (w : Int) (ha : ea w = final o) (hb : eb w = final l) :
    Gen.Constraint._nnz_overflow (K := K) cap ea overflow_out w
      = Gen.Constraint._nnz_overflow (K := K) cap eb overflow_out w := by
  rw [nnz_overflow_kernel, nnz_overflow_kernel, ha, hb, final_perm hp]
end nnz_kernel

/-! ## 2. The generated row builders

`writesRow ws arr wid r`  := the write list contains a `set` write to `arr[wid, r]`;
`reached ws ctr idx`      := it contains the allocating atomic (`WKind.alloc`) on `ctr[idx]`;
`allocFits ws ctr idx a cap` := it contains an allocating atomic on `ctr[idx]` asking for `n` with `a + n ≤ cap`;
`RowSafe wid lo hi cap sparse w` := if `w` writes a per-row array it writes `[wid, r]`, `lo ≤ r < hi`, `r < cap`
                                     (and the same for the row index of dense `efc_J_out[wid, r, dof]`).
In all kernels `worldid = tid0`, `efcid = alloc0` (value returned by `atomic_add(nefc_out, worldid, k)`),
`alloc2` = value returned by `atomic_add(efc_nnz_out, worldid, k*rownnz)` (sparse mode only). -/

/-! ### `_equality_connect__kernel`  —  k = 3, source guard `if efcid + 3 > njmax_in: return` -/
section equality_connect
variable {K : Type} [Scalar K] (nv : Int) (nsite : Int) (opt_timestep : (Int → K)) (opt_disableflags : Int) (body_parentid : (Int → Int)) (body_rootid : (Int → Int)) (body_weldid : (Int → Int)) (body_dofnum : (Int → Int)) (body_dofadr : (Int → Int)) (body_invweight0 : (Int → Int → V2 K)) (jnt_type : (Int → Int)) (jnt_dofadr : (Int → Int)) (dof_bodyid : (Int → Int)) (dof_jntid : (Int → Int)) (dof_parentid : (Int → Int)) (site_bodyid : (Int → Int)) (eq_obj1id : (Int → Int)) (eq_obj2id : (Int → Int)) (eq_objtype : (Int → Int)) (eq_solref : (Int → Int → V2 K)) (eq_solimp : (Int → Int → V5 K)) (eq_data : (Int → Int → V11 K)) (body_isdofancestor : (Int → Int → Int)) (eq_connect_adr : (Int → Int)) (qvel_in : (Int → Int → K)) (eq_active_in : (Int → Int → Bool)) (xpos_in : (Int → Int → V3 K)) (xmat_in : (Int → Int → M33 K)) (site_xpos_in : (Int → Int → V3 K)) (subtree_com_in : (Int → Int → V3 K)) (cdof_in : (Int → Int → V6 K)) (cvel_in : (Int → Int → V6 K)) (cdof_dot_in : (Int → Int → V6 K)) (subtree_linvel_in : (Int → Int → V3 K)) (njmax_in : Int) (njmax_nnz_in : Int) (ne_out : (Int → Int)) (nefc_out : (Int → Int)) (efc_type_out : (Int → Int → Int)) (efc_id_out : (Int → Int → Int)) (efc_jtdaj_adr_out : (Int → Int → Int)) (efc_jtdaj_nrow_out : (Int → Int → Int)) (efc_jtdaj_nblock_out : (Int → Int)) (efc_J_rownnz_out : (Int → Int → Int)) (efc_J_rowadr_out : (Int → Int → Int)) (efc_J_colind_out : (Int → Int → Int → Int)) (efc_J_out : (Int → Int → Int → K)) (efc_pos_out : (Int → Int → K)) (efc_margin_out : (Int → Int → K)) (efc_D_out : (Int → Int → K)) (efc_vel_out : (Int → Int → K)) (efc_aref_out : (Int → Int → K)) (efc_frictionloss_out : (Int → Int → K)) (efc_nnz_out : (Int → Int)) (alloc0 : Int) (st_is_sparse_and_newton : Bool) (alloc1 : Int) (eq_data_shape0 : Int) (body_invweight0_shape0 : Int) (st_is_sparse : Bool) (alloc2 : Int) (eq_solref_shape0 : Int) (eq_solimp_shape0 : Int) (opt_timestep_shape0 : Int) (fuel : Nat) (tid0 : Int) (tid1 : Int)
local notation "KW" => Gen.Constraint._equality_connect__kernel nv nsite opt_timestep opt_disableflags body_parentid body_rootid body_weldid body_dofnum body_dofadr body_invweight0 jnt_type jnt_dofadr dof_bodyid dof_jntid dof_parentid site_bodyid eq_obj1id eq_obj2id eq_objtype eq_solref eq_solimp eq_data body_isdofancestor eq_connect_adr qvel_in eq_active_in xpos_in xmat_in site_xpos_in subtree_com_in cdof_in cvel_in cdof_dot_in subtree_linvel_in njmax_in njmax_nnz_in ne_out nefc_out efc_type_out efc_id_out efc_jtdaj_adr_out efc_jtdaj_nrow_out efc_jtdaj_nblock_out efc_J_rownnz_out efc_J_rowadr_out efc_J_colind_out efc_J_out efc_pos_out efc_margin_out efc_D_out efc_vel_out efc_aref_out efc_frictionloss_out efc_nnz_out alloc0 st_is_sparse_and_newton alloc1 eq_data_shape0 body_invweight0_shape0 st_is_sparse alloc2 eq_solref_shape0 eq_solimp_shape0 opt_timestep_shape0 fuel tid0 tid1

/-- index safety, all inputs: every write of the thread to a per-row constraint array (`rowArrays`, and `efc_J_out`
    in dense mode) goes to `[worldid, r]` with `alloc0 ≤ r < alloc0 + 3` and `r < njmax_in`. -/
theorem equality_connect_safe : ∀ w ∈ KW, RowSafe tid0 alloc0 (alloc0 + 3) njmax_in st_is_sparse w :=
  Lemmas.C16.equality_connect_safe nv nsite opt_timestep opt_disableflags body_parentid body_rootid body_weldid body_dofnum body_dofadr body_invweight0 jnt_type jnt_dofadr dof_bodyid dof_jntid dof_parentid site_bodyid eq_obj1id eq_obj2id eq_objtype eq_solref eq_solimp eq_data body_isdofancestor eq_connect_adr qvel_in eq_active_in xpos_in xmat_in site_xpos_in subtree_com_in cdof_in cvel_in cdof_dot_in subtree_linvel_in njmax_in njmax_nnz_in ne_out nefc_out efc_type_out efc_id_out efc_jtdaj_adr_out efc_jtdaj_nrow_out efc_jtdaj_nblock_out efc_J_rownnz_out efc_J_rowadr_out efc_J_colind_out efc_J_out efc_pos_out efc_margin_out efc_D_out efc_vel_out efc_aref_out efc_frictionloss_out efc_nnz_out alloc0 st_is_sparse_and_newton alloc1 eq_data_shape0 body_invweight0_shape0 st_is_sparse alloc2 eq_solref_shape0 eq_solimp_shape0 opt_timestep_shape0 fuel tid0 tid1

/-- **equality_connect_guard**: the thread sets `efc_type_out[worldid, r]` ⇔ it reached the allocating atomic on
    `nefc_out[worldid]`, `alloc0 + 3 ≤ njmax_in` (the guard is exact: the exact fit `alloc0 + 3 = njmax_in` passes), in
    sparse mode its nnz request fits, and `alloc0 ≤ r < alloc0 + 3`.
    (Before the repair of /repo the guard was `efcid >= njmax_in - 3`, which rejected the exact fit silently.) -/
theorem equality_connect_guard (r : Int) : writesRow KW "efc_type_out" tid0 r ↔
    (reached KW "nefc_out" [tid0] ∧ alloc0 + 3 ≤ njmax_in
      ∧ (st_is_sparse = true → allocFits KW "efc_nnz_out" [tid0] alloc2 njmax_nnz_in)
      ∧ alloc0 ≤ r ∧ r < alloc0 + 3) :=
  Lemmas.C16.equality_connect_rows nv nsite opt_timestep opt_disableflags body_parentid body_rootid body_weldid body_dofnum body_dofadr body_invweight0 jnt_type jnt_dofadr dof_bodyid dof_jntid dof_parentid site_bodyid eq_obj1id eq_obj2id eq_objtype eq_solref eq_solimp eq_data body_isdofancestor eq_connect_adr qvel_in eq_active_in xpos_in xmat_in site_xpos_in subtree_com_in cdof_in cvel_in cdof_dot_in subtree_linvel_in njmax_in njmax_nnz_in ne_out nefc_out efc_type_out efc_id_out efc_jtdaj_adr_out efc_jtdaj_nrow_out efc_jtdaj_nblock_out efc_J_rownnz_out efc_J_rowadr_out efc_J_colind_out efc_J_out efc_pos_out efc_margin_out efc_D_out efc_vel_out efc_aref_out efc_frictionloss_out efc_nnz_out alloc0 st_is_sparse_and_newton alloc1 eq_data_shape0 body_invweight0_shape0 st_is_sparse alloc2 eq_solref_shape0 eq_solimp_shape0 opt_timestep_shape0 fuel tid0 tid1 r

/-- **equality_connect_exact_fit**: if the thread reached the atomic and its 3 rows fit (`alloc0 + 3 ≤ njmax_in`, exact fit
    included) it writes rows `alloc0 … alloc0 + 2` (dense mode, or nnz request granted). -/
theorem equality_connect_exact_fit (hr : reached KW "nefc_out" [tid0]) (hfit : alloc0 + 3 ≤ njmax_in)
    (hnnz : st_is_sparse = true → allocFits KW "efc_nnz_out" [tid0] alloc2 njmax_nnz_in)
    (r : Int) (h1 : alloc0 ≤ r) (h2 : r < alloc0 + 3) :
    writesRow KW "efc_type_out" tid0 r :=
  (equality_connect_guard nv nsite opt_timestep opt_disableflags body_parentid body_rootid body_weldid body_dofnum body_dofadr body_invweight0 jnt_type jnt_dofadr dof_bodyid dof_jntid dof_parentid site_bodyid eq_obj1id eq_obj2id eq_objtype eq_solref eq_solimp eq_data body_isdofancestor eq_connect_adr qvel_in eq_active_in xpos_in xmat_in site_xpos_in subtree_com_in cdof_in cvel_in cdof_dot_in subtree_linvel_in njmax_in njmax_nnz_in ne_out nefc_out efc_type_out efc_id_out efc_jtdaj_adr_out efc_jtdaj_nrow_out efc_jtdaj_nblock_out efc_J_rownnz_out efc_J_rowadr_out efc_J_colind_out efc_J_out efc_pos_out efc_margin_out efc_D_out efc_vel_out efc_aref_out efc_frictionloss_out efc_nnz_out alloc0 st_is_sparse_and_newton alloc1 eq_data_shape0 body_invweight0_shape0 st_is_sparse alloc2 eq_solref_shape0 eq_solimp_shape0 opt_timestep_shape0 fuel tid0 tid1 r).mpr ⟨hr, hfit, hnnz, h1, h2⟩

/-- NNZ side: in sparse mode a thread whose nnz request does not fit writes NONE of its rows (it returns before
    `_efc_row`), although the rows were allocated and counted in `nefc`. -/
theorem equality_connect_nnz_dropped (hs : st_is_sparse = true)
    (hdrop : ¬ allocFits KW "efc_nnz_out" [tid0] alloc2 njmax_nnz_in) (r : Int) :
    ¬ writesRow KW "efc_type_out" tid0 r := by
  rw [equality_connect_guard]
  rintro ⟨_, _, h, _⟩
  exact hdrop (h hs)

/-- NJMAX_NNZ is never silent for this builder: a thread that performed its nnz atomic (returned `alloc2`) and whose request
    is not granted makes `_nnz_overflow` write the NJMAX_NNZ bit of its world, provided the counter ends at least at
    `alloc2 + request` (it does: the counter is the sum of all requests, `nnz_overflow_never_silent`). -/
theorem equality_connect_nnz_overflow_never_silent (hr : reached KW "efc_nnz_out" [tid0])
    (hdrop : ¬ allocFits KW "efc_nnz_out" [tid0] alloc2 njmax_nnz_in) (efc_nnz_in overflow_out : Int → Int)
    (hcount : ∀ n, allocReq KW "efc_nnz_out" [tid0] n → alloc2 + n ≤ efc_nnz_in tid0) :
    Gen.Constraint._nnz_overflow (K := K) njmax_nnz_in efc_nnz_in overflow_out tid0
      = [⟨"overflow_out", [tid0], WVal.i (Mjw.ior (overflow_out tid0) 2), WKind.set⟩] := by
  obtain ⟨n, hn⟩ := Lemmas.C16.equality_connect_nnz_req nv nsite opt_timestep opt_disableflags body_parentid body_rootid body_weldid body_dofnum body_dofadr body_invweight0 jnt_type jnt_dofadr dof_bodyid dof_jntid dof_parentid site_bodyid eq_obj1id eq_obj2id eq_objtype eq_solref eq_solimp eq_data body_isdofancestor eq_connect_adr qvel_in eq_active_in xpos_in xmat_in site_xpos_in subtree_com_in cdof_in cvel_in cdof_dot_in subtree_linvel_in njmax_in njmax_nnz_in ne_out nefc_out efc_type_out efc_id_out efc_jtdaj_adr_out efc_jtdaj_nrow_out efc_jtdaj_nblock_out efc_J_rownnz_out efc_J_rowadr_out efc_J_colind_out efc_J_out efc_pos_out efc_margin_out efc_D_out efc_vel_out efc_aref_out efc_frictionloss_out efc_nnz_out alloc0 st_is_sparse_and_newton alloc1 eq_data_shape0 body_invweight0_shape0 st_is_sparse alloc2 eq_solref_shape0 eq_solimp_shape0 opt_timestep_shape0 fuel tid0 tid1 hr
  exact nnz_dropped_thread_reported _ tid0 alloc2 njmax_nnz_in n hn hdrop efc_nnz_in overflow_out (hcount n hn)

/-- **equality_connect_dropped_row_untouched**: this builder stores `rowadr/rownnz` AFTER the nnz guard: a dropped thread writes
    neither cell of any row, and none of its rows. -/
theorem equality_connect_dropped_row_untouched (hs : st_is_sparse = true)
    (hdrop : ¬ allocFits KW "efc_nnz_out" [tid0] alloc2 njmax_nnz_in) (r v : Int) :
    ¬ cellI KW "efc_J_rowadr_out" tid0 r v ∧ ¬ cellI KW "efc_J_rownnz_out" tid0 r v
    ∧ ¬ writesRow KW "efc_type_out" tid0 r :=
  ⟨(Lemmas.C16.equality_connect_dropped_no_cells nv nsite opt_timestep opt_disableflags body_parentid body_rootid body_weldid body_dofnum body_dofadr body_invweight0 jnt_type jnt_dofadr dof_bodyid dof_jntid dof_parentid site_bodyid eq_obj1id eq_obj2id eq_objtype eq_solref eq_solimp eq_data body_isdofancestor eq_connect_adr qvel_in eq_active_in xpos_in xmat_in site_xpos_in subtree_com_in cdof_in cvel_in cdof_dot_in subtree_linvel_in njmax_in njmax_nnz_in ne_out nefc_out efc_type_out efc_id_out efc_jtdaj_adr_out efc_jtdaj_nrow_out efc_jtdaj_nblock_out efc_J_rownnz_out efc_J_rowadr_out efc_J_colind_out efc_J_out efc_pos_out efc_margin_out efc_D_out efc_vel_out efc_aref_out efc_frictionloss_out efc_nnz_out alloc0 st_is_sparse_and_newton alloc1 eq_data_shape0 body_invweight0_shape0 st_is_sparse alloc2 eq_solref_shape0 eq_solimp_shape0 opt_timestep_shape0 fuel tid0 tid1 hs hdrop r v).1,
   (Lemmas.C16.equality_connect_dropped_no_cells nv nsite opt_timestep opt_disableflags body_parentid body_rootid body_weldid body_dofnum body_dofadr body_invweight0 jnt_type jnt_dofadr dof_bodyid dof_jntid dof_parentid site_bodyid eq_obj1id eq_obj2id eq_objtype eq_solref eq_solimp eq_data body_isdofancestor eq_connect_adr qvel_in eq_active_in xpos_in xmat_in site_xpos_in subtree_com_in cdof_in cvel_in cdof_dot_in subtree_linvel_in njmax_in njmax_nnz_in ne_out nefc_out efc_type_out efc_id_out efc_jtdaj_adr_out efc_jtdaj_nrow_out efc_jtdaj_nblock_out efc_J_rownnz_out efc_J_rowadr_out efc_J_colind_out efc_J_out efc_pos_out efc_margin_out efc_D_out efc_vel_out efc_aref_out efc_frictionloss_out efc_nnz_out alloc0 st_is_sparse_and_newton alloc1 eq_data_shape0 body_invweight0_shape0 st_is_sparse alloc2 eq_solref_shape0 eq_solimp_shape0 opt_timestep_shape0 fuel tid0 tid1 hs hdrop r v).2,
   equality_connect_nnz_dropped nv nsite opt_timestep opt_disableflags body_parentid body_rootid body_weldid body_dofnum body_dofadr body_invweight0 jnt_type jnt_dofadr dof_bodyid dof_jntid dof_parentid site_bodyid eq_obj1id eq_obj2id eq_objtype eq_solref eq_solimp eq_data body_isdofancestor eq_connect_adr qvel_in eq_active_in xpos_in xmat_in site_xpos_in subtree_com_in cdof_in cvel_in cdof_dot_in subtree_linvel_in njmax_in njmax_nnz_in ne_out nefc_out efc_type_out efc_id_out efc_jtdaj_adr_out efc_jtdaj_nrow_out efc_jtdaj_nblock_out efc_J_rownnz_out efc_J_rowadr_out efc_J_colind_out efc_J_out efc_pos_out efc_margin_out efc_D_out efc_vel_out efc_aref_out efc_frictionloss_out efc_nnz_out alloc0 st_is_sparse_and_newton alloc1 eq_data_shape0 body_invweight0_shape0 st_is_sparse alloc2 eq_solref_shape0 eq_solimp_shape0 opt_timestep_shape0 fuel tid0 tid1 hs hdrop r⟩

/-- capacity transparency: the thread's COMPLETE write list (all arrays, all values) is the same for any two row
    capacities under which it passes the row guard — `njmax_in` enters the kernel through the guard only
    ("if nothing is dropped the result equals the one with ample capacity", thread level). -/
theorem equality_connect_capacity_transparent (njmax_in2 : Int) (h1 : alloc0 + 3 ≤ njmax_in) (h2 : alloc0 + 3 ≤ njmax_in2) :
    KW = Gen.Constraint._equality_connect__kernel nv nsite opt_timestep opt_disableflags body_parentid body_rootid body_weldid body_dofnum body_dofadr body_invweight0 jnt_type jnt_dofadr dof_bodyid dof_jntid dof_parentid site_bodyid eq_obj1id eq_obj2id eq_objtype eq_solref eq_solimp eq_data body_isdofancestor eq_connect_adr qvel_in eq_active_in xpos_in xmat_in site_xpos_in subtree_com_in cdof_in cvel_in cdof_dot_in subtree_linvel_in njmax_in2 njmax_nnz_in ne_out nefc_out efc_type_out efc_id_out efc_jtdaj_adr_out efc_jtdaj_nrow_out efc_jtdaj_nblock_out efc_J_rownnz_out efc_J_rowadr_out efc_J_colind_out efc_J_out efc_pos_out efc_margin_out efc_D_out efc_vel_out efc_aref_out efc_frictionloss_out efc_nnz_out alloc0 st_is_sparse_and_newton alloc1 eq_data_shape0 body_invweight0_shape0 st_is_sparse alloc2 eq_solref_shape0 eq_solimp_shape0 opt_timestep_shape0 fuel tid0 tid1 := by
  have e1 : decide (alloc0 + 3 > njmax_in) = false := by simp; omega
  have e2 : decide (alloc0 + 3 > njmax_in2) = false := by simp; omega
  unfold Gen.Constraint._equality_connect__kernel
  simp only [e1, e2]

/-- the thread as a `Builder` (function of the value returned by its allocating atomic) -/
def equality_connect_builder : Builder K where
  k := 3
  wid := tid0
  arr := "efc_type_out"
  run := fun a => Gen.Constraint._equality_connect__kernel nv nsite opt_timestep opt_disableflags body_parentid body_rootid body_weldid body_dofnum body_dofadr body_invweight0 jnt_type jnt_dofadr dof_bodyid dof_jntid dof_parentid site_bodyid eq_obj1id eq_obj2id eq_objtype eq_solref eq_solimp eq_data body_isdofancestor eq_connect_adr qvel_in eq_active_in xpos_in xmat_in site_xpos_in subtree_com_in cdof_in cvel_in cdof_dot_in subtree_linvel_in njmax_in njmax_nnz_in ne_out nefc_out efc_type_out efc_id_out efc_jtdaj_adr_out efc_jtdaj_nrow_out efc_jtdaj_nblock_out efc_J_rownnz_out efc_J_rowadr_out efc_J_colind_out efc_J_out efc_pos_out efc_margin_out efc_D_out efc_vel_out efc_aref_out efc_frictionloss_out efc_nnz_out a st_is_sparse_and_newton alloc1 eq_data_shape0 body_invweight0_shape0 st_is_sparse alloc2 eq_solref_shape0 eq_solimp_shape0 opt_timestep_shape0 fuel tid0 tid1
  ok := fun a => st_is_sparse = true → allocFits (Gen.Constraint._equality_connect__kernel nv nsite opt_timestep opt_disableflags body_parentid body_rootid body_weldid body_dofnum body_dofadr body_invweight0 jnt_type jnt_dofadr dof_bodyid dof_jntid dof_parentid site_bodyid eq_obj1id eq_obj2id eq_objtype eq_solref eq_solimp eq_data body_isdofancestor eq_connect_adr qvel_in eq_active_in xpos_in xmat_in site_xpos_in subtree_com_in cdof_in cvel_in cdof_dot_in subtree_linvel_in njmax_in njmax_nnz_in ne_out nefc_out efc_type_out efc_id_out efc_jtdaj_adr_out efc_jtdaj_nrow_out efc_jtdaj_nblock_out efc_J_rownnz_out efc_J_rowadr_out efc_J_colind_out efc_J_out efc_pos_out efc_margin_out efc_D_out efc_vel_out efc_aref_out efc_frictionloss_out efc_nnz_out a st_is_sparse_and_newton alloc1 eq_data_shape0 body_invweight0_shape0 st_is_sparse alloc2 eq_solref_shape0 eq_solimp_shape0 opt_timestep_shape0 fuel tid0 tid1) "efc_nnz_out" [tid0] alloc2 njmax_nnz_in

/-- the kernel obeys the model guard `Alloc.idealGuard` -/
theorem equality_connect_obeys : (equality_connect_builder nv nsite opt_timestep opt_disableflags body_parentid body_rootid body_weldid body_dofnum body_dofadr body_invweight0 jnt_type jnt_dofadr dof_bodyid dof_jntid dof_parentid site_bodyid eq_obj1id eq_obj2id eq_objtype eq_solref eq_solimp eq_data body_isdofancestor eq_connect_adr qvel_in eq_active_in xpos_in xmat_in site_xpos_in subtree_com_in cdof_in cvel_in cdof_dot_in subtree_linvel_in njmax_in njmax_nnz_in ne_out nefc_out efc_type_out efc_id_out efc_jtdaj_adr_out efc_jtdaj_nrow_out efc_jtdaj_nblock_out efc_J_rownnz_out efc_J_rowadr_out efc_J_colind_out efc_J_out efc_pos_out efc_margin_out efc_D_out efc_vel_out efc_aref_out efc_frictionloss_out efc_nnz_out st_is_sparse_and_newton alloc1 eq_data_shape0 body_invweight0_shape0 st_is_sparse alloc2 eq_solref_shape0 eq_solimp_shape0 opt_timestep_shape0 fuel tid0 tid1).obeys Alloc.idealGuard njmax_in := by
  intro a hreq hok hg r h1 h2
  have hg' : a + 3 ≤ njmax_in := by
    simp only [Alloc.idealGuard, decide_eq_true_eq] at hg
    exact hg
  exact (equality_connect_guard nv nsite opt_timestep opt_disableflags body_parentid body_rootid body_weldid body_dofnum body_dofadr body_invweight0 jnt_type jnt_dofadr dof_bodyid dof_jntid dof_parentid site_bodyid eq_obj1id eq_obj2id eq_objtype eq_solref eq_solimp eq_data body_isdofancestor eq_connect_adr qvel_in eq_active_in xpos_in xmat_in site_xpos_in subtree_com_in cdof_in cvel_in cdof_dot_in subtree_linvel_in njmax_in njmax_nnz_in ne_out nefc_out efc_type_out efc_id_out efc_jtdaj_adr_out efc_jtdaj_nrow_out efc_jtdaj_nblock_out efc_J_rownnz_out efc_J_rowadr_out efc_J_colind_out efc_J_out efc_pos_out efc_margin_out efc_D_out efc_vel_out efc_aref_out efc_frictionloss_out efc_nnz_out a st_is_sparse_and_newton alloc1 eq_data_shape0 body_invweight0_shape0 st_is_sparse alloc2 eq_solref_shape0 eq_solimp_shape0 opt_timestep_shape0 fuel tid0 tid1 r).mpr ⟨allocReq_reached _ _ _ _ hreq, hg', hok, h1, h2⟩

/-- hence it is exact: rows that fit are written -/
theorem equality_connect_exact : (equality_connect_builder nv nsite opt_timestep opt_disableflags body_parentid body_rootid body_weldid body_dofnum body_dofadr body_invweight0 jnt_type jnt_dofadr dof_bodyid dof_jntid dof_parentid site_bodyid eq_obj1id eq_obj2id eq_objtype eq_solref eq_solimp eq_data body_isdofancestor eq_connect_adr qvel_in eq_active_in xpos_in xmat_in site_xpos_in subtree_com_in cdof_in cvel_in cdof_dot_in subtree_linvel_in njmax_in njmax_nnz_in ne_out nefc_out efc_type_out efc_id_out efc_jtdaj_adr_out efc_jtdaj_nrow_out efc_jtdaj_nblock_out efc_J_rownnz_out efc_J_rowadr_out efc_J_colind_out efc_J_out efc_pos_out efc_margin_out efc_D_out efc_vel_out efc_aref_out efc_frictionloss_out efc_nnz_out st_is_sparse_and_newton alloc1 eq_data_shape0 body_invweight0_shape0 st_is_sparse alloc2 eq_solref_shape0 eq_solimp_shape0 opt_timestep_shape0 fuel tid0 tid1).exact njmax_in :=
  Builder.exact_of_obeys _ Alloc.idealGuard njmax_in (fun i C => idealGuard_iff i 3 C) (equality_connect_obeys nv nsite opt_timestep opt_disableflags body_parentid body_rootid body_weldid body_dofnum body_dofadr body_invweight0 jnt_type jnt_dofadr dof_bodyid dof_jntid dof_parentid site_bodyid eq_obj1id eq_obj2id eq_objtype eq_solref eq_solimp eq_data body_isdofancestor eq_connect_adr qvel_in eq_active_in xpos_in xmat_in site_xpos_in subtree_com_in cdof_in cvel_in cdof_dot_in subtree_linvel_in njmax_in njmax_nnz_in ne_out nefc_out efc_type_out efc_id_out efc_jtdaj_adr_out efc_jtdaj_nrow_out efc_jtdaj_nblock_out efc_J_rownnz_out efc_J_rowadr_out efc_J_colind_out efc_J_out efc_pos_out efc_margin_out efc_D_out efc_vel_out efc_aref_out efc_frictionloss_out efc_nnz_out st_is_sparse_and_newton alloc1 eq_data_shape0 body_invweight0_shape0 st_is_sparse alloc2 eq_solref_shape0 eq_solimp_shape0 opt_timestep_shape0 fuel tid0 tid1)
end equality_connect


/-! ### `_equality_weld__kernel`  —  k = 6, source guard `if efcid + 6 > njmax_in: return` -/
section equality_weld
variable {K : Type} [Scalar K] (nv : Int) (nsite : Int) (opt_timestep : (Int → K)) (opt_disableflags : Int) (body_parentid : (Int → Int)) (body_rootid : (Int → Int)) (body_weldid : (Int → Int)) (body_dofnum : (Int → Int)) (body_dofadr : (Int → Int)) (body_invweight0 : (Int → Int → V2 K)) (jnt_type : (Int → Int)) (jnt_dofadr : (Int → Int)) (dof_bodyid : (Int → Int)) (dof_jntid : (Int → Int)) (dof_parentid : (Int → Int)) (site_bodyid : (Int → Int)) (site_quat : (Int → Int → Q K)) (eq_obj1id : (Int → Int)) (eq_obj2id : (Int → Int)) (eq_objtype : (Int → Int)) (eq_solref : (Int → Int → V2 K)) (eq_solimp : (Int → Int → V5 K)) (eq_data : (Int → Int → V11 K)) (body_isdofancestor : (Int → Int → Int)) (eq_wld_adr : (Int → Int)) (qvel_in : (Int → Int → K)) (eq_active_in : (Int → Int → Bool)) (xpos_in : (Int → Int → V3 K)) (xquat_in : (Int → Int → Q K)) (xmat_in : (Int → Int → M33 K)) (site_xpos_in : (Int → Int → V3 K)) (subtree_com_in : (Int → Int → V3 K)) (cdof_in : (Int → Int → V6 K)) (cvel_in : (Int → Int → V6 K)) (cdof_dot_in : (Int → Int → V6 K)) (subtree_linvel_in : (Int → Int → V3 K)) (njmax_in : Int) (njmax_nnz_in : Int) (ne_out : (Int → Int)) (nefc_out : (Int → Int)) (efc_type_out : (Int → Int → Int)) (efc_id_out : (Int → Int → Int)) (efc_jtdaj_adr_out : (Int → Int → Int)) (efc_jtdaj_nrow_out : (Int → Int → Int)) (efc_jtdaj_nblock_out : (Int → Int)) (efc_J_rownnz_out : (Int → Int → Int)) (efc_J_rowadr_out : (Int → Int → Int)) (efc_J_colind_out : (Int → Int → Int → Int)) (efc_J_out : (Int → Int → Int → K)) (efc_pos_out : (Int → Int → K)) (efc_margin_out : (Int → Int → K)) (efc_D_out : (Int → Int → K)) (efc_vel_out : (Int → Int → K)) (efc_aref_out : (Int → Int → K)) (efc_frictionloss_out : (Int → Int → K)) (efc_nnz_out : (Int → Int)) (alloc0 : Int) (st_is_sparse_and_newton : Bool) (alloc1 : Int) (eq_data_shape0 : Int) (site_quat_shape0 : Int) (body_invweight0_shape0 : Int) (st_is_sparse : Bool) (alloc2 : Int) (eq_solref_shape0 : Int) (eq_solimp_shape0 : Int) (opt_timestep_shape0 : Int) (fuel : Nat) (tid0 : Int) (tid1 : Int)
local notation "KW" => Gen.Constraint._equality_weld__kernel nv nsite opt_timestep opt_disableflags body_parentid body_rootid body_weldid body_dofnum body_dofadr body_invweight0 jnt_type jnt_dofadr dof_bodyid dof_jntid dof_parentid site_bodyid site_quat eq_obj1id eq_obj2id eq_objtype eq_solref eq_solimp eq_data body_isdofancestor eq_wld_adr qvel_in eq_active_in xpos_in xquat_in xmat_in site_xpos_in subtree_com_in cdof_in cvel_in cdof_dot_in subtree_linvel_in njmax_in njmax_nnz_in ne_out nefc_out efc_type_out efc_id_out efc_jtdaj_adr_out efc_jtdaj_nrow_out efc_jtdaj_nblock_out efc_J_rownnz_out efc_J_rowadr_out efc_J_colind_out efc_J_out efc_pos_out efc_margin_out efc_D_out efc_vel_out efc_aref_out efc_frictionloss_out efc_nnz_out alloc0 st_is_sparse_and_newton alloc1 eq_data_shape0 site_quat_shape0 body_invweight0_shape0 st_is_sparse alloc2 eq_solref_shape0 eq_solimp_shape0 opt_timestep_shape0 fuel tid0 tid1

/-- index safety, all inputs: every write of the thread to a per-row constraint array (`rowArrays`, and `efc_J_out`
    in dense mode) goes to `[worldid, r]` with `alloc0 ≤ r < alloc0 + 6` and `r < njmax_in`. -/
theorem equality_weld_safe : ∀ w ∈ KW, RowSafe tid0 alloc0 (alloc0 + 6) njmax_in st_is_sparse w :=
  Lemmas.C16.equality_weld_safe nv nsite opt_timestep opt_disableflags body_parentid body_rootid body_weldid body_dofnum body_dofadr body_invweight0 jnt_type jnt_dofadr dof_bodyid dof_jntid dof_parentid site_bodyid site_quat eq_obj1id eq_obj2id eq_objtype eq_solref eq_solimp eq_data body_isdofancestor eq_wld_adr qvel_in eq_active_in xpos_in xquat_in xmat_in site_xpos_in subtree_com_in cdof_in cvel_in cdof_dot_in subtree_linvel_in njmax_in njmax_nnz_in ne_out nefc_out efc_type_out efc_id_out efc_jtdaj_adr_out efc_jtdaj_nrow_out efc_jtdaj_nblock_out efc_J_rownnz_out efc_J_rowadr_out efc_J_colind_out efc_J_out efc_pos_out efc_margin_out efc_D_out efc_vel_out efc_aref_out efc_frictionloss_out efc_nnz_out alloc0 st_is_sparse_and_newton alloc1 eq_data_shape0 site_quat_shape0 body_invweight0_shape0 st_is_sparse alloc2 eq_solref_shape0 eq_solimp_shape0 opt_timestep_shape0 fuel tid0 tid1

/-- **equality_weld_guard**: the thread sets `efc_type_out[worldid, r]` ⇔ it reached the allocating atomic on
    `nefc_out[worldid]`, `alloc0 + 6 ≤ njmax_in` (the guard is exact: the exact fit `alloc0 + 6 = njmax_in` passes), in
    sparse mode its nnz request fits, and `alloc0 ≤ r < alloc0 + 6`.
    (Before the repair of /repo the guard was `efcid >= njmax_in - 6`, which rejected the exact fit silently.) -/
theorem equality_weld_guard (r : Int) : writesRow KW "efc_type_out" tid0 r ↔
    (reached KW "nefc_out" [tid0] ∧ alloc0 + 6 ≤ njmax_in
      ∧ (st_is_sparse = true → allocFits KW "efc_nnz_out" [tid0] alloc2 njmax_nnz_in)
      ∧ alloc0 ≤ r ∧ r < alloc0 + 6) :=
  Lemmas.C16.equality_weld_rows nv nsite opt_timestep opt_disableflags body_parentid body_rootid body_weldid body_dofnum body_dofadr body_invweight0 jnt_type jnt_dofadr dof_bodyid dof_jntid dof_parentid site_bodyid site_quat eq_obj1id eq_obj2id eq_objtype eq_solref eq_solimp eq_data body_isdofancestor eq_wld_adr qvel_in eq_active_in xpos_in xquat_in xmat_in site_xpos_in subtree_com_in cdof_in cvel_in cdof_dot_in subtree_linvel_in njmax_in njmax_nnz_in ne_out nefc_out efc_type_out efc_id_out efc_jtdaj_adr_out efc_jtdaj_nrow_out efc_jtdaj_nblock_out efc_J_rownnz_out efc_J_rowadr_out efc_J_colind_out efc_J_out efc_pos_out efc_margin_out efc_D_out efc_vel_out efc_aref_out efc_frictionloss_out efc_nnz_out alloc0 st_is_sparse_and_newton alloc1 eq_data_shape0 site_quat_shape0 body_invweight0_shape0 st_is_sparse alloc2 eq_solref_shape0 eq_solimp_shape0 opt_timestep_shape0 fuel tid0 tid1 r

/-- **equality_weld_exact_fit**: if the thread reached the atomic and its 6 rows fit (`alloc0 + 6 ≤ njmax_in`, exact fit
    included) it writes rows `alloc0 … alloc0 + 5` (dense mode, or nnz request granted). -/
theorem equality_weld_exact_fit (hr : reached KW "nefc_out" [tid0]) (hfit : alloc0 + 6 ≤ njmax_in)
    (hnnz : st_is_sparse = true → allocFits KW "efc_nnz_out" [tid0] alloc2 njmax_nnz_in)
    (r : Int) (h1 : alloc0 ≤ r) (h2 : r < alloc0 + 6) :
    writesRow KW "efc_type_out" tid0 r :=
  (equality_weld_guard nv nsite opt_timestep opt_disableflags body_parentid body_rootid body_weldid body_dofnum body_dofadr body_invweight0 jnt_type jnt_dofadr dof_bodyid dof_jntid dof_parentid site_bodyid site_quat eq_obj1id eq_obj2id eq_objtype eq_solref eq_solimp eq_data body_isdofancestor eq_wld_adr qvel_in eq_active_in xpos_in xquat_in xmat_in site_xpos_in subtree_com_in cdof_in cvel_in cdof_dot_in subtree_linvel_in njmax_in njmax_nnz_in ne_out nefc_out efc_type_out efc_id_out efc_jtdaj_adr_out efc_jtdaj_nrow_out efc_jtdaj_nblock_out efc_J_rownnz_out efc_J_rowadr_out efc_J_colind_out efc_J_out efc_pos_out efc_margin_out efc_D_out efc_vel_out efc_aref_out efc_frictionloss_out efc_nnz_out alloc0 st_is_sparse_and_newton alloc1 eq_data_shape0 site_quat_shape0 body_invweight0_shape0 st_is_sparse alloc2 eq_solref_shape0 eq_solimp_shape0 opt_timestep_shape0 fuel tid0 tid1 r).mpr ⟨hr, hfit, hnnz, h1, h2⟩

/-- NNZ side: in sparse mode a thread whose nnz request does not fit writes NONE of its rows (it returns before
    `_efc_row`), although the rows were allocated and counted in `nefc`. -/
theorem equality_weld_nnz_dropped (hs : st_is_sparse = true)
    (hdrop : ¬ allocFits KW "efc_nnz_out" [tid0] alloc2 njmax_nnz_in) (r : Int) :
    ¬ writesRow KW "efc_type_out" tid0 r := by
  rw [equality_weld_guard]
  rintro ⟨_, _, h, _⟩
  exact hdrop (h hs)

/-- NJMAX_NNZ is never silent for this builder: a thread that performed its nnz atomic (returned `alloc2`) and whose request
    is not granted makes `_nnz_overflow` write the NJMAX_NNZ bit of its world, provided the counter ends at least at
    `alloc2 + request` (it does: the counter is the sum of all requests, `nnz_overflow_never_silent`). -/
theorem equality_weld_nnz_overflow_never_silent (hr : reached KW "efc_nnz_out" [tid0])
    (hdrop : ¬ allocFits KW "efc_nnz_out" [tid0] alloc2 njmax_nnz_in) (efc_nnz_in overflow_out : Int → Int)
    (hcount : ∀ n, allocReq KW "efc_nnz_out" [tid0] n → alloc2 + n ≤ efc_nnz_in tid0) :
    Gen.Constraint._nnz_overflow (K := K) njmax_nnz_in efc_nnz_in overflow_out tid0
      = [⟨"overflow_out", [tid0], WVal.i (Mjw.ior (overflow_out tid0) 2), WKind.set⟩] := by
  obtain ⟨n, hn⟩ := Lemmas.C16.equality_weld_nnz_req nv nsite opt_timestep opt_disableflags body_parentid body_rootid body_weldid body_dofnum body_dofadr body_invweight0 jnt_type jnt_dofadr dof_bodyid dof_jntid dof_parentid site_bodyid site_quat eq_obj1id eq_obj2id eq_objtype eq_solref eq_solimp eq_data body_isdofancestor eq_wld_adr qvel_in eq_active_in xpos_in xquat_in xmat_in site_xpos_in subtree_com_in cdof_in cvel_in cdof_dot_in subtree_linvel_in njmax_in njmax_nnz_in ne_out nefc_out efc_type_out efc_id_out efc_jtdaj_adr_out efc_jtdaj_nrow_out efc_jtdaj_nblock_out efc_J_rownnz_out efc_J_rowadr_out efc_J_colind_out efc_J_out efc_pos_out efc_margin_out efc_D_out efc_vel_out efc_aref_out efc_frictionloss_out efc_nnz_out alloc0 st_is_sparse_and_newton alloc1 eq_data_shape0 site_quat_shape0 body_invweight0_shape0 st_is_sparse alloc2 eq_solref_shape0 eq_solimp_shape0 opt_timestep_shape0 fuel tid0 tid1 hr
  exact nnz_dropped_thread_reported _ tid0 alloc2 njmax_nnz_in n hn hdrop efc_nnz_in overflow_out (hcount n hn)

/-- **equality_weld_dropped_row_untouched**: this builder stores `rowadr/rownnz` AFTER the nnz guard: a dropped thread writes
    neither cell of any row, and none of its rows. -/
theorem equality_weld_dropped_row_untouched (hs : st_is_sparse = true)
    (hdrop : ¬ allocFits KW "efc_nnz_out" [tid0] alloc2 njmax_nnz_in) (r v : Int) :
    ¬ cellI KW "efc_J_rowadr_out" tid0 r v ∧ ¬ cellI KW "efc_J_rownnz_out" tid0 r v
    ∧ ¬ writesRow KW "efc_type_out" tid0 r :=
  ⟨(Lemmas.C16.equality_weld_dropped_no_cells nv nsite opt_timestep opt_disableflags body_parentid body_rootid body_weldid body_dofnum body_dofadr body_invweight0 jnt_type jnt_dofadr dof_bodyid dof_jntid dof_parentid site_bodyid site_quat eq_obj1id eq_obj2id eq_objtype eq_solref eq_solimp eq_data body_isdofancestor eq_wld_adr qvel_in eq_active_in xpos_in xquat_in xmat_in site_xpos_in subtree_com_in cdof_in cvel_in cdof_dot_in subtree_linvel_in njmax_in njmax_nnz_in ne_out nefc_out efc_type_out efc_id_out efc_jtdaj_adr_out efc_jtdaj_nrow_out efc_jtdaj_nblock_out efc_J_rownnz_out efc_J_rowadr_out efc_J_colind_out efc_J_out efc_pos_out efc_margin_out efc_D_out efc_vel_out efc_aref_out efc_frictionloss_out efc_nnz_out alloc0 st_is_sparse_and_newton alloc1 eq_data_shape0 site_quat_shape0 body_invweight0_shape0 st_is_sparse alloc2 eq_solref_shape0 eq_solimp_shape0 opt_timestep_shape0 fuel tid0 tid1 hs hdrop r v).1,
   (Lemmas.C16.equality_weld_dropped_no_cells nv nsite opt_timestep opt_disableflags body_parentid body_rootid body_weldid body_dofnum body_dofadr body_invweight0 jnt_type jnt_dofadr dof_bodyid dof_jntid dof_parentid site_bodyid site_quat eq_obj1id eq_obj2id eq_objtype eq_solref eq_solimp eq_data body_isdofancestor eq_wld_adr qvel_in eq_active_in xpos_in xquat_in xmat_in site_xpos_in subtree_com_in cdof_in cvel_in cdof_dot_in subtree_linvel_in njmax_in njmax_nnz_in ne_out nefc_out efc_type_out efc_id_out efc_jtdaj_adr_out efc_jtdaj_nrow_out efc_jtdaj_nblock_out efc_J_rownnz_out efc_J_rowadr_out efc_J_colind_out efc_J_out efc_pos_out efc_margin_out efc_D_out efc_vel_out efc_aref_out efc_frictionloss_out efc_nnz_out alloc0 st_is_sparse_and_newton alloc1 eq_data_shape0 site_quat_shape0 body_invweight0_shape0 st_is_sparse alloc2 eq_solref_shape0 eq_solimp_shape0 opt_timestep_shape0 fuel tid0 tid1 hs hdrop r v).2,
   equality_weld_nnz_dropped nv nsite opt_timestep opt_disableflags body_parentid body_rootid body_weldid body_dofnum body_dofadr body_invweight0 jnt_type jnt_dofadr dof_bodyid dof_jntid dof_parentid site_bodyid site_quat eq_obj1id eq_obj2id eq_objtype eq_solref eq_solimp eq_data body_isdofancestor eq_wld_adr qvel_in eq_active_in xpos_in xquat_in xmat_in site_xpos_in subtree_com_in cdof_in cvel_in cdof_dot_in subtree_linvel_in njmax_in njmax_nnz_in ne_out nefc_out efc_type_out efc_id_out efc_jtdaj_adr_out efc_jtdaj_nrow_out efc_jtdaj_nblock_out efc_J_rownnz_out efc_J_rowadr_out efc_J_colind_out efc_J_out efc_pos_out efc_margin_out efc_D_out efc_vel_out efc_aref_out efc_frictionloss_out efc_nnz_out alloc0 st_is_sparse_and_newton alloc1 eq_data_shape0 site_quat_shape0 body_invweight0_shape0 st_is_sparse alloc2 eq_solref_shape0 eq_solimp_shape0 opt_timestep_shape0 fuel tid0 tid1 hs hdrop r⟩

/-- capacity transparency: the thread's COMPLETE write list (all arrays, all values) is the same for any two row
    capacities under which it passes the row guard — `njmax_in` enters the kernel through the guard only
    ("if nothing is dropped the result equals the one with ample capacity", thread level). -/
theorem equality_weld_capacity_transparent (njmax_in2 : Int) (h1 : alloc0 + 6 ≤ njmax_in) (h2 : alloc0 + 6 ≤ njmax_in2) :
    KW = Gen.Constraint._equality_weld__kernel nv nsite opt_timestep opt_disableflags body_parentid body_rootid body_weldid body_dofnum body_dofadr body_invweight0 jnt_type jnt_dofadr dof_bodyid dof_jntid dof_parentid site_bodyid site_quat eq_obj1id eq_obj2id eq_objtype eq_solref eq_solimp eq_data body_isdofancestor eq_wld_adr qvel_in eq_active_in xpos_in xquat_in xmat_in site_xpos_in subtree_com_in cdof_in cvel_in cdof_dot_in subtree_linvel_in njmax_in2 njmax_nnz_in ne_out nefc_out efc_type_out efc_id_out efc_jtdaj_adr_out efc_jtdaj_nrow_out efc_jtdaj_nblock_out efc_J_rownnz_out efc_J_rowadr_out efc_J_colind_out efc_J_out efc_pos_out efc_margin_out efc_D_out efc_vel_out efc_aref_out efc_frictionloss_out efc_nnz_out alloc0 st_is_sparse_and_newton alloc1 eq_data_shape0 site_quat_shape0 body_invweight0_shape0 st_is_sparse alloc2 eq_solref_shape0 eq_solimp_shape0 opt_timestep_shape0 fuel tid0 tid1 := by
  have e1 : decide (alloc0 + 6 > njmax_in) = false := by simp; omega
  have e2 : decide (alloc0 + 6 > njmax_in2) = false := by simp; omega
  unfold Gen.Constraint._equality_weld__kernel
  simp only [e1, e2]

/-- the thread as a `Builder` (function of the value returned by its allocating atomic) -/
def equality_weld_builder : Builder K where
  k := 6
  wid := tid0
  arr := "efc_type_out"
  run := fun a => Gen.Constraint._equality_weld__kernel nv nsite opt_timestep opt_disableflags body_parentid body_rootid body_weldid body_dofnum body_dofadr body_invweight0 jnt_type jnt_dofadr dof_bodyid dof_jntid dof_parentid site_bodyid site_quat eq_obj1id eq_obj2id eq_objtype eq_solref eq_solimp eq_data body_isdofancestor eq_wld_adr qvel_in eq_active_in xpos_in xquat_in xmat_in site_xpos_in subtree_com_in cdof_in cvel_in cdof_dot_in subtree_linvel_in njmax_in njmax_nnz_in ne_out nefc_out efc_type_out efc_id_out efc_jtdaj_adr_out efc_jtdaj_nrow_out efc_jtdaj_nblock_out efc_J_rownnz_out efc_J_rowadr_out efc_J_colind_out efc_J_out efc_pos_out efc_margin_out efc_D_out efc_vel_out efc_aref_out efc_frictionloss_out efc_nnz_out a st_is_sparse_and_newton alloc1 eq_data_shape0 site_quat_shape0 body_invweight0_shape0 st_is_sparse alloc2 eq_solref_shape0 eq_solimp_shape0 opt_timestep_shape0 fuel tid0 tid1
  ok := fun a => st_is_sparse = true → allocFits (Gen.Constraint._equality_weld__kernel nv nsite opt_timestep opt_disableflags body_parentid body_rootid body_weldid body_dofnum body_dofadr body_invweight0 jnt_type jnt_dofadr dof_bodyid dof_jntid dof_parentid site_bodyid site_quat eq_obj1id eq_obj2id eq_objtype eq_solref eq_solimp eq_data body_isdofancestor eq_wld_adr qvel_in eq_active_in xpos_in xquat_in xmat_in site_xpos_in subtree_com_in cdof_in cvel_in cdof_dot_in subtree_linvel_in njmax_in njmax_nnz_in ne_out nefc_out efc_type_out efc_id_out efc_jtdaj_adr_out efc_jtdaj_nrow_out efc_jtdaj_nblock_out efc_J_rownnz_out efc_J_rowadr_out efc_J_colind_out efc_J_out efc_pos_out efc_margin_out efc_D_out efc_vel_out efc_aref_out efc_frictionloss_out efc_nnz_out a st_is_sparse_and_newton alloc1 eq_data_shape0 site_quat_shape0 body_invweight0_shape0 st_is_sparse alloc2 eq_solref_shape0 eq_solimp_shape0 opt_timestep_shape0 fuel tid0 tid1) "efc_nnz_out" [tid0] alloc2 njmax_nnz_in

/-- the kernel obeys the model guard `Alloc.idealGuard` -/
theorem equality_weld_obeys : (equality_weld_builder nv nsite opt_timestep opt_disableflags body_parentid body_rootid body_weldid body_dofnum body_dofadr body_invweight0 jnt_type jnt_dofadr dof_bodyid dof_jntid dof_parentid site_bodyid site_quat eq_obj1id eq_obj2id eq_objtype eq_solref eq_solimp eq_data body_isdofancestor eq_wld_adr qvel_in eq_active_in xpos_in xquat_in xmat_in site_xpos_in subtree_com_in cdof_in cvel_in cdof_dot_in subtree_linvel_in njmax_in njmax_nnz_in ne_out nefc_out efc_type_out efc_id_out efc_jtdaj_adr_out efc_jtdaj_nrow_out efc_jtdaj_nblock_out efc_J_rownnz_out efc_J_rowadr_out efc_J_colind_out efc_J_out efc_pos_out efc_margin_out efc_D_out efc_vel_out efc_aref_out efc_frictionloss_out efc_nnz_out st_is_sparse_and_newton alloc1 eq_data_shape0 site_quat_shape0 body_invweight0_shape0 st_is_sparse alloc2 eq_solref_shape0 eq_solimp_shape0 opt_timestep_shape0 fuel tid0 tid1).obeys Alloc.idealGuard njmax_in := by
  intro a hreq hok hg r h1 h2
  have hg' : a + 6 ≤ njmax_in := by
    simp only [Alloc.idealGuard, decide_eq_true_eq] at hg
    exact hg
  exact (equality_weld_guard nv nsite opt_timestep opt_disableflags body_parentid body_rootid body_weldid body_dofnum body_dofadr body_invweight0 jnt_type jnt_dofadr dof_bodyid dof_jntid dof_parentid site_bodyid site_quat eq_obj1id eq_obj2id eq_objtype eq_solref eq_solimp eq_data body_isdofancestor eq_wld_adr qvel_in eq_active_in xpos_in xquat_in xmat_in site_xpos_in subtree_com_in cdof_in cvel_in cdof_dot_in subtree_linvel_in njmax_in njmax_nnz_in ne_out nefc_out efc_type_out efc_id_out efc_jtdaj_adr_out efc_jtdaj_nrow_out efc_jtdaj_nblock_out efc_J_rownnz_out efc_J_rowadr_out efc_J_colind_out efc_J_out efc_pos_out efc_margin_out efc_D_out efc_vel_out efc_aref_out efc_frictionloss_out efc_nnz_out a st_is_sparse_and_newton alloc1 eq_data_shape0 site_quat_shape0 body_invweight0_shape0 st_is_sparse alloc2 eq_solref_shape0 eq_solimp_shape0 opt_timestep_shape0 fuel tid0 tid1 r).mpr ⟨allocReq_reached _ _ _ _ hreq, hg', hok, h1, h2⟩

/-- hence it is exact: rows that fit are written -/
theorem equality_weld_exact : (equality_weld_builder nv nsite opt_timestep opt_disableflags body_parentid body_rootid body_weldid body_dofnum body_dofadr body_invweight0 jnt_type jnt_dofadr dof_bodyid dof_jntid dof_parentid site_bodyid site_quat eq_obj1id eq_obj2id eq_objtype eq_solref eq_solimp eq_data body_isdofancestor eq_wld_adr qvel_in eq_active_in xpos_in xquat_in xmat_in site_xpos_in subtree_com_in cdof_in cvel_in cdof_dot_in subtree_linvel_in njmax_in njmax_nnz_in ne_out nefc_out efc_type_out efc_id_out efc_jtdaj_adr_out efc_jtdaj_nrow_out efc_jtdaj_nblock_out efc_J_rownnz_out efc_J_rowadr_out efc_J_colind_out efc_J_out efc_pos_out efc_margin_out efc_D_out efc_vel_out efc_aref_out efc_frictionloss_out efc_nnz_out st_is_sparse_and_newton alloc1 eq_data_shape0 site_quat_shape0 body_invweight0_shape0 st_is_sparse alloc2 eq_solref_shape0 eq_solimp_shape0 opt_timestep_shape0 fuel tid0 tid1).exact njmax_in :=
  Builder.exact_of_obeys _ Alloc.idealGuard njmax_in (fun i C => idealGuard_iff i 6 C) (equality_weld_obeys nv nsite opt_timestep opt_disableflags body_parentid body_rootid body_weldid body_dofnum body_dofadr body_invweight0 jnt_type jnt_dofadr dof_bodyid dof_jntid dof_parentid site_bodyid site_quat eq_obj1id eq_obj2id eq_objtype eq_solref eq_solimp eq_data body_isdofancestor eq_wld_adr qvel_in eq_active_in xpos_in xquat_in xmat_in site_xpos_in subtree_com_in cdof_in cvel_in cdof_dot_in subtree_linvel_in njmax_in njmax_nnz_in ne_out nefc_out efc_type_out efc_id_out efc_jtdaj_adr_out efc_jtdaj_nrow_out efc_jtdaj_nblock_out efc_J_rownnz_out efc_J_rowadr_out efc_J_colind_out efc_J_out efc_pos_out efc_margin_out efc_D_out efc_vel_out efc_aref_out efc_frictionloss_out efc_nnz_out st_is_sparse_and_newton alloc1 eq_data_shape0 site_quat_shape0 body_invweight0_shape0 st_is_sparse alloc2 eq_solref_shape0 eq_solimp_shape0 opt_timestep_shape0 fuel tid0 tid1)
end equality_weld


/-! ### `_equality_joint__kernel`  —  k = 1, source guard `if efcid >= njmax_in: return` -/
section equality_joint
variable {K : Type} [Scalar K] (nv : Int) (opt_timestep : (Int → K)) (opt_disableflags : Int) (qpos0 : (Int → Int → K)) (jnt_qposadr : (Int → Int)) (jnt_dofadr : (Int → Int)) (dof_invweight0 : (Int → Int → K)) (eq_obj1id : (Int → Int)) (eq_obj2id : (Int → Int)) (eq_solref : (Int → Int → V2 K)) (eq_solimp : (Int → Int → V5 K)) (eq_data : (Int → Int → V11 K)) (eq_jnt_adr : (Int → Int)) (qpos_in : (Int → Int → K)) (qvel_in : (Int → Int → K)) (eq_active_in : (Int → Int → Bool)) (njmax_in : Int) (njmax_nnz_in : Int) (ne_out : (Int → Int)) (nefc_out : (Int → Int)) (efc_type_out : (Int → Int → Int)) (efc_id_out : (Int → Int → Int)) (efc_jtdaj_adr_out : (Int → Int → Int)) (efc_jtdaj_nrow_out : (Int → Int → Int)) (efc_jtdaj_nblock_out : (Int → Int)) (efc_J_rownnz_out : (Int → Int → Int)) (efc_J_rowadr_out : (Int → Int → Int)) (efc_J_colind_out : (Int → Int → Int → Int)) (efc_J_out : (Int → Int → Int → K)) (efc_pos_out : (Int → Int → K)) (efc_margin_out : (Int → Int → K)) (efc_D_out : (Int → Int → K)) (efc_vel_out : (Int → Int → K)) (efc_aref_out : (Int → Int → K)) (efc_frictionloss_out : (Int → Int → K)) (efc_nnz_out : (Int → Int)) (alloc0 : Int) (st_is_sparse_and_newton : Bool) (alloc1 : Int) (eq_data_shape0 : Int) (qpos0_shape0 : Int) (dof_invweight0_shape0 : Int) (st_is_sparse : Bool) (alloc2 : Int) (opt_timestep_shape0 : Int) (eq_solref_shape0 : Int) (eq_solimp_shape0 : Int) (cl_rowadr : Int) (tid0 : Int) (tid1 : Int)
local notation "KW" => Gen.Constraint._equality_joint__kernel nv opt_timestep opt_disableflags qpos0 jnt_qposadr jnt_dofadr dof_invweight0 eq_obj1id eq_obj2id eq_solref eq_solimp eq_data eq_jnt_adr qpos_in qvel_in eq_active_in njmax_in njmax_nnz_in ne_out nefc_out efc_type_out efc_id_out efc_jtdaj_adr_out efc_jtdaj_nrow_out efc_jtdaj_nblock_out efc_J_rownnz_out efc_J_rowadr_out efc_J_colind_out efc_J_out efc_pos_out efc_margin_out efc_D_out efc_vel_out efc_aref_out efc_frictionloss_out efc_nnz_out alloc0 st_is_sparse_and_newton alloc1 eq_data_shape0 qpos0_shape0 dof_invweight0_shape0 st_is_sparse alloc2 opt_timestep_shape0 eq_solref_shape0 eq_solimp_shape0 cl_rowadr tid0 tid1

/-- index safety, all inputs: every write of the thread to a per-row constraint array (`rowArrays`, and `efc_J_out`
    in dense mode) goes to `[worldid, r]` with `alloc0 ≤ r < alloc0 + 1` and `r < njmax_in`. -/
theorem equality_joint_safe : ∀ w ∈ KW, RowSafe tid0 alloc0 (alloc0 + 1) njmax_in st_is_sparse w :=
  Lemmas.C16.equality_joint_safe nv opt_timestep opt_disableflags qpos0 jnt_qposadr jnt_dofadr dof_invweight0 eq_obj1id eq_obj2id eq_solref eq_solimp eq_data eq_jnt_adr qpos_in qvel_in eq_active_in njmax_in njmax_nnz_in ne_out nefc_out efc_type_out efc_id_out efc_jtdaj_adr_out efc_jtdaj_nrow_out efc_jtdaj_nblock_out efc_J_rownnz_out efc_J_rowadr_out efc_J_colind_out efc_J_out efc_pos_out efc_margin_out efc_D_out efc_vel_out efc_aref_out efc_frictionloss_out efc_nnz_out alloc0 st_is_sparse_and_newton alloc1 eq_data_shape0 qpos0_shape0 dof_invweight0_shape0 st_is_sparse alloc2 opt_timestep_shape0 eq_solref_shape0 eq_solimp_shape0 cl_rowadr tid0 tid1

/-- **equality_joint_guard**: the thread sets `efc_type_out[worldid, r]` ⇔ it reached the allocating atomic on
    `nefc_out[worldid]`, `alloc0 < njmax_in` (= `alloc0 + 1 ≤ njmax_in`: the guard is exact), in sparse mode its nnz
    request fits, and `r = alloc0`. -/
theorem equality_joint_guard (r : Int) : writesRow KW "efc_type_out" tid0 r ↔
    (reached KW "nefc_out" [tid0] ∧ alloc0 < njmax_in
      ∧ (st_is_sparse = true → allocFits KW "efc_nnz_out" [tid0] alloc2 njmax_nnz_in) ∧ r = alloc0) := by
  rw [Lemmas.C16.equality_joint_rows]
  have : (alloc0 ≤ r ∧ r < alloc0 + 1) ↔ r = alloc0 := by omega
  rw [this]

/-- **equality_joint_exact_fit**: if the thread reached the atomic and its row fits (`alloc0 + 1 ≤ njmax_in`, exact fit
    `alloc0 = njmax_in - 1` included) it writes row `alloc0` (dense mode, or nnz request granted). -/
theorem equality_joint_exact_fit (hr : reached KW "nefc_out" [tid0]) (hfit : alloc0 + 1 ≤ njmax_in)
    (hnnz : st_is_sparse = true → allocFits KW "efc_nnz_out" [tid0] alloc2 njmax_nnz_in) :
    writesRow KW "efc_type_out" tid0 alloc0 :=
  (equality_joint_guard nv opt_timestep opt_disableflags qpos0 jnt_qposadr jnt_dofadr dof_invweight0 eq_obj1id eq_obj2id eq_solref eq_solimp eq_data eq_jnt_adr qpos_in qvel_in eq_active_in njmax_in njmax_nnz_in ne_out nefc_out efc_type_out efc_id_out efc_jtdaj_adr_out efc_jtdaj_nrow_out efc_jtdaj_nblock_out efc_J_rownnz_out efc_J_rowadr_out efc_J_colind_out efc_J_out efc_pos_out efc_margin_out efc_D_out efc_vel_out efc_aref_out efc_frictionloss_out efc_nnz_out alloc0 st_is_sparse_and_newton alloc1 eq_data_shape0 qpos0_shape0 dof_invweight0_shape0 st_is_sparse alloc2 opt_timestep_shape0 eq_solref_shape0 eq_solimp_shape0 cl_rowadr tid0 tid1 alloc0).mpr ⟨hr, by omega, hnnz, rfl⟩

/-- NNZ side: in sparse mode a thread whose nnz request does not fit writes NONE of its rows (it returns before
    `_efc_row`), although the rows were allocated and counted in `nefc`. -/
theorem equality_joint_nnz_dropped (hs : st_is_sparse = true)
    (hdrop : ¬ allocFits KW "efc_nnz_out" [tid0] alloc2 njmax_nnz_in) (r : Int) :
    ¬ writesRow KW "efc_type_out" tid0 r := by
  rw [equality_joint_guard]
  rintro ⟨_, _, h, _⟩
  exact hdrop (h hs)

/-- NJMAX_NNZ is never silent for this builder: a thread that performed its nnz atomic (returned `alloc2`) and whose request
    is not granted makes `_nnz_overflow` write the NJMAX_NNZ bit of its world, provided the counter ends at least at
    `alloc2 + request` (it does: the counter is the sum of all requests, `nnz_overflow_never_silent`). -/
theorem equality_joint_nnz_overflow_never_silent (hr : reached KW "efc_nnz_out" [tid0])
    (hdrop : ¬ allocFits KW "efc_nnz_out" [tid0] alloc2 njmax_nnz_in) (efc_nnz_in overflow_out : Int → Int)
    (hcount : ∀ n, allocReq KW "efc_nnz_out" [tid0] n → alloc2 + n ≤ efc_nnz_in tid0) :
    Gen.Constraint._nnz_overflow (K := K) njmax_nnz_in efc_nnz_in overflow_out tid0
      = [⟨"overflow_out", [tid0], WVal.i (Mjw.ior (overflow_out tid0) 2), WKind.set⟩] := by
  obtain ⟨n, hn⟩ := Lemmas.C16.equality_joint_nnz_req nv opt_timestep opt_disableflags qpos0 jnt_qposadr jnt_dofadr dof_invweight0 eq_obj1id eq_obj2id eq_solref eq_solimp eq_data eq_jnt_adr qpos_in qvel_in eq_active_in njmax_in njmax_nnz_in ne_out nefc_out efc_type_out efc_id_out efc_jtdaj_adr_out efc_jtdaj_nrow_out efc_jtdaj_nblock_out efc_J_rownnz_out efc_J_rowadr_out efc_J_colind_out efc_J_out efc_pos_out efc_margin_out efc_D_out efc_vel_out efc_aref_out efc_frictionloss_out efc_nnz_out alloc0 st_is_sparse_and_newton alloc1 eq_data_shape0 qpos0_shape0 dof_invweight0_shape0 st_is_sparse alloc2 opt_timestep_shape0 eq_solref_shape0 eq_solimp_shape0 cl_rowadr tid0 tid1 hr
  exact nnz_dropped_thread_reported _ tid0 alloc2 njmax_nnz_in n hn hdrop efc_nnz_in overflow_out (hcount n hn)

/-- **equality_joint_dropped_row_has_no_nonzeros**: a thread whose row was allocated (`alloc0 < njmax_in`) but whose nnz request is
    dropped leaves `efc_J_rownnz_out[w, alloc0] = 0` (value after its own writes: the count stored before the guard is
    overwritten), never writes `efc_J_rowadr_out`, and writes none of its rows — never a positive count next to a
    stale address. -/
theorem equality_joint_dropped_row_has_no_nonzeros (d : Int) (hr : reached KW "nefc_out" [tid0]) (hg : alloc0 < njmax_in)
    (hs : st_is_sparse = true) (hdrop : ¬ allocFits KW "efc_nnz_out" [tid0] alloc2 njmax_nnz_in) :
    Write.lookupI KW "efc_J_rownnz_out" [tid0, alloc0] d = 0
    ∧ (∀ r v, ¬ cellI KW "efc_J_rowadr_out" tid0 r v)
    ∧ ∀ r, ¬ writesRow KW "efc_type_out" tid0 r :=
  ⟨Lemmas.C16.equality_joint_dropped_rownnz_zero nv opt_timestep opt_disableflags qpos0 jnt_qposadr jnt_dofadr dof_invweight0 eq_obj1id eq_obj2id eq_solref eq_solimp eq_data eq_jnt_adr qpos_in qvel_in eq_active_in njmax_in njmax_nnz_in ne_out nefc_out efc_type_out efc_id_out efc_jtdaj_adr_out efc_jtdaj_nrow_out efc_jtdaj_nblock_out efc_J_rownnz_out efc_J_rowadr_out efc_J_colind_out efc_J_out efc_pos_out efc_margin_out efc_D_out efc_vel_out efc_aref_out efc_frictionloss_out efc_nnz_out alloc0 st_is_sparse_and_newton alloc1 eq_data_shape0 qpos0_shape0 dof_invweight0_shape0 st_is_sparse alloc2 opt_timestep_shape0 eq_solref_shape0 eq_solimp_shape0 cl_rowadr tid0 tid1 d hr hg hs hdrop,
   fun r v => Lemmas.C16.equality_joint_dropped_no_rowadr nv opt_timestep opt_disableflags qpos0 jnt_qposadr jnt_dofadr dof_invweight0 eq_obj1id eq_obj2id eq_solref eq_solimp eq_data eq_jnt_adr qpos_in qvel_in eq_active_in njmax_in njmax_nnz_in ne_out nefc_out efc_type_out efc_id_out efc_jtdaj_adr_out efc_jtdaj_nrow_out efc_jtdaj_nblock_out efc_J_rownnz_out efc_J_rowadr_out efc_J_colind_out efc_J_out efc_pos_out efc_margin_out efc_D_out efc_vel_out efc_aref_out efc_frictionloss_out efc_nnz_out alloc0 st_is_sparse_and_newton alloc1 eq_data_shape0 qpos0_shape0 dof_invweight0_shape0 st_is_sparse alloc2 opt_timestep_shape0 eq_solref_shape0 eq_solimp_shape0 cl_rowadr tid0 tid1 hs hdrop r v,
   fun r => equality_joint_nnz_dropped nv opt_timestep opt_disableflags qpos0 jnt_qposadr jnt_dofadr dof_invweight0 eq_obj1id eq_obj2id eq_solref eq_solimp eq_data eq_jnt_adr qpos_in qvel_in eq_active_in njmax_in njmax_nnz_in ne_out nefc_out efc_type_out efc_id_out efc_jtdaj_adr_out efc_jtdaj_nrow_out efc_jtdaj_nblock_out efc_J_rownnz_out efc_J_rowadr_out efc_J_colind_out efc_J_out efc_pos_out efc_margin_out efc_D_out efc_vel_out efc_aref_out efc_frictionloss_out efc_nnz_out alloc0 st_is_sparse_and_newton alloc1 eq_data_shape0 qpos0_shape0 dof_invweight0_shape0 st_is_sparse alloc2 opt_timestep_shape0 eq_solref_shape0 eq_solimp_shape0 cl_rowadr tid0 tid1 hs hdrop r⟩

/-- capacity transparency: the thread's COMPLETE write list (all arrays, all values) is the same for any two row
    capacities under which it passes the row guard — `njmax_in` enters the kernel through the guard only
    ("if nothing is dropped the result equals the one with ample capacity", thread level). -/
theorem equality_joint_capacity_transparent (njmax_in2 : Int) (h1 : alloc0 < njmax_in) (h2 : alloc0 < njmax_in2) :
    KW = Gen.Constraint._equality_joint__kernel nv opt_timestep opt_disableflags qpos0 jnt_qposadr jnt_dofadr dof_invweight0 eq_obj1id eq_obj2id eq_solref eq_solimp eq_data eq_jnt_adr qpos_in qvel_in eq_active_in njmax_in2 njmax_nnz_in ne_out nefc_out efc_type_out efc_id_out efc_jtdaj_adr_out efc_jtdaj_nrow_out efc_jtdaj_nblock_out efc_J_rownnz_out efc_J_rowadr_out efc_J_colind_out efc_J_out efc_pos_out efc_margin_out efc_D_out efc_vel_out efc_aref_out efc_frictionloss_out efc_nnz_out alloc0 st_is_sparse_and_newton alloc1 eq_data_shape0 qpos0_shape0 dof_invweight0_shape0 st_is_sparse alloc2 opt_timestep_shape0 eq_solref_shape0 eq_solimp_shape0 cl_rowadr tid0 tid1 := by
  have e1 : decide (alloc0 ≥ njmax_in) = false := by simp; omega
  have e2 : decide (alloc0 ≥ njmax_in2) = false := by simp; omega
  unfold Gen.Constraint._equality_joint__kernel
  simp only [e1, e2]

/-- the thread as a `Builder` (function of the value returned by its allocating atomic) -/
def equality_joint_builder : Builder K where
  k := 1
  wid := tid0
  arr := "efc_type_out"
  run := fun a => Gen.Constraint._equality_joint__kernel nv opt_timestep opt_disableflags qpos0 jnt_qposadr jnt_dofadr dof_invweight0 eq_obj1id eq_obj2id eq_solref eq_solimp eq_data eq_jnt_adr qpos_in qvel_in eq_active_in njmax_in njmax_nnz_in ne_out nefc_out efc_type_out efc_id_out efc_jtdaj_adr_out efc_jtdaj_nrow_out efc_jtdaj_nblock_out efc_J_rownnz_out efc_J_rowadr_out efc_J_colind_out efc_J_out efc_pos_out efc_margin_out efc_D_out efc_vel_out efc_aref_out efc_frictionloss_out efc_nnz_out a st_is_sparse_and_newton alloc1 eq_data_shape0 qpos0_shape0 dof_invweight0_shape0 st_is_sparse alloc2 opt_timestep_shape0 eq_solref_shape0 eq_solimp_shape0 cl_rowadr tid0 tid1
  ok := fun a => st_is_sparse = true → allocFits (Gen.Constraint._equality_joint__kernel nv opt_timestep opt_disableflags qpos0 jnt_qposadr jnt_dofadr dof_invweight0 eq_obj1id eq_obj2id eq_solref eq_solimp eq_data eq_jnt_adr qpos_in qvel_in eq_active_in njmax_in njmax_nnz_in ne_out nefc_out efc_type_out efc_id_out efc_jtdaj_adr_out efc_jtdaj_nrow_out efc_jtdaj_nblock_out efc_J_rownnz_out efc_J_rowadr_out efc_J_colind_out efc_J_out efc_pos_out efc_margin_out efc_D_out efc_vel_out efc_aref_out efc_frictionloss_out efc_nnz_out a st_is_sparse_and_newton alloc1 eq_data_shape0 qpos0_shape0 dof_invweight0_shape0 st_is_sparse alloc2 opt_timestep_shape0 eq_solref_shape0 eq_solimp_shape0 cl_rowadr tid0 tid1) "efc_nnz_out" [tid0] alloc2 njmax_nnz_in

/-- the kernel obeys the model guard `Alloc.geGuard` -/
theorem equality_joint_obeys : (equality_joint_builder nv opt_timestep opt_disableflags qpos0 jnt_qposadr jnt_dofadr dof_invweight0 eq_obj1id eq_obj2id eq_solref eq_solimp eq_data eq_jnt_adr qpos_in qvel_in eq_active_in njmax_in njmax_nnz_in ne_out nefc_out efc_type_out efc_id_out efc_jtdaj_adr_out efc_jtdaj_nrow_out efc_jtdaj_nblock_out efc_J_rownnz_out efc_J_rowadr_out efc_J_colind_out efc_J_out efc_pos_out efc_margin_out efc_D_out efc_vel_out efc_aref_out efc_frictionloss_out efc_nnz_out st_is_sparse_and_newton alloc1 eq_data_shape0 qpos0_shape0 dof_invweight0_shape0 st_is_sparse alloc2 opt_timestep_shape0 eq_solref_shape0 eq_solimp_shape0 cl_rowadr tid0 tid1).obeys Alloc.geGuard njmax_in := by
  intro a hreq hok hg r h1 h2
  have hg' : a < njmax_in := by
    simp only [Alloc.geGuard, Bool.not_eq_true', decide_eq_false_iff_not, ge_iff_le, Int.not_le] at hg
    exact hg
  exact (equality_joint_guard nv opt_timestep opt_disableflags qpos0 jnt_qposadr jnt_dofadr dof_invweight0 eq_obj1id eq_obj2id eq_solref eq_solimp eq_data eq_jnt_adr qpos_in qvel_in eq_active_in njmax_in njmax_nnz_in ne_out nefc_out efc_type_out efc_id_out efc_jtdaj_adr_out efc_jtdaj_nrow_out efc_jtdaj_nblock_out efc_J_rownnz_out efc_J_rowadr_out efc_J_colind_out efc_J_out efc_pos_out efc_margin_out efc_D_out efc_vel_out efc_aref_out efc_frictionloss_out efc_nnz_out a st_is_sparse_and_newton alloc1 eq_data_shape0 qpos0_shape0 dof_invweight0_shape0 st_is_sparse alloc2 opt_timestep_shape0 eq_solref_shape0 eq_solimp_shape0 cl_rowadr tid0 tid1 r).mpr
    ⟨allocReq_reached _ _ _ _ hreq, hg', hok, by change a ≤ r at h1; change r < a + ((1 : Nat) : Int) at h2; omega⟩

/-- hence it is exact: rows that fit are written -/
theorem equality_joint_exact : (equality_joint_builder nv opt_timestep opt_disableflags qpos0 jnt_qposadr jnt_dofadr dof_invweight0 eq_obj1id eq_obj2id eq_solref eq_solimp eq_data eq_jnt_adr qpos_in qvel_in eq_active_in njmax_in njmax_nnz_in ne_out nefc_out efc_type_out efc_id_out efc_jtdaj_adr_out efc_jtdaj_nrow_out efc_jtdaj_nblock_out efc_J_rownnz_out efc_J_rowadr_out efc_J_colind_out efc_J_out efc_pos_out efc_margin_out efc_D_out efc_vel_out efc_aref_out efc_frictionloss_out efc_nnz_out st_is_sparse_and_newton alloc1 eq_data_shape0 qpos0_shape0 dof_invweight0_shape0 st_is_sparse alloc2 opt_timestep_shape0 eq_solref_shape0 eq_solimp_shape0 cl_rowadr tid0 tid1).exact njmax_in :=
  Builder.exact_of_obeys _ Alloc.geGuard njmax_in (fun i C => geGuard_unit i C) (equality_joint_obeys nv opt_timestep opt_disableflags qpos0 jnt_qposadr jnt_dofadr dof_invweight0 eq_obj1id eq_obj2id eq_solref eq_solimp eq_data eq_jnt_adr qpos_in qvel_in eq_active_in njmax_in njmax_nnz_in ne_out nefc_out efc_type_out efc_id_out efc_jtdaj_adr_out efc_jtdaj_nrow_out efc_jtdaj_nblock_out efc_J_rownnz_out efc_J_rowadr_out efc_J_colind_out efc_J_out efc_pos_out efc_margin_out efc_D_out efc_vel_out efc_aref_out efc_frictionloss_out efc_nnz_out st_is_sparse_and_newton alloc1 eq_data_shape0 qpos0_shape0 dof_invweight0_shape0 st_is_sparse alloc2 opt_timestep_shape0 eq_solref_shape0 eq_solimp_shape0 cl_rowadr tid0 tid1)
end equality_joint


/-! ### `_equality_tendon__kernel`  —  k = 1, source guard `if efcid >= njmax_in: return` -/
section equality_tendon
variable {K : Type} [Scalar K] (nv : Int) (opt_timestep : (Int → K)) (opt_disableflags : Int) (eq_obj1id : (Int → Int)) (eq_obj2id : (Int → Int)) (eq_solref : (Int → Int → V2 K)) (eq_solimp : (Int → Int → V5 K)) (eq_data : (Int → Int → V11 K)) (ten_J_rownnz : (Int → Int)) (ten_J_rowadr : (Int → Int)) (ten_J_colind : (Int → Int)) (tendon_length0 : (Int → Int → K)) (tendon_invweight0 : (Int → Int → K)) (eq_ten_adr : (Int → Int)) (qvel_in : (Int → Int → K)) (eq_active_in : (Int → Int → Bool)) (ten_J_in : (Int → Int → K)) (ten_length_in : (Int → Int → K)) (njmax_in : Int) (njmax_nnz_in : Int) (ne_out : (Int → Int)) (nefc_out : (Int → Int)) (efc_type_out : (Int → Int → Int)) (efc_id_out : (Int → Int → Int)) (efc_jtdaj_adr_out : (Int → Int → Int)) (efc_jtdaj_nrow_out : (Int → Int → Int)) (efc_jtdaj_nblock_out : (Int → Int)) (efc_J_rownnz_out : (Int → Int → Int)) (efc_J_rowadr_out : (Int → Int → Int)) (efc_J_colind_out : (Int → Int → Int → Int)) (efc_J_out : (Int → Int → Int → K)) (efc_pos_out : (Int → Int → K)) (efc_margin_out : (Int → Int → K)) (efc_D_out : (Int → Int → K)) (efc_vel_out : (Int → Int → K)) (efc_aref_out : (Int → Int → K)) (efc_frictionloss_out : (Int → Int → K)) (efc_nnz_out : (Int → Int)) (alloc0 : Int) (st_is_sparse_and_newton : Bool) (alloc1 : Int) (eq_data_shape0 : Int) (eq_solref_shape0 : Int) (eq_solimp_shape0 : Int) (tendon_length0_shape0 : Int) (tendon_invweight0_shape0 : Int) (st_is_sparse : Bool) (alloc2 : Int) (opt_timestep_shape0 : Int) (cl_rowadr : Int) (fuel : Nat) (tid0 : Int) (tid1 : Int)
local notation "KW" => Gen.Constraint._equality_tendon__kernel nv opt_timestep opt_disableflags eq_obj1id eq_obj2id eq_solref eq_solimp eq_data ten_J_rownnz ten_J_rowadr ten_J_colind tendon_length0 tendon_invweight0 eq_ten_adr qvel_in eq_active_in ten_J_in ten_length_in njmax_in njmax_nnz_in ne_out nefc_out efc_type_out efc_id_out efc_jtdaj_adr_out efc_jtdaj_nrow_out efc_jtdaj_nblock_out efc_J_rownnz_out efc_J_rowadr_out efc_J_colind_out efc_J_out efc_pos_out efc_margin_out efc_D_out efc_vel_out efc_aref_out efc_frictionloss_out efc_nnz_out alloc0 st_is_sparse_and_newton alloc1 eq_data_shape0 eq_solref_shape0 eq_solimp_shape0 tendon_length0_shape0 tendon_invweight0_shape0 st_is_sparse alloc2 opt_timestep_shape0 cl_rowadr fuel tid0 tid1

/-- index safety, all inputs: every write of the thread to a per-row constraint array (`rowArrays`, and `efc_J_out`
    in dense mode) goes to `[worldid, r]` with `alloc0 ≤ r < alloc0 + 1` and `r < njmax_in`. -/
theorem equality_tendon_safe : ∀ w ∈ KW, RowSafe tid0 alloc0 (alloc0 + 1) njmax_in st_is_sparse w :=
  Lemmas.C16.equality_tendon_safe nv opt_timestep opt_disableflags eq_obj1id eq_obj2id eq_solref eq_solimp eq_data ten_J_rownnz ten_J_rowadr ten_J_colind tendon_length0 tendon_invweight0 eq_ten_adr qvel_in eq_active_in ten_J_in ten_length_in njmax_in njmax_nnz_in ne_out nefc_out efc_type_out efc_id_out efc_jtdaj_adr_out efc_jtdaj_nrow_out efc_jtdaj_nblock_out efc_J_rownnz_out efc_J_rowadr_out efc_J_colind_out efc_J_out efc_pos_out efc_margin_out efc_D_out efc_vel_out efc_aref_out efc_frictionloss_out efc_nnz_out alloc0 st_is_sparse_and_newton alloc1 eq_data_shape0 eq_solref_shape0 eq_solimp_shape0 tendon_length0_shape0 tendon_invweight0_shape0 st_is_sparse alloc2 opt_timestep_shape0 cl_rowadr fuel tid0 tid1

/-- **equality_tendon_guard**: the thread sets `efc_type_out[worldid, r]` ⇔ it reached the allocating atomic on
    `nefc_out[worldid]`, `alloc0 < njmax_in` (= `alloc0 + 1 ≤ njmax_in`: the guard is exact), in sparse mode its nnz
    request fits, and `r = alloc0`. -/
theorem equality_tendon_guard (r : Int) : writesRow KW "efc_type_out" tid0 r ↔
    (reached KW "nefc_out" [tid0] ∧ alloc0 < njmax_in
      ∧ (st_is_sparse = true → allocFits KW "efc_nnz_out" [tid0] alloc2 njmax_nnz_in) ∧ r = alloc0) := by
  rw [Lemmas.C16.equality_tendon_rows]
  have : (alloc0 ≤ r ∧ r < alloc0 + 1) ↔ r = alloc0 := by omega
  rw [this]

/-- **equality_tendon_exact_fit**: if the thread reached the atomic and its row fits (`alloc0 + 1 ≤ njmax_in`, exact fit
    `alloc0 = njmax_in - 1` included) it writes row `alloc0` (dense mode, or nnz request granted). -/
theorem equality_tendon_exact_fit (hr : reached KW "nefc_out" [tid0]) (hfit : alloc0 + 1 ≤ njmax_in)
    (hnnz : st_is_sparse = true → allocFits KW "efc_nnz_out" [tid0] alloc2 njmax_nnz_in) :
    writesRow KW "efc_type_out" tid0 alloc0 :=
  (equality_tendon_guard nv opt_timestep opt_disableflags eq_obj1id eq_obj2id eq_solref eq_solimp eq_data ten_J_rownnz ten_J_rowadr ten_J_colind tendon_length0 tendon_invweight0 eq_ten_adr qvel_in eq_active_in ten_J_in ten_length_in njmax_in njmax_nnz_in ne_out nefc_out efc_type_out efc_id_out efc_jtdaj_adr_out efc_jtdaj_nrow_out efc_jtdaj_nblock_out efc_J_rownnz_out efc_J_rowadr_out efc_J_colind_out efc_J_out efc_pos_out efc_margin_out efc_D_out efc_vel_out efc_aref_out efc_frictionloss_out efc_nnz_out alloc0 st_is_sparse_and_newton alloc1 eq_data_shape0 eq_solref_shape0 eq_solimp_shape0 tendon_length0_shape0 tendon_invweight0_shape0 st_is_sparse alloc2 opt_timestep_shape0 cl_rowadr fuel tid0 tid1 alloc0).mpr ⟨hr, by omega, hnnz, rfl⟩

/-- NNZ side: in sparse mode a thread whose nnz request does not fit writes NONE of its rows (it returns before
    `_efc_row`), although the rows were allocated and counted in `nefc`. -/
theorem equality_tendon_nnz_dropped (hs : st_is_sparse = true)
    (hdrop : ¬ allocFits KW "efc_nnz_out" [tid0] alloc2 njmax_nnz_in) (r : Int) :
    ¬ writesRow KW "efc_type_out" tid0 r := by
  rw [equality_tendon_guard]
  rintro ⟨_, _, h, _⟩
  exact hdrop (h hs)

/-- NJMAX_NNZ is never silent for this builder: a thread that performed its nnz atomic (returned `alloc2`) and whose request
    is not granted makes `_nnz_overflow` write the NJMAX_NNZ bit of its world, provided the counter ends at least at
    `alloc2 + request` (it does: the counter is the sum of all requests, `nnz_overflow_never_silent`). -/
theorem equality_tendon_nnz_overflow_never_silent (hr : reached KW "efc_nnz_out" [tid0])
    (hdrop : ¬ allocFits KW "efc_nnz_out" [tid0] alloc2 njmax_nnz_in) (efc_nnz_in overflow_out : Int → Int)
    (hcount : ∀ n, allocReq KW "efc_nnz_out" [tid0] n → alloc2 + n ≤ efc_nnz_in tid0) :
    Gen.Constraint._nnz_overflow (K := K) njmax_nnz_in efc_nnz_in overflow_out tid0
      = [⟨"overflow_out", [tid0], WVal.i (Mjw.ior (overflow_out tid0) 2), WKind.set⟩] := by
  obtain ⟨n, hn⟩ := Lemmas.C16.equality_tendon_nnz_req nv opt_timestep opt_disableflags eq_obj1id eq_obj2id eq_solref eq_solimp eq_data ten_J_rownnz ten_J_rowadr ten_J_colind tendon_length0 tendon_invweight0 eq_ten_adr qvel_in eq_active_in ten_J_in ten_length_in njmax_in njmax_nnz_in ne_out nefc_out efc_type_out efc_id_out efc_jtdaj_adr_out efc_jtdaj_nrow_out efc_jtdaj_nblock_out efc_J_rownnz_out efc_J_rowadr_out efc_J_colind_out efc_J_out efc_pos_out efc_margin_out efc_D_out efc_vel_out efc_aref_out efc_frictionloss_out efc_nnz_out alloc0 st_is_sparse_and_newton alloc1 eq_data_shape0 eq_solref_shape0 eq_solimp_shape0 tendon_length0_shape0 tendon_invweight0_shape0 st_is_sparse alloc2 opt_timestep_shape0 cl_rowadr fuel tid0 tid1 hr
  exact nnz_dropped_thread_reported _ tid0 alloc2 njmax_nnz_in n hn hdrop efc_nnz_in overflow_out (hcount n hn)

/-- **equality_tendon_dropped_row_untouched**: this builder stores `rowadr/rownnz` AFTER the nnz guard: a dropped thread writes
    neither cell of any row, and none of its rows. -/
theorem equality_tendon_dropped_row_untouched (hs : st_is_sparse = true)
    (hdrop : ¬ allocFits KW "efc_nnz_out" [tid0] alloc2 njmax_nnz_in) (r v : Int) :
    ¬ cellI KW "efc_J_rowadr_out" tid0 r v ∧ ¬ cellI KW "efc_J_rownnz_out" tid0 r v
    ∧ ¬ writesRow KW "efc_type_out" tid0 r :=
  ⟨(Lemmas.C16.equality_tendon_dropped_no_cells nv opt_timestep opt_disableflags eq_obj1id eq_obj2id eq_solref eq_solimp eq_data ten_J_rownnz ten_J_rowadr ten_J_colind tendon_length0 tendon_invweight0 eq_ten_adr qvel_in eq_active_in ten_J_in ten_length_in njmax_in njmax_nnz_in ne_out nefc_out efc_type_out efc_id_out efc_jtdaj_adr_out efc_jtdaj_nrow_out efc_jtdaj_nblock_out efc_J_rownnz_out efc_J_rowadr_out efc_J_colind_out efc_J_out efc_pos_out efc_margin_out efc_D_out efc_vel_out efc_aref_out efc_frictionloss_out efc_nnz_out alloc0 st_is_sparse_and_newton alloc1 eq_data_shape0 eq_solref_shape0 eq_solimp_shape0 tendon_length0_shape0 tendon_invweight0_shape0 st_is_sparse alloc2 opt_timestep_shape0 cl_rowadr fuel tid0 tid1 hs hdrop r v).1,
   (Lemmas.C16.equality_tendon_dropped_no_cells nv opt_timestep opt_disableflags eq_obj1id eq_obj2id eq_solref eq_solimp eq_data ten_J_rownnz ten_J_rowadr ten_J_colind tendon_length0 tendon_invweight0 eq_ten_adr qvel_in eq_active_in ten_J_in ten_length_in njmax_in njmax_nnz_in ne_out nefc_out efc_type_out efc_id_out efc_jtdaj_adr_out efc_jtdaj_nrow_out efc_jtdaj_nblock_out efc_J_rownnz_out efc_J_rowadr_out efc_J_colind_out efc_J_out efc_pos_out efc_margin_out efc_D_out efc_vel_out efc_aref_out efc_frictionloss_out efc_nnz_out alloc0 st_is_sparse_and_newton alloc1 eq_data_shape0 eq_solref_shape0 eq_solimp_shape0 tendon_length0_shape0 tendon_invweight0_shape0 st_is_sparse alloc2 opt_timestep_shape0 cl_rowadr fuel tid0 tid1 hs hdrop r v).2,
   equality_tendon_nnz_dropped nv opt_timestep opt_disableflags eq_obj1id eq_obj2id eq_solref eq_solimp eq_data ten_J_rownnz ten_J_rowadr ten_J_colind tendon_length0 tendon_invweight0 eq_ten_adr qvel_in eq_active_in ten_J_in ten_length_in njmax_in njmax_nnz_in ne_out nefc_out efc_type_out efc_id_out efc_jtdaj_adr_out efc_jtdaj_nrow_out efc_jtdaj_nblock_out efc_J_rownnz_out efc_J_rowadr_out efc_J_colind_out efc_J_out efc_pos_out efc_margin_out efc_D_out efc_vel_out efc_aref_out efc_frictionloss_out efc_nnz_out alloc0 st_is_sparse_and_newton alloc1 eq_data_shape0 eq_solref_shape0 eq_solimp_shape0 tendon_length0_shape0 tendon_invweight0_shape0 st_is_sparse alloc2 opt_timestep_shape0 cl_rowadr fuel tid0 tid1 hs hdrop r⟩

/-- capacity transparency: the thread's COMPLETE write list (all arrays, all values) is the same for any two row
    capacities under which it passes the row guard — `njmax_in` enters the kernel through the guard only
    ("if nothing is dropped the result equals the one with ample capacity", thread level). -/
theorem equality_tendon_capacity_transparent (njmax_in2 : Int) (h1 : alloc0 < njmax_in) (h2 : alloc0 < njmax_in2) :
    KW = Gen.Constraint._equality_tendon__kernel nv opt_timestep opt_disableflags eq_obj1id eq_obj2id eq_solref eq_solimp eq_data ten_J_rownnz ten_J_rowadr ten_J_colind tendon_length0 tendon_invweight0 eq_ten_adr qvel_in eq_active_in ten_J_in ten_length_in njmax_in2 njmax_nnz_in ne_out nefc_out efc_type_out efc_id_out efc_jtdaj_adr_out efc_jtdaj_nrow_out efc_jtdaj_nblock_out efc_J_rownnz_out efc_J_rowadr_out efc_J_colind_out efc_J_out efc_pos_out efc_margin_out efc_D_out efc_vel_out efc_aref_out efc_frictionloss_out efc_nnz_out alloc0 st_is_sparse_and_newton alloc1 eq_data_shape0 eq_solref_shape0 eq_solimp_shape0 tendon_length0_shape0 tendon_invweight0_shape0 st_is_sparse alloc2 opt_timestep_shape0 cl_rowadr fuel tid0 tid1 := by
  have e1 : decide (alloc0 ≥ njmax_in) = false := by simp; omega
  have e2 : decide (alloc0 ≥ njmax_in2) = false := by simp; omega
  unfold Gen.Constraint._equality_tendon__kernel
  simp only [e1, e2]

/-- the thread as a `Builder` (function of the value returned by its allocating atomic) -/
def equality_tendon_builder : Builder K where
  k := 1
  wid := tid0
  arr := "efc_type_out"
  run := fun a => Gen.Constraint._equality_tendon__kernel nv opt_timestep opt_disableflags eq_obj1id eq_obj2id eq_solref eq_solimp eq_data ten_J_rownnz ten_J_rowadr ten_J_colind tendon_length0 tendon_invweight0 eq_ten_adr qvel_in eq_active_in ten_J_in ten_length_in njmax_in njmax_nnz_in ne_out nefc_out efc_type_out efc_id_out efc_jtdaj_adr_out efc_jtdaj_nrow_out efc_jtdaj_nblock_out efc_J_rownnz_out efc_J_rowadr_out efc_J_colind_out efc_J_out efc_pos_out efc_margin_out efc_D_out efc_vel_out efc_aref_out efc_frictionloss_out efc_nnz_out a st_is_sparse_and_newton alloc1 eq_data_shape0 eq_solref_shape0 eq_solimp_shape0 tendon_length0_shape0 tendon_invweight0_shape0 st_is_sparse alloc2 opt_timestep_shape0 cl_rowadr fuel tid0 tid1
  ok := fun a => st_is_sparse = true → allocFits (Gen.Constraint._equality_tendon__kernel nv opt_timestep opt_disableflags eq_obj1id eq_obj2id eq_solref eq_solimp eq_data ten_J_rownnz ten_J_rowadr ten_J_colind tendon_length0 tendon_invweight0 eq_ten_adr qvel_in eq_active_in ten_J_in ten_length_in njmax_in njmax_nnz_in ne_out nefc_out efc_type_out efc_id_out efc_jtdaj_adr_out efc_jtdaj_nrow_out efc_jtdaj_nblock_out efc_J_rownnz_out efc_J_rowadr_out efc_J_colind_out efc_J_out efc_pos_out efc_margin_out efc_D_out efc_vel_out efc_aref_out efc_frictionloss_out efc_nnz_out a st_is_sparse_and_newton alloc1 eq_data_shape0 eq_solref_shape0 eq_solimp_shape0 tendon_length0_shape0 tendon_invweight0_shape0 st_is_sparse alloc2 opt_timestep_shape0 cl_rowadr fuel tid0 tid1) "efc_nnz_out" [tid0] alloc2 njmax_nnz_in

/-- the kernel obeys the model guard `Alloc.geGuard` -/
theorem equality_tendon_obeys : (equality_tendon_builder nv opt_timestep opt_disableflags eq_obj1id eq_obj2id eq_solref eq_solimp eq_data ten_J_rownnz ten_J_rowadr ten_J_colind tendon_length0 tendon_invweight0 eq_ten_adr qvel_in eq_active_in ten_J_in ten_length_in njmax_in njmax_nnz_in ne_out nefc_out efc_type_out efc_id_out efc_jtdaj_adr_out efc_jtdaj_nrow_out efc_jtdaj_nblock_out efc_J_rownnz_out efc_J_rowadr_out efc_J_colind_out efc_J_out efc_pos_out efc_margin_out efc_D_out efc_vel_out efc_aref_out efc_frictionloss_out efc_nnz_out st_is_sparse_and_newton alloc1 eq_data_shape0 eq_solref_shape0 eq_solimp_shape0 tendon_length0_shape0 tendon_invweight0_shape0 st_is_sparse alloc2 opt_timestep_shape0 cl_rowadr fuel tid0 tid1).obeys Alloc.geGuard njmax_in := by
  intro a hreq hok hg r h1 h2
  have hg' : a < njmax_in := by
    simp only [Alloc.geGuard, Bool.not_eq_true', decide_eq_false_iff_not, ge_iff_le, Int.not_le] at hg
    exact hg
  exact (equality_tendon_guard nv opt_timestep opt_disableflags eq_obj1id eq_obj2id eq_solref eq_solimp eq_data ten_J_rownnz ten_J_rowadr ten_J_colind tendon_length0 tendon_invweight0 eq_ten_adr qvel_in eq_active_in ten_J_in ten_length_in njmax_in njmax_nnz_in ne_out nefc_out efc_type_out efc_id_out efc_jtdaj_adr_out efc_jtdaj_nrow_out efc_jtdaj_nblock_out efc_J_rownnz_out efc_J_rowadr_out efc_J_colind_out efc_J_out efc_pos_out efc_margin_out efc_D_out efc_vel_out efc_aref_out efc_frictionloss_out efc_nnz_out a st_is_sparse_and_newton alloc1 eq_data_shape0 eq_solref_shape0 eq_solimp_shape0 tendon_length0_shape0 tendon_invweight0_shape0 st_is_sparse alloc2 opt_timestep_shape0 cl_rowadr fuel tid0 tid1 r).mpr
    ⟨allocReq_reached _ _ _ _ hreq, hg', hok, by change a ≤ r at h1; change r < a + ((1 : Nat) : Int) at h2; omega⟩

/-- hence it is exact: rows that fit are written -/
theorem equality_tendon_exact : (equality_tendon_builder nv opt_timestep opt_disableflags eq_obj1id eq_obj2id eq_solref eq_solimp eq_data ten_J_rownnz ten_J_rowadr ten_J_colind tendon_length0 tendon_invweight0 eq_ten_adr qvel_in eq_active_in ten_J_in ten_length_in njmax_in njmax_nnz_in ne_out nefc_out efc_type_out efc_id_out efc_jtdaj_adr_out efc_jtdaj_nrow_out efc_jtdaj_nblock_out efc_J_rownnz_out efc_J_rowadr_out efc_J_colind_out efc_J_out efc_pos_out efc_margin_out efc_D_out efc_vel_out efc_aref_out efc_frictionloss_out efc_nnz_out st_is_sparse_and_newton alloc1 eq_data_shape0 eq_solref_shape0 eq_solimp_shape0 tendon_length0_shape0 tendon_invweight0_shape0 st_is_sparse alloc2 opt_timestep_shape0 cl_rowadr fuel tid0 tid1).exact njmax_in :=
  Builder.exact_of_obeys _ Alloc.geGuard njmax_in (fun i C => geGuard_unit i C) (equality_tendon_obeys nv opt_timestep opt_disableflags eq_obj1id eq_obj2id eq_solref eq_solimp eq_data ten_J_rownnz ten_J_rowadr ten_J_colind tendon_length0 tendon_invweight0 eq_ten_adr qvel_in eq_active_in ten_J_in ten_length_in njmax_in njmax_nnz_in ne_out nefc_out efc_type_out efc_id_out efc_jtdaj_adr_out efc_jtdaj_nrow_out efc_jtdaj_nblock_out efc_J_rownnz_out efc_J_rowadr_out efc_J_colind_out efc_J_out efc_pos_out efc_margin_out efc_D_out efc_vel_out efc_aref_out efc_frictionloss_out efc_nnz_out st_is_sparse_and_newton alloc1 eq_data_shape0 eq_solref_shape0 eq_solimp_shape0 tendon_length0_shape0 tendon_invweight0_shape0 st_is_sparse alloc2 opt_timestep_shape0 cl_rowadr fuel tid0 tid1)
end equality_tendon


/-! ### `_equality_flex__kernel`  —  k = 1, source guard `if efcid >= njmax_in: return` -/
section equality_flex
variable {K : Type} [Scalar K] (nv : Int) (opt_timestep : (Int → K)) (opt_disableflags : Int) (flex_interp : (Int → Int)) (flex_edgeadr : (Int → Int)) (flex_edgenum : (Int → Int)) (flexedge_length0 : (Int → K)) (flexedge_invweight0 : (Int → K)) (flexedge_J_rownnz : (Int → Int)) (flexedge_J_rowadr : (Int → Int)) (flexedge_J_colind : (Int → Int)) (eq_obj1id : (Int → Int)) (eq_solref : (Int → Int → V2 K)) (eq_solimp : (Int → Int → V5 K)) (eq_flex_adr : (Int → Int)) (qvel_in : (Int → Int → K)) (eq_active_in : (Int → Int → Bool)) (flexedge_J_in : (Int → Int → K)) (flexedge_length_in : (Int → Int → K)) (njmax_in : Int) (njmax_nnz_in : Int) (ne_out : (Int → Int)) (nefc_out : (Int → Int)) (efc_type_out : (Int → Int → Int)) (efc_id_out : (Int → Int → Int)) (efc_jtdaj_adr_out : (Int → Int → Int)) (efc_jtdaj_nrow_out : (Int → Int → Int)) (efc_jtdaj_nblock_out : (Int → Int)) (efc_J_rownnz_out : (Int → Int → Int)) (efc_J_rowadr_out : (Int → Int → Int)) (efc_J_colind_out : (Int → Int → Int → Int)) (efc_J_out : (Int → Int → Int → K)) (efc_pos_out : (Int → Int → K)) (efc_margin_out : (Int → Int → K)) (efc_D_out : (Int → Int → K)) (efc_vel_out : (Int → Int → K)) (efc_aref_out : (Int → Int → K)) (efc_frictionloss_out : (Int → Int → K)) (efc_nnz_out : (Int → Int)) (alloc0 : Int) (st_is_sparse_and_newton : Bool) (alloc1 : Int) (eq_solref_shape0 : Int) (eq_solimp_shape0 : Int) (st_is_sparse : Bool) (alloc2 : Int) (opt_timestep_shape0 : Int) (tid0 : Int) (tid1 : Int) (tid2 : Int)
local notation "KW" => Gen.Constraint._equality_flex__kernel nv opt_timestep opt_disableflags flex_interp flex_edgeadr flex_edgenum flexedge_length0 flexedge_invweight0 flexedge_J_rownnz flexedge_J_rowadr flexedge_J_colind eq_obj1id eq_solref eq_solimp eq_flex_adr qvel_in eq_active_in flexedge_J_in flexedge_length_in njmax_in njmax_nnz_in ne_out nefc_out efc_type_out efc_id_out efc_jtdaj_adr_out efc_jtdaj_nrow_out efc_jtdaj_nblock_out efc_J_rownnz_out efc_J_rowadr_out efc_J_colind_out efc_J_out efc_pos_out efc_margin_out efc_D_out efc_vel_out efc_aref_out efc_frictionloss_out efc_nnz_out alloc0 st_is_sparse_and_newton alloc1 eq_solref_shape0 eq_solimp_shape0 st_is_sparse alloc2 opt_timestep_shape0 tid0 tid1 tid2

/-- index safety, all inputs: every write of the thread to a per-row constraint array (`rowArrays`, and `efc_J_out`
    in dense mode) goes to `[worldid, r]` with `alloc0 ≤ r < alloc0 + 1` and `r < njmax_in`. -/
theorem equality_flex_safe : ∀ w ∈ KW, RowSafe tid0 alloc0 (alloc0 + 1) njmax_in st_is_sparse w :=
  Lemmas.C16.equality_flex_safe nv opt_timestep opt_disableflags flex_interp flex_edgeadr flex_edgenum flexedge_length0 flexedge_invweight0 flexedge_J_rownnz flexedge_J_rowadr flexedge_J_colind eq_obj1id eq_solref eq_solimp eq_flex_adr qvel_in eq_active_in flexedge_J_in flexedge_length_in njmax_in njmax_nnz_in ne_out nefc_out efc_type_out efc_id_out efc_jtdaj_adr_out efc_jtdaj_nrow_out efc_jtdaj_nblock_out efc_J_rownnz_out efc_J_rowadr_out efc_J_colind_out efc_J_out efc_pos_out efc_margin_out efc_D_out efc_vel_out efc_aref_out efc_frictionloss_out efc_nnz_out alloc0 st_is_sparse_and_newton alloc1 eq_solref_shape0 eq_solimp_shape0 st_is_sparse alloc2 opt_timestep_shape0 tid0 tid1 tid2

/-- **equality_flex_guard**: the thread sets `efc_type_out[worldid, r]` ⇔ it reached the allocating atomic on
    `nefc_out[worldid]`, `alloc0 < njmax_in` (= `alloc0 + 1 ≤ njmax_in`: the guard is exact), in sparse mode its nnz
    request fits, and `r = alloc0`. -/
theorem equality_flex_guard (r : Int) : writesRow KW "efc_type_out" tid0 r ↔
    (reached KW "nefc_out" [tid0] ∧ alloc0 < njmax_in
      ∧ (st_is_sparse = true → allocFits KW "efc_nnz_out" [tid0] alloc2 njmax_nnz_in) ∧ r = alloc0) := by
  rw [Lemmas.C16.equality_flex_rows]
  have : (alloc0 ≤ r ∧ r < alloc0 + 1) ↔ r = alloc0 := by omega
  rw [this]

/-- **equality_flex_exact_fit**: if the thread reached the atomic and its row fits (`alloc0 + 1 ≤ njmax_in`, exact fit
    `alloc0 = njmax_in - 1` included) it writes row `alloc0` (dense mode, or nnz request granted). -/
theorem equality_flex_exact_fit (hr : reached KW "nefc_out" [tid0]) (hfit : alloc0 + 1 ≤ njmax_in)
    (hnnz : st_is_sparse = true → allocFits KW "efc_nnz_out" [tid0] alloc2 njmax_nnz_in) :
    writesRow KW "efc_type_out" tid0 alloc0 :=
  (equality_flex_guard nv opt_timestep opt_disableflags flex_interp flex_edgeadr flex_edgenum flexedge_length0 flexedge_invweight0 flexedge_J_rownnz flexedge_J_rowadr flexedge_J_colind eq_obj1id eq_solref eq_solimp eq_flex_adr qvel_in eq_active_in flexedge_J_in flexedge_length_in njmax_in njmax_nnz_in ne_out nefc_out efc_type_out efc_id_out efc_jtdaj_adr_out efc_jtdaj_nrow_out efc_jtdaj_nblock_out efc_J_rownnz_out efc_J_rowadr_out efc_J_colind_out efc_J_out efc_pos_out efc_margin_out efc_D_out efc_vel_out efc_aref_out efc_frictionloss_out efc_nnz_out alloc0 st_is_sparse_and_newton alloc1 eq_solref_shape0 eq_solimp_shape0 st_is_sparse alloc2 opt_timestep_shape0 tid0 tid1 tid2 alloc0).mpr ⟨hr, by omega, hnnz, rfl⟩

/-- NNZ side: in sparse mode a thread whose nnz request does not fit writes NONE of its rows (it returns before
    `_efc_row`), although the rows were allocated and counted in `nefc`. -/
theorem equality_flex_nnz_dropped (hs : st_is_sparse = true)
    (hdrop : ¬ allocFits KW "efc_nnz_out" [tid0] alloc2 njmax_nnz_in) (r : Int) :
    ¬ writesRow KW "efc_type_out" tid0 r := by
  rw [equality_flex_guard]
  rintro ⟨_, _, h, _⟩
  exact hdrop (h hs)

/-- NJMAX_NNZ is never silent for this builder: a thread that performed its nnz atomic (returned `alloc2`) and whose request
    is not granted makes `_nnz_overflow` write the NJMAX_NNZ bit of its world, provided the counter ends at least at
    `alloc2 + request` (it does: the counter is the sum of all requests, `nnz_overflow_never_silent`). -/
theorem equality_flex_nnz_overflow_never_silent (hr : reached KW "efc_nnz_out" [tid0])
    (hdrop : ¬ allocFits KW "efc_nnz_out" [tid0] alloc2 njmax_nnz_in) (efc_nnz_in overflow_out : Int → Int)
    (hcount : ∀ n, allocReq KW "efc_nnz_out" [tid0] n → alloc2 + n ≤ efc_nnz_in tid0) :
    Gen.Constraint._nnz_overflow (K := K) njmax_nnz_in efc_nnz_in overflow_out tid0
      = [⟨"overflow_out", [tid0], WVal.i (Mjw.ior (overflow_out tid0) 2), WKind.set⟩] := by
  obtain ⟨n, hn⟩ := Lemmas.C16.equality_flex_nnz_req nv opt_timestep opt_disableflags flex_interp flex_edgeadr flex_edgenum flexedge_length0 flexedge_invweight0 flexedge_J_rownnz flexedge_J_rowadr flexedge_J_colind eq_obj1id eq_solref eq_solimp eq_flex_adr qvel_in eq_active_in flexedge_J_in flexedge_length_in njmax_in njmax_nnz_in ne_out nefc_out efc_type_out efc_id_out efc_jtdaj_adr_out efc_jtdaj_nrow_out efc_jtdaj_nblock_out efc_J_rownnz_out efc_J_rowadr_out efc_J_colind_out efc_J_out efc_pos_out efc_margin_out efc_D_out efc_vel_out efc_aref_out efc_frictionloss_out efc_nnz_out alloc0 st_is_sparse_and_newton alloc1 eq_solref_shape0 eq_solimp_shape0 st_is_sparse alloc2 opt_timestep_shape0 tid0 tid1 tid2 hr
  exact nnz_dropped_thread_reported _ tid0 alloc2 njmax_nnz_in n hn hdrop efc_nnz_in overflow_out (hcount n hn)

/-- **equality_flex_dropped_row_has_no_nonzeros**: a thread whose row was allocated (`alloc0 < njmax_in`) but whose nnz request is
    dropped leaves `efc_J_rownnz_out[w, alloc0] = 0` (value after its own writes: the count stored before the guard is
    overwritten), never writes `efc_J_rowadr_out`, and writes none of its rows — never a positive count next to a
    stale address. -/
theorem equality_flex_dropped_row_has_no_nonzeros (d : Int) (hr : reached KW "nefc_out" [tid0]) (hg : alloc0 < njmax_in)
    (hs : st_is_sparse = true) (hdrop : ¬ allocFits KW "efc_nnz_out" [tid0] alloc2 njmax_nnz_in) :
    Write.lookupI KW "efc_J_rownnz_out" [tid0, alloc0] d = 0
    ∧ (∀ r v, ¬ cellI KW "efc_J_rowadr_out" tid0 r v)
    ∧ ∀ r, ¬ writesRow KW "efc_type_out" tid0 r :=
  ⟨Lemmas.C16.equality_flex_dropped_rownnz_zero nv opt_timestep opt_disableflags flex_interp flex_edgeadr flex_edgenum flexedge_length0 flexedge_invweight0 flexedge_J_rownnz flexedge_J_rowadr flexedge_J_colind eq_obj1id eq_solref eq_solimp eq_flex_adr qvel_in eq_active_in flexedge_J_in flexedge_length_in njmax_in njmax_nnz_in ne_out nefc_out efc_type_out efc_id_out efc_jtdaj_adr_out efc_jtdaj_nrow_out efc_jtdaj_nblock_out efc_J_rownnz_out efc_J_rowadr_out efc_J_colind_out efc_J_out efc_pos_out efc_margin_out efc_D_out efc_vel_out efc_aref_out efc_frictionloss_out efc_nnz_out alloc0 st_is_sparse_and_newton alloc1 eq_solref_shape0 eq_solimp_shape0 st_is_sparse alloc2 opt_timestep_shape0 tid0 tid1 tid2 d hr hg hs hdrop,
   fun r v => Lemmas.C16.equality_flex_dropped_no_rowadr nv opt_timestep opt_disableflags flex_interp flex_edgeadr flex_edgenum flexedge_length0 flexedge_invweight0 flexedge_J_rownnz flexedge_J_rowadr flexedge_J_colind eq_obj1id eq_solref eq_solimp eq_flex_adr qvel_in eq_active_in flexedge_J_in flexedge_length_in njmax_in njmax_nnz_in ne_out nefc_out efc_type_out efc_id_out efc_jtdaj_adr_out efc_jtdaj_nrow_out efc_jtdaj_nblock_out efc_J_rownnz_out efc_J_rowadr_out efc_J_colind_out efc_J_out efc_pos_out efc_margin_out efc_D_out efc_vel_out efc_aref_out efc_frictionloss_out efc_nnz_out alloc0 st_is_sparse_and_newton alloc1 eq_solref_shape0 eq_solimp_shape0 st_is_sparse alloc2 opt_timestep_shape0 tid0 tid1 tid2 hs hdrop r v,
   fun r => equality_flex_nnz_dropped nv opt_timestep opt_disableflags flex_interp flex_edgeadr flex_edgenum flexedge_length0 flexedge_invweight0 flexedge_J_rownnz flexedge_J_rowadr flexedge_J_colind eq_obj1id eq_solref eq_solimp eq_flex_adr qvel_in eq_active_in flexedge_J_in flexedge_length_in njmax_in njmax_nnz_in ne_out nefc_out efc_type_out efc_id_out efc_jtdaj_adr_out efc_jtdaj_nrow_out efc_jtdaj_nblock_out efc_J_rownnz_out efc_J_rowadr_out efc_J_colind_out efc_J_out efc_pos_out efc_margin_out efc_D_out efc_vel_out efc_aref_out efc_frictionloss_out efc_nnz_out alloc0 st_is_sparse_and_newton alloc1 eq_solref_shape0 eq_solimp_shape0 st_is_sparse alloc2 opt_timestep_shape0 tid0 tid1 tid2 hs hdrop r⟩

/-- capacity transparency: the thread's COMPLETE write list (all arrays, all values) is the same for any two row
    capacities under which it passes the row guard — `njmax_in` enters the kernel through the guard only
    ("if nothing is dropped the result equals the one with ample capacity", thread level). -/
theorem equality_flex_capacity_transparent (njmax_in2 : Int) (h1 : alloc0 < njmax_in) (h2 : alloc0 < njmax_in2) :
    KW = Gen.Constraint._equality_flex__kernel nv opt_timestep opt_disableflags flex_interp flex_edgeadr flex_edgenum flexedge_length0 flexedge_invweight0 flexedge_J_rownnz flexedge_J_rowadr flexedge_J_colind eq_obj1id eq_solref eq_solimp eq_flex_adr qvel_in eq_active_in flexedge_J_in flexedge_length_in njmax_in2 njmax_nnz_in ne_out nefc_out efc_type_out efc_id_out efc_jtdaj_adr_out efc_jtdaj_nrow_out efc_jtdaj_nblock_out efc_J_rownnz_out efc_J_rowadr_out efc_J_colind_out efc_J_out efc_pos_out efc_margin_out efc_D_out efc_vel_out efc_aref_out efc_frictionloss_out efc_nnz_out alloc0 st_is_sparse_and_newton alloc1 eq_solref_shape0 eq_solimp_shape0 st_is_sparse alloc2 opt_timestep_shape0 tid0 tid1 tid2 := by
  have e1 : decide (alloc0 ≥ njmax_in) = false := by simp; omega
  have e2 : decide (alloc0 ≥ njmax_in2) = false := by simp; omega
  unfold Gen.Constraint._equality_flex__kernel
  simp only [e1, e2]

/-- the thread as a `Builder` (function of the value returned by its allocating atomic) -/
def equality_flex_builder : Builder K where
  k := 1
  wid := tid0
  arr := "efc_type_out"
  run := fun a => Gen.Constraint._equality_flex__kernel nv opt_timestep opt_disableflags flex_interp flex_edgeadr flex_edgenum flexedge_length0 flexedge_invweight0 flexedge_J_rownnz flexedge_J_rowadr flexedge_J_colind eq_obj1id eq_solref eq_solimp eq_flex_adr qvel_in eq_active_in flexedge_J_in flexedge_length_in njmax_in njmax_nnz_in ne_out nefc_out efc_type_out efc_id_out efc_jtdaj_adr_out efc_jtdaj_nrow_out efc_jtdaj_nblock_out efc_J_rownnz_out efc_J_rowadr_out efc_J_colind_out efc_J_out efc_pos_out efc_margin_out efc_D_out efc_vel_out efc_aref_out efc_frictionloss_out efc_nnz_out a st_is_sparse_and_newton alloc1 eq_solref_shape0 eq_solimp_shape0 st_is_sparse alloc2 opt_timestep_shape0 tid0 tid1 tid2
  ok := fun a => st_is_sparse = true → allocFits (Gen.Constraint._equality_flex__kernel nv opt_timestep opt_disableflags flex_interp flex_edgeadr flex_edgenum flexedge_length0 flexedge_invweight0 flexedge_J_rownnz flexedge_J_rowadr flexedge_J_colind eq_obj1id eq_solref eq_solimp eq_flex_adr qvel_in eq_active_in flexedge_J_in flexedge_length_in njmax_in njmax_nnz_in ne_out nefc_out efc_type_out efc_id_out efc_jtdaj_adr_out efc_jtdaj_nrow_out efc_jtdaj_nblock_out efc_J_rownnz_out efc_J_rowadr_out efc_J_colind_out efc_J_out efc_pos_out efc_margin_out efc_D_out efc_vel_out efc_aref_out efc_frictionloss_out efc_nnz_out a st_is_sparse_and_newton alloc1 eq_solref_shape0 eq_solimp_shape0 st_is_sparse alloc2 opt_timestep_shape0 tid0 tid1 tid2) "efc_nnz_out" [tid0] alloc2 njmax_nnz_in

/-- the kernel obeys the model guard `Alloc.geGuard` -/
theorem equality_flex_obeys : (equality_flex_builder nv opt_timestep opt_disableflags flex_interp flex_edgeadr flex_edgenum flexedge_length0 flexedge_invweight0 flexedge_J_rownnz flexedge_J_rowadr flexedge_J_colind eq_obj1id eq_solref eq_solimp eq_flex_adr qvel_in eq_active_in flexedge_J_in flexedge_length_in njmax_in njmax_nnz_in ne_out nefc_out efc_type_out efc_id_out efc_jtdaj_adr_out efc_jtdaj_nrow_out efc_jtdaj_nblock_out efc_J_rownnz_out efc_J_rowadr_out efc_J_colind_out efc_J_out efc_pos_out efc_margin_out efc_D_out efc_vel_out efc_aref_out efc_frictionloss_out efc_nnz_out st_is_sparse_and_newton alloc1 eq_solref_shape0 eq_solimp_shape0 st_is_sparse alloc2 opt_timestep_shape0 tid0 tid1 tid2).obeys Alloc.geGuard njmax_in := by
  intro a hreq hok hg r h1 h2
  have hg' : a < njmax_in := by
    simp only [Alloc.geGuard, Bool.not_eq_true', decide_eq_false_iff_not, ge_iff_le, Int.not_le] at hg
    exact hg
  exact (equality_flex_guard nv opt_timestep opt_disableflags flex_interp flex_edgeadr flex_edgenum flexedge_length0 flexedge_invweight0 flexedge_J_rownnz flexedge_J_rowadr flexedge_J_colind eq_obj1id eq_solref eq_solimp eq_flex_adr qvel_in eq_active_in flexedge_J_in flexedge_length_in njmax_in njmax_nnz_in ne_out nefc_out efc_type_out efc_id_out efc_jtdaj_adr_out efc_jtdaj_nrow_out efc_jtdaj_nblock_out efc_J_rownnz_out efc_J_rowadr_out efc_J_colind_out efc_J_out efc_pos_out efc_margin_out efc_D_out efc_vel_out efc_aref_out efc_frictionloss_out efc_nnz_out a st_is_sparse_and_newton alloc1 eq_solref_shape0 eq_solimp_shape0 st_is_sparse alloc2 opt_timestep_shape0 tid0 tid1 tid2 r).mpr
    ⟨allocReq_reached _ _ _ _ hreq, hg', hok, by change a ≤ r at h1; change r < a + ((1 : Nat) : Int) at h2; omega⟩

/-- hence it is exact: rows that fit are written -/
theorem equality_flex_exact : (equality_flex_builder nv opt_timestep opt_disableflags flex_interp flex_edgeadr flex_edgenum flexedge_length0 flexedge_invweight0 flexedge_J_rownnz flexedge_J_rowadr flexedge_J_colind eq_obj1id eq_solref eq_solimp eq_flex_adr qvel_in eq_active_in flexedge_J_in flexedge_length_in njmax_in njmax_nnz_in ne_out nefc_out efc_type_out efc_id_out efc_jtdaj_adr_out efc_jtdaj_nrow_out efc_jtdaj_nblock_out efc_J_rownnz_out efc_J_rowadr_out efc_J_colind_out efc_J_out efc_pos_out efc_margin_out efc_D_out efc_vel_out efc_aref_out efc_frictionloss_out efc_nnz_out st_is_sparse_and_newton alloc1 eq_solref_shape0 eq_solimp_shape0 st_is_sparse alloc2 opt_timestep_shape0 tid0 tid1 tid2).exact njmax_in :=
  Builder.exact_of_obeys _ Alloc.geGuard njmax_in (fun i C => geGuard_unit i C) (equality_flex_obeys nv opt_timestep opt_disableflags flex_interp flex_edgeadr flex_edgenum flexedge_length0 flexedge_invweight0 flexedge_J_rownnz flexedge_J_rowadr flexedge_J_colind eq_obj1id eq_solref eq_solimp eq_flex_adr qvel_in eq_active_in flexedge_J_in flexedge_length_in njmax_in njmax_nnz_in ne_out nefc_out efc_type_out efc_id_out efc_jtdaj_adr_out efc_jtdaj_nrow_out efc_jtdaj_nblock_out efc_J_rownnz_out efc_J_rowadr_out efc_J_colind_out efc_J_out efc_pos_out efc_margin_out efc_D_out efc_vel_out efc_aref_out efc_frictionloss_out efc_nnz_out st_is_sparse_and_newton alloc1 eq_solref_shape0 eq_solimp_shape0 st_is_sparse alloc2 opt_timestep_shape0 tid0 tid1 tid2)
end equality_flex


/-! ### `_friction_dof__kernel`  —  k = 1, source guard `if efcid >= njmax_in: return` -/
section friction_dof
variable {K : Type} [Scalar K] (nv : Int) (opt_timestep : (Int → K)) (opt_disableflags : Int) (dof_solref : (Int → Int → V2 K)) (dof_solimp : (Int → Int → V5 K)) (dof_frictionloss : (Int → Int → K)) (dof_invweight0 : (Int → Int → K)) (qvel_in : (Int → Int → K)) (njmax_in : Int) (njmax_nnz_in : Int) (nf_out : (Int → Int)) (nefc_out : (Int → Int)) (efc_type_out : (Int → Int → Int)) (efc_id_out : (Int → Int → Int)) (efc_jtdaj_adr_out : (Int → Int → Int)) (efc_jtdaj_nrow_out : (Int → Int → Int)) (efc_jtdaj_nblock_out : (Int → Int)) (efc_J_rownnz_out : (Int → Int → Int)) (efc_J_rowadr_out : (Int → Int → Int)) (efc_J_colind_out : (Int → Int → Int → Int)) (efc_J_out : (Int → Int → Int → K)) (efc_pos_out : (Int → Int → K)) (efc_margin_out : (Int → Int → K)) (efc_D_out : (Int → Int → K)) (efc_vel_out : (Int → Int → K)) (efc_aref_out : (Int → Int → K)) (efc_frictionloss_out : (Int → Int → K)) (efc_nnz_out : (Int → Int)) (dof_frictionloss_shape0 : Int) (alloc0 : Int) (st_is_sparse_and_newton : Bool) (alloc1 : Int) (st_is_sparse : Bool) (alloc2 : Int) (dof_invweight0_shape0 : Int) (dof_solref_shape0 : Int) (dof_solimp_shape0 : Int) (opt_timestep_shape0 : Int) (tid0 : Int) (tid1 : Int)
local notation "KW" => Gen.Constraint._friction_dof__kernel nv opt_timestep opt_disableflags dof_solref dof_solimp dof_frictionloss dof_invweight0 qvel_in njmax_in njmax_nnz_in nf_out nefc_out efc_type_out efc_id_out efc_jtdaj_adr_out efc_jtdaj_nrow_out efc_jtdaj_nblock_out efc_J_rownnz_out efc_J_rowadr_out efc_J_colind_out efc_J_out efc_pos_out efc_margin_out efc_D_out efc_vel_out efc_aref_out efc_frictionloss_out efc_nnz_out dof_frictionloss_shape0 alloc0 st_is_sparse_and_newton alloc1 st_is_sparse alloc2 dof_invweight0_shape0 dof_solref_shape0 dof_solimp_shape0 opt_timestep_shape0 tid0 tid1

/-- index safety, all inputs: every write of the thread to a per-row constraint array (`rowArrays`, and `efc_J_out`
    in dense mode) goes to `[worldid, r]` with `alloc0 ≤ r < alloc0 + 1` and `r < njmax_in`. -/
theorem friction_dof_safe : ∀ w ∈ KW, RowSafe tid0 alloc0 (alloc0 + 1) njmax_in st_is_sparse w :=
  Lemmas.C16.friction_dof_safe nv opt_timestep opt_disableflags dof_solref dof_solimp dof_frictionloss dof_invweight0 qvel_in njmax_in njmax_nnz_in nf_out nefc_out efc_type_out efc_id_out efc_jtdaj_adr_out efc_jtdaj_nrow_out efc_jtdaj_nblock_out efc_J_rownnz_out efc_J_rowadr_out efc_J_colind_out efc_J_out efc_pos_out efc_margin_out efc_D_out efc_vel_out efc_aref_out efc_frictionloss_out efc_nnz_out dof_frictionloss_shape0 alloc0 st_is_sparse_and_newton alloc1 st_is_sparse alloc2 dof_invweight0_shape0 dof_solref_shape0 dof_solimp_shape0 opt_timestep_shape0 tid0 tid1

/-- **friction_dof_guard**: the thread sets `efc_type_out[worldid, r]` ⇔ it reached the allocating atomic on
    `nefc_out[worldid]`, `alloc0 < njmax_in` (= `alloc0 + 1 ≤ njmax_in`: the guard is exact), in sparse mode its nnz
    request fits, and `r = alloc0`. -/
theorem friction_dof_guard (r : Int) : writesRow KW "efc_type_out" tid0 r ↔
    (reached KW "nefc_out" [tid0] ∧ alloc0 < njmax_in
      ∧ (st_is_sparse = true → allocFits KW "efc_nnz_out" [tid0] alloc2 njmax_nnz_in) ∧ r = alloc0) := by
  rw [Lemmas.C16.friction_dof_rows]
  have : (alloc0 ≤ r ∧ r < alloc0 + 1) ↔ r = alloc0 := by omega
  rw [this]

/-- **friction_dof_exact_fit**: if the thread reached the atomic and its row fits (`alloc0 + 1 ≤ njmax_in`, exact fit
    `alloc0 = njmax_in - 1` included) it writes row `alloc0` (dense mode, or nnz request granted). -/
theorem friction_dof_exact_fit (hr : reached KW "nefc_out" [tid0]) (hfit : alloc0 + 1 ≤ njmax_in)
    (hnnz : st_is_sparse = true → allocFits KW "efc_nnz_out" [tid0] alloc2 njmax_nnz_in) :
    writesRow KW "efc_type_out" tid0 alloc0 :=
  (friction_dof_guard nv opt_timestep opt_disableflags dof_solref dof_solimp dof_frictionloss dof_invweight0 qvel_in njmax_in njmax_nnz_in nf_out nefc_out efc_type_out efc_id_out efc_jtdaj_adr_out efc_jtdaj_nrow_out efc_jtdaj_nblock_out efc_J_rownnz_out efc_J_rowadr_out efc_J_colind_out efc_J_out efc_pos_out efc_margin_out efc_D_out efc_vel_out efc_aref_out efc_frictionloss_out efc_nnz_out dof_frictionloss_shape0 alloc0 st_is_sparse_and_newton alloc1 st_is_sparse alloc2 dof_invweight0_shape0 dof_solref_shape0 dof_solimp_shape0 opt_timestep_shape0 tid0 tid1 alloc0).mpr ⟨hr, by omega, hnnz, rfl⟩

/-- NNZ side: in sparse mode a thread whose nnz request does not fit writes NONE of its rows (it returns before
    `_efc_row`), although the rows were allocated and counted in `nefc`. -/
theorem friction_dof_nnz_dropped (hs : st_is_sparse = true)
    (hdrop : ¬ allocFits KW "efc_nnz_out" [tid0] alloc2 njmax_nnz_in) (r : Int) :
    ¬ writesRow KW "efc_type_out" tid0 r := by
  rw [friction_dof_guard]
  rintro ⟨_, _, h, _⟩
  exact hdrop (h hs)

/-- NJMAX_NNZ is never silent for this builder: a thread that performed its nnz atomic (returned `alloc2`) and whose request
    is not granted makes `_nnz_overflow` write the NJMAX_NNZ bit of its world, provided the counter ends at least at
    `alloc2 + request` (it does: the counter is the sum of all requests, `nnz_overflow_never_silent`). -/
theorem friction_dof_nnz_overflow_never_silent (hr : reached KW "efc_nnz_out" [tid0])
    (hdrop : ¬ allocFits KW "efc_nnz_out" [tid0] alloc2 njmax_nnz_in) (efc_nnz_in overflow_out : Int → Int)
    (hcount : ∀ n, allocReq KW "efc_nnz_out" [tid0] n → alloc2 + n ≤ efc_nnz_in tid0) :
    Gen.Constraint._nnz_overflow (K := K) njmax_nnz_in efc_nnz_in overflow_out tid0
      = [⟨"overflow_out", [tid0], WVal.i (Mjw.ior (overflow_out tid0) 2), WKind.set⟩] := by
  obtain ⟨n, hn⟩ := Lemmas.C16.friction_dof_nnz_req nv opt_timestep opt_disableflags dof_solref dof_solimp dof_frictionloss dof_invweight0 qvel_in njmax_in njmax_nnz_in nf_out nefc_out efc_type_out efc_id_out efc_jtdaj_adr_out efc_jtdaj_nrow_out efc_jtdaj_nblock_out efc_J_rownnz_out efc_J_rowadr_out efc_J_colind_out efc_J_out efc_pos_out efc_margin_out efc_D_out efc_vel_out efc_aref_out efc_frictionloss_out efc_nnz_out dof_frictionloss_shape0 alloc0 st_is_sparse_and_newton alloc1 st_is_sparse alloc2 dof_invweight0_shape0 dof_solref_shape0 dof_solimp_shape0 opt_timestep_shape0 tid0 tid1 hr
  exact nnz_dropped_thread_reported _ tid0 alloc2 njmax_nnz_in n hn hdrop efc_nnz_in overflow_out (hcount n hn)

/-- **friction_dof_dropped_row_has_no_nonzeros**: a thread whose row was allocated (`alloc0 < njmax_in`) but whose nnz request is
    dropped leaves `efc_J_rownnz_out[w, alloc0] = 0` (value after its own writes: the count stored before the guard is
    overwritten), never writes `efc_J_rowadr_out`, and writes none of its rows — never a positive count next to a
    stale address. -/
theorem friction_dof_dropped_row_has_no_nonzeros (d : Int) (hr : reached KW "nefc_out" [tid0]) (hg : alloc0 < njmax_in)
    (hs : st_is_sparse = true) (hdrop : ¬ allocFits KW "efc_nnz_out" [tid0] alloc2 njmax_nnz_in) :
    Write.lookupI KW "efc_J_rownnz_out" [tid0, alloc0] d = 0
    ∧ (∀ r v, ¬ cellI KW "efc_J_rowadr_out" tid0 r v)
    ∧ ∀ r, ¬ writesRow KW "efc_type_out" tid0 r :=
  ⟨Lemmas.C16.friction_dof_dropped_rownnz_zero nv opt_timestep opt_disableflags dof_solref dof_solimp dof_frictionloss dof_invweight0 qvel_in njmax_in njmax_nnz_in nf_out nefc_out efc_type_out efc_id_out efc_jtdaj_adr_out efc_jtdaj_nrow_out efc_jtdaj_nblock_out efc_J_rownnz_out efc_J_rowadr_out efc_J_colind_out efc_J_out efc_pos_out efc_margin_out efc_D_out efc_vel_out efc_aref_out efc_frictionloss_out efc_nnz_out dof_frictionloss_shape0 alloc0 st_is_sparse_and_newton alloc1 st_is_sparse alloc2 dof_invweight0_shape0 dof_solref_shape0 dof_solimp_shape0 opt_timestep_shape0 tid0 tid1 d hr hg hs hdrop,
   fun r v => Lemmas.C16.friction_dof_dropped_no_rowadr nv opt_timestep opt_disableflags dof_solref dof_solimp dof_frictionloss dof_invweight0 qvel_in njmax_in njmax_nnz_in nf_out nefc_out efc_type_out efc_id_out efc_jtdaj_adr_out efc_jtdaj_nrow_out efc_jtdaj_nblock_out efc_J_rownnz_out efc_J_rowadr_out efc_J_colind_out efc_J_out efc_pos_out efc_margin_out efc_D_out efc_vel_out efc_aref_out efc_frictionloss_out efc_nnz_out dof_frictionloss_shape0 alloc0 st_is_sparse_and_newton alloc1 st_is_sparse alloc2 dof_invweight0_shape0 dof_solref_shape0 dof_solimp_shape0 opt_timestep_shape0 tid0 tid1 hs hdrop r v,
   fun r => friction_dof_nnz_dropped nv opt_timestep opt_disableflags dof_solref dof_solimp dof_frictionloss dof_invweight0 qvel_in njmax_in njmax_nnz_in nf_out nefc_out efc_type_out efc_id_out efc_jtdaj_adr_out efc_jtdaj_nrow_out efc_jtdaj_nblock_out efc_J_rownnz_out efc_J_rowadr_out efc_J_colind_out efc_J_out efc_pos_out efc_margin_out efc_D_out efc_vel_out efc_aref_out efc_frictionloss_out efc_nnz_out dof_frictionloss_shape0 alloc0 st_is_sparse_and_newton alloc1 st_is_sparse alloc2 dof_invweight0_shape0 dof_solref_shape0 dof_solimp_shape0 opt_timestep_shape0 tid0 tid1 hs hdrop r⟩

/-- capacity transparency: the thread's COMPLETE write list (all arrays, all values) is the same for any two row
    capacities under which it passes the row guard — `njmax_in` enters the kernel through the guard only
    ("if nothing is dropped the result equals the one with ample capacity", thread level). -/
theorem friction_dof_capacity_transparent (njmax_in2 : Int) (h1 : alloc0 < njmax_in) (h2 : alloc0 < njmax_in2) :
    KW = Gen.Constraint._friction_dof__kernel nv opt_timestep opt_disableflags dof_solref dof_solimp dof_frictionloss dof_invweight0 qvel_in njmax_in2 njmax_nnz_in nf_out nefc_out efc_type_out efc_id_out efc_jtdaj_adr_out efc_jtdaj_nrow_out efc_jtdaj_nblock_out efc_J_rownnz_out efc_J_rowadr_out efc_J_colind_out efc_J_out efc_pos_out efc_margin_out efc_D_out efc_vel_out efc_aref_out efc_frictionloss_out efc_nnz_out dof_frictionloss_shape0 alloc0 st_is_sparse_and_newton alloc1 st_is_sparse alloc2 dof_invweight0_shape0 dof_solref_shape0 dof_solimp_shape0 opt_timestep_shape0 tid0 tid1 := by
  have e1 : decide (alloc0 ≥ njmax_in) = false := by simp; omega
  have e2 : decide (alloc0 ≥ njmax_in2) = false := by simp; omega
  unfold Gen.Constraint._friction_dof__kernel
  simp only [e1, e2]

/-- the thread as a `Builder` (function of the value returned by its allocating atomic) -/
def friction_dof_builder : Builder K where
  k := 1
  wid := tid0
  arr := "efc_type_out"
  run := fun a => Gen.Constraint._friction_dof__kernel nv opt_timestep opt_disableflags dof_solref dof_solimp dof_frictionloss dof_invweight0 qvel_in njmax_in njmax_nnz_in nf_out nefc_out efc_type_out efc_id_out efc_jtdaj_adr_out efc_jtdaj_nrow_out efc_jtdaj_nblock_out efc_J_rownnz_out efc_J_rowadr_out efc_J_colind_out efc_J_out efc_pos_out efc_margin_out efc_D_out efc_vel_out efc_aref_out efc_frictionloss_out efc_nnz_out dof_frictionloss_shape0 a st_is_sparse_and_newton alloc1 st_is_sparse alloc2 dof_invweight0_shape0 dof_solref_shape0 dof_solimp_shape0 opt_timestep_shape0 tid0 tid1
  ok := fun a => st_is_sparse = true → allocFits (Gen.Constraint._friction_dof__kernel nv opt_timestep opt_disableflags dof_solref dof_solimp dof_frictionloss dof_invweight0 qvel_in njmax_in njmax_nnz_in nf_out nefc_out efc_type_out efc_id_out efc_jtdaj_adr_out efc_jtdaj_nrow_out efc_jtdaj_nblock_out efc_J_rownnz_out efc_J_rowadr_out efc_J_colind_out efc_J_out efc_pos_out efc_margin_out efc_D_out efc_vel_out efc_aref_out efc_frictionloss_out efc_nnz_out dof_frictionloss_shape0 a st_is_sparse_and_newton alloc1 st_is_sparse alloc2 dof_invweight0_shape0 dof_solref_shape0 dof_solimp_shape0 opt_timestep_shape0 tid0 tid1) "efc_nnz_out" [tid0] alloc2 njmax_nnz_in

/-- the kernel obeys the model guard `Alloc.geGuard` -/
theorem friction_dof_obeys : (friction_dof_builder nv opt_timestep opt_disableflags dof_solref dof_solimp dof_frictionloss dof_invweight0 qvel_in njmax_in njmax_nnz_in nf_out nefc_out efc_type_out efc_id_out efc_jtdaj_adr_out efc_jtdaj_nrow_out efc_jtdaj_nblock_out efc_J_rownnz_out efc_J_rowadr_out efc_J_colind_out efc_J_out efc_pos_out efc_margin_out efc_D_out efc_vel_out efc_aref_out efc_frictionloss_out efc_nnz_out dof_frictionloss_shape0 st_is_sparse_and_newton alloc1 st_is_sparse alloc2 dof_invweight0_shape0 dof_solref_shape0 dof_solimp_shape0 opt_timestep_shape0 tid0 tid1).obeys Alloc.geGuard njmax_in := by
  intro a hreq hok hg r h1 h2
  have hg' : a < njmax_in := by
    simp only [Alloc.geGuard, Bool.not_eq_true', decide_eq_false_iff_not, ge_iff_le, Int.not_le] at hg
    exact hg
  exact (friction_dof_guard nv opt_timestep opt_disableflags dof_solref dof_solimp dof_frictionloss dof_invweight0 qvel_in njmax_in njmax_nnz_in nf_out nefc_out efc_type_out efc_id_out efc_jtdaj_adr_out efc_jtdaj_nrow_out efc_jtdaj_nblock_out efc_J_rownnz_out efc_J_rowadr_out efc_J_colind_out efc_J_out efc_pos_out efc_margin_out efc_D_out efc_vel_out efc_aref_out efc_frictionloss_out efc_nnz_out dof_frictionloss_shape0 a st_is_sparse_and_newton alloc1 st_is_sparse alloc2 dof_invweight0_shape0 dof_solref_shape0 dof_solimp_shape0 opt_timestep_shape0 tid0 tid1 r).mpr
    ⟨allocReq_reached _ _ _ _ hreq, hg', hok, by change a ≤ r at h1; change r < a + ((1 : Nat) : Int) at h2; omega⟩

/-- hence it is exact: rows that fit are written -/
theorem friction_dof_exact : (friction_dof_builder nv opt_timestep opt_disableflags dof_solref dof_solimp dof_frictionloss dof_invweight0 qvel_in njmax_in njmax_nnz_in nf_out nefc_out efc_type_out efc_id_out efc_jtdaj_adr_out efc_jtdaj_nrow_out efc_jtdaj_nblock_out efc_J_rownnz_out efc_J_rowadr_out efc_J_colind_out efc_J_out efc_pos_out efc_margin_out efc_D_out efc_vel_out efc_aref_out efc_frictionloss_out efc_nnz_out dof_frictionloss_shape0 st_is_sparse_and_newton alloc1 st_is_sparse alloc2 dof_invweight0_shape0 dof_solref_shape0 dof_solimp_shape0 opt_timestep_shape0 tid0 tid1).exact njmax_in :=
  Builder.exact_of_obeys _ Alloc.geGuard njmax_in (fun i C => geGuard_unit i C) (friction_dof_obeys nv opt_timestep opt_disableflags dof_solref dof_solimp dof_frictionloss dof_invweight0 qvel_in njmax_in njmax_nnz_in nf_out nefc_out efc_type_out efc_id_out efc_jtdaj_adr_out efc_jtdaj_nrow_out efc_jtdaj_nblock_out efc_J_rownnz_out efc_J_rowadr_out efc_J_colind_out efc_J_out efc_pos_out efc_margin_out efc_D_out efc_vel_out efc_aref_out efc_frictionloss_out efc_nnz_out dof_frictionloss_shape0 st_is_sparse_and_newton alloc1 st_is_sparse alloc2 dof_invweight0_shape0 dof_solref_shape0 dof_solimp_shape0 opt_timestep_shape0 tid0 tid1)
end friction_dof


/-! ### `_friction_tendon__kernel`  —  k = 1, source guard `if efcid >= njmax_in: return` -/
section friction_tendon
variable {K : Type} [Scalar K] (nv : Int) (opt_timestep : (Int → K)) (opt_disableflags : Int) (ten_J_rownnz : (Int → Int)) (ten_J_rowadr : (Int → Int)) (ten_J_colind : (Int → Int)) (tendon_solref_fri : (Int → Int → V2 K)) (tendon_solimp_fri : (Int → Int → V5 K)) (tendon_frictionloss : (Int → Int → K)) (tendon_invweight0 : (Int → Int → K)) (qvel_in : (Int → Int → K)) (ten_J_in : (Int → Int → K)) (njmax_in : Int) (njmax_nnz_in : Int) (nf_out : (Int → Int)) (nefc_out : (Int → Int)) (efc_type_out : (Int → Int → Int)) (efc_id_out : (Int → Int → Int)) (efc_jtdaj_adr_out : (Int → Int → Int)) (efc_jtdaj_nrow_out : (Int → Int → Int)) (efc_jtdaj_nblock_out : (Int → Int)) (efc_J_rownnz_out : (Int → Int → Int)) (efc_J_rowadr_out : (Int → Int → Int)) (efc_J_colind_out : (Int → Int → Int → Int)) (efc_J_out : (Int → Int → Int → K)) (efc_pos_out : (Int → Int → K)) (efc_margin_out : (Int → Int → K)) (efc_D_out : (Int → Int → K)) (efc_vel_out : (Int → Int → K)) (efc_aref_out : (Int → Int → K)) (efc_frictionloss_out : (Int → Int → K)) (efc_nnz_out : (Int → Int)) (tendon_frictionloss_shape0 : Int) (alloc0 : Int) (st_is_sparse_and_newton : Bool) (alloc1 : Int) (st_is_sparse : Bool) (alloc2 : Int) (tendon_invweight0_shape0 : Int) (tendon_solref_fri_shape0 : Int) (tendon_solimp_fri_shape0 : Int) (opt_timestep_shape0 : Int) (tid0 : Int) (tid1 : Int)
local notation "KW" => Gen.Constraint._friction_tendon__kernel nv opt_timestep opt_disableflags ten_J_rownnz ten_J_rowadr ten_J_colind tendon_solref_fri tendon_solimp_fri tendon_frictionloss tendon_invweight0 qvel_in ten_J_in njmax_in njmax_nnz_in nf_out nefc_out efc_type_out efc_id_out efc_jtdaj_adr_out efc_jtdaj_nrow_out efc_jtdaj_nblock_out efc_J_rownnz_out efc_J_rowadr_out efc_J_colind_out efc_J_out efc_pos_out efc_margin_out efc_D_out efc_vel_out efc_aref_out efc_frictionloss_out efc_nnz_out tendon_frictionloss_shape0 alloc0 st_is_sparse_and_newton alloc1 st_is_sparse alloc2 tendon_invweight0_shape0 tendon_solref_fri_shape0 tendon_solimp_fri_shape0 opt_timestep_shape0 tid0 tid1

/-- index safety, all inputs: every write of the thread to a per-row constraint array (`rowArrays`, and `efc_J_out`
    in dense mode) goes to `[worldid, r]` with `alloc0 ≤ r < alloc0 + 1` and `r < njmax_in`. -/
theorem friction_tendon_safe : ∀ w ∈ KW, RowSafe tid0 alloc0 (alloc0 + 1) njmax_in st_is_sparse w :=
  Lemmas.C16.friction_tendon_safe nv opt_timestep opt_disableflags ten_J_rownnz ten_J_rowadr ten_J_colind tendon_solref_fri tendon_solimp_fri tendon_frictionloss tendon_invweight0 qvel_in ten_J_in njmax_in njmax_nnz_in nf_out nefc_out efc_type_out efc_id_out efc_jtdaj_adr_out efc_jtdaj_nrow_out efc_jtdaj_nblock_out efc_J_rownnz_out efc_J_rowadr_out efc_J_colind_out efc_J_out efc_pos_out efc_margin_out efc_D_out efc_vel_out efc_aref_out efc_frictionloss_out efc_nnz_out tendon_frictionloss_shape0 alloc0 st_is_sparse_and_newton alloc1 st_is_sparse alloc2 tendon_invweight0_shape0 tendon_solref_fri_shape0 tendon_solimp_fri_shape0 opt_timestep_shape0 tid0 tid1

/-- **friction_tendon_guard**: the thread sets `efc_type_out[worldid, r]` ⇔ it reached the allocating atomic on
    `nefc_out[worldid]`, `alloc0 < njmax_in` (= `alloc0 + 1 ≤ njmax_in`: the guard is exact), in sparse mode its nnz
    request fits, and `r = alloc0`. -/
theorem friction_tendon_guard (r : Int) : writesRow KW "efc_type_out" tid0 r ↔
    (reached KW "nefc_out" [tid0] ∧ alloc0 < njmax_in
      ∧ (st_is_sparse = true → allocFits KW "efc_nnz_out" [tid0] alloc2 njmax_nnz_in) ∧ r = alloc0) := by
  rw [Lemmas.C16.friction_tendon_rows]
  have : (alloc0 ≤ r ∧ r < alloc0 + 1) ↔ r = alloc0 := by omega
  rw [this]

/-- **friction_tendon_exact_fit**: if the thread reached the atomic and its row fits (`alloc0 + 1 ≤ njmax_in`, exact fit
    `alloc0 = njmax_in - 1` included) it writes row `alloc0` (dense mode, or nnz request granted). -/
theorem friction_tendon_exact_fit (hr : reached KW "nefc_out" [tid0]) (hfit : alloc0 + 1 ≤ njmax_in)
    (hnnz : st_is_sparse = true → allocFits KW "efc_nnz_out" [tid0] alloc2 njmax_nnz_in) :
    writesRow KW "efc_type_out" tid0 alloc0 :=
  (friction_tendon_guard nv opt_timestep opt_disableflags ten_J_rownnz ten_J_rowadr ten_J_colind tendon_solref_fri tendon_solimp_fri tendon_frictionloss tendon_invweight0 qvel_in ten_J_in njmax_in njmax_nnz_in nf_out nefc_out efc_type_out efc_id_out efc_jtdaj_adr_out efc_jtdaj_nrow_out efc_jtdaj_nblock_out efc_J_rownnz_out efc_J_rowadr_out efc_J_colind_out efc_J_out efc_pos_out efc_margin_out efc_D_out efc_vel_out efc_aref_out efc_frictionloss_out efc_nnz_out tendon_frictionloss_shape0 alloc0 st_is_sparse_and_newton alloc1 st_is_sparse alloc2 tendon_invweight0_shape0 tendon_solref_fri_shape0 tendon_solimp_fri_shape0 opt_timestep_shape0 tid0 tid1 alloc0).mpr ⟨hr, by omega, hnnz, rfl⟩

/-- NNZ side: in sparse mode a thread whose nnz request does not fit writes NONE of its rows (it returns before
    `_efc_row`), although the rows were allocated and counted in `nefc`. -/
theorem friction_tendon_nnz_dropped (hs : st_is_sparse = true)
    (hdrop : ¬ allocFits KW "efc_nnz_out" [tid0] alloc2 njmax_nnz_in) (r : Int) :
    ¬ writesRow KW "efc_type_out" tid0 r := by
  rw [friction_tendon_guard]
  rintro ⟨_, _, h, _⟩
  exact hdrop (h hs)

/-- NJMAX_NNZ is never silent for this builder: a thread that performed its nnz atomic (returned `alloc2`) and whose request
    is not granted makes `_nnz_overflow` write the NJMAX_NNZ bit of its world, provided the counter ends at least at
    `alloc2 + request` (it does: the counter is the sum of all requests, `nnz_overflow_never_silent`). -/
theorem friction_tendon_nnz_overflow_never_silent (hr : reached KW "efc_nnz_out" [tid0])
    (hdrop : ¬ allocFits KW "efc_nnz_out" [tid0] alloc2 njmax_nnz_in) (efc_nnz_in overflow_out : Int → Int)
    (hcount : ∀ n, allocReq KW "efc_nnz_out" [tid0] n → alloc2 + n ≤ efc_nnz_in tid0) :
    Gen.Constraint._nnz_overflow (K := K) njmax_nnz_in efc_nnz_in overflow_out tid0
      = [⟨"overflow_out", [tid0], WVal.i (Mjw.ior (overflow_out tid0) 2), WKind.set⟩] := by
  obtain ⟨n, hn⟩ := Lemmas.C16.friction_tendon_nnz_req nv opt_timestep opt_disableflags ten_J_rownnz ten_J_rowadr ten_J_colind tendon_solref_fri tendon_solimp_fri tendon_frictionloss tendon_invweight0 qvel_in ten_J_in njmax_in njmax_nnz_in nf_out nefc_out efc_type_out efc_id_out efc_jtdaj_adr_out efc_jtdaj_nrow_out efc_jtdaj_nblock_out efc_J_rownnz_out efc_J_rowadr_out efc_J_colind_out efc_J_out efc_pos_out efc_margin_out efc_D_out efc_vel_out efc_aref_out efc_frictionloss_out efc_nnz_out tendon_frictionloss_shape0 alloc0 st_is_sparse_and_newton alloc1 st_is_sparse alloc2 tendon_invweight0_shape0 tendon_solref_fri_shape0 tendon_solimp_fri_shape0 opt_timestep_shape0 tid0 tid1 hr
  exact nnz_dropped_thread_reported _ tid0 alloc2 njmax_nnz_in n hn hdrop efc_nnz_in overflow_out (hcount n hn)

/-- **friction_tendon_dropped_row_has_no_nonzeros**: a thread whose row was allocated (`alloc0 < njmax_in`) but whose nnz request is
    dropped leaves `efc_J_rownnz_out[w, alloc0] = 0` (value after its own writes: the count stored before the guard is
    overwritten), never writes `efc_J_rowadr_out`, and writes none of its rows — never a positive count next to a
    stale address. -/
theorem friction_tendon_dropped_row_has_no_nonzeros (d : Int) (hr : reached KW "nefc_out" [tid0]) (hg : alloc0 < njmax_in)
    (hs : st_is_sparse = true) (hdrop : ¬ allocFits KW "efc_nnz_out" [tid0] alloc2 njmax_nnz_in) :
    Write.lookupI KW "efc_J_rownnz_out" [tid0, alloc0] d = 0
    ∧ (∀ r v, ¬ cellI KW "efc_J_rowadr_out" tid0 r v)
    ∧ ∀ r, ¬ writesRow KW "efc_type_out" tid0 r :=
  ⟨Lemmas.C16.friction_tendon_dropped_rownnz_zero nv opt_timestep opt_disableflags ten_J_rownnz ten_J_rowadr ten_J_colind tendon_solref_fri tendon_solimp_fri tendon_frictionloss tendon_invweight0 qvel_in ten_J_in njmax_in njmax_nnz_in nf_out nefc_out efc_type_out efc_id_out efc_jtdaj_adr_out efc_jtdaj_nrow_out efc_jtdaj_nblock_out efc_J_rownnz_out efc_J_rowadr_out efc_J_colind_out efc_J_out efc_pos_out efc_margin_out efc_D_out efc_vel_out efc_aref_out efc_frictionloss_out efc_nnz_out tendon_frictionloss_shape0 alloc0 st_is_sparse_and_newton alloc1 st_is_sparse alloc2 tendon_invweight0_shape0 tendon_solref_fri_shape0 tendon_solimp_fri_shape0 opt_timestep_shape0 tid0 tid1 d hr hg hs hdrop,
   fun r v => Lemmas.C16.friction_tendon_dropped_no_rowadr nv opt_timestep opt_disableflags ten_J_rownnz ten_J_rowadr ten_J_colind tendon_solref_fri tendon_solimp_fri tendon_frictionloss tendon_invweight0 qvel_in ten_J_in njmax_in njmax_nnz_in nf_out nefc_out efc_type_out efc_id_out efc_jtdaj_adr_out efc_jtdaj_nrow_out efc_jtdaj_nblock_out efc_J_rownnz_out efc_J_rowadr_out efc_J_colind_out efc_J_out efc_pos_out efc_margin_out efc_D_out efc_vel_out efc_aref_out efc_frictionloss_out efc_nnz_out tendon_frictionloss_shape0 alloc0 st_is_sparse_and_newton alloc1 st_is_sparse alloc2 tendon_invweight0_shape0 tendon_solref_fri_shape0 tendon_solimp_fri_shape0 opt_timestep_shape0 tid0 tid1 hs hdrop r v,
   fun r => friction_tendon_nnz_dropped nv opt_timestep opt_disableflags ten_J_rownnz ten_J_rowadr ten_J_colind tendon_solref_fri tendon_solimp_fri tendon_frictionloss tendon_invweight0 qvel_in ten_J_in njmax_in njmax_nnz_in nf_out nefc_out efc_type_out efc_id_out efc_jtdaj_adr_out efc_jtdaj_nrow_out efc_jtdaj_nblock_out efc_J_rownnz_out efc_J_rowadr_out efc_J_colind_out efc_J_out efc_pos_out efc_margin_out efc_D_out efc_vel_out efc_aref_out efc_frictionloss_out efc_nnz_out tendon_frictionloss_shape0 alloc0 st_is_sparse_and_newton alloc1 st_is_sparse alloc2 tendon_invweight0_shape0 tendon_solref_fri_shape0 tendon_solimp_fri_shape0 opt_timestep_shape0 tid0 tid1 hs hdrop r⟩

/-- capacity transparency: the thread's COMPLETE write list (all arrays, all values) is the same for any two row
    capacities under which it passes the row guard — `njmax_in` enters the kernel through the guard only
    ("if nothing is dropped the result equals the one with ample capacity", thread level). -/
theorem friction_tendon_capacity_transparent (njmax_in2 : Int) (h1 : alloc0 < njmax_in) (h2 : alloc0 < njmax_in2) :
    KW = Gen.Constraint._friction_tendon__kernel nv opt_timestep opt_disableflags ten_J_rownnz ten_J_rowadr ten_J_colind tendon_solref_fri tendon_solimp_fri tendon_frictionloss tendon_invweight0 qvel_in ten_J_in njmax_in2 njmax_nnz_in nf_out nefc_out efc_type_out efc_id_out efc_jtdaj_adr_out efc_jtdaj_nrow_out efc_jtdaj_nblock_out efc_J_rownnz_out efc_J_rowadr_out efc_J_colind_out efc_J_out efc_pos_out efc_margin_out efc_D_out efc_vel_out efc_aref_out efc_frictionloss_out efc_nnz_out tendon_frictionloss_shape0 alloc0 st_is_sparse_and_newton alloc1 st_is_sparse alloc2 tendon_invweight0_shape0 tendon_solref_fri_shape0 tendon_solimp_fri_shape0 opt_timestep_shape0 tid0 tid1 := by
  have e1 : decide (alloc0 ≥ njmax_in) = false := by simp; omega
  have e2 : decide (alloc0 ≥ njmax_in2) = false := by simp; omega
  unfold Gen.Constraint._friction_tendon__kernel
  simp only [e1, e2]

/-- the thread as a `Builder` (function of the value returned by its allocating atomic) -/
def friction_tendon_builder : Builder K where
  k := 1
  wid := tid0
  arr := "efc_type_out"
  run := fun a => Gen.Constraint._friction_tendon__kernel nv opt_timestep opt_disableflags ten_J_rownnz ten_J_rowadr ten_J_colind tendon_solref_fri tendon_solimp_fri tendon_frictionloss tendon_invweight0 qvel_in ten_J_in njmax_in njmax_nnz_in nf_out nefc_out efc_type_out efc_id_out efc_jtdaj_adr_out efc_jtdaj_nrow_out efc_jtdaj_nblock_out efc_J_rownnz_out efc_J_rowadr_out efc_J_colind_out efc_J_out efc_pos_out efc_margin_out efc_D_out efc_vel_out efc_aref_out efc_frictionloss_out efc_nnz_out tendon_frictionloss_shape0 a st_is_sparse_and_newton alloc1 st_is_sparse alloc2 tendon_invweight0_shape0 tendon_solref_fri_shape0 tendon_solimp_fri_shape0 opt_timestep_shape0 tid0 tid1
  ok := fun a => st_is_sparse = true → allocFits (Gen.Constraint._friction_tendon__kernel nv opt_timestep opt_disableflags ten_J_rownnz ten_J_rowadr ten_J_colind tendon_solref_fri tendon_solimp_fri tendon_frictionloss tendon_invweight0 qvel_in ten_J_in njmax_in njmax_nnz_in nf_out nefc_out efc_type_out efc_id_out efc_jtdaj_adr_out efc_jtdaj_nrow_out efc_jtdaj_nblock_out efc_J_rownnz_out efc_J_rowadr_out efc_J_colind_out efc_J_out efc_pos_out efc_margin_out efc_D_out efc_vel_out efc_aref_out efc_frictionloss_out efc_nnz_out tendon_frictionloss_shape0 a st_is_sparse_and_newton alloc1 st_is_sparse alloc2 tendon_invweight0_shape0 tendon_solref_fri_shape0 tendon_solimp_fri_shape0 opt_timestep_shape0 tid0 tid1) "efc_nnz_out" [tid0] alloc2 njmax_nnz_in

/-- the kernel obeys the model guard `Alloc.geGuard` -/
theorem friction_tendon_obeys : (friction_tendon_builder nv opt_timestep opt_disableflags ten_J_rownnz ten_J_rowadr ten_J_colind tendon_solref_fri tendon_solimp_fri tendon_frictionloss tendon_invweight0 qvel_in ten_J_in njmax_in njmax_nnz_in nf_out nefc_out efc_type_out efc_id_out efc_jtdaj_adr_out efc_jtdaj_nrow_out efc_jtdaj_nblock_out efc_J_rownnz_out efc_J_rowadr_out efc_J_colind_out efc_J_out efc_pos_out efc_margin_out efc_D_out efc_vel_out efc_aref_out efc_frictionloss_out efc_nnz_out tendon_frictionloss_shape0 st_is_sparse_and_newton alloc1 st_is_sparse alloc2 tendon_invweight0_shape0 tendon_solref_fri_shape0 tendon_solimp_fri_shape0 opt_timestep_shape0 tid0 tid1).obeys Alloc.geGuard njmax_in := by
  intro a hreq hok hg r h1 h2
  have hg' : a < njmax_in := by
    simp only [Alloc.geGuard, Bool.not_eq_true', decide_eq_false_iff_not, ge_iff_le, Int.not_le] at hg
    exact hg
  exact (friction_tendon_guard nv opt_timestep opt_disableflags ten_J_rownnz ten_J_rowadr ten_J_colind tendon_solref_fri tendon_solimp_fri tendon_frictionloss tendon_invweight0 qvel_in ten_J_in njmax_in njmax_nnz_in nf_out nefc_out efc_type_out efc_id_out efc_jtdaj_adr_out efc_jtdaj_nrow_out efc_jtdaj_nblock_out efc_J_rownnz_out efc_J_rowadr_out efc_J_colind_out efc_J_out efc_pos_out efc_margin_out efc_D_out efc_vel_out efc_aref_out efc_frictionloss_out efc_nnz_out tendon_frictionloss_shape0 a st_is_sparse_and_newton alloc1 st_is_sparse alloc2 tendon_invweight0_shape0 tendon_solref_fri_shape0 tendon_solimp_fri_shape0 opt_timestep_shape0 tid0 tid1 r).mpr
    ⟨allocReq_reached _ _ _ _ hreq, hg', hok, by change a ≤ r at h1; change r < a + ((1 : Nat) : Int) at h2; omega⟩

/-- hence it is exact: rows that fit are written -/
theorem friction_tendon_exact : (friction_tendon_builder nv opt_timestep opt_disableflags ten_J_rownnz ten_J_rowadr ten_J_colind tendon_solref_fri tendon_solimp_fri tendon_frictionloss tendon_invweight0 qvel_in ten_J_in njmax_in njmax_nnz_in nf_out nefc_out efc_type_out efc_id_out efc_jtdaj_adr_out efc_jtdaj_nrow_out efc_jtdaj_nblock_out efc_J_rownnz_out efc_J_rowadr_out efc_J_colind_out efc_J_out efc_pos_out efc_margin_out efc_D_out efc_vel_out efc_aref_out efc_frictionloss_out efc_nnz_out tendon_frictionloss_shape0 st_is_sparse_and_newton alloc1 st_is_sparse alloc2 tendon_invweight0_shape0 tendon_solref_fri_shape0 tendon_solimp_fri_shape0 opt_timestep_shape0 tid0 tid1).exact njmax_in :=
  Builder.exact_of_obeys _ Alloc.geGuard njmax_in (fun i C => geGuard_unit i C) (friction_tendon_obeys nv opt_timestep opt_disableflags ten_J_rownnz ten_J_rowadr ten_J_colind tendon_solref_fri tendon_solimp_fri tendon_frictionloss tendon_invweight0 qvel_in ten_J_in njmax_in njmax_nnz_in nf_out nefc_out efc_type_out efc_id_out efc_jtdaj_adr_out efc_jtdaj_nrow_out efc_jtdaj_nblock_out efc_J_rownnz_out efc_J_rowadr_out efc_J_colind_out efc_J_out efc_pos_out efc_margin_out efc_D_out efc_vel_out efc_aref_out efc_frictionloss_out efc_nnz_out tendon_frictionloss_shape0 st_is_sparse_and_newton alloc1 st_is_sparse alloc2 tendon_invweight0_shape0 tendon_solref_fri_shape0 tendon_solimp_fri_shape0 opt_timestep_shape0 tid0 tid1)
end friction_tendon


/-! ### `_limit_slide_hinge__kernel`  —  k = 1, source guard `if efcid >= njmax_in: return` -/
section limit_slide_hinge
variable {K : Type} [Scalar K] (nv : Int) (opt_timestep : (Int → K)) (opt_disableflags : Int) (jnt_qposadr : (Int → Int)) (jnt_dofadr : (Int → Int)) (jnt_solref : (Int → Int → V2 K)) (jnt_solimp : (Int → Int → V5 K)) (jnt_range : (Int → Int → V2 K)) (jnt_margin : (Int → Int → K)) (dof_invweight0 : (Int → Int → K)) (jnt_limited_slide_hinge_adr : (Int → Int)) (qpos_in : (Int → Int → K)) (qvel_in : (Int → Int → K)) (njmax_in : Int) (njmax_nnz_in : Int) (nl_out : (Int → Int)) (nefc_out : (Int → Int)) (efc_type_out : (Int → Int → Int)) (efc_id_out : (Int → Int → Int)) (efc_jtdaj_adr_out : (Int → Int → Int)) (efc_jtdaj_nrow_out : (Int → Int → Int)) (efc_jtdaj_nblock_out : (Int → Int)) (efc_J_rownnz_out : (Int → Int → Int)) (efc_J_rowadr_out : (Int → Int → Int)) (efc_J_colind_out : (Int → Int → Int → Int)) (efc_J_out : (Int → Int → Int → K)) (efc_pos_out : (Int → Int → K)) (efc_margin_out : (Int → Int → K)) (efc_D_out : (Int → Int → K)) (efc_vel_out : (Int → Int → K)) (efc_aref_out : (Int → Int → K)) (efc_frictionloss_out : (Int → Int → K)) (efc_nnz_out : (Int → Int)) (jnt_range_shape0 : Int) (jnt_margin_shape0 : Int) (alloc0 : Int) (st_is_sparse_and_newton : Bool) (alloc1 : Int) (st_is_sparse : Bool) (alloc2 : Int) (dof_invweight0_shape0 : Int) (jnt_solref_shape0 : Int) (jnt_solimp_shape0 : Int) (opt_timestep_shape0 : Int) (tid0 : Int) (tid1 : Int)
local notation "KW" => Gen.Constraint._limit_slide_hinge__kernel nv opt_timestep opt_disableflags jnt_qposadr jnt_dofadr jnt_solref jnt_solimp jnt_range jnt_margin dof_invweight0 jnt_limited_slide_hinge_adr qpos_in qvel_in njmax_in njmax_nnz_in nl_out nefc_out efc_type_out efc_id_out efc_jtdaj_adr_out efc_jtdaj_nrow_out efc_jtdaj_nblock_out efc_J_rownnz_out efc_J_rowadr_out efc_J_colind_out efc_J_out efc_pos_out efc_margin_out efc_D_out efc_vel_out efc_aref_out efc_frictionloss_out efc_nnz_out jnt_range_shape0 jnt_margin_shape0 alloc0 st_is_sparse_and_newton alloc1 st_is_sparse alloc2 dof_invweight0_shape0 jnt_solref_shape0 jnt_solimp_shape0 opt_timestep_shape0 tid0 tid1

/-- index safety, all inputs: every write of the thread to a per-row constraint array (`rowArrays`, and `efc_J_out`
    in dense mode) goes to `[worldid, r]` with `alloc0 ≤ r < alloc0 + 1` and `r < njmax_in`. -/
theorem limit_slide_hinge_safe : ∀ w ∈ KW, RowSafe tid0 alloc0 (alloc0 + 1) njmax_in st_is_sparse w :=
  Lemmas.C16.limit_slide_hinge_safe nv opt_timestep opt_disableflags jnt_qposadr jnt_dofadr jnt_solref jnt_solimp jnt_range jnt_margin dof_invweight0 jnt_limited_slide_hinge_adr qpos_in qvel_in njmax_in njmax_nnz_in nl_out nefc_out efc_type_out efc_id_out efc_jtdaj_adr_out efc_jtdaj_nrow_out efc_jtdaj_nblock_out efc_J_rownnz_out efc_J_rowadr_out efc_J_colind_out efc_J_out efc_pos_out efc_margin_out efc_D_out efc_vel_out efc_aref_out efc_frictionloss_out efc_nnz_out jnt_range_shape0 jnt_margin_shape0 alloc0 st_is_sparse_and_newton alloc1 st_is_sparse alloc2 dof_invweight0_shape0 jnt_solref_shape0 jnt_solimp_shape0 opt_timestep_shape0 tid0 tid1

/-- **limit_slide_hinge_guard**: the thread sets `efc_type_out[worldid, r]` ⇔ it reached the allocating atomic on
    `nefc_out[worldid]`, `alloc0 < njmax_in` (= `alloc0 + 1 ≤ njmax_in`: the guard is exact), in sparse mode its nnz
    request fits, and `r = alloc0`. -/
theorem limit_slide_hinge_guard (r : Int) : writesRow KW "efc_type_out" tid0 r ↔
    (reached KW "nefc_out" [tid0] ∧ alloc0 < njmax_in
      ∧ (st_is_sparse = true → allocFits KW "efc_nnz_out" [tid0] alloc2 njmax_nnz_in) ∧ r = alloc0) := by
  rw [Lemmas.C16.limit_slide_hinge_rows]
  have : (alloc0 ≤ r ∧ r < alloc0 + 1) ↔ r = alloc0 := by omega
  rw [this]

/-- **limit_slide_hinge_exact_fit**: if the thread reached the atomic and its row fits (`alloc0 + 1 ≤ njmax_in`, exact fit
    `alloc0 = njmax_in - 1` included) it writes row `alloc0` (dense mode, or nnz request granted). -/
theorem limit_slide_hinge_exact_fit (hr : reached KW "nefc_out" [tid0]) (hfit : alloc0 + 1 ≤ njmax_in)
    (hnnz : st_is_sparse = true → allocFits KW "efc_nnz_out" [tid0] alloc2 njmax_nnz_in) :
    writesRow KW "efc_type_out" tid0 alloc0 :=
  (limit_slide_hinge_guard nv opt_timestep opt_disableflags jnt_qposadr jnt_dofadr jnt_solref jnt_solimp jnt_range jnt_margin dof_invweight0 jnt_limited_slide_hinge_adr qpos_in qvel_in njmax_in njmax_nnz_in nl_out nefc_out efc_type_out efc_id_out efc_jtdaj_adr_out efc_jtdaj_nrow_out efc_jtdaj_nblock_out efc_J_rownnz_out efc_J_rowadr_out efc_J_colind_out efc_J_out efc_pos_out efc_margin_out efc_D_out efc_vel_out efc_aref_out efc_frictionloss_out efc_nnz_out jnt_range_shape0 jnt_margin_shape0 alloc0 st_is_sparse_and_newton alloc1 st_is_sparse alloc2 dof_invweight0_shape0 jnt_solref_shape0 jnt_solimp_shape0 opt_timestep_shape0 tid0 tid1 alloc0).mpr ⟨hr, by omega, hnnz, rfl⟩

/-- NNZ side: in sparse mode a thread whose nnz request does not fit writes NONE of its rows (it returns before
    `_efc_row`), although the rows were allocated and counted in `nefc`. -/
theorem limit_slide_hinge_nnz_dropped (hs : st_is_sparse = true)
    (hdrop : ¬ allocFits KW "efc_nnz_out" [tid0] alloc2 njmax_nnz_in) (r : Int) :
    ¬ writesRow KW "efc_type_out" tid0 r := by
  rw [limit_slide_hinge_guard]
  rintro ⟨_, _, h, _⟩
  exact hdrop (h hs)

/-- NJMAX_NNZ is never silent for this builder: a thread that performed its nnz atomic (returned `alloc2`) and whose request
    is not granted makes `_nnz_overflow` write the NJMAX_NNZ bit of its world, provided the counter ends at least at
    `alloc2 + request` (it does: the counter is the sum of all requests, `nnz_overflow_never_silent`). -/
theorem limit_slide_hinge_nnz_overflow_never_silent (hr : reached KW "efc_nnz_out" [tid0])
    (hdrop : ¬ allocFits KW "efc_nnz_out" [tid0] alloc2 njmax_nnz_in) (efc_nnz_in overflow_out : Int → Int)
    (hcount : ∀ n, allocReq KW "efc_nnz_out" [tid0] n → alloc2 + n ≤ efc_nnz_in tid0) :
    Gen.Constraint._nnz_overflow (K := K) njmax_nnz_in efc_nnz_in overflow_out tid0
      = [⟨"overflow_out", [tid0], WVal.i (Mjw.ior (overflow_out tid0) 2), WKind.set⟩] := by
  obtain ⟨n, hn⟩ := Lemmas.C16.limit_slide_hinge_nnz_req nv opt_timestep opt_disableflags jnt_qposadr jnt_dofadr jnt_solref jnt_solimp jnt_range jnt_margin dof_invweight0 jnt_limited_slide_hinge_adr qpos_in qvel_in njmax_in njmax_nnz_in nl_out nefc_out efc_type_out efc_id_out efc_jtdaj_adr_out efc_jtdaj_nrow_out efc_jtdaj_nblock_out efc_J_rownnz_out efc_J_rowadr_out efc_J_colind_out efc_J_out efc_pos_out efc_margin_out efc_D_out efc_vel_out efc_aref_out efc_frictionloss_out efc_nnz_out jnt_range_shape0 jnt_margin_shape0 alloc0 st_is_sparse_and_newton alloc1 st_is_sparse alloc2 dof_invweight0_shape0 jnt_solref_shape0 jnt_solimp_shape0 opt_timestep_shape0 tid0 tid1 hr
  exact nnz_dropped_thread_reported _ tid0 alloc2 njmax_nnz_in n hn hdrop efc_nnz_in overflow_out (hcount n hn)

/-- **limit_slide_hinge_dropped_row_has_no_nonzeros**: a thread whose row was allocated (`alloc0 < njmax_in`) but whose nnz request is
    dropped leaves `efc_J_rownnz_out[w, alloc0] = 0` (value after its own writes: the count stored before the guard is
    overwritten), never writes `efc_J_rowadr_out`, and writes none of its rows — never a positive count next to a
    stale address. -/
theorem limit_slide_hinge_dropped_row_has_no_nonzeros (d : Int) (hr : reached KW "nefc_out" [tid0]) (hg : alloc0 < njmax_in)
    (hs : st_is_sparse = true) (hdrop : ¬ allocFits KW "efc_nnz_out" [tid0] alloc2 njmax_nnz_in) :
    Write.lookupI KW "efc_J_rownnz_out" [tid0, alloc0] d = 0
    ∧ (∀ r v, ¬ cellI KW "efc_J_rowadr_out" tid0 r v)
    ∧ ∀ r, ¬ writesRow KW "efc_type_out" tid0 r :=
  ⟨Lemmas.C16.limit_slide_hinge_dropped_rownnz_zero nv opt_timestep opt_disableflags jnt_qposadr jnt_dofadr jnt_solref jnt_solimp jnt_range jnt_margin dof_invweight0 jnt_limited_slide_hinge_adr qpos_in qvel_in njmax_in njmax_nnz_in nl_out nefc_out efc_type_out efc_id_out efc_jtdaj_adr_out efc_jtdaj_nrow_out efc_jtdaj_nblock_out efc_J_rownnz_out efc_J_rowadr_out efc_J_colind_out efc_J_out efc_pos_out efc_margin_out efc_D_out efc_vel_out efc_aref_out efc_frictionloss_out efc_nnz_out jnt_range_shape0 jnt_margin_shape0 alloc0 st_is_sparse_and_newton alloc1 st_is_sparse alloc2 dof_invweight0_shape0 jnt_solref_shape0 jnt_solimp_shape0 opt_timestep_shape0 tid0 tid1 d hr hg hs hdrop,
   fun r v => Lemmas.C16.limit_slide_hinge_dropped_no_rowadr nv opt_timestep opt_disableflags jnt_qposadr jnt_dofadr jnt_solref jnt_solimp jnt_range jnt_margin dof_invweight0 jnt_limited_slide_hinge_adr qpos_in qvel_in njmax_in njmax_nnz_in nl_out nefc_out efc_type_out efc_id_out efc_jtdaj_adr_out efc_jtdaj_nrow_out efc_jtdaj_nblock_out efc_J_rownnz_out efc_J_rowadr_out efc_J_colind_out efc_J_out efc_pos_out efc_margin_out efc_D_out efc_vel_out efc_aref_out efc_frictionloss_out efc_nnz_out jnt_range_shape0 jnt_margin_shape0 alloc0 st_is_sparse_and_newton alloc1 st_is_sparse alloc2 dof_invweight0_shape0 jnt_solref_shape0 jnt_solimp_shape0 opt_timestep_shape0 tid0 tid1 hs hdrop r v,
   fun r => limit_slide_hinge_nnz_dropped nv opt_timestep opt_disableflags jnt_qposadr jnt_dofadr jnt_solref jnt_solimp jnt_range jnt_margin dof_invweight0 jnt_limited_slide_hinge_adr qpos_in qvel_in njmax_in njmax_nnz_in nl_out nefc_out efc_type_out efc_id_out efc_jtdaj_adr_out efc_jtdaj_nrow_out efc_jtdaj_nblock_out efc_J_rownnz_out efc_J_rowadr_out efc_J_colind_out efc_J_out efc_pos_out efc_margin_out efc_D_out efc_vel_out efc_aref_out efc_frictionloss_out efc_nnz_out jnt_range_shape0 jnt_margin_shape0 alloc0 st_is_sparse_and_newton alloc1 st_is_sparse alloc2 dof_invweight0_shape0 jnt_solref_shape0 jnt_solimp_shape0 opt_timestep_shape0 tid0 tid1 hs hdrop r⟩

/-- capacity transparency: the thread's COMPLETE write list (all arrays, all values) is the same for any two row
    capacities under which it passes the row guard — `njmax_in` enters the kernel through the guard only
    ("if nothing is dropped the result equals the one with ample capacity", thread level). -/
theorem limit_slide_hinge_capacity_transparent (njmax_in2 : Int) (h1 : alloc0 < njmax_in) (h2 : alloc0 < njmax_in2) :
    KW = Gen.Constraint._limit_slide_hinge__kernel nv opt_timestep opt_disableflags jnt_qposadr jnt_dofadr jnt_solref jnt_solimp jnt_range jnt_margin dof_invweight0 jnt_limited_slide_hinge_adr qpos_in qvel_in njmax_in2 njmax_nnz_in nl_out nefc_out efc_type_out efc_id_out efc_jtdaj_adr_out efc_jtdaj_nrow_out efc_jtdaj_nblock_out efc_J_rownnz_out efc_J_rowadr_out efc_J_colind_out efc_J_out efc_pos_out efc_margin_out efc_D_out efc_vel_out efc_aref_out efc_frictionloss_out efc_nnz_out jnt_range_shape0 jnt_margin_shape0 alloc0 st_is_sparse_and_newton alloc1 st_is_sparse alloc2 dof_invweight0_shape0 jnt_solref_shape0 jnt_solimp_shape0 opt_timestep_shape0 tid0 tid1 := by
  have e1 : decide (alloc0 ≥ njmax_in) = false := by simp; omega
  have e2 : decide (alloc0 ≥ njmax_in2) = false := by simp; omega
  unfold Gen.Constraint._limit_slide_hinge__kernel
  simp only [e1, e2]

/-- the thread as a `Builder` (function of the value returned by its allocating atomic) -/
def limit_slide_hinge_builder : Builder K where
  k := 1
  wid := tid0
  arr := "efc_type_out"
  run := fun a => Gen.Constraint._limit_slide_hinge__kernel nv opt_timestep opt_disableflags jnt_qposadr jnt_dofadr jnt_solref jnt_solimp jnt_range jnt_margin dof_invweight0 jnt_limited_slide_hinge_adr qpos_in qvel_in njmax_in njmax_nnz_in nl_out nefc_out efc_type_out efc_id_out efc_jtdaj_adr_out efc_jtdaj_nrow_out efc_jtdaj_nblock_out efc_J_rownnz_out efc_J_rowadr_out efc_J_colind_out efc_J_out efc_pos_out efc_margin_out efc_D_out efc_vel_out efc_aref_out efc_frictionloss_out efc_nnz_out jnt_range_shape0 jnt_margin_shape0 a st_is_sparse_and_newton alloc1 st_is_sparse alloc2 dof_invweight0_shape0 jnt_solref_shape0 jnt_solimp_shape0 opt_timestep_shape0 tid0 tid1
  ok := fun a => st_is_sparse = true → allocFits (Gen.Constraint._limit_slide_hinge__kernel nv opt_timestep opt_disableflags jnt_qposadr jnt_dofadr jnt_solref jnt_solimp jnt_range jnt_margin dof_invweight0 jnt_limited_slide_hinge_adr qpos_in qvel_in njmax_in njmax_nnz_in nl_out nefc_out efc_type_out efc_id_out efc_jtdaj_adr_out efc_jtdaj_nrow_out efc_jtdaj_nblock_out efc_J_rownnz_out efc_J_rowadr_out efc_J_colind_out efc_J_out efc_pos_out efc_margin_out efc_D_out efc_vel_out efc_aref_out efc_frictionloss_out efc_nnz_out jnt_range_shape0 jnt_margin_shape0 a st_is_sparse_and_newton alloc1 st_is_sparse alloc2 dof_invweight0_shape0 jnt_solref_shape0 jnt_solimp_shape0 opt_timestep_shape0 tid0 tid1) "efc_nnz_out" [tid0] alloc2 njmax_nnz_in

/-- the kernel obeys the model guard `Alloc.geGuard` -/
theorem limit_slide_hinge_obeys : (limit_slide_hinge_builder nv opt_timestep opt_disableflags jnt_qposadr jnt_dofadr jnt_solref jnt_solimp jnt_range jnt_margin dof_invweight0 jnt_limited_slide_hinge_adr qpos_in qvel_in njmax_in njmax_nnz_in nl_out nefc_out efc_type_out efc_id_out efc_jtdaj_adr_out efc_jtdaj_nrow_out efc_jtdaj_nblock_out efc_J_rownnz_out efc_J_rowadr_out efc_J_colind_out efc_J_out efc_pos_out efc_margin_out efc_D_out efc_vel_out efc_aref_out efc_frictionloss_out efc_nnz_out jnt_range_shape0 jnt_margin_shape0 st_is_sparse_and_newton alloc1 st_is_sparse alloc2 dof_invweight0_shape0 jnt_solref_shape0 jnt_solimp_shape0 opt_timestep_shape0 tid0 tid1).obeys Alloc.geGuard njmax_in := by
  intro a hreq hok hg r h1 h2
  have hg' : a < njmax_in := by
    simp only [Alloc.geGuard, Bool.not_eq_true', decide_eq_false_iff_not, ge_iff_le, Int.not_le] at hg
    exact hg
  exact (limit_slide_hinge_guard nv opt_timestep opt_disableflags jnt_qposadr jnt_dofadr jnt_solref jnt_solimp jnt_range jnt_margin dof_invweight0 jnt_limited_slide_hinge_adr qpos_in qvel_in njmax_in njmax_nnz_in nl_out nefc_out efc_type_out efc_id_out efc_jtdaj_adr_out efc_jtdaj_nrow_out efc_jtdaj_nblock_out efc_J_rownnz_out efc_J_rowadr_out efc_J_colind_out efc_J_out efc_pos_out efc_margin_out efc_D_out efc_vel_out efc_aref_out efc_frictionloss_out efc_nnz_out jnt_range_shape0 jnt_margin_shape0 a st_is_sparse_and_newton alloc1 st_is_sparse alloc2 dof_invweight0_shape0 jnt_solref_shape0 jnt_solimp_shape0 opt_timestep_shape0 tid0 tid1 r).mpr
    ⟨allocReq_reached _ _ _ _ hreq, hg', hok, by change a ≤ r at h1; change r < a + ((1 : Nat) : Int) at h2; omega⟩

/-- hence it is exact: rows that fit are written -/
theorem limit_slide_hinge_exact : (limit_slide_hinge_builder nv opt_timestep opt_disableflags jnt_qposadr jnt_dofadr jnt_solref jnt_solimp jnt_range jnt_margin dof_invweight0 jnt_limited_slide_hinge_adr qpos_in qvel_in njmax_in njmax_nnz_in nl_out nefc_out efc_type_out efc_id_out efc_jtdaj_adr_out efc_jtdaj_nrow_out efc_jtdaj_nblock_out efc_J_rownnz_out efc_J_rowadr_out efc_J_colind_out efc_J_out efc_pos_out efc_margin_out efc_D_out efc_vel_out efc_aref_out efc_frictionloss_out efc_nnz_out jnt_range_shape0 jnt_margin_shape0 st_is_sparse_and_newton alloc1 st_is_sparse alloc2 dof_invweight0_shape0 jnt_solref_shape0 jnt_solimp_shape0 opt_timestep_shape0 tid0 tid1).exact njmax_in :=
  Builder.exact_of_obeys _ Alloc.geGuard njmax_in (fun i C => geGuard_unit i C) (limit_slide_hinge_obeys nv opt_timestep opt_disableflags jnt_qposadr jnt_dofadr jnt_solref jnt_solimp jnt_range jnt_margin dof_invweight0 jnt_limited_slide_hinge_adr qpos_in qvel_in njmax_in njmax_nnz_in nl_out nefc_out efc_type_out efc_id_out efc_jtdaj_adr_out efc_jtdaj_nrow_out efc_jtdaj_nblock_out efc_J_rownnz_out efc_J_rowadr_out efc_J_colind_out efc_J_out efc_pos_out efc_margin_out efc_D_out efc_vel_out efc_aref_out efc_frictionloss_out efc_nnz_out jnt_range_shape0 jnt_margin_shape0 st_is_sparse_and_newton alloc1 st_is_sparse alloc2 dof_invweight0_shape0 jnt_solref_shape0 jnt_solimp_shape0 opt_timestep_shape0 tid0 tid1)
end limit_slide_hinge


/-! ### `_limit_ball__kernel`  —  k = 1, source guard `if efcid >= njmax_in: return` -/
section limit_ball
variable {K : Type} [Scalar K] (nv : Int) (opt_timestep : (Int → K)) (opt_disableflags : Int) (jnt_qposadr : (Int → Int)) (jnt_dofadr : (Int → Int)) (jnt_solref : (Int → Int → V2 K)) (jnt_solimp : (Int → Int → V5 K)) (jnt_range : (Int → Int → V2 K)) (jnt_margin : (Int → Int → K)) (dof_invweight0 : (Int → Int → K)) (jnt_limited_ball_adr : (Int → Int)) (qpos_in : (Int → Int → K)) (qvel_in : (Int → Int → K)) (njmax_in : Int) (njmax_nnz_in : Int) (nl_out : (Int → Int)) (nefc_out : (Int → Int)) (efc_type_out : (Int → Int → Int)) (efc_id_out : (Int → Int → Int)) (efc_jtdaj_adr_out : (Int → Int → Int)) (efc_jtdaj_nrow_out : (Int → Int → Int)) (efc_jtdaj_nblock_out : (Int → Int)) (efc_J_rownnz_out : (Int → Int → Int)) (efc_J_rowadr_out : (Int → Int → Int)) (efc_J_colind_out : (Int → Int → Int → Int)) (efc_J_out : (Int → Int → Int → K)) (efc_pos_out : (Int → Int → K)) (efc_margin_out : (Int → Int → K)) (efc_D_out : (Int → Int → K)) (efc_vel_out : (Int → Int → K)) (efc_aref_out : (Int → Int → K)) (efc_frictionloss_out : (Int → Int → K)) (efc_nnz_out : (Int → Int)) (jnt_range_shape0 : Int) (jnt_margin_shape0 : Int) (alloc0 : Int) (st_is_sparse_and_newton : Bool) (alloc1 : Int) (st_is_sparse : Bool) (alloc2 : Int) (dof_invweight0_shape0 : Int) (jnt_solref_shape0 : Int) (jnt_solimp_shape0 : Int) (opt_timestep_shape0 : Int) (tid0 : Int) (tid1 : Int)
local notation "KW" => Gen.Constraint._limit_ball__kernel nv opt_timestep opt_disableflags jnt_qposadr jnt_dofadr jnt_solref jnt_solimp jnt_range jnt_margin dof_invweight0 jnt_limited_ball_adr qpos_in qvel_in njmax_in njmax_nnz_in nl_out nefc_out efc_type_out efc_id_out efc_jtdaj_adr_out efc_jtdaj_nrow_out efc_jtdaj_nblock_out efc_J_rownnz_out efc_J_rowadr_out efc_J_colind_out efc_J_out efc_pos_out efc_margin_out efc_D_out efc_vel_out efc_aref_out efc_frictionloss_out efc_nnz_out jnt_range_shape0 jnt_margin_shape0 alloc0 st_is_sparse_and_newton alloc1 st_is_sparse alloc2 dof_invweight0_shape0 jnt_solref_shape0 jnt_solimp_shape0 opt_timestep_shape0 tid0 tid1

/-- index safety, all inputs: every write of the thread to a per-row constraint array (`rowArrays`, and `efc_J_out`
    in dense mode) goes to `[worldid, r]` with `alloc0 ≤ r < alloc0 + 1` and `r < njmax_in`. -/
theorem limit_ball_safe : ∀ w ∈ KW, RowSafe tid0 alloc0 (alloc0 + 1) njmax_in st_is_sparse w :=
  Lemmas.C16.limit_ball_safe nv opt_timestep opt_disableflags jnt_qposadr jnt_dofadr jnt_solref jnt_solimp jnt_range jnt_margin dof_invweight0 jnt_limited_ball_adr qpos_in qvel_in njmax_in njmax_nnz_in nl_out nefc_out efc_type_out efc_id_out efc_jtdaj_adr_out efc_jtdaj_nrow_out efc_jtdaj_nblock_out efc_J_rownnz_out efc_J_rowadr_out efc_J_colind_out efc_J_out efc_pos_out efc_margin_out efc_D_out efc_vel_out efc_aref_out efc_frictionloss_out efc_nnz_out jnt_range_shape0 jnt_margin_shape0 alloc0 st_is_sparse_and_newton alloc1 st_is_sparse alloc2 dof_invweight0_shape0 jnt_solref_shape0 jnt_solimp_shape0 opt_timestep_shape0 tid0 tid1

/-- **limit_ball_guard**: the thread sets `efc_type_out[worldid, r]` ⇔ it reached the allocating atomic on
    `nefc_out[worldid]`, `alloc0 < njmax_in` (= `alloc0 + 1 ≤ njmax_in`: the guard is exact), in sparse mode its nnz
    request fits, and `r = alloc0`. -/
theorem limit_ball_guard (r : Int) : writesRow KW "efc_type_out" tid0 r ↔
    (reached KW "nefc_out" [tid0] ∧ alloc0 < njmax_in
      ∧ (st_is_sparse = true → allocFits KW "efc_nnz_out" [tid0] alloc2 njmax_nnz_in) ∧ r = alloc0) := by
  rw [Lemmas.C16.limit_ball_rows]
  have : (alloc0 ≤ r ∧ r < alloc0 + 1) ↔ r = alloc0 := by omega
  rw [this]

/-- **limit_ball_exact_fit**: if the thread reached the atomic and its row fits (`alloc0 + 1 ≤ njmax_in`, exact fit
    `alloc0 = njmax_in - 1` included) it writes row `alloc0` (dense mode, or nnz request granted). -/
theorem limit_ball_exact_fit (hr : reached KW "nefc_out" [tid0]) (hfit : alloc0 + 1 ≤ njmax_in)
    (hnnz : st_is_sparse = true → allocFits KW "efc_nnz_out" [tid0] alloc2 njmax_nnz_in) :
    writesRow KW "efc_type_out" tid0 alloc0 :=
  (limit_ball_guard nv opt_timestep opt_disableflags jnt_qposadr jnt_dofadr jnt_solref jnt_solimp jnt_range jnt_margin dof_invweight0 jnt_limited_ball_adr qpos_in qvel_in njmax_in njmax_nnz_in nl_out nefc_out efc_type_out efc_id_out efc_jtdaj_adr_out efc_jtdaj_nrow_out efc_jtdaj_nblock_out efc_J_rownnz_out efc_J_rowadr_out efc_J_colind_out efc_J_out efc_pos_out efc_margin_out efc_D_out efc_vel_out efc_aref_out efc_frictionloss_out efc_nnz_out jnt_range_shape0 jnt_margin_shape0 alloc0 st_is_sparse_and_newton alloc1 st_is_sparse alloc2 dof_invweight0_shape0 jnt_solref_shape0 jnt_solimp_shape0 opt_timestep_shape0 tid0 tid1 alloc0).mpr ⟨hr, by omega, hnnz, rfl⟩

/-- NNZ side: in sparse mode a thread whose nnz request does not fit writes NONE of its rows (it returns before
    `_efc_row`), although the rows were allocated and counted in `nefc`. -/
theorem limit_ball_nnz_dropped (hs : st_is_sparse = true)
    (hdrop : ¬ allocFits KW "efc_nnz_out" [tid0] alloc2 njmax_nnz_in) (r : Int) :
    ¬ writesRow KW "efc_type_out" tid0 r := by
  rw [limit_ball_guard]
  rintro ⟨_, _, h, _⟩
  exact hdrop (h hs)

/-- NJMAX_NNZ is never silent for this builder: a thread that performed its nnz atomic (returned `alloc2`) and whose request
    is not granted makes `_nnz_overflow` write the NJMAX_NNZ bit of its world, provided the counter ends at least at
    `alloc2 + request` (it does: the counter is the sum of all requests, `nnz_overflow_never_silent`). -/
theorem limit_ball_nnz_overflow_never_silent (hr : reached KW "efc_nnz_out" [tid0])
    (hdrop : ¬ allocFits KW "efc_nnz_out" [tid0] alloc2 njmax_nnz_in) (efc_nnz_in overflow_out : Int → Int)
    (hcount : ∀ n, allocReq KW "efc_nnz_out" [tid0] n → alloc2 + n ≤ efc_nnz_in tid0) :
    Gen.Constraint._nnz_overflow (K := K) njmax_nnz_in efc_nnz_in overflow_out tid0
      = [⟨"overflow_out", [tid0], WVal.i (Mjw.ior (overflow_out tid0) 2), WKind.set⟩] := by
  obtain ⟨n, hn⟩ := Lemmas.C16.limit_ball_nnz_req nv opt_timestep opt_disableflags jnt_qposadr jnt_dofadr jnt_solref jnt_solimp jnt_range jnt_margin dof_invweight0 jnt_limited_ball_adr qpos_in qvel_in njmax_in njmax_nnz_in nl_out nefc_out efc_type_out efc_id_out efc_jtdaj_adr_out efc_jtdaj_nrow_out efc_jtdaj_nblock_out efc_J_rownnz_out efc_J_rowadr_out efc_J_colind_out efc_J_out efc_pos_out efc_margin_out efc_D_out efc_vel_out efc_aref_out efc_frictionloss_out efc_nnz_out jnt_range_shape0 jnt_margin_shape0 alloc0 st_is_sparse_and_newton alloc1 st_is_sparse alloc2 dof_invweight0_shape0 jnt_solref_shape0 jnt_solimp_shape0 opt_timestep_shape0 tid0 tid1 hr
  exact nnz_dropped_thread_reported _ tid0 alloc2 njmax_nnz_in n hn hdrop efc_nnz_in overflow_out (hcount n hn)

/-- **limit_ball_dropped_row_has_no_nonzeros**: a thread whose row was allocated (`alloc0 < njmax_in`) but whose nnz request is
    dropped leaves `efc_J_rownnz_out[w, alloc0] = 0` (value after its own writes: the count stored before the guard is
    overwritten), never writes `efc_J_rowadr_out`, and writes none of its rows — never a positive count next to a
    stale address. -/
theorem limit_ball_dropped_row_has_no_nonzeros (d : Int) (hr : reached KW "nefc_out" [tid0]) (hg : alloc0 < njmax_in)
    (hs : st_is_sparse = true) (hdrop : ¬ allocFits KW "efc_nnz_out" [tid0] alloc2 njmax_nnz_in) :
    Write.lookupI KW "efc_J_rownnz_out" [tid0, alloc0] d = 0
    ∧ (∀ r v, ¬ cellI KW "efc_J_rowadr_out" tid0 r v)
    ∧ ∀ r, ¬ writesRow KW "efc_type_out" tid0 r :=
  ⟨Lemmas.C16.limit_ball_dropped_rownnz_zero nv opt_timestep opt_disableflags jnt_qposadr jnt_dofadr jnt_solref jnt_solimp jnt_range jnt_margin dof_invweight0 jnt_limited_ball_adr qpos_in qvel_in njmax_in njmax_nnz_in nl_out nefc_out efc_type_out efc_id_out efc_jtdaj_adr_out efc_jtdaj_nrow_out efc_jtdaj_nblock_out efc_J_rownnz_out efc_J_rowadr_out efc_J_colind_out efc_J_out efc_pos_out efc_margin_out efc_D_out efc_vel_out efc_aref_out efc_frictionloss_out efc_nnz_out jnt_range_shape0 jnt_margin_shape0 alloc0 st_is_sparse_and_newton alloc1 st_is_sparse alloc2 dof_invweight0_shape0 jnt_solref_shape0 jnt_solimp_shape0 opt_timestep_shape0 tid0 tid1 d hr hg hs hdrop,
   fun r v => Lemmas.C16.limit_ball_dropped_no_rowadr nv opt_timestep opt_disableflags jnt_qposadr jnt_dofadr jnt_solref jnt_solimp jnt_range jnt_margin dof_invweight0 jnt_limited_ball_adr qpos_in qvel_in njmax_in njmax_nnz_in nl_out nefc_out efc_type_out efc_id_out efc_jtdaj_adr_out efc_jtdaj_nrow_out efc_jtdaj_nblock_out efc_J_rownnz_out efc_J_rowadr_out efc_J_colind_out efc_J_out efc_pos_out efc_margin_out efc_D_out efc_vel_out efc_aref_out efc_frictionloss_out efc_nnz_out jnt_range_shape0 jnt_margin_shape0 alloc0 st_is_sparse_and_newton alloc1 st_is_sparse alloc2 dof_invweight0_shape0 jnt_solref_shape0 jnt_solimp_shape0 opt_timestep_shape0 tid0 tid1 hs hdrop r v,
   fun r => limit_ball_nnz_dropped nv opt_timestep opt_disableflags jnt_qposadr jnt_dofadr jnt_solref jnt_solimp jnt_range jnt_margin dof_invweight0 jnt_limited_ball_adr qpos_in qvel_in njmax_in njmax_nnz_in nl_out nefc_out efc_type_out efc_id_out efc_jtdaj_adr_out efc_jtdaj_nrow_out efc_jtdaj_nblock_out efc_J_rownnz_out efc_J_rowadr_out efc_J_colind_out efc_J_out efc_pos_out efc_margin_out efc_D_out efc_vel_out efc_aref_out efc_frictionloss_out efc_nnz_out jnt_range_shape0 jnt_margin_shape0 alloc0 st_is_sparse_and_newton alloc1 st_is_sparse alloc2 dof_invweight0_shape0 jnt_solref_shape0 jnt_solimp_shape0 opt_timestep_shape0 tid0 tid1 hs hdrop r⟩

/-- capacity transparency: the thread's COMPLETE write list (all arrays, all values) is the same for any two row
    capacities under which it passes the row guard — `njmax_in` enters the kernel through the guard only
    ("if nothing is dropped the result equals the one with ample capacity", thread level). -/
theorem limit_ball_capacity_transparent (njmax_in2 : Int) (h1 : alloc0 < njmax_in) (h2 : alloc0 < njmax_in2) :
    KW = Gen.Constraint._limit_ball__kernel nv opt_timestep opt_disableflags jnt_qposadr jnt_dofadr jnt_solref jnt_solimp jnt_range jnt_margin dof_invweight0 jnt_limited_ball_adr qpos_in qvel_in njmax_in2 njmax_nnz_in nl_out nefc_out efc_type_out efc_id_out efc_jtdaj_adr_out efc_jtdaj_nrow_out efc_jtdaj_nblock_out efc_J_rownnz_out efc_J_rowadr_out efc_J_colind_out efc_J_out efc_pos_out efc_margin_out efc_D_out efc_vel_out efc_aref_out efc_frictionloss_out efc_nnz_out jnt_range_shape0 jnt_margin_shape0 alloc0 st_is_sparse_and_newton alloc1 st_is_sparse alloc2 dof_invweight0_shape0 jnt_solref_shape0 jnt_solimp_shape0 opt_timestep_shape0 tid0 tid1 := by
  have e1 : decide (alloc0 ≥ njmax_in) = false := by simp; omega
  have e2 : decide (alloc0 ≥ njmax_in2) = false := by simp; omega
  unfold Gen.Constraint._limit_ball__kernel
  simp only [e1, e2]

/-- the thread as a `Builder` (function of the value returned by its allocating atomic) -/
def limit_ball_builder : Builder K where
  k := 1
  wid := tid0
  arr := "efc_type_out"
  run := fun a => Gen.Constraint._limit_ball__kernel nv opt_timestep opt_disableflags jnt_qposadr jnt_dofadr jnt_solref jnt_solimp jnt_range jnt_margin dof_invweight0 jnt_limited_ball_adr qpos_in qvel_in njmax_in njmax_nnz_in nl_out nefc_out efc_type_out efc_id_out efc_jtdaj_adr_out efc_jtdaj_nrow_out efc_jtdaj_nblock_out efc_J_rownnz_out efc_J_rowadr_out efc_J_colind_out efc_J_out efc_pos_out efc_margin_out efc_D_out efc_vel_out efc_aref_out efc_frictionloss_out efc_nnz_out jnt_range_shape0 jnt_margin_shape0 a st_is_sparse_and_newton alloc1 st_is_sparse alloc2 dof_invweight0_shape0 jnt_solref_shape0 jnt_solimp_shape0 opt_timestep_shape0 tid0 tid1
  ok := fun a => st_is_sparse = true → allocFits (Gen.Constraint._limit_ball__kernel nv opt_timestep opt_disableflags jnt_qposadr jnt_dofadr jnt_solref jnt_solimp jnt_range jnt_margin dof_invweight0 jnt_limited_ball_adr qpos_in qvel_in njmax_in njmax_nnz_in nl_out nefc_out efc_type_out efc_id_out efc_jtdaj_adr_out efc_jtdaj_nrow_out efc_jtdaj_nblock_out efc_J_rownnz_out efc_J_rowadr_out efc_J_colind_out efc_J_out efc_pos_out efc_margin_out efc_D_out efc_vel_out efc_aref_out efc_frictionloss_out efc_nnz_out jnt_range_shape0 jnt_margin_shape0 a st_is_sparse_and_newton alloc1 st_is_sparse alloc2 dof_invweight0_shape0 jnt_solref_shape0 jnt_solimp_shape0 opt_timestep_shape0 tid0 tid1) "efc_nnz_out" [tid0] alloc2 njmax_nnz_in

/-- the kernel obeys the model guard `Alloc.geGuard` -/
theorem limit_ball_obeys : (limit_ball_builder nv opt_timestep opt_disableflags jnt_qposadr jnt_dofadr jnt_solref jnt_solimp jnt_range jnt_margin dof_invweight0 jnt_limited_ball_adr qpos_in qvel_in njmax_in njmax_nnz_in nl_out nefc_out efc_type_out efc_id_out efc_jtdaj_adr_out efc_jtdaj_nrow_out efc_jtdaj_nblock_out efc_J_rownnz_out efc_J_rowadr_out efc_J_colind_out efc_J_out efc_pos_out efc_margin_out efc_D_out efc_vel_out efc_aref_out efc_frictionloss_out efc_nnz_out jnt_range_shape0 jnt_margin_shape0 st_is_sparse_and_newton alloc1 st_is_sparse alloc2 dof_invweight0_shape0 jnt_solref_shape0 jnt_solimp_shape0 opt_timestep_shape0 tid0 tid1).obeys Alloc.geGuard njmax_in := by
  intro a hreq hok hg r h1 h2
  have hg' : a < njmax_in := by
    simp only [Alloc.geGuard, Bool.not_eq_true', decide_eq_false_iff_not, ge_iff_le, Int.not_le] at hg
    exact hg
  exact (limit_ball_guard nv opt_timestep opt_disableflags jnt_qposadr jnt_dofadr jnt_solref jnt_solimp jnt_range jnt_margin dof_invweight0 jnt_limited_ball_adr qpos_in qvel_in njmax_in njmax_nnz_in nl_out nefc_out efc_type_out efc_id_out efc_jtdaj_adr_out efc_jtdaj_nrow_out efc_jtdaj_nblock_out efc_J_rownnz_out efc_J_rowadr_out efc_J_colind_out efc_J_out efc_pos_out efc_margin_out efc_D_out efc_vel_out efc_aref_out efc_frictionloss_out efc_nnz_out jnt_range_shape0 jnt_margin_shape0 a st_is_sparse_and_newton alloc1 st_is_sparse alloc2 dof_invweight0_shape0 jnt_solref_shape0 jnt_solimp_shape0 opt_timestep_shape0 tid0 tid1 r).mpr
    ⟨allocReq_reached _ _ _ _ hreq, hg', hok, by change a ≤ r at h1; change r < a + ((1 : Nat) : Int) at h2; omega⟩

/-- hence it is exact: rows that fit are written -/
theorem limit_ball_exact : (limit_ball_builder nv opt_timestep opt_disableflags jnt_qposadr jnt_dofadr jnt_solref jnt_solimp jnt_range jnt_margin dof_invweight0 jnt_limited_ball_adr qpos_in qvel_in njmax_in njmax_nnz_in nl_out nefc_out efc_type_out efc_id_out efc_jtdaj_adr_out efc_jtdaj_nrow_out efc_jtdaj_nblock_out efc_J_rownnz_out efc_J_rowadr_out efc_J_colind_out efc_J_out efc_pos_out efc_margin_out efc_D_out efc_vel_out efc_aref_out efc_frictionloss_out efc_nnz_out jnt_range_shape0 jnt_margin_shape0 st_is_sparse_and_newton alloc1 st_is_sparse alloc2 dof_invweight0_shape0 jnt_solref_shape0 jnt_solimp_shape0 opt_timestep_shape0 tid0 tid1).exact njmax_in :=
  Builder.exact_of_obeys _ Alloc.geGuard njmax_in (fun i C => geGuard_unit i C) (limit_ball_obeys nv opt_timestep opt_disableflags jnt_qposadr jnt_dofadr jnt_solref jnt_solimp jnt_range jnt_margin dof_invweight0 jnt_limited_ball_adr qpos_in qvel_in njmax_in njmax_nnz_in nl_out nefc_out efc_type_out efc_id_out efc_jtdaj_adr_out efc_jtdaj_nrow_out efc_jtdaj_nblock_out efc_J_rownnz_out efc_J_rowadr_out efc_J_colind_out efc_J_out efc_pos_out efc_margin_out efc_D_out efc_vel_out efc_aref_out efc_frictionloss_out efc_nnz_out jnt_range_shape0 jnt_margin_shape0 st_is_sparse_and_newton alloc1 st_is_sparse alloc2 dof_invweight0_shape0 jnt_solref_shape0 jnt_solimp_shape0 opt_timestep_shape0 tid0 tid1)
end limit_ball


/-! ### `_limit_tendon__kernel`  —  k = 1, source guard `if efcid >= njmax_in: return` -/
section limit_tendon
variable {K : Type} [Scalar K] (nv : Int) (opt_timestep : (Int → K)) (opt_disableflags : Int) (ten_J_rownnz : (Int → Int)) (ten_J_rowadr : (Int → Int)) (ten_J_colind : (Int → Int)) (tendon_solref_lim : (Int → Int → V2 K)) (tendon_solimp_lim : (Int → Int → V5 K)) (tendon_range : (Int → Int → V2 K)) (tendon_margin : (Int → Int → K)) (tendon_invweight0 : (Int → Int → K)) (tendon_limited_adr : (Int → Int)) (qvel_in : (Int → Int → K)) (ten_J_in : (Int → Int → K)) (ten_length_in : (Int → Int → K)) (njmax_in : Int) (njmax_nnz_in : Int) (nl_out : (Int → Int)) (nefc_out : (Int → Int)) (efc_type_out : (Int → Int → Int)) (efc_id_out : (Int → Int → Int)) (efc_jtdaj_adr_out : (Int → Int → Int)) (efc_jtdaj_nrow_out : (Int → Int → Int)) (efc_jtdaj_nblock_out : (Int → Int)) (efc_J_rownnz_out : (Int → Int → Int)) (efc_J_rowadr_out : (Int → Int → Int)) (efc_J_colind_out : (Int → Int → Int → Int)) (efc_J_out : (Int → Int → Int → K)) (efc_pos_out : (Int → Int → K)) (efc_margin_out : (Int → Int → K)) (efc_D_out : (Int → Int → K)) (efc_vel_out : (Int → Int → K)) (efc_aref_out : (Int → Int → K)) (efc_frictionloss_out : (Int → Int → K)) (efc_nnz_out : (Int → Int)) (tendon_range_shape0 : Int) (tendon_margin_shape0 : Int) (alloc0 : Int) (st_is_sparse_and_newton : Bool) (alloc1 : Int) (st_is_sparse : Bool) (alloc2 : Int) (tendon_invweight0_shape0 : Int) (tendon_solref_lim_shape0 : Int) (tendon_solimp_lim_shape0 : Int) (opt_timestep_shape0 : Int) (tid0 : Int) (tid1 : Int)
local notation "KW" => Gen.Constraint._limit_tendon__kernel nv opt_timestep opt_disableflags ten_J_rownnz ten_J_rowadr ten_J_colind tendon_solref_lim tendon_solimp_lim tendon_range tendon_margin tendon_invweight0 tendon_limited_adr qvel_in ten_J_in ten_length_in njmax_in njmax_nnz_in nl_out nefc_out efc_type_out efc_id_out efc_jtdaj_adr_out efc_jtdaj_nrow_out efc_jtdaj_nblock_out efc_J_rownnz_out efc_J_rowadr_out efc_J_colind_out efc_J_out efc_pos_out efc_margin_out efc_D_out efc_vel_out efc_aref_out efc_frictionloss_out efc_nnz_out tendon_range_shape0 tendon_margin_shape0 alloc0 st_is_sparse_and_newton alloc1 st_is_sparse alloc2 tendon_invweight0_shape0 tendon_solref_lim_shape0 tendon_solimp_lim_shape0 opt_timestep_shape0 tid0 tid1

/-- index safety, all inputs: every write of the thread to a per-row constraint array (`rowArrays`, and `efc_J_out`
    in dense mode) goes to `[worldid, r]` with `alloc0 ≤ r < alloc0 + 1` and `r < njmax_in`. -/
theorem limit_tendon_safe : ∀ w ∈ KW, RowSafe tid0 alloc0 (alloc0 + 1) njmax_in st_is_sparse w :=
  Lemmas.C16.limit_tendon_safe nv opt_timestep opt_disableflags ten_J_rownnz ten_J_rowadr ten_J_colind tendon_solref_lim tendon_solimp_lim tendon_range tendon_margin tendon_invweight0 tendon_limited_adr qvel_in ten_J_in ten_length_in njmax_in njmax_nnz_in nl_out nefc_out efc_type_out efc_id_out efc_jtdaj_adr_out efc_jtdaj_nrow_out efc_jtdaj_nblock_out efc_J_rownnz_out efc_J_rowadr_out efc_J_colind_out efc_J_out efc_pos_out efc_margin_out efc_D_out efc_vel_out efc_aref_out efc_frictionloss_out efc_nnz_out tendon_range_shape0 tendon_margin_shape0 alloc0 st_is_sparse_and_newton alloc1 st_is_sparse alloc2 tendon_invweight0_shape0 tendon_solref_lim_shape0 tendon_solimp_lim_shape0 opt_timestep_shape0 tid0 tid1

/-- **limit_tendon_guard**: the thread sets `efc_type_out[worldid, r]` ⇔ it reached the allocating atomic on
    `nefc_out[worldid]`, `alloc0 < njmax_in` (= `alloc0 + 1 ≤ njmax_in`: the guard is exact), in sparse mode its nnz
    request fits, and `r = alloc0`. -/
theorem limit_tendon_guard (r : Int) : writesRow KW "efc_type_out" tid0 r ↔
    (reached KW "nefc_out" [tid0] ∧ alloc0 < njmax_in
      ∧ (st_is_sparse = true → allocFits KW "efc_nnz_out" [tid0] alloc2 njmax_nnz_in) ∧ r = alloc0) := by
  rw [Lemmas.C16.limit_tendon_rows]
  have : (alloc0 ≤ r ∧ r < alloc0 + 1) ↔ r = alloc0 := by omega
  rw [this]

/-- **limit_tendon_exact_fit**: if the thread reached the atomic and its row fits (`alloc0 + 1 ≤ njmax_in`, exact fit
    `alloc0 = njmax_in - 1` included) it writes row `alloc0` (dense mode, or nnz request granted). -/
theorem limit_tendon_exact_fit (hr : reached KW "nefc_out" [tid0]) (hfit : alloc0 + 1 ≤ njmax_in)
    (hnnz : st_is_sparse = true → allocFits KW "efc_nnz_out" [tid0] alloc2 njmax_nnz_in) :
    writesRow KW "efc_type_out" tid0 alloc0 :=
  (limit_tendon_guard nv opt_timestep opt_disableflags ten_J_rownnz ten_J_rowadr ten_J_colind tendon_solref_lim tendon_solimp_lim tendon_range tendon_margin tendon_invweight0 tendon_limited_adr qvel_in ten_J_in ten_length_in njmax_in njmax_nnz_in nl_out nefc_out efc_type_out efc_id_out efc_jtdaj_adr_out efc_jtdaj_nrow_out efc_jtdaj_nblock_out efc_J_rownnz_out efc_J_rowadr_out efc_J_colind_out efc_J_out efc_pos_out efc_margin_out efc_D_out efc_vel_out efc_aref_out efc_frictionloss_out efc_nnz_out tendon_range_shape0 tendon_margin_shape0 alloc0 st_is_sparse_and_newton alloc1 st_is_sparse alloc2 tendon_invweight0_shape0 tendon_solref_lim_shape0 tendon_solimp_lim_shape0 opt_timestep_shape0 tid0 tid1 alloc0).mpr ⟨hr, by omega, hnnz, rfl⟩

/-- NNZ side: in sparse mode a thread whose nnz request does not fit writes NONE of its rows (it returns before
    `_efc_row`), although the rows were allocated and counted in `nefc`. -/
theorem limit_tendon_nnz_dropped (hs : st_is_sparse = true)
    (hdrop : ¬ allocFits KW "efc_nnz_out" [tid0] alloc2 njmax_nnz_in) (r : Int) :
    ¬ writesRow KW "efc_type_out" tid0 r := by
  rw [limit_tendon_guard]
  rintro ⟨_, _, h, _⟩
  exact hdrop (h hs)

/-- NJMAX_NNZ is never silent for this builder: a thread that performed its nnz atomic (returned `alloc2`) and whose request
    is not granted makes `_nnz_overflow` write the NJMAX_NNZ bit of its world, provided the counter ends at least at
    `alloc2 + request` (it does: the counter is the sum of all requests, `nnz_overflow_never_silent`). -/
theorem limit_tendon_nnz_overflow_never_silent (hr : reached KW "efc_nnz_out" [tid0])
    (hdrop : ¬ allocFits KW "efc_nnz_out" [tid0] alloc2 njmax_nnz_in) (efc_nnz_in overflow_out : Int → Int)
    (hcount : ∀ n, allocReq KW "efc_nnz_out" [tid0] n → alloc2 + n ≤ efc_nnz_in tid0) :
    Gen.Constraint._nnz_overflow (K := K) njmax_nnz_in efc_nnz_in overflow_out tid0
      = [⟨"overflow_out", [tid0], WVal.i (Mjw.ior (overflow_out tid0) 2), WKind.set⟩] := by
  obtain ⟨n, hn⟩ := Lemmas.C16.limit_tendon_nnz_req nv opt_timestep opt_disableflags ten_J_rownnz ten_J_rowadr ten_J_colind tendon_solref_lim tendon_solimp_lim tendon_range tendon_margin tendon_invweight0 tendon_limited_adr qvel_in ten_J_in ten_length_in njmax_in njmax_nnz_in nl_out nefc_out efc_type_out efc_id_out efc_jtdaj_adr_out efc_jtdaj_nrow_out efc_jtdaj_nblock_out efc_J_rownnz_out efc_J_rowadr_out efc_J_colind_out efc_J_out efc_pos_out efc_margin_out efc_D_out efc_vel_out efc_aref_out efc_frictionloss_out efc_nnz_out tendon_range_shape0 tendon_margin_shape0 alloc0 st_is_sparse_and_newton alloc1 st_is_sparse alloc2 tendon_invweight0_shape0 tendon_solref_lim_shape0 tendon_solimp_lim_shape0 opt_timestep_shape0 tid0 tid1 hr
  exact nnz_dropped_thread_reported _ tid0 alloc2 njmax_nnz_in n hn hdrop efc_nnz_in overflow_out (hcount n hn)

/-- **limit_tendon_dropped_row_has_no_nonzeros**: a thread whose row was allocated (`alloc0 < njmax_in`) but whose nnz request is
    dropped leaves `efc_J_rownnz_out[w, alloc0] = 0` (value after its own writes: the count stored before the guard is
    overwritten), never writes `efc_J_rowadr_out`, and writes none of its rows — never a positive count next to a
    stale address. -/
theorem limit_tendon_dropped_row_has_no_nonzeros (d : Int) (hr : reached KW "nefc_out" [tid0]) (hg : alloc0 < njmax_in)
    (hs : st_is_sparse = true) (hdrop : ¬ allocFits KW "efc_nnz_out" [tid0] alloc2 njmax_nnz_in) :
    Write.lookupI KW "efc_J_rownnz_out" [tid0, alloc0] d = 0
    ∧ (∀ r v, ¬ cellI KW "efc_J_rowadr_out" tid0 r v)
    ∧ ∀ r, ¬ writesRow KW "efc_type_out" tid0 r :=
  ⟨Lemmas.C16.limit_tendon_dropped_rownnz_zero nv opt_timestep opt_disableflags ten_J_rownnz ten_J_rowadr ten_J_colind tendon_solref_lim tendon_solimp_lim tendon_range tendon_margin tendon_invweight0 tendon_limited_adr qvel_in ten_J_in ten_length_in njmax_in njmax_nnz_in nl_out nefc_out efc_type_out efc_id_out efc_jtdaj_adr_out efc_jtdaj_nrow_out efc_jtdaj_nblock_out efc_J_rownnz_out efc_J_rowadr_out efc_J_colind_out efc_J_out efc_pos_out efc_margin_out efc_D_out efc_vel_out efc_aref_out efc_frictionloss_out efc_nnz_out tendon_range_shape0 tendon_margin_shape0 alloc0 st_is_sparse_and_newton alloc1 st_is_sparse alloc2 tendon_invweight0_shape0 tendon_solref_lim_shape0 tendon_solimp_lim_shape0 opt_timestep_shape0 tid0 tid1 d hr hg hs hdrop,
   fun r v => Lemmas.C16.limit_tendon_dropped_no_rowadr nv opt_timestep opt_disableflags ten_J_rownnz ten_J_rowadr ten_J_colind tendon_solref_lim tendon_solimp_lim tendon_range tendon_margin tendon_invweight0 tendon_limited_adr qvel_in ten_J_in ten_length_in njmax_in njmax_nnz_in nl_out nefc_out efc_type_out efc_id_out efc_jtdaj_adr_out efc_jtdaj_nrow_out efc_jtdaj_nblock_out efc_J_rownnz_out efc_J_rowadr_out efc_J_colind_out efc_J_out efc_pos_out efc_margin_out efc_D_out efc_vel_out efc_aref_out efc_frictionloss_out efc_nnz_out tendon_range_shape0 tendon_margin_shape0 alloc0 st_is_sparse_and_newton alloc1 st_is_sparse alloc2 tendon_invweight0_shape0 tendon_solref_lim_shape0 tendon_solimp_lim_shape0 opt_timestep_shape0 tid0 tid1 hs hdrop r v,
   fun r => limit_tendon_nnz_dropped nv opt_timestep opt_disableflags ten_J_rownnz ten_J_rowadr ten_J_colind tendon_solref_lim tendon_solimp_lim tendon_range tendon_margin tendon_invweight0 tendon_limited_adr qvel_in ten_J_in ten_length_in njmax_in njmax_nnz_in nl_out nefc_out efc_type_out efc_id_out efc_jtdaj_adr_out efc_jtdaj_nrow_out efc_jtdaj_nblock_out efc_J_rownnz_out efc_J_rowadr_out efc_J_colind_out efc_J_out efc_pos_out efc_margin_out efc_D_out efc_vel_out efc_aref_out efc_frictionloss_out efc_nnz_out tendon_range_shape0 tendon_margin_shape0 alloc0 st_is_sparse_and_newton alloc1 st_is_sparse alloc2 tendon_invweight0_shape0 tendon_solref_lim_shape0 tendon_solimp_lim_shape0 opt_timestep_shape0 tid0 tid1 hs hdrop r⟩

/-- capacity transparency: the thread's COMPLETE write list (all arrays, all values) is the same for any two row
    capacities under which it passes the row guard — `njmax_in` enters the kernel through the guard only
    ("if nothing is dropped the result equals the one with ample capacity", thread level). -/
theorem limit_tendon_capacity_transparent (njmax_in2 : Int) (h1 : alloc0 < njmax_in) (h2 : alloc0 < njmax_in2) :
    KW = Gen.Constraint._limit_tendon__kernel nv opt_timestep opt_disableflags ten_J_rownnz ten_J_rowadr ten_J_colind tendon_solref_lim tendon_solimp_lim tendon_range tendon_margin tendon_invweight0 tendon_limited_adr qvel_in ten_J_in ten_length_in njmax_in2 njmax_nnz_in nl_out nefc_out efc_type_out efc_id_out efc_jtdaj_adr_out efc_jtdaj_nrow_out efc_jtdaj_nblock_out efc_J_rownnz_out efc_J_rowadr_out efc_J_colind_out efc_J_out efc_pos_out efc_margin_out efc_D_out efc_vel_out efc_aref_out efc_frictionloss_out efc_nnz_out tendon_range_shape0 tendon_margin_shape0 alloc0 st_is_sparse_and_newton alloc1 st_is_sparse alloc2 tendon_invweight0_shape0 tendon_solref_lim_shape0 tendon_solimp_lim_shape0 opt_timestep_shape0 tid0 tid1 := by
  have e1 : decide (alloc0 ≥ njmax_in) = false := by simp; omega
  have e2 : decide (alloc0 ≥ njmax_in2) = false := by simp; omega
  unfold Gen.Constraint._limit_tendon__kernel
  simp only [e1, e2]

/-- the thread as a `Builder` (function of the value returned by its allocating atomic) -/
def limit_tendon_builder : Builder K where
  k := 1
  wid := tid0
  arr := "efc_type_out"
  run := fun a => Gen.Constraint._limit_tendon__kernel nv opt_timestep opt_disableflags ten_J_rownnz ten_J_rowadr ten_J_colind tendon_solref_lim tendon_solimp_lim tendon_range tendon_margin tendon_invweight0 tendon_limited_adr qvel_in ten_J_in ten_length_in njmax_in njmax_nnz_in nl_out nefc_out efc_type_out efc_id_out efc_jtdaj_adr_out efc_jtdaj_nrow_out efc_jtdaj_nblock_out efc_J_rownnz_out efc_J_rowadr_out efc_J_colind_out efc_J_out efc_pos_out efc_margin_out efc_D_out efc_vel_out efc_aref_out efc_frictionloss_out efc_nnz_out tendon_range_shape0 tendon_margin_shape0 a st_is_sparse_and_newton alloc1 st_is_sparse alloc2 tendon_invweight0_shape0 tendon_solref_lim_shape0 tendon_solimp_lim_shape0 opt_timestep_shape0 tid0 tid1
  ok := fun a => st_is_sparse = true → allocFits (Gen.Constraint._limit_tendon__kernel nv opt_timestep opt_disableflags ten_J_rownnz ten_J_rowadr ten_J_colind tendon_solref_lim tendon_solimp_lim tendon_range tendon_margin tendon_invweight0 tendon_limited_adr qvel_in ten_J_in ten_length_in njmax_in njmax_nnz_in nl_out nefc_out efc_type_out efc_id_out efc_jtdaj_adr_out efc_jtdaj_nrow_out efc_jtdaj_nblock_out efc_J_rownnz_out efc_J_rowadr_out efc_J_colind_out efc_J_out efc_pos_out efc_margin_out efc_D_out efc_vel_out efc_aref_out efc_frictionloss_out efc_nnz_out tendon_range_shape0 tendon_margin_shape0 a st_is_sparse_and_newton alloc1 st_is_sparse alloc2 tendon_invweight0_shape0 tendon_solref_lim_shape0 tendon_solimp_lim_shape0 opt_timestep_shape0 tid0 tid1) "efc_nnz_out" [tid0] alloc2 njmax_nnz_in

/-- the kernel obeys the model guard `Alloc.geGuard` -/
theorem limit_tendon_obeys : (limit_tendon_builder nv opt_timestep opt_disableflags ten_J_rownnz ten_J_rowadr ten_J_colind tendon_solref_lim tendon_solimp_lim tendon_range tendon_margin tendon_invweight0 tendon_limited_adr qvel_in ten_J_in ten_length_in njmax_in njmax_nnz_in nl_out nefc_out efc_type_out efc_id_out efc_jtdaj_adr_out efc_jtdaj_nrow_out efc_jtdaj_nblock_out efc_J_rownnz_out efc_J_rowadr_out efc_J_colind_out efc_J_out efc_pos_out efc_margin_out efc_D_out efc_vel_out efc_aref_out efc_frictionloss_out efc_nnz_out tendon_range_shape0 tendon_margin_shape0 st_is_sparse_and_newton alloc1 st_is_sparse alloc2 tendon_invweight0_shape0 tendon_solref_lim_shape0 tendon_solimp_lim_shape0 opt_timestep_shape0 tid0 tid1).obeys Alloc.geGuard njmax_in := by
  intro a hreq hok hg r h1 h2
  have hg' : a < njmax_in := by
    simp only [Alloc.geGuard, Bool.not_eq_true', decide_eq_false_iff_not, ge_iff_le, Int.not_le] at hg
    exact hg
  exact (limit_tendon_guard nv opt_timestep opt_disableflags ten_J_rownnz ten_J_rowadr ten_J_colind tendon_solref_lim tendon_solimp_lim tendon_range tendon_margin tendon_invweight0 tendon_limited_adr qvel_in ten_J_in ten_length_in njmax_in njmax_nnz_in nl_out nefc_out efc_type_out efc_id_out efc_jtdaj_adr_out efc_jtdaj_nrow_out efc_jtdaj_nblock_out efc_J_rownnz_out efc_J_rowadr_out efc_J_colind_out efc_J_out efc_pos_out efc_margin_out efc_D_out efc_vel_out efc_aref_out efc_frictionloss_out efc_nnz_out tendon_range_shape0 tendon_margin_shape0 a st_is_sparse_and_newton alloc1 st_is_sparse alloc2 tendon_invweight0_shape0 tendon_solref_lim_shape0 tendon_solimp_lim_shape0 opt_timestep_shape0 tid0 tid1 r).mpr
    ⟨allocReq_reached _ _ _ _ hreq, hg', hok, by change a ≤ r at h1; change r < a + ((1 : Nat) : Int) at h2; omega⟩

/-- hence it is exact: rows that fit are written -/
theorem limit_tendon_exact : (limit_tendon_builder nv opt_timestep opt_disableflags ten_J_rownnz ten_J_rowadr ten_J_colind tendon_solref_lim tendon_solimp_lim tendon_range tendon_margin tendon_invweight0 tendon_limited_adr qvel_in ten_J_in ten_length_in njmax_in njmax_nnz_in nl_out nefc_out efc_type_out efc_id_out efc_jtdaj_adr_out efc_jtdaj_nrow_out efc_jtdaj_nblock_out efc_J_rownnz_out efc_J_rowadr_out efc_J_colind_out efc_J_out efc_pos_out efc_margin_out efc_D_out efc_vel_out efc_aref_out efc_frictionloss_out efc_nnz_out tendon_range_shape0 tendon_margin_shape0 st_is_sparse_and_newton alloc1 st_is_sparse alloc2 tendon_invweight0_shape0 tendon_solref_lim_shape0 tendon_solimp_lim_shape0 opt_timestep_shape0 tid0 tid1).exact njmax_in :=
  Builder.exact_of_obeys _ Alloc.geGuard njmax_in (fun i C => geGuard_unit i C) (limit_tendon_obeys nv opt_timestep opt_disableflags ten_J_rownnz ten_J_rowadr ten_J_colind tendon_solref_lim tendon_solimp_lim tendon_range tendon_margin tendon_invweight0 tendon_limited_adr qvel_in ten_J_in ten_length_in njmax_in njmax_nnz_in nl_out nefc_out efc_type_out efc_id_out efc_jtdaj_adr_out efc_jtdaj_nrow_out efc_jtdaj_nblock_out efc_J_rownnz_out efc_J_rowadr_out efc_J_colind_out efc_J_out efc_pos_out efc_margin_out efc_D_out efc_vel_out efc_aref_out efc_frictionloss_out efc_nnz_out tendon_range_shape0 tendon_margin_shape0 st_is_sparse_and_newton alloc1 st_is_sparse alloc2 tendon_invweight0_shape0 tendon_solref_lim_shape0 tendon_solimp_lim_shape0 opt_timestep_shape0 tid0 tid1)
end limit_tendon


/-! ### `_efc_contact_init__kernel`  —  block of `ndim` rows, granted ROW BY ROW (`if efcid >= njmax_in` per row) -/
section contact_init
variable {K : Type} [Scalar K] (body_weldid : (Int → Int)) (body_dofnum : (Int → Int)) (body_dofadr : (Int → Int)) (dof_parentid : (Int → Int)) (geom_bodyid : (Int → Int)) (njmax_in : Int) (njmax_nnz_in : Int) (nacon_in : (Int → Int)) (dist_in : (Int → K)) (condim_in : (Int → Int)) (includemargin_in : (Int → K)) (adhesion_in : (Int → K)) (worldid_in : (Int → Int)) (geom_in : (Int → I2)) (type_in : (Int → Int)) (nefc_out : (Int → Int)) (contact_efc_address_out : (Int → Int → Int)) (efc_id_out : (Int → Int → Int)) (efc_jtdaj_adr_out : (Int → Int → Int)) (efc_jtdaj_nrow_out : (Int → Int → Int)) (efc_jtdaj_nblock_out : (Int → Int)) (efc_J_rownnz_out : (Int → Int → Int)) (efc_J_rowadr_out : (Int → Int → Int)) (efc_nnz_out : (Int → Int)) (st_flg_adhesion : Bool) (st_IS_ELLIPTIC : Bool) (alloc0 : Int) (st_is_sparse_and_newton : Bool) (alloc1 : Int) (st_IS_SPARSE : Bool) (alloc2 : Int) (fuel : Nat) (tid0 : Int)
local notation "KW" => Gen.Constraint._efc_contact_init__kernel body_weldid body_dofnum body_dofadr dof_parentid geom_bodyid njmax_in njmax_nnz_in nacon_in dist_in condim_in includemargin_in adhesion_in worldid_in geom_in type_in nefc_out contact_efc_address_out efc_id_out efc_jtdaj_adr_out efc_jtdaj_nrow_out efc_jtdaj_nblock_out efc_J_rownnz_out efc_J_rowadr_out efc_nnz_out st_flg_adhesion st_IS_ELLIPTIC alloc0 st_is_sparse_and_newton alloc1 st_IS_SPARSE alloc2 fuel tid0

/-- **contact_init_guard**: the thread sets `efc_id_out[worldid, r]` ⇔ it performed the allocating atomic asking for
    `n` rows and `alloc0 ≤ r < alloc0 + n` and `r < njmax_in`: a block that straddles the capacity is granted
    PARTIALLY, row by row, and every row that fits is written (the per-row guard is exact). -/
theorem contact_init_guard (r : Int) : writesRow KW "efc_id_out" (worldid_in tid0) r ↔
    ∃ n, allocReq KW "nefc_out" [worldid_in tid0] n ∧ alloc0 ≤ r ∧ r < alloc0 + n ∧ r < njmax_in :=
  Lemmas.C16.contact_init_rows body_weldid body_dofnum body_dofadr dof_parentid geom_bodyid njmax_in njmax_nnz_in nacon_in dist_in condim_in includemargin_in adhesion_in worldid_in geom_in type_in nefc_out contact_efc_address_out efc_id_out efc_jtdaj_adr_out efc_jtdaj_nrow_out efc_jtdaj_nblock_out efc_J_rownnz_out efc_J_rowadr_out efc_nnz_out st_flg_adhesion st_IS_ELLIPTIC alloc0 st_is_sparse_and_newton alloc1 st_IS_SPARSE alloc2 fuel tid0 r

/-- index safety (`n` = the number of rows the thread asked for) -/
theorem contact_init_safe (n : Int) (hn : allocReq KW "nefc_out" [worldid_in tid0] n) :
    ∀ w ∈ KW, RowSafe (worldid_in tid0) alloc0 (alloc0 + n) njmax_in st_IS_SPARSE w :=
  Lemmas.C16.contact_init_safe body_weldid body_dofnum body_dofadr dof_parentid geom_bodyid njmax_in njmax_nnz_in nacon_in dist_in condim_in includemargin_in adhesion_in worldid_in geom_in type_in nefc_out contact_efc_address_out efc_id_out efc_jtdaj_adr_out efc_jtdaj_nrow_out efc_jtdaj_nblock_out efc_J_rownnz_out efc_J_rowadr_out efc_nnz_out st_flg_adhesion st_IS_ELLIPTIC alloc0 st_is_sparse_and_newton alloc1 st_IS_SPARSE alloc2 fuel tid0 n hn

/-- **contact_init_exact_fit**: if the whole block fits (`alloc0 + n ≤ njmax_in`, exact fit included) all its rows
    are written — no side condition (the nnz guard of this kernel only protects `efc_J_rowadr/rownnz`). -/
theorem contact_init_exact_fit (n : Int) (hn : allocReq KW "nefc_out" [worldid_in tid0] n)
    (hfit : alloc0 + n ≤ njmax_in) (r : Int) (h1 : alloc0 ≤ r) (h2 : r < alloc0 + n) :
    writesRow KW "efc_id_out" (worldid_in tid0) r :=
  (contact_init_guard body_weldid body_dofnum body_dofadr dof_parentid geom_bodyid njmax_in njmax_nnz_in nacon_in dist_in condim_in includemargin_in adhesion_in worldid_in geom_in type_in nefc_out contact_efc_address_out efc_id_out efc_jtdaj_adr_out efc_jtdaj_nrow_out efc_jtdaj_nblock_out efc_J_rownnz_out efc_J_rowadr_out efc_nnz_out st_flg_adhesion st_IS_ELLIPTIC alloc0 st_is_sparse_and_newton alloc1 st_IS_SPARSE alloc2 fuel tid0 r).mpr ⟨n, hn, h1, h2, by omega⟩

/-- NJMAX_NNZ is never silent for contact init either (its nnz guard protects `efc_J_rowadr/rownnz` of the block) -/
theorem contact_init_nnz_overflow_never_silent (hr : reached KW "efc_nnz_out" [worldid_in tid0])
    (hdrop : ¬ allocFits KW "efc_nnz_out" [worldid_in tid0] alloc2 njmax_nnz_in) (efc_nnz_in overflow_out : Int → Int)
    (hcount : ∀ n, allocReq KW "efc_nnz_out" [worldid_in tid0] n → alloc2 + n ≤ efc_nnz_in (worldid_in tid0)) :
    Gen.Constraint._nnz_overflow (K := K) njmax_nnz_in efc_nnz_in overflow_out (worldid_in tid0)
      = [⟨"overflow_out", [worldid_in tid0], WVal.i (Mjw.ior (overflow_out (worldid_in tid0)) 2), WKind.set⟩] := by
  obtain ⟨n, hn⟩ := Lemmas.C16.contact_init_nnz_req body_weldid body_dofnum body_dofadr dof_parentid geom_bodyid njmax_in njmax_nnz_in nacon_in dist_in condim_in includemargin_in adhesion_in worldid_in geom_in type_in nefc_out contact_efc_address_out efc_id_out efc_jtdaj_adr_out efc_jtdaj_nrow_out efc_jtdaj_nblock_out efc_J_rownnz_out efc_J_rowadr_out efc_nnz_out st_flg_adhesion st_IS_ELLIPTIC alloc0 st_is_sparse_and_newton alloc1 st_IS_SPARSE alloc2 fuel tid0 hr
  exact nnz_dropped_thread_reported _ (worldid_in tid0) alloc2 njmax_nnz_in n hn hdrop efc_nnz_in overflow_out (hcount n hn)

/-- the thread as a `Builder` asking for `n` rows -/
def contact_init_builder (n : Nat) : Builder K where
  k := n
  wid := worldid_in tid0
  arr := "efc_id_out"
  run := fun a => Gen.Constraint._efc_contact_init__kernel body_weldid body_dofnum body_dofadr dof_parentid geom_bodyid njmax_in njmax_nnz_in nacon_in dist_in condim_in includemargin_in adhesion_in worldid_in geom_in type_in nefc_out contact_efc_address_out efc_id_out efc_jtdaj_adr_out efc_jtdaj_nrow_out efc_jtdaj_nblock_out efc_J_rownnz_out efc_J_rowadr_out efc_nnz_out st_flg_adhesion st_IS_ELLIPTIC a st_is_sparse_and_newton alloc1 st_IS_SPARSE alloc2 fuel tid0
  ok := fun _ => True

theorem contact_init_exact (n : Nat) : (contact_init_builder body_weldid body_dofnum body_dofadr dof_parentid geom_bodyid njmax_in njmax_nnz_in nacon_in dist_in condim_in includemargin_in adhesion_in worldid_in geom_in type_in nefc_out contact_efc_address_out efc_id_out efc_jtdaj_adr_out efc_jtdaj_nrow_out efc_jtdaj_nblock_out efc_J_rownnz_out efc_J_rowadr_out efc_nnz_out st_flg_adhesion st_IS_ELLIPTIC st_is_sparse_and_newton alloc1 st_IS_SPARSE alloc2 fuel tid0 n).exact njmax_in := by
  intro a hreq _ hfit r h1 h2
  exact contact_init_exact_fit body_weldid body_dofnum body_dofadr dof_parentid geom_bodyid njmax_in njmax_nnz_in nacon_in dist_in condim_in includemargin_in adhesion_in worldid_in geom_in type_in nefc_out contact_efc_address_out efc_id_out efc_jtdaj_adr_out efc_jtdaj_nrow_out efc_jtdaj_nblock_out efc_J_rownnz_out efc_J_rowadr_out efc_nnz_out st_flg_adhesion st_IS_ELLIPTIC a st_is_sparse_and_newton alloc1 st_IS_SPARSE alloc2 fuel tid0 (n : Int) hreq hfit r h1 h2
end contact_init

/-! ## 3. The report: `forward._next_time`

`hasBit x b := x & b ≠ 0` (int32).  The overflow word is STICKY (the kernel only ORs into it; `reset_data` clears
it), so "bit set after the step" is relative to the word on entry, exactly as for C25. -/
section next_time
variable {K : Type} [Scalar K] (opt_timestep : (Int → K)) (is_sparse : Bool) (nefc_in : (Int → Int)) (time_in : (Int → K)) (efc_J_rownnz_in : (Int → Int → Int)) (efc_J_rowadr_in : (Int → Int → Int)) (nworld_in : Int) (naconmax_in : Int) (njmax_in : Int) (njmax_nnz_in : Int) (nacon_in : (Int → Int)) (ncollision_in : (Int → Int)) (time_out : (Int → K)) (overflow_out : (Int → Int)) (opt_timestep_shape0 : Int) (st_warn_overflow : Bool) (tid0 : Int)
local notation "KW" => Gen.Forward._next_time_builder___next_time opt_timestep is_sparse nefc_in time_in efc_J_rownnz_in efc_J_rowadr_in nworld_in naconmax_in njmax_in njmax_nnz_in nacon_in ncollision_in time_out overflow_out opt_timestep_shape0 st_warn_overflow tid0
local notation "ovAfter" => Write.lookupI (Gen.Forward._next_time_builder___next_time opt_timestep is_sparse nefc_in time_in efc_J_rownnz_in efc_J_rowadr_in nworld_in naconmax_in njmax_in njmax_nnz_in nacon_in ncollision_in time_out overflow_out opt_timestep_shape0 st_warn_overflow tid0) "overflow_out" [tid0] (overflow_out tid0)

/-- the condition under which `_next_time` ORs NJMAX_NNZ (= 2) into the word -/
def nnzReportCond (is_sparse : Bool) (nefc_in : Int → Int) (efc_J_rownnz_in efc_J_rowadr_in : Int → Int → Int)
    (njmax_in njmax_nnz_in : Int) (wid : Int) : Prop :=
  ¬ nefc_in wid > njmax_in ∧ nefc_in wid > 0 ∧ is_sparse = true
    ∧ efc_J_rowadr_in wid (min (nefc_in wid) njmax_in - 1) + efc_J_rownnz_in wid (min (nefc_in wid) njmax_in - 1)
        > njmax_nnz_in

/-- (3) **next_time_reports**: after the task of world `tid0`, as seen through its own writes,
    bit NEFC(1) is set ⇔ it was set on entry ∨ `nefc_in[w] > njmax_in`;
    bit NJMAX_NNZ(2) ⇔ set on entry ∨ (`¬ nefc > njmax ∧ nefc > 0 ∧ is_sparse ∧ rowadr[last] + rownnz[last] > njmax_nnz`,
        `last = min nefc njmax - 1`);
    bit BROADPHASE(4) ⇔ set on entry ∨ `ncollision_in[0] > naconmax_in`;
    bit NARROWPHASE(8) ⇔ set on entry ∨ `nacon_in[0] > naconmax_in`;
    no other bit changes; and the task sets `time_out[w] = time_in[w] + timestep`. -/
theorem next_time_reports :
    (hasBit ovAfter 1 ↔ hasBit (overflow_out tid0) 1 ∨ nefc_in tid0 > njmax_in)
    ∧ (hasBit ovAfter 2 ↔ hasBit (overflow_out tid0) 2
        ∨ nnzReportCond is_sparse nefc_in efc_J_rownnz_in efc_J_rowadr_in njmax_in njmax_nnz_in tid0)
    ∧ (hasBit ovAfter 4 ↔ hasBit (overflow_out tid0) 4 ∨ ncollision_in 0 > naconmax_in)
    ∧ (hasBit ovAfter 8 ↔ hasBit (overflow_out tid0) 8 ∨ nacon_in 0 > naconmax_in)
    ∧ (∀ b, ¬ hasBit 15 b → (hasBit ovAfter b ↔ hasBit (overflow_out tid0) b))
    ∧ (∃ w ∈ KW, w.arr = "time_out" ∧ w.idx = [tid0] ∧ w.kind = WKind.set
        ∧ w.val = WVal.f (time_in tid0 + opt_timestep (Int.tmod tid0 opt_timestep_shape0))) := by
  have h := Lemmas.C16.next_time_overflow opt_timestep is_sparse nefc_in time_in efc_J_rownnz_in efc_J_rowadr_in nworld_in naconmax_in njmax_in njmax_nnz_in nacon_in ncollision_in time_out overflow_out opt_timestep_shape0 st_warn_overflow tid0
  have d1 : hasBit 1 1 ∧ ¬ hasBit 2 1 ∧ ¬ hasBit 4 1 ∧ ¬ hasBit 8 1 := by decide
  have d2 : ¬ hasBit 1 2 ∧ hasBit 2 2 ∧ ¬ hasBit 4 2 ∧ ¬ hasBit 8 2 := by decide
  have d4 : ¬ hasBit 1 4 ∧ ¬ hasBit 2 4 ∧ hasBit 4 4 ∧ ¬ hasBit 8 4 := by decide
  have d8 : ¬ hasBit 1 8 ∧ ¬ hasBit 2 8 ∧ ¬ hasBit 4 8 ∧ hasBit 8 8 := by decide
  refine ⟨?_, ?_, ?_, ?_, ?_, Lemmas.C16.next_time_time opt_timestep is_sparse nefc_in time_in efc_J_rownnz_in efc_J_rowadr_in nworld_in naconmax_in njmax_in njmax_nnz_in nacon_in ncollision_in time_out overflow_out opt_timestep_shape0 st_warn_overflow tid0⟩
  · rw [h 1]; simp only [d1, and_true, and_false, or_false, false_or]
  · rw [h 2]; simp only [d2, and_true, and_false, or_false, false_or, nnzReportCond]
  · rw [h 4]; simp only [d4, and_true, and_false, or_false, false_or]
  · rw [h 8]; simp only [d8, and_true, and_false, or_false, false_or]
  · intro b hb
    rw [h b]
    have hsub : ∀ c : Int, (c = 1 ∨ c = 2 ∨ c = 4 ∨ c = 8) → hasBit c b → hasBit 15 b := by
      intro c hc hcb
      have h15 : (15 : Int) = Mjw.ior 15 c := by rcases hc with rfl | rfl | rfl | rfl <;> decide
      rw [h15, hasBit_ior]; exact Or.inr hcb
    constructor
    · rintro (h0 | ⟨_, h1⟩ | ⟨_, h1⟩ | ⟨_, h1⟩ | ⟨_, h1⟩)
      · exact h0
      · exact absurd (hsub 1 (by simp) h1) hb
      · exact absurd (hsub 2 (by simp) h1) hb
      · exact absurd (hsub 4 (by simp) h1) hb
      · exact absurd (hsub 8 (by simp) h1) hb
    · exact Or.inl

/-- (3') relative to a clear bit on entry the NEFC report is an equivalence with the model's `idealReport`:
    if `nefc_in[w]` is the final counter value of the arena run `o` then
    bit 1 after ⇔ `reported idealReport njmax_in o`. -/
theorem nefc_bit_iff_reported (o : List Req) (hfin : nefc_in tid0 = final o)
    (hclear : ¬ hasBit (overflow_out tid0) 1) :
    hasBit ovAfter 1 ↔ reported idealReport njmax_in o = true := by
  rw [(next_time_reports opt_timestep is_sparse nefc_in time_in efc_J_rownnz_in efc_J_rowadr_in nworld_in naconmax_in njmax_in njmax_nnz_in nacon_in ncollision_in time_out overflow_out opt_timestep_shape0 st_warn_overflow tid0).1]
  simp only [reported, idealReport, decide_eq_true_eq, hfin]
  constructor
  · rintro (h | h)
    · exact absurd h hclear
    · exact h
  · exact Or.inr
end next_time

/-! ## 4. Contacts and broadphase pairs (k = 1, guards `cid < naconmax_in` / `pairid >= naconmax_in`: exact) -/
section write_contact
variable {K : Type} [Scalar K] (naconmax_in : Int) (id_ : Int) (dist_in : K) (pos_in : V3 K) (frame_in : M33 K) (margin_in : K) (gap_in : K) (condim_in : Int) (friction_in : V5 K) (solref_in : V2 K) (solreffriction_in : V2 K) (solimp_in : V5 K) (adhesion_in : K) (geoms_in : I2) (pairid_in : I2) (worldid_in : Int) (contact_dist_out : (Int → K)) (contact_pos_out : (Int → V3 K)) (contact_frame_out : (Int → M33 K)) (contact_includemargin_out : (Int → K)) (contact_friction_out : (Int → V5 K)) (contact_solref_out : (Int → V2 K)) (contact_solreffriction_out : (Int → V2 K)) (contact_solimp_out : (Int → V5 K)) (contact_dim_out : (Int → Int)) (contact_geom_out : (Int → I2)) (contact_efc_address_out : (Int → Int → Int)) (contact_worldid_out : (Int → Int)) (contact_type_out : (Int → Int)) (contact_geomcollisionid_out : (Int → Int)) (contact_adhesion_out : (Int → K)) (nacon_out : (Int → Int)) (alloc0 : Int) (contact_efc_address_out_shape1 : Int)
local notation "KW" => Prod.snd (Gen.Collision_core.write_contact naconmax_in id_ dist_in pos_in frame_in margin_in gap_in condim_in friction_in solref_in solreffriction_in solimp_in adhesion_in geoms_in pairid_in worldid_in contact_dist_out contact_pos_out contact_frame_out contact_includemargin_out contact_friction_out contact_solref_out contact_solreffriction_out contact_solimp_out contact_dim_out contact_geom_out contact_efc_address_out contact_worldid_out contact_type_out contact_geomcollisionid_out contact_adhesion_out nacon_out alloc0 contact_efc_address_out_shape1)

/-- (4a) **write_contact_guard**: the contact slot `s` is written ⇔ the thread performed the allocating atomic on
    `nacon_out[0]`, `alloc0 < naconmax_in` and `s = alloc0`; and every non-counter write of the thread goes to
    first index `alloc0 < naconmax_in`. -/
theorem write_contact_guard :
    (∀ s, writesSlot KW "contact_dist_out" s ↔ (reached KW "nacon_out" [0] ∧ alloc0 < naconmax_in ∧ s = alloc0))
    ∧ (∀ w ∈ KW, SlotSafe "nacon_out" alloc0 naconmax_in w) :=
  ⟨fun s => Lemmas.C16.write_contact_slots naconmax_in id_ dist_in pos_in frame_in margin_in gap_in condim_in friction_in solref_in solreffriction_in solimp_in adhesion_in geoms_in pairid_in worldid_in contact_dist_out contact_pos_out contact_frame_out contact_includemargin_out contact_friction_out contact_solref_out contact_solreffriction_out contact_solimp_out contact_dim_out contact_geom_out contact_efc_address_out contact_worldid_out contact_type_out contact_geomcollisionid_out contact_adhesion_out nacon_out alloc0 contact_efc_address_out_shape1 s, Lemmas.C16.write_contact_safe naconmax_in id_ dist_in pos_in frame_in margin_in gap_in condim_in friction_in solref_in solreffriction_in solimp_in adhesion_in geoms_in pairid_in worldid_in contact_dist_out contact_pos_out contact_frame_out contact_includemargin_out contact_friction_out contact_solref_out contact_solreffriction_out contact_solimp_out contact_dim_out contact_geom_out contact_efc_address_out contact_worldid_out contact_type_out contact_geomcollisionid_out contact_adhesion_out nacon_out alloc0 contact_efc_address_out_shape1⟩

/-- exact fit: the last slot `naconmax_in - 1` is usable -/
theorem write_contact_exact_fit (hr : reached KW "nacon_out" [0]) (hfit : alloc0 + 1 ≤ naconmax_in) :
    writesSlot KW "contact_dist_out" alloc0 :=
  ((write_contact_guard naconmax_in id_ dist_in pos_in frame_in margin_in gap_in condim_in friction_in solref_in solreffriction_in solimp_in adhesion_in geoms_in pairid_in worldid_in contact_dist_out contact_pos_out contact_frame_out contact_includemargin_out contact_friction_out contact_solref_out contact_solreffriction_out contact_solimp_out contact_dim_out contact_geom_out contact_efc_address_out contact_worldid_out contact_type_out contact_geomcollisionid_out contact_adhesion_out nacon_out alloc0 contact_efc_address_out_shape1).1 alloc0).mpr ⟨hr, by omega, rfl⟩
end write_contact

section add_geom_pair
variable {K : Type} [Scalar K] (geom_type : (Int → Int)) (nxn_pairid : (Int → I2)) (naconmax_in : Int) (geom1 : Int) (geom2 : Int) (worldid : Int) (nxnid : Int) (ncollision_out : (Int → Int)) (collision_pair_out : (Int → I2)) (collision_pairid_out : (Int → I2)) (collision_worldid_out : (Int → Int)) (alloc0 : Int)
local notation "KW" => Gen.Collision_driver._add_geom_pair (K := K) geom_type nxn_pairid naconmax_in geom1 geom2 worldid nxnid ncollision_out collision_pair_out collision_pairid_out collision_worldid_out alloc0

/-- (4b) **add_geom_pair_guard**: the pair slot `s` is written ⇔ `alloc0 < naconmax_in` and `s = alloc0` (the
    allocating atomic on `ncollision_out[0]` is unconditional); every non-counter write goes to index
    `alloc0 < naconmax_in`. -/
theorem add_geom_pair_guard :
    (∀ s, writesSlot KW "collision_pair_out" s ↔ (reached KW "ncollision_out" [0] ∧ alloc0 < naconmax_in ∧ s = alloc0))
    ∧ reached KW "ncollision_out" [0]
    ∧ (∀ w ∈ KW, SlotSafe "ncollision_out" alloc0 naconmax_in w) := by
  refine ⟨fun s => Lemmas.C16.add_geom_pair_slots geom_type nxn_pairid naconmax_in geom1 geom2 worldid nxnid ncollision_out collision_pair_out collision_pairid_out collision_worldid_out alloc0 s, ?_, Lemmas.C16.add_geom_pair_safe geom_type nxn_pairid naconmax_in geom1 geom2 worldid nxnid ncollision_out collision_pair_out collision_pairid_out collision_worldid_out alloc0⟩
  unfold Gen.Collision_driver._add_geom_pair
  by_cases hg : alloc0 < naconmax_in <;> ksimp [hg]

theorem add_geom_pair_exact_fit (hfit : alloc0 + 1 ≤ naconmax_in) : writesSlot KW "collision_pair_out" alloc0 :=
  ((add_geom_pair_guard geom_type nxn_pairid naconmax_in geom1 geom2 worldid nxnid ncollision_out collision_pair_out collision_pairid_out collision_worldid_out alloc0).1 alloc0).mpr ⟨(add_geom_pair_guard geom_type nxn_pairid naconmax_in geom1 geom2 worldid nxnid ncollision_out collision_pair_out collision_pairid_out collision_worldid_out alloc0).2.1, by omega, rfl⟩
end add_geom_pair


/-! ## 5. Row overflow is never silent

`Builder` = one row-builder thread as a function of the value `a` returned by its allocating atomic;
`Builder.exact b njmax` = "whenever its `k` rows fit (`a + k ≤ njmax`) and its side condition `ok` holds, `b` writes
them all" — proved above for ALL eleven builders (`*_exact`, `contact_init_exact`), connect and weld included since
the repair of their guards.
`reqsOf o` = the arena requests of the threads `o` (in the order in which they perform the atomic);
`run guard njmax (reqsOf o)` pairs each thread with the offset the atomic returns to it. -/
section never_silent
variable {K : Type}

theorem finalFrom_reqsFrom_id (bs : List (Builder K)) (i j : Nat) (c : Int) :
    finalFrom (reqsFrom bs i) c = finalFrom (reqsFrom bs j) c := by
  induction bs generalizing i j c with
  | nil => rfl
  | cons b bs ih => simp only [reqsFrom, finalFrom]; exact ih _ _ _

/-- the final counter value (= `nefc`) does not depend on the order of the threads -/
theorem final_reqsOf_perm {o bs : List (Builder K)} (hp : o.Perm bs) : final (reqsOf o) = final (reqsOf bs) := by
  unfold final reqsOf
  have key : ∀ c : Int, finalFrom (reqsFrom o 0) c = finalFrom (reqsFrom bs 0) c := by
    induction hp with
    | nil => intro c; rfl
    | cons x _ ih =>
      intro c
      simp only [reqsFrom, finalFrom]
      rw [finalFrom_reqsFrom_id _ 1 0, finalFrom_reqsFrom_id (i := 1) (j := 0)]
      exact ih _
    | swap x y l =>
      intro c
      simp only [reqsFrom, finalFrom]
      congr 1; omega
    | trans _ _ ih1 ih2 => intro c; exact (ih1 c).trans (ih2 c)
  exact key 0

/-- (5a) **row_overflow_never_silent_exact**: let `bs` be the builder threads of a world that reach their allocating
    atomic, `o` ANY order in which they perform it, all of them exact for capacity `njmax`.  If the arena report
    does not fire (`nefc = Σk ≤ njmax`, exact fit included) then every thread, at the offset the arena hands it,
    writes all its rows (given its side condition `ok`: dense mode or nnz request granted). -/
theorem row_overflow_never_silent_exact (bs o : List (Builder K)) (hp : o.Perm bs) (njmax : Int)
    (hex : ∀ b ∈ bs, b.exact njmax)
    (hno : reported idealReport njmax (reqsOf o) = false) :
    ∀ p ∈ o.zip (run idealGuard njmax (reqsOf o)),
      allocReq (p.1.run p.2.off) "nefc_out" [p.1.wid] p.1.k → p.1.ok p.2.off →
      p.2.granted = true ∧
      ∀ r, p.2.off ≤ r → r < p.2.off + (p.1.k : Int) → writesRow (p.1.run p.2.off) p.1.arr p.1.wid r := by
  intro p hpz hreq hok
  obtain ⟨h1, h2, h3, h4, h5⟩ := zip_runFrom idealGuard njmax o 0 0 p hpz
  have hfin : final (reqsOf o) ≤ njmax := by
    simp only [reported, idealReport, decide_eq_false_iff_not, gt_iff_lt, Int.not_lt] at hno
    exact hno
  have hf : finalFrom (reqsFrom o 0) 0 = final (reqsOf o) := rfl
  have hfit : p.2.off + (p.1.k : Int) ≤ njmax := by rw [h2] at h4; omega
  refine ⟨?_, hex p.1 (hp.subset h1) p.2.off hreq hok hfit⟩
  rw [h5, h2]
  simp only [idealGuard, decide_eq_true_eq]
  exact hfit

/-- (5) **row_overflow_never_silent**, parametric in the capacity guard: for EVERY guard that is equivalent to the
    ideal one (`guard i k C ⇔ i + k ≤ C`) and every list of threads that obey it, "no report ⇒ all rows of all
    threads written", in every order.
    Instances: `Alloc.geGuard` with k = 1 (`geGuard_unit`) — the eight k = 1 builders; `Alloc.idealGuard`
    (`idealGuard_iff`) — connect (k = 3) and weld (k = 6); the row-by-row guard of contact init
    (`contact_init_exact`).  All instances together: `row_overflow_never_silent_all`.
    A guard like `Alloc.geMinusGuard` (`i + k < C`, the pre-repair connect/weld guard) is NOT an instance:
    `geMinusGuard_not_ideal`. -/
theorem row_overflow_never_silent (guard : Guard)
    (bs o : List (Builder K)) (hp : o.Perm bs) (njmax : Int)
    (hguard : ∀ b ∈ bs, ∀ i C, guard i b.k C = true ↔ i + (b.k : Int) ≤ C)
    (hob : ∀ b ∈ bs, b.obeys guard njmax)
    (hno : reported idealReport njmax (reqsOf o) = false) :
    ∀ p ∈ o.zip (run idealGuard njmax (reqsOf o)),
      allocReq (p.1.run p.2.off) "nefc_out" [p.1.wid] p.1.k → p.1.ok p.2.off →
      p.2.granted = true ∧
      ∀ r, p.2.off ≤ r → r < p.2.off + (p.1.k : Int) → writesRow (p.1.run p.2.off) p.1.arr p.1.wid r :=
  row_overflow_never_silent_exact bs o hp njmax
    (fun b hb => Builder.exact_of_obeys b guard njmax (hguard b hb) (hob b hb)) hno

/-- the rows handed out by the arena to different threads never overlap and, when granted, lie below `njmax` -/
theorem row_blocks_disjoint (o : List (Builder K)) (njmax : Int) :
    (run idealGuard njmax (reqsOf o)).Pairwise (fun g h => g.hi ≤ h.lo)
    ∧ ∀ g ∈ run idealGuard njmax (reqsOf o), g.granted = true → 0 ≤ g.lo ∧ g.hi ≤ njmax :=
  ⟨(alloc_sound _ _ (List.Perm.refl _) njmax).1, (alloc_sound _ _ (List.Perm.refl _) njmax).2.1⟩
end never_silent

/-! ### all builders at once -/
section all_builders

/-- `IsRowBuilder njmax b`: `b` is a thread of one of the eleven row-builder kernels of `constraint.py` (any inputs),
    launched with row capacity `njmax` -/
inductive IsRowBuilder {K : Type} [Scalar K] (njmax : Int) : Builder K → Prop
  | equality_connect (nv : Int) (nsite : Int) (opt_timestep : (Int → K)) (opt_disableflags : Int) (body_parentid : (Int → Int)) (body_rootid : (Int → Int)) (body_weldid : (Int → Int)) (body_dofnum : (Int → Int)) (body_dofadr : (Int → Int)) (body_invweight0 : (Int → Int → V2 K)) (jnt_type : (Int → Int)) (jnt_dofadr : (Int → Int)) (dof_bodyid : (Int → Int)) (dof_jntid : (Int → Int)) (dof_parentid : (Int → Int)) (site_bodyid : (Int → Int)) (eq_obj1id : (Int → Int)) (eq_obj2id : (Int → Int)) (eq_objtype : (Int → Int)) (eq_solref : (Int → Int → V2 K)) (eq_solimp : (Int → Int → V5 K)) (eq_data : (Int → Int → V11 K)) (body_isdofancestor : (Int → Int → Int)) (eq_connect_adr : (Int → Int)) (qvel_in : (Int → Int → K)) (eq_active_in : (Int → Int → Bool)) (xpos_in : (Int → Int → V3 K)) (xmat_in : (Int → Int → M33 K)) (site_xpos_in : (Int → Int → V3 K)) (subtree_com_in : (Int → Int → V3 K)) (cdof_in : (Int → Int → V6 K)) (cvel_in : (Int → Int → V6 K)) (cdof_dot_in : (Int → Int → V6 K)) (subtree_linvel_in : (Int → Int → V3 K)) (njmax_nnz_in : Int) (ne_out : (Int → Int)) (nefc_out : (Int → Int)) (efc_type_out : (Int → Int → Int)) (efc_id_out : (Int → Int → Int)) (efc_jtdaj_adr_out : (Int → Int → Int)) (efc_jtdaj_nrow_out : (Int → Int → Int)) (efc_jtdaj_nblock_out : (Int → Int)) (efc_J_rownnz_out : (Int → Int → Int)) (efc_J_rowadr_out : (Int → Int → Int)) (efc_J_colind_out : (Int → Int → Int → Int)) (efc_J_out : (Int → Int → Int → K)) (efc_pos_out : (Int → Int → K)) (efc_margin_out : (Int → Int → K)) (efc_D_out : (Int → Int → K)) (efc_vel_out : (Int → Int → K)) (efc_aref_out : (Int → Int → K)) (efc_frictionloss_out : (Int → Int → K)) (efc_nnz_out : (Int → Int)) (st_is_sparse_and_newton : Bool) (alloc1 : Int) (eq_data_shape0 : Int) (body_invweight0_shape0 : Int) (st_is_sparse : Bool) (alloc2 : Int) (eq_solref_shape0 : Int) (eq_solimp_shape0 : Int) (opt_timestep_shape0 : Int) (fuel : Nat) (tid0 : Int) (tid1 : Int) :
      IsRowBuilder njmax (equality_connect_builder nv nsite opt_timestep opt_disableflags body_parentid body_rootid body_weldid body_dofnum body_dofadr body_invweight0 jnt_type jnt_dofadr dof_bodyid dof_jntid dof_parentid site_bodyid eq_obj1id eq_obj2id eq_objtype eq_solref eq_solimp eq_data body_isdofancestor eq_connect_adr qvel_in eq_active_in xpos_in xmat_in site_xpos_in subtree_com_in cdof_in cvel_in cdof_dot_in subtree_linvel_in njmax njmax_nnz_in ne_out nefc_out efc_type_out efc_id_out efc_jtdaj_adr_out efc_jtdaj_nrow_out efc_jtdaj_nblock_out efc_J_rownnz_out efc_J_rowadr_out efc_J_colind_out efc_J_out efc_pos_out efc_margin_out efc_D_out efc_vel_out efc_aref_out efc_frictionloss_out efc_nnz_out st_is_sparse_and_newton alloc1 eq_data_shape0 body_invweight0_shape0 st_is_sparse alloc2 eq_solref_shape0 eq_solimp_shape0 opt_timestep_shape0 fuel tid0 tid1)
  | equality_weld (nv : Int) (nsite : Int) (opt_timestep : (Int → K)) (opt_disableflags : Int) (body_parentid : (Int → Int)) (body_rootid : (Int → Int)) (body_weldid : (Int → Int)) (body_dofnum : (Int → Int)) (body_dofadr : (Int → Int)) (body_invweight0 : (Int → Int → V2 K)) (jnt_type : (Int → Int)) (jnt_dofadr : (Int → Int)) (dof_bodyid : (Int → Int)) (dof_jntid : (Int → Int)) (dof_parentid : (Int → Int)) (site_bodyid : (Int → Int)) (site_quat : (Int → Int → Q K)) (eq_obj1id : (Int → Int)) (eq_obj2id : (Int → Int)) (eq_objtype : (Int → Int)) (eq_solref : (Int → Int → V2 K)) (eq_solimp : (Int → Int → V5 K)) (eq_data : (Int → Int → V11 K)) (body_isdofancestor : (Int → Int → Int)) (eq_wld_adr : (Int → Int)) (qvel_in : (Int → Int → K)) (eq_active_in : (Int → Int → Bool)) (xpos_in : (Int → Int → V3 K)) (xquat_in : (Int → Int → Q K)) (xmat_in : (Int → Int → M33 K)) (site_xpos_in : (Int → Int → V3 K)) (subtree_com_in : (Int → Int → V3 K)) (cdof_in : (Int → Int → V6 K)) (cvel_in : (Int → Int → V6 K)) (cdof_dot_in : (Int → Int → V6 K)) (subtree_linvel_in : (Int → Int → V3 K)) (njmax_nnz_in : Int) (ne_out : (Int → Int)) (nefc_out : (Int → Int)) (efc_type_out : (Int → Int → Int)) (efc_id_out : (Int → Int → Int)) (efc_jtdaj_adr_out : (Int → Int → Int)) (efc_jtdaj_nrow_out : (Int → Int → Int)) (efc_jtdaj_nblock_out : (Int → Int)) (efc_J_rownnz_out : (Int → Int → Int)) (efc_J_rowadr_out : (Int → Int → Int)) (efc_J_colind_out : (Int → Int → Int → Int)) (efc_J_out : (Int → Int → Int → K)) (efc_pos_out : (Int → Int → K)) (efc_margin_out : (Int → Int → K)) (efc_D_out : (Int → Int → K)) (efc_vel_out : (Int → Int → K)) (efc_aref_out : (Int → Int → K)) (efc_frictionloss_out : (Int → Int → K)) (efc_nnz_out : (Int → Int)) (st_is_sparse_and_newton : Bool) (alloc1 : Int) (eq_data_shape0 : Int) (site_quat_shape0 : Int) (body_invweight0_shape0 : Int) (st_is_sparse : Bool) (alloc2 : Int) (eq_solref_shape0 : Int) (eq_solimp_shape0 : Int) (opt_timestep_shape0 : Int) (fuel : Nat) (tid0 : Int) (tid1 : Int) :
      IsRowBuilder njmax (equality_weld_builder nv nsite opt_timestep opt_disableflags body_parentid body_rootid body_weldid body_dofnum body_dofadr body_invweight0 jnt_type jnt_dofadr dof_bodyid dof_jntid dof_parentid site_bodyid site_quat eq_obj1id eq_obj2id eq_objtype eq_solref eq_solimp eq_data body_isdofancestor eq_wld_adr qvel_in eq_active_in xpos_in xquat_in xmat_in site_xpos_in subtree_com_in cdof_in cvel_in cdof_dot_in subtree_linvel_in njmax njmax_nnz_in ne_out nefc_out efc_type_out efc_id_out efc_jtdaj_adr_out efc_jtdaj_nrow_out efc_jtdaj_nblock_out efc_J_rownnz_out efc_J_rowadr_out efc_J_colind_out efc_J_out efc_pos_out efc_margin_out efc_D_out efc_vel_out efc_aref_out efc_frictionloss_out efc_nnz_out st_is_sparse_and_newton alloc1 eq_data_shape0 site_quat_shape0 body_invweight0_shape0 st_is_sparse alloc2 eq_solref_shape0 eq_solimp_shape0 opt_timestep_shape0 fuel tid0 tid1)
  | equality_joint (nv : Int) (opt_timestep : (Int → K)) (opt_disableflags : Int) (qpos0 : (Int → Int → K)) (jnt_qposadr : (Int → Int)) (jnt_dofadr : (Int → Int)) (dof_invweight0 : (Int → Int → K)) (eq_obj1id : (Int → Int)) (eq_obj2id : (Int → Int)) (eq_solref : (Int → Int → V2 K)) (eq_solimp : (Int → Int → V5 K)) (eq_data : (Int → Int → V11 K)) (eq_jnt_adr : (Int → Int)) (qpos_in : (Int → Int → K)) (qvel_in : (Int → Int → K)) (eq_active_in : (Int → Int → Bool)) (njmax_nnz_in : Int) (ne_out : (Int → Int)) (nefc_out : (Int → Int)) (efc_type_out : (Int → Int → Int)) (efc_id_out : (Int → Int → Int)) (efc_jtdaj_adr_out : (Int → Int → Int)) (efc_jtdaj_nrow_out : (Int → Int → Int)) (efc_jtdaj_nblock_out : (Int → Int)) (efc_J_rownnz_out : (Int → Int → Int)) (efc_J_rowadr_out : (Int → Int → Int)) (efc_J_colind_out : (Int → Int → Int → Int)) (efc_J_out : (Int → Int → Int → K)) (efc_pos_out : (Int → Int → K)) (efc_margin_out : (Int → Int → K)) (efc_D_out : (Int → Int → K)) (efc_vel_out : (Int → Int → K)) (efc_aref_out : (Int → Int → K)) (efc_frictionloss_out : (Int → Int → K)) (efc_nnz_out : (Int → Int)) (st_is_sparse_and_newton : Bool) (alloc1 : Int) (eq_data_shape0 : Int) (qpos0_shape0 : Int) (dof_invweight0_shape0 : Int) (st_is_sparse : Bool) (alloc2 : Int) (opt_timestep_shape0 : Int) (eq_solref_shape0 : Int) (eq_solimp_shape0 : Int) (cl_rowadr : Int) (tid0 : Int) (tid1 : Int) :
      IsRowBuilder njmax (equality_joint_builder nv opt_timestep opt_disableflags qpos0 jnt_qposadr jnt_dofadr dof_invweight0 eq_obj1id eq_obj2id eq_solref eq_solimp eq_data eq_jnt_adr qpos_in qvel_in eq_active_in njmax njmax_nnz_in ne_out nefc_out efc_type_out efc_id_out efc_jtdaj_adr_out efc_jtdaj_nrow_out efc_jtdaj_nblock_out efc_J_rownnz_out efc_J_rowadr_out efc_J_colind_out efc_J_out efc_pos_out efc_margin_out efc_D_out efc_vel_out efc_aref_out efc_frictionloss_out efc_nnz_out st_is_sparse_and_newton alloc1 eq_data_shape0 qpos0_shape0 dof_invweight0_shape0 st_is_sparse alloc2 opt_timestep_shape0 eq_solref_shape0 eq_solimp_shape0 cl_rowadr tid0 tid1)
  | equality_tendon (nv : Int) (opt_timestep : (Int → K)) (opt_disableflags : Int) (eq_obj1id : (Int → Int)) (eq_obj2id : (Int → Int)) (eq_solref : (Int → Int → V2 K)) (eq_solimp : (Int → Int → V5 K)) (eq_data : (Int → Int → V11 K)) (ten_J_rownnz : (Int → Int)) (ten_J_rowadr : (Int → Int)) (ten_J_colind : (Int → Int)) (tendon_length0 : (Int → Int → K)) (tendon_invweight0 : (Int → Int → K)) (eq_ten_adr : (Int → Int)) (qvel_in : (Int → Int → K)) (eq_active_in : (Int → Int → Bool)) (ten_J_in : (Int → Int → K)) (ten_length_in : (Int → Int → K)) (njmax_nnz_in : Int) (ne_out : (Int → Int)) (nefc_out : (Int → Int)) (efc_type_out : (Int → Int → Int)) (efc_id_out : (Int → Int → Int)) (efc_jtdaj_adr_out : (Int → Int → Int)) (efc_jtdaj_nrow_out : (Int → Int → Int)) (efc_jtdaj_nblock_out : (Int → Int)) (efc_J_rownnz_out : (Int → Int → Int)) (efc_J_rowadr_out : (Int → Int → Int)) (efc_J_colind_out : (Int → Int → Int → Int)) (efc_J_out : (Int → Int → Int → K)) (efc_pos_out : (Int → Int → K)) (efc_margin_out : (Int → Int → K)) (efc_D_out : (Int → Int → K)) (efc_vel_out : (Int → Int → K)) (efc_aref_out : (Int → Int → K)) (efc_frictionloss_out : (Int → Int → K)) (efc_nnz_out : (Int → Int)) (st_is_sparse_and_newton : Bool) (alloc1 : Int) (eq_data_shape0 : Int) (eq_solref_shape0 : Int) (eq_solimp_shape0 : Int) (tendon_length0_shape0 : Int) (tendon_invweight0_shape0 : Int) (st_is_sparse : Bool) (alloc2 : Int) (opt_timestep_shape0 : Int) (cl_rowadr : Int) (fuel : Nat) (tid0 : Int) (tid1 : Int) :
      IsRowBuilder njmax (equality_tendon_builder nv opt_timestep opt_disableflags eq_obj1id eq_obj2id eq_solref eq_solimp eq_data ten_J_rownnz ten_J_rowadr ten_J_colind tendon_length0 tendon_invweight0 eq_ten_adr qvel_in eq_active_in ten_J_in ten_length_in njmax njmax_nnz_in ne_out nefc_out efc_type_out efc_id_out efc_jtdaj_adr_out efc_jtdaj_nrow_out efc_jtdaj_nblock_out efc_J_rownnz_out efc_J_rowadr_out efc_J_colind_out efc_J_out efc_pos_out efc_margin_out efc_D_out efc_vel_out efc_aref_out efc_frictionloss_out efc_nnz_out st_is_sparse_and_newton alloc1 eq_data_shape0 eq_solref_shape0 eq_solimp_shape0 tendon_length0_shape0 tendon_invweight0_shape0 st_is_sparse alloc2 opt_timestep_shape0 cl_rowadr fuel tid0 tid1)
  | equality_flex (nv : Int) (opt_timestep : (Int → K)) (opt_disableflags : Int) (flex_interp : (Int → Int)) (flex_edgeadr : (Int → Int)) (flex_edgenum : (Int → Int)) (flexedge_length0 : (Int → K)) (flexedge_invweight0 : (Int → K)) (flexedge_J_rownnz : (Int → Int)) (flexedge_J_rowadr : (Int → Int)) (flexedge_J_colind : (Int → Int)) (eq_obj1id : (Int → Int)) (eq_solref : (Int → Int → V2 K)) (eq_solimp : (Int → Int → V5 K)) (eq_flex_adr : (Int → Int)) (qvel_in : (Int → Int → K)) (eq_active_in : (Int → Int → Bool)) (flexedge_J_in : (Int → Int → K)) (flexedge_length_in : (Int → Int → K)) (njmax_nnz_in : Int) (ne_out : (Int → Int)) (nefc_out : (Int → Int)) (efc_type_out : (Int → Int → Int)) (efc_id_out : (Int → Int → Int)) (efc_jtdaj_adr_out : (Int → Int → Int)) (efc_jtdaj_nrow_out : (Int → Int → Int)) (efc_jtdaj_nblock_out : (Int → Int)) (efc_J_rownnz_out : (Int → Int → Int)) (efc_J_rowadr_out : (Int → Int → Int)) (efc_J_colind_out : (Int → Int → Int → Int)) (efc_J_out : (Int → Int → Int → K)) (efc_pos_out : (Int → Int → K)) (efc_margin_out : (Int → Int → K)) (efc_D_out : (Int → Int → K)) (efc_vel_out : (Int → Int → K)) (efc_aref_out : (Int → Int → K)) (efc_frictionloss_out : (Int → Int → K)) (efc_nnz_out : (Int → Int)) (st_is_sparse_and_newton : Bool) (alloc1 : Int) (eq_solref_shape0 : Int) (eq_solimp_shape0 : Int) (st_is_sparse : Bool) (alloc2 : Int) (opt_timestep_shape0 : Int) (tid0 : Int) (tid1 : Int) (tid2 : Int) :
      IsRowBuilder njmax (equality_flex_builder nv opt_timestep opt_disableflags flex_interp flex_edgeadr flex_edgenum flexedge_length0 flexedge_invweight0 flexedge_J_rownnz flexedge_J_rowadr flexedge_J_colind eq_obj1id eq_solref eq_solimp eq_flex_adr qvel_in eq_active_in flexedge_J_in flexedge_length_in njmax njmax_nnz_in ne_out nefc_out efc_type_out efc_id_out efc_jtdaj_adr_out efc_jtdaj_nrow_out efc_jtdaj_nblock_out efc_J_rownnz_out efc_J_rowadr_out efc_J_colind_out efc_J_out efc_pos_out efc_margin_out efc_D_out efc_vel_out efc_aref_out efc_frictionloss_out efc_nnz_out st_is_sparse_and_newton alloc1 eq_solref_shape0 eq_solimp_shape0 st_is_sparse alloc2 opt_timestep_shape0 tid0 tid1 tid2)
  | friction_dof (nv : Int) (opt_timestep : (Int → K)) (opt_disableflags : Int) (dof_solref : (Int → Int → V2 K)) (dof_solimp : (Int → Int → V5 K)) (dof_frictionloss : (Int → Int → K)) (dof_invweight0 : (Int → Int → K)) (qvel_in : (Int → Int → K)) (njmax_nnz_in : Int) (nf_out : (Int → Int)) (nefc_out : (Int → Int)) (efc_type_out : (Int → Int → Int)) (efc_id_out : (Int → Int → Int)) (efc_jtdaj_adr_out : (Int → Int → Int)) (efc_jtdaj_nrow_out : (Int → Int → Int)) (efc_jtdaj_nblock_out : (Int → Int)) (efc_J_rownnz_out : (Int → Int → Int)) (efc_J_rowadr_out : (Int → Int → Int)) (efc_J_colind_out : (Int → Int → Int → Int)) (efc_J_out : (Int → Int → Int → K)) (efc_pos_out : (Int → Int → K)) (efc_margin_out : (Int → Int → K)) (efc_D_out : (Int → Int → K)) (efc_vel_out : (Int → Int → K)) (efc_aref_out : (Int → Int → K)) (efc_frictionloss_out : (Int → Int → K)) (efc_nnz_out : (Int → Int)) (dof_frictionloss_shape0 : Int) (st_is_sparse_and_newton : Bool) (alloc1 : Int) (st_is_sparse : Bool) (alloc2 : Int) (dof_invweight0_shape0 : Int) (dof_solref_shape0 : Int) (dof_solimp_shape0 : Int) (opt_timestep_shape0 : Int) (tid0 : Int) (tid1 : Int) :
      IsRowBuilder njmax (friction_dof_builder nv opt_timestep opt_disableflags dof_solref dof_solimp dof_frictionloss dof_invweight0 qvel_in njmax njmax_nnz_in nf_out nefc_out efc_type_out efc_id_out efc_jtdaj_adr_out efc_jtdaj_nrow_out efc_jtdaj_nblock_out efc_J_rownnz_out efc_J_rowadr_out efc_J_colind_out efc_J_out efc_pos_out efc_margin_out efc_D_out efc_vel_out efc_aref_out efc_frictionloss_out efc_nnz_out dof_frictionloss_shape0 st_is_sparse_and_newton alloc1 st_is_sparse alloc2 dof_invweight0_shape0 dof_solref_shape0 dof_solimp_shape0 opt_timestep_shape0 tid0 tid1)
  | friction_tendon (nv : Int) (opt_timestep : (Int → K)) (opt_disableflags : Int) (ten_J_rownnz : (Int → Int)) (ten_J_rowadr : (Int → Int)) (ten_J_colind : (Int → Int)) (tendon_solref_fri : (Int → Int → V2 K)) (tendon_solimp_fri : (Int → Int → V5 K)) (tendon_frictionloss : (Int → Int → K)) (tendon_invweight0 : (Int → Int → K)) (qvel_in : (Int → Int → K)) (ten_J_in : (Int → Int → K)) (njmax_nnz_in : Int) (nf_out : (Int → Int)) (nefc_out : (Int → Int)) (efc_type_out : (Int → Int → Int)) (efc_id_out : (Int → Int → Int)) (efc_jtdaj_adr_out : (Int → Int → Int)) (efc_jtdaj_nrow_out : (Int → Int → Int)) (efc_jtdaj_nblock_out : (Int → Int)) (efc_J_rownnz_out : (Int → Int → Int)) (efc_J_rowadr_out : (Int → Int → Int)) (efc_J_colind_out : (Int → Int → Int → Int)) (efc_J_out : (Int → Int → Int → K)) (efc_pos_out : (Int → Int → K)) (efc_margin_out : (Int → Int → K)) (efc_D_out : (Int → Int → K)) (efc_vel_out : (Int → Int → K)) (efc_aref_out : (Int → Int → K)) (efc_frictionloss_out : (Int → Int → K)) (efc_nnz_out : (Int → Int)) (tendon_frictionloss_shape0 : Int) (st_is_sparse_and_newton : Bool) (alloc1 : Int) (st_is_sparse : Bool) (alloc2 : Int) (tendon_invweight0_shape0 : Int) (tendon_solref_fri_shape0 : Int) (tendon_solimp_fri_shape0 : Int) (opt_timestep_shape0 : Int) (tid0 : Int) (tid1 : Int) :
      IsRowBuilder njmax (friction_tendon_builder nv opt_timestep opt_disableflags ten_J_rownnz ten_J_rowadr ten_J_colind tendon_solref_fri tendon_solimp_fri tendon_frictionloss tendon_invweight0 qvel_in ten_J_in njmax njmax_nnz_in nf_out nefc_out efc_type_out efc_id_out efc_jtdaj_adr_out efc_jtdaj_nrow_out efc_jtdaj_nblock_out efc_J_rownnz_out efc_J_rowadr_out efc_J_colind_out efc_J_out efc_pos_out efc_margin_out efc_D_out efc_vel_out efc_aref_out efc_frictionloss_out efc_nnz_out tendon_frictionloss_shape0 st_is_sparse_and_newton alloc1 st_is_sparse alloc2 tendon_invweight0_shape0 tendon_solref_fri_shape0 tendon_solimp_fri_shape0 opt_timestep_shape0 tid0 tid1)
  | limit_slide_hinge (nv : Int) (opt_timestep : (Int → K)) (opt_disableflags : Int) (jnt_qposadr : (Int → Int)) (jnt_dofadr : (Int → Int)) (jnt_solref : (Int → Int → V2 K)) (jnt_solimp : (Int → Int → V5 K)) (jnt_range : (Int → Int → V2 K)) (jnt_margin : (Int → Int → K)) (dof_invweight0 : (Int → Int → K)) (jnt_limited_slide_hinge_adr : (Int → Int)) (qpos_in : (Int → Int → K)) (qvel_in : (Int → Int → K)) (njmax_nnz_in : Int) (nl_out : (Int → Int)) (nefc_out : (Int → Int)) (efc_type_out : (Int → Int → Int)) (efc_id_out : (Int → Int → Int)) (efc_jtdaj_adr_out : (Int → Int → Int)) (efc_jtdaj_nrow_out : (Int → Int → Int)) (efc_jtdaj_nblock_out : (Int → Int)) (efc_J_rownnz_out : (Int → Int → Int)) (efc_J_rowadr_out : (Int → Int → Int)) (efc_J_colind_out : (Int → Int → Int → Int)) (efc_J_out : (Int → Int → Int → K)) (efc_pos_out : (Int → Int → K)) (efc_margin_out : (Int → Int → K)) (efc_D_out : (Int → Int → K)) (efc_vel_out : (Int → Int → K)) (efc_aref_out : (Int → Int → K)) (efc_frictionloss_out : (Int → Int → K)) (efc_nnz_out : (Int → Int)) (jnt_range_shape0 : Int) (jnt_margin_shape0 : Int) (st_is_sparse_and_newton : Bool) (alloc1 : Int) (st_is_sparse : Bool) (alloc2 : Int) (dof_invweight0_shape0 : Int) (jnt_solref_shape0 : Int) (jnt_solimp_shape0 : Int) (opt_timestep_shape0 : Int) (tid0 : Int) (tid1 : Int) :
      IsRowBuilder njmax (limit_slide_hinge_builder nv opt_timestep opt_disableflags jnt_qposadr jnt_dofadr jnt_solref jnt_solimp jnt_range jnt_margin dof_invweight0 jnt_limited_slide_hinge_adr qpos_in qvel_in njmax njmax_nnz_in nl_out nefc_out efc_type_out efc_id_out efc_jtdaj_adr_out efc_jtdaj_nrow_out efc_jtdaj_nblock_out efc_J_rownnz_out efc_J_rowadr_out efc_J_colind_out efc_J_out efc_pos_out efc_margin_out efc_D_out efc_vel_out efc_aref_out efc_frictionloss_out efc_nnz_out jnt_range_shape0 jnt_margin_shape0 st_is_sparse_and_newton alloc1 st_is_sparse alloc2 dof_invweight0_shape0 jnt_solref_shape0 jnt_solimp_shape0 opt_timestep_shape0 tid0 tid1)
  | limit_ball (nv : Int) (opt_timestep : (Int → K)) (opt_disableflags : Int) (jnt_qposadr : (Int → Int)) (jnt_dofadr : (Int → Int)) (jnt_solref : (Int → Int → V2 K)) (jnt_solimp : (Int → Int → V5 K)) (jnt_range : (Int → Int → V2 K)) (jnt_margin : (Int → Int → K)) (dof_invweight0 : (Int → Int → K)) (jnt_limited_ball_adr : (Int → Int)) (qpos_in : (Int → Int → K)) (qvel_in : (Int → Int → K)) (njmax_nnz_in : Int) (nl_out : (Int → Int)) (nefc_out : (Int → Int)) (efc_type_out : (Int → Int → Int)) (efc_id_out : (Int → Int → Int)) (efc_jtdaj_adr_out : (Int → Int → Int)) (efc_jtdaj_nrow_out : (Int → Int → Int)) (efc_jtdaj_nblock_out : (Int → Int)) (efc_J_rownnz_out : (Int → Int → Int)) (efc_J_rowadr_out : (Int → Int → Int)) (efc_J_colind_out : (Int → Int → Int → Int)) (efc_J_out : (Int → Int → Int → K)) (efc_pos_out : (Int → Int → K)) (efc_margin_out : (Int → Int → K)) (efc_D_out : (Int → Int → K)) (efc_vel_out : (Int → Int → K)) (efc_aref_out : (Int → Int → K)) (efc_frictionloss_out : (Int → Int → K)) (efc_nnz_out : (Int → Int)) (jnt_range_shape0 : Int) (jnt_margin_shape0 : Int) (st_is_sparse_and_newton : Bool) (alloc1 : Int) (st_is_sparse : Bool) (alloc2 : Int) (dof_invweight0_shape0 : Int) (jnt_solref_shape0 : Int) (jnt_solimp_shape0 : Int) (opt_timestep_shape0 : Int) (tid0 : Int) (tid1 : Int) :
      IsRowBuilder njmax (limit_ball_builder nv opt_timestep opt_disableflags jnt_qposadr jnt_dofadr jnt_solref jnt_solimp jnt_range jnt_margin dof_invweight0 jnt_limited_ball_adr qpos_in qvel_in njmax njmax_nnz_in nl_out nefc_out efc_type_out efc_id_out efc_jtdaj_adr_out efc_jtdaj_nrow_out efc_jtdaj_nblock_out efc_J_rownnz_out efc_J_rowadr_out efc_J_colind_out efc_J_out efc_pos_out efc_margin_out efc_D_out efc_vel_out efc_aref_out efc_frictionloss_out efc_nnz_out jnt_range_shape0 jnt_margin_shape0 st_is_sparse_and_newton alloc1 st_is_sparse alloc2 dof_invweight0_shape0 jnt_solref_shape0 jnt_solimp_shape0 opt_timestep_shape0 tid0 tid1)
  | limit_tendon (nv : Int) (opt_timestep : (Int → K)) (opt_disableflags : Int) (ten_J_rownnz : (Int → Int)) (ten_J_rowadr : (Int → Int)) (ten_J_colind : (Int → Int)) (tendon_solref_lim : (Int → Int → V2 K)) (tendon_solimp_lim : (Int → Int → V5 K)) (tendon_range : (Int → Int → V2 K)) (tendon_margin : (Int → Int → K)) (tendon_invweight0 : (Int → Int → K)) (tendon_limited_adr : (Int → Int)) (qvel_in : (Int → Int → K)) (ten_J_in : (Int → Int → K)) (ten_length_in : (Int → Int → K)) (njmax_nnz_in : Int) (nl_out : (Int → Int)) (nefc_out : (Int → Int)) (efc_type_out : (Int → Int → Int)) (efc_id_out : (Int → Int → Int)) (efc_jtdaj_adr_out : (Int → Int → Int)) (efc_jtdaj_nrow_out : (Int → Int → Int)) (efc_jtdaj_nblock_out : (Int → Int)) (efc_J_rownnz_out : (Int → Int → Int)) (efc_J_rowadr_out : (Int → Int → Int)) (efc_J_colind_out : (Int → Int → Int → Int)) (efc_J_out : (Int → Int → Int → K)) (efc_pos_out : (Int → Int → K)) (efc_margin_out : (Int → Int → K)) (efc_D_out : (Int → Int → K)) (efc_vel_out : (Int → Int → K)) (efc_aref_out : (Int → Int → K)) (efc_frictionloss_out : (Int → Int → K)) (efc_nnz_out : (Int → Int)) (tendon_range_shape0 : Int) (tendon_margin_shape0 : Int) (st_is_sparse_and_newton : Bool) (alloc1 : Int) (st_is_sparse : Bool) (alloc2 : Int) (tendon_invweight0_shape0 : Int) (tendon_solref_lim_shape0 : Int) (tendon_solimp_lim_shape0 : Int) (opt_timestep_shape0 : Int) (tid0 : Int) (tid1 : Int) :
      IsRowBuilder njmax (limit_tendon_builder nv opt_timestep opt_disableflags ten_J_rownnz ten_J_rowadr ten_J_colind tendon_solref_lim tendon_solimp_lim tendon_range tendon_margin tendon_invweight0 tendon_limited_adr qvel_in ten_J_in ten_length_in njmax njmax_nnz_in nl_out nefc_out efc_type_out efc_id_out efc_jtdaj_adr_out efc_jtdaj_nrow_out efc_jtdaj_nblock_out efc_J_rownnz_out efc_J_rowadr_out efc_J_colind_out efc_J_out efc_pos_out efc_margin_out efc_D_out efc_vel_out efc_aref_out efc_frictionloss_out efc_nnz_out tendon_range_shape0 tendon_margin_shape0 st_is_sparse_and_newton alloc1 st_is_sparse alloc2 tendon_invweight0_shape0 tendon_solref_lim_shape0 tendon_solimp_lim_shape0 opt_timestep_shape0 tid0 tid1)
  | contact_init (body_weldid : (Int → Int)) (body_dofnum : (Int → Int)) (body_dofadr : (Int → Int)) (dof_parentid : (Int → Int)) (geom_bodyid : (Int → Int)) (njmax_nnz_in : Int) (nacon_in : (Int → Int)) (dist_in : (Int → K)) (condim_in : (Int → Int)) (includemargin_in : (Int → K)) (adhesion_in : (Int → K)) (worldid_in : (Int → Int)) (geom_in : (Int → I2)) (type_in : (Int → Int)) (nefc_out : (Int → Int)) (contact_efc_address_out : (Int → Int → Int)) (efc_id_out : (Int → Int → Int)) (efc_jtdaj_adr_out : (Int → Int → Int)) (efc_jtdaj_nrow_out : (Int → Int → Int)) (efc_jtdaj_nblock_out : (Int → Int)) (efc_J_rownnz_out : (Int → Int → Int)) (efc_J_rowadr_out : (Int → Int → Int)) (efc_nnz_out : (Int → Int)) (st_flg_adhesion : Bool) (st_IS_ELLIPTIC : Bool) (st_is_sparse_and_newton : Bool) (alloc1 : Int) (st_IS_SPARSE : Bool) (alloc2 : Int) (fuel : Nat) (tid0 : Int) (n : Nat) :
      IsRowBuilder njmax (contact_init_builder body_weldid body_dofnum body_dofadr dof_parentid geom_bodyid njmax njmax_nnz_in nacon_in dist_in condim_in includemargin_in adhesion_in worldid_in geom_in type_in nefc_out contact_efc_address_out efc_id_out efc_jtdaj_adr_out efc_jtdaj_nrow_out efc_jtdaj_nblock_out efc_J_rownnz_out efc_J_rowadr_out efc_nnz_out st_flg_adhesion st_IS_ELLIPTIC st_is_sparse_and_newton alloc1 st_IS_SPARSE alloc2 fuel tid0 n)

/-- every thread of every row-builder kernel is exact (connect and weld included, since the repair) -/
theorem IsRowBuilder.exact {K : Type} [Scalar K] {njmax : Int} {b : Builder K} (h : IsRowBuilder njmax b) :
    b.exact njmax := by
  cases h with
  | equality_connect nv nsite opt_timestep opt_disableflags body_parentid body_rootid body_weldid body_dofnum body_dofadr body_invweight0 jnt_type jnt_dofadr dof_bodyid dof_jntid dof_parentid site_bodyid eq_obj1id eq_obj2id eq_objtype eq_solref eq_solimp eq_data body_isdofancestor eq_connect_adr qvel_in eq_active_in xpos_in xmat_in site_xpos_in subtree_com_in cdof_in cvel_in cdof_dot_in subtree_linvel_in njmax_nnz_in ne_out nefc_out efc_type_out efc_id_out efc_jtdaj_adr_out efc_jtdaj_nrow_out efc_jtdaj_nblock_out efc_J_rownnz_out efc_J_rowadr_out efc_J_colind_out efc_J_out efc_pos_out efc_margin_out efc_D_out efc_vel_out efc_aref_out efc_frictionloss_out efc_nnz_out st_is_sparse_and_newton alloc1 eq_data_shape0 body_invweight0_shape0 st_is_sparse alloc2 eq_solref_shape0 eq_solimp_shape0 opt_timestep_shape0 fuel tid0 tid1 => exact equality_connect_exact nv nsite opt_timestep opt_disableflags body_parentid body_rootid body_weldid body_dofnum body_dofadr body_invweight0 jnt_type jnt_dofadr dof_bodyid dof_jntid dof_parentid site_bodyid eq_obj1id eq_obj2id eq_objtype eq_solref eq_solimp eq_data body_isdofancestor eq_connect_adr qvel_in eq_active_in xpos_in xmat_in site_xpos_in subtree_com_in cdof_in cvel_in cdof_dot_in subtree_linvel_in njmax njmax_nnz_in ne_out nefc_out efc_type_out efc_id_out efc_jtdaj_adr_out efc_jtdaj_nrow_out efc_jtdaj_nblock_out efc_J_rownnz_out efc_J_rowadr_out efc_J_colind_out efc_J_out efc_pos_out efc_margin_out efc_D_out efc_vel_out efc_aref_out efc_frictionloss_out efc_nnz_out st_is_sparse_and_newton alloc1 eq_data_shape0 body_invweight0_shape0 st_is_sparse alloc2 eq_solref_shape0 eq_solimp_shape0 opt_timestep_shape0 fuel tid0 tid1
  | equality_weld nv nsite opt_timestep opt_disableflags body_parentid body_rootid body_weldid body_dofnum body_dofadr body_invweight0 jnt_type jnt_dofadr dof_bodyid dof_jntid dof_parentid site_bodyid site_quat eq_obj1id eq_obj2id eq_objtype eq_solref eq_solimp eq_data body_isdofancestor eq_wld_adr qvel_in eq_active_in xpos_in xquat_in xmat_in site_xpos_in subtree_com_in cdof_in cvel_in cdof_dot_in subtree_linvel_in njmax_nnz_in ne_out nefc_out efc_type_out efc_id_out efc_jtdaj_adr_out efc_jtdaj_nrow_out efc_jtdaj_nblock_out efc_J_rownnz_out efc_J_rowadr_out efc_J_colind_out efc_J_out efc_pos_out efc_margin_out efc_D_out efc_vel_out efc_aref_out efc_frictionloss_out efc_nnz_out st_is_sparse_and_newton alloc1 eq_data_shape0 site_quat_shape0 body_invweight0_shape0 st_is_sparse alloc2 eq_solref_shape0 eq_solimp_shape0 opt_timestep_shape0 fuel tid0 tid1 => exact equality_weld_exact nv nsite opt_timestep opt_disableflags body_parentid body_rootid body_weldid body_dofnum body_dofadr body_invweight0 jnt_type jnt_dofadr dof_bodyid dof_jntid dof_parentid site_bodyid site_quat eq_obj1id eq_obj2id eq_objtype eq_solref eq_solimp eq_data body_isdofancestor eq_wld_adr qvel_in eq_active_in xpos_in xquat_in xmat_in site_xpos_in subtree_com_in cdof_in cvel_in cdof_dot_in subtree_linvel_in njmax njmax_nnz_in ne_out nefc_out efc_type_out efc_id_out efc_jtdaj_adr_out efc_jtdaj_nrow_out efc_jtdaj_nblock_out efc_J_rownnz_out efc_J_rowadr_out efc_J_colind_out efc_J_out efc_pos_out efc_margin_out efc_D_out efc_vel_out efc_aref_out efc_frictionloss_out efc_nnz_out st_is_sparse_and_newton alloc1 eq_data_shape0 site_quat_shape0 body_invweight0_shape0 st_is_sparse alloc2 eq_solref_shape0 eq_solimp_shape0 opt_timestep_shape0 fuel tid0 tid1
  | equality_joint nv opt_timestep opt_disableflags qpos0 jnt_qposadr jnt_dofadr dof_invweight0 eq_obj1id eq_obj2id eq_solref eq_solimp eq_data eq_jnt_adr qpos_in qvel_in eq_active_in njmax_nnz_in ne_out nefc_out efc_type_out efc_id_out efc_jtdaj_adr_out efc_jtdaj_nrow_out efc_jtdaj_nblock_out efc_J_rownnz_out efc_J_rowadr_out efc_J_colind_out efc_J_out efc_pos_out efc_margin_out efc_D_out efc_vel_out efc_aref_out efc_frictionloss_out efc_nnz_out st_is_sparse_and_newton alloc1 eq_data_shape0 qpos0_shape0 dof_invweight0_shape0 st_is_sparse alloc2 opt_timestep_shape0 eq_solref_shape0 eq_solimp_shape0 cl_rowadr tid0 tid1 => exact equality_joint_exact nv opt_timestep opt_disableflags qpos0 jnt_qposadr jnt_dofadr dof_invweight0 eq_obj1id eq_obj2id eq_solref eq_solimp eq_data eq_jnt_adr qpos_in qvel_in eq_active_in njmax njmax_nnz_in ne_out nefc_out efc_type_out efc_id_out efc_jtdaj_adr_out efc_jtdaj_nrow_out efc_jtdaj_nblock_out efc_J_rownnz_out efc_J_rowadr_out efc_J_colind_out efc_J_out efc_pos_out efc_margin_out efc_D_out efc_vel_out efc_aref_out efc_frictionloss_out efc_nnz_out st_is_sparse_and_newton alloc1 eq_data_shape0 qpos0_shape0 dof_invweight0_shape0 st_is_sparse alloc2 opt_timestep_shape0 eq_solref_shape0 eq_solimp_shape0 cl_rowadr tid0 tid1
  | equality_tendon nv opt_timestep opt_disableflags eq_obj1id eq_obj2id eq_solref eq_solimp eq_data ten_J_rownnz ten_J_rowadr ten_J_colind tendon_length0 tendon_invweight0 eq_ten_adr qvel_in eq_active_in ten_J_in ten_length_in njmax_nnz_in ne_out nefc_out efc_type_out efc_id_out efc_jtdaj_adr_out efc_jtdaj_nrow_out efc_jtdaj_nblock_out efc_J_rownnz_out efc_J_rowadr_out efc_J_colind_out efc_J_out efc_pos_out efc_margin_out efc_D_out efc_vel_out efc_aref_out efc_frictionloss_out efc_nnz_out st_is_sparse_and_newton alloc1 eq_data_shape0 eq_solref_shape0 eq_solimp_shape0 tendon_length0_shape0 tendon_invweight0_shape0 st_is_sparse alloc2 opt_timestep_shape0 cl_rowadr fuel tid0 tid1 => exact equality_tendon_exact nv opt_timestep opt_disableflags eq_obj1id eq_obj2id eq_solref eq_solimp eq_data ten_J_rownnz ten_J_rowadr ten_J_colind tendon_length0 tendon_invweight0 eq_ten_adr qvel_in eq_active_in ten_J_in ten_length_in njmax njmax_nnz_in ne_out nefc_out efc_type_out efc_id_out efc_jtdaj_adr_out efc_jtdaj_nrow_out efc_jtdaj_nblock_out efc_J_rownnz_out efc_J_rowadr_out efc_J_colind_out efc_J_out efc_pos_out efc_margin_out efc_D_out efc_vel_out efc_aref_out efc_frictionloss_out efc_nnz_out st_is_sparse_and_newton alloc1 eq_data_shape0 eq_solref_shape0 eq_solimp_shape0 tendon_length0_shape0 tendon_invweight0_shape0 st_is_sparse alloc2 opt_timestep_shape0 cl_rowadr fuel tid0 tid1
  | equality_flex nv opt_timestep opt_disableflags flex_interp flex_edgeadr flex_edgenum flexedge_length0 flexedge_invweight0 flexedge_J_rownnz flexedge_J_rowadr flexedge_J_colind eq_obj1id eq_solref eq_solimp eq_flex_adr qvel_in eq_active_in flexedge_J_in flexedge_length_in njmax_nnz_in ne_out nefc_out efc_type_out efc_id_out efc_jtdaj_adr_out efc_jtdaj_nrow_out efc_jtdaj_nblock_out efc_J_rownnz_out efc_J_rowadr_out efc_J_colind_out efc_J_out efc_pos_out efc_margin_out efc_D_out efc_vel_out efc_aref_out efc_frictionloss_out efc_nnz_out st_is_sparse_and_newton alloc1 eq_solref_shape0 eq_solimp_shape0 st_is_sparse alloc2 opt_timestep_shape0 tid0 tid1 tid2 => exact equality_flex_exact nv opt_timestep opt_disableflags flex_interp flex_edgeadr flex_edgenum flexedge_length0 flexedge_invweight0 flexedge_J_rownnz flexedge_J_rowadr flexedge_J_colind eq_obj1id eq_solref eq_solimp eq_flex_adr qvel_in eq_active_in flexedge_J_in flexedge_length_in njmax njmax_nnz_in ne_out nefc_out efc_type_out efc_id_out efc_jtdaj_adr_out efc_jtdaj_nrow_out efc_jtdaj_nblock_out efc_J_rownnz_out efc_J_rowadr_out efc_J_colind_out efc_J_out efc_pos_out efc_margin_out efc_D_out efc_vel_out efc_aref_out efc_frictionloss_out efc_nnz_out st_is_sparse_and_newton alloc1 eq_solref_shape0 eq_solimp_shape0 st_is_sparse alloc2 opt_timestep_shape0 tid0 tid1 tid2
  | friction_dof nv opt_timestep opt_disableflags dof_solref dof_solimp dof_frictionloss dof_invweight0 qvel_in njmax_nnz_in nf_out nefc_out efc_type_out efc_id_out efc_jtdaj_adr_out efc_jtdaj_nrow_out efc_jtdaj_nblock_out efc_J_rownnz_out efc_J_rowadr_out efc_J_colind_out efc_J_out efc_pos_out efc_margin_out efc_D_out efc_vel_out efc_aref_out efc_frictionloss_out efc_nnz_out dof_frictionloss_shape0 st_is_sparse_and_newton alloc1 st_is_sparse alloc2 dof_invweight0_shape0 dof_solref_shape0 dof_solimp_shape0 opt_timestep_shape0 tid0 tid1 => exact friction_dof_exact nv opt_timestep opt_disableflags dof_solref dof_solimp dof_frictionloss dof_invweight0 qvel_in njmax njmax_nnz_in nf_out nefc_out efc_type_out efc_id_out efc_jtdaj_adr_out efc_jtdaj_nrow_out efc_jtdaj_nblock_out efc_J_rownnz_out efc_J_rowadr_out efc_J_colind_out efc_J_out efc_pos_out efc_margin_out efc_D_out efc_vel_out efc_aref_out efc_frictionloss_out efc_nnz_out dof_frictionloss_shape0 st_is_sparse_and_newton alloc1 st_is_sparse alloc2 dof_invweight0_shape0 dof_solref_shape0 dof_solimp_shape0 opt_timestep_shape0 tid0 tid1
  | friction_tendon nv opt_timestep opt_disableflags ten_J_rownnz ten_J_rowadr ten_J_colind tendon_solref_fri tendon_solimp_fri tendon_frictionloss tendon_invweight0 qvel_in ten_J_in njmax_nnz_in nf_out nefc_out efc_type_out efc_id_out efc_jtdaj_adr_out efc_jtdaj_nrow_out efc_jtdaj_nblock_out efc_J_rownnz_out efc_J_rowadr_out efc_J_colind_out efc_J_out efc_pos_out efc_margin_out efc_D_out efc_vel_out efc_aref_out efc_frictionloss_out efc_nnz_out tendon_frictionloss_shape0 st_is_sparse_and_newton alloc1 st_is_sparse alloc2 tendon_invweight0_shape0 tendon_solref_fri_shape0 tendon_solimp_fri_shape0 opt_timestep_shape0 tid0 tid1 => exact friction_tendon_exact nv opt_timestep opt_disableflags ten_J_rownnz ten_J_rowadr ten_J_colind tendon_solref_fri tendon_solimp_fri tendon_frictionloss tendon_invweight0 qvel_in ten_J_in njmax njmax_nnz_in nf_out nefc_out efc_type_out efc_id_out efc_jtdaj_adr_out efc_jtdaj_nrow_out efc_jtdaj_nblock_out efc_J_rownnz_out efc_J_rowadr_out efc_J_colind_out efc_J_out efc_pos_out efc_margin_out efc_D_out efc_vel_out efc_aref_out efc_frictionloss_out efc_nnz_out tendon_frictionloss_shape0 st_is_sparse_and_newton alloc1 st_is_sparse alloc2 tendon_invweight0_shape0 tendon_solref_fri_shape0 tendon_solimp_fri_shape0 opt_timestep_shape0 tid0 tid1
  | limit_slide_hinge nv opt_timestep opt_disableflags jnt_qposadr jnt_dofadr jnt_solref jnt_solimp jnt_range jnt_margin dof_invweight0 jnt_limited_slide_hinge_adr qpos_in qvel_in njmax_nnz_in nl_out nefc_out efc_type_out efc_id_out efc_jtdaj_adr_out efc_jtdaj_nrow_out efc_jtdaj_nblock_out efc_J_rownnz_out efc_J_rowadr_out efc_J_colind_out efc_J_out efc_pos_out efc_margin_out efc_D_out efc_vel_out efc_aref_out efc_frictionloss_out efc_nnz_out jnt_range_shape0 jnt_margin_shape0 st_is_sparse_and_newton alloc1 st_is_sparse alloc2 dof_invweight0_shape0 jnt_solref_shape0 jnt_solimp_shape0 opt_timestep_shape0 tid0 tid1 => exact limit_slide_hinge_exact nv opt_timestep opt_disableflags jnt_qposadr jnt_dofadr jnt_solref jnt_solimp jnt_range jnt_margin dof_invweight0 jnt_limited_slide_hinge_adr qpos_in qvel_in njmax njmax_nnz_in nl_out nefc_out efc_type_out efc_id_out efc_jtdaj_adr_out efc_jtdaj_nrow_out efc_jtdaj_nblock_out efc_J_rownnz_out efc_J_rowadr_out efc_J_colind_out efc_J_out efc_pos_out efc_margin_out efc_D_out efc_vel_out efc_aref_out efc_frictionloss_out efc_nnz_out jnt_range_shape0 jnt_margin_shape0 st_is_sparse_and_newton alloc1 st_is_sparse alloc2 dof_invweight0_shape0 jnt_solref_shape0 jnt_solimp_shape0 opt_timestep_shape0 tid0 tid1
  | limit_ball nv opt_timestep opt_disableflags jnt_qposadr jnt_dofadr jnt_solref jnt_solimp jnt_range jnt_margin dof_invweight0 jnt_limited_ball_adr qpos_in qvel_in njmax_nnz_in nl_out nefc_out efc_type_out efc_id_out efc_jtdaj_adr_out efc_jtdaj_nrow_out efc_jtdaj_nblock_out efc_J_rownnz_out efc_J_rowadr_out efc_J_colind_out efc_J_out efc_pos_out efc_margin_out efc_D_out efc_vel_out efc_aref_out efc_frictionloss_out efc_nnz_out jnt_range_shape0 jnt_margin_shape0 st_is_sparse_and_newton alloc1 st_is_sparse alloc2 dof_invweight0_shape0 jnt_solref_shape0 jnt_solimp_shape0 opt_timestep_shape0 tid0 tid1 => exact limit_ball_exact nv opt_timestep opt_disableflags jnt_qposadr jnt_dofadr jnt_solref jnt_solimp jnt_range jnt_margin dof_invweight0 jnt_limited_ball_adr qpos_in qvel_in njmax njmax_nnz_in nl_out nefc_out efc_type_out efc_id_out efc_jtdaj_adr_out efc_jtdaj_nrow_out efc_jtdaj_nblock_out efc_J_rownnz_out efc_J_rowadr_out efc_J_colind_out efc_J_out efc_pos_out efc_margin_out efc_D_out efc_vel_out efc_aref_out efc_frictionloss_out efc_nnz_out jnt_range_shape0 jnt_margin_shape0 st_is_sparse_and_newton alloc1 st_is_sparse alloc2 dof_invweight0_shape0 jnt_solref_shape0 jnt_solimp_shape0 opt_timestep_shape0 tid0 tid1
  | limit_tendon nv opt_timestep opt_disableflags ten_J_rownnz ten_J_rowadr ten_J_colind tendon_solref_lim tendon_solimp_lim tendon_range tendon_margin tendon_invweight0 tendon_limited_adr qvel_in ten_J_in ten_length_in njmax_nnz_in nl_out nefc_out efc_type_out efc_id_out efc_jtdaj_adr_out efc_jtdaj_nrow_out efc_jtdaj_nblock_out efc_J_rownnz_out efc_J_rowadr_out efc_J_colind_out efc_J_out efc_pos_out efc_margin_out efc_D_out efc_vel_out efc_aref_out efc_frictionloss_out efc_nnz_out tendon_range_shape0 tendon_margin_shape0 st_is_sparse_and_newton alloc1 st_is_sparse alloc2 tendon_invweight0_shape0 tendon_solref_lim_shape0 tendon_solimp_lim_shape0 opt_timestep_shape0 tid0 tid1 => exact limit_tendon_exact nv opt_timestep opt_disableflags ten_J_rownnz ten_J_rowadr ten_J_colind tendon_solref_lim tendon_solimp_lim tendon_range tendon_margin tendon_invweight0 tendon_limited_adr qvel_in ten_J_in ten_length_in njmax njmax_nnz_in nl_out nefc_out efc_type_out efc_id_out efc_jtdaj_adr_out efc_jtdaj_nrow_out efc_jtdaj_nblock_out efc_J_rownnz_out efc_J_rowadr_out efc_J_colind_out efc_J_out efc_pos_out efc_margin_out efc_D_out efc_vel_out efc_aref_out efc_frictionloss_out efc_nnz_out tendon_range_shape0 tendon_margin_shape0 st_is_sparse_and_newton alloc1 st_is_sparse alloc2 tendon_invweight0_shape0 tendon_solref_lim_shape0 tendon_solimp_lim_shape0 opt_timestep_shape0 tid0 tid1
  | contact_init body_weldid body_dofnum body_dofadr dof_parentid geom_bodyid njmax_nnz_in nacon_in dist_in condim_in includemargin_in adhesion_in worldid_in geom_in type_in nefc_out contact_efc_address_out efc_id_out efc_jtdaj_adr_out efc_jtdaj_nrow_out efc_jtdaj_nblock_out efc_J_rownnz_out efc_J_rowadr_out efc_nnz_out st_flg_adhesion st_IS_ELLIPTIC st_is_sparse_and_newton alloc1 st_IS_SPARSE alloc2 fuel tid0 n => exact contact_init_exact body_weldid body_dofnum body_dofadr dof_parentid geom_bodyid njmax njmax_nnz_in nacon_in dist_in condim_in includemargin_in adhesion_in worldid_in geom_in type_in nefc_out contact_efc_address_out efc_id_out efc_jtdaj_adr_out efc_jtdaj_nrow_out efc_jtdaj_nblock_out efc_J_rownnz_out efc_J_rowadr_out efc_nnz_out st_flg_adhesion st_IS_ELLIPTIC st_is_sparse_and_newton alloc1 st_IS_SPARSE alloc2 fuel tid0 n

/-- (5-all) **row_overflow_never_silent_all**: `row_overflow_never_silent` instantiated for ALL row builders — let `bs`
    be ANY collection of threads of the eleven builder kernels of a world (equality connect/weld/joint/tendon/flex,
    dof/tendon friction, slide-hinge/ball/tendon limits, contacts), `o` any order in which they perform their
    allocating atomic.  If the arena report does not fire (`nefc ≤ njmax`, exact fit included) every thread is
    granted and writes all its rows at its offset (side condition `ok`: dense mode, or nnz request granted). -/
theorem row_overflow_never_silent_all {K : Type} [Scalar K] (bs o : List (Builder K)) (hp : o.Perm bs) (njmax : Int)
    (hall : ∀ b ∈ bs, IsRowBuilder njmax b)
    (hno : reported idealReport njmax (reqsOf o) = false) :
    ∀ p ∈ o.zip (run idealGuard njmax (reqsOf o)),
      allocReq (p.1.run p.2.off) "nefc_out" [p.1.wid] p.1.k → p.1.ok p.2.off →
      p.2.granted = true ∧
      ∀ r, p.2.off ≤ r → r < p.2.off + (p.1.k : Int) → writesRow (p.1.run p.2.off) p.1.arr p.1.wid r :=
  row_overflow_never_silent_exact bs o hp njmax (fun b hb => (hall b hb).exact) hno
end all_builders


section step
variable {K : Type} [Scalar K] (opt_timestep : (Int → K)) (is_sparse : Bool) (nefc_in : (Int → Int)) (time_in : (Int → K)) (efc_J_rownnz_in : (Int → Int → Int)) (efc_J_rowadr_in : (Int → Int → Int)) (nworld_in : Int) (naconmax_in : Int) (njmax_in : Int) (njmax_nnz_in : Int) (nacon_in : (Int → Int)) (ncollision_in : (Int → Int)) (time_out : (Int → K)) (overflow_out : (Int → Int)) (opt_timestep_shape0 : Int) (st_warn_overflow : Bool) (tid0 : Int)
local notation "ovAfter" => Write.lookupI (Gen.Forward._next_time_builder___next_time opt_timestep is_sparse nefc_in time_in efc_J_rownnz_in efc_J_rowadr_in nworld_in naconmax_in njmax_in njmax_nnz_in nacon_in ncollision_in time_out overflow_out opt_timestep_shape0 st_warn_overflow tid0) "overflow_out" [tid0] (overflow_out tid0)

/-- (5b) **row_overflow_never_silent_step** — 1+2+3 at kernel level: let the builder threads `o` of world `tid0`
    (any order) all be exact, let `nefc_in[tid0]` be the value their atomics leave in the counter, and let the NEFC
    bit be clear on entry.  If the generated `_next_time` leaves the NEFC bit clear, every thread wrote all its rows
    at the offsets it was given. -/
theorem row_overflow_never_silent_step (bs o : List (Builder K)) (hp : o.Perm bs)
    (hex : ∀ b ∈ bs, b.exact njmax_in)
    (hfin : nefc_in tid0 = final (reqsOf o))
    (hclear : ¬ hasBit (overflow_out tid0) 1)
    (hnobit : ¬ hasBit ovAfter 1) :
    ∀ p ∈ o.zip (run idealGuard njmax_in (reqsOf o)),
      allocReq (p.1.run p.2.off) "nefc_out" [p.1.wid] p.1.k → p.1.ok p.2.off →
      p.2.granted = true ∧
      ∀ r, p.2.off ≤ r → r < p.2.off + (p.1.k : Int) → writesRow (p.1.run p.2.off) p.1.arr p.1.wid r := by
  apply row_overflow_never_silent_exact bs o hp njmax_in hex
  have h := nefc_bit_iff_reported opt_timestep is_sparse nefc_in time_in efc_J_rownnz_in efc_J_rowadr_in nworld_in naconmax_in njmax_in njmax_nnz_in nacon_in ncollision_in time_out overflow_out opt_timestep_shape0 st_warn_overflow tid0 (reqsOf o) hfin hclear
  cases hrep : reported idealReport njmax_in (reqsOf o)
  · rfl
  · exact absurd (h.mpr hrep) hnobit

/-- (5b-all) the same for ANY threads of the eleven builder kernels -/
theorem row_overflow_never_silent_all_step (bs o : List (Builder K)) (hp : o.Perm bs)
    (hall : ∀ b ∈ bs, IsRowBuilder njmax_in b)
    (hfin : nefc_in tid0 = final (reqsOf o))
    (hclear : ¬ hasBit (overflow_out tid0) 1)
    (hnobit : ¬ hasBit ovAfter 1) :
    ∀ p ∈ o.zip (run idealGuard njmax_in (reqsOf o)),
      allocReq (p.1.run p.2.off) "nefc_out" [p.1.wid] p.1.k → p.1.ok p.2.off →
      p.2.granted = true ∧
      ∀ r, p.2.off ≤ r → r < p.2.off + (p.1.k : Int) → writesRow (p.1.run p.2.off) p.1.arr p.1.wid r :=
  row_overflow_never_silent_step opt_timestep is_sparse nefc_in time_in efc_J_rownnz_in efc_J_rowadr_in nworld_in naconmax_in njmax_in njmax_nnz_in nacon_in ncollision_in time_out overflow_out opt_timestep_shape0 st_warn_overflow tid0 bs o hp (fun b hb => (hall b hb).exact) hfin hclear hnobit

/-- (5c) conversely the report is not spurious: bit set (from clear) ⇒ the rows do NOT all fit -/
theorem nefc_bit_only_if_overflow (o : List (Builder K)) (hfin : nefc_in tid0 = final (reqsOf o))
    (hclear : ¬ hasBit (overflow_out tid0) 1) (hbit : hasBit ovAfter 1) : final (reqsOf o) > njmax_in := by
  have h := (nefc_bit_iff_reported opt_timestep is_sparse nefc_in time_in efc_J_rownnz_in efc_J_rowadr_in nworld_in naconmax_in njmax_in njmax_nnz_in nacon_in ncollision_in time_out overflow_out opt_timestep_shape0 st_warn_overflow tid0 (reqsOf o) hfin hclear).mp hbit
  simpa only [reported, idealReport, decide_eq_true_eq] using h

end step


/-! ## Examples (non-vacuity of the hypotheses) -/

/-- arena, exact fit: requests 3 + 1 + 6 = 10 = C: all granted, no report; C = 9: one dropped and reported,
    whichever order -/
example : (run idealGuard 10 ex3).map (·.granted) = [true, true, true] ∧ reported idealReport 10 ex3 = false := by decide
example : (run idealGuard 9 ex3).map (·.granted) = [true, true, false] ∧ reported idealReport 9 ex3 = true := by decide
example : (run idealGuard 9 ex3.reverse).map (·.granted) = [true, true, false]
    ∧ reported idealReport 9 ex3.reverse = true := by decide
example : ex3.reverse.Perm ex3 := List.reverse_perm _
/-- the k = 1 guard at exact fit (last slot) grants; the PRE-REPAIR connect guard at exact fit would not -/
example : geGuard 2 1 3 = true ∧ geMinusGuard 0 3 3 = false ∧ idealGuard 0 3 3 = true := by decide

/-- an active joint-equality thread with `njmax_in = 2`, dense mode: at `alloc0 = 1` (the LAST row, exact fit) it
    reached the atomic and writes row 1 -/
example : reached (Gen.Constraint._equality_joint__kernel (K := ℝ) 0 (fun _ => 0) 0 (fun _ _ => 0) (fun _ => 0) (fun _ => 0) (fun _ _ => 0) (fun _ => 0) (fun _ => 0) (fun _ _ => ⟨0, 0⟩) (fun _ _ => ⟨0, 0, 0, 0, 0⟩) (fun _ _ => ⟨0, 0, 0, 0, 0, 0, 0, 0, 0, 0, 0⟩) (fun _ => 0) (fun _ _ => 0) (fun _ _ => 0) (fun _ _ => true) 2 0 (fun _ => 0) (fun _ => 0) (fun _ _ => 0) (fun _ _ => 0) (fun _ _ => 0) (fun _ _ => 0) (fun _ => 0) (fun _ _ => 0) (fun _ _ => 0) (fun _ _ _ => 0) (fun _ _ _ => 0) (fun _ _ => 0) (fun _ _ => 0) (fun _ _ => 0) (fun _ _ => 0) (fun _ _ => 0) (fun _ _ => 0) (fun _ => 0) 1 false 0 0 0 0 false 0 0 0 0 0 0 0) "nefc_out" [0]
    ∧ writesRow (Gen.Constraint._equality_joint__kernel (K := ℝ) 0 (fun _ => 0) 0 (fun _ _ => 0) (fun _ => 0) (fun _ => 0) (fun _ _ => 0) (fun _ => 0) (fun _ => 0) (fun _ _ => ⟨0, 0⟩) (fun _ _ => ⟨0, 0, 0, 0, 0⟩) (fun _ _ => ⟨0, 0, 0, 0, 0, 0, 0, 0, 0, 0, 0⟩) (fun _ => 0) (fun _ _ => 0) (fun _ _ => 0) (fun _ _ => true) 2 0 (fun _ => 0) (fun _ => 0) (fun _ _ => 0) (fun _ _ => 0) (fun _ _ => 0) (fun _ _ => 0) (fun _ => 0) (fun _ _ => 0) (fun _ _ => 0) (fun _ _ _ => 0) (fun _ _ _ => 0) (fun _ _ => 0) (fun _ _ => 0) (fun _ _ => 0) (fun _ _ => 0) (fun _ _ => 0) (fun _ _ => 0) (fun _ => 0) 1 false 0 0 0 0 false 0 0 0 0 0 0 0) "efc_type_out" 0 1 := by
  have hr : reached (Gen.Constraint._equality_joint__kernel (K := ℝ) 0 (fun _ => 0) 0 (fun _ _ => 0) (fun _ => 0) (fun _ => 0) (fun _ _ => 0) (fun _ => 0) (fun _ => 0) (fun _ _ => ⟨0, 0⟩) (fun _ _ => ⟨0, 0, 0, 0, 0⟩) (fun _ _ => ⟨0, 0, 0, 0, 0, 0, 0, 0, 0, 0, 0⟩) (fun _ => 0) (fun _ _ => 0) (fun _ _ => 0) (fun _ _ => true) 2 0 (fun _ => 0) (fun _ => 0) (fun _ _ => 0) (fun _ _ => 0) (fun _ _ => 0) (fun _ _ => 0) (fun _ => 0) (fun _ _ => 0) (fun _ _ => 0) (fun _ _ _ => 0) (fun _ _ _ => 0) (fun _ _ => 0) (fun _ _ => 0) (fun _ _ => 0) (fun _ _ => 0) (fun _ _ => 0) (fun _ _ => 0) (fun _ => 0) 1 false 0 0 0 0 false 0 0 0 0 0 0 0) "nefc_out" [0] := by
    unfold Gen.Constraint._equality_joint__kernel; ksimp []
  exact ⟨hr, equality_joint_exact_fit (K := ℝ) 0 (fun _ => 0) 0 (fun _ _ => 0) (fun _ => 0) (fun _ => 0) (fun _ _ => 0) (fun _ => 0) (fun _ => 0) (fun _ _ => ⟨0, 0⟩) (fun _ _ => ⟨0, 0, 0, 0, 0⟩) (fun _ _ => ⟨0, 0, 0, 0, 0, 0, 0, 0, 0, 0, 0⟩) (fun _ => 0) (fun _ _ => 0) (fun _ _ => 0) (fun _ _ => true) 2 0 (fun _ => 0) (fun _ => 0) (fun _ _ => 0) (fun _ _ => 0) (fun _ _ => 0) (fun _ _ => 0) (fun _ => 0) (fun _ _ => 0) (fun _ _ => 0) (fun _ _ _ => 0) (fun _ _ _ => 0) (fun _ _ => 0) (fun _ _ => 0) (fun _ _ => 0) (fun _ _ => 0) (fun _ _ => 0) (fun _ _ => 0) (fun _ => 0) 1 false 0 0 0 0 false 0 0 0 0 0 0 0 hr (by norm_num) (by simp)⟩

/-- two such threads fill `njmax_in = 2` exactly: the hypotheses of `row_overflow_never_silent_exact` hold (both
    builders exact, no report), hence both rows are written -/
example :
    let b : Builder ℝ := equality_joint_builder 0 (fun _ => 0) 0 (fun _ _ => 0) (fun _ => 0) (fun _ => 0) (fun _ _ => 0) (fun _ => 0) (fun _ => 0) (fun _ _ => ⟨0, 0⟩) (fun _ _ => ⟨0, 0, 0, 0, 0⟩) (fun _ _ => ⟨0, 0, 0, 0, 0, 0, 0, 0, 0, 0, 0⟩) (fun _ => 0) (fun _ _ => 0) (fun _ _ => 0) (fun _ _ => true) 2 0 (fun _ => 0) (fun _ => 0) (fun _ _ => 0) (fun _ _ => 0) (fun _ _ => 0) (fun _ _ => 0) (fun _ => 0) (fun _ _ => 0) (fun _ _ => 0) (fun _ _ _ => 0) (fun _ _ _ => 0) (fun _ _ => 0) (fun _ _ => 0) (fun _ _ => 0) (fun _ _ => 0) (fun _ _ => 0) (fun _ _ => 0) (fun _ => 0) false 0 0 0 0 false 0 0 0 0 0 0 0
    (∀ x ∈ [b, b], x.exact 2) ∧ reported idealReport 2 (reqsOf [b, b]) = false
      ∧ (run idealGuard 2 (reqsOf [b, b])).map (·.off) = [0, 1] := by
  intro b
  refine ⟨?_, ?_, ?_⟩
  · intro x hx
    simp only [List.mem_cons, List.not_mem_nil, or_false, or_self] at hx
    subst hx
    exact equality_joint_exact (K := ℝ) 0 (fun _ => 0) 0 (fun _ _ => 0) (fun _ => 0) (fun _ => 0) (fun _ _ => 0) (fun _ => 0) (fun _ => 0) (fun _ _ => ⟨0, 0⟩) (fun _ _ => ⟨0, 0, 0, 0, 0⟩) (fun _ _ => ⟨0, 0, 0, 0, 0, 0, 0, 0, 0, 0, 0⟩) (fun _ => 0) (fun _ _ => 0) (fun _ _ => 0) (fun _ _ => true) 2 0 (fun _ => 0) (fun _ => 0) (fun _ _ => 0) (fun _ _ => 0) (fun _ _ => 0) (fun _ _ => 0) (fun _ => 0) (fun _ _ => 0) (fun _ _ => 0) (fun _ _ _ => 0) (fun _ _ _ => 0) (fun _ _ => 0) (fun _ _ => 0) (fun _ _ => 0) (fun _ _ => 0) (fun _ _ => 0) (fun _ _ => 0) (fun _ => 0) false 0 0 0 0 false 0 0 0 0 0 0 0
  · simp [reported, idealReport, final, finalFrom, reqsOf, reqsFrom, b, equality_joint_builder]
  · simp [run, runFrom, reqsOf, reqsFrom, b, equality_joint_builder]

/-- the former F1 witness, now a POSITIVE example: an active connect thread with `njmax_in = 3`, `alloc0 = 0` (exact fit),
    dense mode, reached the atomic asking for 3 rows and writes rows 0, 1, 2 -/
example : allocReq (Gen.Constraint._equality_connect__kernel (K := ℝ) 0 0 (fun _ => 0) 0 (fun _ => 0) (fun _ => 0) (fun _ => 0) (fun _ => 0) (fun _ => 0) (fun _ _ => ⟨0, 0⟩) (fun _ => 0) (fun _ => 0) (fun _ => 0) (fun _ => 0) (fun _ => 0) (fun _ => 0) (fun _ => 0) (fun _ => 0) (fun _ => 0) (fun _ _ => ⟨0, 0⟩) (fun _ _ => ⟨0, 0, 0, 0, 0⟩) (fun _ _ => ⟨0, 0, 0, 0, 0, 0, 0, 0, 0, 0, 0⟩) (fun _ _ => 0) (fun _ => 0) (fun _ _ => 0) (fun _ _ => true) (fun _ _ => ⟨0, 0, 0⟩) (fun _ _ => ⟨0, 0, 0, 0, 0, 0, 0, 0, 0⟩) (fun _ _ => ⟨0, 0, 0⟩) (fun _ _ => ⟨0, 0, 0⟩) (fun _ _ => ⟨0, 0, 0, 0, 0, 0⟩) (fun _ _ => ⟨0, 0, 0, 0, 0, 0⟩) (fun _ _ => ⟨0, 0, 0, 0, 0, 0⟩) (fun _ _ => ⟨0, 0, 0⟩) 3 0 (fun _ => 0) (fun _ => 0) (fun _ _ => 0) (fun _ _ => 0) (fun _ _ => 0) (fun _ _ => 0) (fun _ => 0) (fun _ _ => 0) (fun _ _ => 0) (fun _ _ _ => 0) (fun _ _ _ => 0) (fun _ _ => 0) (fun _ _ => 0) (fun _ _ => 0) (fun _ _ => 0) (fun _ _ => 0) (fun _ _ => 0) (fun _ => 0) 0 false 0 0 0 false 0 0 0 0 0 0 0) "nefc_out" [0] 3
    ∧ ∀ r, 0 ≤ r → r < 3 → writesRow (Gen.Constraint._equality_connect__kernel (K := ℝ) 0 0 (fun _ => 0) 0 (fun _ => 0) (fun _ => 0) (fun _ => 0) (fun _ => 0) (fun _ => 0) (fun _ _ => ⟨0, 0⟩) (fun _ => 0) (fun _ => 0) (fun _ => 0) (fun _ => 0) (fun _ => 0) (fun _ => 0) (fun _ => 0) (fun _ => 0) (fun _ => 0) (fun _ _ => ⟨0, 0⟩) (fun _ _ => ⟨0, 0, 0, 0, 0⟩) (fun _ _ => ⟨0, 0, 0, 0, 0, 0, 0, 0, 0, 0, 0⟩) (fun _ _ => 0) (fun _ => 0) (fun _ _ => 0) (fun _ _ => true) (fun _ _ => ⟨0, 0, 0⟩) (fun _ _ => ⟨0, 0, 0, 0, 0, 0, 0, 0, 0⟩) (fun _ _ => ⟨0, 0, 0⟩) (fun _ _ => ⟨0, 0, 0⟩) (fun _ _ => ⟨0, 0, 0, 0, 0, 0⟩) (fun _ _ => ⟨0, 0, 0, 0, 0, 0⟩) (fun _ _ => ⟨0, 0, 0, 0, 0, 0⟩) (fun _ _ => ⟨0, 0, 0⟩) 3 0 (fun _ => 0) (fun _ => 0) (fun _ _ => 0) (fun _ _ => 0) (fun _ _ => 0) (fun _ _ => 0) (fun _ => 0) (fun _ _ => 0) (fun _ _ => 0) (fun _ _ _ => 0) (fun _ _ _ => 0) (fun _ _ => 0) (fun _ _ => 0) (fun _ _ => 0) (fun _ _ => 0) (fun _ _ => 0) (fun _ _ => 0) (fun _ => 0) 0 false 0 0 0 false 0 0 0 0 0 0 0) "efc_type_out" 0 r := by
  have hr : allocReq (Gen.Constraint._equality_connect__kernel (K := ℝ) 0 0 (fun _ => 0) 0 (fun _ => 0) (fun _ => 0) (fun _ => 0) (fun _ => 0) (fun _ => 0) (fun _ _ => ⟨0, 0⟩) (fun _ => 0) (fun _ => 0) (fun _ => 0) (fun _ => 0) (fun _ => 0) (fun _ => 0) (fun _ => 0) (fun _ => 0) (fun _ => 0) (fun _ _ => ⟨0, 0⟩) (fun _ _ => ⟨0, 0, 0, 0, 0⟩) (fun _ _ => ⟨0, 0, 0, 0, 0, 0, 0, 0, 0, 0, 0⟩) (fun _ _ => 0) (fun _ => 0) (fun _ _ => 0) (fun _ _ => true) (fun _ _ => ⟨0, 0, 0⟩) (fun _ _ => ⟨0, 0, 0, 0, 0, 0, 0, 0, 0⟩) (fun _ _ => ⟨0, 0, 0⟩) (fun _ _ => ⟨0, 0, 0⟩) (fun _ _ => ⟨0, 0, 0, 0, 0, 0⟩) (fun _ _ => ⟨0, 0, 0, 0, 0, 0⟩) (fun _ _ => ⟨0, 0, 0, 0, 0, 0⟩) (fun _ _ => ⟨0, 0, 0⟩) 3 0 (fun _ => 0) (fun _ => 0) (fun _ _ => 0) (fun _ _ => 0) (fun _ _ => 0) (fun _ _ => 0) (fun _ => 0) (fun _ _ => 0) (fun _ _ => 0) (fun _ _ _ => 0) (fun _ _ _ => 0) (fun _ _ => 0) (fun _ _ => 0) (fun _ _ => 0) (fun _ _ => 0) (fun _ _ => 0) (fun _ _ => 0) (fun _ => 0) 0 false 0 0 0 false 0 0 0 0 0 0 0) "nefc_out" [0] 3 := by
    unfold Gen.Constraint._equality_connect__kernel; ksimp []
  refine ⟨hr, fun r h1 h2 => ?_⟩
  exact equality_connect_exact_fit (K := ℝ) 0 0 (fun _ => 0) 0 (fun _ => 0) (fun _ => 0) (fun _ => 0) (fun _ => 0) (fun _ => 0) (fun _ _ => ⟨0, 0⟩) (fun _ => 0) (fun _ => 0) (fun _ => 0) (fun _ => 0) (fun _ => 0) (fun _ => 0) (fun _ => 0) (fun _ => 0) (fun _ => 0) (fun _ _ => ⟨0, 0⟩) (fun _ _ => ⟨0, 0, 0, 0, 0⟩) (fun _ _ => ⟨0, 0, 0, 0, 0, 0, 0, 0, 0, 0, 0⟩) (fun _ _ => 0) (fun _ => 0) (fun _ _ => 0) (fun _ _ => true) (fun _ _ => ⟨0, 0, 0⟩) (fun _ _ => ⟨0, 0, 0, 0, 0, 0, 0, 0, 0⟩) (fun _ _ => ⟨0, 0, 0⟩) (fun _ _ => ⟨0, 0, 0⟩) (fun _ _ => ⟨0, 0, 0, 0, 0, 0⟩) (fun _ _ => ⟨0, 0, 0, 0, 0, 0⟩) (fun _ _ => ⟨0, 0, 0, 0, 0, 0⟩) (fun _ _ => ⟨0, 0, 0⟩) 3 0 (fun _ => 0) (fun _ => 0) (fun _ _ => 0) (fun _ _ => 0) (fun _ _ => 0) (fun _ _ => 0) (fun _ => 0) (fun _ _ => 0) (fun _ _ => 0) (fun _ _ _ => 0) (fun _ _ _ => 0) (fun _ _ => 0) (fun _ _ => 0) (fun _ _ => 0) (fun _ _ => 0) (fun _ _ => 0) (fun _ _ => 0) (fun _ => 0) 0 false 0 0 0 false 0 0 0 0 0 0 0 (allocReq_reached _ _ _ _ hr) (by norm_num) (by simp) r
    (by simpa using h1) (by simpa using h2)

/-- a connect thread and a joint thread fill `njmax = 4` exactly (3 + 1), in either order: the hypotheses of
    `row_overflow_never_silent_all` hold -/
example :
    let c : Builder ℝ := equality_connect_builder 0 0 (fun _ => 0) 0 (fun _ => 0) (fun _ => 0) (fun _ => 0) (fun _ => 0) (fun _ => 0) (fun _ _ => ⟨0, 0⟩) (fun _ => 0) (fun _ => 0) (fun _ => 0) (fun _ => 0) (fun _ => 0) (fun _ => 0) (fun _ => 0) (fun _ => 0) (fun _ => 0) (fun _ _ => ⟨0, 0⟩) (fun _ _ => ⟨0, 0, 0, 0, 0⟩) (fun _ _ => ⟨0, 0, 0, 0, 0, 0, 0, 0, 0, 0, 0⟩) (fun _ _ => 0) (fun _ => 0) (fun _ _ => 0) (fun _ _ => true) (fun _ _ => ⟨0, 0, 0⟩) (fun _ _ => ⟨0, 0, 0, 0, 0, 0, 0, 0, 0⟩) (fun _ _ => ⟨0, 0, 0⟩) (fun _ _ => ⟨0, 0, 0⟩) (fun _ _ => ⟨0, 0, 0, 0, 0, 0⟩) (fun _ _ => ⟨0, 0, 0, 0, 0, 0⟩) (fun _ _ => ⟨0, 0, 0, 0, 0, 0⟩) (fun _ _ => ⟨0, 0, 0⟩) 4 0 (fun _ => 0) (fun _ => 0) (fun _ _ => 0) (fun _ _ => 0) (fun _ _ => 0) (fun _ _ => 0) (fun _ => 0) (fun _ _ => 0) (fun _ _ => 0) (fun _ _ _ => 0) (fun _ _ _ => 0) (fun _ _ => 0) (fun _ _ => 0) (fun _ _ => 0) (fun _ _ => 0) (fun _ _ => 0) (fun _ _ => 0) (fun _ => 0) false 0 0 0 false 0 0 0 0 0 0 0
    let j : Builder ℝ := equality_joint_builder 0 (fun _ => 0) 0 (fun _ _ => 0) (fun _ => 0) (fun _ => 0) (fun _ _ => 0) (fun _ => 0) (fun _ => 0) (fun _ _ => ⟨0, 0⟩) (fun _ _ => ⟨0, 0, 0, 0, 0⟩) (fun _ _ => ⟨0, 0, 0, 0, 0, 0, 0, 0, 0, 0, 0⟩) (fun _ => 0) (fun _ _ => 0) (fun _ _ => 0) (fun _ _ => true) 4 0 (fun _ => 0) (fun _ => 0) (fun _ _ => 0) (fun _ _ => 0) (fun _ _ => 0) (fun _ _ => 0) (fun _ => 0) (fun _ _ => 0) (fun _ _ => 0) (fun _ _ _ => 0) (fun _ _ _ => 0) (fun _ _ => 0) (fun _ _ => 0) (fun _ _ => 0) (fun _ _ => 0) (fun _ _ => 0) (fun _ _ => 0) (fun _ => 0) false 0 0 0 0 false 0 0 0 0 0 0 0
    (∀ x ∈ [c, j], IsRowBuilder 4 x) ∧ [j, c].Perm [c, j]
      ∧ reported idealReport 4 (reqsOf [j, c]) = false
      ∧ (run idealGuard 4 (reqsOf [j, c])).map (·.off) = [0, 1] := by
  intro c j
  refine ⟨?_, List.Perm.swap _ _ _, ?_, ?_⟩
  · intro x hx
    simp only [List.mem_cons, List.not_mem_nil, or_false] at hx
    rcases hx with rfl | rfl
    · exact IsRowBuilder.equality_connect ..
    · exact IsRowBuilder.equality_joint ..
  · simp [reported, idealReport, final, finalFrom, reqsOf, reqsFrom, c, j, equality_joint_builder, equality_connect_builder]
  · simp [run, runFrom, reqsOf, reqsFrom, c, j, equality_joint_builder, equality_connect_builder]

/-- an active contact (condim 3, elliptic: 3 rows) with `njmax_in = 4`, `alloc0 = 0`: requests 3 rows, writes rows 0..2 -/
example : allocReq (Gen.Constraint._efc_contact_init__kernel (K := ℝ) (fun _ => 0) (fun _ => 0) (fun _ => 0) (fun _ => 0) (fun _ => 0) 4 0 (fun _ => 1) (fun _ => -1) (fun _ => 3) (fun _ => 0) (fun _ => 0) (fun _ => 0) (fun _ => ⟨0, 0⟩) (fun _ => 1) (fun _ => 0) (fun _ _ => 0) (fun _ _ => 0) (fun _ _ => 0) (fun _ _ => 0) (fun _ => 0) (fun _ _ => 0) (fun _ _ => 0) (fun _ => 0) false true 0 false 0 false 0 0 0) "nefc_out" [0] 3
    ∧ ∀ r, 0 ≤ r → r < 3 → writesRow (Gen.Constraint._efc_contact_init__kernel (K := ℝ) (fun _ => 0) (fun _ => 0) (fun _ => 0) (fun _ => 0) (fun _ => 0) 4 0 (fun _ => 1) (fun _ => -1) (fun _ => 3) (fun _ => 0) (fun _ => 0) (fun _ => 0) (fun _ => ⟨0, 0⟩) (fun _ => 1) (fun _ => 0) (fun _ _ => 0) (fun _ _ => 0) (fun _ _ => 0) (fun _ _ => 0) (fun _ => 0) (fun _ _ => 0) (fun _ _ => 0) (fun _ => 0) false true 0 false 0 false 0 0 0) "efc_id_out" 0 r := by
  have hr : allocReq (Gen.Constraint._efc_contact_init__kernel (K := ℝ) (fun _ => 0) (fun _ => 0) (fun _ => 0) (fun _ => 0) (fun _ => 0) 4 0 (fun _ => 1) (fun _ => -1) (fun _ => 3) (fun _ => 0) (fun _ => 0) (fun _ => 0) (fun _ => ⟨0, 0⟩) (fun _ => 1) (fun _ => 0) (fun _ _ => 0) (fun _ _ => 0) (fun _ _ => 0) (fun _ _ => 0) (fun _ => 0) (fun _ _ => 0) (fun _ _ => 0) (fun _ => 0) false true 0 false 0 false 0 0 0) "nefc_out" [0] 3 := by
    unfold Gen.Constraint._efc_contact_init__kernel
    have : Mjw.iand 1 1 ≠ 0 := by decide
    ksimp [this]
  refine ⟨hr, fun r h1 h2 => ?_⟩
  have := contact_init_exact_fit (K := ℝ) (fun _ => 0) (fun _ => 0) (fun _ => 0) (fun _ => 0) (fun _ => 0) 4 0 (fun _ => 1) (fun _ => -1) (fun _ => 3) (fun _ => 0) (fun _ => 0) (fun _ => 0) (fun _ => ⟨0, 0⟩) (fun _ => 1) (fun _ => 0) (fun _ _ => 0) (fun _ _ => 0) (fun _ _ => 0) (fun _ _ => 0) (fun _ => 0) (fun _ _ => 0) (fun _ _ => 0) (fun _ => 0) false true 0 false 0 false 0 0 0 3 hr (by norm_num) r (by simpa using h1) (by simpa using h2)
  exact this

/-- NJMAX_NNZ, model level: two unit requests into `njmax_nnz = 1`: the second is not granted, the counter ends at 2 > 1,
    `_nnz_overflow` writes the bit; with `njmax_nnz = 2` (exact fit) both are granted and it writes nothing -/
example : (run idealGuard 1 [⟨0, 1⟩, ⟨1, 1⟩]).map (·.granted) = [true, false] ∧ final [⟨0, 1⟩, ⟨1, 1⟩] = 2
    ∧ (run idealGuard 2 [⟨0, 1⟩, ⟨1, 1⟩]).map (·.granted) = [true, true] := by decide
example : Gen.Constraint._nnz_overflow (K := ℝ) 1 (fun _ => 2) (fun _ => 0) 0
      = [⟨"overflow_out", [0], WVal.i (Mjw.ior 0 2), WKind.set⟩]
    ∧ Gen.Constraint._nnz_overflow (K := ℝ) 2 (fun _ => 2) (fun _ => 0) 0 = [] := by
  constructor <;> rw [nnz_overflow_kernel] <;> simp

/-- the hypotheses of `equality_joint_dropped_row_has_no_nonzeros` / `equality_joint_nnz_overflow_never_silent` are
    satisfiable (this was the second thread of the former two-joints witness): single-joint equality, row 1 of
    `njmax_in = 2`, `alloc2 = 1`, `njmax_nnz_in = 1` — row allocated, nnz atomic performed, request 1 + 1 > 1 dropped -/
example {K : Type} [Scalar K] (nv : Int) (opt_timestep : (Int → K)) (opt_disableflags : Int) (qpos0 : (Int → Int → K)) (jnt_qposadr : (Int → Int)) (jnt_dofadr : (Int → Int)) (dof_invweight0 : (Int → Int → K)) (eq_obj1id : (Int → Int)) (eq_solref : (Int → Int → V2 K)) (eq_solimp : (Int → Int → V5 K)) (eq_data : (Int → Int → V11 K)) (eq_jnt_adr : (Int → Int)) (qpos_in : (Int → Int → K)) (qvel_in : (Int → Int → K)) (ne_out : (Int → Int)) (nefc_out : (Int → Int)) (efc_type_out : (Int → Int → Int)) (efc_id_out : (Int → Int → Int)) (efc_jtdaj_adr_out : (Int → Int → Int)) (efc_jtdaj_nrow_out : (Int → Int → Int)) (efc_jtdaj_nblock_out : (Int → Int)) (efc_J_rownnz_out : (Int → Int → Int)) (efc_J_rowadr_out : (Int → Int → Int)) (efc_J_colind_out : (Int → Int → Int → Int)) (efc_J_out : (Int → Int → Int → K)) (efc_pos_out : (Int → Int → K)) (efc_margin_out : (Int → Int → K)) (efc_D_out : (Int → Int → K)) (efc_vel_out : (Int → Int → K)) (efc_aref_out : (Int → Int → K)) (efc_frictionloss_out : (Int → Int → K)) (efc_nnz_out : (Int → Int)) (st_is_sparse_and_newton : Bool) (alloc1 : Int) (eq_data_shape0 : Int) (qpos0_shape0 : Int) (dof_invweight0_shape0 : Int) (opt_timestep_shape0 : Int) (eq_solref_shape0 : Int) (eq_solimp_shape0 : Int) (cl_rowadr : Int) (tid0 : Int) (tid1 : Int) :
    reached (Gen.Constraint._equality_joint__kernel nv opt_timestep opt_disableflags qpos0 jnt_qposadr jnt_dofadr dof_invweight0 eq_obj1id (fun _ => -1) eq_solref eq_solimp eq_data eq_jnt_adr qpos_in qvel_in (fun _ _ => true) (2 : Int) (1 : Int) ne_out nefc_out efc_type_out efc_id_out efc_jtdaj_adr_out efc_jtdaj_nrow_out efc_jtdaj_nblock_out efc_J_rownnz_out efc_J_rowadr_out efc_J_colind_out efc_J_out efc_pos_out efc_margin_out efc_D_out efc_vel_out efc_aref_out efc_frictionloss_out efc_nnz_out (1 : Int) st_is_sparse_and_newton alloc1 eq_data_shape0 qpos0_shape0 dof_invweight0_shape0 true (1 : Int) opt_timestep_shape0 eq_solref_shape0 eq_solimp_shape0 cl_rowadr tid0 tid1) "nefc_out" [tid0] ∧ reached (Gen.Constraint._equality_joint__kernel nv opt_timestep opt_disableflags qpos0 jnt_qposadr jnt_dofadr dof_invweight0 eq_obj1id (fun _ => -1) eq_solref eq_solimp eq_data eq_jnt_adr qpos_in qvel_in (fun _ _ => true) (2 : Int) (1 : Int) ne_out nefc_out efc_type_out efc_id_out efc_jtdaj_adr_out efc_jtdaj_nrow_out efc_jtdaj_nblock_out efc_J_rownnz_out efc_J_rowadr_out efc_J_colind_out efc_J_out efc_pos_out efc_margin_out efc_D_out efc_vel_out efc_aref_out efc_frictionloss_out efc_nnz_out (1 : Int) st_is_sparse_and_newton alloc1 eq_data_shape0 qpos0_shape0 dof_invweight0_shape0 true (1 : Int) opt_timestep_shape0 eq_solref_shape0 eq_solimp_shape0 cl_rowadr tid0 tid1) "efc_nnz_out" [tid0]
    ∧ ¬ allocFits (Gen.Constraint._equality_joint__kernel nv opt_timestep opt_disableflags qpos0 jnt_qposadr jnt_dofadr dof_invweight0 eq_obj1id (fun _ => -1) eq_solref eq_solimp eq_data eq_jnt_adr qpos_in qvel_in (fun _ _ => true) (2 : Int) (1 : Int) ne_out nefc_out efc_type_out efc_id_out efc_jtdaj_adr_out efc_jtdaj_nrow_out efc_jtdaj_nblock_out efc_J_rownnz_out efc_J_rowadr_out efc_J_colind_out efc_J_out efc_pos_out efc_margin_out efc_D_out efc_vel_out efc_aref_out efc_frictionloss_out efc_nnz_out (1 : Int) st_is_sparse_and_newton alloc1 eq_data_shape0 qpos0_shape0 dof_invweight0_shape0 true (1 : Int) opt_timestep_shape0 eq_solref_shape0 eq_solimp_shape0 cl_rowadr tid0 tid1) "efc_nnz_out" [tid0] 1 1 := by
  refine ⟨?_, ?_, ?_⟩ <;> (unfold Gen.Constraint._equality_joint__kernel; ksimp [])

end Mjw.Props.C16

