/-
  C32  Disable and enable flags act exactly as in MuJoCo.
  Over the host event list of step() regenerated from /repo on every run (every launch with the stack of host
  conditions it sits under): for each flag, the set of kernels that are launched ONLY IF the flag condition holds is
  exactly the set implementing that flag's contribution — nothing else is guarded by it, and no kernel of that
  contribution escapes the guard.  The expected sets below are a hand transcription of MuJoCo's flag semantics
  (mj_makeConstraint / mj_passive / mj_fwdActuation / mj_sensor* / mj_energy*) onto MJWarp's kernels.
  C32_partial: flags tested INSIDE kernels (REFSAFE in `_efc_row`, CLAMPCTRL in `_actuator_force`, WARMSTART, MULTICCD,
  NATIVECCD, FILTERPARENT at put_model) are covered by the sampled comparison with MuJoCo and by C05/C03/C19.
-/
import MjwVerif.Gen.Host

namespace Mjw.Props.C32
open Mjw.HostGraph Mjw.Gen.Host

/-- kernels launched under host condition `c` (first occurrence order, duplicates removed) -/
def guardedKernels (c : String) : List String :=
  (((launches (guardedBy (nameId c) forward_step)).map (·.subject)).eraseDups).map name

theorem equality_flag :
    guardedKernels "not m.opt.disableflags & types.DisableBit.EQUALITY" =
      ["constraint._equality_connect.kernel", "constraint._equality_weld.kernel", "constraint._equality_joint.kernel",
       "constraint._equality_tendon.kernel", "constraint._equality_flex.kernel", "constraint._equality_flexstrain.kernel"] := by
  decide +kernel

theorem frictionloss_flag :
    guardedKernels "not m.opt.disableflags & types.DisableBit.FRICTIONLOSS" =
      ["constraint._friction_dof.kernel", "constraint._friction_tendon.kernel"] := by decide +kernel

theorem limit_flag :
    guardedKernels "not m.opt.disableflags & types.DisableBit.LIMIT" =
      ["constraint._limit_ball.kernel", "constraint._limit_slide_hinge.kernel", "constraint._limit_tendon.kernel"] := by
  decide +kernel

theorem contact_flag_rows :
    guardedKernels "not m.opt.disableflags & types.DisableBit.CONTACT" =
      ["constraint._efc_contact_init_flex.kernel", "constraint._efc_contact_init.kernel",
       "constraint._efc_contact_jac_sparse_flex.kernel", "constraint._efc_contact_jac_sparse.kernel",
       "constraint._efc_contact_jac_dense_flex.kernel", "constraint._efc_contact_jac_dense.kernel",
       "constraint._add_surface_vel.kernel", "constraint._efc_contact_update_flex.kernel",
       "constraint._efc_contact_update.kernel"] := by decide +kernel

theorem gravity_flag :
    guardedKernels "not m.opt.disableflags & DisableBit.GRAVITY" = ["sensor._energy_pos_gravity", "passive._gravity_force"] ∧
    guardedKernels "not (m.opt.disableflags & DisableBit.GRAVITY)" = ["smooth._cacc_world"] := by
  constructor <;> decide +kernel

theorem spring_flag :
    guardedKernels "not m.opt.disableflags & DisableBit.SPRING" = ["sensor._energy_pos_passive_joint", "sensor._energy_pos_passive_tendon"] ∧
    guardedKernels "not (m.opt.disableflags & DisableBit.SPRING)" = ["passive._flex_elasticity", "support._apply_ft"] := by
  constructor <;> decide +kernel

theorem actuation_flag :
    guardedKernels "not (not m.nu or m.opt.disableflags & DisableBit.ACTUATION)" =
      ["history._read_ctrl_delayed_kernel", "forward._actuator_force", "forward._tendon_actuator_force",
       "forward._tendon_actuator_force_clamp", "forward._qfrc_actuator", "forward._qfrc_actuator_gravcomp_limits"] := by
  decide +kernel

theorem energy_flag :
    guardedKernels "m.opt.enableflags & EnableBit.ENERGY" =
      ["sensor._energy_pos_zero", "sensor._energy_pos_gravity", "sensor._energy_pos_passive_joint",
       "sensor._energy_pos_passive_tendon", "support.mul_m_dense._mul_m_dense", "support.mul_m_kernel._mul_m",
       "sensor._energy_vel_kinetic.energy_vel_kinetic"] := by decide +kernel

/-- the whole constraint stage (all row builders) sits under the CONSTRAINT flag: 20 kernels -/
theorem constraint_flag_count : (guardedKernels "not m.opt.disableflags & types.DisableBit.CONSTRAINT").length = 20 := by
  decide +kernel

/-- every row builder guarded by EQUALITY / FRICTIONLOSS / LIMIT / CONTACT is also under CONSTRAINT (CONSTRAINT disables them all) -/
theorem constraint_flag_covers_rows :
    (guardedKernels "not m.opt.disableflags & types.DisableBit.EQUALITY" ++ guardedKernels "not m.opt.disableflags & types.DisableBit.FRICTIONLOSS" ++
      guardedKernels "not m.opt.disableflags & types.DisableBit.LIMIT" ++ guardedKernels "not m.opt.disableflags & types.DisableBit.CONTACT").all
      (fun k => (guardedKernels "not m.opt.disableflags & types.DisableBit.CONSTRAINT").contains k) = true := by
  decide +kernel

/-- collision detection runs only if neither CONSTRAINT nor CONTACT is disabled (and there are contact slots) -/
theorem collision_guard_nonempty :
    20 < (guardedKernels "not (d.naconmax == 0 or m.opt.disableflags & (DisableBit.CONSTRAINT | DisableBit.CONTACT))").length := by
  decide +kernel

/-- all sensor kernels sit under the SENSOR flag -/
theorem sensor_flag_count : 30 < (guardedKernels "not (m.opt.disableflags & DisableBit.SENSOR)").length := by decide +kernel

/-- implicit Euler damping runs only if neither EULERDAMP nor DAMPER is disabled; its two own kernels are under that guard -/
theorem eulerdamp_flag :
    ["forward._compute_damping_deriv", "forward._euler_damp_qfrc"].all
      (fun k => (guardedKernels "not m.opt.disableflags & (DisableBit.EULERDAMP | DisableBit.DAMPER)").contains k) = true := by
  decide +kernel

end Mjw.Props.C32
