/-
  C06 witness: why `friction_cost_convex` / `Row.ok` require D > 0 for friction-loss rows.
  With D = 0 the generated `_eval_constraint` uses `safe_div(frictionloss, 0) = frictionloss·10¹⁵` as the
  switching point rf: the cost is 0 on (−rf, rf) and jumps to ½·frictionloss·rf at ±rf
  (Props/C24.lean `friction_D_zero`, Props/C24Witness.lean).  A function with such a jump is not convex:
  with frictionloss = 1 (rf = 10¹⁵) the midpoint −10¹⁵ of x = −10¹⁵ − 1 and y = −10¹⁵ + 1 has cost ½·10¹⁵,
  the endpoints have costs ½·10¹⁵ + 1 and 0.
  (D = efc_D = 1/R > 0 for every row constraint.py builds, so this is a statement about the function, not about
  reachable solver states.)
-/
import MjwVerif.Props.C06

namespace Mjw.Props.C06
open Mjw Mjw.Gen.Solver

theorem friction_cost_D_zero_not_convex_witness :
    ¬ ConvexOn ℝ Set.univ (fun j => (_eval_constraint false true false j (0:ℝ) 1 0 0 0 0 0 0 0).c2) := by
  intro h
  have hc := h.2 (Set.mem_univ (-(10:ℝ) ^ 15 - 1)) (Set.mem_univ (-(10:ℝ) ^ 15 + 1))
    (by norm_num : (0:ℝ) ≤ 1 / 2) (by norm_num : (0:ℝ) ≤ 1 / 2) (by norm_num)
  simp only [C24.friction_D_zero, smul_eq_mul] at hc
  norm_num at hc

end Mjw.Props.C06
