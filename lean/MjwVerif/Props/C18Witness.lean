/-
  C18 witnesses: where "broadphase choice does not change contacts" FAILS, or where a natural strengthening of
  a C18 theorem is false.  Every theorem is about the generated filters (`Mjw.Gen.Collision_driver`) and/or the
  SAP model (`Mjw.Sap`), on concrete data.

  (1) `pair_margin_witness`, `mask_dependence_witness` — **the property is false for explicit pairs**:
      two spheres r = 0.1 at centre distance 0.3 (surface distance 0.1), geom margins/gaps 0, explicit
      `<pair margin="0.2">`.  The narrow phase (`sphere_sphere`, generated) gives dist = 0.1 < 0.2 = pair_margin:
      a contact.  `_sphere_filter` is given `geom_margin + geom_gap = 0` and rejects.  So filter mask 0 (and any
      mask without the SPHERE/AABB/OBB bits) yields 1 contact, masks with the SPHERE bit yield 0.
      (`collision_driver._broadphase_filter` uses geom margins, `collision_core.contact_margin_gap` uses
       `pair_margin` when `pairid > -1`.)
  (2) `sap_sentinel_witness` — "the swept pairs are EXACTLY the overlapping pairs" is false: `sap_range` also
      sweeps the first non-overlapping position (harmless: superset).
  (3) `sap_plane_far_witness` — a plane's interval has radius MJ_MAXVAL = 1e10, not ∞: a sphere resting on the
      plane 3e10 away from the plane's frame origin (with another geom in between) is not swept by SAP, while
      `_plane_filter` (NXN) accepts the pair.
-/
import MjwVerif.Props.C18
import MjwVerif.Gen.Collision_primitive_core

set_option linter.unusedVariables false
set_option linter.unusedSimpArgs false

namespace Mjw.Props.C18Witness
open Mjw Mjw.Gen.Collision_driver Mjw.Gen.Collision_primitive_core Mjw.C20L Mjw.C18L Mjw.Sap Mjw.Props.C18

/-! ## (1) explicit pair with `pair_margin` > geom margins -/

noncomputable def xA : V3 ℝ := ⟨0, 0, 0⟩
noncomputable def xB : V3 ℝ := ⟨3 / 10, 0, 0⟩

theorem dist3_le_of_dot (a b : V3 ℝ) (r : ℝ) (hr : 0 ≤ r)
    (h : V3.dot (V3.sub a b) (V3.sub a b) ≤ r * r) : dist3 a b ≤ r :=
  (length_le_iff_dot_le _ hr).mp h

/-- the narrow phase sees surface distance 0.1 … -/
theorem narrow_dist : (sphere_sphere xA (1 / 10) xB (1 / 10)).1 = 1 / 10 := by
  have hd : V3.dot (V3.sub xB xA) (V3.sub xB xA) = (3 / 10) * (3 / 10) := by
    simp only [xA, xB, dot_def, V3.sub, hsub]; norm_num
  have hl : V3.length (V3.sub xB xA) = 3 / 10 := by
    rw [length_def, hd]; exact Real.sqrt_mul_self (by norm_num)
  show V3.length (V3.sub xB xA) - (1 / 10 + 1 / 10) = 1 / 10
  rw [hl]; norm_num

/-- … which is below the explicit pair's margin 0.2 (`write_contact`: `active = dist < margin`),
    there are points of the two spheres within that margin,
    yet `_sphere_filter` (fed `geom_margin + geom_gap = 0` for both geoms) rejects the pair. -/
theorem pair_margin_witness :
    (sphere_sphere xA (1 / 10) xB (1 / 10)).1 < 2 / 10 ∧
    (∃ p1 p2 : V3 ℝ, dist3 p1 xA ≤ 1 / 10 ∧ dist3 p2 xB ≤ 1 / 10 ∧ dist3 p1 p2 ≤ 2 / 10) ∧
    _sphere_filter (1 / 10) (1 / 10) 0 0 xA xB = false := by
  refine ⟨by rw [narrow_dist]; norm_num, ⟨⟨1 / 10, 0, 0⟩, ⟨2 / 10, 0, 0⟩, ?_, ?_, ?_⟩, ?_⟩
  · apply dist3_le_of_dot _ _ _ (by norm_num)
    simp only [xA, dot_def, V3.sub, hsub]; norm_num
  · apply dist3_le_of_dot _ _ _ (by norm_num)
    simp only [xB, dot_def, V3.sub, hsub]; norm_num
  · apply dist3_le_of_dot _ _ _ (by norm_num)
    simp only [dot_def, V3.sub, hsub]; norm_num
  · rw [Bool.eq_false_iff, Ne, sphere_filter_eq]
    simp only [xA, xB, V3.dot, V3.sub, hadd, hsub, hmul]
    norm_num

/-- **the set of pairs reaching the narrow phase depends on the filter mask**: with mask 0 the pair is accepted,
    with the SPHERE bit (mask 2; also the default mask 11 = PLANE|SPHERE|OBB) it is rejected — for every local
    box, every frame and every OBB verdict.  Together with `pair_margin_witness`: 1 contact vs 0 contacts. -/
theorem mask_dependence_witness (obb : Bool) (c1 c2 z1 z2 : V3 ℝ) (R1 R2 : M33 ℝ) :
    broadphaseFilter 0 obb c1 c2 z1 z2 (1 / 10) (1 / 10) 0 0 xA xB R1 R2 = true ∧
    broadphaseFilter 2 obb c1 c2 z1 z2 (1 / 10) (1 / 10) 0 0 xA xB R1 R2 = false ∧
    broadphaseFilter 11 obb c1 c2 z1 z2 (1 / 10) (1 / 10) 0 0 xA xB R1 R2 = false := by
  have hf := pair_margin_witness.2.2
  have hb : (Scalar.beq (1 / 10 : ℝ) (Scalar.lit 0 0) || Scalar.beq (1 / 10 : ℝ) (Scalar.lit 0 0)) = false := by
    rw [Bool.eq_false_iff, Ne, Bool.or_eq_true, sbeq, lit0]
    norm_num
  unfold broadphaseFilter
  rw [hb, hf]
  refine ⟨?_, ?_, ?_⟩ <;> simp [dispatch]

/-! ## (2) `sap_range` sweeps one non-overlapping pair -/

noncomputable def lo2 : Int → ℝ := fun k => if k = 1 then 5 else 0
noncomputable def up2 : Int → ℝ := fun g => if g = 1 then 6 else 1

/-- two disjoint intervals [0,1], [5,6] (already sorted): position 1 is inside position 0's range although
    `lower 1 = 5 > 1 = upper 0`.  So "swept ⇔ overlapping" is false; only "overlapping ⇒ swept" holds. -/
theorem sap_sentinel_witness :
    (1 : Int) ≤ 0 + range Scalar.gt 2 lo2 up2 id 0 2 ∧ ¬ (lo2 1 ≤ up2 (id 0)) := by
  constructor
  · have hs : ∀ a b : Int, 0 ≤ a → a ≤ b → b < 2 → lo2 a ≤ lo2 b := by
      intro a b ha hab hb
      unfold lo2
      split_ifs <;> first | omega | norm_num
    obtain ⟨_, _, r3⟩ := sap_range_spec 2 lo2 up2 id (by norm_num) hs 0 (le_refl _) (by norm_num) 2 (by norm_num)
    rw [r3 1 (by norm_num)]
    exact ⟨by norm_num, fun k h1 h2 => by omega⟩
  · simp [lo2, up2]

/-! ## (3) a plane's projected interval is finite -/

/-- the fixed direction of `sap_broadphase`: `wp.normalize(wp.vec3(0.5935, 0.7790, 0.1235))` -/
noncomputable def sapDir : V3 ℝ := V3.normalize ⟨5935 / 10000, 7790 / 10000, 1235 / 10000⟩

theorem sapDir_props : V3.dot sapDir sapDir = 1 ∧ 59 / 100 ≤ sapDir.c0 ∧ 0 ≤ sapDir.c2 := by
  set v : V3 ℝ := ⟨5935 / 10000, 7790 / 10000, 1235 / 10000⟩ with hv
  have hdot : V3.dot v v = 9743355 / 10000000 := by simp only [hv, dot_def]; norm_num
  have hpos : 0 < V3.length v := (length_pos_iff v).mpr (by rw [hdot]; norm_num)
  have hle : V3.length v ≤ 1 := length_le_one_of_dot (by rw [hdot]; norm_num)
  have hn : sapDir = V3.divs v (V3.length v) := normalize_of_pos hpos
  refine ⟨by unfold sapDir; exact normalize_unit hpos, ?_, ?_⟩
  · rw [hn]
    show 59 / 100 ≤ (5935 / 10000 : ℝ) / V3.length v
    rw [le_div_iff₀ hpos]
    nlinarith
  · rw [hn]
    show 0 ≤ (1235 / 10000 : ℝ) / V3.length v
    positivity

/-- geoms: 0 = plane z = 0 (frame origin at 0, `rbound = 0`), 1 = sphere far above the plane at x = 2e10,
    2 = sphere r = 0.1 at (3e10, 0, 0.05): it penetrates the plane by 0.05. -/
noncomputable def xposW : Int → V3 ℝ := fun g =>
  if g = 0 then ⟨0, 0, 0⟩ else if g = 1 then ⟨2 * 10 ^ 10, 0, 5⟩ else ⟨3 * 10 ^ 10, 0, 5 / 100⟩
noncomputable def rbW : Int → ℝ := fun g => if g = 0 then 0 else 1 / 10

/-- what `_sap_project` writes (`sap_project_spec`), margins and gaps 0; already in sorted order -/
noncomputable def sW (d : V3 ℝ) : Sorted ℝ :=
  ⟨1, 3, fun _ k => projLower d (xposW k) (rbW k) 0 0, fun _ g => projUpper d (xposW g) (rbW g) 0 0, fun _ k => k⟩

/-- **SAP misses a plane contact that NXN finds** (for the code's own direction, `sapDir_props`):
    the keys are sorted, `_plane_filter` accepts (plane, sphere 2) and sphere 2 has a point BELOW the plane
    (a contact for every margin ≥ 0), but the work item (world 0, positions 0, 2) is never enumerated. -/
theorem sap_plane_far_witness (d : V3 ℝ) (hd : V3.dot d d = 1) (hd0 : 59 / 100 ≤ d.c0) (hd2 : 0 ≤ d.c2)
    (nsweep : Int) (hsw : 0 < nsweep) (fuel : Nat) (hfuel : 9 ≤ fuel) :
    Valid (Scalar.gt (K := ℝ)) (sW d) ∧
    _plane_filter (rbW 0) (rbW 2) 0 0 (xposW 0) (xposW 2) M33.identity M33.identity = true ∧
    (∃ p : V3 ℝ, dist3 p (xposW 2) ≤ rbW 2 ∧ V3.dot (V3.sub p (xposW 0)) (zaxis M33.identity) ≤ -(1 / 20)) ∧
    (enumeratedWork Scalar.gt (sW d) nsweep fuel).count ⟨0, 0, 2⟩ = 0 := by
  have hc2 : d.c2 ≤ 1 := by
    rw [dot_def] at hd
    nlinarith [mul_self_nonneg d.c0, mul_self_nonneg d.c1, mul_self_nonneg (d.c2 - 1)]
  -- the three keys and the plane's upper end
  have k0 : projLower d (xposW 0) (rbW 0) 0 0 = -(10 ^ 10) := by
    simp only [projLower, projRadius, xposW, rbW, dot_def, if_true]; norm_num
  have u0 : projUpper d (xposW 0) (rbW 0) 0 0 = 10 ^ 10 := by
    simp only [projUpper, projRadius, xposW, rbW, dot_def, if_true]; norm_num
  have k1 : projLower d (xposW 1) (rbW 1) 0 0 = d.c0 * (2 * 10 ^ 10) + d.c2 * 5 - 1 / 10 := by
    simp only [projLower, projRadius, xposW, rbW, dot_def]; norm_num
  have k2 : projLower d (xposW 2) (rbW 2) 0 0 = d.c0 * (3 * 10 ^ 10) + d.c2 * (5 / 100) - 1 / 10 := by
    simp only [projLower, projRadius, xposW, rbW, dot_def]; norm_num
  have hsorted : ∀ w, 0 ≤ w → w < (sW d).nworld → ∀ a b, 0 ≤ a → a ≤ b → b < (sW d).ngeom →
      (sW d).lower w a ≤ (sW d).lower w b := by
    intro w _ _ a b ha hab hb
    have hb' : b < 3 := hb
    show projLower d (xposW a) (rbW a) 0 0 ≤ projLower d (xposW b) (rbW b) 0 0
    have ea : a = 0 ∨ a = 1 ∨ a = 2 := by omega
    have eb : b = 0 ∨ b = 1 ∨ b = 2 := by omega
    rcases ea with rfl | rfl | rfl <;> rcases eb with rfl | rfl | rfl <;>
      first
        | exact le_refl _
        | omega
        | (rw [k0, k1]; nlinarith)
        | (rw [k0, k2]; nlinarith)
        | (rw [k1, k2]; nlinarith)
  have hv : Valid (Scalar.gt (K := ℝ)) (sW d) :=
    valid_of_sorted (sW d) (by show (0:Int) < 3; norm_num) (by show (0:Int) < 1; norm_num)
      (by show (1:Int) * 3 ≤ 2 ^ 30; norm_num) hsorted
  obtain ⟨hf', hfW⟩ := sap_fuel_enough (sW d) hv fuel (by show ((1:Int) * 3 * 3).toNat ≤ fuel; omega)
  have hf : 3 ≤ fuel := by omega
  refine ⟨hv, ?_, ⟨⟨3 * 10 ^ 10, 0, -(1 / 20)⟩, ?_, ?_⟩, ?_⟩
  · have : rbW 0 = 0 := by simp [rbW]
    rw [this, plane_filter_iff_1]
    simp only [zaxis, M33.identity, xposW, rbW, dot_def, V3.sub, hsub, slit]
    norm_num
  · have hr : rbW 2 = 1 / 10 := by simp [rbW]
    rw [hr]
    apply dist3_le_of_dot _ _ _ (by norm_num)
    simp only [xposW, dot_def, V3.sub, hsub]; norm_num
  · simp only [zaxis, M33.identity, xposW, dot_def, V3.sub, hsub, slit]
    norm_num
  · refine (sap_enumerates_exactly_once (sW d) hv nsweep hsw fuel (by show ((1:Int) * 3).toNat ≤ fuel; omega)
      hfW ⟨0, 0, 2⟩).2 ?_
    rintro ⟨_, _, _, _, h5⟩
    have h5' : (2 : Int) ≤ 0 + range Scalar.gt 3 ((sW d).lower 0) ((sW d).upper 0) ((sW d).sortIndex 0) 0 fuel := h5
    obtain ⟨_, _, r3⟩ := sap_range_spec 3 ((sW d).lower 0) ((sW d).upper 0) ((sW d).sortIndex 0) (by norm_num)
      (hsorted 0 (le_refl _) (by show (0:Int) < 1; norm_num)) 0 (le_refl _) (by norm_num) fuel (by omega)
    have := ((r3 2 (by norm_num)).mp h5').2 1 (by norm_num) (by norm_num)
    have e : (sW d).lower 0 1 ≤ (sW d).upper 0 ((sW d).sortIndex 0 0) ↔
        projLower d (xposW 1) (rbW 1) 0 0 ≤ projUpper d (xposW 0) (rbW 0) 0 0 := Iff.rfl
    rw [e, k1, u0] at this
    nlinarith

/-- the hypotheses of `sap_plane_far_witness` hold for the code's own direction, the code's stride
    `nsweep = 5 · nworld · ngeom = 15` and fuel 9: the conclusion is not vacuous. -/
example : (enumeratedWork Scalar.gt (sW sapDir) 15 9).count ⟨0, 0, 2⟩ = 0 :=
  (sap_plane_far_witness sapDir sapDir_props.1 sapDir_props.2.1 sapDir_props.2.2 15 (by norm_num) 9
    (le_refl _)).2.2.2

end Mjw.Props.C18Witness
