/-
  C31 witnesses: statements of the property that are FALSE of `io.py`, shown on the model `Mjw.IoOrder` (the same inputs
  are replayed on the real code by harness/props/c31.py, trigger `excluded-contact`, and by the stand-alone script in the
  report).

  Scene behind the numbers: plane + sphere A (margin 0.1, gap 0.08) hovering at distance 0.15 (inside margin+gap, outside
  margin: MuJoCo reports the contact with `exclude = 1`, `efc_address = -1`) + sphere B resting on the plane (condim 3,
  pyramidal: 4 rows) + one joint-limit row.  MuJoCo: ncon 2, nefc 5, efc_address [-1, 1].
-/
import MjwVerif.Lemmas.C31

namespace Mjw.Props.C31
open Mjw.IoOrder

/-- the MjData above; efc row payloads 100..104 stand for (type, id, J, pos, …) of rows 0..4 -/
def gapHost : Host String Nat := ⟨[⟨3, -1, "A"⟩, ⟨3, 1, "B"⟩], [100, 101, 102, 103, 104], 0, 0, 1⟩

/-- `put_data` builds what it should: the excluded contact gets an all `-1` address row -/
theorem gap_put : (put true 4 2 6 8 "" 0 gapHost).cons.map (·.adr) =
    [[-1, -1, -1, -1], [1, 2, 3, 4], [-1, -1, -1, -1], [1, 2, 3, 4], [-1, -1, -1, -1], [-1, -1, -1, -1]] := by decide

/-- **excluded_contact_roundtrip_witness**: `get_data_into` then uses the `-1`s as row indices: the exported efc rows are
    row 0, then four times the zero row njmax-1 (for J: row nefc-1), contact B's rows 1..4 are lost, and contact A gets
    efc_address 1, contact B 5 (= nefc, out of range) instead of -1 and 1 — for every world. -/
theorem excluded_contact_roundtrip_witness :
    get true 8 (put true 4 2 6 8 "" 0 gapHost) 1
      = some ⟨[⟨3, 1, "A"⟩, ⟨3, 5, "B"⟩], [100, 0, 0, 0, 0], [100, 104, 104, 104, 104], 0, 0, 1⟩ ∧
    get true 8 (put true 4 2 6 8 "" 0 gapHost) 1 ≠ some gapHost.got := by decide

/-- the hypothesis of `roundtrip` that fails: the contact blocks are not contiguous from ne+nf+nl -/
theorem gapHost_not_WF : ¬ gapHost.WF true 8 := by
  intro h
  exact absurd h.contig.1 (by decide)

/-- the same index computation on the device state `mjw.forward` itself produces for that scene (inactive contact:
    `_efc_contact_init` returns early, `write_contact` had filled the row with -1): same garbage -/
theorem inactive_contact_after_forward_witness :
    get true 8 (⟨[⟨0, 3, [-1, -1, -1, -1], "A"⟩, ⟨0, 3, [1, 2, 3, 4], "B"⟩], 2, fun _ => [100, 101, 102, 103, 104, 0, 0, 0],
                 fun _ => 5, fun _ => 0, fun _ => 0, fun _ => 1⟩ : Dev String Nat) 0
      = some ⟨[⟨3, 1, "A"⟩, ⟨3, 5, "B"⟩], [100, 0, 0, 0, 0], [100, 104, 104, 104, 104], 0, 0, 1⟩ := by decide

end Mjw.Props.C31
