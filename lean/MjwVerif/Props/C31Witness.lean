/-
  C31 witnesses: statements of the property that are STILL FALSE of `io.py:get_data_into`, shown on the model `Mjw.IoOrder`
  (the same situations are produced on the real code by harness/props/c31.py, triggers `efc-id-not-remapped` and
  `extra-contacts-exported`).  The witnesses of the excluded-contact defect were deleted when it was repaired (e4120b4).

  Payloads are concrete here: a contact slot carries its `ContactType` bits (1 = CONSTRAINT, 2 = SENSOR), an efc row carries
  (efc_type, efc_id); 6 = mjCNSTR_CONTACT_PYRAMIDAL.
-/
import MjwVerif.Lemmas.C31

namespace Mjw.Props.C31
open Mjw.IoOrder

/-- device state of `make_data(nworld = 2)` + `mjw.forward` for: plane, sphere `a` hovering, sphere `b` resting on the plane,
    `<distance geom1="a" geom2="b">` sensor.  Slots: world 0 = {0: plane-b contact, 1: a-b sensor pair}, world 1 = {2, 3}.
    `_efc_contact_init` stores the SLOT number in efc.id. -/
def sensDev : Dev Nat (Nat × Nat) :=
  ⟨[⟨0, 3, [0, 1, 2, 3], 1⟩, ⟨0, 3, [-1, -1, -1, -1], 2⟩, ⟨1, 3, [0, 1, 2, 3], 1⟩, ⟨1, 3, [-1, -1, -1, -1], 2⟩], 4,
   fun w => if w = 0 then [(6, 0), (6, 0), (6, 0), (6, 0), (0, 0), (0, 0)] else [(6, 2), (6, 2), (6, 2), (6, 2), (0, 0), (0, 0)],
   fun _ => 4, fun _ => 0, fun _ => 0, fun _ => 0⟩

/-- **efc_id_not_remapped_witness**: world 1's export has its plane-b contact at index 0 of the exported contact list
    (efc_address 0), but the rows at that address carry efc_id 2 (the device slot), which does not index the exported list of
    2 contacts.  MuJoCo's invariant `efc_id[contact[i].efc_address + k] = i` fails. -/
theorem efc_id_not_remapped_witness :
    get true 6 sensDev 1 = some ⟨[⟨3, 0, 1⟩, ⟨3, -1, 2⟩], [(6, 2), (6, 2), (6, 2), (6, 2)], [(6, 2), (6, 2), (6, 2), (6, 2)], 0, 0, 0⟩ := by
  decide

/-- **sensor_only_contact_exported_witness**: the export lists 2 contacts although only one slot has the CONSTRAINT bit
    (MuJoCo's MjData has ncon = 1 for this scene): the selection looks at `worldid` only (`mem_sel`). -/
theorem sensor_only_contact_exported_witness :
    (getCons true sensDev 0).length = 2 ∧ ((sel sensDev 0).filter (fun c => c.pay % 2 == 1)).length = 1 := by decide

end Mjw.Props.C31
