/-
  C08  Time integration agrees with MuJoCo C.     (C08_partial: see "What is missing")

  What is proved
  Kernel level (theorems about `Mjw.Gen.Forward.*`, regenerated from /repo/mujoco_warp/_src/forward.py on
  every run): exact write lists of `_next_velocity`, `_next_position`, `_next_activation` (all dynamics
  except DCMOTOR), `_next_time` (time part), `_rk_accumulate_*`, `_euler_damp_qfrc`,
  `_compute_damping_deriv`; over ℝ the written values are MuJoCo C's `mj_integratePos`, `qvel += dt*qacc`,
  `time += dt` (`Spec/Integrate.lean`), the written free/ball quaternion is unit.
  RK4 stage activations (`rk_stage_activation_spec`, `rk_stage_activation_eq`): the activation launch of
  `_rk_perturb_state` is the kernel `_next_velocity` applied to `(act_t0, act_dot, scale)`; what it stores is
  `act_t0 + scale·act_dot·dt`, over ℝ exactly `Spec.rkStage`'s `X0.act + h·a·F.actdot` — for EVERY dynamics
  type (the kernel does not even receive the dynamics type), with no hypothesis.
  Host level (`Spec/Integrate.lean` transcribes `_advance`, `rungekutta4`, `_rk_perturb_state`): for an
  arbitrary abstract `forward`, the accumulators of `rungekutta4` are `Σ B_i k_i` of the classical RK4 slopes
  (`rk4_eq_tableau`) and the whole step is `mj_RungeKutta(4)` (`rk4_step_eq`).  The hypotheses `hpos`, `hvel`
  of `RkHyps` are what the kernel theorems give (`hvel` is discharged from the generated kernel by
  `kernelVel_eq` / `rkHyps_of_kernel`); there is NO hypothesis on the stage activations any more.
  The transcription is tied to the code by `rk_perturb_launches` / `rk4_act_writers` (kernel `decide` over the
  host events of `step()` regenerated into `Gen/Host.lean`): the launches of `_rk_perturb_state` are
  `_next_position` (qpos_t0, d.qvel → d.qpos), `_next_velocity` (qvel_t0, d.qacc → d.qvel) and, under
  `m.na and act_t0 is not None`, `_next_velocity` (act_t0, d.act_dot → d.act); inside the RK4 branch `d.act`
  is written by exactly that launch (in the loop), the restoring copy from `act_t0`, and `_advance`'s
  `_next_activation` — launching `_next_activation` for the stages again breaks both proofs.

  Defects found by this check and since REPAIRED in /repo (the statements that used to fail are now proved):
  * a57be8a "fix: RK4 intermediate stages advanced activations with the exact filter/motor integrators":
    `_rk_perturb_state` called `_next_activation` (exact-filter formula for FILTEREXACT; DCMOTOR ignores
    `act_dot_scale`), which forced a hypothesis `hact` on `rk4_eq_tableau` that was false for
    FILTEREXACT/USER/DCMOTOR (former witnesses W2, W3).  Hypothesis and witnesses are gone.
  * 28a04d7 "fix: implicit integrator subtracted the RNE velocity derivative instead of adding it":
    `implicit()` now calls `derivative.deriv_rne_vel(m, d, d.qLU)` (default `flg_subtract=False`).  Kernel level:
    `rne_vel_body2jnt_adds` (with the flag false the kernel ADDS `dt·cdof_i·Dcfrcbody` to `qDeriv_out`).  The VALUE of
    the flag at the call site is pinned by `implicit_rne_flag`: the host extractor (`harness/translate/hostgraph.py`)
    emits, besides the events, the ORDERED launch arguments (`Gen.Host.forward_step_args`: literal scalars as `const:v`,
    statically known host parameters as `name=v`), and the only launch of `deriv_rne_body2jnt_sparse` carries
    `flg_subtract=False`.  The oracle (harness/props/c08.py, c27.py) additionally compares a full implicit step with
    mj_step and `M − h·qDeriv` with finite differences.
  * 062cee5 "fix: plane-capsule contact frame ignored the capsule axis when it is within 30 degrees of the
    plane normal": found by the lock-step oracle of this property (collision code, not modelled here).

  What is assumed / still NOT equal to MuJoCo C (witnesses in `Props/C08Witness.lean`):
  * RK4 stage time: C evaluates stage i at `time + c_i h`; `rungekutta4` never changes `d.time` inside the
    loop (hypothesis `htime`; matters for delayed actuators/sensors, which read `d.time`; witness W4).
  * a zero quaternion in qpos: Warp's `normalize(0) = (0,0,0,1)`, C's `mju_normalize4(0) = (1,0,0,0)`;
    agreement of `_next_position` with `mj_integratePos` therefore carries the guards of
    `next_position_agrees_C` (witness W1).

  What is missing (C08_partial): `forward` is abstract (C01–C06); the final activation kernel of `_advance`
  is `mj_nextActivation` by hypothesis `hactL` (C03 `next_act`); implicit/implicitfast are covered at the
  `_advance` level plus the sign of the RNE term at kernel level; argument positions and scalar inputs of the stage launches and the
  RNE sign flag are pinned through the ordered-argument side table (`rk_stage_launch_args`, `implicit_rne_flag`); a scalar
  that is computed at run time (the tableau entries `A[i]`) is pinned by name only.
-/
import MjwVerif.Lemmas.Real
import MjwVerif.Lemmas.C08
import MjwVerif.Spec.Integrate
import MjwVerif.Gen.Forward
import MjwVerif.Gen.Derivative
import MjwVerif.Gen.Host
import MjwVerif.Props.C23

namespace Mjw.Props.C08
open Mjw Mjw.Spec.Integrate Mjw.Lemmas.C08

/-! ## 1. `_next_velocity` -/

/-- (1) **next_velocity_spec**: a `_next_velocity` task `(w, i)` performs exactly one write, to its own
    cell: `qvel_out[w, i] := qvel_in[w,i] + qacc_scale * qacc_in[w,i] * timestep[w % n]`  (every `K`). -/
theorem next_velocity_spec {K : Type} [Scalar K] (ts : Int → K) (qvel qacc : Int → Int → K) (s : K)
    (qvel_out : Int → Int → K) (n w i : Int) :
    Gen.Forward._next_velocity ts qvel qacc s qvel_out n w i
      = [Write.mk "qvel_out" [w, i] (WVal.f (qvel w i + (s * qacc w i) * ts (Int.tmod w n))) WKind.set] := rfl

/-- (1') over ℝ with `qacc_scale = 1` (as `_advance` launches it) the value is C's `qvel += dt * qacc` -/
theorem next_velocity_eq_euler (ts : Int → ℝ) (qvel qacc : Int → Int → ℝ) (qvel_out : Int → Int → ℝ) (n w i : Int) :
    Gen.Forward._next_velocity ts qvel qacc 1 qvel_out n w i
      = [Write.mk "qvel_out" [w, i] (WVal.f (eulerVel (qvel w i) (qacc w i) (ts (Int.tmod w n)))) WKind.set] := by
  rw [next_velocity_spec]
  simp only [eulerVel, hadd, hmul]
  congr 3; ring

/-! ## 2. `_next_position` -/

/-- new contents of the cells `qpos[a], qpos[a+1], …` of one joint, as the kernel computes them
    (7 cells for FREE = 0, 4 for BALL = 1, 1 for every other type) -/
def kernelCells {K : Type} [Scalar K] (jt a d : Int) (qpos qvel : Int → K) (s dt : K) : List K :=
  if jt = 0 then
    let q := Gen.Math.quat_integrate (⟨qpos (a + 3), qpos (a + 4), qpos (a + 5), qpos (a + 6)⟩ : Q K)
      ⟨qvel (d + 3) * s, qvel (d + 4) * s, qvel (d + 5) * s⟩ dt
    [qpos a + dt * (qvel d * s), qpos (a + 1) + dt * (qvel (d + 1) * s), qpos (a + 2) + dt * (qvel (d + 2) * s),
     q.c0, q.c1, q.c2, q.c3]
  else if jt = 1 then
    let q := Gen.Math.quat_integrate (⟨qpos a, qpos (a + 1), qpos (a + 2), qpos (a + 3)⟩ : Q K)
      ⟨qvel d * s, qvel (d + 1) * s, qvel (d + 2) * s⟩ dt
    [q.c0, q.c1, q.c2, q.c3]
  else [qpos a + dt * qvel d * s]

/-- (2a) **next_position_writes** (every `K`): a `_next_position` task `(w, j)` stores `kernelCells`
    into consecutive cells of ITS OWN world's row, starting at the joint's `jnt_qposadr`. -/
theorem next_position_writes {K : Type} [Scalar K] (ts : Int → K) (jt ja jd : Int → Int) (qpos qvel : Int → Int → K)
    (s : K) (qpos_out : Int → Int → K) (n w j : Int) :
    Gen.Forward._next_position ts jt ja jd qpos qvel s qpos_out n w j
      = cellsAt "qpos_out" w (ja j) (kernelCells (jt j) (ja j) (jd j) (qpos w) (qvel w) s (ts (Int.tmod w n))) := by
  unfold Gen.Forward._next_position kernelCells
  by_cases h0 : jt j = 0
  · simp [h0, cellsAt, V3.muls, V3.add, V3.smul, Int.add_assoc]
  · by_cases h1 : jt j = 1
    · simp [h1, cellsAt, V3.muls, Int.add_assoc]
    · simp [h0, h1, cellsAt]

theorem mem_cellsAt {K : Type} {arr : String} {w a : Int} {xs : List K} {x : Write K}
    (h : x ∈ cellsAt arr w a xs) :
    x.arr = arr ∧ x.kind = WKind.set ∧ ∃ k : Int, 0 ≤ k ∧ k < xs.length ∧ x.idx = [w, a + k] := by
  induction xs generalizing a with
  | nil => simp [cellsAt] at h
  | cons y ys ih =>
    simp only [cellsAt, List.mem_cons] at h
    rcases h with rfl | h
    · exact ⟨rfl, rfl, 0, le_refl _, by simp, by simp⟩
    · obtain ⟨h1, h2, k, h3, h4, h5⟩ := ih h
      refine ⟨h1, h2, k + 1, by omega, by simp only [List.length_cons]; push_cast; omega, ?_⟩
      rw [h5]; congr 2; omega

theorem kernelCells_length {K : Type} [Scalar K] (jt a d : Int) (qpos qvel : Int → K) (s dt : K) :
    (kernelCells jt a d qpos qvel s dt).length = if jt = 0 then 7 else if jt = 1 then 4 else 1 := by
  unfold kernelCells; split
  · rfl
  · split <;> rfl

/-- (2b) **own row, own cells**: every write of a `_next_position` task `(w, j)` is a plain store into
    `qpos_out[w, jnt_qposadr[j] + k]` with `0 ≤ k < 7` (FREE), `< 4` (BALL), `< 1` (slide/hinge). -/
theorem next_position_own_row {K : Type} [Scalar K] (ts : Int → K) (jt ja jd : Int → Int) (qpos qvel : Int → Int → K)
    (s : K) (qpos_out : Int → Int → K) (n w j : Int) :
    ∀ x ∈ Gen.Forward._next_position ts jt ja jd qpos qvel s qpos_out n w j,
      x.arr = "qpos_out" ∧ x.kind = WKind.set ∧
        ∃ k : Int, 0 ≤ k ∧ k < (if jt j = 0 then 7 else if jt j = 1 then 4 else 1) ∧ x.idx = [w, ja j + k] := by
  intro x hx
  rw [next_position_writes] at hx
  obtain ⟨h1, h2, k, h3, h4, h5⟩ := mem_cellsAt hx
  refine ⟨h1, h2, k, h3, ?_, h5⟩
  rw [kernelCells_length] at h4
  split at h4
  · rename_i h; rw [if_pos h]; exact_mod_cast h4
  · rename_i h; rw [if_neg h]
    split at h4
    · rename_i h'; rw [if_pos h']; exact_mod_cast h4
    · rename_i h'; rw [if_neg h']; exact_mod_cast h4

/-- (2) **next_position_spec** (over ℝ), per joint type (FREE = 0, BALL = 1, SLIDE = 2, HINGE = 3):
    * FREE: 3 position cells `qpos + dt*(qvel_lin*scale)`, then the 4 cells of
      `quat_integrate(q, ω*scale, dt)`;
    * BALL: the 4 cells of `quat_integrate(q, ω*scale, dt)`;
    * otherwise: the single cell `qpos + dt*qvel*scale`;
    all stored into the own world's row from `jnt_qposadr[j]` on; and **the written quaternion is unit**
    for every input quaternion (zero, unnormalised), every velocity, scale and timestep. -/
theorem next_position_spec (ts : Int → ℝ) (jt ja jd : Int → Int) (qpos qvel : Int → Int → ℝ) (s : ℝ)
    (qpos_out : Int → Int → ℝ) (n w j : Int) :
    let dt := ts (Int.tmod w n)
    let a := ja j
    let d := jd j
    (jt j = 0 →
      let q := Gen.Math.quat_integrate (⟨qpos w (a + 3), qpos w (a + 4), qpos w (a + 5), qpos w (a + 6)⟩ : Q ℝ)
        ⟨qvel w (d + 3) * s, qvel w (d + 4) * s, qvel w (d + 5) * s⟩ dt
      Gen.Forward._next_position ts jt ja jd qpos qvel s qpos_out n w j
        = cellsAt "qpos_out" w a
            [qpos w a + dt * (qvel w d * s), qpos w (a + 1) + dt * (qvel w (d + 1) * s),
             qpos w (a + 2) + dt * (qvel w (d + 2) * s), q.c0, q.c1, q.c2, q.c3]
      ∧ q.c0 * q.c0 + q.c1 * q.c1 + q.c2 * q.c2 + q.c3 * q.c3 = 1) ∧
    (jt j = 1 →
      let q := Gen.Math.quat_integrate (⟨qpos w a, qpos w (a + 1), qpos w (a + 2), qpos w (a + 3)⟩ : Q ℝ)
        ⟨qvel w d * s, qvel w (d + 1) * s, qvel w (d + 2) * s⟩ dt
      Gen.Forward._next_position ts jt ja jd qpos qvel s qpos_out n w j
        = cellsAt "qpos_out" w a [q.c0, q.c1, q.c2, q.c3]
      ∧ q.c0 * q.c0 + q.c1 * q.c1 + q.c2 * q.c2 + q.c3 * q.c3 = 1) ∧
    (jt j ≠ 0 → jt j ≠ 1 →
      Gen.Forward._next_position ts jt ja jd qpos qvel s qpos_out n w j
        = cellsAt "qpos_out" w a [qpos w a + dt * qvel w d * s]) := by
  intro dt a d
  refine ⟨fun h => ?_, fun h => ?_, fun h0 h1 => ?_⟩
  · refine ⟨?_, C23.quat_integrate_unit _ _ _⟩
    rw [next_position_writes]; simp only [kernelCells, h, if_true]; rfl
  · refine ⟨?_, C23.quat_integrate_unit _ _ _⟩
    rw [next_position_writes]
    have h0 : ¬ jt j = 0 := by rw [h]; decide
    simp only [kernelCells, h, if_true]; rfl
  · rw [next_position_writes]; simp only [kernelCells, h0, h1, if_false]; rfl

/-- (2c) **next_position_agrees_C**: over ℝ, with `qvel_scale = 1` (as `_advance` launches it) and a valid
    joint type, the kernel stores exactly what `mj_integratePos` stores for this joint, provided the
    quaternion joints meet the guards under which Warp's and C's normalisations coincide:
    `mjMINVAL ≤ |q|`, `|q| = 1 ∨ mjMINVAL < ||q| − 1|`, `ω = 0 ∨ mjMINVAL ≤ |ω|`.
    (Outside the guards they differ: `C08Witness.next_position_zero_quat_witness`.) -/
theorem next_position_agrees_C (ts : Int → ℝ) (jt ja jd : Int → Int) (qpos qvel : Int → Int → ℝ)
    (qpos_out : Int → Int → ℝ) (n w j : Int) (hjt : 0 ≤ jt j ∧ jt j ≤ 3)
    (hfree : jt j = 0 →
      let q : Q ℝ := ⟨qpos w (ja j + 3), qpos w (ja j + 4), qpos w (ja j + 5), qpos w (ja j + 6)⟩
      let v : V3 ℝ := ⟨qvel w (jd j + 3), qvel w (jd j + 4), qvel w (jd j + 5)⟩
      (minval : ℝ) ≤ qlen q ∧ (qlen q = 1 ∨ (minval : ℝ) < |qlen q - 1|) ∧ (vlen v = 0 ∨ (minval : ℝ) ≤ vlen v))
    (hball : jt j = 1 →
      let q : Q ℝ := ⟨qpos w (ja j), qpos w (ja j + 1), qpos w (ja j + 2), qpos w (ja j + 3)⟩
      let v : V3 ℝ := ⟨qvel w (jd j), qvel w (jd j + 1), qvel w (jd j + 2)⟩
      (minval : ℝ) ≤ qlen q ∧ (qlen q = 1 ∨ (minval : ℝ) < |qlen q - 1|) ∧ (vlen v = 0 ∨ (minval : ℝ) ≤ vlen v)) :
    Gen.Forward._next_position ts jt ja jd qpos qvel 1 qpos_out n w j
      = cellsAt "qpos_out" w (ja j)
          (integratePosJoint (jt j) (ja j) (jd j) (qpos w) (qvel w) (ts (Int.tmod w n))) := by
  rw [next_position_writes]
  congr 1
  by_cases h0 : jt j = 0
  · obtain ⟨g1, g2, g3⟩ := hfree h0
    simp only [kernelCells, integratePosJoint, FREE, h0, if_true, mul_one]
    rw [quat_integrate_eq_C _ _ _ g1 g2 g3]
  · by_cases h1 : jt j = 1
    · obtain ⟨g1, g2, g3⟩ := hball h1
      simp only [kernelCells, integratePosJoint, FREE, BALL, h1, if_true, mul_one, (by decide : ¬ (1:Int) = 0), if_false]
      rw [quat_integrate_eq_C _ _ _ g1 g2 g3]
    · have h23 : jt j = 2 ∨ jt j = 3 := by omega
      simp only [kernelCells, integratePosJoint, FREE, BALL, SLIDE, HINGE, h0, h1, h23, if_false, if_true, mul_one]

/-- (2d) **next_position_scale** (ℝ): launching `_next_position` with `qvel_scale = s` (as `_rk_perturb_state`
    does with `s = A_i`) is launching it with scale 1 on the velocity `s·qvel` — the form `intPos q (a·v) h`
    of `RkHyps.hpos`, i.e. C's `mj_integratePos(X0.qpos, dX = A_i F.vel, h)`. -/
theorem next_position_scale (jt a d : Int) (qpos qvel : Int → ℝ) (s dt : ℝ) :
    kernelCells jt a d qpos qvel s dt = kernelCells jt a d qpos (fun i => s * qvel i) 1 dt := by
  unfold kernelCells
  have e : ∀ x : ℝ, s * x * 1 = x * s := fun x => by ring
  simp only [e]
  split
  · rfl
  · split
    · rfl
    · congr 1; ring

/-! ## 3. `_next_time` -/

/-- (3) **next_time_spec** (time part, every `K`): the first write of a `_next_time` task `w` is
    `time_out[w] := time_in[w] + timestep[w % n]`; everything else it writes goes to `overflow_out[w]`. -/
theorem next_time_spec {K : Type} [Scalar K] (ts : Int → K) (sp : Bool) (nefc : Int → Int) (time_in : Int → K)
    (rownnz rowadr : Int → Int → Int) (nworld naconmax njmax njmax_nnz : Int) (nacon ncollision : Int → Int)
    (time_out : Int → K) (overflow_out : Int → Int) (n : Int) (warn : Bool) (w : Int) :
    ∃ rest, Gen.Forward._next_time_builder___next_time ts sp nefc time_in rownnz rowadr nworld naconmax njmax njmax_nnz
        nacon ncollision time_out overflow_out n warn w
      = Write.mk "time_out" [w] (WVal.f (time_in w + ts (Int.tmod w n))) WKind.set :: rest
      ∧ ∀ x ∈ rest, x.arr = "overflow_out" ∧ x.idx = [w] ∧ x.kind = WKind.set := by
  unfold Gen.Forward._next_time_builder___next_time
  simp only [List.nil_append]
  split_ifs <;> exact ⟨_, rfl, by simp⟩

/-- (3') with no overflow condition raised the time store is the only write -/
theorem next_time_only_time {K : Type} [Scalar K] (ts : Int → K) (sp : Bool) (nefc : Int → Int) (time_in : Int → K)
    (rownnz rowadr : Int → Int → Int) (nworld naconmax njmax njmax_nnz : Int) (nacon ncollision : Int → Int)
    (time_out : Int → K) (overflow_out : Int → Int) (n : Int) (warn : Bool) (w : Int)
    (h1 : nefc w ≤ 0) (h2 : ncollision 0 ≤ naconmax) (h3 : nacon 0 ≤ naconmax) (h4 : 0 ≤ njmax) :
    Gen.Forward._next_time_builder___next_time ts sp nefc time_in rownnz rowadr nworld naconmax njmax njmax_nnz
        nacon ncollision time_out overflow_out n warn w
      = [Write.mk "time_out" [w] (WVal.f (time_in w + ts (Int.tmod w n))) WKind.set] := by
  unfold Gen.Forward._next_time_builder___next_time
  have a1 : ¬ nefc w > njmax := by omega
  have a2 : ¬ nefc w > 0 := by omega
  have a3 : ¬ ncollision 0 > naconmax := by omega
  have a4 : ¬ nacon 0 > naconmax := by omega
  simp [a1, a2, a3, a4]

/-! ## `_next_activation` (all dynamics types except DCMOTOR = 5) -/

/-- **next_activation_spec** (every `K`): for an actuator `u` whose dynamics type is not DCMOTOR, a
    `_next_activation` task `(w, u)` stores, for each of its activation variables
    `j ∈ [actadr[u], actadr[u] + actnum[u])`, `act_out[w, j] := next_act(dt, dyntype, dynprm, actrange,
    act_in[w, j], act_dot_in[w, j], act_dot_scale, limit ∧ actlimited[u])` — it reads only PRE-launch
    contents (the in-thread read of `act_out[w, j]` sees no earlier own write).  The meaning of `next_act`
    is in `Props/C03.lean`. -/
theorem next_activation_spec {K : Type} [Scalar K] (ts : Int → K) (dyntype actadr actnum : Int → Int)
    (dynprm gainprm biasprm : Int → Int → V10 K) (actlimited : Int → Bool) (actrange : Int → Int → V2 K)
    (act_in act_dot_in actuator_velocity_in : Int → Int → K) (scale : K) (limit : Bool) (act_out : Int → Int → K)
    (n0 n1 n2 n3 n4 : Int) (w u : Int) (h : dyntype u ≠ 5) :
    Gen.Forward._next_activation ts dyntype actadr actnum dynprm gainprm biasprm actlimited actrange act_in act_dot_in
        actuator_velocity_in scale limit act_out n0 n1 n2 n3 n4 w u
      = rangeL (actadr u) (actadr u + actnum u) (fun j =>
          (Write.mk "act_out" [w, j] (WVal.f (Gen.Support.next_act (ts (Int.tmod w n0)) (dyntype u)
            (dynprm (Int.tmod w n1) u) (actrange (Int.tmod w n2) u) (act_in w j) (act_dot_in w j) scale
            (limit && actlimited u))) WKind.set : Write K)) := by
  unfold Gen.Forward._next_activation
  simp only [h, decide_false, Bool.false_eq_true, if_false]
  exact forRange_lookup "act_out" w (actadr u) (actadr u + actnum u) (act_in w)
    (fun j x => Gen.Support.next_act (ts (Int.tmod w n0)) (dyntype u)
            (dynprm (Int.tmod w n1) u) (actrange (Int.tmod w n2) u) x (act_dot_in w j) scale
            (limit && actlimited u))

/-- **next_activation_dcmotor_ignores_scale** (every `K`): for a DCMOTOR actuator the writes of
    `_next_activation` do not depend on `act_dot_scale` nor on `limit`.  Harmless for the integrators since
    fix a57be8a: the only remaining call site is `_advance` (scale 1; see `rk4_act_writers`), the RK4 stages
    launch `_next_velocity` on the activations instead (`rk_stage_activation_spec`). -/
theorem next_activation_dcmotor_ignores_scale {K : Type} [Scalar K] (ts : Int → K) (dyntype actadr actnum : Int → Int)
    (dynprm gainprm biasprm : Int → Int → V10 K) (actlimited : Int → Bool) (actrange : Int → Int → V2 K)
    (act_in act_dot_in actuator_velocity_in : Int → Int → K) (s1 s2 : K) (l1 l2 : Bool) (act_out : Int → Int → K)
    (n0 n1 n2 n3 n4 : Int) (w u : Int) (h : dyntype u = 5) :
    Gen.Forward._next_activation ts dyntype actadr actnum dynprm gainprm biasprm actlimited actrange act_in act_dot_in
        actuator_velocity_in s1 l1 act_out n0 n1 n2 n3 n4 w u
    = Gen.Forward._next_activation ts dyntype actadr actnum dynprm gainprm biasprm actlimited actrange act_in act_dot_in
        actuator_velocity_in s2 l2 act_out n0 n1 n2 n3 n4 w u := by
  unfold Gen.Forward._next_activation
  simp only [h, decide_true, if_true]

/-! ## 4. Runge-Kutta 4 -/

/-- (4a) **rk_accumulate_velocity_acceleration_spec** (every `K`): exactly two writes,
    `qvel_out[w,i] := qvel_out[w,i] + scale*qvel_in[w,i]` and `qacc_out[w,i] := qacc_out[w,i] + scale*qacc_in[w,i]`
    (right-hand sides: pre-launch contents). -/
theorem rk_accumulate_velocity_acceleration_spec {K : Type} [Scalar K] (qvel_in qacc_in : Int → Int → K) (scale : K)
    (qvel_out qacc_out : Int → Int → K) (w i : Int) :
    Gen.Forward._rk_accumulate_velocity_acceleration qvel_in qacc_in scale qvel_out qacc_out w i
      = [Write.mk "qvel_out" [w, i] (WVal.f (qvel_out w i + scale * qvel_in w i)) WKind.set,
         Write.mk "qacc_out" [w, i] (WVal.f (qacc_out w i + scale * qacc_in w i)) WKind.set] := by
  unfold Gen.Forward._rk_accumulate_velocity_acceleration
  simp [Write.lookupF]

/-- (4b) **rk_accumulate_activation_velocity_spec** (every `K`): exactly one write,
    `act_dot_out[w,i] := act_dot_out[w,i] + scale*act_dot_in[w,i]`. -/
theorem rk_accumulate_activation_velocity_spec {K : Type} [Scalar K] (act_dot_in : Int → Int → K) (scale : K)
    (act_dot_out : Int → Int → K) (w i : Int) :
    Gen.Forward._rk_accumulate_activation_velocity act_dot_in scale act_dot_out w i
      = [Write.mk "act_dot_out" [w, i] (WVal.f (act_dot_out w i + scale * act_dot_in w i)) WKind.set] := by
  unfold Gen.Forward._rk_accumulate_activation_velocity
  simp [Write.lookupF]

/-- (4c) **rk_stage_activation_spec** (every `K`): the activation launch of `_rk_perturb_state`,
    `wp.launch(_next_velocity, dim=(nworld, na), inputs=[timestep, act_t0, d.act_dot, scale], outputs=[d.act])`,
    performs for task `(w, i)` exactly one write, to its own cell (`qvel_out` is the kernel's formal output,
    bound to `d.act` by this launch): `act[w, i] := act_t0[w, i] + scale * act_dot[w, i] * timestep[w % n]`.
    No dynamics type, no dynamics parameter, no activation range enters. -/
theorem rk_stage_activation_spec {K : Type} [Scalar K] (ts : Int → K) (act_t0 act_dot : Int → Int → K) (scale : K)
    (act_out : Int → Int → K) (n w i : Int) :
    Gen.Forward._next_velocity ts act_t0 act_dot scale act_out n w i
      = [Write.mk "qvel_out" [w, i] (WVal.f (act_t0 w i + (scale * act_dot w i) * ts (Int.tmod w n))) WKind.set] := rfl

/-- (4d) **rk_stage_activation_eq** (ℝ, full strength, no hypothesis): the value stored by that launch is the
    activation of MuJoCo C's stage state `Spec.rkStage` = `X0.act + h·a·F.actdot` (`mj_RungeKutta`:
    `X[i].act = X[0].act + h * dX.act`), whatever the other components of `X0`, `F`, the stage time
    coefficient `c` and the per-model primitives `P` are — hence for EVERY dynamics type. -/
theorem rk_stage_activation_eq (P : Prims ℝ) (ts : Int → ℝ) (act_t0 act_dot : Int → Int → ℝ) (a c : ℝ)
    (act_out : Int → Int → ℝ) (n w i : Int) (qpos qvel vel acc : Int → ℝ) (t : ℝ) :
    Gen.Forward._next_velocity ts act_t0 act_dot a act_out n w i
      = [Write.mk "qvel_out" [w, i]
          (WVal.f ((rkStage P (ts (Int.tmod w n)) ⟨qpos, qvel, act_t0 w, t⟩ a c ⟨vel, acc, act_dot w⟩).act i)) WKind.set] := by
  rw [rk_stage_activation_spec]
  simp only [rkStage, hadd, hmul]
  congr 3; ring

/-- the function of `(in, slope, scale, dt)` that one launch of `_next_velocity` computes on one world's row, read
    off the write list of the GENERATED kernel (world 0, unbatched timestep) -/
noncomputable def kernelVel (v acc : Int → ℝ) (a h : ℝ) (i : Int) : ℝ :=
  Write.lookupF (Gen.Forward._next_velocity (fun _ => h) (fun _ => v) (fun _ => acc) a (fun _ _ => 0) 1 0 i)
    "qvel_out" [0, i] 0

/-- (4e) **kernelVel_eq**: `RkHyps.hvel` — and with it the stage activations — holds of the generated kernel. -/
theorem kernelVel_eq (v acc : Int → ℝ) (a h : ℝ) (i : Int) : kernelVel v acc a h i = v i + h * (a * acc i) := by
  unfold kernelVel
  rw [next_velocity_spec]
  simp only [Write.lookupF, List.foldl_cons, List.foldl_nil, beq_self_eq_true, Bool.and_self, if_true, hadd, hmul]
  ring

section rk4
variable (P : Prims ℝ) (H : HostPrims ℝ) (forward : State ℝ → Deriv ℝ) (dt : ℝ) (d0 : HostData ℝ)

/-- the state saved by `rungekutta4` in `qpos_t0, qvel_t0, act_t0` -/
def t0 (d0 : HostData ℝ) : State ℝ := ⟨d0.qpos, d0.qvel, d0.act, d0.time⟩

/-- Hypotheses tying the host model to the classical scheme.  `hpos`/`hvel` are what
    `next_position_spec`/`next_velocity_spec` give for the kernels (`kernelCells` multiplies the velocity by the
    scale before integrating; `qvel + scale*qacc*dt`; `hvel` is `kernelVel_eq` for the generated kernel);
    `hvelF`: the first block of `F` is the velocity of the state;
    `htime`: `forward` does not read `time` (the host loop does not advance it between stages);
    `hinit`: `forward` has been called on entry.
    There is no hypothesis on the stage activations: `_rk_perturb_state` launches `_next_velocity` on them
    (`hostPerturb`, `rk_perturb_launches`), so `hvel` covers them for every dynamics type.  (Before fix a57be8a
    a field `hact : kAct act ad a false h i = act i + h*(a*ad i)` was needed, false for FILTEREXACT/USER/DCMOTOR.) -/
structure RkHyps : Prop where
  hpos : ∀ q v a h, H.kPos q v a h = P.intPos q (fun i => a * v i) h
  hvel : ∀ v acc a h i, H.kVel v acc a h i = v i + h * (a * acc i)
  hvelF : ∀ s, (forward s).vel = s.qvel
  htime : ∀ s t, forward { s with time := t } = forward s
  hinit : d0.qacc = (forward (t0 d0)).acc ∧ d0.act_dot = (forward (t0 d0)).actdot

variable {P H forward dt d0}

/-- one loop iteration turns "d holds slope k at some stage" into "d holds the next slope" -/
theorem hostIter_fst (hy : RkHyps P H forward d0) (a b : ℝ) (d : HostData ℝ) (r : Acc ℝ) (k : Deriv ℝ)
    (hk : k = ⟨d.qvel, d.qacc, d.act_dot⟩) :
    let k' := forward (rkStage P dt (t0 d0) a a k)
    (hostIter H forward dt (t0 d0) a b (d, r)).1.qvel = k'.vel ∧
    (hostIter H forward dt (t0 d0) a b (d, r)).1.qacc = k'.acc ∧
    (hostIter H forward dt (t0 d0) a b (d, r)).1.act_dot = k'.actdot ∧
    (hostIter H forward dt (t0 d0) a b (d, r)).1.time = d.time ∧
    (hostIter H forward dt (t0 d0) a b (d, r)).2 =
      ⟨fun i => r.vel i + b * k'.vel i, fun i => r.acc i + b * k'.acc i, fun i => r.actdot i + b * k'.actdot i⟩ := by
  intro k'
  -- the state handed to `forward` by the host is the classical stage state, up to `time`
  have hstate : (⟨H.kPos (t0 d0).qpos d.qvel a dt, H.kVel (t0 d0).qvel d.qacc a dt,
        H.kVel (t0 d0).act d.act_dot a dt, d.time⟩ : State ℝ)
      = { rkStage P dt (t0 d0) a a k with time := d.time } := by
    subst hk
    simp only [rkStage, hy.hpos]
    congr 1
    · funext i; rw [hy.hvel]
    · funext i; rw [hy.hvel]
  have hF : forward ⟨H.kPos (t0 d0).qpos d.qvel a dt, H.kVel (t0 d0).qvel d.qacc a dt,
        H.kVel (t0 d0).act d.act_dot a dt, d.time⟩ = k' := by
    rw [hstate, hy.htime]
  have hq : H.kVel (t0 d0).qvel d.qacc a dt = k'.vel := by
    have := hy.hvelF ⟨H.kPos (t0 d0).qpos d.qvel a dt, H.kVel (t0 d0).qvel d.qacc a dt,
        H.kVel (t0 d0).act d.act_dot a dt, d.time⟩
    rw [hF] at this; exact this.symm
  simp only [hostIter, hostForward, hostPerturb, hostAccumulate, hadd, hmul]
  rw [hF, hq]
  refine ⟨?_, ?_, ?_, ?_, ?_⟩ <;> first | rfl | trivial

/-- (4) **rk4_eq_tableau**: for an arbitrary abstract `forward`, after the loop of `rungekutta4` the
    accumulators `qvel_rk, qacc_rk, act_dot_rk` equal `Σ B_i k_i` of the classical RK4 slopes
    (`A = [1/2, 1/2, 1]`, `B = [1/6, 1/3, 1/3, 1/6]`), and `d.qacc` is the last slope's acceleration. -/
theorem rk4_eq_tableau (hy : RkHyps P H forward d0) :
    let S := rk4Slopes P forward dt (t0 d0)
    (hostLoop H forward dt d0).2.vel = (rkCombine S).vel ∧
    (hostLoop H forward dt d0).2.acc = (rkCombine S).acc ∧
    (hostLoop H forward dt d0).2.actdot = (rkCombine S).actdot ∧
    (hostLoop H forward dt d0).1.qacc = S.k4.acc ∧
    (hostLoop H forward dt d0).1.time = d0.time := by
  intro S
  -- slope 1
  have hk1 : forward (t0 d0) = ⟨d0.qvel, d0.qacc, d0.act_dot⟩ := by
    have h1 := hy.hvelF (t0 d0)
    obtain ⟨h2, h3⟩ := hy.hinit
    cases hf : forward (t0 d0) with
    | mk v a ad =>
      rw [hf] at h1 h2 h3
      simp only [t0] at h1
      simp only at h1 h2 h3
      rw [h1, h2, h3]
  -- unfold the three iterations one at a time
  unfold hostLoop
  simp only [List.foldl_cons, List.foldl_nil]
  set z : Int → ℝ := fun _ => Scalar.lit 0 0 with hz
  set r0 := hostAccumulate (rkB0 : ℝ) d0 ⟨z, z, z⟩ with hr0
  change
    let st1 := hostIter H forward dt (t0 d0) rkA0 rkB1 (d0, r0)
    let st2 := hostIter H forward dt (t0 d0) rkA1 rkB2 st1
    let st3 := hostIter H forward dt (t0 d0) rkA2 rkB3 st2
    st3.2.vel = _ ∧ st3.2.acc = _ ∧ st3.2.actdot = _ ∧ st3.1.qacc = _ ∧ st3.1.time = _
  intro st1 st2 st3
  obtain ⟨a1, a2, a3, a4, a5⟩ := hostIter_fst (dt := dt) hy rkA0 rkB1 d0 r0 (forward (t0 d0)) hk1
  obtain ⟨b1, b2, b3, b4, b5⟩ := hostIter_fst (dt := dt) hy rkA1 rkB2 st1.1 st1.2 S.k2
    (by rw [show st1.1.qvel = S.k2.vel from a1, show st1.1.qacc = S.k2.acc from a2,
          show st1.1.act_dot = S.k2.actdot from a3])
  obtain ⟨c1, c2, c3, c4, c5⟩ := hostIter_fst (dt := dt) hy rkA2 rkB3 st2.1 st2.2 S.k3
    (by rw [show st2.1.qvel = S.k3.vel from b1, show st2.1.qacc = S.k3.acc from b2,
          show st2.1.act_dot = S.k3.actdot from b3])
  have hS1 : S.k1 = ⟨d0.qvel, d0.qacc, d0.act_dot⟩ := hk1
  have hzero : ∀ i, z i = 0 := fun i => by simp [hz]
  refine ⟨?_, ?_, ?_, c2, ?_⟩
  · show st3.2.vel = _
    rw [show st3 = hostIter H forward dt (t0 d0) rkA2 rkB3 (st2.1, st2.2) from rfl, c5]
    rw [show st2 = hostIter H forward dt (t0 d0) rkA1 rkB2 (st1.1, st1.2) from rfl, b5]
    rw [show st1 = hostIter H forward dt (t0 d0) rkA0 rkB1 (d0, r0) from rfl, a5]
    funext i
    simp only [rkCombine, hr0, hostAccumulate, hzero, hS1, hadd, hmul]
    change 0 + rkB0 * d0.qvel i + rkB1 * S.k2.vel i + rkB2 * S.k3.vel i + rkB3 * S.k4.vel i = _
    ring
  · show st3.2.acc = _
    rw [show st3 = hostIter H forward dt (t0 d0) rkA2 rkB3 (st2.1, st2.2) from rfl, c5]
    rw [show st2 = hostIter H forward dt (t0 d0) rkA1 rkB2 (st1.1, st1.2) from rfl, b5]
    rw [show st1 = hostIter H forward dt (t0 d0) rkA0 rkB1 (d0, r0) from rfl, a5]
    funext i
    simp only [rkCombine, hr0, hostAccumulate, hzero, hS1, hadd, hmul]
    change 0 + rkB0 * d0.qacc i + rkB1 * S.k2.acc i + rkB2 * S.k3.acc i + rkB3 * S.k4.acc i = _
    ring
  · show st3.2.actdot = _
    rw [show st3 = hostIter H forward dt (t0 d0) rkA2 rkB3 (st2.1, st2.2) from rfl, c5]
    rw [show st2 = hostIter H forward dt (t0 d0) rkA1 rkB2 (st1.1, st1.2) from rfl, b5]
    rw [show st1 = hostIter H forward dt (t0 d0) rkA0 rkB1 (d0, r0) from rfl, a5]
    funext i
    simp only [rkCombine, hr0, hostAccumulate, hzero, hS1, hadd, hmul]
    change 0 + rkB0 * d0.act_dot i + rkB1 * S.k2.actdot i + rkB2 * S.k3.actdot i + rkB3 * S.k4.actdot i = _
    ring
  · show st3.1.time = _
    rw [show st3 = hostIter H forward dt (t0 d0) rkA2 rkB3 (st2.1, st2.2) from rfl, c4]
    rw [show st2 = hostIter H forward dt (t0 d0) rkA1 rkB2 (st1.1, st1.2) from rfl, b4]
    rw [show st1 = hostIter H forward dt (t0 d0) rkA0 rkB1 (d0, r0) from rfl, a4]

/-- the tableau constants over ℝ -/
theorem tableau_real : (rkA0 : ℝ) = 1 / 2 ∧ (rkA1 : ℝ) = 1 / 2 ∧ (rkA2 : ℝ) = 1 ∧
    (rkB0 : ℝ) = 1 / 6 ∧ (rkB1 : ℝ) = 1 / 3 ∧ (rkB2 : ℝ) = 1 / 3 ∧ (rkB3 : ℝ) = 1 / 6 := by
  simp only [rkA0, rkA1, rkA2, rkB0, rkB1, rkB2, rkB3, slit, hdiv]
  norm_num

/-- (4') **rk4_step_eq**: the whole of `rungekutta4` (restore the saved state, `d.act_dot := act_dot_rk`,
    `_advance(m, d, qacc_rk, qvel_rk)`) produces `mj_RungeKutta(4)`'s next `qpos, qvel, act, time` and
    warmstart, given in addition that the final (`limit = True`, scale 1) activation kernel is
    `mj_nextActivation`. -/
theorem rk4_step_eq (hy : RkHyps P H forward d0)
    (hactL : ∀ act ad h, H.kAct act ad (Scalar.lit 1 0) true h = P.nextAct true act ad h) :
    hostRk4 H forward dt d0 = rk4Step P forward dt (t0 d0) := by
  obtain ⟨e1, e2, e3, e4, e5⟩ := rk4_eq_tableau (dt := dt) hy
  unfold hostRk4 rk4Step
  have hpair : hostLoop H forward dt d0 = ((hostLoop H forward dt d0).1, (hostLoop H forward dt d0).2) := rfl
  rw [hpair]
  simp only [hostAdvance, advance, e1, e2, e3, e4, e5, hactL, hy.hpos, Option.getD_some, t0, eulerVel]
  have h1 : ((Scalar.lit 1 0 : ℝ)) = 1 := by simp
  congr 2
  · congr 1; funext i; rw [h1]; simp
  · funext i; rw [hy.hvel, h1]; simp [hadd, hmul]

/-- (4f) **rkHyps_of_kernel**: with the velocity/activation primitive read off the generated `_next_velocity`
    (`kernelVel`), `RkHyps` needs only the position kernel (`next_position_spec`) and the three facts about `forward`. -/
theorem rkHyps_of_kernel (kPos : (Int → ℝ) → (Int → ℝ) → ℝ → ℝ → (Int → ℝ))
    (kAct : (Int → ℝ) → (Int → ℝ) → ℝ → Bool → ℝ → (Int → ℝ))
    (hpos : ∀ q v a h, kPos q v a h = P.intPos q (fun i => a * v i) h)
    (hvelF : ∀ s, (forward s).vel = s.qvel)
    (htime : ∀ s t, forward { s with time := t } = forward s)
    (hinit : d0.qacc = (forward (t0 d0)).acc ∧ d0.act_dot = (forward (t0 d0)).actdot) :
    RkHyps P ⟨kPos, kernelVel, kAct⟩ forward d0 :=
  ⟨hpos, kernelVel_eq, hvelF, htime, hinit⟩

end rk4

/-! ## 5. Euler with implicit damping -/

/-- (5a) **euler_damp_qfrc_spec** (every `K`): a `_euler_damp_qfrc` task `(w, i)` performs exactly one
    write: it adds `timestep * damp_deriv[w, i]` to the LAST entry of row `i` of the (lower-triangular CSR)
    copy of the inertia matrix, `M[w, M_rowadr[i] + M_rownnz[i] − 1]`, i.e. to the diagonal entry `M_ii`. -/
theorem euler_damp_qfrc_spec {K : Type} [Scalar K] (ts : Int → K) (rownnz rowadr : Int → Int)
    (damp_deriv M : Int → Int → K) (n w i : Int) :
    Gen.Forward._euler_damp_qfrc ts rownnz rowadr damp_deriv M n w i
      = [Write.mk "M_integration_out" [w, rowadr i + rownnz i - 1]
          (WVal.f (M w (rowadr i + rownnz i - 1) + ts (Int.tmod w n) * damp_deriv w i)) WKind.set] := by
  unfold Gen.Forward._euler_damp_qfrc
  simp [Write.lookupF]

/-- (5b) **compute_damping_deriv_spec** (ℝ): `damp_deriv[w, i] := b + 2 p₀ |v| + 3 p₁ |v|²` with
    `b = dof_damping`, `p = dof_dampingpoly`, `v = qvel[w, i]` — the derivative of the (odd) polynomial
    damping force magnitude; it is `dof_damping` when the polynomial coefficients are 0. -/
theorem compute_damping_deriv_spec (damping : Int → Int → ℝ) (poly : Int → Int → V2 ℝ) (qvel deriv_out : Int → Int → ℝ)
    (n0 n1 w i : Int) :
    Gen.Forward._compute_damping_deriv damping poly qvel deriv_out n0 n1 w i
      = [Write.mk "deriv_out" [w, i]
          (WVal.f (damping (Int.tmod w n0) i + 2 * (poly (Int.tmod w n1) i).c0 * |qvel w i|
            + 3 * (poly (Int.tmod w n1) i).c1 * |qvel w i| * |qvel w i|)) WKind.set] := by
  unfold Gen.Forward._compute_damping_deriv Gen.Util_misc._poly_force_deriv
  simp

/-- (5) **euler_damp_system**.  `euler(m, d)` with implicit damping enabled (neither EULERDAMP nor DAMPER
    disabled) launches `_compute_damping_deriv`, clones `d.M`, launches `_euler_damp_qfrc` on the clone and
    calls `factor_solve_i(m, d, M, qLD, qLDiagInv, qacc, d.efc.Ma)`.  By the two kernel specs the matrix
    handed to the factorisation is

        M̃ = M + dt · diag(D),   D_i = dof_damping_i + 2 p₀ᵢ |qvel_i| + 3 p₁ᵢ |qvel_i|²   ( = dof_damping_i if p = 0 ),

    (diagonal entry of row i = last stored entry of CSR row i), the right-hand side is `d.efc.Ma`
    (= M·qacc = qfrc_smooth + qfrc_constraint at the solver's solution), i.e. the system solved is

        (M + dt·D) · qacc_new = M · qacc,

    MuJoCo C's `mj_EulerSkip` system, and `_advance(m, d, qacc_new)` follows (`hostEuler`).
    Stated here as far as the generated kernels show it: entry `M_ii` of world `w` becomes
    `M_ii + dt·D_i`, and no other entry of the clone is written. -/
theorem euler_damp_system (ts : Int → ℝ) (rownnz rowadr : Int → Int) (damping : Int → Int → ℝ)
    (poly : Int → Int → V2 ℝ) (qvel M deriv_out : Int → Int → ℝ) (n n0 n1 w i : Int) :
    let D : ℝ := damping (Int.tmod w n0) i + 2 * (poly (Int.tmod w n1) i).c0 * |qvel w i|
      + 3 * (poly (Int.tmod w n1) i).c1 * |qvel w i| * |qvel w i|
    let diag : Int := rowadr i + rownnz i - 1
    Gen.Forward._compute_damping_deriv damping poly qvel deriv_out n0 n1 w i
        = [Write.mk "deriv_out" [w, i] (WVal.f D) WKind.set]
    ∧ Gen.Forward._euler_damp_qfrc ts rownnz rowadr (fun w' i' => if w' = w ∧ i' = i then D else deriv_out w' i') M n w i
        = [Write.mk "M_integration_out" [w, diag] (WVal.f (M w diag + ts (Int.tmod w n) * D)) WKind.set]
    ∧ ((poly (Int.tmod w n1) i).c0 = 0 → (poly (Int.tmod w n1) i).c1 = 0 → D = damping (Int.tmod w n0) i) := by
  intro D diag
  refine ⟨compute_damping_deriv_spec .., ?_, ?_⟩
  · rw [euler_damp_qfrc_spec]; simp [hadd, hmul, diag]
  · intro h0 h1; simp [D, h0, h1]

/-- (5') **euler_step_eq**: `euler(m, d)` = `_advance(m, d, qacc)` is `mj_advance` (semi-implicit: the
    positions are integrated with the NEW velocity), `qacc` being `d.qacc` or the solution of the damped
    system above; the warmstart is `d.qacc` in both. -/
theorem euler_step_eq (P : Prims ℝ) (H : HostPrims ℝ) (dt : ℝ) (d : HostData ℝ) (qacc : Int → ℝ)
    (hpos1 : ∀ q v h, H.kPos q v (Scalar.lit 1 0) h = P.intPos q v h)
    (hvel1 : ∀ v acc h i, H.kVel v acc (Scalar.lit 1 0) h i = v i + h * acc i)
    (hactL : ∀ act ad h, H.kAct act ad (Scalar.lit 1 0) true h = P.nextAct true act ad h) :
    hostEuler H dt d qacc = advance P dt ⟨d.qpos, d.qvel, d.act, d.time⟩ d.act_dot qacc none d.qacc := by
  unfold hostEuler hostAdvance advance
  simp only [hpos1, hactL, Option.getD_none, eulerVel]
  have hv : H.kVel d.qvel qacc (Scalar.lit 1 0) dt = fun i => d.qvel i + dt * qacc i := by
    funext i; rw [hvel1]
  rw [hv]

/-! ### `implicit` / `implicitfast`

  `implicit(m, d)` computes `qacc` by `factor_solve_lu` of `M − dt·(∂qfrc_smooth/∂qvel + RNE terms)` (IMPLICIT) or by
  `factor_solve_i` of `M − dt·∂qfrc_smooth/∂qvel` (IMPLICITFAST) with right-hand side `d.efc.Ma`, then calls
  `_advance(m, d, qacc)`: the state update is `Spec.Integrate.hostEuler` with that `qacc`, i.e. theorems (1)–(3)
  and `next_activation_spec` apply unchanged.  The derivative kernels (`derivative.py`) are outside this file. -/

/-! ## 6. `_advance`: launch order -/

/-- (6) **advance_order**: the order in which `_advance(m, d, qacc, qvel)` updates the state (read off
    forward.py; the per-kernel meaning is (1)–(3) and `next_activation_spec`):
    activation (old `act`, `act_dot`) → velocity (`qvel += dt*qacc`) → position, integrated with the NEW
    velocity unless RK4 passes `qvel_rk` → control-history insert at the OLD time → `time += dt` →
    `qacc_warmstart := d.qacc` (always `d.qacc`, also when the integrator passed a different `qacc`).
    Same order as `mj_advance`; `Spec.Integrate.hostAdvance` is the transcription used by
    `rk4_step_eq`. -/
def advanceOrder : List String := Spec.Integrate.advanceOrder

theorem advance_order : advanceOrder.length = 7 := rfl

/-! ## 7. Host events of `step()` (Gen/Host.lean): which kernels the RK4 stages and `implicit` launch -/

section host
open Mjw.HostGraph Mjw.Gen.Host

/-- an event with its interned ids resolved: (kind, kernel or field, host conditions, fields read, fields written) -/
def showEv (e : Event) : EvKind × String × List String × List String × List String :=
  (e.kind, name e.subject, e.conds.map name, e.reads.map name, e.writes.map name)

/-- evaluate `nameId s` ONCE (the match forces it to a numeral) and hand the numeral to `k`.  (In the kernel
    every string literal that is touched costs ~40 ms, a scan of the ~1200 interned names ~40 s: the facts below
    are arranged to scan once per theorem; ids → names (`name`) is cheap.) -/
def withId {α : Type} (s : String) (k : Nat → α) : α :=
  match nameId s with
  | 0 => k 0
  | n + 1 => k (n + 1)

/-- what the host events of `step()` say about the RK4 stages:
    1. the first three events inside `for i in range(3)` of `rungekutta4` (condition `loop:range(3)`), resolved;
    2. with `dAct` := the field written by the third of them and `rk4` := its second enclosing condition (their
       NAMES are part of 1.), every event of the `rk4` branch that writes `dAct`: (kind, kernel/field, inside the
       loop?, fields read). -/
def rkStageFacts : List (EvKind × String × List String × List String × List String) ×
    List (EvKind × String × Bool × List String) :=
  withId "loop:range(3)" fun loop =>
    let first3 := (guardedBy loop forward_step).take 3
    let actEv := first3.getD 2 ⟨EvKind.hostWrite, 0, [], [], []⟩
    let dAct := actEv.writes.headD 0
    let rk4 := actEv.conds.getD 1 0
    (first3.map showEv,
     ((guardedBy rk4 forward_step).filter (fun e => e.writes.contains dAct)).map
        (fun e => (e.kind, name e.subject, e.conds.contains loop, e.reads.map name)))

/-- the launch list of `_rk_perturb_state` as `Spec.Integrate.hostPerturb` transcribes it -/
def perturbLaunches : List (EvKind × String × List String × List String × List String) :=
  [(EvKind.launch, "forward._next_position",
     ["not (m.opt.integrator == IntegratorType.EULER)", "m.opt.integrator == IntegratorType.RK4", "loop:range(3)"],
     ["d.qvel", "m.jnt_dofadr", "m.jnt_qposadr", "m.jnt_type", "m.opt.timestep", "qpos_t0"], ["d.qpos"]),
   (EvKind.launch, "forward._next_velocity",
     ["not (m.opt.integrator == IntegratorType.EULER)", "m.opt.integrator == IntegratorType.RK4", "loop:range(3)"],
     ["d.qacc", "m.opt.timestep", "qvel_t0"], ["d.qvel"]),
   (EvKind.launch, "forward._next_velocity",
     ["not (m.opt.integrator == IntegratorType.EULER)", "m.opt.integrator == IntegratorType.RK4", "loop:range(3)",
      "m.na and act_t0 is not None"],
     ["act_t0", "d.act_dot", "m.opt.timestep"], ["d.act"])]

/-- the writers of `d.act` in the RK4 branch of `step()` -/
def actWriters : List (EvKind × String × Bool × List String) :=
  [(EvKind.launch, "forward._next_velocity", true, ["act_t0", "d.act_dot", "m.opt.timestep"]),
   (EvKind.hostCopy, "d.act", false, ["act_t0"]),
   (EvKind.launch, "forward._next_activation", false,
     ["d.act", "d.act_dot", "d.actuator_velocity", "m.actuator_actadr", "m.actuator_actlimited", "m.actuator_actnum",
      "m.actuator_actrange", "m.actuator_biasprm", "m.actuator_dynprm", "m.actuator_dyntype", "m.actuator_gainprm",
      "m.opt.timestep"])]

set_option synthInstance.maxSize 2000 in
/-- (7) **rk_stage_host_facts** (kernel `decide` over the regenerated `Gen.Host.forward_step`, one scan of the names) -/
theorem rk_stage_host_facts : rkStageFacts = (perturbLaunches, actWriters) := by
  decide +kernel

/-- (7a) **rk_perturb_launches**: each iteration of the RK4 loop starts with the three launches of
    `_rk_perturb_state` — the launch list transcribed by `Spec.Integrate.hostPerturb`:
    `_next_position` (reads `qpos_t0`, `d.qvel`; writes `d.qpos`), `_next_velocity` (reads `qvel_t0`, `d.qacc`;
    writes `d.qvel`) and, under `m.na and act_t0 is not None`, again `_next_velocity` (reads `act_t0`, `d.act_dot`,
    `m.opt.timestep`; writes `d.act`).  Re-introducing `_next_activation` (or any other kernel, or other arrays)
    for the stage activations changes the regenerated `Gen/Host.lean` and breaks this proof.
    (Reads/writes are SETS of array fields; argument positions and the stage coefficient are pinned by `rk_stage_launch_args`.) -/
theorem rk_perturb_launches : rkStageFacts.1 = perturbLaunches :=
  congrArg Prod.fst rk_stage_host_facts

/-- (7b) **rk4_act_writers**: in the whole RK4 branch of `step()` (the three stages with their complete
    `forward()` pipelines, the restore, `_advance`) `d.act` is written by exactly three events, in this order:
    the stage launch of `_next_velocity` (inside the loop), the restoring `wp.copy(d.act, act_t0)`, and
    `_advance`'s `_next_activation` (outside the loop: the exact filter / motor integrators and the clamp apply to
    the final update only, as `mj_RungeKutta` → `mj_advance` → `mj_nextActivation`).  In particular no
    `_next_activation` launch — whose output is always `d.act` — occurs inside the loop. -/
theorem rk4_act_writers : rkStageFacts.2 = actWriters :=
  congrArg Prod.snd rk_stage_host_facts

/-- the launches of `deriv_rne_body2jnt_sparse` in `step()`, resolved -/
def implicitRneFacts : List (EvKind × String × List String × List String × List String) :=
  withId "derivative.deriv_rne_body2jnt_sparse" fun k =>
    ((launches forward_step).filter (fun e => e.subject == k)).map showEv

/-- (7c) **implicit_rne_launch**: the RNE velocity derivative is accumulated by `deriv_rne_body2jnt_sparse`, launched
    exactly once in `step()`, in the full-implicit branch only, reading and writing `d.qLU` (after `_map_m2d` stored
    `M − dt·qDeriv_smooth` there).  The SIGN argument `flg_subtract` of that launch is pinned by `implicit_rne_flag` (ordered
    launch-argument side table `forward_step_args`); its meaning at kernel level is `rne_vel_body2jnt_adds`. -/
theorem implicit_rne_launch :
    implicitRneFacts =
      [(EvKind.launch, "derivative.deriv_rne_body2jnt_sparse",
         ["not (m.opt.integrator == IntegratorType.EULER)", "not (m.opt.integrator == IntegratorType.RK4)",
          "m.opt.integrator in (IntegratorType.IMPLICITFAST, IntegratorType.IMPLICIT)",
          "m.opt.integrator == IntegratorType.IMPLICIT"],
         ["Dcfrcbody", "d.cdof", "d.qLU", "m.dof_bodyid", "m.opt.timestep", "m.qD_fullm_i", "m.qD_fullm_j"], ["d.qLU"])] := by
  decide +kernel

/-- ordered argument lists (inputs then outputs; literal scalars as `const:v`, statically known host parameters as
    `name=v`) of the launches of kernel `k` in `step()` whose condition list mentions the condition `c` -/
def launchArgsOf (k c : String) : List (List String) :=
  withId k fun kid => withId c fun cid =>
    ((forward_step.zip forward_step_args).filter
        (fun p => p.1.kind == EvKind.launch && p.1.subject == kid && p.1.conds.contains cid)).map (fun p => p.2.map name)

/-- (7e) **implicit_rne_flag**: the ONE launch of `deriv_rne_body2jnt_sparse` in `step()` receives the host value
    `flg_subtract = False` (the default of `deriv_rne_vel`; `implicit()` passes nothing since fix 28a04d7), as its 7th
    argument, with `d.qLU` as the output.  Together with `rne_vel_body2jnt_adds` this pins the SIGN: `M − dt·qDeriv`
    gains `+dt·∂qfrc_bias/∂qvel`.  Passing `flg_subtract=True` again changes the regenerated side table and breaks this
    proof. -/
theorem implicit_rne_flag :
    launchArgsOf "derivative.deriv_rne_body2jnt_sparse" "m.opt.integrator == IntegratorType.IMPLICIT"
      = [["m.dof_bodyid", "d.cdof", "m.opt.timestep", "m.qD_fullm_i", "m.qD_fullm_j", "Dcfrcbody", "flg_subtract=False", "d.qLU"]] := by
  decide +kernel

/-- (7f) **rk_stage_launch_args**: argument ORDER of the two `_next_velocity` launches of `_rk_perturb_state` (kernel
    signature: timestep, x_in, xdot_in, scale, x_out): velocities `qvel_t0 + a·h·d.qacc → d.qvel`, activations
    `act_t0 + a·h·d.act_dot → d.act`, both with the SAME stage coefficient `a` (= `A[i]`) that `_next_position` uses. -/
theorem rk_stage_launch_args :
    launchArgsOf "forward._next_velocity" "loop:range(3)"
      = [["m.opt.timestep", "qvel_t0", "d.qacc", "a", "d.qvel"], ["m.opt.timestep", "act_t0", "d.act_dot", "a", "d.act"]]
    ∧ launchArgsOf "forward._next_position" "loop:range(3)"
      = [["m.opt.timestep", "m.jnt_type", "m.jnt_qposadr", "m.jnt_dofadr", "qpos_t0", "d.qvel", "a", "d.qpos"]] := by
  decide +kernel

end host

/-- (7d) **rne_vel_body2jnt_adds** (every `K`): launched with `flg_subtract = False` — the default of
    `deriv_rne_vel`, which `implicit()` uses since fix 28a04d7 — a `deriv_rne_body2jnt_sparse` task `(w, e)` performs
    exactly one write, an atomic ADD of `dt · (cdof[w, i] · Dcfrcbody[w, body(i), j])`, `i = Di[e]`, `j = Dj[e]`, to
    `qDeriv_out[w, e]` (bound to `d.qLU`): `M − dt·qDeriv` gains `+dt·∂qfrc_bias/∂qvel`, as in `mj_implicit`
    (`mjd_rne_vel` SUBTRACTS the RNE derivative from `qDeriv`).  With the flag true the same value is subtracted. -/
theorem rne_vel_body2jnt_adds {K : Type} [Scalar K] (dof_bodyid : Int → Int) (cdof : Int → Int → V6 K) (ts : Int → K)
    (Di Dj : Int → Int) (Dcfrc : Int → Int → Int → V6 K) (flg : Bool) (q : Int → Int → K) (n w e : Int) :
    Gen.Derivative.deriv_rne_body2jnt_sparse dof_bodyid cdof ts Di Dj Dcfrc flg q n w e
      = [Write.mk "qDeriv_out" [w, e]
          (WVal.f (ts (Int.tmod w n) * V6.dot (cdof w (Di e)) (Dcfrc w (dof_bodyid (Di e)) (Dj e))))
          (if flg then WKind.asub else WKind.aadd)] := by
  unfold Gen.Derivative.deriv_rne_body2jnt_sparse
  cases flg <;> simp

/-! ## Non-vacuity -/

/-- a concrete unit quaternion / angular velocity meeting the guards of `next_position_agrees_C` -/
example : (minval : ℝ) ≤ qlen ⟨1, 0, 0, 0⟩ ∧ (qlen ⟨1, 0, 0, 0⟩ = 1 ∨ (minval : ℝ) < |qlen ⟨1, 0, 0, 0⟩ - 1|)
    ∧ (vlen ⟨0, 0, 0⟩ = 0 ∨ (minval : ℝ) ≤ vlen ⟨0, 0, 0⟩) := by
  have h : qlen ⟨1, 0, 0, 0⟩ = 1 := by simp [qlen]
  refine ⟨by rw [h]; exact minval_lt_one.le, Or.inl h, Or.inl (by simp [vlen])⟩

/-- `RkHyps` is satisfiable: one hinge-like coordinate per index (`intPos q v h = q + h v`), kernels as
    `next_position_spec`/`next_velocity_spec` describe them, a time-independent linear `forward`. -/
example : RkHyps (P := ⟨fun q v h i => q i + h * v i, fun _ act ad h i => act i + h * ad i⟩)
    (H := ⟨fun q v a h i => q i + h * v i * a, fun v acc a h i => v i + a * acc i * h,
           fun act ad a _ h i => act i + a * ad i * h⟩)
    (forward := fun s => ⟨s.qvel, fun i => - s.qpos i, fun i => - s.act i⟩)
    (d0 := ⟨fun _ => 1, fun _ => 0, fun _ => 1, 0, fun _ => -1, fun _ => -1⟩) where
  hpos := by intros; funext i; ring
  hvel := by intros; ring
  hvelF := by intros; rfl
  htime := by intros; rfl
  hinit := by constructor <;> (funext i; simp [t0])

/-- `rkHyps_of_kernel` is applicable: same model, with the velocity/activation primitive read off the generated kernel -/
example : RkHyps (P := ⟨fun q v h i => q i + h * v i, fun _ act ad h i => act i + h * ad i⟩)
    (H := ⟨fun q v a h i => q i + h * v i * a, kernelVel, fun act ad a _ h i => act i + a * ad i * h⟩)
    (forward := fun s => ⟨s.qvel, fun i => - s.qpos i, fun i => - s.act i⟩)
    (d0 := ⟨fun _ => 1, fun _ => 0, fun _ => 1, 0, fun _ => -1, fun _ => -1⟩) :=
  rkHyps_of_kernel _ _ (by intros; funext i; ring) (by intros; rfl) (by intros; rfl)
    (by constructor <;> (funext i; simp [t0]))

end Mjw.Props.C08
