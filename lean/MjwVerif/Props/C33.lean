/-
  C33  set_const recomputes derived model fields correctly            (`C33_partial`)

  Source: /repo/mujoco_warp/_src/set_const.py — 22 kernels (Gen/Set_const.lean, regenerated on every run) and the
  Python host functions `set_const_fixed / set_const_0 / set_const_spring / set_const` (hand model
  Spec/SetConst.lean, tied to the source by the launch trace recorded in harness/props/c33.py).

  PROVED (all inputs, all sizes; `K` generic where no arithmetic law is involved, `ℝ` otherwise)
  §1 body_subtreemass: write lists of `_init_subtreemass`, `_accumulate_subtreemass`; one launch = the abstract
     `pushSnap` fold; the host loop (one launch per level, deepest first, ANY task order inside a launch) leaves
     exactly MuJoCo's sequential `for i = n-1 … 1: subtreemass[parent i] += subtreemass[i]`.
  §2 exact write lists = MuJoCo `set0` formulas for `_copy_qpos0_to_qpos`, `_copy_tendon_length0`,
     `_resolve_tendon_lengthspring`, `_compute_meaninertia`, `_set_unit_vector`, `_extract_dof_A_diag`,
     `_finalize_dof_invweight0`, `_compute_body_A_diag_entry`, `_finalize_body_invweight0`,
     `_compute_tendon_dot_product`, `_compute_cam_pos0`, `_compute_light_pos0`, `_compute_actuator_acc0`,
     `_compute_dof_M0`, `_resolve_dampratio`, `_set_length_range`, `_compute_eq_data0` (connect / weld, all branches),
     `_copy_tendon_jacobian`, `_copy_actuator_moment`.
  §3 laws: stored diagonal entries `J·r` are ≥ 0 when `r` solves `M r = J` with `M` positive semidefinite; hence
     dof/body invweight0 ≥ 0 and the degenerate-component fallback; actuator_acc0 ≥ 0; `_resolve_dampratio`
     writes `-(2·ratio·sqrt(kp·mass)) ≤ 0`, is idempotent, and never touches non-affine / explicit-kv actuators;
     the recomputed connect / weld anchor satisfies the constraint at qpos0; length ranges are ordered for either gear sign.
  §4 per-world independence: the task of world `w` of every kernel reads only row `w` of Data/temporary arrays and
     row `w % shape0` of Model arrays (by `rfl`), and its writes go to row `w` resp. `w % X.shape0` of the array X
     written (visible in §2; for the camera / light references, whose three outputs may be batched differently, this
     is `cam_light_ref_slices` + `ref_slice_covered` — false before /repo commit "fix: set_const indexed cam_poscom0,
     cam_mat0, light_poscom0 and light_dir0 with another field's batch size", found by this property).
  §5 host bracket (hand model): for all states and all three entry points `qpos` and every non-position Data
     field are unchanged; with `restore` the position fields equal the full forward-kinematics pass of the FINAL
     model at the caller's qpos, so Data is unchanged whenever it was consistent with the final model; the final
     Model does not depend on the caller's qpos / position fields.

  ASSUMED / trusted: the translator; `smooth.*` stages and `solve_m` are uninterpreted in §5 (`Sem`) — their own
  correctness is C01/C02 territory; in §3 "r solves M r = J" is a hypothesis (factor_m/solve_m are not re-proved here).

  MISSING (why partial): `_compute_body_jac_row` has only the world-locality statement (its two `while` loops over the
  body / dof ancestor chains are not given a closed form); equality of the derived fields with MuJoCo C on whole
  models is sampled by the oracle, not proved (needs kinematics + factorisation end to end).
  The literal statement is FALSE (Props/C33Witness.lean): cameras / lights in a tracking or targeting mode; the
  degenerate-component fallback of `body_invweight0` (`finalize_body_invweight0_spec` states what the code does — MuJoCo
  ≥ 3.11 has no such fallback); and in binary32 the dampratio guard `|moment| > 1e-15` lets round-off through.

  NOTE on `1/3`: Python's `wp.static(1.0/3.0)` reaches Lean as the decimal 0.3333333333333333 (`Lemmas.C33.third`,
  |third − 1/3| ≤ 1e-16, `third_close`); binary32 rounds both to the same float.
-/
import MjwVerif.Lemmas.C33
import MjwVerif.Lemmas.C01Tree
import MjwVerif.Spec.SetConst
import MjwVerif.Gen.Set_const

set_option linter.unusedVariables false
set_option linter.unusedSimpArgs false

namespace Mjw.Props.C33
open Mjw Mjw.Gen.Set_const Mjw.Lemmas.C33

/-! ## 1. body_subtreemass -/

theorem init_subtreemass_spec {K : Type} [Scalar K] (mass sub : Int → Int → K) (s1 s2 w b : Int) :
    _init_subtreemass mass sub s1 s2 w b
      = [Write.mk "body_subtreemass_out" [Int.tmod w s2, b] (WVal.f (mass (Int.tmod w s1) b)) WKind.set] := rfl

/-- a task adds the PRE-LAUNCH value of its own body to the parent's cell (atomic add); the world body adds nothing -/
theorem accumulate_subtreemass_spec {K : Type} [Scalar K] (parent : Int → Int) (sub : Int → Int → K)
    (tree : Int → Int) (s w nd : Int) :
    _accumulate_subtreemass parent sub tree s w nd
      = if tree nd ≠ 0 then
          [Write.mk "body_subtreemass_io" [Int.tmod w s, parent (tree nd)]
            (WVal.f (sub (Int.tmod w s) (tree nd))) WKind.aadd]
        else [] := by
  unfold _accumulate_subtreemass
  by_cases h : tree nd = 0
  · simp [h]
  · simp [h, Write.lookupF]

open Mjw.Lemmas.C01Tree in
/-- the writes of the tasks `nodes` (any execution order) of one `_accumulate_subtreemass` launch act on row
    `w % shape0` of `body_subtreemass` exactly as the abstract `pushSnap` fold over the bodies `body_tree_[nodes]` -/
theorem subtreemass_launch_effect (parent : Int → Int) (sub : Int → Int → ℝ) (tree : Int → Int) (s w : Int)
    (p t : Nat → Nat) (nodes : List Nat)
    (hp : ∀ i : Nat, parent (i : Int) = ((p i : Nat) : Int))
    (ht : ∀ nd : Nat, tree (nd : Int) = ((t nd : Nat) : Int)) (c : Nat → ℝ) :
    (nodes.flatMap (fun (nd : Nat) => _accumulate_subtreemass parent sub tree s w (Int.ofNat nd))).foldl
        (applyAccF (Int.tmod w s)) c
      = (nodes.map t).foldl (pushSnap (fun a b : ℝ => a + b) p (fun i => sub (Int.tmod w s) (i : Int))) c := by
  induction nodes generalizing c with
  | nil => rfl
  | cons nd nodes ih =>
    simp only [List.flatMap_cons, List.foldl_append, List.map_cons, List.foldl_cons]
    rw [← ih]
    congr 1
    have htn : tree (Int.ofNat nd) = ((t nd : Nat) : Int) := ht nd
    rw [accumulate_subtreemass_spec, htn]
    by_cases h0 : t nd = 0
    · simp [h0, pushSnap]
    · have h0' : ((t nd : Nat) : Int) ≠ 0 := by omega
      rw [if_pos h0', hp]
      simp only [List.foldl_cons, List.foldl_nil, applyAccF, pushSnap, h0, if_false, true_and, and_self, if_true]
      funext j
      have : ((j : Int) = ((p (t nd) : Nat) : Int)) ↔ j = p (t nd) := by omega
      simp only [this]

open Mjw.Lemmas.C01Tree in
/-- **body_subtreemass = MuJoCo's `setFixed`**: on a tree (`p i < i`) with depths `d`, the host loop of
    `set_const_fixed` — `_init_subtreemass`, then one `_accumulate_subtreemass` launch per level, deepest first, tasks of
    a launch in ANY order — leaves what `for i = n-1 … 1: subtreemass[parent i] += subtreemass[i]` leaves
    (`Spec.SetConst.subtreeMass`).  `levels` lists the bodies `0 … n-1` once each, equal depth inside a launch. -/
theorem subtreemass_levels_eq_mujoco (p : Nat → Nat) (n : Nat) (hT : ∀ i, 0 < i → i < n → p i < i)
    (d : Nat → Nat) (hd : ∀ i, 0 < i → i < n → d i = d (p i) + 1)
    (levels : List (List Nat)) (hnd : levels.flatten.Nodup) (hmem : ∀ i, i ∈ levels.flatten ↔ i < n)
    (hsame : ∀ l ∈ levels, ∀ i ∈ l, ∀ j ∈ l, d i = d j)
    (hdeep : levels.flatten.Pairwise (fun x y => d y ≤ d x)) (mass : Nat → ℝ) :
    levelAcc (fun a b : ℝ => a + b) p levels mass
      = Spec.SetConst.subtreeMass (fun a b : ℝ => a + b) p n mass :=
  levelAcc_eq_seqAcc (fun a b => add_comm a b) (fun a b c => add_assoc a b c) p n hT d hd levels hnd hmem hsame
    hdeep mass

/-! ## 2. exact write lists -/

theorem copy_qpos0_spec {K : Type} [Scalar K] (qpos0 qpos : Int → Int → K) (s w i : Int) :
    _copy_qpos0_to_qpos qpos0 qpos s w i
      = [Write.mk "qpos_out" [w, i] (WVal.f (qpos0 (Int.tmod w s) i)) WKind.set] := rfl

theorem copy_tendon_length0_spec {K : Type} [Scalar K] (len out : Int → Int → K) (s w t : Int) :
    _copy_tendon_length0 len out s w t
      = [Write.mk "tendon_length0_out" [Int.tmod w s, t] (WVal.f (len w t)) WKind.set] := rfl

/-- MuJoCo `setSpring`: only the sentinel `(-1, -1)` is replaced, by the tendon length at `qpos_spring` -/
theorem resolve_lengthspring_spec (len : Int → Int → ℝ) (out : Int → Int → V2 ℝ) (s w t : Int) :
    _resolve_tendon_lengthspring len out s w t
      = if (out (Int.tmod w s) t).c0 = -1 ∧ (out (Int.tmod w s) t).c1 = -1 then
          [Write.mk "tendon_lengthspring_out" [Int.tmod w s, t] (WVal.v [len w t, len w t]) WKind.set]
        else [] := by
  unfold _resolve_tendon_lengthspring
  simp only [Write.lookupV, List.foldl_nil, V2_ofList_toList, litm1]
  by_cases h : (out (Int.tmod w s) t).c0 = -1 ∧ (out (Int.tmod w s) t).c1 = -1
  · have hb : (Scalar.beq (out (Int.tmod w s) t).c0 (-1 : ℝ) && Scalar.beq (out (Int.tmod w s) t).c1 (-1 : ℝ)) = true := by
      rw [Bool.and_eq_true, sbeq, sbeq]; exact h
    rw [if_pos h]
    simp only [hb, if_true, V2.toList, List.nil_append]
  · have hb : ¬ ((Scalar.beq (out (Int.tmod w s) t).c0 (-1 : ℝ) && Scalar.beq (out (Int.tmod w s) t).c1 (-1 : ℝ)) = true) := by
      rw [Bool.and_eq_true, sbeq, sbeq]; exact h
    rw [if_neg h]
    simp only [hb, Bool.false_eq_true, if_false]

/-- `stat.meaninertia` = mean of the diagonal of `M` (CSR: last entry of each row), 1 for `nv = 0` -/
theorem meaninertia_spec (nv : Int) (rownnz rowadr : Int → Int) (M : Int → Int → ℝ) (out : Int → ℝ) (s w : Int) :
    _compute_meaninertia nv rownnz rowadr M out s w
      = [Write.mk "meaninertia_out" [Int.tmod w s]
          (WVal.f (if nv = 0 then 1
                   else (∑ k ∈ Finset.range nv.toNat, M w (rowadr (k : Int) + rownnz (k : Int) - 1)) / (nv : ℝ)))
          WKind.set] := by
  unfold _compute_meaninertia
  by_cases h : nv = 0
  · subst h
    simp only [decide_true, if_true, lit1, List.nil_append]
  · have hd : decide (nv = 0) = false := by simp [h]
    rw [lit0, if_neg h]
    simp only [hd, Bool.false_eq_true, if_false]
    have hs := forRange_sum nv 0 (fun i => M w (rowadr i + rownnz i - 1))
    rw [zero_add] at hs
    exact congrArg (fun x => [Write.mk "meaninertia_out" [Int.tmod w s] (WVal.f (x / (nv : ℝ))) WKind.set]) hs

/-- the right-hand side `e_dofid` of the `nv` solves -/
theorem set_unit_vector_spec {K : Type} [Scalar K] (dofid : Int) (out : Int → Int → K) (nv w : Int) :
    _set_unit_vector dofid out nv w
      = (List.range nv.toNat).flatMap (fun (k : Nat) =>
          if decide (Int.ofNat k = dofid) = true then
            [Write.mk "unit_vec_out" [w, Int.ofNat k] (WVal.f (Scalar.lit 1 0 : K)) WKind.set]
          else [Write.mk "unit_vec_out" [w, Int.ofNat k] (WVal.f (Scalar.lit 0 0 : K)) WKind.set]) := by
  unfold _set_unit_vector
  exact (forRange_append_ite nv [] (fun i => decide (i = dofid))
    (fun i => [Write.mk "unit_vec_out" [w, i] (WVal.f (Scalar.lit 1 0 : K)) WKind.set])
    (fun i => [Write.mk "unit_vec_out" [w, i] (WVal.f (Scalar.lit 0 0 : K)) WKind.set])).trans (List.nil_append _)

theorem extract_dof_A_diag_spec {K : Type} [Scalar K] (dofid : Int) (r out : Int → Int → K) (s w : Int) :
    _extract_dof_A_diag dofid r out s w
      = [Write.mk "dof_A_diag_out" [Int.tmod w s, dofid] (WVal.f (r w dofid)) WKind.set] := rfl

/-- `dof_invweight0` (MuJoCo `set0`): per-joint averaging of `diag(M⁻¹)` -/
theorem finalize_dof_invweight0_spec (dof_jntid jnt_type jnt_dofadr : Int → Int) (A out : Int → Int → ℝ)
    (so sa w d : Int) :
    _finalize_dof_invweight0 dof_jntid jnt_type jnt_dofadr A out so sa w d
      = [Write.mk "dof_invweight0_out" [Int.tmod w so, d]
          (WVal.f (dofInvweight (jnt_type (dof_jntid d)) (jnt_dofadr (dof_jntid d)) d (A (Int.tmod w sa))))
          WKind.set] := by
  unfold _finalize_dof_invweight0 dofInvweight
  rw [litThird]
  by_cases h0 : jnt_type (dof_jntid d) = 0
  · by_cases hlt : d < jnt_dofadr (dof_jntid d) + 3
    · simp [h0, hlt, -slit]
    · simp [h0, hlt, -slit]
  · by_cases h1 : jnt_type (dof_jntid d) = 1
    · simp [h0, h1, -slit]
    · simp [h0, h1, -slit]

/-- one diagonal entry of `J M⁻¹ Jᵀ`: the dot product of the Jacobian row with the solve result -/
theorem body_A_diag_entry_spec (nv b row : Int) (J r : Int → Int → ℝ) (out : Int → Int → Int → ℝ) (s w : Int) :
    _compute_body_A_diag_entry nv b row J r out s w
      = [Write.mk "body_A_diag_out" [Int.tmod w s, b, row]
          (WVal.f (∑ k ∈ Finset.range nv.toNat, J w (k : Int) * r w (k : Int))) WKind.set] := by
  unfold _compute_body_A_diag_entry
  rw [lit0]
  have hs := forRange_sum nv 0 (fun i => J w i * r w i)
  rw [zero_add] at hs
  exact congrArg (fun x => [Write.mk "body_A_diag_out" [Int.tmod w s, b, row] (WVal.f x) WKind.set]) hs

/-- `body_invweight0`: zero for the world and static bodies, otherwise the two means of MuJoCo's `set0` PLUS a
    degenerate-component fallback (`Lemmas.C33.bodyInvweight`) that current MuJoCo does not apply — see
    `body_invweight0_fallback_witness` -/
theorem finalize_body_invweight0_spec (weldid : Int → Int) (A : Int → Int → Int → ℝ) (out : Int → Int → V2 ℝ)
    (so sa w b : Int) :
    _finalize_body_invweight0 weldid A out so sa w b
      = [Write.mk "body_invweight0_out" [Int.tmod w so, b]
          (WVal.v (if b = 0 ∨ weldid b = 0 then [0, 0]
                   else [(bodyInvweight (A (Int.tmod w sa) b)).1, (bodyInvweight (A (Int.tmod w sa) b)).2]))
          WKind.set] := by
  unfold _finalize_body_invweight0 bodyInvweight
  rw [litThird, litMinval, lit0]
  by_cases hb : b = 0 ∨ weldid b = 0
  · have hd : (decide (b = 0) || decide (weldid b = 0)) = true := by simpa using hb
    rw [if_pos hb]
    simp only [hd, if_true, V2.toList, List.nil_append]
  · have hd : (decide (b = 0) || decide (weldid b = 0)) = false := by simpa using hb
    rw [if_neg hb]
    simp only [hd, Bool.false_eq_true, if_false, V2.toList, List.nil_append, Bool.and_eq_true, slt, sgt, hadd, hmul]
    split_ifs <;> rfl

/-- `tendon_invweight0[t] = J_t M⁻¹ J_tᵀ` on the sparse row -/
theorem tendon_dot_product_spec (rownnz rowadr colind : Int → Int) (t : Int) (J r out : Int → Int → ℝ) (s w : Int) :
    _compute_tendon_dot_product rownnz rowadr colind t J r out s w
      = [Write.mk "tendon_invweight0_out" [Int.tmod w s, t]
          (WVal.f (∑ k ∈ Finset.range (rownnz t).toNat,
            J w (rowadr t + (k : Int)) * r w (colind (rowadr t + (k : Int))))) WKind.set] := by
  unfold _compute_tendon_dot_product
  rw [lit0]
  have hs := forRange_sum (rownnz t) 0 (fun i => J w (rowadr t + i) * r w (colind (rowadr t + i)))
  rw [zero_add] at hs
  exact congrArg (fun x => [Write.mk "tendon_invweight0_out" [Int.tmod w s, t] (WVal.f x) WKind.set]) hs

/-- the dense right-hand side of a tendon solve: the CSR row of `ten_J` scattered into a (host-zeroed) vector -/
theorem copy_tendon_jacobian_spec {K : Type} [Scalar K] (t : Int) (rownnz rowadr colind : Int → Int)
    (J out : Int → Int → K) (s2 w : Int) :
    _copy_tendon_jacobian t rownnz rowadr colind J out s2 w
      = (List.range (rownnz t).toNat).flatMap (fun (k : Nat) =>
          [Write.mk "ten_J_vec_out" [w, colind (rowadr t + Int.ofNat k)]
            (WVal.f (J w (rowadr t + Int.ofNat k))) WKind.set]) := by
  unfold _copy_tendon_jacobian
  exact (forRange_append (rownnz t) [] (fun i =>
    [Write.mk "ten_J_vec_out" [w, colind (rowadr t + i)] (WVal.f (J w (rowadr t + i))) WKind.set])).trans
    (List.nil_append _)

/-- the dense right-hand side of an actuator solve: `nv` zero stores, then the CSR row of `actuator_moment`
    scattered (later stores win) -/
theorem copy_actuator_moment_spec {K : Type} [Scalar K] (a : Int) (rownnz rowadr colind : Int → Int → Int)
    (moment out : Int → Int → K) (nv w : Int) :
    _copy_actuator_moment a rownnz rowadr colind moment out nv w
      = (List.range nv.toNat).flatMap (fun (k : Nat) =>
          [Write.mk "act_moment_vec_out" [w, Int.ofNat k] (WVal.f (Scalar.lit 0 0 : K)) WKind.set])
        ++ (List.range (rownnz w a).toNat).flatMap (fun (k : Nat) =>
          [Write.mk "act_moment_vec_out" [w, colind w (rowadr w a + Int.ofNat k)]
            (WVal.f (moment w (rowadr w a + Int.ofNat k))) WKind.set]) := by
  unfold _copy_actuator_moment
  have h1 := (forRange_append nv ([] : List (Write K)) (fun i =>
    [Write.mk "act_moment_vec_out" [w, i] (WVal.f (Scalar.lit 0 0 : K)) WKind.set])).trans (List.nil_append _)
  refine Eq.trans ?_ (congrArg (fun l => l ++ (List.range (rownnz w a).toNat).flatMap (fun (k : Nat) =>
          [Write.mk "act_moment_vec_out" [w, colind w (rowadr w a + Int.ofNat k)]
            (WVal.f (moment w (rowadr w a + Int.ofNat k))) WKind.set])) h1)
  exact forRange_append (rownnz w a) _ (fun i =>
    [Write.mk "act_moment_vec_out" [w, colind w (rowadr w a + i)] (WVal.f (moment w (rowadr w a + i))) WKind.set])

/-- camera references: offsets of the camera position from its body / from the subtree COM of its target (or body),
    and its orientation, as found in Data.  Each output is written in ITS OWN batch slice `w % X.shape[0]`
    (repaired in /repo commit "fix: set_const indexed cam_poscom0, cam_mat0, light_poscom0 and light_dir0 with another
    field's batch size"; the defect was found by this property's former `cam_ref_batch_index_witness`). -/
theorem cam_pos0_spec {K : Type} [Scalar K] (cam_bodyid cam_target : Int → Int) (camx : Int → Int → V3 K)
    (camm : Int → Int → M33 K) (xpos com o1 o2 : Int → Int → V3 K) (o3 : Int → Int → M33 K) (s1 s2 s3 w c : Int) :
    _compute_cam_pos0 cam_bodyid cam_target camx camm xpos com o1 o2 o3 s1 s2 s3 w c
      = [Write.mk "cam_pos0_out" [Int.tmod w s1, c]
           (WVal.v (V3.toList (V3.sub (camx w c) (xpos w (cam_bodyid c))))) WKind.set,
         Write.mk "cam_poscom0_out" [Int.tmod w s2, c]
           (WVal.v (V3.toList (V3.sub (camx w c)
             (com w (if cam_target c ≥ 0 then cam_target c else cam_bodyid c))))) WKind.set,
         Write.mk "cam_mat0_out" [Int.tmod w s3, c] (WVal.v (M33.toList (camm w c))) WKind.set] := by
  unfold _compute_cam_pos0
  by_cases h : cam_target c ≥ 0
  · simp [h]
  · simp [h]

theorem light_pos0_spec {K : Type} [Scalar K] (light_bodyid light_target : Int → Int)
    (lx ldir xpos com o1 o2 o3 : Int → Int → V3 K) (s1 s2 s3 w l : Int) :
    _compute_light_pos0 light_bodyid light_target lx ldir xpos com o1 o2 o3 s1 s2 s3 w l
      = [Write.mk "light_pos0_out" [Int.tmod w s1, l]
           (WVal.v (V3.toList (V3.sub (lx w l) (xpos w (light_bodyid l))))) WKind.set,
         Write.mk "light_poscom0_out" [Int.tmod w s2, l]
           (WVal.v (V3.toList (V3.sub (lx w l)
             (com w (if light_target l ≥ 0 then light_target l else light_bodyid l))))) WKind.set,
         Write.mk "light_dir0_out" [Int.tmod w s3, l] (WVal.v (V3.toList (ldir w l))) WKind.set] := by
  unfold _compute_light_pos0
  by_cases h : light_target l ≥ 0
  · simp [h]
  · simp [h]

/-- **per-field batch slices** (the statement that was false before the repair): the task of world `w` addresses every
    camera / light reference field `X` in slice `w % X.shape[0]` — for ANY combination of batch sizes of the three
    fields — and nothing else. -/
theorem cam_light_ref_slices {K : Type} [Scalar K] (bodyid target : Int → Int) (camx : Int → Int → V3 K)
    (camm : Int → Int → M33 K) (ldir xpos com o1 o2 o3' : Int → Int → V3 K) (o3 : Int → Int → M33 K)
    (s1 s2 s3 w c : Int) :
    (_compute_cam_pos0 bodyid target camx camm xpos com o1 o2 o3 s1 s2 s3 w c).map (fun x => (x.arr, x.idx))
      = [("cam_pos0_out", [Int.tmod w s1, c]), ("cam_poscom0_out", [Int.tmod w s2, c]),
         ("cam_mat0_out", [Int.tmod w s3, c])]
    ∧ (_compute_light_pos0 bodyid target camx ldir xpos com o1 o2 o3' s1 s2 s3 w c).map (fun x => (x.arr, x.idx))
      = [("light_pos0_out", [Int.tmod w s1, c]), ("light_poscom0_out", [Int.tmod w s2, c]),
         ("light_dir0_out", [Int.tmod w s3, c])] := by
  rw [cam_pos0_spec, light_pos0_spec]
  exact ⟨rfl, rfl⟩

/-- … hence with the launch over `max(shape[0])` worlds every slice `i < X.shape[0]` of every field is written by the
    task of world `i` with world `i`'s data (no slice stays stale, none is out of range): `i % n = i`. -/
theorem ref_slice_covered (i n : Int) (h0 : 0 ≤ i) (hn : i < n) : Int.tmod i n = i :=
  Int.tmod_eq_of_lt h0 hn

/-- `actuator_acc0 = ‖M⁻¹ momentᵀ‖` -/
theorem actuator_acc0_spec (a nv : Int) (r out : Int → Int → ℝ) (w : Int) :
    _compute_actuator_acc0 a nv r out w
      = [Write.mk "actuator_acc0_out" [w, a]
          (WVal.f (Real.sqrt (∑ k ∈ Finset.range nv.toNat, r w (k : Int) * r w (k : Int)))) WKind.set] := by
  unfold _compute_actuator_acc0
  rw [lit0]
  have hs := forRange_sum nv 0 (fun i => r w i * r w i)
  rw [zero_add] at hs
  exact congrArg (fun x => [Write.mk "actuator_acc0_out" [w, a] (WVal.f (Real.sqrt x)) WKind.set]) hs

/-- `dof_M0[d] = armature + cdof · (crb ⊗ cdof)` (diagonal of the CRB inertia at qpos0; no tendon armature, like MuJoCo) -/
theorem dof_M0_spec {K : Type} [Scalar K] (dof_bodyid : Int → Int) (arm : Int → Int → K) (cdof : Int → Int → V6 K)
    (crb : Int → Int → V10 K) (out : Int → Int → K) (s w d : Int) :
    _compute_dof_M0 dof_bodyid arm cdof crb out s w d
      = [Write.mk "dof_M0_out" [w, d]
          (WVal.f (arm (Int.tmod w s) d
            + V6.dot (cdof w d) (Mjw.Gen.Math.inert_vec (crb w (dof_bodyid d)) (cdof w d)))) WKind.set] := rfl

/-- `_resolve_dampratio`, every scalar type: three guards, then one store with the reflected-mass loop
    `Lemmas.C33.dampMassK` (verbatim copy of the generated loop) -/
theorem resolve_dampratio_eq {K : Type} [Scalar K] (biastype : Int → Int) (gainprm : Int → Int → V10 K)
    (rownnz rowadr colind : Int → Int → Int) (moment M0 : Int → Int → K) (nv : Int)
    (biasprm : Int → Int → V10 K) (sg sb w a : Int) :
    _resolve_dampratio biastype gainprm rownnz rowadr colind moment M0 nv biasprm sg sb w a
      = if decide (biastype a ≠ (1 : Int)) then [] else
        if Scalar.gt (Scalar.abs ((gainprm (Int.tmod w sg) a).c0 + (biasprm (Int.tmod w sb) a).c1))
            (Scalar.lit 1 (-15) : K) then [] else
        if Scalar.le (biasprm (Int.tmod w sb) a).c2 (Scalar.lit 0 0 : K) then [] else
        [Write.mk "actuator_biasprm" [Int.tmod w sb, a]
          (WVal.v (V10.toList { biasprm (Int.tmod w sb) a with
            c2 := -(((biasprm (Int.tmod w sb) a).c2 * (Scalar.lit 2 0 : K))
                    * Scalar.sqrt ((gainprm (Int.tmod w sg) a).c0
                        * dampMassK (rownnz w a) (rowadr w a) (colind w) (moment w) (M0 w))) }))
          WKind.set] := rfl

/-- **dampratio resolution** (MuJoCo `set0`): only for affine bias (position-like) actuators with
    `gainprm[0] = -biasprm[1]` (up to mjMINVAL) and `biasprm[2] > 0`, the damping ratio is replaced by
    `biasprm[2] := -(ratio · 2 · sqrt(kp · mass))`, `mass` = reflected inertia `Σ dof_M0[j]/moment_j²`;
    every other actuator is left alone. -/
theorem resolve_dampratio_spec (biastype : Int → Int) (gainprm : Int → Int → V10 ℝ)
    (rownnz rowadr colind : Int → Int → Int) (moment M0 : Int → Int → ℝ) (nv : Int)
    (biasprm : Int → Int → V10 ℝ) (sg sb w a : Int) :
    _resolve_dampratio biastype gainprm rownnz rowadr colind moment M0 nv biasprm sg sb w a
      = if biastype a = 1 ∧ |(gainprm (Int.tmod w sg) a).c0 + (biasprm (Int.tmod w sb) a).c1| ≤ minval
            ∧ 0 < (biasprm (Int.tmod w sb) a).c2 then
          [Write.mk "actuator_biasprm" [Int.tmod w sb, a]
            (WVal.v (V10.toList { biasprm (Int.tmod w sb) a with
              c2 := -((biasprm (Int.tmod w sb) a).c2 * 2
                      * Real.sqrt ((gainprm (Int.tmod w sg) a).c0
                          * reflectedMass (rownnz w a) (rowadr w a) (colind w) (moment w) (M0 w))) }))
            WKind.set]
        else [] := by
  rw [resolve_dampratio_eq, dampMassK_real]
  by_cases h1 : biastype a = 1
  swap
  · have g1 : decide (biastype a ≠ (1 : Int)) = true := by simp [h1]
    rw [g1, if_pos rfl, if_neg (fun h => h1 h.1)]
  have g1 : decide (biastype a ≠ (1 : Int)) = false := by simp [h1]
  rw [g1, if_neg Bool.false_ne_true]
  by_cases h2 : |(gainprm (Int.tmod w sg) a).c0 + (biasprm (Int.tmod w sb) a).c1| ≤ minval
  swap
  · have g2 : Scalar.gt (Scalar.abs ((gainprm (Int.tmod w sg) a).c0 + (biasprm (Int.tmod w sb) a).c1))
        (Scalar.lit 1 (-15) : ℝ) = true := by
      rw [sgt, litMinval]; exact not_le.mp h2
    rw [g2, if_pos rfl, if_neg (fun h => h2 h.2.1)]
  have g2 : ¬ (Scalar.gt (Scalar.abs ((gainprm (Int.tmod w sg) a).c0 + (biasprm (Int.tmod w sb) a).c1))
      (Scalar.lit 1 (-15) : ℝ) = true) := by
    rw [sgt, litMinval]; exact not_lt.mpr h2
  rw [if_neg g2]
  by_cases h3 : 0 < (biasprm (Int.tmod w sb) a).c2
  swap
  · have g3 : Scalar.le (biasprm (Int.tmod w sb) a).c2 (Scalar.lit 0 0 : ℝ) = true := by
      rw [sle, lit0]; exact not_lt.mp h3
    rw [g3, if_pos rfl, if_neg (fun h => h3 h.2.2)]
  have g3 : ¬ (Scalar.le (biasprm (Int.tmod w sb) a).c2 (Scalar.lit 0 0 : ℝ) = true) := by
    rw [sle, lit0]; exact not_le.mpr h3
  rw [if_neg g3, if_pos ⟨h1, h2, h3⟩, lit2]
  rfl

/-- `actuator_lengthrange` from joint / tendon limits (`mj_setLengthRange` with `uselimit`), `(0,0)` otherwise.
    `TrnType.JOINT = 0`, `JOINTINPARENT = 1`, `TENDON = 3`. -/
theorem set_length_range_spec (trntype : Int → Int) (trnid : Int → I2) (gear : Int → Int → V6 ℝ)
    (jnt_limited : Int → Int) (jnt_range : Int → Int → V2 ℝ) (tendon_limited : Int → Int)
    (tendon_range : Int → Int → V2 ℝ) (ntendon : Int) (out : Int → Int → V2 ℝ) (sg sj st w a : Int) :
    _set_length_range trntype trnid gear jnt_limited jnt_range tendon_limited tendon_range ntendon out sg sj st w a
      = [Write.mk "actuator_lengthrange_out" [w, a]
          (WVal.v (V2.toList
            (if trntype a = 0 ∨ trntype a = 1 then
               (if jnt_limited (trnid a).c0 ≠ 0 then
                  lengthRange (gear (Int.tmod w sg) a).c0 (jnt_range (Int.tmod w sj) (trnid a).c0)
                else ⟨0, 0⟩)
             else if trntype a = 3 then
               (if 0 < ntendon ∧ tendon_limited (trnid a).c0 ≠ 0 then
                  lengthRange (gear (Int.tmod w sg) a).c0 (tendon_range (Int.tmod w st) (trnid a).c0)
                else ⟨0, 0⟩)
             else ⟨0, 0⟩))) WKind.set] := by
  unfold _set_length_range lengthRange
  rw [lit0]
  simp only [Bool.or_eq_true, Bool.and_eq_true, decide_eq_true_eq, sgt, hmul, gt_iff_lt, ne_eq, List.nil_append]
  split_ifs <;> rfl

/-! ### `_compute_eq_data0` (EqType.CONNECT = 0, WELD = 1; ObjType.BODY = 1, SITE = 6) -/

/-- body–body connect: `data[3:6] := R₂ᵀ (x₁ + R₁·data[0:3] − x₂)`, the anchor expressed in body 2 at qpos0 -/
theorem eq_data0_connect_body {K : Type} [Scalar K] (eq_type obj1 obj2 objtype : Int → Int)
    (xpos : Int → Int → V3 K) (xquat : Int → Int → Q K) (xmat : Int → Int → M33 K) (data : Int → Int → V11 K)
    (s w e : Int) (h0 : eq_type e = 0) (h1 : objtype e = 1) :
    _compute_eq_data0 eq_type obj1 obj2 objtype xpos xquat xmat data s w e
      = [Write.mk "eq_data_out" [Int.tmod w s, e]
          (WVal.v (V11.toList
            (let d := data (Int.tmod w s) e
             let a2 := M33.mulVec (M33.transpose (xmat w (obj2 e)))
               (V3.sub (V3.add (xpos w (obj1 e)) (M33.mulVec (xmat w (obj1 e)) ⟨d.c0, d.c1, d.c2⟩)) (xpos w (obj2 e)))
             { d with c3 := a2.c0, c4 := a2.c1, c5 := a2.c2 }))) WKind.set] := by
  unfold _compute_eq_data0
  simp only [h0, h1, decide_true, if_true, Write.lookupV, List.foldl_nil, V11_ofList_toList, List.nil_append]

/-- site-based connect: eq_data is unused and zeroed -/
theorem eq_data0_connect_site {K : Type} [Scalar K] (eq_type obj1 obj2 objtype : Int → Int)
    (xpos : Int → Int → V3 K) (xquat : Int → Int → Q K) (xmat : Int → Int → M33 K) (data : Int → Int → V11 K)
    (s w e : Int) (h0 : eq_type e = 0) (h1 : objtype e = 6) :
    _compute_eq_data0 eq_type obj1 obj2 objtype xpos xquat xmat data s w e
      = [Write.mk "eq_data_out" [Int.tmod w s, e] (WVal.v (V11.toList (V11.fill (Scalar.lit 0 0 : K)))) WKind.set] := by
  unfold _compute_eq_data0
  have : decide ((6 : Int) = 1) = false := by decide
  simp only [h0, h1, this, decide_true, if_true, Bool.false_eq_true, if_false, Write.lookupV, List.foldl_nil,
    V11_ofList_toList, List.nil_append]

/-- body–body weld whose relative quaternion `data[6:10]` is non-zero: only normalised, everything else kept -/
theorem eq_data0_weld_keep {K : Type} [Scalar K] (eq_type obj1 obj2 objtype : Int → Int)
    (xpos : Int → Int → V3 K) (xquat : Int → Int → Q K) (xmat : Int → Int → M33 K) (data : Int → Int → V11 K)
    (s w e : Int) (h0 : eq_type e = 1) (h1 : objtype e = 1)
    (hq : Scalar.gt (Q.lengthSq (⟨(data (Int.tmod w s) e).c6, (data (Int.tmod w s) e).c7,
      (data (Int.tmod w s) e).c8, (data (Int.tmod w s) e).c9⟩ : Q K)) (Scalar.lit 0 0 : K) = true) :
    _compute_eq_data0 eq_type obj1 obj2 objtype xpos xquat xmat data s w e
      = [Write.mk "eq_data_out" [Int.tmod w s, e]
          (WVal.v (V11.toList
            (let d := data (Int.tmod w s) e
             let q := Q.normalize (⟨d.c6, d.c7, d.c8, d.c9⟩ : Q K)
             { d with c6 := q.c0, c7 := q.c1, c8 := q.c2, c9 := q.c3 }))) WKind.set] := by
  unfold _compute_eq_data0
  have : decide ((1 : Int) = 0) = false := by decide
  simp only [h0, h1, this, hq, decide_true, if_true, Bool.false_eq_true, if_false, Write.lookupV, List.foldl_nil,
    V11_ofList_toList, List.nil_append]

/-- body–body weld with zero relative quaternion: anchor in body 1 and relative pose recomputed at qpos0:
    `data[3:6] := R₁ᵀ (x₂ + R₂·data[0:3] − x₁)`, `data[6:10] := q₁⁻¹ q₂` -/
theorem eq_data0_weld_compute {K : Type} [Scalar K] (eq_type obj1 obj2 objtype : Int → Int)
    (xpos : Int → Int → V3 K) (xquat : Int → Int → Q K) (xmat : Int → Int → M33 K) (data : Int → Int → V11 K)
    (s w e : Int) (h0 : eq_type e = 1) (h1 : objtype e = 1)
    (hq : Scalar.gt (Q.lengthSq (⟨(data (Int.tmod w s) e).c6, (data (Int.tmod w s) e).c7,
      (data (Int.tmod w s) e).c8, (data (Int.tmod w s) e).c9⟩ : Q K)) (Scalar.lit 0 0 : K) = false) :
    _compute_eq_data0 eq_type obj1 obj2 objtype xpos xquat xmat data s w e
      = [Write.mk "eq_data_out" [Int.tmod w s, e]
          (WVal.v (V11.toList
            (let d := data (Int.tmod w s) e
             let a1 := M33.mulVec (M33.transpose (xmat w (obj1 e)))
               (V3.sub (V3.add (xpos w (obj2 e)) (M33.mulVec (xmat w (obj2 e)) ⟨d.c0, d.c1, d.c2⟩)) (xpos w (obj1 e)))
             let rq := Mjw.Gen.Math.mul_quat (Mjw.Gen.Math.quat_inv (xquat w (obj1 e))) (xquat w (obj2 e))
             { d with c3 := a1.c0, c4 := a1.c1, c5 := a1.c2, c6 := rq.c0, c7 := rq.c1, c8 := rq.c2, c9 := rq.c3 })))
          WKind.set] := by
  unfold _compute_eq_data0
  have : decide ((1 : Int) = 0) = false := by decide
  simp only [h0, h1, this, hq, decide_true, if_true, Bool.false_eq_true, if_false, Write.lookupV, List.foldl_nil,
    V11_ofList_toList, List.nil_append]

/-- every other equality (joint, tendon, flex, …; connect/weld between other object types): untouched -/
theorem eq_data0_other {K : Type} [Scalar K] (eq_type obj1 obj2 objtype : Int → Int)
    (xpos : Int → Int → V3 K) (xquat : Int → Int → Q K) (xmat : Int → Int → M33 K) (data : Int → Int → V11 K)
    (s w e : Int)
    (h : (eq_type e ≠ 0 ∧ eq_type e ≠ 1) ∨ (eq_type e = 0 ∧ objtype e ≠ 1 ∧ objtype e ≠ 6)
       ∨ (eq_type e = 1 ∧ objtype e ≠ 1)) :
    _compute_eq_data0 eq_type obj1 obj2 objtype xpos xquat xmat data s w e = [] := by
  unfold _compute_eq_data0
  have h10 : decide ((1 : Int) = 0) = false := by decide
  rcases h with ⟨ha, hb⟩ | ⟨ha, hb, hc⟩ | ⟨ha, hb⟩
  · simp only [ha, hb, decide_false, Bool.false_eq_true, if_false]
  · simp only [ha, hb, hc, decide_true, decide_false, if_true, Bool.false_eq_true, if_false]
  · simp only [ha, hb, h10, decide_true, decide_false, if_true, Bool.false_eq_true, if_false]

/-! ## 3. laws -/

/-- **non-negativity of the stored diagonal**: if the vector `r` handed to `_compute_body_A_diag_entry` solves
    `M r = J` for a positive semidefinite `M` (what `factor_m`/`solve_m` deliver for the joint-space inertia), the
    stored entry `J·r = rᵀ M r` is ≥ 0. -/
theorem body_A_diag_entry_nonneg (nv b row : Int) (J r : Int → Int → ℝ) (out : Int → Int → Int → ℝ) (s w : Int)
    (M : Nat → Nat → ℝ)
    (hsolve : ∀ i, i < nv.toNat → J w (i : Int) = ∑ j ∈ Finset.range nv.toNat, M i j * r w (j : Int))
    (hpsd : ∀ x : Nat → ℝ, 0 ≤ ∑ i ∈ Finset.range nv.toNat, ∑ j ∈ Finset.range nv.toNat, x i * M i j * x j) :
    ∃ v : ℝ, _compute_body_A_diag_entry nv b row J r out s w
        = [Write.mk "body_A_diag_out" [Int.tmod w s, b, row] (WVal.f v) WKind.set] ∧ 0 ≤ v :=
  ⟨_, body_A_diag_entry_spec nv b row J r out s w,
    dot_solve_nonneg nv.toNat M (fun k => J w (k : Int)) (fun k => r w (k : Int)) hsolve hpsd⟩

/-- `dof_invweight0 ≥ 0` whenever the extracted diagonal of `M⁻¹` is (it is, by the previous law with `J = e_d`) -/
theorem dof_invweight0_nonneg (dof_jntid jnt_type jnt_dofadr : Int → Int) (A out : Int → Int → ℝ)
    (so sa w d : Int) (hA : ∀ k, 0 ≤ A (Int.tmod w sa) k) :
    ∃ v : ℝ, _finalize_dof_invweight0 dof_jntid jnt_type jnt_dofadr A out so sa w d
        = [Write.mk "dof_invweight0_out" [Int.tmod w so, d] (WVal.f v) WKind.set] ∧ 0 ≤ v :=
  ⟨_, finalize_dof_invweight0_spec dof_jntid jnt_type jnt_dofadr A out so sa w d, dofInvweight_nonneg _ _ _ _ hA⟩

/-- `body_invweight0 ≥ 0` componentwise -/
theorem body_invweight0_nonneg (weldid : Int → Int) (A : Int → Int → Int → ℝ) (out : Int → Int → V2 ℝ)
    (so sa w b : Int) (hA : ∀ k, 0 ≤ A (Int.tmod w sa) b k) :
    ∃ x y : ℝ, _finalize_body_invweight0 weldid A out so sa w b
        = [Write.mk "body_invweight0_out" [Int.tmod w so, b] (WVal.v [x, y]) WKind.set] ∧ 0 ≤ x ∧ 0 ≤ y := by
  rw [finalize_body_invweight0_spec]
  by_cases hb : b = 0 ∨ weldid b = 0
  · exact ⟨0, 0, by rw [if_pos hb], le_refl 0, le_refl 0⟩
  · exact ⟨_, _, by rw [if_neg hb], (bodyInvweight_nonneg _ hA).1, (bodyInvweight_nonneg _ hA).2⟩

/-- `actuator_acc0 ≥ 0` -/
theorem actuator_acc0_nonneg (a nv : Int) (r out : Int → Int → ℝ) (w : Int) :
    ∃ v : ℝ, _compute_actuator_acc0 a nv r out w
        = [Write.mk "actuator_acc0_out" [w, a] (WVal.f v) WKind.set] ∧ 0 ≤ v :=
  ⟨_, actuator_acc0_spec a nv r out w, Real.sqrt_nonneg _⟩

/-- an actuator whose `biasprm[2] ≤ 0` (explicit kv, or an already resolved ratio) is never modified -/
theorem resolve_dampratio_noop_of_nonpos (biastype : Int → Int) (gainprm : Int → Int → V10 ℝ)
    (rownnz rowadr colind : Int → Int → Int) (moment M0 : Int → Int → ℝ) (nv : Int)
    (biasprm : Int → Int → V10 ℝ) (sg sb w a : Int) (h : (biasprm (Int.tmod w sb) a).c2 ≤ 0) :
    _resolve_dampratio biastype gainprm rownnz rowadr colind moment M0 nv biasprm sg sb w a = [] := by
  rw [resolve_dampratio_spec, if_neg (fun hh => absurd hh.2.2 (not_lt.mpr h))]

/-- non-affine bias (motors, muscles, …) is never modified -/
theorem resolve_dampratio_noop_of_not_affine (biastype : Int → Int) (gainprm : Int → Int → V10 ℝ)
    (rownnz rowadr colind : Int → Int → Int) (moment M0 : Int → Int → ℝ) (nv : Int)
    (biasprm : Int → Int → V10 ℝ) (sg sb w a : Int) (h : biastype a ≠ 1) :
    _resolve_dampratio biastype gainprm rownnz rowadr colind moment M0 nv biasprm sg sb w a = [] := by
  rw [resolve_dampratio_spec, if_neg (fun hh => h hh.1)]

/-- **idempotence of dampratio resolution**: whatever the first run stored in `biasprm[w % n, a]` (its third
    component is `-(ratio·2·sqrt(kp·mass)) ≤ 0`), a second run on a `biasprm'` holding that value — with ANY
    gains, moments and masses — writes nothing. -/
theorem resolve_dampratio_idempotent (biastype : Int → Int) (gainprm gainprm' : Int → Int → V10 ℝ)
    (rownnz rowadr colind rownnz' rowadr' colind' : Int → Int → Int) (moment M0 moment' M0' : Int → Int → ℝ)
    (nv : Int) (biasprm biasprm' : Int → Int → V10 ℝ) (sg sb w a : Int) (x : List ℝ)
    (hrun : _resolve_dampratio biastype gainprm rownnz rowadr colind moment M0 nv biasprm sg sb w a
      = [Write.mk "actuator_biasprm" [Int.tmod w sb, a] (WVal.v x) WKind.set])
    (hstore : V10.toList (biasprm' (Int.tmod w sb) a) = x) :
    _resolve_dampratio biastype gainprm' rownnz' rowadr' colind' moment' M0' nv biasprm' sg sb w a = [] := by
  apply resolve_dampratio_noop_of_nonpos
  rw [resolve_dampratio_spec] at hrun
  by_cases hc : biastype a = 1 ∧ |(gainprm (Int.tmod w sg) a).c0 + (biasprm (Int.tmod w sb) a).c1| ≤ minval
      ∧ 0 < (biasprm (Int.tmod w sb) a).c2
  · rw [if_pos hc] at hrun
    have hx : x = V10.toList { biasprm (Int.tmod w sb) a with
        c2 := -((biasprm (Int.tmod w sb) a).c2 * 2 * Real.sqrt ((gainprm (Int.tmod w sg) a).c0
          * reflectedMass (rownnz w a) (rowadr w a) (colind w) (moment w) (M0 w))) } := by
      injection hrun with h1 _
      injection h1 with _ _ h3 _
      injection h3 with h4
      exact h4.symm
    rw [hx] at hstore
    have h2 : (biasprm' (Int.tmod w sb) a).c2 = -((biasprm (Int.tmod w sb) a).c2 * 2
        * Real.sqrt ((gainprm (Int.tmod w sg) a).c0
          * reflectedMass (rownnz w a) (rowadr w a) (colind w) (moment w) (M0 w))) := by
      have := congrArg (fun l => l.getD 2 0) hstore
      simpa [V10.toList] using this
    rw [h2]
    exact neg_nonpos.mpr (mul_nonneg (mul_nonneg hc.2.2.le (by norm_num)) (Real.sqrt_nonneg _))
  · rw [if_neg hc] at hrun
    exact absurd hrun (by simp)

/-- the stored damping has the documented magnitude `2·ratio·sqrt(kp·mass)` and is a genuine damping (≤ 0 as bias) -/
theorem dampratio_formula (ratio kp mass : ℝ) (hr : 0 < ratio) :
    -(ratio * 2 * Real.sqrt (kp * mass)) = -(2 * ratio * Real.sqrt (kp * mass))
      ∧ -(ratio * 2 * Real.sqrt (kp * mass)) ≤ 0 :=
  ⟨by ring, neg_nonpos.mpr (mul_nonneg (mul_nonneg hr.le (by norm_num)) (Real.sqrt_nonneg _))⟩

/-- critical damping: for a single-dof transmission with unit moment, `ratio = 1` gives `kv = 2·sqrt(kp·m)`,
    i.e. `kv² = 4·kp·m` (double root of `m s² + kv s + kp`) -/
theorem dampratio_critical (kp m : ℝ) (hk : 0 ≤ kp) (hm : 0 ≤ m) :
    (1 * 2 * Real.sqrt (kp * m)) ^ 2 = 4 * kp * m := by
  have h := Real.sq_sqrt (mul_nonneg hk hm)
  nlinarith [h]

/-- **the recomputed connect anchor satisfies the constraint at qpos0**: with `a₂ = R₂ᵀ (x₁ + R₁ a₁ − x₂)` as stored by
    `_compute_eq_data0` (`eq_data0_connect_body`) and `R₂` a rotation (orthonormal rows, `R₂ R₂ᵀ = 1`), both anchors are the
    same world point: `x₂ + R₂ a₂ = x₁ + R₁ a₁` (the connect residual `pos1 − pos2` of constraint.py is 0).
    The weld case (`eq_data0_weld_compute`) is the same statement with the bodies exchanged. -/
theorem connect_satisfied_at_qpos0 (x1 x2 a1 : V3 ℝ) (R1 R2 : M33 ℝ)
    (h00 : R2.m00 * R2.m00 + R2.m01 * R2.m01 + R2.m02 * R2.m02 = 1)
    (h11 : R2.m10 * R2.m10 + R2.m11 * R2.m11 + R2.m12 * R2.m12 = 1)
    (h22 : R2.m20 * R2.m20 + R2.m21 * R2.m21 + R2.m22 * R2.m22 = 1)
    (h01 : R2.m00 * R2.m10 + R2.m01 * R2.m11 + R2.m02 * R2.m12 = 0)
    (h02 : R2.m00 * R2.m20 + R2.m01 * R2.m21 + R2.m02 * R2.m22 = 0)
    (h12 : R2.m10 * R2.m20 + R2.m11 * R2.m21 + R2.m12 * R2.m22 = 0) :
    V3.add x2 (M33.mulVec R2 (M33.mulVec (M33.transpose R2)
        (V3.sub (V3.add x1 (M33.mulVec R1 a1)) x2)))
      = V3.add x1 (M33.mulVec R1 a1) := by
  apply V3.ext' <;> simp only [V3.add, V3.sub, M33.mulVec, M33.transpose, hadd, hsub, hmul]
  · linear_combination
      ((x1.c0 + (R1.m00 * a1.c0 + R1.m01 * a1.c1 + R1.m02 * a1.c2)) - x2.c0) * h00
      + ((x1.c1 + (R1.m10 * a1.c0 + R1.m11 * a1.c1 + R1.m12 * a1.c2)) - x2.c1) * h01
      + ((x1.c2 + (R1.m20 * a1.c0 + R1.m21 * a1.c1 + R1.m22 * a1.c2)) - x2.c2) * h02
  · linear_combination
      ((x1.c0 + (R1.m00 * a1.c0 + R1.m01 * a1.c1 + R1.m02 * a1.c2)) - x2.c0) * h01
      + ((x1.c1 + (R1.m10 * a1.c0 + R1.m11 * a1.c1 + R1.m12 * a1.c2)) - x2.c1) * h11
      + ((x1.c2 + (R1.m20 * a1.c0 + R1.m21 * a1.c1 + R1.m22 * a1.c2)) - x2.c2) * h12
  · linear_combination
      ((x1.c0 + (R1.m00 * a1.c0 + R1.m01 * a1.c1 + R1.m02 * a1.c2)) - x2.c0) * h02
      + ((x1.c1 + (R1.m10 * a1.c0 + R1.m11 * a1.c1 + R1.m12 * a1.c2)) - x2.c1) * h12
      + ((x1.c2 + (R1.m20 * a1.c0 + R1.m21 * a1.c1 + R1.m22 * a1.c2)) - x2.c2) * h22

/-- length ranges are ordered (`lo ≤ hi`) for ordered limits, for positive, zero and negative gear -/
theorem length_range_ordered (gear : ℝ) (rng : V2 ℝ) (h : rng.c0 ≤ rng.c1) :
    (lengthRange gear rng).c0 ≤ (lengthRange gear rng).c1 := lengthRange_ordered gear rng h

/-! ## 4. per-world independence (reads) -/

section world_local

theorem finalize_dof_invweight0_world_local {K : Type} [Scalar K] (dof_jntid jnt_type jnt_dofadr : Int → Int)
    (A out : Int → Int → K) (so sa w d : Int) :
    _finalize_dof_invweight0 dof_jntid jnt_type jnt_dofadr A out so sa w d
      = _finalize_dof_invweight0 dof_jntid jnt_type jnt_dofadr (fun _ => A (Int.tmod w sa)) out so sa w d := rfl

theorem finalize_body_invweight0_world_local {K : Type} [Scalar K] (weldid : Int → Int) (A : Int → Int → Int → K)
    (out : Int → Int → V2 K) (so sa w b : Int) :
    _finalize_body_invweight0 weldid A out so sa w b
      = _finalize_body_invweight0 weldid (fun _ => A (Int.tmod w sa)) out so sa w b := rfl

theorem body_A_diag_entry_world_local {K : Type} [Scalar K] (nv b row : Int) (J r : Int → Int → K)
    (out : Int → Int → Int → K) (s w : Int) :
    _compute_body_A_diag_entry nv b row J r out s w
      = _compute_body_A_diag_entry nv b row (fun _ => J w) (fun _ => r w) out s w := rfl

theorem body_jac_row_world_local {K : Type} [Scalar K] (nv b row : Int)
    (parent root dofadr dofnum dofparent : Int → Int) (com xipos : Int → Int → V3 K) (cdof : Int → Int → V6 K)
    (out : Int → Int → K) (fuel : Nat) (w : Int) :
    _compute_body_jac_row nv b row parent root dofadr dofnum dofparent com xipos cdof out fuel w
      = _compute_body_jac_row nv b row parent root dofadr dofnum dofparent (fun _ => com w) (fun _ => xipos w)
          (fun _ => cdof w) out fuel w := rfl

theorem tendon_dot_product_world_local {K : Type} [Scalar K] (rownnz rowadr colind : Int → Int) (t : Int)
    (J r out : Int → Int → K) (s w : Int) :
    _compute_tendon_dot_product rownnz rowadr colind t J r out s w
      = _compute_tendon_dot_product rownnz rowadr colind t (fun _ => J w) (fun _ => r w) out s w := rfl

theorem copy_tendon_jacobian_world_local {K : Type} [Scalar K] (t : Int) (rownnz rowadr colind : Int → Int)
    (J out : Int → Int → K) (s2 w : Int) :
    _copy_tendon_jacobian t rownnz rowadr colind J out s2 w
      = _copy_tendon_jacobian t rownnz rowadr colind (fun _ => J w) out s2 w := rfl

theorem copy_actuator_moment_world_local {K : Type} [Scalar K] (a : Int) (rownnz rowadr colind : Int → Int → Int)
    (moment out : Int → Int → K) (s1 w : Int) :
    _copy_actuator_moment a rownnz rowadr colind moment out s1 w
      = _copy_actuator_moment a (fun _ => rownnz w) (fun _ => rowadr w) (fun _ => colind w) (fun _ => moment w)
          out s1 w := rfl

theorem actuator_acc0_world_local {K : Type} [Scalar K] (a nv : Int) (r out : Int → Int → K) (w : Int) :
    _compute_actuator_acc0 a nv r out w = _compute_actuator_acc0 a nv (fun _ => r w) out w := rfl

theorem dof_M0_world_local {K : Type} [Scalar K] (dof_bodyid : Int → Int) (arm : Int → Int → K)
    (cdof : Int → Int → V6 K) (crb : Int → Int → V10 K) (out : Int → Int → K) (s w d : Int) :
    _compute_dof_M0 dof_bodyid arm cdof crb out s w d
      = _compute_dof_M0 dof_bodyid (fun _ => arm (Int.tmod w s)) (fun _ => cdof w) (fun _ => crb w) out s w d := rfl

theorem resolve_dampratio_world_local {K : Type} [Scalar K] (biastype : Int → Int) (gainprm : Int → Int → V10 K)
    (rownnz rowadr colind : Int → Int → Int) (moment M0 : Int → Int → K) (nv : Int)
    (biasprm : Int → Int → V10 K) (sg sb w a : Int) :
    _resolve_dampratio biastype gainprm rownnz rowadr colind moment M0 nv biasprm sg sb w a
      = _resolve_dampratio biastype (fun _ => gainprm (Int.tmod w sg)) (fun _ => rownnz w) (fun _ => rowadr w)
          (fun _ => colind w) (fun _ => moment w) (fun _ => M0 w) nv (fun _ => biasprm (Int.tmod w sb)) sg sb w a :=
  rfl

theorem eq_data0_world_local {K : Type} [Scalar K] (eq_type obj1 obj2 objtype : Int → Int)
    (xpos : Int → Int → V3 K) (xquat : Int → Int → Q K) (xmat : Int → Int → M33 K) (data : Int → Int → V11 K)
    (s w e : Int) :
    _compute_eq_data0 eq_type obj1 obj2 objtype xpos xquat xmat data s w e
      = _compute_eq_data0 eq_type obj1 obj2 objtype (fun _ => xpos w) (fun _ => xquat w) (fun _ => xmat w)
          (fun _ => data (Int.tmod w s)) s w e := rfl

theorem cam_pos0_world_local {K : Type} [Scalar K] (cam_bodyid cam_target : Int → Int) (camx : Int → Int → V3 K)
    (camm : Int → Int → M33 K) (xpos com o1 o2 : Int → Int → V3 K) (o3 : Int → Int → M33 K) (s1 s2 s3 w c : Int) :
    _compute_cam_pos0 cam_bodyid cam_target camx camm xpos com o1 o2 o3 s1 s2 s3 w c
      = _compute_cam_pos0 cam_bodyid cam_target (fun _ => camx w) (fun _ => camm w) (fun _ => xpos w)
          (fun _ => com w) o1 o2 o3 s1 s2 s3 w c := rfl

theorem light_pos0_world_local {K : Type} [Scalar K] (light_bodyid light_target : Int → Int)
    (lx ldir xpos com o1 o2 o3 : Int → Int → V3 K) (s1 s2 s3 w l : Int) :
    _compute_light_pos0 light_bodyid light_target lx ldir xpos com o1 o2 o3 s1 s2 s3 w l
      = _compute_light_pos0 light_bodyid light_target (fun _ => lx w) (fun _ => ldir w) (fun _ => xpos w)
          (fun _ => com w) o1 o2 o3 s1 s2 s3 w l := rfl

theorem meaninertia_world_local {K : Type} [Scalar K] (nv : Int) (rownnz rowadr : Int → Int) (M : Int → Int → K)
    (out : Int → K) (s w : Int) :
    _compute_meaninertia nv rownnz rowadr M out s w
      = _compute_meaninertia nv rownnz rowadr (fun _ => M w) out s w := rfl

theorem set_length_range_world_local {K : Type} [Scalar K] (trntype : Int → Int) (trnid : Int → I2)
    (gear : Int → Int → V6 K) (jnt_limited : Int → Int) (jnt_range : Int → Int → V2 K) (tendon_limited : Int → Int)
    (tendon_range : Int → Int → V2 K) (ntendon : Int) (out : Int → Int → V2 K) (sg sj st w a : Int) :
    _set_length_range trntype trnid gear jnt_limited jnt_range tendon_limited tendon_range ntendon out sg sj st w a
      = _set_length_range trntype trnid (fun _ => gear (Int.tmod w sg)) jnt_limited
          (fun _ => jnt_range (Int.tmod w sj)) tendon_limited (fun _ => tendon_range (Int.tmod w st)) ntendon out
          sg sj st w a := rfl

end world_local

/-! ## 5. host bracket (hand model Spec/SetConst.lean; event lists tied by the harness trace) -/

section host
open Mjw.Spec.SetConst
variable {Mdl Q F1 F2 R : Type} (sem : Sem Mdl Q F1 F2 R)

/-- **state preservation**: for every state, every entry point and both values of `restore`, `qpos` and all
    non-position Data (`rest`: qvel, act, time, ctrl, mocap, …) come back unchanged. -/
theorem set_const_preserves_state (s : St Mdl Q F1 F2 R) (hasTendon restore : Bool) :
    (run sem (setConst hasTendon restore) s).qpos = s.qpos
    ∧ (run sem (setConst hasTendon restore) s).rest = s.rest
    ∧ (run sem (setConst0 restore) s).qpos = s.qpos ∧ (run sem (setConst0 restore) s).rest = s.rest
    ∧ (run sem (setConstSpring hasTendon restore) s).qpos = s.qpos
    ∧ (run sem (setConstSpring hasTendon restore) s).rest = s.rest
    ∧ (run sem setConstFixed s).qpos = s.qpos ∧ (run sem setConstFixed s).rest = s.rest := by
  cases hasTendon <;> cases restore <;> simp [run, step, setConst, setConst0, setConstSpring, setConstFixed]

/-- the Model `set_const` / `set_const_0` end with does not depend on the caller's qpos or position fields -/
theorem set_const_model (s : St Mdl Q F1 F2 R) (hasTendon restore : Bool) :
    (run sem (setConst hasTendon restore) s).model = finalModel sem hasTendon s.model s.rest
    ∧ (run sem (setConst0 restore) s).model = finalModel0 sem s.model s.rest := by
  cases hasTendon <;> cases restore <;>
    simp [run, step, setConst, setConst0, setConstSpring, setConstFixed, finalModel, finalModel0]

/-- **restore**: with `restore = True` the position-dependent Data equals the full nine-stage pass of the FINAL
    model at the caller's qpos -/
theorem set_const_restores (s : St Mdl Q F1 F2 R) (hasTendon : Bool) :
    (run sem (setConst hasTendon true) s).pos
        = sem.kinFull (finalModel sem hasTendon s.model s.rest) s.rest s.qpos
    ∧ (run sem (setConst0 true) s).pos = sem.kinFull (finalModel0 sem s.model s.rest) s.rest s.qpos := by
  cases hasTendon <;>
    simp [run, step, setConst, setConst0, setConstSpring, setConstFixed, finalModel, finalModel0]

/-- **Data is left unchanged** by `set_const(restore=True)` whenever it was consistent with the final model
    (e.g. any second call, or a call after which nothing Data-relevant changed in the Model) -/
theorem set_const_data_unchanged (s : St Mdl Q F1 F2 R) (hasTendon : Bool)
    (hcons : s.pos = sem.kinFull (finalModel sem hasTendon s.model s.rest) s.rest s.qpos) :
    (run sem (setConst hasTendon true) s).qpos = s.qpos ∧ (run sem (setConst hasTendon true) s).pos = s.pos
    ∧ (run sem (setConst hasTendon true) s).rest = s.rest := by
  refine ⟨(set_const_preserves_state sem s hasTendon true).1, ?_, (set_const_preserves_state sem s hasTendon true).2.1⟩
  rw [(set_const_restores sem s hasTendon).1, ← hcons]

/-- without `restore`, `set_const` leaves the spring-stage fields at `qpos_spring` and the remaining ones at
    `qpos0` (models with tendons), resp. everything at `qpos0` (no tendons): NOT the caller's configuration -/
theorem set_const_no_restore (s : St Mdl Q F1 F2 R) :
    (run sem (setConst false false) s).pos
        = sem.kinFull (sem.fixed s.model) s.rest (sem.qpos0 (sem.fixed s.model))
    ∧ (run sem (setConst true false) s).pos.2
        = (sem.kinFull (sem.fixed s.model) s.rest (sem.qpos0 (sem.fixed s.model))).2 := by
  simp [run, step, setConst, setConst0, setConstSpring, setConstFixed]

end host

/-! ## 6. non-vacuity -/

section examples

/-- a 4-body tree (1 ← 2, 1 ← 3) with levels `[[3,2],[1],[0]]` satisfies the hypotheses of
    `subtreemass_levels_eq_mujoco` -/
example : let p : Nat → Nat := fun i => if i = 1 then 0 else if i = 0 then 0 else 1
    let d : Nat → Nat := fun i => if i = 0 then 0 else if i = 1 then 1 else 2
    (∀ i, 0 < i → i < 4 → p i < i) ∧ (∀ i, 0 < i → i < 4 → d i = d (p i) + 1)
    ∧ ([[3, 2], [1], [0]] : List (List Nat)).flatten.Nodup
    ∧ (∀ i, i ∈ ([[3, 2], [1], [0]] : List (List Nat)).flatten ↔ i < 4) := by
  refine ⟨?_, ?_, by decide, ?_⟩
  · intro i h0 h4
    have : i = 1 ∨ i = 2 ∨ i = 3 := by omega
    rcases this with rfl | rfl | rfl <;> simp
  · intro i h0 h4
    have : i = 1 ∨ i = 2 ∨ i = 3 := by omega
    rcases this with rfl | rfl | rfl <;> simp
  · intro i; simp; omega

/-- masses 1, 2, 3, 4 on that tree: subtree masses 10, 9, 3, 4 (MuJoCo loop) -/
example : Spec.SetConst.subtreeMass (fun a b : ℝ => a + b)
    (fun i => if i = 1 then 0 else if i = 0 then 0 else 1) 4 (fun i => (i : ℝ) + 1) 0 = 10 := by
  simp [Spec.SetConst.subtreeMass, Mjw.Lemmas.C01Tree.seqAcc, Mjw.Lemmas.C01Tree.push]
  norm_num

/-- a position actuator with kp = 1 (`biasprm = (0, −1, 1)`: damping ratio 1) on a unit-moment hinge with
    `dof_M0 = 1`: the guard of `resolve_dampratio_spec` holds and the stored value is `−(1·2·sqrt(1·1)) = −2` -/
example : _resolve_dampratio (fun _ => 1) (fun _ _ => (⟨1, 0, 0, 0, 0, 0, 0, 0, 0, 0⟩ : V10 ℝ))
    (fun _ _ => 1) (fun _ _ => 0) (fun _ _ => 0) (fun _ _ => 1) (fun _ _ => 1) 1
    (fun _ _ => ⟨0, -1, 1, 0, 0, 0, 0, 0, 0, 0⟩) 1 1 0 0
    = [Write.mk "actuator_biasprm" [0, 0] (WVal.v [0, -1, -2, 0, 0, 0, 0, 0, 0, 0]) WKind.set] := by
  have h1 : minval < 1 := by unfold minval; norm_num
  have hm : reflectedMass 1 0 (fun _ => 0) (fun _ => (1 : ℝ)) (fun _ => (1 : ℝ)) = 1 := by
    simp [reflectedMass, h1]
  rw [resolve_dampratio_spec]
  rw [if_pos (by refine ⟨rfl, ?_, by norm_num⟩; simp; exact minval_pos.le)]
  simp [V10.toList, hm]
  try norm_num

/-- hypotheses of `body_A_diag_entry_nonneg` are satisfiable: `M = I₂`, `r = J` -/
example : ∃ (M : Nat → Nat → ℝ) (J r : Int → Int → ℝ),
    (∀ i, i < (2 : Int).toNat → J 0 (i : Int) = ∑ j ∈ Finset.range (2 : Int).toNat, M i j * r 0 (j : Int))
    ∧ (∀ x : Nat → ℝ, 0 ≤ ∑ i ∈ Finset.range (2 : Int).toNat, ∑ j ∈ Finset.range (2 : Int).toNat, x i * M i j * x j) := by
  refine ⟨fun i j => if i = j then 1 else 0, fun _ k => (k : ℝ) + 1, fun _ k => (k : ℝ) + 1, ?_, ?_⟩
  · intro i hi
    have : i = 0 ∨ i = 1 := by
      have : i < 2 := hi
      omega
    rcases this with rfl | rfl <;> simp [Finset.sum_range_succ]
  · intro x
    simp [Finset.sum_range_succ]
    nlinarith [mul_self_nonneg (x 0), mul_self_nonneg (x 1)]

/-- the identity is a rotation: hypotheses of `connect_satisfied_at_qpos0` are satisfiable -/
example : let R : M33 ℝ := ⟨1, 0, 0, 0, 1, 0, 0, 0, 1⟩
    R.m00 * R.m00 + R.m01 * R.m01 + R.m02 * R.m02 = 1 ∧ R.m10 * R.m10 + R.m11 * R.m11 + R.m12 * R.m12 = 1
    ∧ R.m20 * R.m20 + R.m21 * R.m21 + R.m22 * R.m22 = 1 ∧ R.m00 * R.m10 + R.m01 * R.m11 + R.m02 * R.m12 = 0
    ∧ R.m00 * R.m20 + R.m01 * R.m21 + R.m02 * R.m22 = 0 ∧ R.m10 * R.m20 + R.m11 * R.m21 + R.m12 * R.m22 = 0 := by
  norm_num

/-- `eq_data0_weld_keep` / `eq_data0_weld_compute`: both guards occur over ℝ -/
example : Scalar.gt (Q.lengthSq (⟨1, 0, 0, 0⟩ : Q ℝ)) (Scalar.lit 0 0 : ℝ) = true
    ∧ Scalar.gt (Q.lengthSq (⟨0, 0, 0, 0⟩ : Q ℝ)) (Scalar.lit 0 0 : ℝ) = false := by
  constructor
  · rw [sgt, lit0]; simp [Q.lengthSq, Q.dot]
  · rw [Bool.eq_false_iff, Ne, sgt, lit0]; simp [Q.lengthSq, Q.dot]

/-- the consistency hypothesis of `set_const_data_unchanged` is satisfiable (take the state the theorem describes) -/
example (sem : Spec.SetConst.Sem Nat Nat Nat Nat Nat) (m q r : Nat) :
    ∃ s : Spec.SetConst.St Nat Nat Nat Nat Nat,
      s.pos = sem.kinFull (Spec.SetConst.finalModel sem true s.model s.rest) s.rest s.qpos :=
  ⟨⟨m, q, sem.kinFull (Spec.SetConst.finalModel sem true m r) r q, r, q⟩, rfl⟩

end examples

end Mjw.Props.C33
