/-
  C07 witnesses: four places where mujoco_warp's sensor/energy pipeline still does NOT agree with MuJoCo C.
  Each is proved of the regenerated model (Gen/Sensor.lean, Gen/Host.lean) and reproduced on the real code by
  harness/props/c07.py (trigger ids `touch-cutoff`, `energy-flag-off-zeroed`, `static-body-acc`, `ballquat-zero`).
  (Two earlier witnesses are gone because /repo was repaired — limit sensors reading rows of the other kind, and stale
  d.energy with ENERGY flag + energy sensor + sensors disabled; their positive statements are now proved in
  Props/C07.lean (2q-2t) and Props/C07Host.lean (4b).)

  W1  touch sensors ignore `sensor_cutoff`.  MuJoCo: touch has datatype POSITIVE and `apply_cutoff(mjSTAGE_ACC)` caps it
      at the cutoff.  sensor.py: `_sensor_touch` atomically adds the raw normal force to sensordata and the launch does
      not even receive `sensor_cutoff`; no later kernel of `sensor_acc` revisits touch sensors.
      Reproduce: sphere (mass 1, r = .1) resting on a plane, `<touch site=… cutoff="2.5"/>`: mj_forward 2.5, mjw 34.3.
  W5  (low severity) with the ENERGY flag off and an energy sensor present MuJoCo leaves the sensor-computed value in
      d.energy; mujoco_warp computes it for the sensor and then zeroes d.energy (sensordata agree, d.energy differs).
  W6  linear-acceleration sensors (ACCELEROMETER, FRAMELINACC) of an object on a body welded to the world: MuJoCo 3.13
      reports exactly 0 although d.cacc of that body is (0, −gravity) (observed behaviour of the C library; the
      transcription in Spec/Sensor.lean — `pointAcc`, the classical mj_objectAcceleration formula — does not have this
      exemption, so theorems 2f/2h/2k describe MuJoCo for bodies that are not welded to the world); mujoco_warp applies
      the formula to every body and reports −gravity (rotated to the site frame for the accelerometer).
      Reproduce: `<body name="st" pos="0 0 1"><geom size=".1"/><site name="s0"/></body>` + any jointed body,
      `<accelerometer site="s0"/><framelinacc objtype="xbody" objname="st"/>`: mj_forward 0 0 0 | 0 0 0, mjw 0 0 9.81 | 0 0 9.81.
  W3  BALLQUAT of an all-zero joint quaternion: `wp.normalize` yields (0,0,0,1) — in MuJoCo's (w,x,y,z) layout a half
      turn about z — where `mju_normalize4` yields the identity (1,0,0,0).  (Invalid qpos; same root cause as the
      kinematics witness of C01.)
-/
import MjwVerif.Props.C07
import MjwVerif.Props.C07Host

set_option linter.unusedVariables false
set_option linter.unusedSimpArgs false
set_option linter.unusedTactic false
set_option linter.unreachableTactic false

namespace Mjw.Props.C07
open Mjw Mjw.Gen.Sensor Mjw.Lemmas.C07 Mjw.Spec.Sensor Mjw.HostGraph Mjw.Gen.Host

/-! ## W1 touch sensors ignore the cutoff -/

/-- host graph: `forward()` launches `_sensor_touch` exactly once, and that launch reads neither `m.sensor_cutoff` nor
    `m.sensor_datatype` (the position/velocity/acceleration dispatch kernels and `_limit_*` do) -/
theorem touch_launch_does_not_read_cutoff_witness :
    ((forward_forward.filter (fun ev => ev.kind == EvKind.launch && ev.subject == nameId "sensor._sensor_touch")).map
        (fun ev => (ev.reads.contains (nameId "m.sensor_cutoff"), ev.reads.contains (nameId "m.sensor_datatype")))
      = [(false, false)])
    ∧ ((forward_forward.filter (fun ev => ev.kind == EvKind.launch && ev.subject == nameId "sensor._sensor_acc")).map
        (fun ev => (ev.reads.contains (nameId "m.sensor_cutoff"), ev.reads.contains (nameId "m.sensor_datatype")))
      = [(true, true)]) := by
  decide +kernel

/-- kernel (elliptic cones): whenever the thread of contact `con` and touch sensor `ts` writes at all, it atomically
    adds the RAW normal force `efc_force[w, efc_address[con, 0]]` to `sensordata[w, sensor_adr[sid]]` — for a force above
    the sensor's cutoff `c` this differs from MuJoCo's `apply_cutoff` value `c` -/
theorem touch_ignores_cutoff_witness (cone : Int) (gb stype sb : Int → Int) (ssize : Int → V3 ℝ) (sobj sadr stadr : Int → Int)
    (sxpos : Int → Int → V3 ℝ) (sxmat : Int → Int → M33 ℝ) (cpos : Int → V3 ℝ) (cframe : Int → M33 ℝ) (cdim : Int → Int)
    (cgeom : Int → I2) (cadr : Int → Int → Int) (cworld : Int → Int) (force : Int → Int → ℝ) (nacon : Int → Int)
    (sdata : Int → Int → ℝ) (con ts : Int) (hcone : cone ≠ 0) (c : ℝ) (hc : 0 < c) (hf : c < force (cworld con) (cadr con 0)) :
    ∀ wr ∈ _sensor_touch cone gb stype sb ssize sobj sadr stadr sxpos sxmat cpos cframe cdim cgeom cadr cworld force nacon sdata con ts,
      wr.arr = "sensordata_out" ∧ wr.idx = [cworld con, sadr (stadr ts)] ∧ wr.kind = WKind.aadd
      ∧ wr.val = WVal.f (force (cworld con) (cadr con 0))
      ∧ applyCutoff 0 POSITIVE c (force (cworld con) (cadr con 0)) = c
      ∧ force (cworld con) (cadr con 0) ≠ applyCutoff 0 POSITIVE c (force (cworld con) (cadr con 0)) := by
  have hcut : applyCutoff 0 POSITIVE c (force (cworld con) (cadr con 0)) = c := by
    unfold applyCutoff
    simp [hc, hf, sgt, slit, slt]
  intro wr hwr
  have hcone' : ¬ cone = 0 := hcone
  unfold _sensor_touch at hwr
  simp only [hcone', decide_false, Bool.false_eq_true, if_false] at hwr
  split_ifs at hwr <;> simp_all
  all_goals first
    | exact ne_of_gt hf
    | (split_ifs at hwr <;> simp_all <;> exact ne_of_gt hf)

/-- non-vacuity (the kernel does write, and the hypotheses are satisfiable with cutoff ½): a spherical touch site of
    radius 1 at the origin on body 1, one elliptic contact at its centre with normal force 1 between two geoms of body 1 -/
example : (_sensor_touch 1 (fun _ => 1) (fun _ => 2) (fun _ => 1) (fun _ => (⟨1, 1, 1⟩ : V3 ℝ)) (fun _ => 0) (fun _ => 0) (fun _ => 0)
    (fun _ _ => ⟨0, 0, 0⟩) (fun _ _ => ⟨1, 0, 0, 0, 1, 0, 0, 0, 1⟩) (fun _ => ⟨0, 0, 0⟩) (fun _ => ⟨0, 0, 1, 1, 0, 0, 0, 1, 0⟩) (fun _ => 3)
    (fun _ => ⟨0, 1⟩) (fun _ _ => 0) (fun _ => 0) (fun _ _ => (1 : ℝ)) (fun _ => 1) (fun _ _ => 0) 0 0)
      = [⟨"sensordata_out", [0, 0], WVal.f 1, WKind.aadd⟩] := by
  simp only [_sensor_touch, Gen.Ray.ray_geom, Gen.Ray.ray_sphere, Gen.Ray._ray_quad, Gen.Math.normalize_with_norm_V3,
    Gen.Math.safe_div_F_F, V3.muls, V3.neg, V3.sub, V3.add, V3.dot, V3.length, V3.normalize, V3.zero, V3.fill, V3.divs]
  norm_num [Real.sqrt_one]
example : (0 : ℝ) < 1 / 2 ∧ (1 / 2 : ℝ) < (fun (_ _ : Int) => (1 : ℝ)) 0 0 := by norm_num

/-! ## W5 with the flag off the sensor-computed energy is zeroed -/

/-- flag off, sensors on, energy sensors present: the energy kernels run once (for the sensor), `_sensor_pos` copies the
    result into sensordata, and the host then zeroes `d.energy` (MuJoCo leaves the sensor-computed value there) -/
theorem energy_zeroed_after_sensor_witness :
    launchCount energyEvents false false true true "sensor._energy_pos_zero" = 1
    ∧ (energySeq energyEvents false false true true).getLast? = some "d.energy" := by
  rw [energy_events_eq]; decide +kernel

/-! ## W6 acceleration sensors on a body welded to the world -/

/-- a body at rest whose `cacc` is `(0, −g)` (what the world body and every body welded to it carry): FRAMELINACC of its
    frame is `−g`, for every gravity vector — MuJoCo 3.13 reports 0 for such a body -/
theorem static_body_acc_witness (g : V3 ℝ) :
    _framelinacc (fun _ => 0) (fun _ => 0) (fun _ => 0) (fun _ => 0) (fun _ _ => ⟨0, 0, 1⟩) (fun _ _ => ⟨0, 0, 1⟩)
        (fun _ _ => ⟨0, 0, 0⟩) (fun _ _ => ⟨0, 0, 0⟩) (fun _ _ => ⟨0, 0, 0⟩) (fun _ _ => ⟨0, 0, 0⟩)
        (fun _ _ => ⟨0, 0, 0, 0, 0, 0⟩) (fun _ _ => ⟨0, 0, 0, -g.c0, -g.c1, -g.c2⟩) 0 1 OBJ_XBODY
      = ⟨-g.c0, -g.c1, -g.c2⟩ := by
  rw [framelinacc_spec]
  apply V3.ext' <;>
    simp [pointAcc, pointVel, objBody, objPos, V3.add, V3.sub, V3.cross, V6.top, V6.bottom]

/-! ## W3 BALLQUAT of a zero quaternion -/

theorem ball_quat_zero_witness :
    _ball_quat (fun _ => 0) (fun _ _ => (0 : ℝ)) 0 0 = ⟨0, 0, 0, 1⟩
    ∧ Spec.Kinematics.normalize4 (⟨0, 0, 0, 0⟩ : Q ℝ) = ⟨1, 0, 0, 0⟩ := by
  constructor
  · rw [ball_quat_spec]; exact normalize_zero
  · simp only [Spec.Kinematics.normalize4, Spec.Kinematics.mjMINVAL, slit, slt, sgt, ssqrt, hmul, hadd]
    norm_num

end Mjw.Props.C07
