/-
  C07 witnesses: three places where mujoco_warp's sensor/energy pipeline still does NOT agree with MuJoCo C.
  Each is proved of the regenerated model (Gen/Sensor.lean, Gen/Host.lean) and reproduced on the real code by
  harness/props/c07.py (trigger ids `energy-flag-off-zeroed`, `static-body-acc`, `ballquat-zero`).
  (Three earlier witnesses are gone because /repo was repaired — limit sensors reading rows of the other kind, stale
  d.energy with ENERGY flag + energy sensor + sensors disabled, and W1 "touch sensors ignore sensor_cutoff"; their
  positive statements are now proved in Props/C07.lean (2q-2t, 2u-2v) and Props/C07Host.lean (4b, 5a-5b).)

  W5  (low severity) with the ENERGY flag off and an energy sensor present MuJoCo leaves the sensor-computed value in
      d.energy; mujoco_warp computes it for the sensor and then zeroes d.energy (sensordata agree, d.energy differs).
  W6  linear-acceleration sensors (ACCELEROMETER, FRAMELINACC) of an object on a body welded to the world: MuJoCo 3.13
      reports exactly 0 although d.cacc of that body is (0, −gravity) (observed behaviour of the C library; the
      transcription in Spec/Sensor.lean — `pointAcc`, the classical mj_objectAcceleration formula — does not have this
      exemption, so theorems 2f/2h/2k describe MuJoCo for bodies that are not welded to the world); mujoco_warp applies
      the formula to every body and reports −gravity (rotated to the site frame for the accelerometer).
      Reproduce: `<body name="st" pos="0 0 1"><geom size=".1"/><site name="s0"/></body>` + any jointed body,
      `<accelerometer site="s0"/><framelinacc objtype="xbody" objname="st"/>`: mj_forward 0 0 0 | 0 0 0, mjw 0 0 9.81 | 0 0 9.81.
  W3  BALLQUAT of an all-zero joint quaternion: `wp.normalize` yields (0,0,0,1) — in MuJoCo's (w,x,y,z) layout a half
      turn about z — where `mju_normalize4` yields the identity (1,0,0,0).  (Invalid qpos; same root cause as the
      kinematics witness of C01.)
-/
import MjwVerif.Props.C07
import MjwVerif.Props.C07Host

set_option linter.unusedVariables false
set_option linter.unusedSimpArgs false
set_option linter.unusedTactic false
set_option linter.unreachableTactic false

namespace Mjw.Props.C07
open Mjw Mjw.Gen.Sensor Mjw.Lemmas.C07 Mjw.Spec.Sensor Mjw.HostGraph Mjw.Gen.Host

/-! ## W5 with the flag off the sensor-computed energy is zeroed -/

/-- flag off, sensors on, energy sensors present: the energy kernels run once (for the sensor), `_sensor_pos` copies the
    result into sensordata, and the host then zeroes `d.energy` (MuJoCo leaves the sensor-computed value there) -/
theorem energy_zeroed_after_sensor_witness :
    launchCount energyEvents false false true true "sensor._energy_pos_zero" = 1
    ∧ (energySeq energyEvents false false true true).getLast? = some "d.energy" := by
  rw [energy_events_eq]; decide +kernel

/-! ## W6 acceleration sensors on a body welded to the world -/

/-- a body at rest whose `cacc` is `(0, −g)` (what the world body and every body welded to it carry): FRAMELINACC of its
    frame is `−g`, for every gravity vector — MuJoCo 3.13 reports 0 for such a body -/
theorem static_body_acc_witness (g : V3 ℝ) :
    _framelinacc (fun _ => 0) (fun _ => 0) (fun _ => 0) (fun _ => 0) (fun _ _ => ⟨0, 0, 1⟩) (fun _ _ => ⟨0, 0, 1⟩)
        (fun _ _ => ⟨0, 0, 0⟩) (fun _ _ => ⟨0, 0, 0⟩) (fun _ _ => ⟨0, 0, 0⟩) (fun _ _ => ⟨0, 0, 0⟩)
        (fun _ _ => ⟨0, 0, 0, 0, 0, 0⟩) (fun _ _ => ⟨0, 0, 0, -g.c0, -g.c1, -g.c2⟩) 0 1 OBJ_XBODY
      = ⟨-g.c0, -g.c1, -g.c2⟩ := by
  rw [framelinacc_spec]
  apply V3.ext' <;>
    simp [pointAcc, pointVel, objBody, objPos, V3.add, V3.sub, V3.cross, V6.top, V6.bottom]

/-! ## W3 BALLQUAT of a zero quaternion -/

theorem ball_quat_zero_witness :
    _ball_quat (fun _ => 0) (fun _ _ => (0 : ℝ)) 0 0 = ⟨0, 0, 0, 1⟩
    ∧ Spec.Kinematics.normalize4 (⟨0, 0, 0, 0⟩ : Q ℝ) = ⟨1, 0, 0, 0⟩ := by
  constructor
  · rw [ball_quat_spec]; exact normalize_zero
  · simp only [Spec.Kinematics.normalize4, Spec.Kinematics.mjMINVAL, slit, slt, sgt, ssqrt, hmul, hadd]
    norm_num

end Mjw.Props.C07
