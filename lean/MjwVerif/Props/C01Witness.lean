/-
  C01 witnesses: inputs on which mujoco_warp's kinematics / com_pos kernels (as translated in `Gen/Smooth.lean`)
  do NOT produce what MuJoCo's C (`Spec/Kinematics.lean`) produces.  Each shows that a hypothesis of a theorem in
  `Props/C01.lean` cannot be dropped.  Reproduced on the real code (mujoco 3.13 vs mujoco_warp, CPU):
    * free body with qpos quaternion (0,0,0,0) and a child at (1,0,0):  MuJoCo xquat = (1,0,0,0), child xpos = (1,0,1);
      mujoco_warp xquat = (0,0,0,1) (half turn about z), child xpos = (−1,0,1), subtree_com x = −0.5 instead of 0.5.
    * static massless body (a bare `<body pos="0 3 0"><site/></body>`): MuJoCo subtree_com = xipos = (0,6,0); mujoco_warp (0,0,0).
-/
import MjwVerif.Props.C01

set_option linter.unusedVariables false
set_option linter.unusedSimpArgs false
namespace Mjw.Props.C01Witness
open Mjw Mjw.Gen.Math Mjw.Spec.Kinematics Mjw.Lemmas.C01 Mjw.Lemmas.C01R Mjw.Lemmas.C13 Mjw.Props.C23 Mjw.Props.C01

/-! ## 1. zero quaternion in qpos -/

/-- `wp.normalize` maps the zero quaternion to (0,0,0,1) — in MuJoCo's (w,x,y,z) layout a half turn about z —,
    `mju_normalize4` maps it to the identity (1,0,0,0) -/
theorem normalize_zero_witness :
    Q.normalize (⟨0, 0, 0, 0⟩ : Q ℝ) = ⟨0, 0, 0, 1⟩ ∧ normalize4 (⟨0, 0, 0, 0⟩ : Q ℝ) = ⟨1, 0, 0, 0⟩ := by
  constructor
  · unfold Q.normalize
    simp [Q.length, Q.dot]
  · unfold normalize4
    have h : Scalar.lt (Scalar.sqrt ((0:ℝ) * 0 + 0 * 0 + 0 * 0 + 0 * 0)) (mjMINVAL : ℝ) = true := by
      rw [slt, mjMINVAL_eq]; simp only [ssqrt]; norm_num [minval]
    simp only [h, if_true, slit]
    norm_num

/-- one free-floating body (id 1, joint 0, qpos 0..6) whose quaternion in qpos is (0,0,0,0) -/
noncomputable def zeroQuatArgs : KinArgs ℝ where
  qpos0 := fun _ _ => 0
  body_parentid := fun b => b - 1
  body_mocapid := fun _ => -1
  body_jntnum := fun _ => 1
  body_jntadr := fun b => b - 1
  body_pos := fun _ _ => ⟨0, 0, 1⟩
  body_quat := fun _ _ => ⟨1, 0, 0, 0⟩
  jnt_type := fun _ => 0
  jnt_qposadr := fun _ => 0
  jnt_pos := fun _ _ => ⟨0, 0, 0⟩
  jnt_axis := fun _ _ => ⟨0, 0, 1⟩
  body_branches := fun i => i + 1
  body_branch_start := fun b => if b = 0 then 0 else 1
  qpos_in := fun _ _ => 0
  mocap_pos_in := fun _ _ => ⟨0, 0, 0⟩
  mocap_quat_in := fun _ _ => ⟨1, 0, 0, 0⟩
  xpos_out := fun _ _ => ⟨0, 0, 0⟩
  xquat_out := fun _ _ => ⟨1, 0, 0, 0⟩
  xanchor_out := fun _ _ => ⟨0, 0, 0⟩
  xaxis_out := fun _ _ => ⟨0, 0, 0⟩
  jnt_axis_shape0 := 1
  jnt_pos_shape0 := 1
  body_pos_shape0 := 1
  body_quat_shape0 := 1
  qpos0_shape0 := 1

theorem zeroQuat_chainLen : chainLen zeroQuatArgs 0 = 1 := by simp [chainLen, zeroQuatArgs]
theorem zeroQuat_chainBody (k : Nat) : chainBody zeroQuatArgs 0 k = (k : Int) + 1 := by
  simp [chainBody, zeroQuatArgs]

theorem zeroQuat_wf : WF zeroQuatArgs 0 where
  linked := by intro k hk; rw [zeroQuat_chainLen] at hk; omega
  root := by intro _; simp only [zeroQuat_chainBody]; simp [zeroQuatArgs]
  pos := by intro k _; rw [zeroQuat_chainBody]; omega

theorem zeroQuat_joints : jointsOf zeroQuatArgs 0 (chainBody zeroQuatArgs 0 0) = [⟨0, 0, ⟨0, 0, 0⟩, ⟨0, 0, 1⟩⟩] := by
  simp only [zeroQuat_chainBody]
  simp [jointsOf, jointList, jointAt, zeroQuatArgs]

/-- **`kinematics_branch_eq_seq` fails without `BodyOK`**: for the well-formed one-body chain with a zero quaternion in
    qpos the kernel's last write to `xquat_out[0, 1]` is (0,0,0,1) while MuJoCo's `kinChain` gives (1,0,0,0). -/
theorem zero_quat_free_witness :
    final (kin zeroQuatArgs 0 0) "xquat_out" [0, chainBody zeroQuatArgs 0 0]
        = some (WVal.v [(0 : ℝ), 0, 0, 1], WKind.set)
    ∧ (kinChain (fun k => bpAt zeroQuatArgs 0 (chainBody zeroQuatArgs 0 k))
          (fun k => jointsOf zeroQuatArgs 0 (chainBody zeroQuatArgs 0 k)) (zeroQuatArgs.qpos_in 0)
          (zeroQuatArgs.qpos0 (Int.tmod 0 zeroQuatArgs.qpos0_shape0)) 0).pose.quat = ⟨1, 0, 0, 0⟩ := by
  have hz : qposQuat (zeroQuatArgs.qpos_in 0) (0 + 3) = (⟨0, 0, 0, 0⟩ : Q ℝ) := by
    simp [qposQuat, zeroQuatArgs]
  constructor
  · rw [kin_eq_chainWrites _ _ _ zeroQuat_wf.linked]
    have h := (final_chainWrites zeroQuatArgs 0 0 zeroQuat_wf 0 (by rw [zeroQuat_chainLen]; omega)).2
    rw [h]
    have : (chainOut zeroQuatArgs 0 0 0).pose.quat = ⟨0, 0, 0, 1⟩ := by
      unfold chainOut
      simp only [kinChainW, zeroQuat_joints, kinBodyW, if_true, freeBodyW, hz, normalize_zero_witness.1]
    rw [this]
    rfl
  · simp only [kinChain, zeroQuat_joints, kinBody, jFREE, if_true, freeBody, hz, normalize_zero_witness.2]
    exact normalize4_unit (by norm_num [nrm2])

/-! ## 2. `mju_normalize4` leaves a quaternion alone when its norm is within 1e-15 of 1 -/

/-- over exact reals the two normalisations differ (by 5e-16) on `(1 + 5e-16, 0, 0, 0)`: the second clause of
    `Regular` is needed for exact equality (it is far below float32 resolution) -/
theorem near_unit_quat_witness :
    normalize4 (⟨1 + 5e-16, 0, 0, 0⟩ : Q ℝ) = ⟨1 + 5e-16, 0, 0, 0⟩
    ∧ Q.normalize (⟨1 + 5e-16, 0, 0, 0⟩ : Q ℝ) = ⟨1, 0, 0, 0⟩ := by
  have hs : Real.sqrt ((1 + 5e-16 : ℝ) * (1 + 5e-16) + 0 * 0 + 0 * 0 + 0 * 0) = 1 + 5e-16 := by
    have : ((1 + 5e-16 : ℝ) * (1 + 5e-16) + 0 * 0 + 0 * 0 + 0 * 0) = (1 + 5e-16) ^ 2 := by ring
    rw [this, Real.sqrt_sq (by norm_num)]
  constructor
  · unfold normalize4
    simp only [hadd, hmul, hsub, ssqrt, hs, mjMINVAL_eq, slt, sgt, sabs, slit]
    norm_num [minval]
  · unfold Q.normalize
    simp only [Q.length, Q.dot, hadd, hmul, hdiv, ssqrt, hs, slt, slit]
    norm_num

/-! ## 3. massless subtree -/

/-- a massless body (subtree mass 0) with `xipos = (0,6,0)`: `_subtree_com_init` stores `xipos * 0 = 0`,
    `_subtree_div` writes nothing, so `subtree_com` stays (0,0,0); MuJoCo's final value is `xipos = (0,6,0)` -/
theorem subtree_com_massless_witness :
    Gen.Smooth._subtree_com_init (fun _ _ => (0 : ℝ)) (fun _ _ => ⟨0, 6, 0⟩) (fun _ _ => ⟨0, 0, 0⟩) 1 0 3
        = [(Write.mk "subtree_com_out" [0, 3] (WVal.v [(0 : ℝ), 0, 0]) WKind.set : Write ℝ)]
    ∧ Gen.Smooth._subtree_div (fun _ _ => (0 : ℝ)) (fun _ _ => ⟨0, 0, 0⟩) (fun _ _ => ⟨0, 0, 0⟩) 1 0 3 = []
    ∧ subtreeComFinal (0 : ℝ) (⟨0, 6, 0⟩ : V3 ℝ) ⟨0, 0, 0⟩ = ⟨0, 6, 0⟩ := by
  refine ⟨?_, ?_, ?_⟩
  · rw [subtree_com_init_writes]
    simp [V3.muls, V3.toList]
  · exact (subtree_div_massless (fun _ _ => (0 : ℝ)) (fun _ _ => ⟨0, 0, 0⟩) (fun _ _ => ⟨0, 0, 0⟩) ⟨0, 6, 0⟩ ⟨0, 0, 0⟩ 1 0 3 rfl).1
  · exact (subtree_div_massless (fun _ _ => (0 : ℝ)) (fun _ _ => ⟨0, 0, 0⟩) (fun _ _ => ⟨0, 0, 0⟩) ⟨0, 6, 0⟩ ⟨0, 0, 0⟩ 1 0 3 rfl).2

/-! ## 4. static geoms are frozen -/

/-- a geom on a body welded to the world (`body_weldid = 0`, no mocap root): the kernel writes nothing whatever
    `geom_pos` is, while MuJoCo's `mj_local2Global` value depends on it — two models (or two worlds of a batched
    `geom_pos`) differing only in `geom_pos` get the same (stale, `make_data`-time) `geom_xpos` -/
theorem static_geom_frozen_witness :
    Gen.Smooth._geom_local_to_global (fun _ => 0) (fun _ => 0) (fun _ => -1) (fun _ => 0)
        (fun _ _ => (⟨1, 0, 0⟩ : V3 ℝ)) (fun _ _ => ⟨1, 0, 0, 0⟩) (fun _ _ => ⟨0, 0, 0⟩) (fun _ _ => ⟨1, 0, 0, 0⟩)
        (fun _ _ => ⟨0, 0, 0⟩) (fun _ _ => M33.identity) 1 1 0 0 = []
    ∧ Gen.Smooth._geom_local_to_global (fun _ => 0) (fun _ => 0) (fun _ => -1) (fun _ => 0)
        (fun _ _ => (⟨2, 0, 0⟩ : V3 ℝ)) (fun _ _ => ⟨1, 0, 0, 0⟩) (fun _ _ => ⟨0, 0, 0⟩) (fun _ _ => ⟨1, 0, 0, 0⟩)
        (fun _ _ => ⟨0, 0, 0⟩) (fun _ _ => M33.identity) 1 1 0 0 = []
    ∧ (local2Global (⟨⟨0, 0, 0⟩, ⟨1, 0, 0, 0⟩⟩ : Pose ℝ) ⟨1, 0, 0⟩ ⟨1, 0, 0, 0⟩).1
        ≠ (local2Global (⟨⟨0, 0, 0⟩, ⟨1, 0, 0, 0⟩⟩ : Pose ℝ) ⟨2, 0, 0⟩ ⟨1, 0, 0, 0⟩).1 := by
  refine ⟨static_geom_not_written _ _ _ _ _ _ _ _ _ _ _ _ _ _ rfl rfl,
    static_geom_not_written _ _ _ _ _ _ _ _ _ _ _ _ _ _ rfl rfl, ?_⟩
  intro h
  have := congrArg V3.c0 h
  simp [local2Global, quat2Mat, isNullQuat, M33.mulVec, M33.identity, V3.add, Scalar.beq] at this

end Mjw.Props.C01Witness
