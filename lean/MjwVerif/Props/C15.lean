/-
  C15  State get/set is MuJoCo-compatible and lossless.

  Theorems are about the translated kernels `Mjw.Gen.Support.get_state___get_state` and
  `Mjw.Gen.Support.set_state___set_state` (regenerated from /repo/mujoco_warp/_src/support.py on every
  run), for an arbitrary scalar type `K`, arbitrary sizes, arbitrary signature `sig` (reasoning per bit,
  no enumeration of the 2^13 signatures), arbitrary world id.  The specification
  (`MjwVerif/Spec/State.lean`) is MuJoCo's `mj_getState`/`mj_setState` layout: the selected components
  (bit k of sig, k = 0..12, in increasing k) are concatenated, each flattened in its natural order.

  Arguments are bundled (`Dims`, `Data`) only to keep statements readable: a theorem about all
  `dm : Dims`, `d : Data K` is a theorem about all values of the kernels' individual parameters.
-/
import MjwVerif.Lemmas.Real
import MjwVerif.Lemmas.C15

namespace Mjw.Props.C15
open Mjw Mjw.Gen.Support Mjw.Spec.State Mjw.Lemmas.C15

variable {K : Type} [Scalar K]

/-- the `get_state` thread of world `w` (pure notation: expands to the generated definition) -/
local notation "GET(" dm ", " d ", " sig ", " act ", " so ", " flag ", " w ")" =>
  get_state___get_state (Dims.nq dm) (Dims.nv dm) (Dims.nu dm) (Dims.na dm) (Dims.nbody dm) (Dims.neq dm)
    (Dims.nmocap dm) (Dims.nuserdata dm) (Dims.nhistory dm)
    (Data.time d) (Data.qpos d) (Data.qvel d) (Data.act d) (Data.history d) (Data.qacc_warmstart d)
    (Data.ctrl d) (Data.qfrc_applied d) (Data.xfrc_applied d) (Data.eq_active d) (Data.mocap_pos d)
    (Data.mocap_quat d) (Data.userdata d) sig act so flag w

/-- the `set_state` thread of world `w`; `d` = pre-launch contents of the output arrays (never read) -/
local notation "SET(" dm ", " d ", " sig ", " act ", " si ", " flag ", " w ")" =>
  set_state___set_state (Dims.nq dm) (Dims.nv dm) (Dims.nu dm) (Dims.na dm) (Dims.nbody dm) (Dims.neq dm)
    (Dims.nmocap dm) (Dims.nuserdata dm) (Dims.nhistory dm) sig act si
    (Data.time d) (Data.qpos d) (Data.qvel d) (Data.act d) (Data.history d) (Data.qacc_warmstart d)
    (Data.ctrl d) (Data.qfrc_applied d) (Data.xfrc_applied d) (Data.eq_active d) (Data.mocap_pos d)
    (Data.mocap_quat d) (Data.userdata d) flag w

/-! ## 1. masked worlds are untouched -/

/-- (1a) a world whose `active` entry is false performs no write in `get_state` -/
theorem get_masked (dm : Dims) (d : Data K) (sig : Int) (act : Int → Bool) (so : Int → Int → K) (w : Int)
    (hact : act w = false) : GET(dm, d, sig, act, so, true, w) = [] := by
  unfold get_state___get_state
  simp only [hact, Bool.not_false, ↓reduceIte]

/-- (1b) a world whose `active` entry is false performs no write in `set_state` -/
theorem set_masked (dm : Dims) (d : Data K) (sig : Int) (act : Int → Bool) (si : Int → Int → K) (w : Int)
    (hact : act w = false) : SET(dm, d, sig, act, si, true, w) = [] := by
  unfold set_state___set_state
  simp only [hact, Bool.not_false, ↓reduceIte]

/-! ## 3. `get_state` = the specification write list -/

theorem get_eq_spec_nomask (dm : Dims) (d : Data K) (sig : Int) (act : Int → Bool) (so : Int → Int → K)
    (w : Int) (hb : 0 ≤ dm.nbody) (hm : 0 ≤ dm.nmocap) :
    GET(dm, d, sig, act, so, false, w) = getWrites sig dm d w := by
  rw [getWrites_eq_chain]
  unfold get_state___get_state
  simp only [Bool.false_eq_true, ↓reduceIte, ite_pair, forRange_get1, forRange_get6, forRange_get3,
    forRange_get4, ite_append_self, ite_add_self, ite_self, Int.toNat_of_nonneg hb, Int.toNat_of_nonneg hm]
  simp only [chain, offset, bit, sizes, comp, b2f, writesAt, List.getD_cons_zero, List.getD_cons_succ,
    Int.reducePow]

theorem get_eq_spec_active (dm : Dims) (d : Data K) (sig : Int) (act : Int → Bool) (so : Int → Int → K)
    (w : Int) (hb : 0 ≤ dm.nbody) (hm : 0 ≤ dm.nmocap) (hact : act w = true) :
    GET(dm, d, sig, act, so, true, w) = getWrites sig dm d w := by
  rw [getWrites_eq_chain]
  unfold get_state___get_state
  simp only [hact, Bool.not_true, Bool.false_eq_true, ↓reduceIte, ite_pair, forRange_get1, forRange_get6,
    forRange_get3, forRange_get4, ite_append_self, ite_add_self, ite_self, Int.toNat_of_nonneg hb,
    Int.toNat_of_nonneg hm]
  simp only [chain, offset, bit, sizes, comp, b2f, writesAt, List.getD_cons_zero, List.getD_cons_succ,
    Int.reducePow]

/-- (3) **layout**: for an unmasked world, the writes of `get_state` are, for k = 0..12 with bit k of `sig`
    set, in increasing k, the floats of component k in order (spatial vectors / vec3 / quaternions
    flattened in component order, `eq_active` as 1/0), stored to `state_out[w, offset k + 0, 1, …]`, where
    `offset k` = total size of the selected components below k.  (`flag` = "an `active` mask was passed".)
    Only `nbody, nmocap ≥ 0` is needed: the vector loops advance the address by 6/3/4 per iteration. -/
theorem get_eq_spec (dm : Dims) (d : Data K) (sig : Int) (act : Int → Bool) (so : Int → Int → K)
    (flag : Bool) (w : Int) (hb : 0 ≤ dm.nbody) (hm : 0 ≤ dm.nmocap) (hact : flag = false ∨ act w = true) :
    GET(dm, d, sig, act, so, flag, w) = getWrites sig dm d w := by
  cases flag
  · exact get_eq_spec_nomask dm d sig act so w hb hm
  · rcases hact with h | h
    · cases h
    · exact get_eq_spec_active dm d sig act so w hb hm h

/-- (3') the same as one run: `state_out[w, a] = stateVec[a]` for a = 0, 1, …, stateSize-1, in this order,
    where `stateVec` is the concatenation of the selected components (exactly `mj_getState`'s output). -/
theorem get_eq_stateVec (dm : Dims) (d : Data K) (sig : Int) (act : Int → Bool) (so : Int → Int → K)
    (flag : Bool) (w : Int) (h : dm.Nonneg) (hact : flag = false ∨ act w = true) :
    GET(dm, d, sig, act, so, flag, w) = writesAt w 0 (stateVec sig dm d w)
      ∧ (((stateVec sig dm d w).length : Nat) : Int) = stateSize sig (sizes dm) := by
  rw [get_eq_spec dm d sig act so flag w h.nbody h.nmocap hact]
  exact getWrites_eq_stateVec h sig d w

/-- (3'') the addresses written are exactly 0, 1, …, stateSize-1, each once, in increasing order -/
theorem get_addresses (dm : Dims) (d : Data K) (sig : Int) (act : Int → Bool) (so : Int → Int → K)
    (flag : Bool) (w : Int) (h : dm.Nonneg) (hact : flag = false ∨ act w = true) :
    (GET(dm, d, sig, act, so, flag, w)).map (·.idx)
      = (List.range (stateSize sig (sizes dm)).toNat).map (fun (a : Nat) => [w, (a : Int)]) := by
  obtain ⟨h1, h2⟩ := get_eq_stateVec dm d sig act so flag w h hact
  rw [h1, writesAt_idx, ← h2]
  simp

/-- (3''') and the values written are the state vector -/
theorem get_values (dm : Dims) (d : Data K) (sig : Int) (act : Int → Bool) (so : Int → Int → K)
    (flag : Bool) (w : Int) (h : dm.Nonneg) (hact : flag = false ∨ act w = true) :
    (GET(dm, d, sig, act, so, flag, w)).map (·.val) = (stateVec sig dm d w).map WVal.f := by
  rw [(get_eq_stateVec dm d sig act so flag w h hact).1, writesAt_val]

/-! ## 2. only `state_out[w, 0 .. stateSize)` is written -/

/-- (2a) every write of `get_state` (masked or not) is a plain store into the own world's row of
    `state_out`, at an address in `[0, stateSize)` -/
theorem get_only_state_out_own_world (dm : Dims) (d : Data K) (sig : Int) (act : Int → Bool)
    (so : Int → Int → K) (flag : Bool) (w : Int) (h : dm.Nonneg) (x : Write K)
    (hx : x ∈ GET(dm, d, sig, act, so, flag, w)) :
    x.arr = "state_out" ∧ x.kind = WKind.set ∧
      ∃ a, x.idx = [w, a] ∧ 0 ≤ a ∧ a < stateSize sig (sizes dm) := by
  by_cases hact : flag = false ∨ act w = true
  · obtain ⟨h1, h2⟩ := get_eq_stateVec dm d sig act so flag w h hact
    rw [h1] at hx
    obtain ⟨e1, e2, a, e3, e4, e5⟩ := mem_writesAt hx
    exact ⟨e1, e2, a, e3, e4, by omega⟩
  · have hf : flag = true := by cases flag <;> simp_all
    have ha : act w = false := by cases hh : act w <;> simp_all
    subst hf
    rw [get_masked dm d sig act so w ha] at hx
    cases hx

/-! ## 4. `set_state` = the specification write list -/

theorem set_eq_spec_nomask (dm : Dims) (d : Data K) (sig : Int) (act : Int → Bool) (si : Int → Int → K)
    (w : Int) (hb : 0 ≤ dm.nbody) (hm : 0 ≤ dm.nmocap) :
    SET(dm, d, sig, act, si, false, w) = setWrites sig dm (si w) w := by
  rw [setWrites_eq_chain]
  unfold set_state___set_state
  simp only [Bool.false_eq_true, ↓reduceIte, ite_pair, forRange_snoc, forRange_set6, forRange_set3,
    forRange_set4, ite_append_self, ite_add_self, ite_self, Int.toNat_of_nonneg hb, Int.toNat_of_nonneg hm]
  simp only [chain, offset, bit, sizes, setComp, setScalars, f2b, List.getD_cons_zero, List.getD_cons_succ,
    Int.reducePow]

theorem set_eq_spec_active (dm : Dims) (d : Data K) (sig : Int) (act : Int → Bool) (si : Int → Int → K)
    (w : Int) (hb : 0 ≤ dm.nbody) (hm : 0 ≤ dm.nmocap) (hact : act w = true) :
    SET(dm, d, sig, act, si, true, w) = setWrites sig dm (si w) w := by
  rw [setWrites_eq_chain]
  unfold set_state___set_state
  simp only [hact, Bool.not_true, Bool.false_eq_true, ↓reduceIte, ite_pair, forRange_snoc, forRange_set6,
    forRange_set3, forRange_set4, ite_append_self, ite_add_self, ite_self, Int.toNat_of_nonneg hb,
    Int.toNat_of_nonneg hm]
  simp only [chain, offset, bit, sizes, setComp, setScalars, f2b, List.getD_cons_zero, List.getD_cons_succ,
    Int.reducePow]

/-- (4) **`set_state` layout**: for an unmasked world, for each selected component k (increasing k),
    element j is stored from `state_in[w, offset k + j]`; spatial vectors / vec3 / quaternions are
    assembled from 6/3/4 consecutive entries; `eq_active[w, j] = (state_in[w, offset k + j] != 0)`;
    components whose bit is clear contribute no write (see `set_frames`). -/
theorem set_eq_spec (dm : Dims) (d : Data K) (sig : Int) (act : Int → Bool) (si : Int → Int → K)
    (flag : Bool) (w : Int) (hb : 0 ≤ dm.nbody) (hm : 0 ≤ dm.nmocap) (hact : flag = false ∨ act w = true) :
    SET(dm, d, sig, act, si, flag, w) = setWrites sig dm (si w) w := by
  cases flag
  · exact set_eq_spec_nomask dm d sig act si w hb hm
  · rcases hact with h | h
    · cases h
    · exact set_eq_spec_active dm d sig act si w hb hm h

/-- every write of `set_state` (masked or not): a plain store to the array of a *selected* component,
    in the own world's row -/
theorem set_writes_classified (dm : Dims) (d : Data K) (sig : Int) (act : Int → Bool) (si : Int → Int → K)
    (flag : Bool) (w : Int) (hb : 0 ≤ dm.nbody) (hm : 0 ≤ dm.nmocap) (x : Write K)
    (hx : x ∈ SET(dm, d, sig, act, si, flag, w)) :
    ∃ k, k < 13 ∧ bit sig k = true ∧ x.arr = arrName k ∧ x.kind = WKind.set ∧ x.idx.head? = some w := by
  by_cases hact : flag = false ∨ act w = true
  · rw [set_eq_spec dm d sig act si flag w hb hm hact] at hx
    exact mem_setWrites hx
  · have hf : flag = true := by cases flag <;> simp_all
    have ha : act w = false := by cases hh : act w <;> simp_all
    subst hf
    rw [set_masked dm d sig act si w ha] at hx
    cases hx

/-- (2b) `set_state` only touches the own world (`idx` starts with `w`) and only the 13 state arrays -/
theorem set_only_own_world (dm : Dims) (d : Data K) (sig : Int) (act : Int → Bool) (si : Int → Int → K)
    (flag : Bool) (w : Int) (hb : 0 ≤ dm.nbody) (hm : 0 ≤ dm.nmocap) (x : Write K)
    (hx : x ∈ SET(dm, d, sig, act, si, flag, w)) :
    x.idx.head? = some w ∧ x.arr ∈ dataArrays ∧ x.kind = WKind.set := by
  obtain ⟨k, hk, _, h2, h3, h4⟩ := set_writes_classified dm d sig act si flag w hb hm x hx
  refine ⟨h4, ?_, h3⟩
  rw [h2]
  exact List.mem_map.mpr ⟨k, List.mem_range.mpr hk, rfl⟩

/-- (4') **frames**: a component whose bit is clear is not written at all -/
theorem set_frames (dm : Dims) (d : Data K) (sig : Int) (act : Int → Bool) (si : Int → Int → K)
    (flag : Bool) (w : Int) (hb : 0 ≤ dm.nbody) (hm : 0 ≤ dm.nmocap) (k : Nat) (hk : k < 13)
    (hclear : bit sig k = false) (x : Write K) (hx : x ∈ SET(dm, d, sig, act, si, flag, w)) :
    x.arr ≠ arrName k := by
  obtain ⟨i, hi, hbi, h2, _, _⟩ := set_writes_classified dm d sig act si flag w hb hm x hx
  rw [h2]
  apply arrName_inj hi hk
  rintro rfl
  rw [hbi] at hclear
  cases hclear

/-- (4'') frames at memory level: after applying `set_state`'s writes of thread `w`, every component of
    every other world, and every unselected component of world `w`, reads as before -/
theorem set_memory_frames (dm : Dims) (d0 : Data K) (sig : Int) (act : Int → Bool) (si : Int → Int → K)
    (flag : Bool) (w w' : Int) (hb : 0 ≤ dm.nbody) (hm : 0 ≤ dm.nmocap) (k : Nat)
    (hk : w' ≠ w ∨ (k < 13 ∧ bit sig k = false)) :
    comp dm (applyWrites (SET(dm, d0, sig, act, si, flag, w)) d0) w' k = comp dm d0 w' k := by
  apply comp_unchanged
  intro x hx
  rcases hk with hw | ⟨hk, hclear⟩
  · right
    rw [(set_only_own_world dm d0 sig act si flag w hb hm x hx).1]
    intro e; exact hw (Option.some.inj e).symm
  · left
    exact set_frames dm d0 sig act si flag w hb hm k hk hclear x hx

/-! ## 5. set → get round trip -/

/-- (5) **lossless**: run `set_state` on an unmasked world `w` from the row `state_in[w, ·]`, apply its
    writes to any Data `d0`, then run `get_state` with the same signature: it stores, at every address
    `a = 0 … stateSize-1` in order, `roundtripVal a` = `state_in[w, a]`, except inside the EQ_ACTIVE segment
    where the value is `if state_in[w, a] != 0 then 1 else 0` (`b2f (f2b ·)`). -/
theorem set_get_roundtrip (dm : Dims) (d0 : Data K) (sig : Int) (act act' : Int → Bool)
    (si so : Int → Int → K) (flag flag' : Bool) (w : Int) (h : dm.Nonneg)
    (hact : flag = false ∨ act w = true) (hact' : flag' = false ∨ act' w = true) :
    GET(dm, (applyWrites (SET(dm, d0, sig, act, si, flag, w)) d0), sig, act', so, flag', w)
      = writesAt w 0 (tab (stateSize sig (sizes dm)) (roundtripVal sig dm (si w))) := by
  rw [(get_eq_stateVec dm _ sig act' so flag' w h hact').1,
    set_eq_spec dm d0 sig act si flag w h.nbody h.nmocap hact, stateVec_post sig dm (si w) w d0 h]

/-- (5') the round trip is the identity on the state row when EQ_ACTIVE is not selected, or when the
    EQ_ACTIVE inputs are fixed points of float → Bool → float (i.e. are 0 or 1, see `b2f_f2b_real`) -/
theorem set_get_roundtrip_id (dm : Dims) (d0 : Data K) (sig : Int) (act act' : Int → Bool)
    (si so : Int → Int → K) (flag flag' : Bool) (w : Int) (h : dm.Nonneg)
    (hact : flag = false ∨ act w = true) (hact' : flag' = false ∨ act' w = true)
    (h01 : bit sig 9 = true → ∀ a, offset sig (sizes dm) 9 ≤ a → a < offset sig (sizes dm) 10 →
      b2f (f2b (si w a)) = si w a) :
    GET(dm, (applyWrites (SET(dm, d0, sig, act, si, flag, w)) d0), sig, act', so, flag', w)
      = writesAt w 0 (tab (stateSize sig (sizes dm)) (si w)) := by
  rw [set_get_roundtrip dm d0 sig act act' si so flag flag' w h hact hact']
  congr 1
  apply tab_congr
  intro a _ _
  unfold roundtripVal
  split
  · next hc => exact h01 hc.1 a hc.2.1 hc.2.2
  · rfl

/-- (5'') over ℝ the EQ_ACTIVE round trip `x ↦ if x ≠ 0 then 1 else 0` is the identity exactly on {0, 1}:
    so `set_get_roundtrip_id`'s hypothesis says "the EQ_ACTIVE inputs are 0/1" -/
theorem b2f_f2b_real (x : ℝ) : b2f (f2b x) = x ↔ (x = 0 ∨ x = 1) := by
  unfold b2f f2b
  simp only [sbne, slit]
  by_cases h : x = 0
  · subst h; simp
  · simp [h]
    constructor
    · intro h1; exact h1.symm
    · intro h1; exact h1.symm

/-- the signature test of both kernels, `(2^k) & sig != 0` in int32, is "bit k of sig is set" -/
theorem bit_semantics (sig : Int) (hs : 0 ≤ sig) (k : Nat) (hk : k < 32) :
    bit sig k = sig.toNat.testBit k := bit_eq_testBit sig hs k hk

/-! ## 6. non-vacuity: concrete instances -/

/-- a small model: nq=2 nv=1 nu=1 na=0 nbody=1 neq=1 nmocap=1 nuserdata=0 nhistory=0 -/
def dmEx : Dims := ⟨2, 1, 1, 0, 1, 1, 1, 0, 0⟩

example : dmEx.Nonneg := by constructor <;> decide

/-- sig = 0b101 (TIME, QVEL): sizes and offsets -/
example : stateSize 0b101 (sizes dmEx) = 2 := by decide
example : offset 0b101 (sizes dmEx) 2 = 1 := by decide
/-- full physics+user signature 0x1FFF: 1+2+1+0+0+1+1+1+6+1+3+4+0 -/
example : stateSize 0x1FFF (sizes dmEx) = 21 := by decide
example : offset 0x1FFF (sizes dmEx) 9 = 13 ∧ offset 0x1FFF (sizes dmEx) 11 = 17 := by decide

/-- the kernel at an abstract K, sig = 0b101, world 3, no mask: TIME at address 0, QVEL at address 1 -/
example (d : Data K) (so : Int → Int → K) (act : Int → Bool) :
    GET(dmEx, d, 0b101, act, so, false, 3)
      = [⟨"state_out", [3, 0], WVal.f (d.time 3), WKind.set⟩,
         ⟨"state_out", [3, 1], WVal.f (d.qvel 3 0), WKind.set⟩] := by
  rw [get_eq_spec dmEx d 0b101 act so false 3 (by decide) (by decide) (Or.inl rfl)]
  rfl

/-- sig = MOCAP_POS | MOCAP_QUAT | QPOS: QPOS at 0..1, pos at 2..4, quat (w x y z) at 5..8 -/
example (d : Data K) (so : Int → Int → K) (act : Int → Bool) (hact : act 0 = true) :
    (GET(dmEx, d, 0b110000000010, act, so, true, 0)).map (fun x => (x.idx, x.val))
      = [([0, 0], WVal.f (d.qpos 0 0)), ([0, 1], WVal.f (d.qpos 0 1)),
         ([0, 2], WVal.f (d.mocap_pos 0 0).c0), ([0, 3], WVal.f (d.mocap_pos 0 0).c1),
         ([0, 4], WVal.f (d.mocap_pos 0 0).c2),
         ([0, 5], WVal.f (d.mocap_quat 0 0).c0), ([0, 6], WVal.f (d.mocap_quat 0 0).c1),
         ([0, 7], WVal.f (d.mocap_quat 0 0).c2), ([0, 8], WVal.f (d.mocap_quat 0 0).c3)] := by
  rw [get_eq_spec dmEx d _ act so true 0 (by decide) (by decide) (Or.inr hact)]
  rfl

/-- `set_state`, sig = XFRC_APPLIED | EQ_ACTIVE | TIME at an abstract K -/
example (d : Data K) (si : Int → Int → K) (act : Int → Bool) :
    SET(dmEx, d, 0b1100000001, act, si, false, 5)
      = [⟨"time_out", [5], WVal.f (si 5 0), WKind.set⟩,
         ⟨"xfrc_applied_out", [5, 0],
            WVal.v [si 5 1, si 5 2, si 5 3, si 5 4, si 5 5, si 5 6], WKind.set⟩,
         ⟨"eq_active_out", [5, 0], WVal.b (Scalar.bne (si 5 7) (Scalar.lit 0 0)), WKind.set⟩] := by
  rw [set_eq_spec dmEx d _ act si false 5 (by decide) (by decide) (Or.inl rfl)]
  rfl

/-- round trip on a concrete instance, sig = TIME | EQ_ACTIVE, world 2, with masks that select world 2:
    TIME comes back verbatim, the EQ_ACTIVE entry comes back as `if x != 0 then 1 else 0` -/
example (d0 : Data K) (si so : Int → Int → K) (act : Int → Bool) (hact : act 2 = true) :
    GET(dmEx, (applyWrites (SET(dmEx, d0, 0b1000000001, act, si, true, 2)) d0), 0b1000000001, act, so, true, 2)
      = [⟨"state_out", [2, 0], WVal.f (si 2 0), WKind.set⟩,
         ⟨"state_out", [2, 1], WVal.f (if Scalar.bne (si 2 1) (Scalar.lit 0 0) then Scalar.lit 1 0
            else Scalar.lit 0 0), WKind.set⟩] := by
  rw [set_get_roundtrip dmEx d0 _ act act si so true true 2 (by constructor <;> decide) (Or.inr hact)
    (Or.inr hact)]
  rfl

/-- the hypotheses of `set_get_roundtrip_id` are satisfiable with EQ_ACTIVE selected: over ℝ, a 0/1 row -/
example : ∀ a : Int, b2f (f2b ((fun _ => (1 : ℝ)) a)) = (fun _ => (1 : ℝ)) a :=
  fun _ => (b2f_f2b_real 1).mpr (Or.inr rfl)

/-- masks: a masked world exists (hypothesis of `get_masked`), and an unmasked one -/
example : (fun w : Int => decide (w = 1)) 0 = false ∧ (fun w : Int => decide (w = 1)) 1 = true := by decide

end Mjw.Props.C15
