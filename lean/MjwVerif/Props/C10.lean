/-
  C10  Per-world model parameters take effect only in their world.
  Table theorem over Gen/Graph.lean (regenerated from /repo): every device access to a batched ("*"-led) Model field
  is a READ at `worldid % <that field>.shape[0]`, in every kernel outside `set_const` — so world w sees exactly slice
  w % n of the field, i.e. what an unbatched Model holding that slice would show it (n = 1 ⇒ index 0).  With NI-world
  (C09) nothing else of the batched field can influence world w.
  `noncollision_geometry_consumers_in_table`: the non-collision consumers of batched geom_size (spatial-tendon wrapping,
  fluid force) are rows of the table (coverage / non-vacuity of the table theorem for them).
  C10_partial: fields consumed on the HOST at put_model/make_data time are outside the table (listed in the
  evidence as host-consumed); arrays handed whole to a `wp.func` (ray, sensor, narrowphase helpers) are indexed inside
  the callee, which the table does not see (covered by the differential oracle only).
-/
import MjwVerif.Gen.Graph
import MjwVerif.Lemmas.NI

namespace Mjw.Props.C10
open Mjw.Discipline Mjw.Gen.Graph

def setConstModule : Nat := moduleId "set_const"
def stepRows : List Access := rows.filter (fun a => a.modul != setConstModule)

def showIdx : IdxClass → String
  | .w => "worldid" | .wmod p => "worldid % " ++ name p ++ ".shape[0]" | .tid => "tid" | .const => "const" | .other => "other"

/-- batched Model fields accessed other than "read at worldid % own shape[0]" by step/forward/sensor/collision kernels -/
def batchedViolations : List (String × String × String × RW) :=
  (((stepRows.filter (fun a => a.fclass == .modelBatched && !a.ok)).map (fun a => (a.kernel, a.param, a.idx0, a.rw))).eraseDups).map
    (fun t => (name t.1, name t.2.1, showIdx t.2.2.1, t.2.2.2))

/-- **No deviation in the whole package.**  (Before the repair `fix: flex narrowphase always used world 0's
    ccd_tolerance` this list was `[("collision_flex._flex_narrowphase.kernel", "opt_ccd_tolerance", "other", read)]`:
    the table found that defect.) -/
theorem batched_fields_sliced : batchedViolations = [] := by
  decide +kernel

/-- the table rows "a kernel of module `m` READS a batched Model field" (names are interned: only Nat comparisons here) -/
def batchedReadRows (m : String) : List Access :=
  let mi := moduleId m
  rows.filter (fun a => a.modul == mi && a.fclass == .modelBatched && a.rw == .read)

/-- the table has a row "kernel `k` of module `m` READS the batched Model field `f`" (so `batched_fields_sliced` speaks
    about that access).  Strings are compared for the distinct kernels of the module and the distinct fields of the
    kernel only (string comparison is slow in the kernel). -/
def readsBatched (m k f : String) : Bool :=
  let rs := batchedReadRows m
  match ((rs.map (·.kernel)).eraseDups).find? (fun i => name i == k) with
  | none => false
  | some ki => (((rs.filter (fun a => a.kernel == ki)).map (·.field)).eraseDups).any (fun i => name i == f)

/-- **Coverage of the non-collision consumers of batched geometry.**  The kernels that consume `geom_size` outside
    collision detection — spatial-tendon wrapping around spheres/cylinders, fluid forces — are rows of the table, i.e. `batched_fields_sliced` constrains exactly these reads (it would
    be vacuous for them if the extractor lost the kernel or its launch binding).  A change such as
    `geom_size[elementid % geom_size.shape[0], …]` in `_spatial_geom_tendon` turns that row's class into `other` and
    breaks `batched_fields_sliced` (checked against the regenerated table of the seeded change C10b). -/
theorem noncollision_geometry_consumers_in_table :
    readsBatched "smooth" "smooth._spatial_geom_tendon" "Model.geom_size" = true ∧
    readsBatched "passive" "passive._fluid_force" "Model.geom_size" = true := by
  decide +kernel

/-- non-vacuity of `readsBatched`: it is `false` where the table has no such row (here: no such module) -/
example : readsBatched "no_such_module" "smooth._spatial_geom_tendon" "Model.geom_size" = false := by decide +kernel

/-- `set_const` kernels write derived Model fields; each write to a batched field must use a modulo index or the
    world id with a launch dimension equal to the field's own batch size.  The rows below are the ones whose modulo
    is taken from a DIFFERENT field's batch size (wrong slice / out of bounds if the fields are batched differently)
    or that index by the raw world id.  (The four cam_*/light_* rows that used cam_pos0's / light_pos0's batch size were
    repaired in /repo: "fix: set_const indexed cam_poscom0, cam_mat0, light_poscom0 and light_dir0 with another field's
    batch size"; they would reappear here if the defect returned.) -/
def setConstSuspicious : List (String × String × String) :=
  ((((rows.filter (fun a => a.modul == setConstModule && a.fclass == .modelBatched && a.rw != .read)).filter
      (fun a => a.idx0 != .wmod a.param)).map (fun a => (a.kernel, a.param, a.idx0))).eraseDups).map
    (fun t => (name t.1, name t.2.1, showIdx t.2.2))

theorem set_const_write_indices :
    setConstSuspicious =
      [("set_const._compute_actuator_acc0", "actuator_acc0_out", "worldid"),
       ("set_const._set_length_range", "actuator_lengthrange_out", "worldid")] := by
  decide +kernel

/-- the slice a world reads: for batch size n ≥ 1 and world w ≥ 0 the index `w % n` is a valid slice, equals `w`
    when n = nworld (fully batched) and `0` when n = 1 (unbatched) — the two cases the property names, and
    `w % n` for divisors of nworld. -/
theorem slice_index (w n : Int) (hw : 0 ≤ w) (hn : 0 < n) :
    0 ≤ Int.tmod w n ∧ Int.tmod w n < n ∧ (w < n → Int.tmod w n = w) ∧ (n = 1 → Int.tmod w n = 0) := by
  refine ⟨Int.tmod_nonneg _ hw, Int.tmod_lt_of_pos _ hn, fun h => Int.tmod_eq_of_lt hw h, fun h => by subst h; simp⟩

end Mjw.Props.C10
