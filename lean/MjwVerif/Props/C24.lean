/-
  C24  Constraint forces are physically admissible.

  Theorems are about `Mjw.Gen.Solver._eval_constraint` / `_eval_elliptic_middle` (regenerated from
  /repo/mujoco_warp/_src/solver.py on every run), instantiated at K = ℝ.
  `_eval_constraint` returns a V3:  c0 = force,  c1 = ConstraintState as a float,  c2 = cost.
  ConstraintState (types.py / mujoco.mjtConstraintState):
      SATISFIED = 0, QUADRATIC = 1, LINEARNEG = 2, LINEARPOS = 3, CONE = 4.
  Row kinds (flags is_equality, is_friction, is_elliptic):
      equality (true,_,_), friction loss (false,true,_), elliptic contact (false,false,true),
      limit / frictionless contact / pyramidal edge (false,false,false).
  Helper lemmas (closed forms obtained by unfolding the generated code): Lemmas/C24.lean.

  Sections: 1 equality · 2 friction loss (|force| ≤ frictionloss, D = 0 case) · 3 limit/pyramidal
  (force ≥ 0) · 4 elliptic (zones, cone condition 4g/4h/4j) · 5 force = -∂cost/∂jaref, continuity ·
  6 cost ≥ 0 · 7 SATISFIED ⇒ zero force · 8 consistency with line-search evaluators · examples ·
  9 kernel level (`_update_constraint_efc__kernel`, tracking on, generic K): a thread that writes a row state different from
  the stored one increments `state_changed_count` (`state_change_is_counted`), so the Newton/pyramidal stable-state fast path
  (stale gradient, `qfrc_constraint` recovered as Ma - qfrc_smooth - grad_scale*grad) is only taken by worlds in which no
  row force law changed branch; example: friction row LINEARNEG → LINEARPOS.
  Missing: the launch-level statement (sum of the atomic increments over the threads of a world = number of changed rows,
  and the recovery identity qfrc_constraint = Jᵀ·force itself) is not proved; it is sampled by the harness oracle.
  What is FALSE: continuity of friction force/cost across ±rf when D = 0 (see Props/C24Witness.lean).
-/
import MjwVerif.Lemmas.C24

set_option linter.unusedVariables false
set_option linter.unusedSimpArgs false
set_option linter.unusedTactic false

namespace Mjw.Props.C24
open Mjw Mjw.Gen.Solver Mjw.Gen.Math Mjw.Lemmas.C24

/-- ConstraintState values as floats (what `_eval_constraint` puts in `c1`). -/
abbrev SATISFIED : ℝ := 0
abbrev QUADRATIC : ℝ := 1
abbrev LINEARNEG : ℝ := 2
abbrev LINEARPOS : ℝ := 3
abbrev CONE : ℝ := 4

/-! ## 1. equality rows -/

/-- (1) equality rows: force = -D·jaref, state = QUADRATIC, cost = ½·D·jaref². -/
theorem equality_row (bf be : Bool) (jaref D f : ℝ) (e e0 : Int) (j0 D0 mu u TT : ℝ) :
    _eval_constraint true bf be jaref D f e e0 j0 D0 mu u TT
      = ⟨-(D * jaref), QUADRATIC, 1 / 2 * D * jaref ^ 2⟩ := by
  rw [eval_equality]; congr 1; ring

/-! ## 2. friction-loss rows -/

/-- (2a) friction-loss rows never exceed their friction loss: |force| ≤ frictionloss.
    Holds for every D ≥ 0 — including D = 0, where `safe_div` divides by MJ_MINVAL. -/
theorem friction_abs_le (be : Bool) (jaref D f : ℝ) (e e0 : Int) (j0 D0 mu u TT : ℝ)
    (hD : 0 ≤ D) (hf : 0 ≤ f) :
    |(_eval_constraint false true be jaref D f e e0 j0 D0 mu u TT).c0| ≤ f := by
  rw [eval_friction]
  rcases eq_or_lt_of_le hD with h | h
  · subst h
    rw [safe_div_zero]
    split_ifs <;> simp [abs_of_nonneg, hf]
  · rw [safe_div_ne _ _ (ne_of_gt h)]
    split_ifs with h1 h2
    · simp [abs_of_nonneg, hf]
    · simp [abs_of_nonneg, hf]
    · rw [not_le] at h1 h2
      have e1 : f / D * D = f := by field_simp
      simp only
      rw [abs_le]
      constructor <;> nlinarith

/-- (2b) the state of a friction row is decided by comparing jaref with ±rf, rf = frictionloss / D
    (D ≠ 0, so `safe_div` is a true division). -/
theorem friction_state_iff (be : Bool) (jaref D f : ℝ) (e e0 : Int) (j0 D0 mu u TT : ℝ)
    (hD : 0 < D) (hf : 0 ≤ f) :
    let R := _eval_constraint false true be jaref D f e e0 j0 D0 mu u TT
    (R.c1 = LINEARNEG ↔ jaref ≤ -(f / D)) ∧
    (R.c1 = LINEARPOS ↔ (-(f / D) < jaref ∧ f / D ≤ jaref)) ∧
    (R.c1 = QUADRATIC ↔ (-(f / D) < jaref ∧ jaref < f / D)) := by
  intro R
  have hR : R = _ := eval_friction be jaref D f e e0 j0 D0 mu u TT
  rw [safe_div_ne _ _ (ne_of_gt hD)] at hR
  rw [hR]
  split_ifs with h1 h2
  all_goals try simp only [not_le] at h1
  all_goals try simp only [not_le] at h2
  all_goals norm_num
  all_goals
    refine ⟨?_, ?_, ?_⟩ <;>
      first | linarith | (intro _; linarith) | exact ⟨by linarith, by linarith⟩

/-- (2c) in the LINEARNEG state the force is exactly +frictionloss (no hypothesis on D, f). -/
theorem friction_linearneg_force (be : Bool) (jaref D f : ℝ) (e e0 : Int) (j0 D0 mu u TT : ℝ)
    (h : (_eval_constraint false true be jaref D f e e0 j0 D0 mu u TT).c1 = LINEARNEG) :
    (_eval_constraint false true be jaref D f e e0 j0 D0 mu u TT).c0 = f := by
  rw [eval_friction] at h ⊢
  split_ifs at h ⊢ <;> first | rfl | (norm_num at h; done)

/-- (2d) in the LINEARPOS state the force is exactly -frictionloss. -/
theorem friction_linearpos_force (be : Bool) (jaref D f : ℝ) (e e0 : Int) (j0 D0 mu u TT : ℝ)
    (h : (_eval_constraint false true be jaref D f e e0 j0 D0 mu u TT).c1 = LINEARPOS) :
    (_eval_constraint false true be jaref D f e e0 j0 D0 mu u TT).c0 = -f := by
  rw [eval_friction] at h ⊢
  split_ifs at h ⊢ <;> first | rfl | (norm_num at h; done)

/-- (2e) in the QUADRATIC state the force is -D·jaref and the cost ½·D·jaref². -/
theorem friction_quadratic_force (be : Bool) (jaref D f : ℝ) (e e0 : Int) (j0 D0 mu u TT : ℝ)
    (h : (_eval_constraint false true be jaref D f e e0 j0 D0 mu u TT).c1 = QUADRATIC) :
    (_eval_constraint false true be jaref D f e e0 j0 D0 mu u TT).c0 = -(D * jaref) ∧
    (_eval_constraint false true be jaref D f e e0 j0 D0 mu u TT).c2 = 1 / 2 * D * jaref ^ 2 := by
  rw [eval_friction] at h ⊢
  split_ifs at h ⊢ <;> first | (norm_num at h; done) | (constructor <;> ring)

/-- (2f) a friction row is always in one of the three friction states. -/
theorem friction_state_cases (be : Bool) (jaref D f : ℝ) (e e0 : Int) (j0 D0 mu u TT : ℝ) :
    let R := _eval_constraint false true be jaref D f e e0 j0 D0 mu u TT
    R.c1 = QUADRATIC ∨ R.c1 = LINEARNEG ∨ R.c1 = LINEARPOS := by
  intro R
  have hR : R = _ := eval_friction be jaref D f e e0 j0 D0 mu u TT
  rw [hR]
  split_ifs <;> simp

/-- (2g) closed form (D > 0, frictionloss ≥ 0): force = clamp(-D·jaref, -frictionloss, +frictionloss);
    in particular the force is a continuous function of jaref. -/
theorem friction_force_eq_clamp (be : Bool) (jaref D f : ℝ) (e e0 : Int) (j0 D0 mu u TT : ℝ)
    (hD : 0 < D) (hf : 0 ≤ f) :
    (_eval_constraint false true be jaref D f e e0 j0 D0 mu u TT).c0
      = max (-f) (min f (-(D * jaref))) := by
  rw [eval_friction, safe_div_ne _ _ (ne_of_gt hD)]
  have e1 : f / D * D = f := by field_simp
  split_ifs with h1 h2
  · have : f ≤ -(D * jaref) := by nlinarith
    simp only
    rw [min_eq_left this, max_eq_right (by linarith)]
  · rw [not_le] at h1
    have : -(D * jaref) ≤ -f := by nlinarith
    simp only
    rw [min_eq_right (by linarith), max_eq_left this]
  · rw [not_le] at h1 h2
    have a1 : -(D * jaref) ≤ f := by nlinarith
    have a2 : -f ≤ -(D * jaref) := by nlinarith
    simp only
    rw [min_eq_right a1, max_eq_right a2]

/-- (2h) degenerate D = 0, said honestly: `safe_div` substitutes MJ_MINVAL = 1e-15 for the zero
    divisor, so rf = frictionloss·10¹⁵ (not frictionloss/0).  The row is LINEARNEG / LINEARPOS with
    force ±frictionloss outside (-rf, rf), and QUADRATIC with force 0 and cost 0 inside. -/
theorem friction_D_zero (be : Bool) (jaref f : ℝ) (e e0 : Int) (j0 D0 mu u TT : ℝ) :
    _eval_constraint false true be jaref 0 f e e0 j0 D0 mu u TT
      = if jaref ≤ -(f * 10 ^ 15) then
          ⟨f, LINEARNEG, -(f * (1 / 2 * (f * 10 ^ 15) + jaref))⟩
        else if f * 10 ^ 15 ≤ jaref then
          ⟨-f, LINEARPOS, -(f * (1 / 2 * (f * 10 ^ 15) - jaref))⟩
        else ⟨0, QUADRATIC, 0⟩ := by
  rw [eval_friction, safe_div_zero]
  split_ifs <;> first | rfl | (congr 1 <;> ring)

/-! ## 3. limit / frictionless-contact / pyramidal rows -/

/-- (3a) limit forces, frictionless normal forces and pyramidal edge forces are non-negative. -/
theorem limit_force_nonneg (jaref D f : ℝ) (e e0 : Int) (j0 D0 mu u TT : ℝ) (hD : 0 ≤ D) :
    0 ≤ (_eval_constraint false false false jaref D f e e0 j0 D0 mu u TT).c0 := by
  rw [eval_limit]
  split_ifs with h
  · simp
  · rw [not_le] at h; simp only; nlinarith

/-- (3b) state = SATISFIED ↔ jaref ≥ 0. -/
theorem limit_satisfied_iff (jaref D f : ℝ) (e e0 : Int) (j0 D0 mu u TT : ℝ) :
    (_eval_constraint false false false jaref D f e e0 j0 D0 mu u TT).c1 = SATISFIED ↔ 0 ≤ jaref := by
  rw [eval_limit]
  split_ifs with h <;> simp [h]

/-- (3c) a satisfied row carries zero force and zero cost. -/
theorem limit_satisfied (jaref D f : ℝ) (e e0 : Int) (j0 D0 mu u TT : ℝ) (h : 0 ≤ jaref) :
    _eval_constraint false false false jaref D f e e0 j0 D0 mu u TT = ⟨0, SATISFIED, 0⟩ := by
  rw [eval_limit, if_pos h]

/-- (3d) a violated row (jaref < 0) is QUADRATIC with force -D·jaref, strictly positive when D > 0. -/
theorem limit_active (jaref D f : ℝ) (e e0 : Int) (j0 D0 mu u TT : ℝ) (h : jaref < 0) :
    _eval_constraint false false false jaref D f e e0 j0 D0 mu u TT
      = ⟨-(D * jaref), QUADRATIC, 1 / 2 * D * jaref ^ 2⟩ ∧
    (0 < D → 0 < (_eval_constraint false false false jaref D f e e0 j0 D0 mu u TT).c0) := by
  rw [eval_limit, if_neg (not_le.mpr h)]
  refine ⟨by congr 1; ring, fun hD => ?_⟩
  simp only; nlinarith

/-- (3e) closed form (D ≥ 0): force = max(0, -D·jaref); continuous in jaref. -/
theorem limit_force_eq_max (jaref D f : ℝ) (e e0 : Int) (j0 D0 mu u TT : ℝ) (hD : 0 ≤ D) :
    (_eval_constraint false false false jaref D f e e0 j0 D0 mu u TT).c0 = max 0 (-(D * jaref)) := by
  rw [eval_limit]
  split_ifs with h
  · simp only; rw [max_eq_left]; nlinarith
  · rw [not_le] at h; simp only; rw [max_eq_right]; nlinarith

/-! ## 4. elliptic contact rows
    Notation of the source: `N = jaref0 * mu`, `T = √TT` (the generated code sets `T = 0` when
    `TT ≤ 0`; for `TT ≥ 0` — it is a sum of squares — that is `√TT`, using only `√0 = 0`). -/

/-- (4a) zone decomposition for mu > 0: top zone `mu·T ≤ N` → SATISFIED, zero force;
    bottom zone `mu·N + T ≤ 0` → QUADRATIC, force -D·jaref; otherwise middle zone → CONE with
    force / cost from `_eval_elliptic_middle`. -/
theorem elliptic_zones (jaref D f : ℝ) (e e0 : Int) (j0 D0 mu u TT : ℝ) (hTT : 0 ≤ TT) (hmu : 0 < mu) :
    _eval_constraint false false true jaref D f e e0 j0 D0 mu u TT
      = if mu * Real.sqrt TT ≤ j0 * mu then ⟨0, SATISFIED, 0⟩
        else if mu * (j0 * mu) + Real.sqrt TT ≤ 0 then ⟨-(D * jaref), QUADRATIC, 1 / 2 * D * jaref ^ 2⟩
        else
          ⟨(_eval_elliptic_middle (j0 * mu) (Real.sqrt TT) D0 mu u (decide (e = e0))).c0, CONE,
           (_eval_elliptic_middle (j0 * mu) (Real.sqrt TT) D0 mu u (decide (e = e0))).c1⟩ := by
  rw [eval_elliptic_pos _ _ _ _ _ _ _ _ _ _ hTT hmu]
  have : 1 / 2 * D * jaref * jaref = 1 / 2 * D * jaref ^ 2 := by ring
  rw [this]

/-- (4b) top zone, exactly the generated test (no sign hypothesis on mu): zero force, SATISFIED. -/
theorem elliptic_top (jaref D f : ℝ) (e e0 : Int) (j0 D0 mu u TT : ℝ) (hTT : 0 ≤ TT)
    (h : mu * Real.sqrt TT ≤ j0 * mu ∨ (Real.sqrt TT ≤ 0 ∧ 0 ≤ j0 * mu)) :
    _eval_constraint false false true jaref D f e e0 j0 D0 mu u TT = ⟨0, SATISFIED, 0⟩ := by
  rw [eval_elliptic _ _ _ _ _ _ _ _ _ _ hTT, if_pos h]

/-- (4c) bottom zone, exactly the generated test: force = -D·jaref, QUADRATIC. -/
theorem elliptic_bottom (jaref D f : ℝ) (e e0 : Int) (j0 D0 mu u TT : ℝ) (hTT : 0 ≤ TT)
    (htop : ¬ (mu * Real.sqrt TT ≤ j0 * mu ∨ (Real.sqrt TT ≤ 0 ∧ 0 ≤ j0 * mu)))
    (h : mu * (j0 * mu) + Real.sqrt TT ≤ 0 ∨ (Real.sqrt TT ≤ 0 ∧ j0 * mu < 0)) :
    _eval_constraint false false true jaref D f e e0 j0 D0 mu u TT
      = ⟨-(D * jaref), QUADRATIC, 1 / 2 * D * jaref ^ 2⟩ := by
  rw [eval_elliptic _ _ _ _ _ _ _ _ _ _ hTT, if_neg htop, if_pos h]
  congr 1; ring

/-- (4d) middle zone (mu > 0, N < mu·T, mu·N + T > 0): then T > 0, the state is CONE and force/cost
    are those of `_eval_elliptic_middle` (normal row iff efcid = efcid0). -/
theorem elliptic_middle (jaref D f : ℝ) (e e0 : Int) (j0 D0 mu u TT : ℝ) (hTT : 0 ≤ TT) (hmu : 0 < mu)
    (h1 : j0 * mu < mu * Real.sqrt TT) (h2 : 0 < mu * (j0 * mu) + Real.sqrt TT) :
    0 < Real.sqrt TT ∧
    _eval_constraint false false true jaref D f e e0 j0 D0 mu u TT
      = ⟨(_eval_elliptic_middle (j0 * mu) (Real.sqrt TT) D0 mu u (decide (e = e0))).c0, CONE,
         (_eval_elliptic_middle (j0 * mu) (Real.sqrt TT) D0 mu u (decide (e = e0))).c1⟩ := by
  constructor
  · rcases eq_or_lt_of_le (Real.sqrt_nonneg TT) with h | h
    · rw [← h] at h1 h2; nlinarith
    · exact h
  · rw [eval_elliptic_pos _ _ _ _ _ _ _ _ _ _ hTT hmu, if_neg (not_le.mpr h1), if_neg (not_le.mpr h2)]

/-- (4e) middle zone: the normal force is strictly positive (D0 > 0, mu > 0, N < mu·T),
    and equals `D0/(mu²(1+mu²)) · (mu·T - N) · mu`. -/
theorem middle_normal_force_pos (N T D0 mu u : ℝ) (hD0 : 0 < D0) (hmu : 0 < mu) (h : N < mu * T) :
    (_eval_elliptic_middle N T D0 mu u true).c0 = D0 / (mu * mu * (1 + mu * mu)) * (mu * T - N) * mu ∧
    0 < (_eval_elliptic_middle N T D0 mu u true).c0 := by
  rw [middle_normal _ _ _ _ _ (ne_of_gt hmu)]
  simp only
  have hd : 0 < D0 / (mu * mu * (1 + mu * mu)) := by positivity
  refine ⟨by ring, ?_⟩
  have : 0 < D0 / (mu * mu * (1 + mu * mu)) * (mu * T - N) * mu :=
    mul_pos (mul_pos hd (by linarith)) hmu
  linarith

/-- (4f) middle zone, tangent row (T ≠ 0, so `safe_div` is a true division):
    force = -(f_n / T)·ufrictionj, cost contribution 0. -/
theorem middle_tangent_force (N T D0 mu u : ℝ) (hT : T ≠ 0) :
    _eval_elliptic_middle N T D0 mu u false
      = ⟨-((_eval_elliptic_middle N T D0 mu u true).c0 / T) * u, 0⟩ :=
  middle_tangent N T D0 mu u hT

/-- (4g) **cone condition, scaled coordinates**: if the tangent inputs satisfy u₁² + u₂² = T²
    (T ≠ 0) then the tangent forces returned by `_eval_elliptic_middle` satisfy
    f_t1² + f_t2² = f_n²: the assembled force is ON the boundary of the cone. -/
theorem middle_cone_boundary (N T D0 mu u0 u1 u2 : ℝ) (hT : T ≠ 0) (hu : u1 ^ 2 + u2 ^ 2 = T ^ 2) :
    (_eval_elliptic_middle N T D0 mu u1 false).c0 ^ 2 + (_eval_elliptic_middle N T D0 mu u2 false).c0 ^ 2
      = (_eval_elliptic_middle N T D0 mu u0 true).c0 ^ 2 := by
  rw [middle_tangent _ _ _ _ u1 hT, middle_tangent _ _ _ _ u2 hT]
  have e1 : (_eval_elliptic_middle N T D0 mu u1 true).c0 = (_eval_elliptic_middle N T D0 mu u0 true).c0 := by
    simp only [_eval_elliptic_middle, if_true]
  have e2 : (_eval_elliptic_middle N T D0 mu u2 true).c0 = (_eval_elliptic_middle N T D0 mu u0 true).c0 := by
    simp only [_eval_elliptic_middle, if_true]
  simp only [e1, e2]
  generalize (_eval_elliptic_middle N T D0 mu u0 true).c0 = fn
  field_simp
  linear_combination fn ^ 2 * hu

/-- (4h) **cone condition for a whole condim-3 elliptic contact, in the caller's variables.**
    The caller (`update_constraint_efc` kernel in solver.py) passes, for tangent row j with friction
    coefficient fr_j:  TT = Σ (jaref_j·fr_j)²  and  ufrictionj = jaref_j·fr_j².  The forces returned
    by `_eval_constraint` for the normal row (efcid = efcid0) and the two tangent rows then satisfy
        (F1/fr1)² + (F2/fr2)² = F0²,   F0 > 0
    i.e. the contact force lies exactly on the boundary of MuJoCo's elliptic friction cone
    { F0 ≥ 0, Σ (F_j/fr_j)² ≤ F0² }  ("inside the cone", with equality, as expected for the
    projection of a point in the middle zone). D1, D2, frictionloss and the normal row's
    ufrictionj are irrelevant. -/
theorem elliptic_contact_on_cone_boundary
    (jn j1 j2 D0 D1 D2 mu fr1 fr2 f u0 : ℝ) (e0 e1 e2 : Int)
    (he1 : e1 ≠ e0) (he2 : e2 ≠ e0) (hD0 : 0 < D0) (hmu : 0 < mu) (hfr1 : 0 < fr1) (hfr2 : 0 < fr2)
    (h1 : jn * mu < mu * Real.sqrt ((j1 * fr1) ^ 2 + (j2 * fr2) ^ 2))
    (h2 : 0 < mu * (jn * mu) + Real.sqrt ((j1 * fr1) ^ 2 + (j2 * fr2) ^ 2)) :
    let TT := (j1 * fr1) ^ 2 + (j2 * fr2) ^ 2
    let F0 := (_eval_constraint false false true jn D0 f e0 e0 jn D0 mu u0 TT).c0
    let F1 := (_eval_constraint false false true j1 D1 f e1 e0 jn D0 mu (j1 * fr1 * fr1) TT).c0
    let F2 := (_eval_constraint false false true j2 D2 f e2 e0 jn D0 mu (j2 * fr2 * fr2) TT).c0
    0 < F0 ∧ (F1 / fr1) ^ 2 + (F2 / fr2) ^ 2 = F0 ^ 2 := by
  intro TT F0 F1 F2
  have hTT : 0 ≤ TT := by positivity
  obtain ⟨hT, r0⟩ := elliptic_middle jn D0 f e0 e0 jn D0 mu u0 TT hTT hmu h1 h2
  obtain ⟨_, r1⟩ := elliptic_middle j1 D1 f e1 e0 jn D0 mu (j1 * fr1 * fr1) TT hTT hmu h1 h2
  obtain ⟨_, r2⟩ := elliptic_middle j2 D2 f e2 e0 jn D0 mu (j2 * fr2 * fr2) TT hTT hmu h1 h2
  have hF0 : F0 = (_eval_elliptic_middle (jn * mu) (Real.sqrt TT) D0 mu u0 true).c0 := by
    simp only [F0, r0, decide_true]
  have hF1 : F1 = (_eval_elliptic_middle (jn * mu) (Real.sqrt TT) D0 mu (j1 * fr1 * fr1) false).c0 := by
    simp only [F1, r1, decide_eq_false he1]
  have hF2 : F2 = (_eval_elliptic_middle (jn * mu) (Real.sqrt TT) D0 mu (j2 * fr2 * fr2) false).c0 := by
    simp only [F2, r2, decide_eq_false he2]
  have hpos := (middle_normal_force_pos (jn * mu) (Real.sqrt TT) D0 mu u0 hD0 hmu h1).2
  rw [← hF0] at hpos
  refine ⟨hpos, ?_⟩
  have hTne : Real.sqrt TT ≠ 0 := ne_of_gt hT
  have hsq : Real.sqrt TT ^ 2 = TT := Real.sq_sqrt hTT
  have e1' : (_eval_elliptic_middle (jn * mu) (Real.sqrt TT) D0 mu (j1 * fr1 * fr1) true).c0 = F0 := by
    rw [hF0]; simp only [_eval_elliptic_middle, if_true]
  have e2' : (_eval_elliptic_middle (jn * mu) (Real.sqrt TT) D0 mu (j2 * fr2 * fr2) true).c0 = F0 := by
    rw [hF0]; simp only [_eval_elliptic_middle, if_true]
  rw [hF1, hF2, middle_tangent _ _ _ _ _ hTne, middle_tangent _ _ _ _ _ hTne, e1', e2']
  simp only
  clear_value F0
  have hfr1' := ne_of_gt hfr1
  have hfr2' := ne_of_gt hfr2
  field_simp
  have : TT = (j1 * fr1) ^ 2 + (j2 * fr2) ^ 2 := rfl
  rw [← hsq] at this
  linear_combination (-1 : ℝ) * this

/-- (4i) bottom zone of a condim-3 elliptic contact: the forces are the unconstrained quadratic ones
    -D_j·jaref_j.  They lie inside the friction cone PROVIDED the tangent-row stiffnesses are related
    to the normal one by  D_j·mu² = D0·fr_j²  — this is what constraint.py sets up
    (R_j = R_0·impratio⁻¹·fr_0²/fr_j², mu = fr_0·impratio^{-1/2}) when solreffriction is not used;
    it is an assumption on the inputs here, not something `_eval_constraint` checks. -/
theorem elliptic_bottom_in_cone
    (jn j1 j2 D0 D1 D2 mu fr1 fr2 f u0 u1 u2 : ℝ) (e0 e1 e2 : Int)
    (hD0 : 0 ≤ D0) (hmu : 0 < mu) (hfr1 : 0 < fr1) (hfr2 : 0 < fr2)
    (hD1 : D1 * mu ^ 2 = D0 * fr1 ^ 2) (hD2 : D2 * mu ^ 2 = D0 * fr2 ^ 2)
    (h1 : jn * mu < mu * Real.sqrt ((j1 * fr1) ^ 2 + (j2 * fr2) ^ 2))
    (h2 : mu * (jn * mu) + Real.sqrt ((j1 * fr1) ^ 2 + (j2 * fr2) ^ 2) ≤ 0) :
    let TT := (j1 * fr1) ^ 2 + (j2 * fr2) ^ 2
    let F0 := (_eval_constraint false false true jn D0 f e0 e0 jn D0 mu u0 TT).c0
    let F1 := (_eval_constraint false false true j1 D1 f e1 e0 jn D0 mu u1 TT).c0
    let F2 := (_eval_constraint false false true j2 D2 f e2 e0 jn D0 mu u2 TT).c0
    0 ≤ F0 ∧ (F1 / fr1) ^ 2 + (F2 / fr2) ^ 2 ≤ F0 ^ 2 := by
  intro TT F0 F1 F2
  have hTT : 0 ≤ TT := by positivity
  have hT := Real.sqrt_nonneg TT
  have hsq : Real.sqrt TT ^ 2 = TT := Real.sq_sqrt hTT
  have hF0 : F0 = -(D0 * jn) := by
    simp only [F0]
    rw [eval_elliptic_pos _ _ _ _ _ _ _ _ _ _ hTT hmu, if_neg (not_le.mpr h1), if_pos h2]
  have hF1 : F1 = -(D1 * j1) := by
    simp only [F1]
    rw [eval_elliptic_pos _ _ _ _ _ _ _ _ _ _ hTT hmu, if_neg (not_le.mpr h1), if_pos h2]
  have hF2 : F2 = -(D2 * j2) := by
    simp only [F2]
    rw [eval_elliptic_pos _ _ _ _ _ _ _ _ _ _ hTT hmu, if_neg (not_le.mpr h1), if_pos h2]
  have hmu2 : 0 < mu ^ 2 := by positivity
  have hjn : jn ≤ 0 := by
    by_contra hc
    rw [not_le] at hc
    have : 0 < mu * (jn * mu) := by positivity
    change mu * (jn * mu) + Real.sqrt TT ≤ 0 at h2
    linarith
  have eD1 : D1 = D0 * fr1 ^ 2 / mu ^ 2 := by field_simp; linarith
  have eD2 : D2 = D0 * fr2 ^ 2 / mu ^ 2 := by field_simp; linarith
  rw [hF0, hF1, hF2]
  refine ⟨by nlinarith, ?_⟩
  have key : (-(D1 * j1) / fr1) ^ 2 + (-(D2 * j2) / fr2) ^ 2 = D0 ^ 2 * (Real.sqrt TT ^ 2 / (mu ^ 2) ^ 2) := by
    rw [hsq, eD1, eD2]
    have hfr1' := ne_of_gt hfr1
    have hfr2' := ne_of_gt hfr2
    field_simp
    simp only [TT]
    ring
  rw [key]
  -- √TT ≤ -(mu² · jn)
  have hle : Real.sqrt TT ≤ -(mu ^ 2 * jn) := by
    change mu * (jn * mu) + Real.sqrt TT ≤ 0 at h2
    nlinarith
  have hsq_le : Real.sqrt TT ^ 2 ≤ (mu ^ 2 * jn) ^ 2 := by nlinarith
  have : Real.sqrt TT ^ 2 / (mu ^ 2) ^ 2 ≤ jn ^ 2 := by
    rw [div_le_iff₀ (by positivity)]
    nlinarith
  have hD0sq : 0 ≤ D0 ^ 2 := sq_nonneg _
  nlinarith

/-- (4j) **elliptic contact forces lie in their friction cone, all three zones** (condim 3, caller's
    variables as in (4h); stiffness relation as in (4i), needed only in the bottom zone):
        F0 ≥ 0  and  (F1/fr1)² + (F2/fr2)² ≤ F0². -/
theorem elliptic_contact_in_cone
    (jn j1 j2 D0 D1 D2 mu fr1 fr2 f u0 : ℝ) (e0 e1 e2 : Int)
    (he1 : e1 ≠ e0) (he2 : e2 ≠ e0) (hD0 : 0 < D0) (hmu : 0 < mu) (hfr1 : 0 < fr1) (hfr2 : 0 < fr2)
    (hD1 : D1 * mu ^ 2 = D0 * fr1 ^ 2) (hD2 : D2 * mu ^ 2 = D0 * fr2 ^ 2) :
    let TT := (j1 * fr1) ^ 2 + (j2 * fr2) ^ 2
    let F0 := (_eval_constraint false false true jn D0 f e0 e0 jn D0 mu u0 TT).c0
    let F1 := (_eval_constraint false false true j1 D1 f e1 e0 jn D0 mu (j1 * fr1 * fr1) TT).c0
    let F2 := (_eval_constraint false false true j2 D2 f e2 e0 jn D0 mu (j2 * fr2 * fr2) TT).c0
    0 ≤ F0 ∧ (F1 / fr1) ^ 2 + (F2 / fr2) ^ 2 ≤ F0 ^ 2 := by
  intro TT F0 F1 F2
  have hTT : 0 ≤ TT := by positivity
  rcases le_or_gt (mu * Real.sqrt TT) (jn * mu) with ht | ht
  · -- top zone: all forces vanish
    have t0 : F0 = 0 := by
      simp only [F0]; rw [elliptic_top _ _ _ _ _ _ _ _ _ _ hTT (Or.inl ht)]
    have t1 : F1 = 0 := by
      simp only [F1]; rw [elliptic_top _ _ _ _ _ _ _ _ _ _ hTT (Or.inl ht)]
    have t2 : F2 = 0 := by
      simp only [F2]; rw [elliptic_top _ _ _ _ _ _ _ _ _ _ hTT (Or.inl ht)]
    rw [t0, t1, t2]; simp
  · rcases le_or_gt (mu * (jn * mu) + Real.sqrt TT) 0 with hb | hb
    · exact elliptic_bottom_in_cone jn j1 j2 D0 D1 D2 mu fr1 fr2 f u0 _ _ e0 e1 e2 hD0.le hmu hfr1 hfr2
        hD1 hD2 ht hb
    · obtain ⟨h0, heq⟩ := elliptic_contact_on_cone_boundary jn j1 j2 D0 D1 D2 mu fr1 fr2 f u0 e0 e1 e2
        he1 he2 hD0 hmu hfr1 hfr2 ht hb
      exact ⟨h0.le, heq.le⟩

/-! ## 5. force = -∂cost/∂jaref, and continuity across branch boundaries -/

/-- (5a) equality rows: force is minus the derivative of cost. -/
theorem equality_cost_hasDerivAt (bf be : Bool) (jaref D f : ℝ) (e e0 : Int) (j0 D0 mu u TT : ℝ) :
    HasDerivAt (fun j => (_eval_constraint true bf be j D f e e0 j0 D0 mu u TT).c2)
      (-(_eval_constraint true bf be jaref D f e e0 j0 D0 mu u TT).c0) jaref := by
  simp only [eval_equality]
  convert hasDerivAt_quad (1 / 2 * D) jaref using 1
  ring

/-- (5b) boundary agreement, friction rows, negative side: at jaref = -rf (rf = frictionloss/D) the
    LINEARNEG branch is taken and its force and cost coincide with the QUADRATIC formulas. -/
theorem friction_boundary_neg (be : Bool) (D f : ℝ) (e e0 : Int) (j0 D0 mu u TT : ℝ) (hD : 0 < D) :
    let R := _eval_constraint false true be (-(f / D)) D f e e0 j0 D0 mu u TT
    R.c1 = LINEARNEG ∧ R.c0 = -(D * (-(f / D))) ∧ R.c2 = 1 / 2 * D * (-(f / D)) ^ 2 := by
  intro R
  have hR : R = _ := eval_friction be (-(f / D)) D f e e0 j0 D0 mu u TT
  rw [safe_div_ne _ _ (ne_of_gt hD), if_pos le_rfl] at hR
  rw [hR]
  refine ⟨rfl, ?_, ?_⟩ <;> (simp only; field_simp; try ring)

/-- (5c) boundary agreement, friction rows, positive side (frictionloss > 0 so that rf > -rf):
    at jaref = +rf the LINEARPOS branch is taken and agrees with the QUADRATIC formulas. -/
theorem friction_boundary_pos (be : Bool) (D f : ℝ) (e e0 : Int) (j0 D0 mu u TT : ℝ) (hD : 0 < D)
    (hf : 0 < f) :
    let R := _eval_constraint false true be (f / D) D f e e0 j0 D0 mu u TT
    R.c1 = LINEARPOS ∧ R.c0 = -(D * (f / D)) ∧ R.c2 = 1 / 2 * D * (f / D) ^ 2 := by
  intro R
  have hR : R = _ := eval_friction be (f / D) D f e e0 j0 D0 mu u TT
  have hrf : 0 < f / D := div_pos hf hD
  rw [safe_div_ne _ _ (ne_of_gt hD), if_neg (by linarith), if_pos le_rfl] at hR
  rw [hR]
  refine ⟨rfl, ?_, ?_⟩ <;> (simp only; field_simp; try ring)

/-- (5d) boundary agreement, limit rows: at jaref = 0 the SATISFIED branch (0, 0) agrees with the
    QUADRATIC formulas (-D·0, ½·D·0²). -/
theorem limit_boundary (D f : ℝ) (e e0 : Int) (j0 D0 mu u TT : ℝ) :
    let R := _eval_constraint false false false 0 D f e e0 j0 D0 mu u TT
    R.c1 = SATISFIED ∧ R.c0 = -(D * 0) ∧ R.c2 = 1 / 2 * D * (0:ℝ) ^ 2 := by
  intro R
  have hR : R = _ := eval_limit 0 D f e e0 j0 D0 mu u TT
  rw [if_pos le_rfl] at hR
  rw [hR]
  refine ⟨rfl, ?_, ?_⟩ <;> simp

/-- (5e) friction-loss rows (D > 0, frictionloss ≥ 0): the cost (Huber function) is differentiable in
    jaref EVERYWHERE — also at the branch boundaries ±rf — and force = -∂cost/∂jaref. -/
theorem friction_cost_hasDerivAt (be : Bool) (jaref D f : ℝ) (e e0 : Int) (j0 D0 mu u TT : ℝ)
    (hD : 0 < D) (hf : 0 ≤ f) :
    HasDerivAt (fun j => (_eval_constraint false true be j D f e e0 j0 D0 mu u TT).c2)
      (-(_eval_constraint false true be jaref D f e e0 j0 D0 mu u TT).c0) jaref := by
  have hfD : f / D * D = f := by field_simp
  have hc : ∀ j, (_eval_constraint false true be j D f e e0 j0 D0 mu u TT).c2
      = if j ≤ -(f / D) then -(f * (1 / 2 * (f / D) + j))
        else if f / D ≤ j then -(f * (1 / 2 * (f / D) - j)) else 1 / 2 * D * j * j := by
    intro j
    rw [eval_friction, safe_div_ne _ _ (ne_of_gt hD)]
    split_ifs <;> rfl
  have hF : (_eval_constraint false true be jaref D f e e0 j0 D0 mu u TT).c0
      = if jaref ≤ -(f / D) then f else if f / D ≤ jaref then -f else -(D * jaref) := by
    rw [eval_friction, safe_div_ne _ _ (ne_of_gt hD)]
    split_ifs <;> rfl
  have dL : ∀ x, HasDerivAt (fun j : ℝ => -(f * (1 / 2 * (f / D) + j))) (-f) x := by
    intro x
    convert hasDerivAt_lin (-f) (1 / 2 * (f / D)) 1 x using 1
    · funext j; ring
    · ring
  have dR : ∀ x, HasDerivAt (fun j : ℝ => -(f * (1 / 2 * (f / D) - j))) f x := by
    intro x
    convert hasDerivAt_lin (-f) (1 / 2 * (f / D)) (-1) x using 1
    · funext j; ring
    · ring
  have dQ : ∀ x, HasDerivAt (fun j : ℝ => 1 / 2 * D * j * j) (D * x) x := by
    intro x
    convert hasDerivAt_quad (1 / 2 * D) x using 1
    ring
  rw [hF]
  rcases eq_or_lt_of_le hf with hf0 | hfpos
  · -- frictionloss = 0: cost ≡ 0, force = 0
    subst hf0
    have hz : (fun j => (_eval_constraint false true be j D 0 e e0 j0 D0 mu u TT).c2) = fun _ => 0 := by
      funext j
      rw [hc]
      simp only [zero_div, neg_zero, zero_mul, mul_zero]
      split_ifs with a b
      · rfl
      · rfl
      · exact absurd (le_of_lt (not_le.mp a)) b
    rw [hz]
    have : (-(if jaref ≤ -(0 / D) then (0:ℝ) else if 0 / D ≤ jaref then -0 else -(D * jaref))) = 0 := by
      simp only [zero_div, neg_zero]
      split_ifs with a b
      · simp
      · simp
      · exact absurd (le_of_lt (not_le.mp a)) b
    rw [this]
    exact hasDerivAt_const jaref 0
  · have hrf : 0 < f / D := div_pos hfpos hD
    rcases lt_trichotomy jaref (-(f / D)) with h | h | h
    · -- strictly inside the LINEARNEG branch
      rw [if_pos h.le]
      refine hasDerivAt_of_eqOn_nhds (Iio_mem_nhds h) (fun y hy => ?_) (dL jaref)
      rw [hc, if_pos (le_of_lt hy)]
    · -- boundary jaref = -rf
      rw [if_pos h.le]
      have hq : HasDerivAt (fun j : ℝ => 1 / 2 * D * j * j) (-f) jaref := by
        convert dQ jaref using 1
        rw [h]; linarith
      refine hasDerivAt_glue_nhds (s := Set.Iio (f / D)) (Iio_mem_nhds (by linarith))
        (fun y hy hyx => ?_) (fun y hy hyx => ?_) (dL jaref) hq
      · rw [hc, if_pos (by linarith)]
      · rw [hc]
        have hy' : ¬ f / D ≤ y := not_le.mpr hy
        rcases eq_or_lt_of_le hyx with hyeq | hylt
        · rw [if_pos (by linarith), ← hyeq, h]
          field_simp; ring
        · rw [if_neg (by linarith), if_neg hy']
    · rw [if_neg (not_le.mpr h)]
      rcases lt_trichotomy jaref (f / D) with g | g | g
      · -- strictly inside the QUADRATIC branch
        rw [if_neg (not_le.mpr g)]
        have hq : HasDerivAt (fun j : ℝ => 1 / 2 * D * j * j) (- -(D * jaref)) jaref := by
          convert dQ jaref using 1; ring
        refine hasDerivAt_of_eqOn_nhds (Ioo_mem_nhds h g) (fun y hy => ?_) hq
        rw [hc, if_neg (not_le.mpr hy.1), if_neg (not_le.mpr hy.2)]
      · -- boundary jaref = +rf
        rw [if_pos g.ge]
        have hq : HasDerivAt (fun j : ℝ => 1 / 2 * D * j * j) (- -f) jaref := by
          convert dQ jaref using 1
          rw [g]; linarith
        have hr : HasDerivAt (fun j : ℝ => -(f * (1 / 2 * (f / D) - j))) (- -f) jaref := by
          convert dR jaref using 1; ring
        refine hasDerivAt_glue_nhds (s := Set.Ioi (-(f / D))) (Ioi_mem_nhds h)
          (fun y hy hyx => ?_) (fun y hy hyx => ?_) hq hr
        · rw [hc]
          have hy' : ¬ y ≤ -(f / D) := not_le.mpr hy
          rcases eq_or_lt_of_le hyx with hyeq | hylt
          · rw [if_neg hy', if_pos (by linarith), hyeq, g]
            field_simp; ring
          · rw [if_neg hy', if_neg (by linarith)]
        · rw [hc, if_neg (by linarith), if_pos (by linarith)]
      · -- strictly inside the LINEARPOS branch
        rw [if_pos g.le]
        have hr : HasDerivAt (fun j : ℝ => -(f * (1 / 2 * (f / D) - j))) (- -f) jaref := by
          convert dR jaref using 1; ring
        refine hasDerivAt_of_eqOn_nhds (Ioi_mem_nhds g) (fun y hy => ?_) hr
        have hy' : f / D < y := hy
        rw [hc, if_neg (by linarith), if_pos hy'.le]

/-- (5f) limit / frictionless / pyramidal rows (any D): the cost ½·D·min(jaref,0)² is differentiable
    in jaref everywhere — also at jaref = 0 — and force = -∂cost/∂jaref. -/
theorem limit_cost_hasDerivAt (jaref D f : ℝ) (e e0 : Int) (j0 D0 mu u TT : ℝ) :
    HasDerivAt (fun j => (_eval_constraint false false false j D f e e0 j0 D0 mu u TT).c2)
      (-(_eval_constraint false false false jaref D f e e0 j0 D0 mu u TT).c0) jaref := by
  have hc : ∀ j, (_eval_constraint false false false j D f e e0 j0 D0 mu u TT).c2
      = if 0 ≤ j then 0 else 1 / 2 * D * j * j := by
    intro j; rw [eval_limit]; split_ifs <;> rfl
  have hF : (_eval_constraint false false false jaref D f e e0 j0 D0 mu u TT).c0
      = if 0 ≤ jaref then 0 else -(D * jaref) := by
    rw [eval_limit]; split_ifs <;> rfl
  have dQ : ∀ x, HasDerivAt (fun j : ℝ => 1 / 2 * D * j * j) (D * x) x := by
    intro x
    convert hasDerivAt_quad (1 / 2 * D) x using 1
    ring
  rw [hF]
  rcases lt_trichotomy jaref 0 with h | h | h
  · rw [if_neg (not_le.mpr h)]
    have hq : HasDerivAt (fun j : ℝ => 1 / 2 * D * j * j) (- -(D * jaref)) jaref := by
      convert dQ jaref using 1; ring
    refine hasDerivAt_of_eqOn_nhds (Iio_mem_nhds h) (fun y hy => ?_) hq
    have hy' : y < 0 := hy
    rw [hc, if_neg (not_le.mpr hy')]
  · rw [if_pos h.ge]
    have hq : HasDerivAt (fun j : ℝ => 1 / 2 * D * j * j) (-0) jaref := by
      convert dQ jaref using 1
      rw [h]; ring
    have hz : HasDerivAt (fun _ : ℝ => (0:ℝ)) (-0) jaref := by
      rw [neg_zero]; exact hasDerivAt_const jaref (0:ℝ)
    refine hasDerivAt_glue (fun y hy => ?_) (fun y hy => ?_) hq hz
    · rw [hc]
      rcases eq_or_lt_of_le hy with hyeq | hylt
      · rw [hyeq, h]; simp
      · rw [if_neg (by linarith)]
    · rw [hc, if_pos (by linarith)]
  · rw [if_pos h.le]
    have hz : HasDerivAt (fun _ : ℝ => (0:ℝ)) (-0) jaref := by
      rw [neg_zero]; exact hasDerivAt_const jaref (0:ℝ)
    refine hasDerivAt_of_eqOn_nhds (Ioi_mem_nhds h) (fun y hy => ?_) hz
    have hy' : 0 < y := hy
    rw [hc, if_pos hy'.le]

/-- (5g) elliptic middle zone, normal row: the normal force is minus the derivative of the cone cost
    ½·dm·(N - mu·T)² with respect to jaref0 (N = jaref0·mu). -/
theorem middle_normal_cost_hasDerivAt (j0 T D0 mu u : ℝ) (hmu : mu ≠ 0) :
    HasDerivAt (fun j => (_eval_elliptic_middle (j * mu) T D0 mu u true).c1)
      (-(_eval_elliptic_middle (j0 * mu) T D0 mu u true).c0) j0 := by
  simp only [middle_normal _ _ _ _ _ hmu]
  set dm := D0 / (mu * mu * (1 + mu * mu)) with hdm
  have h := (hasDerivAt_quad (1 / 2 * dm * mu ^ 2) j0).add
    (hasDerivAt_lin (-(dm * mu ^ 2 * T)) (-(T / 2)) 1 j0)
  refine hasDerivAt_congr h (fun j => ?_) ?_
  · simp only [Pi.add_apply]; ring
  · ring

/-- (5h) elliptic middle zone, tangent row: with T = √(c + (jaref_j·fr_j)²) (c = the other tangent
    rows' contribution to TT) and ufrictionj = jaref_j·fr_j² as passed by the caller, the tangent force
    is minus the derivative of the cone cost with respect to jaref_j. -/
theorem middle_tangent_cost_hasDerivAt (N D0 mu c fr u jt : ℝ) (hmu : mu ≠ 0)
    (hpos : 0 < c + (jt * fr) ^ 2) :
    HasDerivAt (fun j => (_eval_elliptic_middle N (Real.sqrt (c + (j * fr) ^ 2)) D0 mu u true).c1)
      (-(_eval_elliptic_middle N (Real.sqrt (c + (jt * fr) ^ 2)) D0 mu (jt * fr * fr) false).c0) jt := by
  have hT : Real.sqrt (c + (jt * fr) ^ 2) ≠ 0 := (Real.sqrt_pos.mpr hpos).ne'
  rw [middle_tangent _ _ _ _ _ hT]
  simp only [middle_normal _ _ _ _ _ hmu]
  set dm := D0 / (mu * mu * (1 + mu * mu)) with hdm
  have hf : HasDerivAt (fun j : ℝ => c + (j * fr) ^ 2) (2 * fr ^ 2 * jt) jt := by
    refine hasDerivAt_congr ((hasDerivAt_quad (fr ^ 2) jt).const_add c) (fun j => ?_) rfl
    ring
  have hs := hf.sqrt hpos.ne'
  have h1 := (hs.const_mul mu).const_sub N
  have h2 := (h1.mul h1).const_mul (1 / 2 * dm)
  refine hasDerivAt_congr h2 (fun j => ?_) ?_
  · simp only [Pi.mul_apply]; ring
  · set S := Real.sqrt (c + (jt * fr) ^ 2)
    field_simp
    ring

/-- (5i) consequently the force of friction-loss rows is continuous in jaref (D > 0, frictionloss ≥ 0). -/
theorem friction_force_continuous (be : Bool) (D f : ℝ) (e e0 : Int) (j0 D0 mu u TT : ℝ)
    (hD : 0 < D) (hf : 0 ≤ f) :
    Continuous (fun j => (_eval_constraint false true be j D f e e0 j0 D0 mu u TT).c0) := by
  have : (fun j => (_eval_constraint false true be j D f e e0 j0 D0 mu u TT).c0)
      = fun j => max (-f) (min f (-(D * j))) :=
    funext fun j => friction_force_eq_clamp be j D f e e0 j0 D0 mu u TT hD hf
  rw [this]
  fun_prop

/-- (5j) and so is the force of limit / frictionless / pyramidal rows (D ≥ 0). -/
theorem limit_force_continuous (D f : ℝ) (e e0 : Int) (j0 D0 mu u TT : ℝ) (hD : 0 ≤ D) :
    Continuous (fun j => (_eval_constraint false false false j D f e e0 j0 D0 mu u TT).c0) := by
  have : (fun j => (_eval_constraint false false false j D f e e0 j0 D0 mu u TT).c0)
      = fun j => max 0 (-(D * j)) :=
    funext fun j => limit_force_eq_max j D f e e0 j0 D0 mu u TT hD
  rw [this]
  fun_prop

/-! ## 6. cost ≥ 0 -/

/-- (6) the cost is non-negative for every row kind and every branch, given D ≥ 0, frictionloss ≥ 0,
    D0 ≥ 0 (no strictness needed: for D = 0 `safe_div` gives rf = frictionloss·10¹⁵ ≥ 0). -/
theorem cost_nonneg (beq bf be : Bool) (jaref D f : ℝ) (e e0 : Int) (j0 D0 mu u TT : ℝ)
    (hD : 0 ≤ D) (hf : 0 ≤ f) (hD0 : 0 ≤ D0) :
    0 ≤ (_eval_constraint beq bf be jaref D f e e0 j0 D0 mu u TT).c2 := by
  have hq : 0 ≤ 1 / 2 * D * jaref * jaref := by
    have := mul_nonneg hD (mul_self_nonneg jaref); nlinarith
  cases beq
  · cases bf
    · cases be
      · rw [eval_limit]
        split_ifs
        · simp
        · exact hq
      · rw [eval_elliptic_gen]
        split_ifs <;>
          first | exact le_refl (0:ℝ) | exact hq | exact middle_cost_nonneg _ _ _ _ _ _ hD0
    · rw [eval_friction]
      have hrf := safe_div_nonneg f D hf hD
      split_ifs with h1 h2
      · simp only; nlinarith
      · simp only; nlinarith
      · exact hq
  · rw [eval_equality]; exact hq

/-! ## 7. satisfied ⇒ zero force -/

/-- (7) **for every row kind and all real inputs (no hypotheses): a row whose state is SATISFIED
    carries zero force** (and zero cost). -/
theorem satisfied_zero_force (beq bf be : Bool) (jaref D f : ℝ) (e e0 : Int) (j0 D0 mu u TT : ℝ)
    (h : (_eval_constraint beq bf be jaref D f e e0 j0 D0 mu u TT).c1 = SATISFIED) :
    (_eval_constraint beq bf be jaref D f e e0 j0 D0 mu u TT).c0 = 0 ∧
    (_eval_constraint beq bf be jaref D f e e0 j0 D0 mu u TT).c2 = 0 := by
  cases beq
  · cases bf
    · cases be
      · rw [eval_limit] at h ⊢
        split_ifs at h ⊢ <;> first | exact ⟨rfl, rfl⟩ | (norm_num at h; done)
      · rw [eval_elliptic_gen] at h ⊢
        split_ifs at h ⊢ <;> first | exact ⟨rfl, rfl⟩ | (norm_num at h; done)
    · rw [eval_friction] at h
      split_ifs at h <;> (norm_num at h; done)
  · rw [eval_equality] at h
    norm_num at h

/-- (7') conversely, equality and friction rows are never SATISFIED. -/
theorem equality_friction_never_satisfied (bf be : Bool) (jaref D f : ℝ) (e e0 : Int)
    (j0 D0 mu u TT : ℝ) :
    (_eval_constraint true bf be jaref D f e e0 j0 D0 mu u TT).c1 ≠ SATISFIED ∧
    (_eval_constraint false true be jaref D f e e0 j0 D0 mu u TT).c1 ≠ SATISFIED := by
  constructor
  · rw [eval_equality]; norm_num
  · rw [eval_friction]; split_ifs <;> norm_num

/-- (4k) why mu > 0 is assumed in section 4: with mu = 0 every elliptic row is SATISFIED with zero
    force whatever the penetration jaref0.  (Upstream, collision_core.py clamps friction to MJ_MINMU,
    so mu = friction[0]·impratio^{-1/2} > 0 in practice.) -/
theorem elliptic_mu_zero (jaref D f : ℝ) (e e0 : Int) (j0 D0 u TT : ℝ) (hTT : 0 ≤ TT) :
    _eval_constraint false false true jaref D f e e0 j0 D0 0 u TT = ⟨0, SATISFIED, 0⟩ :=
  elliptic_top jaref D f e e0 j0 D0 0 u TT hTT (Or.inl (by simp))

/-! ## 8. consistency with the line-search evaluators and `_state_check` -/

/-- (8a) the friction-loss cost used by the line search (`_eval_frictionloss_cost`, called with
    rf = safe_div(frictionloss, D)) is the same function as the cost returned by `_eval_constraint`
    (D ≥ 0, frictionloss ≥ 0; the two pieces of code order their branch tests differently). -/
theorem frictionloss_cost_consistent (be : Bool) (jaref D f : ℝ) (e e0 : Int) (j0 D0 mu u TT : ℝ)
    (hD : 0 ≤ D) (hf : 0 ≤ f) :
    _eval_frictionloss_cost jaref f (safe_div_F_F f D) D
      = (_eval_constraint false true be jaref D f e e0 j0 D0 mu u TT).c2 := by
  have hrf := safe_div_nonneg f D hf hD
  rw [eval_friction, eval_frictionloss_cost]
  generalize safe_div_F_F f D = rf at hrf ⊢
  rcases le_or_gt jaref (-rf) with h1 | h1
  · have hnq : ¬(-rf < jaref ∧ jaref < rf) := fun h => by linarith [h.1]
    rw [if_neg hnq, if_pos h1, if_pos h1]; simp only; ring
  · rcases le_or_gt rf jaref with h2 | h2
    · have hnq : ¬(-rf < jaref ∧ jaref < rf) := fun h => by linarith [h.2]
      rw [if_neg hnq, if_neg (not_le.mpr h1), if_neg (not_le.mpr h1), if_pos h2]; simp only; ring
    · rw [if_pos ⟨h1, h2⟩, if_neg (not_le.mpr h1), if_neg (not_le.mpr h2)]

/-- (8b) the line-search point `_eval_frictionloss_pt x f rf jv D` = (cost, gradient, hessian) along a
    search direction with row velocity jv: cost is the `_eval_constraint` cost, gradient is
    -force·jv, and the hessian is jv²·D exactly in the QUADRATIC state (else 0), i.e.
    jv²·`_state_check D state`. -/
theorem frictionloss_pt_consistent (be : Bool) (x D f jv : ℝ) (e e0 : Int) (j0 D0 mu u TT : ℝ)
    (hD : 0 ≤ D) (hf : 0 ≤ f) :
    let R := _eval_constraint false true be x D f e e0 j0 D0 mu u TT
    let P := _eval_frictionloss_pt x f (safe_div_F_F f D) jv D
    P.c0 = R.c2 ∧ P.c1 = -(R.c0) * jv ∧
    P.c2 = jv * jv * (if R.c1 = QUADRATIC then _state_check D 1 else _state_check D 0) := by
  intro R P
  have hrf := safe_div_nonneg f D hf hD
  have hR : R = _ := eval_friction be x D f e e0 j0 D0 mu u TT
  have hP : P = _ := eval_frictionloss_pt x f (safe_div_F_F f D) jv D
  have s1 : (_state_check D 1 : ℝ) = D := by simp [_state_check]
  have s0 : (_state_check D 0 : ℝ) = 0 := by simp [_state_check]
  rw [hR, hP, s1, s0]
  generalize safe_div_F_F f D = rf at hrf ⊢
  rcases le_or_gt x (-rf) with h1 | h1
  · have hnq : ¬(-rf < x ∧ x < rf) := fun h => by linarith [h.1]
    rw [if_neg hnq, if_pos h1, if_pos h1]
    refine ⟨by simp only; ring, by simp only, ?_⟩
    simp only; norm_num
  · rcases le_or_gt rf x with h2 | h2
    · have hnq : ¬(-rf < x ∧ x < rf) := fun h => by linarith [h.2]
      rw [if_neg hnq, if_neg (not_le.mpr h1), if_neg (not_le.mpr h1), if_pos h2]
      refine ⟨by simp only; ring, by simp only; ring, ?_⟩
      simp only; norm_num
    · rw [if_pos ⟨h1, h2⟩, if_neg (not_le.mpr h1), if_neg (not_le.mpr h2)]
      refine ⟨by simp only, by simp only; ring, ?_⟩
      simp only; norm_num; ring

/-- (8c) `_state_check D state` is D for the QUADRATIC state (1) and 0 otherwise: the curvature
    ∂²cost/∂jaref² of the row away from branch boundaries. -/
theorem state_check_eq (D : ℝ) (s : Int) : _state_check D s = if s = 1 then D else 0 := by
  simp only [_state_check, lit0, decide_eq_true_eq]

/-- (8d) `_active_check tid threshold` is the 0/1 indicator of `tid < threshold`. -/
theorem active_check_eq (tid th : Int) : (_active_check tid th : ℝ) = if tid < th then 1 else 0 := by
  simp only [_active_check, lit0, lit1, decide_eq_true_eq]
  split_ifs <;> first | rfl | (exfalso; omega)

/-! ## Non-vacuity: concrete inputs that meet the hypotheses and hit every branch -/

section examples

/-- equality row -/
example : _eval_constraint true false false (3:ℝ) 2 0 0 0 0 0 0 0 0 = ⟨-6, QUADRATIC, 9⟩ := by
  rw [equality_row]; norm_num

/-- friction row, D = 2, frictionloss = 4 (rf = 2): LINEARNEG at jaref = -3 -/
example : _eval_constraint false true false (-3:ℝ) 2 4 0 0 0 0 0 0 0 = ⟨4, LINEARNEG, 8⟩ := by
  rw [eval_friction, safe_div_ne _ _ (by norm_num)]; norm_num

/-- friction row: LINEARPOS at jaref = 3 -/
example : _eval_constraint false true false (3:ℝ) 2 4 0 0 0 0 0 0 0 = ⟨-4, LINEARPOS, 8⟩ := by
  rw [eval_friction, safe_div_ne _ _ (by norm_num)]; norm_num

/-- friction row: QUADRATIC at jaref = 1 -/
example : _eval_constraint false true false (1:ℝ) 2 4 0 0 0 0 0 0 0 = ⟨-2, QUADRATIC, 1⟩ := by
  rw [eval_friction, safe_div_ne _ _ (by norm_num)]; norm_num

/-- friction row with D = 0, frictionloss = 1: QUADRATIC with zero force for |jaref| < 10¹⁵ -/
example : _eval_constraint false true false (5:ℝ) 0 1 0 0 0 0 0 0 0 = ⟨0, QUADRATIC, 0⟩ := by
  rw [friction_D_zero]; norm_num

/-- limit row: satisfied / violated -/
example : _eval_constraint false false false (1:ℝ) 2 0 0 0 0 0 0 0 0 = ⟨0, SATISFIED, 0⟩ := by
  rw [limit_satisfied _ _ _ _ _ _ _ _ _ _ (by norm_num)]
example : _eval_constraint false false false (-1:ℝ) 2 0 0 0 0 0 0 0 0 = ⟨2, QUADRATIC, 1⟩ := by
  rw [(limit_active _ _ _ _ _ _ _ _ _ _ (by norm_num)).1]; norm_num

/-- elliptic contact, mu = 1, fr1 = fr2 = 1, tangent jaref (2, 0) so TT = 4, T = 2:
    jaref0 = 3 → top zone; jaref0 = -3 → bottom zone; jaref0 = 0 → middle zone. -/
example : (1:ℝ) * Real.sqrt ((2 * 1) ^ 2 + (0 * 1) ^ 2) ≤ 3 * 1 := by
  rw [show ((2:ℝ) * 1) ^ 2 + (0 * 1) ^ 2 = 4 by norm_num, sqrt4]; norm_num
example : (-3:ℝ) * 1 < 1 * Real.sqrt ((2 * 1) ^ 2 + (0 * 1) ^ 2) ∧
    1 * ((-3:ℝ) * 1) + Real.sqrt ((2 * 1) ^ 2 + (0 * 1) ^ 2) ≤ 0 ∧ (1:ℝ) * 1 ^ 2 = 1 * 1 ^ 2 := by
  rw [show ((2:ℝ) * 1) ^ 2 + (0 * 1) ^ 2 = 4 by norm_num, sqrt4]; norm_num
example : (0:ℝ) * 1 < 1 * Real.sqrt ((2 * 1) ^ 2 + (0 * 1) ^ 2) ∧
    0 < 1 * ((0:ℝ) * 1) + Real.sqrt ((2 * 1) ^ 2 + (0 * 1) ^ 2) := by
  rw [show ((2:ℝ) * 1) ^ 2 + (0 * 1) ^ 2 = 4 by norm_num, sqrt4]; norm_num

/-- middle zone, concrete values (D0 = 2, mu = 1 ⇒ dm = 1; N = 0, T = 2): normal force 2, cost 2;
    tangent row with ufrictionj = 2: force -(2/2)·2 = -2; and 2² = (-2)² + 0². -/
example : _eval_elliptic_middle (0:ℝ) 2 2 1 0 true = ⟨2, 2⟩ := by
  rw [middle_normal _ _ _ _ _ (by norm_num)]; norm_num
example : _eval_elliptic_middle (0:ℝ) 2 2 1 2 false = ⟨-2, 0⟩ := by
  rw [middle_tangent _ _ _ _ _ (by norm_num), middle_normal _ _ _ _ _ (by norm_num)]; norm_num
example : _eval_constraint false false true (0:ℝ) 2 0 7 7 0 2 1 0 4 = ⟨2, CONE, 2⟩ := by
  have h := (elliptic_middle (0:ℝ) 2 0 7 7 0 2 1 0 4 (by norm_num) (by norm_num)
    (by rw [sqrt4]; norm_num) (by rw [sqrt4]; norm_num)).2
  rw [h, sqrt4]
  simp only [decide_true]
  rw [middle_normal _ _ _ _ _ (by norm_num)]; norm_num

end examples

/-! ## 9. kernel level: every change of a row's state is reported to the stable-state fast path

`solver._update_constraint_efc(track_changes=True)` is the per-iteration constraint update of the Newton / pyramidal
("incremental") path. A world whose `state_changed_count` stays 0 in an iteration keeps its stale `grad` / `qfrc_constraint`
and only updates the scalar `grad_scale`; after the solve `qfrc_constraint` is recovered from that scaled gradient. This is
sound only if EVERY change of a row's state is counted, not just changes of the quadratic flag: a friction-loss row going
LINEARNEG (2) <-> LINEARPOS (3) keeps the Hessian but changes the row force by 2*frictionloss. -/

/-- (9) Whatever state `s` the thread (w, e) of the translated kernel writes to `efc_state_out[w, e]` (tracking on): if it differs
    from the state stored before the launch, the thread also increments `state_changed_count_out[w]`. All inputs, generic
    scalar type, elliptic and non-elliptic rows; no hypothesis on the row law. (Threads of finished worlds, out-of-range rows
    and skipped elliptic rows write no state, so nothing is claimed for them - they change nothing.) -/
theorem state_change_is_counted {K : Type} [Scalar K] (imp : Int → K) (ne nf nefc : Int → Int) (cfr : Int → V5 K)
    (cdim : Int → Int) (cadr : Int → Int → Int) (ety eid : Int → Int → Int) (eD efl : Int → Int → K) (nacon : Int → Int)
    (jar : Int → Int → K) (lsx done : Int → Bool) (fo : Int → Int → K) (so : Int → Int → Int) (qids : Int → Int → Int)
    (qcnt scnt : Int → Int) (shp a0 a1 w e s : Int)
    (hw : (Write.mk "efc_state_out" [w, e] (WVal.i s) WKind.set : Write K) ∈
      _update_constraint_efc__kernel imp ne nf nefc cfr cdim cadr ety eid eD efl nacon jar lsx done fo so qids qcnt scnt true shp a0 a1 w e)
    (hs : s ≠ so w e) :
    (Write.mk "state_changed_count_out" [w] (WVal.i 1) WKind.aadd : Write K) ∈
      _update_constraint_efc__kernel imp ne nf nefc cfr cdim cadr ety eid eD efl nacon jar lsx done fo so qids qcnt scnt true shp a0 a1 w e := by
  by_cases hd : done w = true
  · simp [_update_constraint_efc__kernel, hd] at hw
  by_cases h1 : e ≥ nefc w
  · by_cases hx : (decide (e = 0) && lsx w) = true <;>
      simp [_update_constraint_efc__kernel, hd, h1, hx] at hw
  by_cases h2 : ety w e = 7
  · by_cases h3 : eid w e ≥ nacon 0
    · by_cases hx : (decide (e = 0) && lsx w) = true <;>
        simp [_update_constraint_efc__kernel, hd, h1, h2, h3, hx] at hw
    by_cases h4 : cadr (eid w e) 0 < 0
    · by_cases hx : (decide (e = 0) && lsx w) = true <;>
        simp [_update_constraint_efc__kernel, hd, h1, h2, h3, h4, hx] at hw
    by_cases hx : (decide (e = 0) && lsx w) = true
    · simp only [_update_constraint_efc__kernel, hd, h1, h2, h3, h4, hx, if_true, if_false, decide_false, Bool.false_eq_true, List.nil_append] at hw ⊢
      generalize forRange _ _ _ _ = fr at hw ⊢
      generalize _eval_constraint (K := K) _ _ _ _ _ _ _ _ _ _ _ _ _ = ec at hw ⊢
      split_ifs <;> simp
    · simp only [_update_constraint_efc__kernel, hd, h1, h2, h3, h4, hx, if_true, if_false, decide_false, Bool.false_eq_true, List.nil_append,
        Write.lookupI, List.foldl_nil] at hw ⊢
      generalize forRange _ _ _ _ = fr at hw ⊢
      generalize _eval_constraint (K := K) _ _ _ _ _ _ _ _ _ _ _ _ _ = ec at hw ⊢
      split_ifs at hw ⊢ <;> simp_all
  · by_cases hx : (decide (e = 0) && lsx w) = true
    · simp only [_update_constraint_efc__kernel, hd, h1, h2, hx, if_true, if_false, decide_false, Bool.false_eq_true, List.nil_append] at hw ⊢
      generalize _eval_constraint (K := K) _ _ _ _ _ _ _ _ _ _ _ _ _ = ec at hw ⊢
      split_ifs <;> simp
    · simp only [_update_constraint_efc__kernel, hd, h1, h2, hx, if_true, if_false, decide_false, Bool.false_eq_true, List.nil_append,
        Write.lookupI, List.foldl_nil] at hw ⊢
      generalize _eval_constraint (K := K) _ _ _ _ _ _ _ _ _ _ _ _ _ = ec at hw ⊢
      split_ifs at hw ⊢ <;> simp_all

/-- (9) non-vacuity, and the scenario itself: one world, one friction-loss row (ne = 0, nf = 1, D = 1, frictionloss = 1/2) whose stored
    state is LINEARNEG (2) and whose new `Jaref = 1 ≥ rf` puts it into LINEARPOS (3): the quadratic flag does not change, the
    kernel writes state 3, and the state-change counter is incremented. -/
example :
    (Write.mk "efc_state_out" [0, 0] (WVal.i 3) WKind.set : Write ℝ) ∈
      _update_constraint_efc__kernel (K := ℝ) (fun _ => 1) (fun _ => 0) (fun _ => 1) (fun _ => 1) (fun _ => ⟨1, 0, 0, 0, 0⟩) (fun _ => 1)
        (fun _ _ => 0) (fun _ _ => 1) (fun _ _ => 0) (fun _ _ => 1) (fun _ _ => 1 / 2) (fun _ => 0) (fun _ _ => 1)
        (fun _ => false) (fun _ => false) (fun _ _ => 0) (fun _ _ => 2) (fun _ _ => 0) (fun _ => 0) (fun _ => 0) true 1 0 0 0 0
    ∧ (3 : Int) ≠ 2
    ∧ (Write.mk "state_changed_count_out" [0] (WVal.i 1) WKind.aadd : Write ℝ) ∈
      _update_constraint_efc__kernel (K := ℝ) (fun _ => 1) (fun _ => 0) (fun _ => 1) (fun _ => 1) (fun _ => ⟨1, 0, 0, 0, 0⟩) (fun _ => 1)
        (fun _ _ => 0) (fun _ _ => 1) (fun _ _ => 0) (fun _ _ => 1) (fun _ _ => 1 / 2) (fun _ => 0) (fun _ _ => 1)
        (fun _ => false) (fun _ => false) (fun _ _ => 0) (fun _ _ => 2) (fun _ _ => 0) (fun _ => 0) (fun _ => 0) true 1 0 0 0 0 := by
  have hstate : (Write.mk "efc_state_out" [0, 0] (WVal.i 3) WKind.set : Write ℝ) ∈
      _update_constraint_efc__kernel (K := ℝ) (fun _ => 1) (fun _ => 0) (fun _ => 1) (fun _ => 1) (fun _ => ⟨1, 0, 0, 0, 0⟩) (fun _ => 1)
        (fun _ _ => 0) (fun _ _ => 1) (fun _ _ => 0) (fun _ _ => 1) (fun _ _ => 1 / 2) (fun _ => 0) (fun _ _ => 1)
        (fun _ => false) (fun _ => false) (fun _ _ => 0) (fun _ _ => 2) (fun _ _ => 0) (fun _ => 0) (fun _ => 0) true 1 0 0 0 0 := by
    have hec : (Scalar.toInt (_eval_constraint (K := ℝ) false true false 1 1 2⁻¹ 0 (-1) 0 0 0 0 0).c1) = 3 := by
      rw [Mjw.Lemmas.C24.eval_friction, Mjw.Lemmas.C24.safe_div_ne _ _ one_ne_zero]
      norm_num [Scalar.toInt]
    simp [_update_constraint_efc__kernel, Write.lookupI, hec]
  exact ⟨hstate, by decide, state_change_is_counted _ _ _ _ _ _ _ _ _ _ _ _ _ _ _ _ _ _ _ _ _ _ _ _ _ 3 hstate (by decide)⟩
end Mjw.Props.C24
