/-
  C08 witnesses: concrete inputs on which the repository code provably differs from the MuJoCo C
  specification of `Spec/Integrate.lean` (each reproduced on the real code, see the docstrings).
  Only defects that are STILL present are listed (ids are stable, hence the gap).

  W1  zero quaternion in qpos: `_next_position` writes (0,0,0,1), `mj_integratePos` writes (1,0,0,0).
  W4  RK4 stage time: the host loop never advances `d.time`; with a `forward` that reads the time the
      accumulated acceleration differs from `Σ B_i k_i`.
      (hinge + `motor delay="0.025" nsample="4" interp="linear"`, RK4, ctrl = k² at step k: qvel after 4
       steps 1.587 (C) vs 0.176 (mjw).)

  Deleted (no longer theorems about the code): W2 `rk_stage_filterexact_witness` and W3
  `rk_stage_dcmotor_witness` described `_rk_perturb_state` launching `_next_activation(scale = A_i,
  limit = False)` for the stage activations.  Fix a57be8a ("fix: RK4 intermediate stages advanced activations
  with the exact filter/motor integrators") launches `_next_velocity` there; the property is now PROVED
  for every dynamics type (`C08.rk_stage_activation_eq`, `C08.rk_perturb_launches`, `C08.rk4_act_writers`).
-/
import MjwVerif.Props.C08

namespace Mjw.Props.C08Witness
open Mjw Mjw.Spec.Integrate Mjw.Lemmas.C08 Mjw.Props.C08

/-! ## W1: zero quaternion -/

theorem quat_integrate_zero (dt : ℝ) :
    Gen.Math.quat_integrate (⟨0, 0, 0, 0⟩ : Q ℝ) ⟨0, 0, 0⟩ dt = ⟨0, 0, 0, 1⟩ := by
  rw [C23.quat_integrate_eq]
  have h1 : Q.normalize (⟨0, 0, 0, 0⟩ : Q ℝ) = ⟨0, 0, 0, 1⟩ := by
    simp [Q.normalize, Q.length, Q.dot]
  have h2 : V3.normalize (⟨0, 0, 0⟩ : V3 ℝ) = ⟨0, 0, 0⟩ := by
    simp [V3.normalize, V3.length, V3.dot, V3.zero, V3.fill]
  have h3 : V3.length (⟨0, 0, 0⟩ : V3 ℝ) = 0 := by simp [V3.length, V3.dot]
  rw [h1, h2, h3]
  simp [Gen.Math.mul_quat, Gen.Math.axis_angle_to_quat, V3.muls]

theorem quatIntegrate_zero (dt : ℝ) :
    quatIntegrate (⟨0, 0, 0, 0⟩ : Q ℝ) ⟨0, 0, 0⟩ dt = ⟨1, 0, 0, 0⟩ := by
  have hm := minval_pos
  simp [quatIntegrate, normalize3, normalize4, axisAngle2Quat, mulQuat, hm]

/-- **W1**: one BALL joint (type 1) at qposadr 0 / dofadr 0, all of qpos and qvel zero, timestep 1:
    the kernel stores the quaternion (0,0,0,1) — in MuJoCo's (w,x,y,z) convention a half-turn about z —
    while `mj_integratePos` (`mju_normalize4`) stores the identity (1,0,0,0). -/
theorem next_position_zero_quat_witness :
    Gen.Forward._next_position (fun _ => (1:ℝ)) (fun _ => 1) (fun _ => 0) (fun _ => 0) (fun _ _ => 0) (fun _ _ => 0) 1
        (fun _ _ => 0) 1 0 0
      = cellsAt "qpos_out" 0 0 [0, 0, 0, 1]
    ∧ integratePosJoint 1 0 0 (fun _ => (0:ℝ)) (fun _ => 0) 1 = [1, 0, 0, 0]
    ∧ Gen.Forward._next_position (fun _ => (1:ℝ)) (fun _ => 1) (fun _ => 0) (fun _ => 0) (fun _ _ => 0) (fun _ _ => 0) 1
        (fun _ _ => 0) 1 0 0
      ≠ cellsAt "qpos_out" 0 0 (integratePosJoint 1 0 0 (fun _ => (0:ℝ)) (fun _ => 0) 1) := by
  have hk : Gen.Forward._next_position (fun _ => (1:ℝ)) (fun _ => 1) (fun _ => 0) (fun _ => 0) (fun _ _ => 0)
      (fun _ _ => 0) 1 (fun _ _ => 0) 1 0 0 = cellsAt "qpos_out" 0 0 [0, 0, 0, 1] := by
    rw [next_position_writes]
    simp only [kernelCells, (by decide : ¬ (1:Int) = 0), if_false, if_true, zero_mul]
    rw [quat_integrate_zero]
  have hs : integratePosJoint 1 0 0 (fun _ => (0:ℝ)) (fun _ => 0) 1 = [1, 0, 0, 0] := by
    simp only [integratePosJoint, FREE, BALL, (by decide : ¬ (1:Int) = 0), if_false, if_true]
    rw [quatIntegrate_zero]
  refine ⟨hk, hs, ?_⟩
  rw [hk, hs]
  simp [cellsAt]

/-! ## W4: stage time -/

/-- **W4**: `intPos q v h = q + h v`, kernels as proved, and a `forward` whose acceleration is the current
    time.  All hypotheses of `rk4_eq_tableau` (`RkHyps`: `hpos`, `hvel`, `hvelF`, `hinit`) except `htime` hold; the host loop accumulates
    `qacc_rk = 0`, the classical scheme (stages at `t + c_i h`) gives `½`. -/
theorem rk_time_witness :
    let P : Prims ℝ := ⟨fun q v h i => q i + h * v i, fun _ act ad h i => act i + h * ad i⟩
    let H : HostPrims ℝ := ⟨fun q v a h i => q i + h * v i * a, fun v acc a h i => v i + a * acc i * h,
           fun act ad a _ h i => act i + a * ad i * h⟩
    let forward : State ℝ → Deriv ℝ := fun s => ⟨s.qvel, fun _ => s.time, fun _ => 0⟩
    let d0 : HostData ℝ := ⟨fun _ => 0, fun _ => 0, fun _ => 0, 0, fun _ => 0, fun _ => 0⟩
    (hostLoop H forward 1 d0).2.acc 0 = 0
    ∧ (rkCombine (rk4Slopes P forward 1 (t0 d0))).acc 0 = 1 / 2 := by
  intro P H forward d0
  constructor
  · simp only [hostLoop, List.foldl_cons, List.foldl_nil, hostIter, hostForward, hostPerturb, hostAccumulate, forward,
      d0, hadd, hmul, slit]
    norm_num
  · simp only [rkCombine, rk4Slopes, rkStage, t0, forward, d0, rkA0, rkA1, rkA2, rkB0, rkB1, rkB2, rkB3, hadd, hmul,
      hdiv, slit]
    norm_num

end Mjw.Props.C08Witness
