/-
  C08 witnesses: concrete inputs on which the repository code provably differs from the MuJoCo C
  specification of `Spec/Integrate.lean` (each reproduced on the real code, see the docstrings).

  W1  zero quaternion in qpos: `_next_position` writes (0,0,0,1), `mj_integratePos` writes (1,0,0,0).
  W2  RK4 stage, FILTEREXACT actuator: `_next_activation(scale = 1/2, limit = False)` writes
      `act + ½·act_dot·τ(1 − e^{−dt/τ})`, MuJoCo C's stage state is `act + dt·½·act_dot`.
      (mj_step vs mjw.step, one RK4 step, hinge + `general dyntype=filterexact dynprm=0.005`, dt = 0.01,
       ctrl = 1: act 0.28822 (C) vs 0.57530 (mjw); qvel 1.927 vs 0.694.)
  W3  RK4 stage, DCMOTOR actuator: `_next_activation` ignores `act_dot_scale`: writes `act + act_dot·dt`
      instead of `act + dt·½·act_dot`.
      (hinge + `dcmotor thermal="10 0.01 0 0 25 25"`, RK4, dt = 0.01, ctrl = 10: act 47.476 (C) vs 45.972 (mjw).)
  W4  RK4 stage time: the host loop never advances `d.time`; with a `forward` that reads the time the
      accumulated acceleration differs from `Σ B_i k_i`.
      (hinge + `motor delay="0.025" nsample="4" interp="linear"`, RK4, ctrl = k² at step k: qvel after 4
       steps 1.587 (C) vs 0.176 (mjw).)
-/
import MjwVerif.Props.C08

namespace Mjw.Props.C08Witness
open Mjw Mjw.Spec.Integrate Mjw.Lemmas.C08 Mjw.Props.C08

/-! ## W1: zero quaternion -/

theorem quat_integrate_zero (dt : ℝ) :
    Gen.Math.quat_integrate (⟨0, 0, 0, 0⟩ : Q ℝ) ⟨0, 0, 0⟩ dt = ⟨0, 0, 0, 1⟩ := by
  rw [C23.quat_integrate_eq]
  have h1 : Q.normalize (⟨0, 0, 0, 0⟩ : Q ℝ) = ⟨0, 0, 0, 1⟩ := by
    simp [Q.normalize, Q.length, Q.dot]
  have h2 : V3.normalize (⟨0, 0, 0⟩ : V3 ℝ) = ⟨0, 0, 0⟩ := by
    simp [V3.normalize, V3.length, V3.dot, V3.zero, V3.fill]
  have h3 : V3.length (⟨0, 0, 0⟩ : V3 ℝ) = 0 := by simp [V3.length, V3.dot]
  rw [h1, h2, h3]
  simp [Gen.Math.mul_quat, Gen.Math.axis_angle_to_quat, V3.muls]

theorem quatIntegrate_zero (dt : ℝ) :
    quatIntegrate (⟨0, 0, 0, 0⟩ : Q ℝ) ⟨0, 0, 0⟩ dt = ⟨1, 0, 0, 0⟩ := by
  have hm := minval_pos
  simp [quatIntegrate, normalize3, normalize4, axisAngle2Quat, mulQuat, hm]

/-- **W1**: one BALL joint (type 1) at qposadr 0 / dofadr 0, all of qpos and qvel zero, timestep 1:
    the kernel stores the quaternion (0,0,0,1) — in MuJoCo's (w,x,y,z) convention a half-turn about z —
    while `mj_integratePos` (`mju_normalize4`) stores the identity (1,0,0,0). -/
theorem next_position_zero_quat_witness :
    Gen.Forward._next_position (fun _ => (1:ℝ)) (fun _ => 1) (fun _ => 0) (fun _ => 0) (fun _ _ => 0) (fun _ _ => 0) 1
        (fun _ _ => 0) 1 0 0
      = cellsAt "qpos_out" 0 0 [0, 0, 0, 1]
    ∧ integratePosJoint 1 0 0 (fun _ => (0:ℝ)) (fun _ => 0) 1 = [1, 0, 0, 0]
    ∧ Gen.Forward._next_position (fun _ => (1:ℝ)) (fun _ => 1) (fun _ => 0) (fun _ => 0) (fun _ _ => 0) (fun _ _ => 0) 1
        (fun _ _ => 0) 1 0 0
      ≠ cellsAt "qpos_out" 0 0 (integratePosJoint 1 0 0 (fun _ => (0:ℝ)) (fun _ => 0) 1) := by
  have hk : Gen.Forward._next_position (fun _ => (1:ℝ)) (fun _ => 1) (fun _ => 0) (fun _ => 0) (fun _ _ => 0)
      (fun _ _ => 0) 1 (fun _ _ => 0) 1 0 0 = cellsAt "qpos_out" 0 0 [0, 0, 0, 1] := by
    rw [next_position_writes]
    simp only [kernelCells, (by decide : ¬ (1:Int) = 0), if_false, if_true, zero_mul]
    rw [quat_integrate_zero]
  have hs : integratePosJoint 1 0 0 (fun _ => (0:ℝ)) (fun _ => 0) 1 = [1, 0, 0, 0] := by
    simp only [integratePosJoint, FREE, BALL, (by decide : ¬ (1:Int) = 0), if_false, if_true]
    rw [quatIntegrate_zero]
  refine ⟨hk, hs, ?_⟩
  rw [hk, hs]
  simp [cellsAt]

/-! ## W2: RK4 stage of a FILTEREXACT actuator -/

/-- **W2**: one FILTEREXACT actuator (type 3, τ = dynprm[0] = 1) with one activation variable at address 0,
    `act = 0`, `act_dot = 1`, timestep 1, launched as `_rk_perturb_state` does for the first stage
    (`act_dot_scale = 1/2`, `limit = False`): the kernel stores `½(1 − e⁻¹)` (≈ 0.316) where the classical
    stage state `X0.act + h·a·F.actdot` (`Spec.rkStage`) is `½`. -/
theorem rk_stage_filterexact_witness :
    let prm : V10 ℝ := ⟨1, 0, 0, 0, 0, 0, 0, 0, 0, 0⟩
    let v : ℝ := 1 / 2 * (1 - Real.exp (-1))
    Gen.Forward._next_activation (fun _ => (1:ℝ)) (fun _ => 3) (fun _ => 0) (fun _ => 1) (fun _ _ => prm)
        (fun _ _ => V10.zero) (fun _ _ => V10.zero) (fun _ => false) (fun _ _ => ⟨0, 0⟩) (fun _ _ => 0) (fun _ _ => 1)
        (fun _ _ => 0) (1 / 2) false (fun _ _ => 0) 1 1 1 1 1 0 0
      = [Write.mk "act_out" [0, 0] (WVal.f v) WKind.set]
    ∧ v ≠ (rkStage (K := ℝ) ⟨fun q _ _ => q, fun _ a _ _ => a⟩ 1 ⟨fun _ => 0, fun _ => 0, fun _ => 0, 0⟩ (1 / 2) (1 / 2)
            ⟨fun _ => 0, fun _ => 0, fun _ => 1⟩).act 0 := by
  intro prm v
  constructor
  · rw [next_activation_spec _ _ _ _ _ _ _ _ _ _ _ _ _ _ _ _ _ _ _ _ _ _ (by decide)]
    simp only [rangeL, Int.zero_add, Int.sub_zero, Int.toNat_one, List.range_one, List.map_cons, List.map_nil,
      Int.ofNat_eq_natCast, Int.natCast_zero]
    simp only [Gen.Support.next_act, decide_true, if_true, Bool.false_and, Bool.false_eq_true, if_false, hadd, hmul,
      hsub, hdiv, hneg, sexp, smax, slit, prm, v]
    norm_num
  · simp only [rkStage, hadd, hmul, v]
    have := Real.exp_pos (-1)
    intro h; nlinarith

/-! ## W3: RK4 stage of a DCMOTOR actuator -/

/-- **W3**: one DCMOTOR actuator (type 5) whose only state is the slew-rate slot (dynprm[7] = 1 > 0, all
    other parameters 0), one activation variable at address 0, `act = 0`, `act_dot = 1`, timestep 1,
    launched with `act_dot_scale = 1/2`, `limit = False`: the kernel stores `1 = act + act_dot·dt` — the
    full step — where the classical stage state is `½`. -/
theorem rk_stage_dcmotor_witness :
    let prm : V10 ℝ := ⟨0, 0, 0, 0, 0, 0, 0, 1, 0, 0⟩
    Gen.Forward._next_activation (fun _ => (1:ℝ)) (fun _ => 5) (fun _ => 0) (fun _ => 1) (fun _ _ => prm)
        (fun _ _ => V10.zero) (fun _ _ => V10.zero) (fun _ => false) (fun _ _ => ⟨0, 0⟩) (fun _ _ => 0) (fun _ _ => 1)
        (fun _ _ => 0) (1 / 2) false (fun _ _ => 0) 1 1 1 1 1 0 0
      = [Write.mk "act_out" [0, 0] (WVal.f 1) WKind.set]
    ∧ (1:ℝ) ≠ (rkStage (K := ℝ) ⟨fun q _ _ => q, fun _ a _ _ => a⟩ 1 ⟨fun _ => 0, fun _ => 0, fun _ => 0, 0⟩ (1 / 2) (1 / 2)
            ⟨fun _ => 0, fun _ => 0, fun _ => 1⟩).act 0 := by
  intro prm
  constructor
  · unfold Gen.Forward._next_activation
    simp [Gen.Util_misc.dcmotor_slots, forRange, Write.lookupF, V10.zero, V10.fill, prm]
  · simp only [rkStage, hadd, hmul]; norm_num

/-! ## W4: stage time -/

/-- **W4**: `intPos q v h = q + h v`, kernels as proved, and a `forward` whose acceleration is the current
    time.  All hypotheses of `rk4_eq_tableau` except `htime` hold; the host loop accumulates
    `qacc_rk = 0`, the classical scheme (stages at `t + c_i h`) gives `½`. -/
theorem rk_time_witness :
    let P : Prims ℝ := ⟨fun q v h i => q i + h * v i, fun _ act ad h i => act i + h * ad i⟩
    let H : HostPrims ℝ := ⟨fun q v a h i => q i + h * v i * a, fun v acc a h i => v i + a * acc i * h,
           fun act ad a _ h i => act i + a * ad i * h⟩
    let forward : State ℝ → Deriv ℝ := fun s => ⟨s.qvel, fun _ => s.time, fun _ => 0⟩
    let d0 : HostData ℝ := ⟨fun _ => 0, fun _ => 0, fun _ => 0, 0, fun _ => 0, fun _ => 0⟩
    (hostLoop H forward 1 d0).2.acc 0 = 0
    ∧ (rkCombine (rk4Slopes P forward 1 (t0 d0))).acc 0 = 1 / 2 := by
  intro P H forward d0
  constructor
  · simp only [hostLoop, List.foldl_cons, List.foldl_nil, hostIter, hostForward, hostPerturb, hostAccumulate, forward,
      d0, hadd, hmul, slit]
    norm_num
  · simp only [rkCombine, rk4Slopes, rkStage, t0, forward, d0, rkA0, rkA1, rkA2, rkB0, rkB1, rkB2, rkB3, hadd, hmul,
      hdiv, slit]
    norm_num

end Mjw.Props.C08Witness
