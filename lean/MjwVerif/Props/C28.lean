/-
  C28  Constraint islands are the connected components.

  Source: /repo/mujoco_warp/_src/island.py — kernels `_tree_edges`, `_flood_fill` (one thread per world,
  explicit-stack DFS), host `flood_fill` / `island`.  Model: `Model/Island.lean`.
  (The dof / constraint island maps — part 3 of the property — are in `Props/C28Maps.lean`.)

  * Part 0 (`tree_edges_writes_symmetric`, `tree_edges_symmetric`): every thread of the generated
    `_tree_edges` writes `atomic_max(tree_tree[w,a,b], 1)` together with its mirror image, hence after
    `zero_()` + launch (threads in any order) the adjacency matrix of every world is symmetric.
  * Part 1 (`flood_fill_gen_eq_kernelOpen`, `flood_fill_refines_model`, `dfs_step_refines_model`): the
    generated `Mjw.Gen.Island._flood_fill` (regenerated from the Python source on every run) is, by `rfl`,
    `Island.kernelOpen` with reads resolved against the thread's OWN WRITES (`rdAlias`); hence the
    GENERATED kernel performs, for every `ntree`, adjacency, initial labels, initial (garbage) stack
    contents, fuel and scalar type, exactly the write list of the model `Island.floodFillWrites`
    (`tree_island_out[worldid, v]`, `stack_out[worldid, p]`, `nisland_out[worldid]`, in program order).
  * Part 2 (model): for every `n` and every SYMMETRIC adjacency, with fuel ≥ n²:
    `flood_fill_components`, `islands_numbered_by_min_tree`, `stack_bound` (+ `writes_in_bounds`:
    every write of the thread is inside `tree_island[w, 0..n)` / `stack_scratch[w, 0..n²)`, for any input).
    `flood_fill_islands_are_components` restates 2a/2b on the final array contents after the GENERATED
    kernel.  The scratch size `ntree * ntree` is sufficient; `ntree` would not be (K5: depth 7 > 5).

  Aliasing (history of a framework finding, now fixed)
  ----------------------------------------------------
  The host launches `_flood_fill` with `labels_in` and `tree_island_out` bound to THE SAME array
  `d.tree_island` (after `fill_(-1)`), and `stack_in`/`stack_out` to the same scratch array, and the
  kernel relies on that: it reads `labels_in[worldid, v]` after having written `tree_island_out[worldid, v]`.
  An earlier translator treated the four parameters as four arrays (reads saw PRE-launch contents; such a
  reading re-labels and re-pushes for ever).  The translator now takes the launch bindings into account and
  emits those reads as `Write.lookupI ws "tree_island_out" [worldid, v] (labels_in worldid v)` etc., so the
  generated definition is the real kernel and part 1 needs NO aliasing assumption any more.
  (`Island.kernelOpen` keeps the read resolution as a parameter; `rdPre` is the old, wrong reading.)

  Convention about edges: `_tree_edges` marks `tree_tree[w, t, t] = 1` only for constraints that touch a
  SINGLE tree; a constraint between two trees marks `[t1, t2]` and `[t2, t1]` but no diagonal entry.  So
  "touched trees have a self edge" is NOT what the code guarantees and is not assumed here: `Touched i`
  means "row `i` has a nonzero entry", which is what the kernel's `has_edge` scan tests.  Symmetry
  (`Island.Symm`) is what `_tree_edges` guarantees (both directions are written by the same thread).
-/
import MjwVerif.Lemmas.Real
import MjwVerif.Lemmas.C28
import MjwVerif.Lemmas.C28Refine
import MjwVerif.Lemmas.C28Edges
import MjwVerif.Gen.Island

namespace Mjw.Props.C28
open Mjw Mjw.Island Mjw.Lemmas.C28

/-! ## 0. `_tree_edges` produces a symmetric adjacency matrix -/

/-- (0a) every thread of the generated `_tree_edges` only performs `atomic_max(tree_tree[w, a, b], 1)` with
    `w` its own world, and each such write comes with its mirror image `[w, b, a]` in the same thread. -/
theorem tree_edges_writes_symmetric {K : Type} [Scalar K] (nv : Int) (body_treeid jnt_dofadr dof_treeid geom_bodyid
    site_bodyid eq_type eq_obj1id eq_obj2id eq_objtype : Int → Int) (is_sparse : Bool) (nefc_in : Int → Int)
    (contact_geom_in : Int → I2) (efc_type_in efc_id_in efc_J_rownnz_in efc_J_rowadr_in : Int → Int → Int)
    (efc_J_colind_in : Int → Int → Int → Int) (efc_J_in : Int → Int → Int → K) (njmax_in : Int)
    (tree_tree : Int → Int → Int → Int) (tid0 tid1 : Int) :
    ∀ x ∈ Gen.Island._tree_edges (K := K) nv body_treeid jnt_dofadr dof_treeid geom_bodyid site_bodyid
        eq_type eq_obj1id eq_obj2id eq_objtype is_sparse nefc_in contact_geom_in efc_type_in efc_id_in
        efc_J_rownnz_in efc_J_rowadr_in efc_J_colind_in efc_J_in njmax_in tree_tree tid0 tid1,
      x.arr = "tree_tree" ∧ x.kind = WKind.amax ∧ x.val = WVal.i 1 ∧
      ∃ a b, x.idx = [tid0, a, b] ∧
        ∃ y ∈ Gen.Island._tree_edges (K := K) nv body_treeid jnt_dofadr dof_treeid geom_bodyid site_bodyid
          eq_type eq_obj1id eq_obj2id eq_objtype is_sparse nefc_in contact_geom_in efc_type_in efc_id_in
          efc_J_rownnz_in efc_J_rowadr_in efc_J_colind_in efc_J_in njmax_in tree_tree tid0 tid1,
          y.idx = [tid0, b, a] :=
  tree_edges_symWrites nv body_treeid jnt_dofadr dof_treeid geom_bodyid site_bodyid eq_type eq_obj1id eq_obj2id
    eq_objtype is_sparse nefc_in contact_geom_in efc_type_in efc_id_in efc_J_rownnz_in efc_J_rowadr_in
    efc_J_colind_in efc_J_in njmax_in tree_tree tid0 tid1

/-- (0b) **tree_edges_symmetric**: after `tree_tree.zero_()` and the launch — the threads `tids` (any list of
    grid points, any order, any worlds) performing their atomics one after the other — the matrix of every
    world `w` is symmetric, for every `n`: this is the hypothesis `Symm` of part 2. -/
theorem tree_edges_symmetric {K : Type} [Scalar K] (nv : Int) (body_treeid jnt_dofadr dof_treeid geom_bodyid
    site_bodyid eq_type eq_obj1id eq_obj2id eq_objtype : Int → Int) (is_sparse : Bool) (nefc_in : Int → Int)
    (contact_geom_in : Int → I2) (efc_type_in efc_id_in efc_J_rownnz_in efc_J_rowadr_in : Int → Int → Int)
    (efc_J_colind_in : Int → Int → Int → Int) (efc_J_in : Int → Int → Int → K) (njmax_in : Int)
    (tree_tree : Int → Int → Int → Int) (tids : List (Int × Int)) (w : Int) (n : Nat) :
    let all : List (Write K) := tids.flatMap (fun t =>
      Gen.Island._tree_edges (K := K) nv body_treeid jnt_dofadr dof_treeid geom_bodyid site_bodyid
        eq_type eq_obj1id eq_obj2id eq_objtype is_sparse nefc_in contact_geom_in efc_type_in efc_id_in
        efc_J_rownnz_in efc_J_rowadr_in efc_J_colind_in efc_J_in njmax_in tree_tree t.1 t.2)
    Symm n (adjOf w (fun w a b => Write.lookupI all "tree_tree" [w, a, b] 0)) := by
  intro all a b _ _ hab
  have hall : AllSym all := allSym_flatMap tids _ (fun t => t.1) (fun t _ =>
    tree_edges_symWrites nv body_treeid jnt_dofadr dof_treeid geom_bodyid site_bodyid eq_type eq_obj1id eq_obj2id
      eq_objtype is_sparse nefc_in contact_geom_in efc_type_in efc_id_in efc_J_rownnz_in efc_J_rowadr_in
      efc_J_colind_in efc_J_in njmax_in tree_tree t.1 t.2)
  exact tt_symm hall w a b hab

/-! ## 1. The generated kernel and the model -/

/-- (1a) the generated `_flood_fill` IS `kernelOpen` with every read of `labels_in` / `stack_in` resolved
    through the thread's own writes to `tree_island_out` / `stack_out` (definitional: the proof is `rfl`, so
    any change of the generated code breaks it). -/
theorem flood_fill_gen_eq_kernelOpen {K : Type} [Scalar K] (ntree : Int) (tree_tree_in : Int → Int → Int → Int)
    (labels_in stack_in : Int → Int → Int) (nisland_out : Int → Int) (tree_island_out stack_out : Int → Int → Int)
    (fuel : Nat) (tid0 : Int) :
    Gen.Island._flood_fill (K := K) ntree tree_tree_in labels_in stack_in nisland_out tree_island_out stack_out
        fuel tid0
      = kernelOpen (rdAlias "tree_island_out" tid0 (labels_in tid0)) (rdAlias "stack_out" tid0 (stack_in tid0))
          ntree tree_tree_in fuel tid0 := rfl

/-- (1b) **flood_fill_refines_model**: the write list of the GENERATED `_flood_fill` equals the model's, for
    ALL `ntree = n`, adjacency `tree_tree_in`, pre-launch labels `labels_in`, pre-launch stack garbage
    `stack_in`, fuel, world and `K` (the pre-launch contents of the output parameters are irrelevant). -/
theorem flood_fill_refines_model {K : Type} [Scalar K] (n : Nat) (tree_tree_in : Int → Int → Int → Int)
    (labels_in stack_in : Int → Int → Int) (nisland_out : Int → Int) (tree_island_out stack_out : Int → Int → Int)
    (fuel : Nat) (worldid : Int) :
    Gen.Island._flood_fill (K := K) (n : Int) tree_tree_in labels_in stack_in nisland_out tree_island_out
        stack_out fuel worldid
      = (floodFillWrites (fun v => labels_in worldid (v : Int)) fuel n (adjOf worldid tree_tree_in)).map
          (MW.toWrite worldid) := by
  rw [flood_fill_gen_eq_kernelOpen]
  exact kernelOpen_alias_eq worldid tree_tree_in n (labels_in worldid) (stack_in worldid) fuel

/-- (1c) in particular after the host's `d.tree_island.fill_(-1)`: the writes are those of `floodFill`,
    the last one being `nisland_out[worldid] = nisland`. -/
theorem flood_fill_refines_model_filled {K : Type} [Scalar K] (n : Nat) (tree_tree_in : Int → Int → Int → Int)
    (stack_in : Int → Int → Int) (nisland_out : Int → Int) (tree_island_out stack_out : Int → Int → Int)
    (fuel : Nat) (worldid : Int) :
    Gen.Island._flood_fill (K := K) (n : Int) tree_tree_in (fun _ _ => -1) stack_in nisland_out tree_island_out
        stack_out fuel worldid
      = ((floodFill fuel n (adjOf worldid tree_tree_in)).trace
          ++ [(⟨"nisland_out", [], ((floodFill fuel n (adjOf worldid tree_tree_in)).nisland : Int)⟩ : MW)]).map
          (MW.toWrite worldid) :=
  flood_fill_refines_model n tree_tree_in (fun _ _ => -1) stack_in nisland_out tree_island_out stack_out fuel worldid

/-- (1d) one iteration of `while nstack > 0` of the kernel (`koWhileBody` with aliased reads is, by (1a), the
    loop body of the generated code) = one `dfsStep` of the model (the simulation
    relation `RelD` says: `nstack = |stack|`, same writes so far, the label array and the live part of the
    stack array seen through the thread's writes are the model's `labels` and `stack`). -/
theorem dfs_step_refines_model {K : Type} [Scalar K] (n : Nat) (tree_tree_in : Int → Int → Int → Int)
    (pre spre : Int → Int) (worldid : Int) (c : Nat) (st : Int × List (Write K)) (s : DState)
    (h : RelD worldid pre spre st s) (hne : s.stack ≠ []) :
    RelD worldid pre spre
      (koWhileBody (rdAlias "tree_island_out" worldid pre) (rdAlias "stack_out" worldid spre) (n : Int)
        tree_tree_in worldid (c : Int) st)
      (dfsStep n (adjOf worldid tree_tree_in) c s) :=
  koWhileBody_rel worldid tree_tree_in n pre spre c h hne

/-! ## 2. The model computes the connected components -/

section model
variable (n : Nat) (adj : Adj)

/-- (2a) **flood_fill_components**: for symmetric adjacency and fuel ≥ n²,
    * untouched trees get `-1`,
    * touched trees get a label in `[0, nisland)`,
    * `label i = label j ≥ 0`  ⇔  `i` and `j` are connected and touched. -/
theorem flood_fill_components (hs : Symm n adj) (fuel : Nat) (hf : n * n ≤ fuel) :
    let r := floodFill fuel n adj
    (∀ i, i < n → ¬ Touched n adj i → r.labels i = -1)
    ∧ (∀ i, i < n → Touched n adj i → 0 ≤ r.labels i ∧ r.labels i < (r.nisland : Int))
    ∧ (∀ i j, i < n → j < n →
        ((r.labels i = r.labels j ∧ 0 ≤ r.labels i) ↔ (Conn n adj i j ∧ Touched n adj i))) := by
  intro r
  have h := floodFill_inv hs fuel hf
  have hlab : ∀ i, i < n → Touched n adj i → r.labels i ≠ -1 := fun i hi ht => h.done i hi hi ht
  refine ⟨?_, ?_, ?_⟩
  · intro i hi hnt
    by_contra hne
    exact hnt (h.touched i hi hne)
  · intro i hi ht
    rcases h.range i hi with h1 | h1
    · exact absurd h1 (hlab i hi ht)
    · exact h1
  · intro i j hi hj
    constructor
    · rintro ⟨heq, hnn⟩
      have hne : r.labels i ≠ -1 := by omega
      exact ⟨h.conn i j hi hj hne heq.symm, h.touched i hi hne⟩
    · rintro ⟨hc, ht⟩
      have hne := hlab i hi ht
      refine ⟨(h.same i j hi hne hc).symm, ?_⟩
      rcases h.range i hi with h1 | h1
      · exact absurd h1 hne
      · exact h1.1

/-- (2a') the same, phrased with the component: the trees that carry the label of a touched tree `i` are
    exactly `component n adj i`. -/
theorem flood_fill_label_class (hs : Symm n adj) (fuel : Nat) (hf : n * n ≤ fuel) (i j : Nat)
    (hi : i < n) (hj : j < n) (ht : Touched n adj i) :
    (floodFill fuel n adj).labels j = (floodFill fuel n adj).labels i ↔ component n adj i j := by
  obtain ⟨-, h2, h3⟩ := flood_fill_components n adj hs fuel hf
  constructor
  · intro heq
    exact ((h3 i j hi hj).mp ⟨heq.symm, (h2 i hi ht).1⟩).1
  · intro hc
    exact ((h3 i j hi hj).mpr ⟨hc, ht⟩).1.symm

/-- every tree has a smallest tree in its component (so `IsMinTree` below is never vacuous) -/
theorem exists_min_tree (i : Nat) : ∃ r, IsMinTree n adj r i := by
  classical
  have hex : ∃ r, Conn n adj i r := ⟨i, Conn.refl i⟩
  exact ⟨Nat.find hex, Nat.find_spec hex, fun w hw => Nat.find_min' hex hw⟩

/-- (2b) **islands_numbered_by_min_tree**: for symmetric adjacency and fuel ≥ n²,
    * the labels in use are exactly `0 .. nisland-1` (every label is `-1` or in range, every number below
      `nisland` is the label of some tree),
    * the order of the labels is the order of the smallest trees of the components:
      `label u < label v ⇔ (smallest tree of u's component) < (smallest tree of v's component)`. -/
theorem islands_numbered_by_min_tree (hs : Symm n adj) (fuel : Nat) (hf : n * n ≤ fuel) :
    let r := floodFill fuel n adj
    (∀ v, v < n → r.labels v = -1 ∨ (0 ≤ r.labels v ∧ r.labels v < (r.nisland : Int)))
    ∧ (∀ c : Nat, c < r.nisland → ∃ v, v < n ∧ r.labels v = (c : Int))
    ∧ (∀ u v ru rv, u < n → v < n → Touched n adj u → Touched n adj v →
        IsMinTree n adj ru u → IsMinTree n adj rv v → (r.labels u < r.labels v ↔ ru < rv)) := by
  intro r
  have h := floodFill_inv hs fuel hf
  have hlab : ∀ i, i < n → Touched n adj i → r.labels i ≠ -1 := fun i hi ht => h.done i hi hi ht
  -- one direction, for any pair
  have hfwd : ∀ u v ru rv, u < n → v < n → r.labels u ≠ -1 → r.labels v ≠ -1 →
      IsMinTree n adj ru u → IsMinTree n adj rv v → r.labels u < r.labels v → ru < rv := by
    intro u v ru rv hu hv hlu hlv hru hrv hlt
    obtain ⟨x, hx, hall⟩ := h.order u v hu hv hlu hlv hlt
    have h1 : ru ≤ x := hru.2 x (Conn.symm hs hx)
    have h2 : x < rv := hall rv (Conn.symm hs hrv.1)
    omega
  refine ⟨h.range, h.surj, ?_⟩
  intro u v ru rv hu hv htu htv hru hrv
  have hlu := hlab u hu htu
  have hlv := hlab v hv htv
  constructor
  · exact hfwd u v ru rv hu hv hlu hlv hru hrv
  · intro hlt
    rcases Int.lt_trichotomy (r.labels u) (r.labels v) with h1 | h1 | h1
    · exact h1
    · -- same label: same component, hence the same smallest tree
      have hc : Conn n adj u v := h.conn u v hu hv hlu h1.symm
      have : rv ≤ ru := hrv.2 ru (Conn.trans (Conn.symm hs hc) hru.1)
      omega
    · have := hfwd v u rv ru hv hu hlv hlu hrv hru h1
      omega

/-- (2b') consequence: the smallest touched tree is in island `0` -/
theorem island_zero_is_first_touched (hs : Symm n adj) (fuel : Nat) (hf : n * n ≤ fuel) (i : Nat) (hi : i < n)
    (ht : Touched n adj i) (hfirst : ∀ j, j < i → ¬ Touched n adj j) :
    (floodFill fuel n adj).labels i = 0 := by
  obtain ⟨hr, hsurj, hord⟩ := islands_numbered_by_min_tree n adj hs fuel hf
  obtain ⟨-, h2, -⟩ := flood_fill_components n adj hs fuel hf
  -- i is the smallest tree of its component
  have hmin : IsMinTree n adj i i := by
    refine ⟨Conn.refl i, fun w hw => ?_⟩
    by_contra hlt
    exact hfirst w (by omega) (Conn.touched hs hw ht)
  by_contra hne
  have hpos : 0 < (floodFill fuel n adj).labels i := by have := (h2 i hi ht).1; omega
  have hni : 0 < (floodFill fuel n adj).nisland := by have := (h2 i hi ht).2; omega
  obtain ⟨v, hv, hlv⟩ := hsurj 0 hni
  have htv : Touched n adj v := by
    have := floodFill_inv hs fuel hf
    exact this.touched v hv (by rw [hlv]; simp)
  obtain ⟨rv, hrv⟩ := exists_min_tree n adj v
  have hlt : rv < i := (hord v i rv i hv hi htv ht hrv hmin).mp (by rw [hlv]; exact_mod_cast hpos)
  exact hfirst rv hlt (Conn.touched hs hrv.1 htv)

/-- (2c) **stack_bound**: whatever the labels on entry, the island number, the adjacency (symmetric or
    not) and the number `k` of iterations performed, a DFS started by pushing a tree `i < n` never has
    more than `n * n` entries on its stack — the size `ntree * ntree` of the scratch row the host
    allocates (`wp.empty((nworld, ntree * ntree))`).  With fuel ≥ n² the loop has terminated. -/
theorem stack_bound (L : Nat → Int) (c i : Nat) (tr : List MW) (hi : i < n) (k : Nat) :
    (dfs k n adj c ⟨L, [i], tr⟩).stack.length ≤ n * n
      ∧ (n * n ≤ k → (dfs k n adj c ⟨L, [i], tr⟩).stack = []) :=
  ⟨dfs_stack_le adj c L tr hi k, dfs_terminates adj c L tr hi k⟩

/-- (2c') memory safety of every write of the thread, for ANY initial labels, fuel and adjacency: each
    `stack_out[worldid, p]` has `0 ≤ p < n*n` and each `tree_island_out[worldid, v]` has `0 ≤ v < n`. -/
theorem writes_in_bounds (L0 : Nat → Int) (fuel : Nat) :
    ∀ w ∈ floodFillWrites L0 fuel n adj,
      (w.arr = "stack_out" → ∃ p : Nat, w.idx = [(p : Int)] ∧ p < n * n)
      ∧ (w.arr = "tree_island_out" → ∃ v : Nat, w.idx = [(v : Int)] ∧ v < n) := by
  intro w hw
  unfold floodFillWrites at hw
  rcases List.mem_append.mp hw with hw | hw
  · exact floodFillFrom_trace L0 fuel n adj w hw
  · have : w = ⟨"nisland_out", [], ((floodFillFrom L0 fuel n adj).nisland : Int)⟩ := by simpa using hw
    subst this
    exact ⟨fun h => by simp at h, fun h => by simp at h⟩

/-- (2d) more fuel than `n²` changes nothing: the result is the same for every sufficient fuel -/
theorem fuel_irrelevant (L : Nat → Int) (c i : Nat) (tr : List MW) (hi : i < n) (k : Nat) (hk : n * n ≤ k) :
    dfs k n adj c ⟨L, [i], tr⟩ = dfs (n * n) n adj c ⟨L, [i], tr⟩ := by
  have h := dfs_fuel_irrelevant (adj := adj) (c := c) (n * n) ⟨L, [i], tr⟩
    (dfs_terminates adj c L tr hi (n * n) (Nat.le_refl _)) (k - n * n)
  rw [show n * n + (k - n * n) = k by omega] at h
  exact h

end model

/-! ## 2'. The same at kernel level: final contents of `tree_island` / `nisland` -/

/-- (2e) **flood_fill_islands_are_components**: the final contents of `tree_island[worldid, ·]` (the host's
    `-1` overwritten by the thread's writes) and of `nisland[worldid]` after the GENERATED `_flood_fill`,
    for a symmetric `tree_tree_in[worldid]` and fuel ≥ ntree²: untouched trees have `-1`, touched trees a
    label in `[0, nisland)`, and two trees share a non-negative label iff they are connected and touched;
    labels are numbered in the order of the smallest tree of each component. -/
theorem flood_fill_islands_are_components {K : Type} [Scalar K] (n : Nat) (tree_tree_in : Int → Int → Int → Int)
    (stack_in : Int → Int → Int) (nisland_out : Int → Int) (tree_island_out stack_out : Int → Int → Int)
    (fuel : Nat) (worldid : Int)
    (hs : Symm n (adjOf worldid tree_tree_in)) (hf : n * n ≤ fuel) :
    let ws : List (Write K) := Gen.Island._flood_fill (K := K) (n : Int) tree_tree_in (fun _ _ => -1) stack_in
        nisland_out tree_island_out stack_out fuel worldid
    let lab : Nat → Int := fun v => Write.lookupI ws "tree_island_out" [worldid, (v : Int)] (-1)
    let nis : Int := Write.lookupI ws "nisland_out" [worldid] (nisland_out worldid)
    let adj := adjOf worldid tree_tree_in
    (∀ i, i < n → ¬ Touched n adj i → lab i = -1)
    ∧ (∀ i, i < n → Touched n adj i → 0 ≤ lab i ∧ lab i < nis)
    ∧ (∀ i j, i < n → j < n → ((lab i = lab j ∧ 0 ≤ lab i) ↔ (Conn n adj i j ∧ Touched n adj i)))
    ∧ (∀ u v ru rv, u < n → v < n → Touched n adj u → Touched n adj v →
        IsMinTree n adj ru u → IsMinTree n adj rv v → (lab u < lab v ↔ ru < rv)) := by
  intro ws lab nis adj
  have hws : ws = (floodFillWrites (fun _ => -1) fuel n adj).map (MW.toWrite worldid) :=
    flood_fill_refines_model n tree_tree_in (fun _ _ => -1) stack_in nisland_out tree_island_out stack_out
      fuel worldid
  have hlab : ∀ v, lab v = (floodFill fuel n adj).labels v := by
    intro v
    change Write.lookupI ws _ _ _ = _
    rw [hws]
    exact floodFillFrom_labels_lookup worldid tree_tree_in n (fun _ => -1) fuel v
  have hnis : nis = ((floodFill fuel n adj).nisland : Int) := by
    change Write.lookupI ws _ _ _ = _
    rw [hws]
    exact floodFillFrom_nisland_lookup worldid n (fun _ => -1) adj fuel (nisland_out worldid)
  obtain ⟨h1, h2, h3⟩ := flood_fill_components n adj hs fuel hf
  obtain ⟨-, -, h4⟩ := islands_numbered_by_min_tree n adj hs fuel hf
  refine ⟨?_, ?_, ?_, ?_⟩
  · intro i hi ht; rw [hlab]; exact h1 i hi ht
  · intro i hi ht; rw [hlab, hnis]; exact h2 i hi ht
  · intro i j hi hj; rw [hlab, hlab]; exact h3 i j hi hj
  · intro u v ru rv hu hv htu htv hru hrv; rw [hlab, hlab]; exact h4 u v ru rv hu hv htu htv hru hrv

/-! ## Examples -/

/-- 4 trees, edges {0-2, 1-1}: islands {0,2} ↦ 0, {1} ↦ 1, tree 3 has none -/
example : labelList 4 (floodFill 16 4 ex4) = [0, 1, 0, -1] ∧ (floodFill 16 4 ex4).nisland = 2 := by decide

/-- the exact write sequence of the thread on that graph -/
example : floodFillWrites (fun _ => -1) 16 4 ex4 =
    [⟨"stack_out", [0], 0⟩, ⟨"tree_island_out", [0], 0⟩, ⟨"stack_out", [0], 2⟩, ⟨"tree_island_out", [2], 0⟩,
     ⟨"stack_out", [0], 1⟩, ⟨"tree_island_out", [1], 1⟩, ⟨"nisland_out", [], 2⟩] := by decide

/-- 6 trees, path 5-3-1 and edge 4-0, tree 2 untouched; agrees with the brute-force reference -/
example : labelList 6 (floodFill 36 6 ex6) = [0, 1, -1, 1, 0, 1]
    ∧ labelList 6 (floodFill 36 6 ex6) = specLabels 6 ex6
    ∧ (floodFill 36 6 ex6).nisland = specNisland 6 ex6 := by decide

/-- hypotheses are satisfiable: the example graphs are symmetric, the fuels are ≥ n² -/
example : Symm 4 ex4 := by
  intro a b ha hb
  have h : ∀ a < 4, ∀ b < 4, ex4 a b ≠ 0 → ex4 b a ≠ 0 := by decide
  exact h a ha b hb
example : (4 * 4 ≤ 16) ∧ (6 * 6 ≤ 36) := by decide
example : Touched 4 ex4 1 ∧ ¬ Touched 4 ex4 3 := by
  constructor
  · exact ⟨1, by decide, by decide⟩
  · rintro ⟨j, hj, h⟩
    have : ∀ j < 4, ex4 3 j = 0 := by decide
    exact h (this j hj)

/-- the scratch row must be larger than `ntree`: on the complete graph with 5 trees the DFS from tree 0
    reaches stack depth 7 > 5 (and stays ≤ 25 as `stack_bound` says) -/
example : maxDepth 5 k5 0 25 ⟨fun _ => -1, [0], []⟩ = 7 := by decide

/-- projection of a write to decidable data -/
def proj {K : Type} (x : Write K) : String × List Int × Int :=
  (x.arr, x.idx, match x.val with | .i v => v | _ => 0)

/-- the GENERATED `_flood_fill` on the 4-tree graph, `K = Float`, world 3, garbage 77 in the scratch row,
    through (1b) -/
example :
    Gen.Island._flood_fill (K := Float) (4 : Nat) (fun _ i j => ex4 i.toNat j.toNat) (fun _ _ => -1)
        (fun _ _ => 77) (fun _ => 5) (fun _ _ => -1) (fun _ _ => 77) 16 3
      = ([⟨"stack_out", [0], 0⟩, ⟨"tree_island_out", [0], 0⟩, ⟨"stack_out", [0], 2⟩, ⟨"tree_island_out", [2], 0⟩,
          ⟨"stack_out", [0], 1⟩, ⟨"tree_island_out", [1], 1⟩, ⟨"nisland_out", [], 2⟩] : List MW).map
          (MW.toWrite 3) := by
  rw [flood_fill_refines_model 4 (fun _ i j => ex4 i.toNat j.toNat) (fun _ _ => -1) (fun _ _ => 77)]
  congr 1

/-- the GENERATED `_flood_fill` EVALUATED (kernel reduction, no theorem used) at `K = Float` on the same
    graph, world 3 -/
example :
    (Gen.Island._flood_fill (K := Float) 4 (fun _ i j => ex4 i.toNat j.toNat) (fun _ _ => -1)
        (fun _ _ => 77) (fun _ => 5) (fun _ _ => -1) (fun _ _ => 77) 16 3).map proj
      = [("stack_out", [3, 0], 0), ("tree_island_out", [3, 0], 0), ("stack_out", [3, 0], 2),
         ("tree_island_out", [3, 2], 0), ("stack_out", [3, 0], 1), ("tree_island_out", [3, 1], 1),
         ("nisland_out", [3], 2)] := by decide

/-- … and on 2 trees joined by one edge (the graph on which the pre-launch reading of the reads went
    wrong): both trees in island 0, `nisland = 1`, the same for fuel 4 and fuel 9 -/
example :
    (Gen.Island._flood_fill (K := Float) 2 (fun _ i j => if (i = 0 ∧ j = 1) ∨ (i = 1 ∧ j = 0) then 1 else 0)
        (fun _ _ => -1) (fun _ _ => 0) (fun _ => 0) (fun _ _ => -1) (fun _ _ => 0) 4 0).map proj
      = [("stack_out", [0, 0], 0), ("tree_island_out", [0, 0], 0), ("stack_out", [0, 0], 1),
         ("tree_island_out", [0, 1], 0), ("nisland_out", [0], 1)]
    ∧ (Gen.Island._flood_fill (K := Float) 2 (fun _ i j => if (i = 0 ∧ j = 1) ∨ (i = 1 ∧ j = 0) then 1 else 0)
        (fun _ _ => -1) (fun _ _ => 0) (fun _ => 0) (fun _ _ => -1) (fun _ _ => 0) 9 0).map proj
      = [("stack_out", [0, 0], 0), ("tree_island_out", [0, 0], 0), ("stack_out", [0, 0], 1),
         ("tree_island_out", [0, 1], 0), ("nisland_out", [0], 1)] := by
  constructor <;> decide

/-- a world without any edge (3 trees): the only write is `nisland_out[0] = 0` -/
example :
    (Gen.Island._flood_fill (K := Float) 3 (fun _ _ _ => 0) (fun _ _ => -1) (fun _ _ => 0) (fun _ => 5)
        (fun _ _ => -1) (fun _ _ => 0) 9 0).map proj
      = [("nisland_out", [0], 0)] := by decide

end Mjw.Props.C28
