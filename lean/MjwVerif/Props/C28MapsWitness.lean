/-
  C28 part 3, witnesses for the statements that are FALSE of the model (and of the source).

  1. `island_efc_maps_inverse_witness`: "`map_efc2iefc` / `map_iefc2efc` are mutually inverse permutations of
     the active constraints `[0, n)`" fails as soon as one constraint has an island and another has none:
     `_island_map_constraints` assigns NO slot to a constraint with `efc_island < 0`
     (`Props.C28.map_constraints_no_island_no_writes`), its `map_efc2iefc` cell keeps the 0 written by
     `_init_efc_arrays` (`Props.C28.init_efc_arrays_writes`) and so collides with the island constraint that
     was mapped to slot 0.  Smallest instance: 2 constraints, 1 island, `efc_island = [0, -1]`.
     The true statement is `Props.C28.island_efc_maps_inverse_partial` (bijection between island constraints
     and `[0, Σ island_nefc)`).
  2. `island_efc_launch_witness`: the same on an integer memory, running the GENERATED kernel.
  3. `dof_maps_order_dependent_witness`: "the dof maps are determined by the inputs" is false — two thread
     orders of `_island_map_dofs` give two different (both valid) `map_dof2idof`.  (This is not a defect of
     `island_maps_inverse`, which holds for every order; it limits what may be claimed.)
-/
import MjwVerif.Lemmas.Real
import MjwVerif.Lemmas.C28Maps
import MjwVerif.Gen.Island

namespace Mjw.Props.C28
open Mjw Mjw.IslandMaps Mjw.Lemmas.C28Maps

/-- two active constraints (both contacts, type 5); constraint 0 is on island 0, constraint 1 on no island -/
def eislW : Nat → Int := fun e => [0, -1].getD e (-1)
def etyW : Nat → Int := fun _ => 5

/-- (1) the hypotheses of `island_efc_maps_inverse_partial` hold, but the constraint maps are neither
    injective on `[0, 2)` nor inverse to each other there: both constraints have `map_efc2iefc = 0`, and
    `map_iefc2efc[map_efc2iefc[1]] = 0 ≠ 1`. -/
theorem island_efc_maps_inverse_witness :
    let m := (efcPipeline 1 eislW etyW (List.range 2) (List.range 2)).1
    (List.range 2).Perm (List.range 2) ∧ (∀ e, e < 2 → eislW e < (1 : Nat)) ∧
    m.efc2iefc 0 = 0 ∧ m.efc2iefc 1 = 0 ∧
    ¬ (∀ e₁ : Nat, e₁ < 2 → ∀ e₂ : Nat, e₂ < 2 → m.efc2iefc e₁ = m.efc2iefc e₂ → e₁ = e₂) ∧
    ¬ (∀ e : Nat, e < 2 → m.iefc2efc (m.efc2iefc e) = e) ∧
    -- … and `map_iefc2efc` is not onto `[0,2)` either: slot 1 was never written and still holds 0
    m.iefc2efc 0 = 0 ∧ m.iefc2efc 1 = 0 := by
  refine ⟨List.Perm.refl _, by decide, by decide, by decide, ?_, ?_, by decide, by decide⟩
  · intro h
    have := h 0 (by omega) 1 (by omega) (by decide)
    omega
  · intro h
    have h1 := h 1 (by omega)
    revert h1
    decide

/-- (2) the same collision produced by the GENERATED `_island_map_constraints` on an integer memory whose
    map arrays hold the zeros of `_init_efc_arrays`: after the launch (any order — here 1, 0) both cells of
    `map_efc2iefc` are 0. -/
theorem island_efc_launch_witness :
    let m0 : IMem := fun a i => match a, i with
      | "nefc_in", [0] => 2
      | "efc_island_in", [0, e] => eislW e.toNat
      | "efc_type_in", _ => 5
      | "iefc_islandid_out", _ => -1
      | _, _ => 0
    let m := launchMapEfcs Float 10 0 [1, 0] m0
    m "map_efc2iefc_out" [0, 0] = 0 ∧ m "map_efc2iefc_out" [0, 1] = 0 ∧
    m "map_iefc2efc_out" [0, m "map_efc2iefc_out" [0, 1]] ≠ 1 := by
  decide

/-- (3) with the same inputs (nv = 5, islands [1,0,-1,1,0]) the map pass in thread order 0..4 and in
    thread order 4..0 yields different `map_dof2idof`; each satisfies `island_maps_inverse`. -/
theorem dof_maps_order_dependent_witness :
    (List.range 5).map (fun (d : Nat) => (dofPipeline 5 2 isl5 (List.range 5) (List.range 5)).1.dof2idof d)
      = [2, 0, 4, 3, 1] ∧
    (List.range 5).map (fun (d : Nat) => (dofPipeline 5 2 isl5 (List.range 5) (List.range 5).reverse).1.dof2idof d)
      = [3, 1, 4, 2, 0] ∧
    (dofPipeline 5 2 isl5 (List.range 5) (List.range 5)).1.dof2idof 0
      ≠ (dofPipeline 5 2 isl5 (List.range 5) (List.range 5).reverse).1.dof2idof 0 := by
  decide

end Mjw.Props.C28
