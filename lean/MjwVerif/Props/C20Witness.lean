/-
  C20 witnesses: concrete inputs on which the full C20 statement ("the distance equals the signed
  separation of the two geoms along the reported normal, exactly") is FALSE of the generated code.
  Each theorem evaluates the `Mjw.Gen.*` function on explicit rational inputs (K = ℝ).
-/
import MjwVerif.Props.C20

namespace Mjw.Props.C20Witness
open Mjw Mjw.Gen.Math Mjw.Gen.Collision_primitive_core Mjw.C20L Mjw.Props.C20

/-- **W1  sphere_cylinder, sphere centre on the axis of an x-aligned cylinder.**
    Inputs: sphere centre (0,0,0), radius 1/10; cylinder centre (0,0,0), unit axis (1,0,0), radius 1,
    half-height 5.  All natural hypotheses hold (unit axis, positive sizes), the sphere is strictly inside.
    The code returns normal = (1,0,0) — PARALLEL to the cylinder axis instead of radial — with
    dist = −11/10 = −(r+R).  That is not the separation along this normal: the cylinder point
    y = (−5,0,0) lies 51/10 behind the sphere's extreme point s + r·n, so  n·(y − (s + r n)) < dist. -/
theorem sphere_cylinder_on_axis_witness :
    let s : V3 ℝ := ⟨0, 0, 0⟩
    let c : V3 ℝ := ⟨0, 0, 0⟩
    let ax : V3 ℝ := ⟨1, 0, 0⟩
    let y : V3 ℝ := ⟨-5, 0, 0⟩
    let res := sphere_cylinder s (1/10) c ax 1 5
    V3.dot ax ax = 1 ∧
    res = (-(11/10), ⟨-(9/20), 0, 0⟩, ⟨1, 0, 0⟩) ∧
    V3.dot res.2.2 ax = 1 ∧
    (|cylX y c ax| ≤ 5 ∧ V3.dot (cylP y c ax) (cylP y c ax) ≤ 1 * 1) ∧
    V3.dot res.2.2 (V3.sub y (V3.add s (V3.muls res.2.2 (1/10)))) < res.1 := by
  intro s c ax y res
  have hres : res = (-(11/10), ⟨-(9/20), 0, 0⟩, ⟨1, 0, 0⟩) := by
    show sphere_cylinder s (1/10) c ax 1 5 = _
    rw [sphere_cylinder_on_axis s (1/10) c ax 1 5
      (by norm_num [s, c, ax, cylX, cylP, dot_def, V3.sub, V3.muls])
      (by norm_num [s, c, ax, cylX, dot_def, V3.sub])
      (by norm_num)
      (by norm_num [s, c, ax, cylX, dot_def, V3.sub])]
    refine Prod.ext (by norm_num) (Prod.ext ?_ rfl)
    apply V3.ext' <;> norm_num [s, V3.add, V3.muls]
  rw [hres]
  refine ⟨by norm_num [ax, dot_def], rfl, by norm_num [ax, dot_def], ?_, ?_⟩
  · norm_num [y, c, ax, cylX, cylP, dot_def, V3.sub, V3.muls]
  · norm_num [y, s, dot_def, V3.sub, V3.add, V3.muls]

/-- **W2  sphere_capsule is not exact (1e-6 regulariser in `closest_segment_point`).**
    Inputs: sphere centre (1,0,1/2), radius 1/10; capsule centre (0,0,0), axis (0,0,1), radius 1/10,
    half-length 1/2.  The true closest segment point is the end point b = (0,0,1/2) (ideal parameter 1), the
    true separation is 1 − 1/10 − 1/10 = 4/5; the code reports strictly more. -/
theorem sphere_capsule_not_exact_witness :
    let s : V3 ℝ := ⟨1, 0, 1/2⟩
    let cp : V3 ℝ := ⟨0, 0, 0⟩
    let ax : V3 ℝ := ⟨0, 0, 1⟩
    let a := V3.sub cp (V3.muls ax (1/2))
    let b := V3.add cp (V3.muls ax (1/2))
    segParamIdeal a b s = 1 ∧
    V3.length (V3.sub b s) - 1/10 - 1/10 = 4/5 ∧
    4/5 < (sphere_capsule s (1/10) cp ax (1/10) (1/2)).1 := by
  intro s cp ax a b
  have hN : V3.dot (V3.sub s a) (V3.sub b a) = 1 := by
    norm_num [s, a, b, cp, ax, dot_def, V3.sub, V3.add, V3.muls]
  have hL : V3.dot (V3.sub b a) (V3.sub b a) = 1 := by
    norm_num [a, b, cp, ax, dot_def, V3.sub, V3.add, V3.muls]
  refine ⟨?_, ?_, ?_⟩
  · unfold segParamIdeal
    rw [hN, hL]; norm_num
  · have : V3.dot (V3.sub b s) (V3.sub b s) = 1 := by
      norm_num [s, b, cp, ax, dot_def, V3.sub, V3.add, V3.muls]
    rw [length_def, this, Real.sqrt_one]; norm_num
  · obtain ⟨-, -, hd, -⟩ := sphere_capsule_valid s (1/10) cp ax (1/10) (1/2)
    have hd' : (sphere_capsule s (1/10) cp ax (1/10) (1/2)).1 =
        V3.length (V3.sub (V3.add a (V3.smul (segParam a b s) (V3.sub b a))) s) - 1/10 - 1/10 := hd
    rw [hd']
    have ht : segParam a b s = 1000000 / 1000001 := by
      unfold segParam segEps
      rw [hN, hL]
      rw [max_eq_right (by norm_num), min_eq_left (by norm_num)]
      norm_num
    rw [ht]
    have hq : V3.dot (V3.sub (V3.add a (V3.smul (1000000 / 1000001) (V3.sub b a))) s)
        (V3.sub (V3.add a (V3.smul (1000000 / 1000001) (V3.sub b a))) s) = 1 + (1 / 1000001) ^ 2 := by
      norm_num [s, a, b, cp, ax, dot_def, V3.sub, V3.add, V3.muls, V3.smul]
    have h1 : (1:ℝ) < V3.length (V3.sub (V3.add a (V3.smul (1000000 / 1000001) (V3.sub b a))) s) := by
      rw [length_def, hq]
      apply (Real.lt_sqrt (by norm_num)).mpr
      norm_num
    linarith

end Mjw.Props.C20Witness
