/-
  C05  Constraint assembly agrees with MuJoCo C.

  "Each world's constraint rows (type, object id, Jacobian row, position, margin, impedance-derived mass D, reference
   acceleration aref, friction loss) equal MuJoCo's rows as a multiset, the equality / friction / limit counts match,
   and every contact row address points at a row of that contact."

  What is proved here (all about the GENERATED `Mjw.Gen.Constraint.*`; specs: `Spec/Impedance.lean` = MuJoCo's
  `getsolparam` + `getimpedance` + `mj_makeImpedance`, `Spec/MakeConstraint.lean` = launch order of `make_constraint`)
  ------------------------------------------------------------------------------------------------------------------
  1. `efc_row_code_form`    what `_efc_row` computes, all inputs, branch by branch (K = ℝ).
     `efc_row_eq_spec`      the eight cells `_efc_row` writes = the row MuJoCo computes, under five hypotheses that are
                            exactly the code's departures from the C reference (each necessary: `Props/C05Witness.lean`).
  2. `impedance_in_range`   for ALL inputs `imp ∈ [mjMINIMP, mjMAXIMP]` (and `∈ [dmin, dmax]` if `dmin ≤ dmax`),
                            `0 < D ≤ 1e15`, `D = min(imp/(invweight·(1−imp)), 1e15)` for `invweight > 0`.
  3. `IsClassThread.counts`, `IsClassThread.type`, `row_counts`, `zero_counts`
                            every thread of the ten class builders adds its block size k (connect 3, weld 6, others 1)
                            to its class counter exactly when, and together with, its allocating atomic on `nefc`
                            (before the capacity guard); `ne/nf/nl/nefc` = the sums of the requested block sizes
                            for EVERY interleaving; every `efc_type` cell written holds the type of the class.
  4. `type_blocks_ordered`  for every schedule of the twelve allocating launches: the blocks of a class lie in
                            `[0,ne) [ne,ne+nf) [ne+nf,ne+nf+nl) [..,nefc)`, they tile `[0,nefc)`, a row index is
                            classified by comparisons, and with `nefc ≤ njmax` nothing is dropped.
  5. `contact_address_valid` `contact.efc_address[c][d] ≥ 0` ⇒ it is `alloc0 + d < njmax` and the same thread set
                            `efc_id[worldid, alloc0 + d] := c`; rows of a contact are contiguous; rows that do not fit
                            get address −1; every dimension gets an address.
  6. `contact_update_skips/_pyramidal/_elliptic`, `pyramid_rows_partial`
                            the per-row scalars of contact rows (no adhesion): which `_efc_row` call each thread makes;
                            pyramidal: all rows of a contact share `D`, and `D = 1/Rpy` of MuJoCo (no clamp active).

  FINDINGS (code ≠ MuJoCo C; Lean witnesses in `Props/C05Witness.lean`, each also reproduced numerically)
  -----------------------------------------------------------------------------------------------------
  W1 `width ≤ mjMINVAL`: C flat impedance `(dmin+dmax)/2`, code `dmax`.      W2 clamped `dmin > dmax`: C interpolates,
  code returns `dmax`.      W3 mixed solref: C substitutes the default, code uses it.      W4 no `mjMINVAL` clamp of the
  K/B denominators.      W5 friction rows of elliptic contacts store `efc_pos = efc_margin = includemargin` (C: 0, 0).
  (W1–W4 are inherited from MJX's `_kbi`; W5 does not influence `aref`/`D`.)

  NOT covered (residual): the Jacobian rows and `efc_vel = J·qvel` (→ C22); the position/velocity laws of the
  individual builders (connect/weld anchors, ball-limit angle, tendon lengths); `_equality_flexstrain`,
  `_efc_contact_init_flex`, `_efc_contact_update_flex` (not translated; `flexstrain` appears in the launch spec only
  for its position); the adhesion branch of `_efc_contact_update` (the generated kernel reads `efc_D_out` as pre-launch
  content right after `_efc_row` wrote it — translator limitation); the "multiset of rows equals MuJoCo's" statement
  as a whole, which additionally needs the correspondence of the activation conditions with `mj_instantiate*`.

  Modelling assumptions (as in C16): the value returned by an allocating atomic is an input of the thread (`alloc0`);
  the arena model supplies it as the running sum; launches on one stream are sequential; int32 wrap-around of the
  counters is not modelled.
-/
import MjwVerif.Lemmas.Real
import MjwVerif.Lemmas.C05
import MjwVerif.Lemmas.C05Kernels
import MjwVerif.Lemmas.C16KernelsB
import MjwVerif.Lemmas.C05Layout
import MjwVerif.Lemmas.C05Contact
import MjwVerif.Lemmas.C05Update
import MjwVerif.Spec.Impedance
import MjwVerif.Spec.MakeConstraint
import MjwVerif.Gen.Constraint
set_option linter.unusedVariables false
set_option linter.unusedSimpArgs false
set_option linter.unusedSectionVars false

namespace Mjw.Props.C05
open Mjw Mjw.Alloc Mjw.Lemmas.C16 Mjw.Lemmas.C05
open Mjw.Spec.Impedance (solrefFix solimpFix mixedSolref getImpedance)
open Mjw.Spec.MakeConstraint


/-! ## 1. `_efc_row` against `mj_makeImpedance` -/

section efc_row
variable (dis wid : Int) (dt : ℝ) (efcid : Int) (iw : ℝ) (sr : V2 ℝ) (si : V5 ℝ) (vel fl : ℝ)
  (ty id' : Int) (tyo ido : Int → Int → Int) (po mo Do vo ao fo : Int → Int → ℝ)

/-- the eight cells of row `efcid` of world `wid`, in the order `_efc_row` writes them -/
def rowCells (wid efcid : Int) (r : Spec.Impedance.Row ℝ) (ty id' : Int) : List (Write ℝ) :=
  [⟨"D_out", [wid, efcid], WVal.f r.D, WKind.set⟩,
   ⟨"vel_out", [wid, efcid], WVal.f r.vel, WKind.set⟩,
   ⟨"aref_out", [wid, efcid], WVal.f r.aref, WKind.set⟩,
   ⟨"pos_out", [wid, efcid], WVal.f r.pos, WKind.set⟩,
   ⟨"margin_out", [wid, efcid], WVal.f r.margin, WKind.set⟩,
   ⟨"frictionloss_out", [wid, efcid], WVal.f r.frictionloss, WKind.set⟩,
   ⟨"type_out", [wid, efcid], WVal.i ty, WKind.set⟩,
   ⟨"id_out", [wid, efcid], WVal.i id', WKind.set⟩]

/-- (1a) **efc_row_code_form** — what `_efc_row` computes, for ALL inputs (K = ℝ), branch by branch, with exactly
    the guards of the source:
    * REFSAFE: `timeconst := max(solref[0], 2·timestep)` iff `opt_disableflags & 4096 = 0` (`tcCode`; NOT conditioned
      on `solref[0] > 0`);
    * `k = -solref[0]/dmax²` iff `solref[0] ≤ 0`, else `1/(dmax²·timeconst²·dampratio²)` (`kCode`);
      `b = -solref[1]/dmax` iff `solref[1] ≤ 0`, else `2/(dmax·timeconst)` (`bCode`) — no `mjMINVAL` guards;
    * solimp: `dmin, dmax, mid` clamped to `[1e-4, 0.9999]` (`clampImp`), `width := max(1e-15, width)`, `power := max(1, power)`;
    * impedance (`impCode`/`sigCode`), `x = |pos_imp| / width`:  `x > 1` → `dmax` (this is also what happens for
      `width ≤ 1e-15` as soon as `|pos_imp| > 1e-15`);  otherwise `clamp(dmin + y·(dmax − dmin), dmin, dmax)` with
      `y = x^p / mid^(p−1)` iff `x < mid`, else `y = 1 − (1−x)^p / (1−mid)^(p−1)`;
    * cells: `D = 1/max(invweight·(1−imp)/imp, 1e-15)`, `vel`, `aref = −k·imp·pos_aref − b·vel`,
      `pos = pos_aref + margin`, `margin`, `frictionloss`, `type`, `id` — all at `[worldid, efcid]`, plain sets. -/
theorem efc_row_code_form (pa pim mg : ℝ) :
    Gen.Constraint._efc_row dis wid dt efcid pa pim iw sr si mg vel fl ty id' tyo ido po mo Do vo ao fo =
      let imp := impCode (clampImp si.c0) (clampImp si.c1) (clampImp si.c3) (max 1 si.c4) (|pim| / max 1e-15 si.c2)
      let tc := tcCode dis dt sr.c0
      [⟨"D_out", [wid, efcid], WVal.f (1 / max (iw * (1 - imp) / imp) 1e-15), WKind.set⟩,
       ⟨"vel_out", [wid, efcid], WVal.f vel, WKind.set⟩,
       ⟨"aref_out", [wid, efcid], WVal.f (-(kCode sr (clampImp si.c1) tc) * imp * pa - bCode sr (clampImp si.c1) tc * vel), WKind.set⟩,
       ⟨"pos_out", [wid, efcid], WVal.f (pa + mg), WKind.set⟩,
       ⟨"margin_out", [wid, efcid], WVal.f mg, WKind.set⟩,
       ⟨"frictionloss_out", [wid, efcid], WVal.f fl, WKind.set⟩,
       ⟨"type_out", [wid, efcid], WVal.i ty, WKind.set⟩,
       ⟨"id_out", [wid, efcid], WVal.i id', WKind.set⟩] :=
  efc_row_code dis wid dt efcid pa pim iw sr si mg vel fl ty id' tyo ido po mo Do vo ao fo

/-- (1) **efc_row_eq_spec**: the write list of `_efc_row` is exactly the eight cells of the row MuJoCo computes
    (`Spec.Impedance.row` = `getsolparam` + `getimpedance` + `mj_makeImpedance` + `efc_D = 1/R`,
    `efc_aref = −B·vel − K·I·(pos − margin)`), called — as all builders call it — with `pos_aref = pos − margin`,
    `pos_imp = posImp − marginImp`, `invweight = efc_diagApprox`.   Hypotheses = exactly the places where the code
    departs from the C reference (each one is NECESSARY: witnesses in `Props/C05Witness.lean`):
    * `hmix`   the solref is not in mixed format (C replaces a mixed solref by the default `(0.02, 1)`; the code uses it);
    * `hwidth` `solimp[2] > mjMINVAL` (C: flat impedance `(dmin+dmax)/2` for `width ≤ mjMINVAL`; code: `dmax`);
    * `hdord`  clamped `dmin ≤ dmax` (C interpolates from `dmin` to `dmax` also when `dmin > dmax`; the code's extra
               `clamp(imp, dmin, dmax)` then returns `dmax`);
    * `hk`,`hb` the denominators of `K`, `B` are `≥ mjMINVAL` (C clamps them, the code does not).
    Everything else agrees for all inputs: REFSAFE clamp, direct format `solref ≤ 0`, the sigmoid (`x < mid` vs C's
    `x ≤ mid` and C's special case `power = 1` coincide), saturation `x ≥ 1`, `x = 0`, `D = 1/max(R, mjMINVAL)`. -/
theorem efc_row_eq_spec (pos margin posImp marginImp : ℝ)
    (hmix : mixedSolref sr = false)
    (hwidth : (1e-15 : ℝ) < si.c2)
    (hdord : (solimpFix si).c0 ≤ (solimpFix si).c1)
    (hk : 0 < sr.c0 → (1e-15 : ℝ) ≤ (solimpFix si).c1 * (solimpFix si).c1
        * (solrefFix (!(decide (Mjw.iand dis 4096 ≠ 0))) dt sr).c0 * (solrefFix (!(decide (Mjw.iand dis 4096 ≠ 0))) dt sr).c0
        * (solrefFix (!(decide (Mjw.iand dis 4096 ≠ 0))) dt sr).c1 * (solrefFix (!(decide (Mjw.iand dis 4096 ≠ 0))) dt sr).c1)
    (hb : 0 < sr.c1 → (1e-15 : ℝ) ≤ (solimpFix si).c1 * (solrefFix (!(decide (Mjw.iand dis 4096 ≠ 0))) dt sr).c0) :
    Gen.Constraint._efc_row dis wid dt efcid (pos - margin) (posImp - marginImp) iw sr si margin vel fl ty id'
        tyo ido po mo Do vo ao fo
      = rowCells wid efcid
          (Spec.Impedance.row (!(decide (Mjw.iand dis 4096 ≠ 0))) dt sr si pos margin posImp marginImp iw vel fl) ty id' := by
  rw [efc_row_code]
  rw [solimpFix_eq] at hdord hk hb
  rw [solrefFix_eq dis dt sr hmix] at hk hb
  have hk' : 0 < sr.c0 → (1e-15 : ℝ) ≤ clampImp si.c1 * clampImp si.c1 * tcCode dis dt sr.c0 * tcCode dis dt sr.c0 * sr.c1 * sr.c1 := by
    intro h; have := hk h; simpa only [if_pos h] using this
  have hb' : 0 < sr.c1 → (1e-15 : ℝ) ≤ clampImp si.c1 * tcCode dis dt sr.c0 := by
    intro h; have := hb h
    have h0 : 0 < sr.c0 := ((mixed_false_iff sr).mp hmix).mpr h
    simpa only [if_pos h0] using this
  have hd1 := (clampImp_mem si.c1).1
  simp only
  rw [kCode_eq_spec dis dt sr _ hmix hd1 hk', bCode_eq_spec dis dt sr _ hmix hd1 hb',
    impCode_eq_spec si posImp marginImp hwidth hdord]
  unfold rowCells Spec.Impedance.row Spec.Impedance.regR
  simp only [solimpFix_eq, Spec.Impedance.mjMINVAL, lit_1_0, lit_1_m15, hadd, hsub, hmul, hdiv, hneg, smax]
  rw [max_comm]
  congr 4 <;> ring_nf

/-- (2) **impedance_in_range**, for ALL inputs: there is an impedance `imp` with
    `mjMINIMP = 1e-4 ≤ imp ≤ 0.9999 = mjMAXIMP` — and `dmin ≤ imp ≤ dmax` (clamped values) whenever `dmin ≤ dmax` —
    such that the `D` cell written by `_efc_row` is `1 / max(invweight·(1−imp)/imp, mjMINVAL)`; consequently
    `0 < D ≤ 1e15` for every input (the hypothesis `D > 0` of C24), and for `invweight > 0`,
    `D = min(imp / (invweight·(1−imp)), 1e15)`.
    (The code clamps `solimp[0], solimp[1]` to `[mjMINIMP, mjMAXIMP]` itself, and clamps `imp` to `[dmin, dmax]`.) -/
theorem impedance_in_range (pa pim mg : ℝ) :
    ∃ imp : ℝ, (1e-4 : ℝ) ≤ imp ∧ imp ≤ 0.9999
      ∧ ((solimpFix si).c0 ≤ (solimpFix si).c1 → (solimpFix si).c0 ≤ imp ∧ imp ≤ (solimpFix si).c1)
      ∧ (∃ D : ℝ, (Gen.Constraint._efc_row dis wid dt efcid pa pim iw sr si mg vel fl ty id' tyo ido po mo Do vo ao fo).head?
            = some ⟨"D_out", [wid, efcid], WVal.f D, WKind.set⟩
          ∧ D = 1 / max (iw * (1 - imp) / imp) 1e-15
          ∧ 0 < D ∧ D ≤ 1e15
          ∧ (0 < iw → D = min (imp / (iw * (1 - imp))) 1e15)) := by
  rw [efc_row_code]
  obtain ⟨a0, a1⟩ := clampImp_mem si.c0
  obtain ⟨b0, b1⟩ := clampImp_mem si.c1
  obtain ⟨i0, i1⟩ := impCode_mem (clampImp si.c0) (clampImp si.c1) (clampImp si.c3) (max 1 si.c4)
    (|pim| / max 1e-15 si.c2) a0 a1 b0 b1
  refine ⟨_, i0, i1, ?_, _, rfl, rfl, ?_, ?_, ?_⟩
  · rw [solimpFix_eq]; exact impCode_range _ _ _ _ _
  · have : (0 : ℝ) < max (iw * (1 - impCode (clampImp si.c0) (clampImp si.c1) (clampImp si.c3) (max 1 si.c4)
        (|pim| / max 1e-15 si.c2)) / impCode (clampImp si.c0) (clampImp si.c1) (clampImp si.c3) (max 1 si.c4)
        (|pim| / max 1e-15 si.c2)) 1e-15 := lt_of_lt_of_le (by norm_num) (le_max_right _ _)
    positivity
  · rw [div_le_iff₀ (lt_of_lt_of_le (by norm_num) (le_max_right _ _))]
    have := le_max_right (iw * (1 - impCode (clampImp si.c0) (clampImp si.c1) (clampImp si.c3) (max 1 si.c4)
        (|pim| / max 1e-15 si.c2)) / impCode (clampImp si.c0) (clampImp si.c1) (clampImp si.c3) (max 1 si.c4)
        (|pim| / max 1e-15 si.c2)) (1e-15 : ℝ)
    nlinarith
  · intro hiw
    set imp := impCode (clampImp si.c0) (clampImp si.c1) (clampImp si.c3) (max 1 si.c4) (|pim| / max 1e-15 si.c2)
    have himp : 0 < imp := lt_of_lt_of_le (by norm_num) i0
    have h1 : 0 < 1 - imp := by linarith
    have ha : 0 < iw * (1 - imp) / imp := by positivity
    rcases le_total (iw * (1 - imp) / imp) 1e-15 with h | h
    · rw [max_eq_right h, min_eq_right]
      · norm_num
      · rw [le_div_iff₀ (by positivity)]
        have : iw * (1 - imp) ≤ 1e-15 * imp := by rwa [div_le_iff₀ himp] at h
        nlinarith
    · rw [max_eq_left h, min_eq_left]
      · field_simp
      · rw [div_le_iff₀ (by positivity)]
        have : 1e-15 * imp ≤ iw * (1 - imp) := by rwa [le_div_iff₀ himp] at h
        nlinarith
end efc_row

/-! ## 2. Row counters `ne`, `nf`, `nl`, `nefc` -/

/-- `IsClassThread ctr wid k ty ws`: `ws` is the write list of a thread of world `wid` of one of the ten class builders
    of `constraint.py` (ANY inputs, any value returned by its atomics), whose class counter is `ctr`, block size `k`,
    constraint type `ty` -/
inductive IsClassThread {K : Type} [Scalar K] : String → Int → Int → Int → List (Write K) → Prop
  | equality_connect (nv : Int) (nsite : Int) (opt_timestep : (Int → K)) (opt_disableflags : Int) (body_parentid : (Int → Int)) (body_rootid : (Int → Int)) (body_weldid : (Int → Int)) (body_dofnum : (Int → Int)) (body_dofadr : (Int → Int)) (body_invweight0 : (Int → Int → V2 K)) (jnt_type : (Int → Int)) (jnt_dofadr : (Int → Int)) (dof_bodyid : (Int → Int)) (dof_jntid : (Int → Int)) (dof_parentid : (Int → Int)) (site_bodyid : (Int → Int)) (eq_obj1id : (Int → Int)) (eq_obj2id : (Int → Int)) (eq_objtype : (Int → Int)) (eq_solref : (Int → Int → V2 K)) (eq_solimp : (Int → Int → V5 K)) (eq_data : (Int → Int → V11 K)) (body_isdofancestor : (Int → Int → Int)) (eq_connect_adr : (Int → Int)) (qvel_in : (Int → Int → K)) (eq_active_in : (Int → Int → Bool)) (xpos_in : (Int → Int → V3 K)) (xmat_in : (Int → Int → M33 K)) (site_xpos_in : (Int → Int → V3 K)) (subtree_com_in : (Int → Int → V3 K)) (cdof_in : (Int → Int → V6 K)) (cvel_in : (Int → Int → V6 K)) (cdof_dot_in : (Int → Int → V6 K)) (subtree_linvel_in : (Int → Int → V3 K)) (njmax_in : Int) (njmax_nnz_in : Int) (ne_out : (Int → Int)) (nefc_out : (Int → Int)) (efc_type_out : (Int → Int → Int)) (efc_id_out : (Int → Int → Int)) (efc_jtdaj_adr_out : (Int → Int → Int)) (efc_jtdaj_nrow_out : (Int → Int → Int)) (efc_jtdaj_nblock_out : (Int → Int)) (efc_J_rownnz_out : (Int → Int → Int)) (efc_J_rowadr_out : (Int → Int → Int)) (efc_J_colind_out : (Int → Int → Int → Int)) (efc_J_out : (Int → Int → Int → K)) (efc_pos_out : (Int → Int → K)) (efc_margin_out : (Int → Int → K)) (efc_D_out : (Int → Int → K)) (efc_vel_out : (Int → Int → K)) (efc_aref_out : (Int → Int → K)) (efc_frictionloss_out : (Int → Int → K)) (efc_nnz_out : (Int → Int)) (alloc0 : Int) (st_is_sparse_and_newton : Bool) (alloc1 : Int) (eq_data_shape0 : Int) (body_invweight0_shape0 : Int) (st_is_sparse : Bool) (alloc2 : Int) (eq_solref_shape0 : Int) (eq_solimp_shape0 : Int) (opt_timestep_shape0 : Int) (fuel : Nat) (tid0 : Int) (tid1 : Int) :
      IsClassThread "ne_out" tid0 3 0 (Gen.Constraint._equality_connect__kernel nv nsite opt_timestep opt_disableflags body_parentid body_rootid body_weldid body_dofnum body_dofadr body_invweight0 jnt_type jnt_dofadr dof_bodyid dof_jntid dof_parentid site_bodyid eq_obj1id eq_obj2id eq_objtype eq_solref eq_solimp eq_data body_isdofancestor eq_connect_adr qvel_in eq_active_in xpos_in xmat_in site_xpos_in subtree_com_in cdof_in cvel_in cdof_dot_in subtree_linvel_in njmax_in njmax_nnz_in ne_out nefc_out efc_type_out efc_id_out efc_jtdaj_adr_out efc_jtdaj_nrow_out efc_jtdaj_nblock_out efc_J_rownnz_out efc_J_rowadr_out efc_J_colind_out efc_J_out efc_pos_out efc_margin_out efc_D_out efc_vel_out efc_aref_out efc_frictionloss_out efc_nnz_out alloc0 st_is_sparse_and_newton alloc1 eq_data_shape0 body_invweight0_shape0 st_is_sparse alloc2 eq_solref_shape0 eq_solimp_shape0 opt_timestep_shape0 fuel tid0 tid1)
  | equality_weld (nv : Int) (nsite : Int) (opt_timestep : (Int → K)) (opt_disableflags : Int) (body_parentid : (Int → Int)) (body_rootid : (Int → Int)) (body_weldid : (Int → Int)) (body_dofnum : (Int → Int)) (body_dofadr : (Int → Int)) (body_invweight0 : (Int → Int → V2 K)) (jnt_type : (Int → Int)) (jnt_dofadr : (Int → Int)) (dof_bodyid : (Int → Int)) (dof_jntid : (Int → Int)) (dof_parentid : (Int → Int)) (site_bodyid : (Int → Int)) (site_quat : (Int → Int → Q K)) (eq_obj1id : (Int → Int)) (eq_obj2id : (Int → Int)) (eq_objtype : (Int → Int)) (eq_solref : (Int → Int → V2 K)) (eq_solimp : (Int → Int → V5 K)) (eq_data : (Int → Int → V11 K)) (body_isdofancestor : (Int → Int → Int)) (eq_wld_adr : (Int → Int)) (qvel_in : (Int → Int → K)) (eq_active_in : (Int → Int → Bool)) (xpos_in : (Int → Int → V3 K)) (xquat_in : (Int → Int → Q K)) (xmat_in : (Int → Int → M33 K)) (site_xpos_in : (Int → Int → V3 K)) (subtree_com_in : (Int → Int → V3 K)) (cdof_in : (Int → Int → V6 K)) (cvel_in : (Int → Int → V6 K)) (cdof_dot_in : (Int → Int → V6 K)) (subtree_linvel_in : (Int → Int → V3 K)) (njmax_in : Int) (njmax_nnz_in : Int) (ne_out : (Int → Int)) (nefc_out : (Int → Int)) (efc_type_out : (Int → Int → Int)) (efc_id_out : (Int → Int → Int)) (efc_jtdaj_adr_out : (Int → Int → Int)) (efc_jtdaj_nrow_out : (Int → Int → Int)) (efc_jtdaj_nblock_out : (Int → Int)) (efc_J_rownnz_out : (Int → Int → Int)) (efc_J_rowadr_out : (Int → Int → Int)) (efc_J_colind_out : (Int → Int → Int → Int)) (efc_J_out : (Int → Int → Int → K)) (efc_pos_out : (Int → Int → K)) (efc_margin_out : (Int → Int → K)) (efc_D_out : (Int → Int → K)) (efc_vel_out : (Int → Int → K)) (efc_aref_out : (Int → Int → K)) (efc_frictionloss_out : (Int → Int → K)) (efc_nnz_out : (Int → Int)) (alloc0 : Int) (st_is_sparse_and_newton : Bool) (alloc1 : Int) (eq_data_shape0 : Int) (site_quat_shape0 : Int) (body_invweight0_shape0 : Int) (st_is_sparse : Bool) (alloc2 : Int) (eq_solref_shape0 : Int) (eq_solimp_shape0 : Int) (opt_timestep_shape0 : Int) (fuel : Nat) (tid0 : Int) (tid1 : Int) :
      IsClassThread "ne_out" tid0 6 0 (Gen.Constraint._equality_weld__kernel nv nsite opt_timestep opt_disableflags body_parentid body_rootid body_weldid body_dofnum body_dofadr body_invweight0 jnt_type jnt_dofadr dof_bodyid dof_jntid dof_parentid site_bodyid site_quat eq_obj1id eq_obj2id eq_objtype eq_solref eq_solimp eq_data body_isdofancestor eq_wld_adr qvel_in eq_active_in xpos_in xquat_in xmat_in site_xpos_in subtree_com_in cdof_in cvel_in cdof_dot_in subtree_linvel_in njmax_in njmax_nnz_in ne_out nefc_out efc_type_out efc_id_out efc_jtdaj_adr_out efc_jtdaj_nrow_out efc_jtdaj_nblock_out efc_J_rownnz_out efc_J_rowadr_out efc_J_colind_out efc_J_out efc_pos_out efc_margin_out efc_D_out efc_vel_out efc_aref_out efc_frictionloss_out efc_nnz_out alloc0 st_is_sparse_and_newton alloc1 eq_data_shape0 site_quat_shape0 body_invweight0_shape0 st_is_sparse alloc2 eq_solref_shape0 eq_solimp_shape0 opt_timestep_shape0 fuel tid0 tid1)
  | equality_joint (nv : Int) (opt_timestep : (Int → K)) (opt_disableflags : Int) (qpos0 : (Int → Int → K)) (jnt_qposadr : (Int → Int)) (jnt_dofadr : (Int → Int)) (dof_invweight0 : (Int → Int → K)) (eq_obj1id : (Int → Int)) (eq_obj2id : (Int → Int)) (eq_solref : (Int → Int → V2 K)) (eq_solimp : (Int → Int → V5 K)) (eq_data : (Int → Int → V11 K)) (eq_jnt_adr : (Int → Int)) (qpos_in : (Int → Int → K)) (qvel_in : (Int → Int → K)) (eq_active_in : (Int → Int → Bool)) (njmax_in : Int) (njmax_nnz_in : Int) (ne_out : (Int → Int)) (nefc_out : (Int → Int)) (efc_type_out : (Int → Int → Int)) (efc_id_out : (Int → Int → Int)) (efc_jtdaj_adr_out : (Int → Int → Int)) (efc_jtdaj_nrow_out : (Int → Int → Int)) (efc_jtdaj_nblock_out : (Int → Int)) (efc_J_rownnz_out : (Int → Int → Int)) (efc_J_rowadr_out : (Int → Int → Int)) (efc_J_colind_out : (Int → Int → Int → Int)) (efc_J_out : (Int → Int → Int → K)) (efc_pos_out : (Int → Int → K)) (efc_margin_out : (Int → Int → K)) (efc_D_out : (Int → Int → K)) (efc_vel_out : (Int → Int → K)) (efc_aref_out : (Int → Int → K)) (efc_frictionloss_out : (Int → Int → K)) (efc_nnz_out : (Int → Int)) (alloc0 : Int) (st_is_sparse_and_newton : Bool) (alloc1 : Int) (eq_data_shape0 : Int) (qpos0_shape0 : Int) (dof_invweight0_shape0 : Int) (st_is_sparse : Bool) (alloc2 : Int) (opt_timestep_shape0 : Int) (eq_solref_shape0 : Int) (eq_solimp_shape0 : Int) (cl_rowadr : Int) (tid0 : Int) (tid1 : Int) :
      IsClassThread "ne_out" tid0 1 0 (Gen.Constraint._equality_joint__kernel nv opt_timestep opt_disableflags qpos0 jnt_qposadr jnt_dofadr dof_invweight0 eq_obj1id eq_obj2id eq_solref eq_solimp eq_data eq_jnt_adr qpos_in qvel_in eq_active_in njmax_in njmax_nnz_in ne_out nefc_out efc_type_out efc_id_out efc_jtdaj_adr_out efc_jtdaj_nrow_out efc_jtdaj_nblock_out efc_J_rownnz_out efc_J_rowadr_out efc_J_colind_out efc_J_out efc_pos_out efc_margin_out efc_D_out efc_vel_out efc_aref_out efc_frictionloss_out efc_nnz_out alloc0 st_is_sparse_and_newton alloc1 eq_data_shape0 qpos0_shape0 dof_invweight0_shape0 st_is_sparse alloc2 opt_timestep_shape0 eq_solref_shape0 eq_solimp_shape0 cl_rowadr tid0 tid1)
  | equality_tendon (nv : Int) (opt_timestep : (Int → K)) (opt_disableflags : Int) (eq_obj1id : (Int → Int)) (eq_obj2id : (Int → Int)) (eq_solref : (Int → Int → V2 K)) (eq_solimp : (Int → Int → V5 K)) (eq_data : (Int → Int → V11 K)) (ten_J_rownnz : (Int → Int)) (ten_J_rowadr : (Int → Int)) (ten_J_colind : (Int → Int)) (tendon_length0 : (Int → Int → K)) (tendon_invweight0 : (Int → Int → K)) (eq_ten_adr : (Int → Int)) (qvel_in : (Int → Int → K)) (eq_active_in : (Int → Int → Bool)) (ten_J_in : (Int → Int → K)) (ten_length_in : (Int → Int → K)) (njmax_in : Int) (njmax_nnz_in : Int) (ne_out : (Int → Int)) (nefc_out : (Int → Int)) (efc_type_out : (Int → Int → Int)) (efc_id_out : (Int → Int → Int)) (efc_jtdaj_adr_out : (Int → Int → Int)) (efc_jtdaj_nrow_out : (Int → Int → Int)) (efc_jtdaj_nblock_out : (Int → Int)) (efc_J_rownnz_out : (Int → Int → Int)) (efc_J_rowadr_out : (Int → Int → Int)) (efc_J_colind_out : (Int → Int → Int → Int)) (efc_J_out : (Int → Int → Int → K)) (efc_pos_out : (Int → Int → K)) (efc_margin_out : (Int → Int → K)) (efc_D_out : (Int → Int → K)) (efc_vel_out : (Int → Int → K)) (efc_aref_out : (Int → Int → K)) (efc_frictionloss_out : (Int → Int → K)) (efc_nnz_out : (Int → Int)) (alloc0 : Int) (st_is_sparse_and_newton : Bool) (alloc1 : Int) (eq_data_shape0 : Int) (eq_solref_shape0 : Int) (eq_solimp_shape0 : Int) (tendon_length0_shape0 : Int) (tendon_invweight0_shape0 : Int) (st_is_sparse : Bool) (alloc2 : Int) (opt_timestep_shape0 : Int) (cl_rowadr : Int) (fuel : Nat) (tid0 : Int) (tid1 : Int) :
      IsClassThread "ne_out" tid0 1 0 (Gen.Constraint._equality_tendon__kernel nv opt_timestep opt_disableflags eq_obj1id eq_obj2id eq_solref eq_solimp eq_data ten_J_rownnz ten_J_rowadr ten_J_colind tendon_length0 tendon_invweight0 eq_ten_adr qvel_in eq_active_in ten_J_in ten_length_in njmax_in njmax_nnz_in ne_out nefc_out efc_type_out efc_id_out efc_jtdaj_adr_out efc_jtdaj_nrow_out efc_jtdaj_nblock_out efc_J_rownnz_out efc_J_rowadr_out efc_J_colind_out efc_J_out efc_pos_out efc_margin_out efc_D_out efc_vel_out efc_aref_out efc_frictionloss_out efc_nnz_out alloc0 st_is_sparse_and_newton alloc1 eq_data_shape0 eq_solref_shape0 eq_solimp_shape0 tendon_length0_shape0 tendon_invweight0_shape0 st_is_sparse alloc2 opt_timestep_shape0 cl_rowadr fuel tid0 tid1)
  | equality_flex (nv : Int) (opt_timestep : (Int → K)) (opt_disableflags : Int) (flex_interp : (Int → Int)) (flex_edgeadr : (Int → Int)) (flex_edgenum : (Int → Int)) (flexedge_length0 : (Int → K)) (flexedge_invweight0 : (Int → K)) (flexedge_J_rownnz : (Int → Int)) (flexedge_J_rowadr : (Int → Int)) (flexedge_J_colind : (Int → Int)) (eq_obj1id : (Int → Int)) (eq_solref : (Int → Int → V2 K)) (eq_solimp : (Int → Int → V5 K)) (eq_flex_adr : (Int → Int)) (qvel_in : (Int → Int → K)) (eq_active_in : (Int → Int → Bool)) (flexedge_J_in : (Int → Int → K)) (flexedge_length_in : (Int → Int → K)) (njmax_in : Int) (njmax_nnz_in : Int) (ne_out : (Int → Int)) (nefc_out : (Int → Int)) (efc_type_out : (Int → Int → Int)) (efc_id_out : (Int → Int → Int)) (efc_jtdaj_adr_out : (Int → Int → Int)) (efc_jtdaj_nrow_out : (Int → Int → Int)) (efc_jtdaj_nblock_out : (Int → Int)) (efc_J_rownnz_out : (Int → Int → Int)) (efc_J_rowadr_out : (Int → Int → Int)) (efc_J_colind_out : (Int → Int → Int → Int)) (efc_J_out : (Int → Int → Int → K)) (efc_pos_out : (Int → Int → K)) (efc_margin_out : (Int → Int → K)) (efc_D_out : (Int → Int → K)) (efc_vel_out : (Int → Int → K)) (efc_aref_out : (Int → Int → K)) (efc_frictionloss_out : (Int → Int → K)) (efc_nnz_out : (Int → Int)) (alloc0 : Int) (st_is_sparse_and_newton : Bool) (alloc1 : Int) (eq_solref_shape0 : Int) (eq_solimp_shape0 : Int) (st_is_sparse : Bool) (alloc2 : Int) (opt_timestep_shape0 : Int) (tid0 : Int) (tid1 : Int) (tid2 : Int) :
      IsClassThread "ne_out" tid0 1 0 (Gen.Constraint._equality_flex__kernel nv opt_timestep opt_disableflags flex_interp flex_edgeadr flex_edgenum flexedge_length0 flexedge_invweight0 flexedge_J_rownnz flexedge_J_rowadr flexedge_J_colind eq_obj1id eq_solref eq_solimp eq_flex_adr qvel_in eq_active_in flexedge_J_in flexedge_length_in njmax_in njmax_nnz_in ne_out nefc_out efc_type_out efc_id_out efc_jtdaj_adr_out efc_jtdaj_nrow_out efc_jtdaj_nblock_out efc_J_rownnz_out efc_J_rowadr_out efc_J_colind_out efc_J_out efc_pos_out efc_margin_out efc_D_out efc_vel_out efc_aref_out efc_frictionloss_out efc_nnz_out alloc0 st_is_sparse_and_newton alloc1 eq_solref_shape0 eq_solimp_shape0 st_is_sparse alloc2 opt_timestep_shape0 tid0 tid1 tid2)
  | friction_dof (nv : Int) (opt_timestep : (Int → K)) (opt_disableflags : Int) (dof_solref : (Int → Int → V2 K)) (dof_solimp : (Int → Int → V5 K)) (dof_frictionloss : (Int → Int → K)) (dof_invweight0 : (Int → Int → K)) (qvel_in : (Int → Int → K)) (njmax_in : Int) (njmax_nnz_in : Int) (nf_out : (Int → Int)) (nefc_out : (Int → Int)) (efc_type_out : (Int → Int → Int)) (efc_id_out : (Int → Int → Int)) (efc_jtdaj_adr_out : (Int → Int → Int)) (efc_jtdaj_nrow_out : (Int → Int → Int)) (efc_jtdaj_nblock_out : (Int → Int)) (efc_J_rownnz_out : (Int → Int → Int)) (efc_J_rowadr_out : (Int → Int → Int)) (efc_J_colind_out : (Int → Int → Int → Int)) (efc_J_out : (Int → Int → Int → K)) (efc_pos_out : (Int → Int → K)) (efc_margin_out : (Int → Int → K)) (efc_D_out : (Int → Int → K)) (efc_vel_out : (Int → Int → K)) (efc_aref_out : (Int → Int → K)) (efc_frictionloss_out : (Int → Int → K)) (efc_nnz_out : (Int → Int)) (dof_frictionloss_shape0 : Int) (alloc0 : Int) (st_is_sparse_and_newton : Bool) (alloc1 : Int) (st_is_sparse : Bool) (alloc2 : Int) (dof_invweight0_shape0 : Int) (dof_solref_shape0 : Int) (dof_solimp_shape0 : Int) (opt_timestep_shape0 : Int) (tid0 : Int) (tid1 : Int) :
      IsClassThread "nf_out" tid0 1 1 (Gen.Constraint._friction_dof__kernel nv opt_timestep opt_disableflags dof_solref dof_solimp dof_frictionloss dof_invweight0 qvel_in njmax_in njmax_nnz_in nf_out nefc_out efc_type_out efc_id_out efc_jtdaj_adr_out efc_jtdaj_nrow_out efc_jtdaj_nblock_out efc_J_rownnz_out efc_J_rowadr_out efc_J_colind_out efc_J_out efc_pos_out efc_margin_out efc_D_out efc_vel_out efc_aref_out efc_frictionloss_out efc_nnz_out dof_frictionloss_shape0 alloc0 st_is_sparse_and_newton alloc1 st_is_sparse alloc2 dof_invweight0_shape0 dof_solref_shape0 dof_solimp_shape0 opt_timestep_shape0 tid0 tid1)
  | friction_tendon (nv : Int) (opt_timestep : (Int → K)) (opt_disableflags : Int) (ten_J_rownnz : (Int → Int)) (ten_J_rowadr : (Int → Int)) (ten_J_colind : (Int → Int)) (tendon_solref_fri : (Int → Int → V2 K)) (tendon_solimp_fri : (Int → Int → V5 K)) (tendon_frictionloss : (Int → Int → K)) (tendon_invweight0 : (Int → Int → K)) (qvel_in : (Int → Int → K)) (ten_J_in : (Int → Int → K)) (njmax_in : Int) (njmax_nnz_in : Int) (nf_out : (Int → Int)) (nefc_out : (Int → Int)) (efc_type_out : (Int → Int → Int)) (efc_id_out : (Int → Int → Int)) (efc_jtdaj_adr_out : (Int → Int → Int)) (efc_jtdaj_nrow_out : (Int → Int → Int)) (efc_jtdaj_nblock_out : (Int → Int)) (efc_J_rownnz_out : (Int → Int → Int)) (efc_J_rowadr_out : (Int → Int → Int)) (efc_J_colind_out : (Int → Int → Int → Int)) (efc_J_out : (Int → Int → Int → K)) (efc_pos_out : (Int → Int → K)) (efc_margin_out : (Int → Int → K)) (efc_D_out : (Int → Int → K)) (efc_vel_out : (Int → Int → K)) (efc_aref_out : (Int → Int → K)) (efc_frictionloss_out : (Int → Int → K)) (efc_nnz_out : (Int → Int)) (tendon_frictionloss_shape0 : Int) (alloc0 : Int) (st_is_sparse_and_newton : Bool) (alloc1 : Int) (st_is_sparse : Bool) (alloc2 : Int) (tendon_invweight0_shape0 : Int) (tendon_solref_fri_shape0 : Int) (tendon_solimp_fri_shape0 : Int) (opt_timestep_shape0 : Int) (tid0 : Int) (tid1 : Int) :
      IsClassThread "nf_out" tid0 1 2 (Gen.Constraint._friction_tendon__kernel nv opt_timestep opt_disableflags ten_J_rownnz ten_J_rowadr ten_J_colind tendon_solref_fri tendon_solimp_fri tendon_frictionloss tendon_invweight0 qvel_in ten_J_in njmax_in njmax_nnz_in nf_out nefc_out efc_type_out efc_id_out efc_jtdaj_adr_out efc_jtdaj_nrow_out efc_jtdaj_nblock_out efc_J_rownnz_out efc_J_rowadr_out efc_J_colind_out efc_J_out efc_pos_out efc_margin_out efc_D_out efc_vel_out efc_aref_out efc_frictionloss_out efc_nnz_out tendon_frictionloss_shape0 alloc0 st_is_sparse_and_newton alloc1 st_is_sparse alloc2 tendon_invweight0_shape0 tendon_solref_fri_shape0 tendon_solimp_fri_shape0 opt_timestep_shape0 tid0 tid1)
  | limit_slide_hinge (nv : Int) (opt_timestep : (Int → K)) (opt_disableflags : Int) (jnt_qposadr : (Int → Int)) (jnt_dofadr : (Int → Int)) (jnt_solref : (Int → Int → V2 K)) (jnt_solimp : (Int → Int → V5 K)) (jnt_range : (Int → Int → V2 K)) (jnt_margin : (Int → Int → K)) (dof_invweight0 : (Int → Int → K)) (jnt_limited_slide_hinge_adr : (Int → Int)) (qpos_in : (Int → Int → K)) (qvel_in : (Int → Int → K)) (njmax_in : Int) (njmax_nnz_in : Int) (nl_out : (Int → Int)) (nefc_out : (Int → Int)) (efc_type_out : (Int → Int → Int)) (efc_id_out : (Int → Int → Int)) (efc_jtdaj_adr_out : (Int → Int → Int)) (efc_jtdaj_nrow_out : (Int → Int → Int)) (efc_jtdaj_nblock_out : (Int → Int)) (efc_J_rownnz_out : (Int → Int → Int)) (efc_J_rowadr_out : (Int → Int → Int)) (efc_J_colind_out : (Int → Int → Int → Int)) (efc_J_out : (Int → Int → Int → K)) (efc_pos_out : (Int → Int → K)) (efc_margin_out : (Int → Int → K)) (efc_D_out : (Int → Int → K)) (efc_vel_out : (Int → Int → K)) (efc_aref_out : (Int → Int → K)) (efc_frictionloss_out : (Int → Int → K)) (efc_nnz_out : (Int → Int)) (jnt_range_shape0 : Int) (jnt_margin_shape0 : Int) (alloc0 : Int) (st_is_sparse_and_newton : Bool) (alloc1 : Int) (st_is_sparse : Bool) (alloc2 : Int) (dof_invweight0_shape0 : Int) (jnt_solref_shape0 : Int) (jnt_solimp_shape0 : Int) (opt_timestep_shape0 : Int) (tid0 : Int) (tid1 : Int) :
      IsClassThread "nl_out" tid0 1 3 (Gen.Constraint._limit_slide_hinge__kernel nv opt_timestep opt_disableflags jnt_qposadr jnt_dofadr jnt_solref jnt_solimp jnt_range jnt_margin dof_invweight0 jnt_limited_slide_hinge_adr qpos_in qvel_in njmax_in njmax_nnz_in nl_out nefc_out efc_type_out efc_id_out efc_jtdaj_adr_out efc_jtdaj_nrow_out efc_jtdaj_nblock_out efc_J_rownnz_out efc_J_rowadr_out efc_J_colind_out efc_J_out efc_pos_out efc_margin_out efc_D_out efc_vel_out efc_aref_out efc_frictionloss_out efc_nnz_out jnt_range_shape0 jnt_margin_shape0 alloc0 st_is_sparse_and_newton alloc1 st_is_sparse alloc2 dof_invweight0_shape0 jnt_solref_shape0 jnt_solimp_shape0 opt_timestep_shape0 tid0 tid1)
  | limit_ball (nv : Int) (opt_timestep : (Int → K)) (opt_disableflags : Int) (jnt_qposadr : (Int → Int)) (jnt_dofadr : (Int → Int)) (jnt_solref : (Int → Int → V2 K)) (jnt_solimp : (Int → Int → V5 K)) (jnt_range : (Int → Int → V2 K)) (jnt_margin : (Int → Int → K)) (dof_invweight0 : (Int → Int → K)) (jnt_limited_ball_adr : (Int → Int)) (qpos_in : (Int → Int → K)) (qvel_in : (Int → Int → K)) (njmax_in : Int) (njmax_nnz_in : Int) (nl_out : (Int → Int)) (nefc_out : (Int → Int)) (efc_type_out : (Int → Int → Int)) (efc_id_out : (Int → Int → Int)) (efc_jtdaj_adr_out : (Int → Int → Int)) (efc_jtdaj_nrow_out : (Int → Int → Int)) (efc_jtdaj_nblock_out : (Int → Int)) (efc_J_rownnz_out : (Int → Int → Int)) (efc_J_rowadr_out : (Int → Int → Int)) (efc_J_colind_out : (Int → Int → Int → Int)) (efc_J_out : (Int → Int → Int → K)) (efc_pos_out : (Int → Int → K)) (efc_margin_out : (Int → Int → K)) (efc_D_out : (Int → Int → K)) (efc_vel_out : (Int → Int → K)) (efc_aref_out : (Int → Int → K)) (efc_frictionloss_out : (Int → Int → K)) (efc_nnz_out : (Int → Int)) (jnt_range_shape0 : Int) (jnt_margin_shape0 : Int) (alloc0 : Int) (st_is_sparse_and_newton : Bool) (alloc1 : Int) (st_is_sparse : Bool) (alloc2 : Int) (dof_invweight0_shape0 : Int) (jnt_solref_shape0 : Int) (jnt_solimp_shape0 : Int) (opt_timestep_shape0 : Int) (tid0 : Int) (tid1 : Int) :
      IsClassThread "nl_out" tid0 1 3 (Gen.Constraint._limit_ball__kernel nv opt_timestep opt_disableflags jnt_qposadr jnt_dofadr jnt_solref jnt_solimp jnt_range jnt_margin dof_invweight0 jnt_limited_ball_adr qpos_in qvel_in njmax_in njmax_nnz_in nl_out nefc_out efc_type_out efc_id_out efc_jtdaj_adr_out efc_jtdaj_nrow_out efc_jtdaj_nblock_out efc_J_rownnz_out efc_J_rowadr_out efc_J_colind_out efc_J_out efc_pos_out efc_margin_out efc_D_out efc_vel_out efc_aref_out efc_frictionloss_out efc_nnz_out jnt_range_shape0 jnt_margin_shape0 alloc0 st_is_sparse_and_newton alloc1 st_is_sparse alloc2 dof_invweight0_shape0 jnt_solref_shape0 jnt_solimp_shape0 opt_timestep_shape0 tid0 tid1)
  | limit_tendon (nv : Int) (opt_timestep : (Int → K)) (opt_disableflags : Int) (ten_J_rownnz : (Int → Int)) (ten_J_rowadr : (Int → Int)) (ten_J_colind : (Int → Int)) (tendon_solref_lim : (Int → Int → V2 K)) (tendon_solimp_lim : (Int → Int → V5 K)) (tendon_range : (Int → Int → V2 K)) (tendon_margin : (Int → Int → K)) (tendon_invweight0 : (Int → Int → K)) (tendon_limited_adr : (Int → Int)) (qvel_in : (Int → Int → K)) (ten_J_in : (Int → Int → K)) (ten_length_in : (Int → Int → K)) (njmax_in : Int) (njmax_nnz_in : Int) (nl_out : (Int → Int)) (nefc_out : (Int → Int)) (efc_type_out : (Int → Int → Int)) (efc_id_out : (Int → Int → Int)) (efc_jtdaj_adr_out : (Int → Int → Int)) (efc_jtdaj_nrow_out : (Int → Int → Int)) (efc_jtdaj_nblock_out : (Int → Int)) (efc_J_rownnz_out : (Int → Int → Int)) (efc_J_rowadr_out : (Int → Int → Int)) (efc_J_colind_out : (Int → Int → Int → Int)) (efc_J_out : (Int → Int → Int → K)) (efc_pos_out : (Int → Int → K)) (efc_margin_out : (Int → Int → K)) (efc_D_out : (Int → Int → K)) (efc_vel_out : (Int → Int → K)) (efc_aref_out : (Int → Int → K)) (efc_frictionloss_out : (Int → Int → K)) (efc_nnz_out : (Int → Int)) (tendon_range_shape0 : Int) (tendon_margin_shape0 : Int) (alloc0 : Int) (st_is_sparse_and_newton : Bool) (alloc1 : Int) (st_is_sparse : Bool) (alloc2 : Int) (tendon_invweight0_shape0 : Int) (tendon_solref_lim_shape0 : Int) (tendon_solimp_lim_shape0 : Int) (opt_timestep_shape0 : Int) (tid0 : Int) (tid1 : Int) :
      IsClassThread "nl_out" tid0 1 4 (Gen.Constraint._limit_tendon__kernel nv opt_timestep opt_disableflags ten_J_rownnz ten_J_rowadr ten_J_colind tendon_solref_lim tendon_solimp_lim tendon_range tendon_margin tendon_invweight0 tendon_limited_adr qvel_in ten_J_in ten_length_in njmax_in njmax_nnz_in nl_out nefc_out efc_type_out efc_id_out efc_jtdaj_adr_out efc_jtdaj_nrow_out efc_jtdaj_nblock_out efc_J_rownnz_out efc_J_rowadr_out efc_J_colind_out efc_J_out efc_pos_out efc_margin_out efc_D_out efc_vel_out efc_aref_out efc_frictionloss_out efc_nnz_out tendon_range_shape0 tendon_margin_shape0 alloc0 st_is_sparse_and_newton alloc1 st_is_sparse alloc2 tendon_invweight0_shape0 tendon_solref_lim_shape0 tendon_solimp_lim_shape0 opt_timestep_shape0 tid0 tid1)


/-- (3a) every such thread COUNTS AS a request of `k` rows of its class (`Lemmas.C05.CountsAs`): what it adds to
    `ne`/`nf`/`nl` equals what it adds to `nefc_out` — `k` at its own world iff it performs the allocating atomic
    (BEFORE the capacity guard), nothing elsewhere, nothing to the other class counters, atomic adds only -/
theorem IsClassThread.counts {K : Type} [Scalar K] {ctr : String} {wid k ty : Int} {ws : List (Write K)}
    (h : IsClassThread ctr wid k ty ws) : CountsAs ws ctr wid k := by
  cases h <;> first | apply Lemmas.C05.equality_connect_counts | apply Lemmas.C05.equality_weld_counts | apply Lemmas.C05.equality_joint_counts | apply Lemmas.C05.equality_tendon_counts | apply Lemmas.C05.equality_flex_counts | apply Lemmas.C05.friction_dof_counts | apply Lemmas.C05.friction_tendon_counts | apply Lemmas.C05.limit_slide_hinge_counts | apply Lemmas.C05.limit_ball_counts | apply Lemmas.C05.limit_tendon_counts

/-- (3b) every `efc_type` cell such a thread writes holds the constraint type of its kernel -/
theorem IsClassThread.type {K : Type} [Scalar K] {ctr : String} {wid k ty : Int} {ws : List (Write K)}
    (h : IsClassThread ctr wid k ty ws) : ∀ w ∈ ws, w.arr = "efc_type_out" → w.val = WVal.i ty := by
  cases h <;> first | apply Lemmas.C05.equality_connect_type | apply Lemmas.C05.equality_weld_type | apply Lemmas.C05.equality_joint_type | apply Lemmas.C05.equality_tendon_type | apply Lemmas.C05.equality_flex_type | apply Lemmas.C05.friction_dof_type | apply Lemmas.C05.friction_tendon_type | apply Lemmas.C05.limit_slide_hinge_type | apply Lemmas.C05.limit_ball_type | apply Lemmas.C05.limit_tendon_type

/-- (3c) class counter and constraint type go together: `ne` ↔ EQUALITY (0), `nf` ↔ FRICTION_DOF/TENDON (1, 2),
    `nl` ↔ LIMIT_JOINT/TENDON (3, 4) -/
theorem IsClassThread.class_of_type {K : Type} [Scalar K] {ctr : String} {wid k ty : Int} {ws : List (Write K)}
    (h : IsClassThread ctr wid k ty ws) :
    (ctr = "ne_out" ∧ ty = 0) ∨ (ctr = "nf_out" ∧ (ty = 1 ∨ ty = 2)) ∨ (ctr = "nl_out" ∧ (ty = 3 ∨ ty = 4)) := by
  cases h <;> simp


/-- `IsContactInit wid n ws`: `ws` is the write list of a thread of `_efc_contact_init` whose contact lives in
    world `wid` and has `n` rows (`ndimOf`: elliptic `condim`, pyramidal `1` or `2(condim-1)`) -/
inductive IsContactInit {K : Type} [Scalar K] : Int → Int → List (Write K) → Prop
  | mk (body_weldid : (Int → Int)) (body_dofnum : (Int → Int)) (body_dofadr : (Int → Int)) (dof_parentid : (Int → Int)) (geom_bodyid : (Int → Int)) (njmax_in : Int) (njmax_nnz_in : Int) (nacon_in : (Int → Int)) (dist_in : (Int → K)) (condim_in : (Int → Int)) (includemargin_in : (Int → K)) (adhesion_in : (Int → K)) (worldid_in : (Int → Int)) (geom_in : (Int → I2)) (type_in : (Int → Int)) (nefc_out : (Int → Int)) (contact_efc_address_out : (Int → Int → Int)) (efc_id_out : (Int → Int → Int)) (efc_jtdaj_adr_out : (Int → Int → Int)) (efc_jtdaj_nrow_out : (Int → Int → Int)) (efc_jtdaj_nblock_out : (Int → Int)) (efc_J_rownnz_out : (Int → Int → Int)) (efc_J_rowadr_out : (Int → Int → Int)) (efc_nnz_out : (Int → Int)) (st_flg_adhesion : Bool) (st_IS_ELLIPTIC : Bool) (alloc0 : Int) (st_is_sparse_and_newton : Bool) (alloc1 : Int) (st_IS_SPARSE : Bool) (alloc2 : Int) (fuel : Nat) (tid0 : Int) :
      IsContactInit (worldid_in tid0) (ndimOf st_IS_ELLIPTIC (condim_in tid0)) (Gen.Constraint._efc_contact_init__kernel body_weldid body_dofnum body_dofadr dof_parentid geom_bodyid njmax_in njmax_nnz_in nacon_in dist_in condim_in includemargin_in adhesion_in worldid_in geom_in type_in nefc_out contact_efc_address_out efc_id_out efc_jtdaj_adr_out efc_jtdaj_nrow_out efc_jtdaj_nblock_out efc_J_rownnz_out efc_J_rowadr_out efc_nnz_out st_flg_adhesion st_IS_ELLIPTIC alloc0 st_is_sparse_and_newton alloc1 st_IS_SPARSE alloc2 fuel tid0)

/-- contact-init threads add `ndim` to `nefc_out[worldid]` iff they allocate, and nothing to `ne/nf/nl` -/
theorem IsContactInit.counts {K : Type} [Scalar K] {wid n : Int} {ws : List (Write K)} (h : IsContactInit wid n ws) :
    (reached ws "nefc_out" [wid] → contrib "nefc_out" [wid] ws = n)
    ∧ (¬ reached ws "nefc_out" [wid] → contrib "nefc_out" [wid] ws = 0)
    ∧ (∀ idx, idx ≠ [wid] → contrib "nefc_out" idx ws = 0)
    ∧ (∀ c, c ∈ ["ne_out", "nf_out", "nl_out"] → ∀ idx, contrib c idx ws = 0)
    ∧ AllW (fun w => w.arr ∈ counters → (w.kind = WKind.aadd ∨ w.kind = WKind.alloc)) ws := by
  cases h
  exact Lemmas.C05.contact_init_counts ..

/-- a thread of one of the ten class builders: write list, class counter, world, block size -/
structure Thread (K : Type) where
  ws : List (Write K)
  ctr : String
  wid : Int
  k : Int

/-- a thread of `_efc_contact_init`: write list, world, number of rows of its contact -/
structure CThread (K : Type) where
  ws : List (Write K)
  wid : Int
  n : Int

/-- `_zero_constraint_counts` resets the four counters of its world (so the sums below start from 0) -/
theorem zero_counts {K : Type} [Scalar K] (ne_out nf_out nl_out nefc_out nblock nnz : Int → Int) (tid0 : Int)
    (c : String) (hc : c ∈ counters) (v : Int) :
    Write.lookupI (Gen.Constraint._zero_constraint_counts (K := K) ne_out nf_out nl_out nefc_out nblock nnz tid0) c [tid0] v = 0 := by
  simp only [counters, List.mem_cons, List.mem_nil_iff, or_false] at hc
  rcases hc with rfl | rfl | rfl | rfl <;> simp [Gen.Constraint._zero_constraint_counts, Write.lookupI]

/-- (3) **row_counts**.  Let `ths` be ANY threads of the ten class builders (equality connect/weld/joint/tendon/flex,
    dof/tendon friction, ball/slide-hinge/tendon limits — any worlds, any inputs) and `cts` any threads of
    `_efc_contact_init`, and let `tr` be ANY interleaving of all their writes (any permutation of the concatenation:
    every thread order, every interleaving of the atomics).  Starting from the zeroed counters, for every world `w`:
      `ne[w]` = Σ of the block sizes (connect 3, weld 6, joint/tendon/flex 1) of the equality threads of `w` that
                performed their allocating atomic,  `nf[w]`, `nl[w]` likewise (1 per friction / limit thread),
      `nefc[w]` = the sum over ALL threads of `w` (contacts: `ndim` rows each).
    The class counter is bumped together with `nefc` and BEFORE the capacity guard, so it counts REQUESTED rows:
    `ne + nf + nl ≤ nefc` always, with equality of the prefix sums used by `type_blocks_ordered`. -/
theorem row_counts {K : Type} [Scalar K] (ths : List (Thread K)) (cts : List (CThread K))
    (hth : ∀ t ∈ ths, ∃ ty, IsClassThread t.ctr t.wid t.k ty t.ws)
    (hct : ∀ c ∈ cts, IsContactInit c.wid c.n c.ws)
    (tr : List (Write K)) (hp : tr.Perm ((ths.map (·.ws)).flatten ++ (cts.map (·.ws)).flatten)) (w : Int) :
    (∀ c ∈ ["ne_out", "nf_out", "nl_out"],
      Write.lookupI tr c [w] 0 = (ths.map (fun t => if t.wid = w ∧ t.ctr = c then requested t.ws t.wid t.k else 0)).sum)
    ∧ Write.lookupI tr "nefc_out" [w] 0
        = (ths.map (fun t => if t.wid = w then requested t.ws t.wid t.k else 0)).sum
          + (cts.map (fun c => if c.wid = w then requested c.ws c.wid c.n else 0)).sum := by
  have hkinds : ∀ c ∈ counters, AllW (fun x => x.arr = c → (x.kind = WKind.aadd ∨ x.kind = WKind.alloc)) tr := by
    intro c hc
    refine allW_perm hp ?_
    intro x hx
    rw [List.mem_append] at hx
    intro hxa
    rcases hx with hx | hx
    · obtain ⟨l, hl, hxl⟩ := List.mem_flatten.mp hx
      obtain ⟨t, ht, rfl⟩ := List.mem_map.mp hl
      obtain ⟨ty, hty⟩ := hth t ht
      exact hty.counts.2.2.2.2.2 x hxl (hxa ▸ hc)
    · obtain ⟨l, hl, hxl⟩ := List.mem_flatten.mp hx
      obtain ⟨t, ht, rfl⟩ := List.mem_map.mp hl
      exact (hct t ht).counts.2.2.2.2 x hxl (hxa ▸ hc)
  constructor
  · intro c hc
    have hc' : c ∈ counters := by
      simp only [counters, List.mem_cons, List.mem_nil_iff, or_false] at hc ⊢; tauto
    rw [lookupI_adds tr c [w] 0 (hkinds c hc'), contrib_perm hp, contrib_append, contrib_flatten, contrib_flatten,
      List.map_map, List.map_map, Int.zero_add]
    have h2 : (cts.map (contrib c [w] ∘ fun x => x.ws)).sum = 0 := by
      rw [sum_map_congr _ _ (fun _ => 0)]
      · simp
      · intro t ht
        exact (hct t ht).counts.2.2.2.1 c hc _
    rw [h2, Int.add_zero]
    apply sum_map_congr
    intro t ht
    obtain ⟨ty, hty⟩ := hth t ht
    exact hty.counts.contrib_class c hc w
  · rw [lookupI_adds tr "nefc_out" [w] 0 (hkinds _ (by simp [counters])), contrib_perm hp, contrib_append,
      contrib_flatten, contrib_flatten, List.map_map, List.map_map, Int.zero_add]
    congr 1
    · apply sum_map_congr
      intro t ht
      obtain ⟨ty, hty⟩ := hth t ht
      exact hty.counts.contrib_nefc w
    · apply sum_map_congr
      intro t ht
      obtain ⟨h1, h2, h3, _, _⟩ := (hct t ht).counts
      simp only [Function.comp, requested]
      split_ifs with hw hr
      · subst hw; exact h1 hr
      · subst hw; exact h2 hr
      · exact h3 [w] (by simpa using Ne.symm hw)


/-! ## 3. Row classes occupy consecutive index ranges -/

/-- (4) **type_blocks_ordered**.  `R` = the arena requests of one world per allocating launch of `make_constraint`
    (`Spec.MakeConstraint.launches`: connect, weld, joint, tendon, flex, flexstrain | dof friction, tendon friction |
    ball, slide-hinge, tendon limits | contact init — all on the same counter `nefc`, zeroed first), `os` ANY schedule
    (an arbitrary thread order inside every launch; launches are sequential), `guard`/`C` any capacity guard/capacity.
    With `ne, nf, nl, nc` = the requested rows per class (= the counters of `row_counts`):
    (a) running the launches back to back is one run of the arena on the concatenated order;
    (b) the counter ends at `ne + nf + nl + nc`;
    (c) every block handed out in a launch lies inside the range of the launch's class:
        equality `[0, ne)`, friction `[ne, ne+nf)`, limit `[ne+nf, ne+nf+nl)`, contact `[ne+nf+nl, nefc)`;
    (d) hence a row index `r` of a block is classified by comparisons alone — `r < ne` ⇔ equality, … — which is what
        `_update_constraint_efc` (`efcid < ne`, `efcid < ne + nf`) relies on;
    (e) the blocks tile `[0, nefc)`: every index below `nefc` belongs to some block;
    (f) when nothing is dropped (`nefc ≤ C`, exact fit included) every block is granted (ideal guard; the guards of
        all builders are equivalent to it, `Props/C16`), so every row `r < nefc` was written by a thread of the class
        its index says.   (When rows ARE dropped the ranges (c)-(e) still hold for the REQUESTED blocks, but rows
        `≥ njmax` do not exist; that case is reported by the NEFC overflow bit, `Props/C16`.) -/
theorem type_blocks_ordered (R : Requests) (os : List (List Req)) (hs : IsSchedule (launches R) os)
    (guard : Guard) (C : Int) :
    (runLaunches guard C os 0).flatten = run guard C os.flatten
    ∧ final os.flatten = ne R + nf R + nl R + nc R
    ∧ (∀ p ∈ (launches R).zip (runLaunches guard C os 0), ∀ g ∈ p.2,
        lo R p.1.cls ≤ g.off ∧ g.off + g.k ≤ hi R p.1.cls)
    ∧ (∀ p ∈ (launches R).zip (runLaunches guard C os 0), ∀ g ∈ p.2, ∀ r, g.off ≤ r → r < g.off + g.k →
        (r < ne R ↔ p.1.cls = RowClass.equality)
        ∧ (ne R ≤ r ∧ r < ne R + nf R ↔ p.1.cls = RowClass.friction)
        ∧ (ne R + nf R ≤ r ∧ r < ne R + nf R + nl R ↔ p.1.cls = RowClass.limit)
        ∧ (ne R + nf R + nl R ≤ r ↔ p.1.cls = RowClass.contact))
    ∧ (∀ r, 0 ≤ r → r < final os.flatten → ∃ g ∈ run guard C os.flatten, g.off ≤ r ∧ r < g.off + g.k)
    ∧ (final os.flatten ≤ C → ∀ g ∈ run idealGuard C os.flatten, g.granted = true) := by
  have hc := launch_blocks_in_class_range R os hs guard C
  have hfin : final os.flatten = ne R + nf R + nl R + nc R := by
    obtain ⟨o1, o2, o3, o4, o5, o6, o7, o8, o9, o10, o11, o12, rfl, p1, p2, p3, p4, p5, p6, p7, p8, p9, p10, p11, p12⟩ :=
      isSchedule_launches R os hs
    have e1 := final_perm p1; have e2 := final_perm p2; have e3 := final_perm p3; have e4 := final_perm p4
    have e5 := final_perm p5; have e6 := final_perm p6; have e7 := final_perm p7; have e8 := final_perm p8
    have e9 := final_perm p9; have e10 := final_perm p10; have e11 := final_perm p11; have e12 := final_perm p12
    simp only [List.flatten_cons, List.flatten_nil, List.append_nil, final_append, ne, nf, nl, nc]
    omega
  have hnn : 0 ≤ ne R ∧ 0 ≤ nf R ∧ 0 ≤ nl R ∧ 0 ≤ nc R := by
    simp only [ne, nf, nl, nc]
    have := final_nonneg R.connect; have := final_nonneg R.weld; have := final_nonneg R.joint
    have := final_nonneg R.tendon; have := final_nonneg R.flex; have := final_nonneg R.flexstrain
    have := final_nonneg R.frictionDof; have := final_nonneg R.frictionTendon
    have := final_nonneg R.limitBall; have := final_nonneg R.limitSlideHinge; have := final_nonneg R.limitTendon
    have := final_nonneg R.contact
    omega
  refine ⟨runLaunches_flatten guard C os 0, hfin, hc, ?_, ?_, ?_⟩
  · intro p hp g hg r h1 h2
    have hb := hc p hp g hg
    obtain ⟨n1, n2, n3, n4⟩ := hnn
    cases hcl : p.1.cls <;> simp only [hcl, lo, hi] at hb <;> simp <;> omega
  · intro r h0 h1
    exact runFrom_covers guard C os.flatten 0 r h0 h1
  · intro hfit g hg
    have hb := mem_runFrom_bounds idealGuard C os.flatten 0 g hg
    rw [mem_runFrom_granted idealGuard C os.flatten 0 g hg]
    simp only [idealGuard, decide_eq_true_eq]
    have : finalFrom os.flatten 0 = final os.flatten := rfl
    omega


/-! ## 4. Contact row addresses (`_efc_contact_init__kernel`) -/
section contact_init
variable {K : Type} [Scalar K] (body_weldid : (Int → Int)) (body_dofnum : (Int → Int)) (body_dofadr : (Int → Int)) (dof_parentid : (Int → Int)) (geom_bodyid : (Int → Int)) (njmax_in : Int) (njmax_nnz_in : Int) (nacon_in : (Int → Int)) (dist_in : (Int → K)) (condim_in : (Int → Int)) (includemargin_in : (Int → K)) (adhesion_in : (Int → K)) (worldid_in : (Int → Int)) (geom_in : (Int → I2)) (type_in : (Int → Int)) (nefc_out : (Int → Int)) (contact_efc_address_out : (Int → Int → Int)) (efc_id_out : (Int → Int → Int)) (efc_jtdaj_adr_out : (Int → Int → Int)) (efc_jtdaj_nrow_out : (Int → Int → Int)) (efc_jtdaj_nblock_out : (Int → Int)) (efc_J_rownnz_out : (Int → Int → Int)) (efc_J_rowadr_out : (Int → Int → Int)) (efc_nnz_out : (Int → Int)) (st_flg_adhesion : Bool) (st_IS_ELLIPTIC : Bool) (alloc0 : Int) (st_is_sparse_and_newton : Bool) (alloc1 : Int) (st_IS_SPARSE : Bool) (alloc2 : Int) (fuel : Nat) (tid0 : Int)
local notation "KW" => Gen.Constraint._efc_contact_init__kernel body_weldid body_dofnum body_dofadr dof_parentid geom_bodyid njmax_in njmax_nnz_in nacon_in dist_in condim_in includemargin_in adhesion_in worldid_in geom_in type_in nefc_out contact_efc_address_out efc_id_out efc_jtdaj_adr_out efc_jtdaj_nrow_out efc_jtdaj_nblock_out efc_J_rownnz_out efc_J_rowadr_out efc_nnz_out st_flg_adhesion st_IS_ELLIPTIC alloc0 st_is_sparse_and_newton alloc1 st_IS_SPARSE alloc2 fuel tid0

/-- (5) **contact_address_valid** (thread = contact `conid = tid0`, world `worldid_in conid`, `alloc0` = the value
    returned by its `atomic_add(nefc_out, worldid, ndim)`, `0 ≤ alloc0` as every arena offset):
    (a) every cell of `contact.efc_address` the thread writes is `[conid, d]` with `0 ≤ d < ndim`
        (`ndim = ndimOf cone condim`), and the value `a` written is
          * `a ≥ 0` ⇒ `a = alloc0 + d < njmax` and THE SAME THREAD sets `efc_id[worldid, a] := conid`
            — the address points at a row of that contact;
          * `a < 0` ⇒ `a = -1` and the row did not fit (`njmax ≤ alloc0 + d`);
    (b) conversely a thread that allocated writes the address of EVERY dimension `0 ≤ d < ndim`
        (`alloc0 + d` if it fits, else `-1`);
    (c) the rows of the contact are contiguous: the thread sets `efc_id[worldid, r]` exactly for
        `alloc0 ≤ r < alloc0 + ndim`, `r < njmax`; every such cell holds `conid`.
    Rows of DIFFERENT contacts never overlap: the blocks `[alloc0, alloc0 + ndim)` are handed out by the arena
    (`type_blocks_ordered`, `Props.C16.row_blocks_disjoint`). -/
theorem contact_address_valid (h0 : 0 ≤ alloc0) :
    (∀ w ∈ KW, w.arr = "contact_efc_address_out" →
      ∃ d a, w.idx = [tid0, d] ∧ w.kind = WKind.set ∧ w.val = WVal.i a
        ∧ 0 ≤ d ∧ d < ndimOf st_IS_ELLIPTIC (condim_in tid0)
        ∧ (0 ≤ a → a = alloc0 + d ∧ a < njmax_in ∧ setsI KW "efc_id_out" [worldid_in tid0, a] tid0)
        ∧ (a < 0 → a = -1 ∧ njmax_in ≤ alloc0 + d))
    ∧ (reached KW "nefc_out" [worldid_in tid0] → ∀ d, 0 ≤ d → d < ndimOf st_IS_ELLIPTIC (condim_in tid0) →
        (alloc0 + d < njmax_in → setsI KW "contact_efc_address_out" [tid0, d] (alloc0 + d))
        ∧ (njmax_in ≤ alloc0 + d → setsI KW "contact_efc_address_out" [tid0, d] (-1)))
    ∧ (∀ r, writesRow KW "efc_id_out" (worldid_in tid0) r ↔
        (reached KW "nefc_out" [worldid_in tid0] ∧ alloc0 ≤ r
          ∧ r < alloc0 + ndimOf st_IS_ELLIPTIC (condim_in tid0) ∧ r < njmax_in))
    ∧ (∀ w ∈ KW, w.arr = "efc_id_out" → w.val = WVal.i tid0) := by
  refine ⟨?_, ?_, ?_, ?_⟩
  · intro w hw harr
    obtain ⟨d, hd0, hd1, hidx, hkind, hval⟩ := Lemmas.C05.contact_init_address body_weldid body_dofnum body_dofadr dof_parentid geom_bodyid njmax_in njmax_nnz_in nacon_in dist_in condim_in includemargin_in adhesion_in worldid_in geom_in type_in nefc_out contact_efc_address_out efc_id_out efc_jtdaj_adr_out efc_jtdaj_nrow_out efc_jtdaj_nblock_out efc_J_rownnz_out efc_J_rowadr_out efc_nnz_out st_flg_adhesion st_IS_ELLIPTIC alloc0 st_is_sparse_and_newton alloc1 st_IS_SPARSE alloc2 fuel tid0 w hw harr
    have hreach := Lemmas.C05.contact_init_address_reached body_weldid body_dofnum body_dofadr dof_parentid geom_bodyid njmax_in njmax_nnz_in nacon_in dist_in condim_in includemargin_in adhesion_in worldid_in geom_in type_in nefc_out contact_efc_address_out efc_id_out efc_jtdaj_adr_out efc_jtdaj_nrow_out efc_jtdaj_nblock_out efc_J_rownnz_out efc_J_rowadr_out efc_nnz_out st_flg_adhesion st_IS_ELLIPTIC alloc0 st_is_sparse_and_newton alloc1 st_IS_SPARSE alloc2 fuel tid0 ⟨w, hw, harr⟩
    have hrow := Lemmas.C05.contact_init_address_row body_weldid body_dofnum body_dofadr dof_parentid geom_bodyid njmax_in njmax_nnz_in nacon_in dist_in condim_in includemargin_in adhesion_in worldid_in geom_in type_in nefc_out contact_efc_address_out efc_id_out efc_jtdaj_adr_out efc_jtdaj_nrow_out efc_jtdaj_nblock_out efc_J_rownnz_out efc_J_rowadr_out efc_nnz_out st_flg_adhesion st_IS_ELLIPTIC alloc0 st_is_sparse_and_newton alloc1 st_IS_SPARSE alloc2 fuel tid0 hreach d hd0 hd1
    rcases hval with ⟨hfit, hv⟩ | ⟨hno, hv⟩
    · refine ⟨d, alloc0 + d, hidx, hkind, hv, hd0, hd1, fun _ => ⟨rfl, hfit, (hrow.1 hfit).2⟩, fun h => ?_⟩
      omega
    · refine ⟨d, -1, hidx, hkind, hv, hd0, hd1, fun h => ?_, fun _ => ⟨rfl, hno⟩⟩
      omega
  · intro hreach d hd0 hd1
    have hrow := Lemmas.C05.contact_init_address_row body_weldid body_dofnum body_dofadr dof_parentid geom_bodyid njmax_in njmax_nnz_in nacon_in dist_in condim_in includemargin_in adhesion_in worldid_in geom_in type_in nefc_out contact_efc_address_out efc_id_out efc_jtdaj_adr_out efc_jtdaj_nrow_out efc_jtdaj_nblock_out efc_J_rownnz_out efc_J_rowadr_out efc_nnz_out st_flg_adhesion st_IS_ELLIPTIC alloc0 st_is_sparse_and_newton alloc1 st_IS_SPARSE alloc2 fuel tid0 hreach d hd0 hd1
    exact ⟨fun h => (hrow.1 h).1, hrow.2⟩
  · intro r
    rw [Mjw.Lemmas.C16.contact_init_rows]
    constructor
    · rintro ⟨n, hn, h1, h2, h3⟩
      obtain ⟨_, rfl⟩ := Lemmas.C05.contact_init_ndim body_weldid body_dofnum body_dofadr dof_parentid geom_bodyid njmax_in njmax_nnz_in nacon_in dist_in condim_in includemargin_in adhesion_in worldid_in geom_in type_in nefc_out contact_efc_address_out efc_id_out efc_jtdaj_adr_out efc_jtdaj_nrow_out efc_jtdaj_nblock_out efc_J_rownnz_out efc_J_rowadr_out efc_nnz_out st_flg_adhesion st_IS_ELLIPTIC alloc0 st_is_sparse_and_newton alloc1 st_IS_SPARSE alloc2 fuel tid0 _ n hn
      exact ⟨allocReq_reached _ _ _ _ hn, h1, h2, h3⟩
    · rintro ⟨hr, h1, h2, h3⟩
      obtain ⟨w, hw, ha, hk, hi⟩ := hr
      refine ⟨ndimOf st_IS_ELLIPTIC (condim_in tid0), ?_, h1, h2, h3⟩
      exact Lemmas.C05.contact_init_allocReq body_weldid body_dofnum body_dofadr dof_parentid geom_bodyid njmax_in njmax_nnz_in nacon_in dist_in condim_in includemargin_in adhesion_in worldid_in geom_in type_in nefc_out contact_efc_address_out efc_id_out efc_jtdaj_adr_out efc_jtdaj_nrow_out efc_jtdaj_nblock_out efc_J_rownnz_out efc_J_rowadr_out efc_nnz_out st_flg_adhesion st_IS_ELLIPTIC alloc0 st_is_sparse_and_newton alloc1 st_IS_SPARSE alloc2 fuel tid0 ⟨w, hw, ha, hk, hi⟩
  · exact Lemmas.C05.contact_init_id_value body_weldid body_dofnum body_dofadr dof_parentid geom_bodyid njmax_in njmax_nnz_in nacon_in dist_in condim_in includemargin_in adhesion_in worldid_in geom_in type_in nefc_out contact_efc_address_out efc_id_out efc_jtdaj_adr_out efc_jtdaj_nrow_out efc_jtdaj_nblock_out efc_J_rownnz_out efc_J_rowadr_out efc_nnz_out st_flg_adhesion st_IS_ELLIPTIC alloc0 st_is_sparse_and_newton alloc1 st_IS_SPARSE alloc2 fuel tid0
end contact_init

/-! ## 5. Contact rows (`_efc_contact_update__kernel`) -/
section contact_update_generic
variable {K : Type} [Scalar K] (opt_timestep : (Int → K)) (opt_disableflags : Int) (opt_impratio_invsqrt : (Int → K)) (body_invweight0 : (Int → Int → V2 K)) (geom_bodyid : (Int → Int)) (contact_efc_address_in : (Int → Int → Int)) (efc_Jqvel_in : (Int → Int → K)) (nacon_in : (Int → Int)) (dist_in : (Int → K)) (condim_in : (Int → Int)) (includemargin_in : (Int → K)) (worldid_in : (Int → Int)) (geom_in : (Int → I2)) (friction_in : (Int → V5 K)) (solref_in : (Int → V2 K)) (solreffriction_in : (Int → V2 K)) (solimp_in : (Int → V5 K)) (adhesion_in : (Int → K)) (type_in : (Int → Int)) (efc_type_out : (Int → Int → Int)) (efc_id_out : (Int → Int → Int)) (efc_pos_out : (Int → Int → K)) (efc_margin_out : (Int → Int → K)) (efc_D_out : (Int → Int → K)) (efc_vel_out : (Int → Int → K)) (efc_aref_out : (Int → Int → K)) (efc_frictionloss_out : (Int → Int → K)) (st_IS_ELLIPTIC : Bool) (opt_timestep_shape0 : Int) (opt_impratio_invsqrt_shape0 : Int) (body_invweight0_shape0 : Int) (st_flg_adhesion : Bool) (tid0 : Int) (tid1 : Int)
local notation "KW" => Gen.Constraint._efc_contact_update__kernel opt_timestep opt_disableflags opt_impratio_invsqrt body_invweight0 geom_bodyid contact_efc_address_in efc_Jqvel_in nacon_in dist_in condim_in includemargin_in worldid_in geom_in friction_in solref_in solreffriction_in solimp_in adhesion_in type_in efc_type_out efc_id_out efc_pos_out efc_margin_out efc_D_out efc_vel_out efc_aref_out efc_frictionloss_out

/-- (6a) a thread `(conid, dimid)` outside the contact list, of a non-constraint contact, of a dimension the contact
    does not have (elliptic: `dimid > condim − 1`; pyramidal: `condim = 1 ∧ dimid > 0` or
    `condim > 1 ∧ dimid ≥ 2(condim − 1)`), or whose row was dropped (`efc_address < 0`, see
    `contact_address_valid`) writes nothing.  Any scalar type, both cones, with or without adhesion. -/
theorem contact_update_skips
    (h : tid0 ≥ nacon_in 0 ∨ Mjw.iand (type_in tid0) 1 = 0
      ∨ (st_IS_ELLIPTIC = true ∧ tid1 > condim_in tid0 - 1)
      ∨ (st_IS_ELLIPTIC = false ∧ ((condim_in tid0 = 1 ∧ tid1 > 0) ∨ (condim_in tid0 > 1 ∧ tid1 ≥ 2 * (condim_in tid0 - 1))))
      ∨ contact_efc_address_in tid0 tid1 < 0) :
    KW st_IS_ELLIPTIC opt_timestep_shape0 opt_impratio_invsqrt_shape0 body_invweight0_shape0 st_flg_adhesion tid0 tid1 = [] :=
  Lemmas.C05.update_skips opt_timestep opt_disableflags opt_impratio_invsqrt body_invweight0 geom_bodyid contact_efc_address_in efc_Jqvel_in nacon_in dist_in condim_in includemargin_in worldid_in geom_in friction_in solref_in solreffriction_in solimp_in adhesion_in type_in efc_type_out efc_id_out efc_pos_out efc_margin_out efc_D_out efc_vel_out efc_aref_out efc_frictionloss_out st_IS_ELLIPTIC opt_timestep_shape0 opt_impratio_invsqrt_shape0 body_invweight0_shape0 st_flg_adhesion tid0 tid1 h

/-- (6b) pyramidal cone, model without adhesion: every other thread writes exactly ONE row through `_efc_row`, at the
    address `contact.efc_address[conid, dimid]`, with `pos_aref = pos_imp = dist − includemargin`,
    `margin = includemargin`, `vel = efc_Jqvel[worldid, efcid]`, frictionloss 0, `id = conid`,
    type 5 (`CONTACT_FRICTIONLESS`) iff `condim = 1` else 6 (`CONTACT_PYRAMIDAL`), and an inverse weight
    `pyramidInvweight` that does NOT depend on `dimid`:
    `tran` if `condim = 1`, else `(tran + μ₀²·tran)·2·μ₀²·impratio_invsqrt²`.
    Hence all `2(condim−1)` rows of a contact get the same `D`, `pos`, `margin`, `type`, `id`. -/
theorem contact_update_pyramidal (hflg : st_flg_adhesion = false)
    (hc : tid0 < nacon_in 0) (hty : Mjw.iand (type_in tid0) 1 ≠ 0)
    (hd1 : ¬ (condim_in tid0 = 1 ∧ tid1 > 0)) (hd2 : ¬ (condim_in tid0 > 1 ∧ tid1 ≥ 2 * (condim_in tid0 - 1)))
    (hadr : 0 ≤ contact_efc_address_in tid0 tid1) :
    KW false opt_timestep_shape0 opt_impratio_invsqrt_shape0 body_invweight0_shape0 st_flg_adhesion tid0 tid1
      = Write.renameAll efcRowRenaming
          (Gen.Constraint._efc_row opt_disableflags (worldid_in tid0)
            (opt_timestep (Int.tmod (worldid_in tid0) opt_timestep_shape0)) (contact_efc_address_in tid0 tid1)
            (dist_in tid0 - includemargin_in tid0) (dist_in tid0 - includemargin_in tid0)
            (pyramidInvweight opt_impratio_invsqrt body_invweight0 geom_bodyid condim_in worldid_in geom_in friction_in
              opt_impratio_invsqrt_shape0 body_invweight0_shape0 tid0)
            (solref_in tid0) (solimp_in tid0) (includemargin_in tid0)
            (efc_Jqvel_in (worldid_in tid0) (contact_efc_address_in tid0 tid1)) (Scalar.lit 0 0)
            (if condim_in tid0 = 1 then 5 else 6) tid0
            efc_type_out efc_id_out efc_pos_out efc_margin_out efc_D_out efc_vel_out efc_aref_out efc_frictionloss_out) :=
  Lemmas.C05.update_pyramidal opt_timestep opt_disableflags opt_impratio_invsqrt body_invweight0 geom_bodyid contact_efc_address_in efc_Jqvel_in nacon_in dist_in condim_in includemargin_in worldid_in geom_in friction_in solref_in solreffriction_in solimp_in adhesion_in type_in efc_type_out efc_id_out efc_pos_out efc_margin_out efc_D_out efc_vel_out efc_aref_out efc_frictionloss_out opt_timestep_shape0 opt_impratio_invsqrt_shape0 body_invweight0_shape0 st_flg_adhesion tid0 tid1 hflg hc hty hd1 hd2 hadr

/-- (6c) elliptic cone, model without adhesion: row `dimid` of the contact is written through `_efc_row` with
    `pos_imp = dist − includemargin` for ALL rows, `pos_aref = dist − includemargin` for the normal row and `0` for
    the friction rows (`dimid > 0`), solref = `solreffriction` in the friction rows if it is non-zero
    (`ellipticRef`), inverse weight `tran`, `tran·s²`, `tran·s²·μ₀²/μ_{dimid−1}²` for `dimid = 0, 1, > 1`
    (`s = impratio_invsqrt`; `ellipticInvweight`), type 5 iff `condim = 1` else 7, `margin = includemargin` in ALL
    rows (so `efc_pos = efc_margin = includemargin` in the friction rows, where MuJoCo stores 0 and 0 —
    `C05Witness.elliptic_friction_pos_margin_witness`). -/
theorem contact_update_elliptic (hflg : st_flg_adhesion = false)
    (hc : tid0 < nacon_in 0) (hty : Mjw.iand (type_in tid0) 1 ≠ 0)
    (hd : tid1 ≤ condim_in tid0 - 1) (hadr : 0 ≤ contact_efc_address_in tid0 tid1) :
    KW true opt_timestep_shape0 opt_impratio_invsqrt_shape0 body_invweight0_shape0 st_flg_adhesion tid0 tid1
      = Write.renameAll efcRowRenaming
          (Gen.Constraint._efc_row opt_disableflags (worldid_in tid0)
            (opt_timestep (Int.tmod (worldid_in tid0) opt_timestep_shape0)) (contact_efc_address_in tid0 tid1)
            (if tid1 > 0 then Scalar.lit 0 0 else dist_in tid0 - includemargin_in tid0)
            (dist_in tid0 - includemargin_in tid0)
            (ellipticInvweight opt_impratio_invsqrt body_invweight0 geom_bodyid worldid_in geom_in friction_in
              opt_impratio_invsqrt_shape0 body_invweight0_shape0 tid0 tid1)
            (ellipticRef solref_in solreffriction_in tid0 tid1) (solimp_in tid0) (includemargin_in tid0)
            (efc_Jqvel_in (worldid_in tid0) (contact_efc_address_in tid0 tid1)) (Scalar.lit 0 0)
            (if condim_in tid0 = 1 then 5 else 7) tid0
            efc_type_out efc_id_out efc_pos_out efc_margin_out efc_D_out efc_vel_out efc_aref_out efc_frictionloss_out) :=
  Lemmas.C05.update_elliptic opt_timestep opt_disableflags opt_impratio_invsqrt body_invweight0 geom_bodyid contact_efc_address_in efc_Jqvel_in nacon_in dist_in condim_in includemargin_in worldid_in geom_in friction_in solref_in solreffriction_in solimp_in adhesion_in type_in efc_type_out efc_id_out efc_pos_out efc_margin_out efc_D_out efc_vel_out efc_aref_out efc_frictionloss_out opt_timestep_shape0 opt_impratio_invsqrt_shape0 body_invweight0_shape0 st_flg_adhesion tid0 tid1 hflg hc hty hd hadr
end contact_update_generic

section contact_update_real
variable (opt_timestep : (Int → ℝ)) (opt_disableflags : Int) (opt_impratio_invsqrt : (Int → ℝ)) (body_invweight0 : (Int → Int → V2 ℝ)) (geom_bodyid : (Int → Int)) (contact_efc_address_in : (Int → Int → Int)) (efc_Jqvel_in : (Int → Int → ℝ)) (nacon_in : (Int → Int)) (dist_in : (Int → ℝ)) (condim_in : (Int → Int)) (includemargin_in : (Int → ℝ)) (worldid_in : (Int → Int)) (geom_in : (Int → I2)) (friction_in : (Int → V5 ℝ)) (solref_in : (Int → V2 ℝ)) (solreffriction_in : (Int → V2 ℝ)) (solimp_in : (Int → V5 ℝ)) (adhesion_in : (Int → ℝ)) (type_in : (Int → Int)) (efc_type_out : (Int → Int → Int)) (efc_id_out : (Int → Int → Int)) (efc_pos_out : (Int → Int → ℝ)) (efc_margin_out : (Int → Int → ℝ)) (efc_D_out : (Int → Int → ℝ)) (efc_vel_out : (Int → Int → ℝ)) (efc_aref_out : (Int → Int → ℝ)) (efc_frictionloss_out : (Int → Int → ℝ)) (st_IS_ELLIPTIC : Bool) (opt_timestep_shape0 : Int) (opt_impratio_invsqrt_shape0 : Int) (body_invweight0_shape0 : Int) (st_flg_adhesion : Bool) (tid0 : Int) (tid1 : Int)
local notation "KW" => Gen.Constraint._efc_contact_update__kernel opt_timestep opt_disableflags opt_impratio_invsqrt body_invweight0 geom_bodyid contact_efc_address_in efc_Jqvel_in nacon_in dist_in condim_in includemargin_in worldid_in geom_in friction_in solref_in solreffriction_in solimp_in adhesion_in type_in efc_type_out efc_id_out efc_pos_out efc_margin_out efc_D_out efc_vel_out efc_aref_out efc_frictionloss_out
local notation "tran" => tranWeight body_invweight0 geom_bodyid worldid_in geom_in body_invweight0_shape0 tid0
local notation "sInv" => opt_impratio_invsqrt (Int.tmod (worldid_in tid0) opt_impratio_invsqrt_shape0)
local notation "refsafe" => (!(decide (Mjw.iand opt_disableflags 4096 ≠ 0)))
local notation "dtW" => opt_timestep (Int.tmod (worldid_in tid0) opt_timestep_shape0)

/-- (6) **pyramid_rows_partial** (K = ℝ; pyramidal cone; model without adhesion; thread `(conid, dimid) = (tid0, tid1)`
    of an existing constraint contact, valid dimension, row not dropped).  Under the hypotheses of `efc_row_eq_spec`
    for the contact's `solref`/`solimp`:
    (a) the thread writes exactly the eight cells of the row MuJoCo computes from `efc_pos = dist`,
        `efc_margin = includemargin`, `efc_vel = efc_Jqvel[worldid, efcid]`, frictionloss 0 and
        `diagApprox := pyramidInvweight` (renamed to the `efc_*` arrays), with type 5/6 and `efc_id = conid` — the same
        `D`, `pos`, `margin` for every `dimid` of the contact;
    (b) `condim = 1`: that `diagApprox` is `tran` (MuJoCo's `mj_diagApprox` for frictionless contacts);
    (c) `condim > 1`: if `impratio_invsqrt² = 1/impratio`, `impratio ≥ mjMINVAL` and neither `mjMINVAL` clamp is active,
        `D = 1 / Rpy` with MuJoCo's `Rpy = 2·mu_reg²·R₀`, `R₀ = max(mjMINVAL, (1−imp)·(tran + μ₀²·tran)/imp)`,
        `mu_reg = μ₀·sqrt(R₁/R₀)`, `R₁ = R₀/max(mjMINVAL, impratio)` (`Spec.Impedance.pyramidR`).
    PARTIAL — full statement `pyramid_rows_eq_spec`: "rows `2i, 2i+1` of contact `c` are `J_n ± μ_i·J_{t_i}` with the
    scalars above, with and without adhesion".  Missing: the Jacobian rows (`_efc_contact_jac_*`, property C22) and
    `efc_vel` as `J·qvel`; the adhesion branch (`flg_adhesion`), where the generated kernel reads `efc_D_out` as
    PRE-launch content although `_efc_row` has just written it (translator limitation, reported). -/
theorem pyramid_rows_partial (hflg : st_flg_adhesion = false)
    (hc : tid0 < nacon_in 0) (hty : Mjw.iand (type_in tid0) 1 ≠ 0)
    (hd1 : ¬ (condim_in tid0 = 1 ∧ tid1 > 0)) (hd2 : ¬ (condim_in tid0 > 1 ∧ tid1 ≥ 2 * (condim_in tid0 - 1)))
    (hadr : 0 ≤ contact_efc_address_in tid0 tid1)
    (hmix : mixedSolref (solref_in tid0) = false)
    (hwidth : (1e-15 : ℝ) < (solimp_in tid0).c2)
    (hdord : (solimpFix (solimp_in tid0)).c0 ≤ (solimpFix (solimp_in tid0)).c1)
    (hk : 0 < (solref_in tid0).c0 → (1e-15 : ℝ) ≤ (solimpFix (solimp_in tid0)).c1 * (solimpFix (solimp_in tid0)).c1
        * (solrefFix refsafe dtW (solref_in tid0)).c0 * (solrefFix refsafe dtW (solref_in tid0)).c0
        * (solrefFix refsafe dtW (solref_in tid0)).c1 * (solrefFix refsafe dtW (solref_in tid0)).c1)
    (hb : 0 < (solref_in tid0).c1 → (1e-15 : ℝ) ≤ (solimpFix (solimp_in tid0)).c1 * (solrefFix refsafe dtW (solref_in tid0)).c0) :
    KW false opt_timestep_shape0 opt_impratio_invsqrt_shape0 body_invweight0_shape0 st_flg_adhesion tid0 tid1
      = Write.renameAll efcRowRenaming
          (rowCells (worldid_in tid0) (contact_efc_address_in tid0 tid1)
            (Spec.Impedance.row refsafe dtW (solref_in tid0) (solimp_in tid0)
              (dist_in tid0) (includemargin_in tid0) (dist_in tid0) (includemargin_in tid0)
              (pyramidInvweight opt_impratio_invsqrt body_invweight0 geom_bodyid condim_in worldid_in geom_in friction_in
                opt_impratio_invsqrt_shape0 body_invweight0_shape0 tid0)
              (efc_Jqvel_in (worldid_in tid0) (contact_efc_address_in tid0 tid1)) 0)
            (if condim_in tid0 = 1 then 5 else 6) tid0)
    ∧ (condim_in tid0 = 1 →
        pyramidInvweight opt_impratio_invsqrt body_invweight0 geom_bodyid condim_in worldid_in geom_in friction_in
          opt_impratio_invsqrt_shape0 body_invweight0_shape0 tid0 = tran)
    ∧ (∀ impratio : ℝ, condim_in tid0 > 1 → sInv * sInv = 1 / impratio → (1e-15 : ℝ) ≤ impratio →
        (1e-15 : ℝ) ≤ (1 - getImpedance (solimpFix (solimp_in tid0)) (dist_in tid0) (includemargin_in tid0))
            * (tran + (friction_in tid0).c0 * (friction_in tid0).c0 * tran)
            / getImpedance (solimpFix (solimp_in tid0)) (dist_in tid0) (includemargin_in tid0) →
        (1e-15 : ℝ) ≤ (1 - getImpedance (solimpFix (solimp_in tid0)) (dist_in tid0) (includemargin_in tid0))
            * (((((tran + (friction_in tid0).c0 * (friction_in tid0).c0 * tran) * 2) * (friction_in tid0).c0)
                * (friction_in tid0).c0 * sInv) * sInv)
            / getImpedance (solimpFix (solimp_in tid0)) (dist_in tid0) (includemargin_in tid0) →
        (Spec.Impedance.row refsafe dtW (solref_in tid0) (solimp_in tid0)
              (dist_in tid0) (includemargin_in tid0) (dist_in tid0) (includemargin_in tid0)
              (pyramidInvweight opt_impratio_invsqrt body_invweight0 geom_bodyid condim_in worldid_in geom_in friction_in
                opt_impratio_invsqrt_shape0 body_invweight0_shape0 tid0)
              (efc_Jqvel_in (worldid_in tid0) (contact_efc_address_in tid0 tid1)) 0).D
          = 1 / Spec.Impedance.pyramidR
                (Spec.Impedance.regR (getImpedance (solimpFix (solimp_in tid0)) (dist_in tid0) (includemargin_in tid0))
                  (Spec.Impedance.diagApproxPyramid tran (friction_in tid0).c0))
                (friction_in tid0).c0 impratio) := by
  refine ⟨?_, ?_, ?_⟩
  · rw [Lemmas.C05.update_pyramidal opt_timestep opt_disableflags opt_impratio_invsqrt body_invweight0 geom_bodyid contact_efc_address_in efc_Jqvel_in nacon_in dist_in condim_in includemargin_in worldid_in geom_in friction_in solref_in solreffriction_in solimp_in adhesion_in type_in efc_type_out efc_id_out efc_pos_out efc_margin_out efc_D_out efc_vel_out efc_aref_out efc_frictionloss_out opt_timestep_shape0 opt_impratio_invsqrt_shape0 body_invweight0_shape0 st_flg_adhesion tid0 tid1 hflg hc hty hd1 hd2 hadr]
    have := efc_row_eq_spec opt_disableflags (worldid_in tid0) dtW (contact_efc_address_in tid0 tid1)
      (pyramidInvweight opt_impratio_invsqrt body_invweight0 geom_bodyid condim_in worldid_in geom_in friction_in
        opt_impratio_invsqrt_shape0 body_invweight0_shape0 tid0)
      (solref_in tid0) (solimp_in tid0) (efc_Jqvel_in (worldid_in tid0) (contact_efc_address_in tid0 tid1)) 0
      (if condim_in tid0 = 1 then 5 else 6) tid0 efc_type_out efc_id_out efc_pos_out efc_margin_out efc_D_out efc_vel_out
      efc_aref_out efc_frictionloss_out (dist_in tid0) (includemargin_in tid0) (dist_in tid0) (includemargin_in tid0)
      hmix hwidth hdord hk hb
    rw [show (Scalar.lit 0 0 : ℝ) = 0 from lit_0_0, hsub, this]
  · intro h1
    unfold pyramidInvweight
    simp [h1]
  · intro impratio hc1 hs hir hR0 hRpy
    unfold Spec.Impedance.row pyramidInvweight Spec.Impedance.regR
    simp only [hc1, if_true, Spec.Impedance.mjMINVAL, lit_1_0, lit_1_m15, lit_2_0, hadd, hsub, hmul, hdiv, smax]
    have key := pyramid_D_arith tran (friction_in tid0).c0 sInv impratio _ hs hir hR0 hRpy
    unfold Spec.Impedance.regR at key
    simp only [Spec.Impedance.mjMINVAL, lit_1_0, lit_1_m15, lit_2_0, hadd, hsub, hmul, hdiv, smax] at key
    exact key
end contact_update_real

/-! ## Examples (non-vacuity of the hypotheses) -/
section examples

private def z2 : Int → Int → Int := fun _ _ => 0
private noncomputable def zr : Int → Int → ℝ := fun _ _ => 0


/-- `efc_row_eq_spec`, standard solref (0.02, 1), MuJoCo's default solimp, timestep 0.002, REFSAFE on, a penetration of
    half the width (`x = 0.5 = mid`: inside the sigmoid, on the branch boundary): all hypotheses hold -/
example :
    Gen.Constraint._efc_row 0 0 (0.002 : ℝ) 0 (-0.0005 - 0) (-0.0005 - 0) 1 ⟨0.02, 1⟩ ⟨0.9, 0.95, 0.001, 0.5, 2⟩ 0 0 0 5 0
        z2 z2 zr zr zr zr zr zr
      = rowCells 0 0 (Spec.Impedance.row (!(decide (Mjw.iand 0 4096 ≠ 0))) 0.002 ⟨0.02, 1⟩ ⟨0.9, 0.95, 0.001, 0.5, 2⟩
          (-0.0005) 0 (-0.0005) 0 1 0 0) 5 0 := by
  have hmix : mixedSolref (⟨0.02, 1⟩ : V2 ℝ) = false := by
    simp [mixedSolref, Scalar.gt, Scalar.lt, lit_0_0]; norm_num
  apply efc_row_eq_spec
  · exact hmix
  · norm_num
  · rw [solimpFix_eq]; norm_num [clampImp, max_def, min_def]
  · intro _
    rw [solimpFix_eq, solrefFix_eq _ _ _ hmix]
    norm_num [clampImp, tcCode, iand0, max_def, min_def]
  · intro _
    rw [solimpFix_eq, solrefFix_eq _ _ _ hmix]
    norm_num [clampImp, tcCode, iand0, max_def, min_def]

/-- `efc_row_eq_spec`, direct solref (−100, −10) (stiffness 100, damping 10): all hypotheses hold -/
example :
    Gen.Constraint._efc_row 0 0 (0.002 : ℝ) 0 (-0.01 - 0) (-0.01 - 0) 1 ⟨-100, -10⟩ ⟨0.9, 0.95, 0.001, 0.5, 2⟩ 0 0.3 0 5 0
        z2 z2 zr zr zr zr zr zr
      = rowCells 0 0 (Spec.Impedance.row (!(decide (Mjw.iand 0 4096 ≠ 0))) 0.002 ⟨-100, -10⟩ ⟨0.9, 0.95, 0.001, 0.5, 2⟩
          (-0.01) 0 (-0.01) 0 1 0.3 0) 5 0 := by
  have hmix : mixedSolref (⟨-100, -10⟩ : V2 ℝ) = false := by
    simp [mixedSolref, Scalar.gt, Scalar.lt, lit_0_0]; norm_num
  apply efc_row_eq_spec
  · exact hmix
  · norm_num
  · rw [solimpFix_eq]; norm_num [clampImp, max_def, min_def]
  · intro h; norm_num at h
  · intro h; norm_num at h

/-- the arena side: a world with one connect (3), one weld (6), two joint equalities, one dof-friction row, one ball
    limit and two contacts (4 and 1 rows); every launch scheduled in REVERSE thread order.  It is a schedule; the
    counters are `ne = 11, nf = 1, nl = 1, nc = 5`; the offsets handed out are the ones `type_blocks_ordered` predicts. -/
example :
    let R : Requests := ⟨[⟨0, 3⟩], [⟨1, 6⟩], [⟨2, 1⟩, ⟨3, 1⟩], [], [], [], [⟨4, 1⟩], [], [⟨5, 1⟩], [], [], [⟨6, 4⟩, ⟨7, 1⟩]⟩
    let os : List (List Req) := (launches R).map (fun l => l.reqs.reverse)
    IsSchedule (launches R) os ∧ ne R = 11 ∧ nf R = 1 ∧ nl R = 1 ∧ nc R = 5
      ∧ (run idealGuard 18 os.flatten).map (fun g => (g.id, g.off, g.granted))
          = [(0, 0, true), (1, 3, true), (3, 9, true), (2, 10, true), (4, 11, true), (5, 12, true), (7, 13, true), (6, 14, true)] := by
  intro R os
  refine ⟨?_, by decide, by decide, by decide, by decide, by decide⟩
  simp only [os, R, launches, List.map_cons, List.map_nil, IsSchedule, and_true]
  exact ⟨List.reverse_perm _, List.reverse_perm _, List.reverse_perm _, List.reverse_perm _, List.reverse_perm _,
    List.reverse_perm _, List.reverse_perm _, List.reverse_perm _, List.reverse_perm _, List.reverse_perm _,
    List.reverse_perm _, List.reverse_perm _⟩

/-- an active joint equality of world 0 is a class thread of `ne` that performs its allocating atomic:
    the hypotheses of `row_counts` are met and the thread requests 1 row -/
example :
    let ws : List (Write ℝ) := Gen.Constraint._equality_joint__kernel (K := ℝ) 0 (fun _ => 0) 0 (fun _ _ => 0) (fun _ => 0) (fun _ => 0) (fun _ _ => 0) (fun _ => 0) (fun _ => 0) (fun _ _ => ⟨0, 0⟩) (fun _ _ => ⟨0, 0, 0, 0, 0⟩) (fun _ _ => ⟨0, 0, 0, 0, 0, 0, 0, 0, 0, 0, 0⟩) (fun _ => 0) (fun _ _ => 0) (fun _ _ => 0) (fun _ _ => true) 2 0 (fun _ => 0) (fun _ => 0) (fun _ _ => 0) (fun _ _ => 0) (fun _ _ => 0) (fun _ _ => 0) (fun _ => 0) (fun _ _ => 0) (fun _ _ => 0) (fun _ _ _ => 0) (fun _ _ _ => 0) (fun _ _ => 0) (fun _ _ => 0) (fun _ _ => 0) (fun _ _ => 0) (fun _ _ => 0) (fun _ _ => 0) (fun _ => 0) 1 false 0 0 0 0 false 0 0 0 0 0 0 0
    IsClassThread "ne_out" 0 1 0 ws ∧ requested ws 0 1 = 1
      ∧ Write.lookupI ws "ne_out" [0] 0 = 1 ∧ Write.lookupI ws "nefc_out" [0] 0 = 1 := by
  intro ws
  have hr : reached ws "nefc_out" [0] := by
    simp only [ws]; unfold Gen.Constraint._equality_joint__kernel; csimp []
  have hc : IsClassThread "ne_out" 0 1 0 ws := IsClassThread.equality_joint ..
  have h := row_counts (K := ℝ) [⟨ws, "ne_out", 0, 1⟩] [] (by simpa using ⟨0, hc⟩) (by simp) ws (by simp) 0
  refine ⟨hc, by simp [requested, hr], ?_, ?_⟩
  · simpa [requested, hr] using h.1 "ne_out" (by simp)
  · simpa [requested, hr] using h.2

/-- an active contact of world 0 (condim 3, pyramidal ⇒ 4 rows) with `njmax = 3`, `alloc0 = 0`: it allocates, and by
    `contact_address_valid` dimensions 0..2 get the addresses 0..2 and dimension 3 (the row that does not fit) gets −1 -/
example :
    let ws : List (Write ℝ) := Gen.Constraint._efc_contact_init__kernel (K := ℝ) (fun _ => 0) (fun _ => 0) (fun _ => 0) (fun _ => 0) (fun _ => 0) 3 0 (fun _ => 1) (fun _ => -1) (fun _ => 3) (fun _ => 0) (fun _ => 0) (fun _ => 0) (fun _ => ⟨0, 0⟩) (fun _ => 1) (fun _ => 0) (fun _ _ => 0) (fun _ _ => 0) (fun _ _ => 0) (fun _ _ => 0) (fun _ => 0) (fun _ _ => 0) (fun _ _ => 0) (fun _ => 0) false false 0 false 0 false 0 0 0
    reached ws "nefc_out" [0] ∧ ndimOf false 3 = 4
      ∧ setsI ws "contact_efc_address_out" [0, 2] 2 ∧ setsI ws "contact_efc_address_out" [0, 3] (-1) := by
  intro ws
  have hr : reached ws "nefc_out" [0] := by
    simp only [ws]; unfold Gen.Constraint._efc_contact_init__kernel
    have : Mjw.iand 1 1 ≠ 0 := by decide
    csimp [this, ite_append_nil]
  have h := (contact_address_valid (K := ℝ) (fun _ => 0) (fun _ => 0) (fun _ => 0) (fun _ => 0) (fun _ => 0) 3 0 (fun _ => 1) (fun _ => -1) (fun _ => 3) (fun _ => 0) (fun _ => 0) (fun _ => 0) (fun _ => ⟨0, 0⟩) (fun _ => 1) (fun _ => 0) (fun _ _ => 0) (fun _ _ => 0) (fun _ _ => 0) (fun _ _ => 0) (fun _ => 0) (fun _ _ => 0) (fun _ _ => 0) (fun _ => 0) false false 0 false 0 false 0 0 0 (le_refl _)).2.1 hr
  refine ⟨hr, by decide, ?_, ?_⟩
  · simpa using (h 2 (by norm_num) (by decide)).1 (by norm_num)
  · simpa using (h 3 (by norm_num) (by decide)).2 (by norm_num)

/-- `pyramid_rows_partial`: one contact of world 0 (`condim = 3`, `dist = 0.09`, `includemargin = 0.1`, μ₀ = 1,
    body inverse weights 1 + 1, `impratio = 1`), edge `dimid = 2`, address 2: ALL hypotheses hold, including those of
    part (c) — so the thread writes MuJoCo's row and its `D` is `1/Rpy` -/
example :
    let r := Spec.Impedance.row (!(decide (Mjw.iand 0 4096 ≠ 0))) (0.002 : ℝ) ⟨0.02, 1⟩ ⟨0.9, 0.95, 0.001, 0.5, 2⟩
      0.09 0.1 0.09 0.1 ((((1 + 1 + 1 * 1 * (1 + 1)) * 2) * 1) * 1 * 1 * 1) 0 0
    Gen.Constraint._efc_contact_update__kernel (K := ℝ) (fun _ => 0.002) 0 (fun _ => 1) (fun _ _ => ⟨1, 1⟩) (fun _ => 0)
        (fun _ d => d) (fun _ _ => 0) (fun _ => 1) (fun _ => 0.09) (fun _ => 3) (fun _ => 0.1) (fun _ => 0)
        (fun _ => ⟨0, 1⟩) (fun _ => ⟨1, 1, 0.005, 0.0001, 0.0001⟩) (fun _ => ⟨0.02, 1⟩) (fun _ => ⟨0, 0⟩)
        (fun _ => ⟨0.9, 0.95, 0.001, 0.5, 2⟩) (fun _ => 0) (fun _ => 1) z2 z2 zr zr zr zr zr zr false 1 1 1 false 0 2
      = Write.renameAll efcRowRenaming (rowCells 0 2 r 6 0)
    ∧ r.D = 1 / Spec.Impedance.pyramidR (Spec.Impedance.regR 0.95 (Spec.Impedance.diagApproxPyramid 2 1)) 1 1 := by
  intro r
  have hmix : mixedSolref (⟨0.02, 1⟩ : V2 ℝ) = false := by
    simp [mixedSolref, Scalar.gt, Scalar.lt, lit_0_0]; norm_num
  have himp : getImpedance (solimpFix (⟨0.9, 0.95, 0.001, 0.5, 2⟩ : V5 ℝ)) 0.09 0.1 = 0.95 := by
    rw [solimpFix_eq]
    simp only [getImpedance, Spec.Impedance.mjMINVAL, lit_1_m15, lit_1_0, lit_0_0, lit_5_m1, hadd, hsub, hmul, hdiv,
      sbeq, sle, sge, sabs, Bool.or_eq_true, clampImp]
    norm_num [max_def, min_def, abs_of_neg]
  have h := pyramid_rows_partial (fun _ => (0.002 : ℝ)) 0 (fun _ => 1) (fun _ _ => ⟨1, 1⟩) (fun _ => 0)
        (fun _ d => d) (fun _ _ => 0) (fun _ => 1) (fun _ => 0.09) (fun _ => 3) (fun _ => 0.1) (fun _ => 0)
        (fun _ => ⟨0, 1⟩) (fun _ => ⟨1, 1, 0.005, 0.0001, 0.0001⟩) (fun _ => ⟨0.02, 1⟩) (fun _ => ⟨0, 0⟩)
        (fun _ => ⟨0.9, 0.95, 0.001, 0.5, 2⟩) (fun _ => 0) (fun _ => 1) z2 z2 zr zr zr zr zr zr 1 1 1 false 0 2
        rfl (by norm_num) (by decide) (by norm_num) (by norm_num) (by norm_num) hmix (by norm_num)
        (by rw [solimpFix_eq]; norm_num [clampImp, max_def, min_def])
        (by intro _; rw [solimpFix_eq, solrefFix_eq _ _ _ hmix]; norm_num [clampImp, tcCode, iand0, max_def, min_def])
        (by intro _; rw [solimpFix_eq, solrefFix_eq _ _ _ hmix]; norm_num [clampImp, tcCode, iand0, max_def, min_def])
  have hiw : pyramidInvweight (fun _ => (1 : ℝ)) (fun _ _ => ⟨1, 1⟩) (fun _ => 0) (fun _ => 3) (fun _ => 0)
      (fun _ => ⟨0, 1⟩) (fun _ => ⟨1, 1, 0.005, 0.0001, 0.0001⟩) 1 1 0
      = ((((1 + 1 + 1 * 1 * (1 + 1)) * 2) * 1) * 1 * 1 * 1) := by
    simp [pyramidInvweight, tranWeight, lit_2_0]
  have htr : tranWeight (fun _ _ => (⟨1, 1⟩ : V2 ℝ)) (fun _ => 0) (fun _ => 0) (fun _ => ⟨0, 1⟩) 1 0 = 2 := by
    simp [tranWeight]; norm_num
  refine ⟨?_, ?_⟩
  · have h1 := h.1
    rw [hiw] at h1
    exact h1
  · have h3 := h.2.2 1 (by norm_num) (by norm_num) (by norm_num)
    rw [himp, htr, hiw] at h3
    exact h3 (by norm_num) (by norm_num)

end examples

end Mjw.Props.C05
