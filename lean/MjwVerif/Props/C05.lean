import MjwVerif.Lemmas.Real
import MjwVerif.Lemmas.C05
import MjwVerif.Lemmas.C05Kernels
import MjwVerif.Lemmas.C16KernelsB
import MjwVerif.Lemmas.C05Layout
import MjwVerif.Lemmas.C05Contact
import MjwVerif.Lemmas.C05Update
import MjwVerif.Spec.Impedance
import MjwVerif.Spec.MakeConstraint
import MjwVerif.Gen.Constraint
set_option linter.unusedVariables false
set_option linter.unusedSimpArgs false
set_option linter.unusedSectionVars false

namespace Mjw.Props.C05
open Mjw Mjw.Alloc Mjw.Lemmas.C16 Mjw.Lemmas.C05
open Mjw.Spec.Impedance (solrefFix solimpFix mixedSolref getImpedance)
open Mjw.Spec.MakeConstraint

/-! ## 2. Row counters `ne`, `nf`, `nl`, `nefc` -/

inductive IsClassThread {K : Type} [Scalar K] : String → Int → Int → Int → List (Write K) → Prop
  | equality_connect (nv : Int) (nsite : Int) (opt_timestep : (Int → K)) (opt_disableflags : Int) (body_parentid : (Int → Int)) (body_rootid : (Int → Int)) (body_weldid : (Int → Int)) (body_dofnum : (Int → Int)) (body_dofadr : (Int → Int)) (body_invweight0 : (Int → Int → V2 K)) (jnt_type : (Int → Int)) (jnt_dofadr : (Int → Int)) (dof_bodyid : (Int → Int)) (dof_jntid : (Int → Int)) (dof_parentid : (Int → Int)) (site_bodyid : (Int → Int)) (eq_obj1id : (Int → Int)) (eq_obj2id : (Int → Int)) (eq_objtype : (Int → Int)) (eq_solref : (Int → Int → V2 K)) (eq_solimp : (Int → Int → V5 K)) (eq_data : (Int → Int → V11 K)) (body_isdofancestor : (Int → Int → Int)) (eq_connect_adr : (Int → Int)) (qvel_in : (Int → Int → K)) (eq_active_in : (Int → Int → Bool)) (xpos_in : (Int → Int → V3 K)) (xmat_in : (Int → Int → M33 K)) (site_xpos_in : (Int → Int → V3 K)) (subtree_com_in : (Int → Int → V3 K)) (cdof_in : (Int → Int → V6 K)) (cvel_in : (Int → Int → V6 K)) (cdof_dot_in : (Int → Int → V6 K)) (subtree_linvel_in : (Int → Int → V3 K)) (njmax_in : Int) (njmax_nnz_in : Int) (ne_out : (Int → Int)) (nefc_out : (Int → Int)) (efc_type_out : (Int → Int → Int)) (efc_id_out : (Int → Int → Int)) (efc_jtdaj_adr_out : (Int → Int → Int)) (efc_jtdaj_nrow_out : (Int → Int → Int)) (efc_jtdaj_nblock_out : (Int → Int)) (efc_J_rownnz_out : (Int → Int → Int)) (efc_J_rowadr_out : (Int → Int → Int)) (efc_J_colind_out : (Int → Int → Int → Int)) (efc_J_out : (Int → Int → Int → K)) (efc_pos_out : (Int → Int → K)) (efc_margin_out : (Int → Int → K)) (efc_D_out : (Int → Int → K)) (efc_vel_out : (Int → Int → K)) (efc_aref_out : (Int → Int → K)) (efc_frictionloss_out : (Int → Int → K)) (efc_nnz_out : (Int → Int)) (alloc0 : Int) (st_is_sparse_and_newton : Bool) (alloc1 : Int) (eq_data_shape0 : Int) (st_is_sparse : Bool) (alloc2 : Int) (body_invweight0_shape0 : Int) (eq_solref_shape0 : Int) (eq_solimp_shape0 : Int) (opt_timestep_shape0 : Int) (fuel : Nat) (tid0 : Int) (tid1 : Int) :
      IsClassThread "ne_out" tid0 3 0 (Gen.Constraint._equality_connect__kernel nv nsite opt_timestep opt_disableflags body_parentid body_rootid body_weldid body_dofnum body_dofadr body_invweight0 jnt_type jnt_dofadr dof_bodyid dof_jntid dof_parentid site_bodyid eq_obj1id eq_obj2id eq_objtype eq_solref eq_solimp eq_data body_isdofancestor eq_connect_adr qvel_in eq_active_in xpos_in xmat_in site_xpos_in subtree_com_in cdof_in cvel_in cdof_dot_in subtree_linvel_in njmax_in njmax_nnz_in ne_out nefc_out efc_type_out efc_id_out efc_jtdaj_adr_out efc_jtdaj_nrow_out efc_jtdaj_nblock_out efc_J_rownnz_out efc_J_rowadr_out efc_J_colind_out efc_J_out efc_pos_out efc_margin_out efc_D_out efc_vel_out efc_aref_out efc_frictionloss_out efc_nnz_out alloc0 st_is_sparse_and_newton alloc1 eq_data_shape0 st_is_sparse alloc2 body_invweight0_shape0 eq_solref_shape0 eq_solimp_shape0 opt_timestep_shape0 fuel tid0 tid1)
  | equality_weld (nv : Int) (nsite : Int) (opt_timestep : (Int → K)) (opt_disableflags : Int) (body_parentid : (Int → Int)) (body_rootid : (Int → Int)) (body_weldid : (Int → Int)) (body_dofnum : (Int → Int)) (body_dofadr : (Int → Int)) (body_invweight0 : (Int → Int → V2 K)) (jnt_type : (Int → Int)) (jnt_dofadr : (Int → Int)) (dof_bodyid : (Int → Int)) (dof_jntid : (Int → Int)) (dof_parentid : (Int → Int)) (site_bodyid : (Int → Int)) (site_quat : (Int → Int → Q K)) (eq_obj1id : (Int → Int)) (eq_obj2id : (Int → Int)) (eq_objtype : (Int → Int)) (eq_solref : (Int → Int → V2 K)) (eq_solimp : (Int → Int → V5 K)) (eq_data : (Int → Int → V11 K)) (body_isdofancestor : (Int → Int → Int)) (eq_wld_adr : (Int → Int)) (qvel_in : (Int → Int → K)) (eq_active_in : (Int → Int → Bool)) (xpos_in : (Int → Int → V3 K)) (xquat_in : (Int → Int → Q K)) (xmat_in : (Int → Int → M33 K)) (site_xpos_in : (Int → Int → V3 K)) (subtree_com_in : (Int → Int → V3 K)) (cdof_in : (Int → Int → V6 K)) (cvel_in : (Int → Int → V6 K)) (cdof_dot_in : (Int → Int → V6 K)) (subtree_linvel_in : (Int → Int → V3 K)) (njmax_in : Int) (njmax_nnz_in : Int) (ne_out : (Int → Int)) (nefc_out : (Int → Int)) (efc_type_out : (Int → Int → Int)) (efc_id_out : (Int → Int → Int)) (efc_jtdaj_adr_out : (Int → Int → Int)) (efc_jtdaj_nrow_out : (Int → Int → Int)) (efc_jtdaj_nblock_out : (Int → Int)) (efc_J_rownnz_out : (Int → Int → Int)) (efc_J_rowadr_out : (Int → Int → Int)) (efc_J_colind_out : (Int → Int → Int → Int)) (efc_J_out : (Int → Int → Int → K)) (efc_pos_out : (Int → Int → K)) (efc_margin_out : (Int → Int → K)) (efc_D_out : (Int → Int → K)) (efc_vel_out : (Int → Int → K)) (efc_aref_out : (Int → Int → K)) (efc_frictionloss_out : (Int → Int → K)) (efc_nnz_out : (Int → Int)) (alloc0 : Int) (st_is_sparse_and_newton : Bool) (alloc1 : Int) (eq_data_shape0 : Int) (site_quat_shape0 : Int) (st_is_sparse : Bool) (alloc2 : Int) (body_invweight0_shape0 : Int) (eq_solref_shape0 : Int) (eq_solimp_shape0 : Int) (opt_timestep_shape0 : Int) (fuel : Nat) (tid0 : Int) (tid1 : Int) :
      IsClassThread "ne_out" tid0 6 0 (Gen.Constraint._equality_weld__kernel nv nsite opt_timestep opt_disableflags body_parentid body_rootid body_weldid body_dofnum body_dofadr body_invweight0 jnt_type jnt_dofadr dof_bodyid dof_jntid dof_parentid site_bodyid site_quat eq_obj1id eq_obj2id eq_objtype eq_solref eq_solimp eq_data body_isdofancestor eq_wld_adr qvel_in eq_active_in xpos_in xquat_in xmat_in site_xpos_in subtree_com_in cdof_in cvel_in cdof_dot_in subtree_linvel_in njmax_in njmax_nnz_in ne_out nefc_out efc_type_out efc_id_out efc_jtdaj_adr_out efc_jtdaj_nrow_out efc_jtdaj_nblock_out efc_J_rownnz_out efc_J_rowadr_out efc_J_colind_out efc_J_out efc_pos_out efc_margin_out efc_D_out efc_vel_out efc_aref_out efc_frictionloss_out efc_nnz_out alloc0 st_is_sparse_and_newton alloc1 eq_data_shape0 site_quat_shape0 st_is_sparse alloc2 body_invweight0_shape0 eq_solref_shape0 eq_solimp_shape0 opt_timestep_shape0 fuel tid0 tid1)
  | equality_joint (nv : Int) (opt_timestep : (Int → K)) (opt_disableflags : Int) (qpos0 : (Int → Int → K)) (jnt_qposadr : (Int → Int)) (jnt_dofadr : (Int → Int)) (dof_invweight0 : (Int → Int → K)) (eq_obj1id : (Int → Int)) (eq_obj2id : (Int → Int)) (eq_solref : (Int → Int → V2 K)) (eq_solimp : (Int → Int → V5 K)) (eq_data : (Int → Int → V11 K)) (eq_jnt_adr : (Int → Int)) (qpos_in : (Int → Int → K)) (qvel_in : (Int → Int → K)) (eq_active_in : (Int → Int → Bool)) (njmax_in : Int) (njmax_nnz_in : Int) (ne_out : (Int → Int)) (nefc_out : (Int → Int)) (efc_type_out : (Int → Int → Int)) (efc_id_out : (Int → Int → Int)) (efc_jtdaj_adr_out : (Int → Int → Int)) (efc_jtdaj_nrow_out : (Int → Int → Int)) (efc_jtdaj_nblock_out : (Int → Int)) (efc_J_rownnz_out : (Int → Int → Int)) (efc_J_rowadr_out : (Int → Int → Int)) (efc_J_colind_out : (Int → Int → Int → Int)) (efc_J_out : (Int → Int → Int → K)) (efc_pos_out : (Int → Int → K)) (efc_margin_out : (Int → Int → K)) (efc_D_out : (Int → Int → K)) (efc_vel_out : (Int → Int → K)) (efc_aref_out : (Int → Int → K)) (efc_frictionloss_out : (Int → Int → K)) (efc_nnz_out : (Int → Int)) (alloc0 : Int) (st_is_sparse_and_newton : Bool) (alloc1 : Int) (eq_data_shape0 : Int) (qpos0_shape0 : Int) (dof_invweight0_shape0 : Int) (st_is_sparse : Bool) (alloc2 : Int) (opt_timestep_shape0 : Int) (eq_solref_shape0 : Int) (eq_solimp_shape0 : Int) (cl_rowadr : Int) (tid0 : Int) (tid1 : Int) :
      IsClassThread "ne_out" tid0 1 0 (Gen.Constraint._equality_joint__kernel nv opt_timestep opt_disableflags qpos0 jnt_qposadr jnt_dofadr dof_invweight0 eq_obj1id eq_obj2id eq_solref eq_solimp eq_data eq_jnt_adr qpos_in qvel_in eq_active_in njmax_in njmax_nnz_in ne_out nefc_out efc_type_out efc_id_out efc_jtdaj_adr_out efc_jtdaj_nrow_out efc_jtdaj_nblock_out efc_J_rownnz_out efc_J_rowadr_out efc_J_colind_out efc_J_out efc_pos_out efc_margin_out efc_D_out efc_vel_out efc_aref_out efc_frictionloss_out efc_nnz_out alloc0 st_is_sparse_and_newton alloc1 eq_data_shape0 qpos0_shape0 dof_invweight0_shape0 st_is_sparse alloc2 opt_timestep_shape0 eq_solref_shape0 eq_solimp_shape0 cl_rowadr tid0 tid1)
  | equality_tendon (nv : Int) (opt_timestep : (Int → K)) (opt_disableflags : Int) (eq_obj1id : (Int → Int)) (eq_obj2id : (Int → Int)) (eq_solref : (Int → Int → V2 K)) (eq_solimp : (Int → Int → V5 K)) (eq_data : (Int → Int → V11 K)) (ten_J_rownnz : (Int → Int)) (ten_J_rowadr : (Int → Int)) (ten_J_colind : (Int → Int)) (tendon_length0 : (Int → Int → K)) (tendon_invweight0 : (Int → Int → K)) (eq_ten_adr : (Int → Int)) (qvel_in : (Int → Int → K)) (eq_active_in : (Int → Int → Bool)) (ten_J_in : (Int → Int → K)) (ten_length_in : (Int → Int → K)) (njmax_in : Int) (njmax_nnz_in : Int) (ne_out : (Int → Int)) (nefc_out : (Int → Int)) (efc_type_out : (Int → Int → Int)) (efc_id_out : (Int → Int → Int)) (efc_jtdaj_adr_out : (Int → Int → Int)) (efc_jtdaj_nrow_out : (Int → Int → Int)) (efc_jtdaj_nblock_out : (Int → Int)) (efc_J_rownnz_out : (Int → Int → Int)) (efc_J_rowadr_out : (Int → Int → Int)) (efc_J_colind_out : (Int → Int → Int → Int)) (efc_J_out : (Int → Int → Int → K)) (efc_pos_out : (Int → Int → K)) (efc_margin_out : (Int → Int → K)) (efc_D_out : (Int → Int → K)) (efc_vel_out : (Int → Int → K)) (efc_aref_out : (Int → Int → K)) (efc_frictionloss_out : (Int → Int → K)) (efc_nnz_out : (Int → Int)) (alloc0 : Int) (st_is_sparse_and_newton : Bool) (alloc1 : Int) (eq_data_shape0 : Int) (eq_solref_shape0 : Int) (eq_solimp_shape0 : Int) (tendon_length0_shape0 : Int) (tendon_invweight0_shape0 : Int) (st_is_sparse : Bool) (alloc2 : Int) (opt_timestep_shape0 : Int) (cl_rowadr : Int) (fuel : Nat) (tid0 : Int) (tid1 : Int) :
      IsClassThread "ne_out" tid0 1 0 (Gen.Constraint._equality_tendon__kernel nv opt_timestep opt_disableflags eq_obj1id eq_obj2id eq_solref eq_solimp eq_data ten_J_rownnz ten_J_rowadr ten_J_colind tendon_length0 tendon_invweight0 eq_ten_adr qvel_in eq_active_in ten_J_in ten_length_in njmax_in njmax_nnz_in ne_out nefc_out efc_type_out efc_id_out efc_jtdaj_adr_out efc_jtdaj_nrow_out efc_jtdaj_nblock_out efc_J_rownnz_out efc_J_rowadr_out efc_J_colind_out efc_J_out efc_pos_out efc_margin_out efc_D_out efc_vel_out efc_aref_out efc_frictionloss_out efc_nnz_out alloc0 st_is_sparse_and_newton alloc1 eq_data_shape0 eq_solref_shape0 eq_solimp_shape0 tendon_length0_shape0 tendon_invweight0_shape0 st_is_sparse alloc2 opt_timestep_shape0 cl_rowadr fuel tid0 tid1)
  | equality_flex (nv : Int) (opt_timestep : (Int → K)) (opt_disableflags : Int) (flex_interp : (Int → Int)) (flex_edgeadr : (Int → Int)) (flex_edgenum : (Int → Int)) (flexedge_length0 : (Int → K)) (flexedge_invweight0 : (Int → K)) (flexedge_J_rownnz : (Int → Int)) (flexedge_J_rowadr : (Int → Int)) (flexedge_J_colind : (Int → Int)) (eq_obj1id : (Int → Int)) (eq_solref : (Int → Int → V2 K)) (eq_solimp : (Int → Int → V5 K)) (eq_flex_adr : (Int → Int)) (qvel_in : (Int → Int → K)) (eq_active_in : (Int → Int → Bool)) (flexedge_J_in : (Int → Int → K)) (flexedge_length_in : (Int → Int → K)) (njmax_in : Int) (njmax_nnz_in : Int) (ne_out : (Int → Int)) (nefc_out : (Int → Int)) (efc_type_out : (Int → Int → Int)) (efc_id_out : (Int → Int → Int)) (efc_jtdaj_adr_out : (Int → Int → Int)) (efc_jtdaj_nrow_out : (Int → Int → Int)) (efc_jtdaj_nblock_out : (Int → Int)) (efc_J_rownnz_out : (Int → Int → Int)) (efc_J_rowadr_out : (Int → Int → Int)) (efc_J_colind_out : (Int → Int → Int → Int)) (efc_J_out : (Int → Int → Int → K)) (efc_pos_out : (Int → Int → K)) (efc_margin_out : (Int → Int → K)) (efc_D_out : (Int → Int → K)) (efc_vel_out : (Int → Int → K)) (efc_aref_out : (Int → Int → K)) (efc_frictionloss_out : (Int → Int → K)) (efc_nnz_out : (Int → Int)) (alloc0 : Int) (st_is_sparse_and_newton : Bool) (alloc1 : Int) (eq_solref_shape0 : Int) (eq_solimp_shape0 : Int) (st_is_sparse : Bool) (alloc2 : Int) (opt_timestep_shape0 : Int) (tid0 : Int) (tid1 : Int) (tid2 : Int) :
      IsClassThread "ne_out" tid0 1 0 (Gen.Constraint._equality_flex__kernel nv opt_timestep opt_disableflags flex_interp flex_edgeadr flex_edgenum flexedge_length0 flexedge_invweight0 flexedge_J_rownnz flexedge_J_rowadr flexedge_J_colind eq_obj1id eq_solref eq_solimp eq_flex_adr qvel_in eq_active_in flexedge_J_in flexedge_length_in njmax_in njmax_nnz_in ne_out nefc_out efc_type_out efc_id_out efc_jtdaj_adr_out efc_jtdaj_nrow_out efc_jtdaj_nblock_out efc_J_rownnz_out efc_J_rowadr_out efc_J_colind_out efc_J_out efc_pos_out efc_margin_out efc_D_out efc_vel_out efc_aref_out efc_frictionloss_out efc_nnz_out alloc0 st_is_sparse_and_newton alloc1 eq_solref_shape0 eq_solimp_shape0 st_is_sparse alloc2 opt_timestep_shape0 tid0 tid1 tid2)
  | friction_dof (nv : Int) (opt_timestep : (Int → K)) (opt_disableflags : Int) (dof_solref : (Int → Int → V2 K)) (dof_solimp : (Int → Int → V5 K)) (dof_frictionloss : (Int → Int → K)) (dof_invweight0 : (Int → Int → K)) (qvel_in : (Int → Int → K)) (njmax_in : Int) (njmax_nnz_in : Int) (nf_out : (Int → Int)) (nefc_out : (Int → Int)) (efc_type_out : (Int → Int → Int)) (efc_id_out : (Int → Int → Int)) (efc_jtdaj_adr_out : (Int → Int → Int)) (efc_jtdaj_nrow_out : (Int → Int → Int)) (efc_jtdaj_nblock_out : (Int → Int)) (efc_J_rownnz_out : (Int → Int → Int)) (efc_J_rowadr_out : (Int → Int → Int)) (efc_J_colind_out : (Int → Int → Int → Int)) (efc_J_out : (Int → Int → Int → K)) (efc_pos_out : (Int → Int → K)) (efc_margin_out : (Int → Int → K)) (efc_D_out : (Int → Int → K)) (efc_vel_out : (Int → Int → K)) (efc_aref_out : (Int → Int → K)) (efc_frictionloss_out : (Int → Int → K)) (efc_nnz_out : (Int → Int)) (dof_frictionloss_shape0 : Int) (alloc0 : Int) (st_is_sparse_and_newton : Bool) (alloc1 : Int) (st_is_sparse : Bool) (alloc2 : Int) (dof_invweight0_shape0 : Int) (dof_solref_shape0 : Int) (dof_solimp_shape0 : Int) (opt_timestep_shape0 : Int) (tid0 : Int) (tid1 : Int) :
      IsClassThread "nf_out" tid0 1 1 (Gen.Constraint._friction_dof__kernel nv opt_timestep opt_disableflags dof_solref dof_solimp dof_frictionloss dof_invweight0 qvel_in njmax_in njmax_nnz_in nf_out nefc_out efc_type_out efc_id_out efc_jtdaj_adr_out efc_jtdaj_nrow_out efc_jtdaj_nblock_out efc_J_rownnz_out efc_J_rowadr_out efc_J_colind_out efc_J_out efc_pos_out efc_margin_out efc_D_out efc_vel_out efc_aref_out efc_frictionloss_out efc_nnz_out dof_frictionloss_shape0 alloc0 st_is_sparse_and_newton alloc1 st_is_sparse alloc2 dof_invweight0_shape0 dof_solref_shape0 dof_solimp_shape0 opt_timestep_shape0 tid0 tid1)
  | friction_tendon (nv : Int) (opt_timestep : (Int → K)) (opt_disableflags : Int) (ten_J_rownnz : (Int → Int)) (ten_J_rowadr : (Int → Int)) (ten_J_colind : (Int → Int)) (tendon_solref_fri : (Int → Int → V2 K)) (tendon_solimp_fri : (Int → Int → V5 K)) (tendon_frictionloss : (Int → Int → K)) (tendon_invweight0 : (Int → Int → K)) (qvel_in : (Int → Int → K)) (ten_J_in : (Int → Int → K)) (njmax_in : Int) (njmax_nnz_in : Int) (nf_out : (Int → Int)) (nefc_out : (Int → Int)) (efc_type_out : (Int → Int → Int)) (efc_id_out : (Int → Int → Int)) (efc_jtdaj_adr_out : (Int → Int → Int)) (efc_jtdaj_nrow_out : (Int → Int → Int)) (efc_jtdaj_nblock_out : (Int → Int)) (efc_J_rownnz_out : (Int → Int → Int)) (efc_J_rowadr_out : (Int → Int → Int)) (efc_J_colind_out : (Int → Int → Int → Int)) (efc_J_out : (Int → Int → Int → K)) (efc_pos_out : (Int → Int → K)) (efc_margin_out : (Int → Int → K)) (efc_D_out : (Int → Int → K)) (efc_vel_out : (Int → Int → K)) (efc_aref_out : (Int → Int → K)) (efc_frictionloss_out : (Int → Int → K)) (efc_nnz_out : (Int → Int)) (tendon_frictionloss_shape0 : Int) (alloc0 : Int) (st_is_sparse_and_newton : Bool) (alloc1 : Int) (st_is_sparse : Bool) (alloc2 : Int) (tendon_invweight0_shape0 : Int) (tendon_solref_fri_shape0 : Int) (tendon_solimp_fri_shape0 : Int) (opt_timestep_shape0 : Int) (tid0 : Int) (tid1 : Int) :
      IsClassThread "nf_out" tid0 1 2 (Gen.Constraint._friction_tendon__kernel nv opt_timestep opt_disableflags ten_J_rownnz ten_J_rowadr ten_J_colind tendon_solref_fri tendon_solimp_fri tendon_frictionloss tendon_invweight0 qvel_in ten_J_in njmax_in njmax_nnz_in nf_out nefc_out efc_type_out efc_id_out efc_jtdaj_adr_out efc_jtdaj_nrow_out efc_jtdaj_nblock_out efc_J_rownnz_out efc_J_rowadr_out efc_J_colind_out efc_J_out efc_pos_out efc_margin_out efc_D_out efc_vel_out efc_aref_out efc_frictionloss_out efc_nnz_out tendon_frictionloss_shape0 alloc0 st_is_sparse_and_newton alloc1 st_is_sparse alloc2 tendon_invweight0_shape0 tendon_solref_fri_shape0 tendon_solimp_fri_shape0 opt_timestep_shape0 tid0 tid1)
  | limit_slide_hinge (nv : Int) (opt_timestep : (Int → K)) (opt_disableflags : Int) (jnt_qposadr : (Int → Int)) (jnt_dofadr : (Int → Int)) (jnt_solref : (Int → Int → V2 K)) (jnt_solimp : (Int → Int → V5 K)) (jnt_range : (Int → Int → V2 K)) (jnt_margin : (Int → Int → K)) (dof_invweight0 : (Int → Int → K)) (jnt_limited_slide_hinge_adr : (Int → Int)) (qpos_in : (Int → Int → K)) (qvel_in : (Int → Int → K)) (njmax_in : Int) (njmax_nnz_in : Int) (nl_out : (Int → Int)) (nefc_out : (Int → Int)) (efc_type_out : (Int → Int → Int)) (efc_id_out : (Int → Int → Int)) (efc_jtdaj_adr_out : (Int → Int → Int)) (efc_jtdaj_nrow_out : (Int → Int → Int)) (efc_jtdaj_nblock_out : (Int → Int)) (efc_J_rownnz_out : (Int → Int → Int)) (efc_J_rowadr_out : (Int → Int → Int)) (efc_J_colind_out : (Int → Int → Int → Int)) (efc_J_out : (Int → Int → Int → K)) (efc_pos_out : (Int → Int → K)) (efc_margin_out : (Int → Int → K)) (efc_D_out : (Int → Int → K)) (efc_vel_out : (Int → Int → K)) (efc_aref_out : (Int → Int → K)) (efc_frictionloss_out : (Int → Int → K)) (efc_nnz_out : (Int → Int)) (jnt_range_shape0 : Int) (jnt_margin_shape0 : Int) (alloc0 : Int) (st_is_sparse_and_newton : Bool) (alloc1 : Int) (st_is_sparse : Bool) (alloc2 : Int) (dof_invweight0_shape0 : Int) (jnt_solref_shape0 : Int) (jnt_solimp_shape0 : Int) (opt_timestep_shape0 : Int) (tid0 : Int) (tid1 : Int) :
      IsClassThread "nl_out" tid0 1 3 (Gen.Constraint._limit_slide_hinge__kernel nv opt_timestep opt_disableflags jnt_qposadr jnt_dofadr jnt_solref jnt_solimp jnt_range jnt_margin dof_invweight0 jnt_limited_slide_hinge_adr qpos_in qvel_in njmax_in njmax_nnz_in nl_out nefc_out efc_type_out efc_id_out efc_jtdaj_adr_out efc_jtdaj_nrow_out efc_jtdaj_nblock_out efc_J_rownnz_out efc_J_rowadr_out efc_J_colind_out efc_J_out efc_pos_out efc_margin_out efc_D_out efc_vel_out efc_aref_out efc_frictionloss_out efc_nnz_out jnt_range_shape0 jnt_margin_shape0 alloc0 st_is_sparse_and_newton alloc1 st_is_sparse alloc2 dof_invweight0_shape0 jnt_solref_shape0 jnt_solimp_shape0 opt_timestep_shape0 tid0 tid1)
  | limit_ball (nv : Int) (opt_timestep : (Int → K)) (opt_disableflags : Int) (jnt_qposadr : (Int → Int)) (jnt_dofadr : (Int → Int)) (jnt_solref : (Int → Int → V2 K)) (jnt_solimp : (Int → Int → V5 K)) (jnt_range : (Int → Int → V2 K)) (jnt_margin : (Int → Int → K)) (dof_invweight0 : (Int → Int → K)) (jnt_limited_ball_adr : (Int → Int)) (qpos_in : (Int → Int → K)) (qvel_in : (Int → Int → K)) (njmax_in : Int) (njmax_nnz_in : Int) (nl_out : (Int → Int)) (nefc_out : (Int → Int)) (efc_type_out : (Int → Int → Int)) (efc_id_out : (Int → Int → Int)) (efc_jtdaj_adr_out : (Int → Int → Int)) (efc_jtdaj_nrow_out : (Int → Int → Int)) (efc_jtdaj_nblock_out : (Int → Int)) (efc_J_rownnz_out : (Int → Int → Int)) (efc_J_rowadr_out : (Int → Int → Int)) (efc_J_colind_out : (Int → Int → Int → Int)) (efc_J_out : (Int → Int → Int → K)) (efc_pos_out : (Int → Int → K)) (efc_margin_out : (Int → Int → K)) (efc_D_out : (Int → Int → K)) (efc_vel_out : (Int → Int → K)) (efc_aref_out : (Int → Int → K)) (efc_frictionloss_out : (Int → Int → K)) (efc_nnz_out : (Int → Int)) (jnt_range_shape0 : Int) (jnt_margin_shape0 : Int) (alloc0 : Int) (st_is_sparse_and_newton : Bool) (alloc1 : Int) (st_is_sparse : Bool) (alloc2 : Int) (dof_invweight0_shape0 : Int) (jnt_solref_shape0 : Int) (jnt_solimp_shape0 : Int) (opt_timestep_shape0 : Int) (tid0 : Int) (tid1 : Int) :
      IsClassThread "nl_out" tid0 1 3 (Gen.Constraint._limit_ball__kernel nv opt_timestep opt_disableflags jnt_qposadr jnt_dofadr jnt_solref jnt_solimp jnt_range jnt_margin dof_invweight0 jnt_limited_ball_adr qpos_in qvel_in njmax_in njmax_nnz_in nl_out nefc_out efc_type_out efc_id_out efc_jtdaj_adr_out efc_jtdaj_nrow_out efc_jtdaj_nblock_out efc_J_rownnz_out efc_J_rowadr_out efc_J_colind_out efc_J_out efc_pos_out efc_margin_out efc_D_out efc_vel_out efc_aref_out efc_frictionloss_out efc_nnz_out jnt_range_shape0 jnt_margin_shape0 alloc0 st_is_sparse_and_newton alloc1 st_is_sparse alloc2 dof_invweight0_shape0 jnt_solref_shape0 jnt_solimp_shape0 opt_timestep_shape0 tid0 tid1)
  | limit_tendon (nv : Int) (opt_timestep : (Int → K)) (opt_disableflags : Int) (ten_J_rownnz : (Int → Int)) (ten_J_rowadr : (Int → Int)) (ten_J_colind : (Int → Int)) (tendon_solref_lim : (Int → Int → V2 K)) (tendon_solimp_lim : (Int → Int → V5 K)) (tendon_range : (Int → Int → V2 K)) (tendon_margin : (Int → Int → K)) (tendon_invweight0 : (Int → Int → K)) (tendon_limited_adr : (Int → Int)) (qvel_in : (Int → Int → K)) (ten_J_in : (Int → Int → K)) (ten_length_in : (Int → Int → K)) (njmax_in : Int) (njmax_nnz_in : Int) (nl_out : (Int → Int)) (nefc_out : (Int → Int)) (efc_type_out : (Int → Int → Int)) (efc_id_out : (Int → Int → Int)) (efc_jtdaj_adr_out : (Int → Int → Int)) (efc_jtdaj_nrow_out : (Int → Int → Int)) (efc_jtdaj_nblock_out : (Int → Int)) (efc_J_rownnz_out : (Int → Int → Int)) (efc_J_rowadr_out : (Int → Int → Int)) (efc_J_colind_out : (Int → Int → Int → Int)) (efc_J_out : (Int → Int → Int → K)) (efc_pos_out : (Int → Int → K)) (efc_margin_out : (Int → Int → K)) (efc_D_out : (Int → Int → K)) (efc_vel_out : (Int → Int → K)) (efc_aref_out : (Int → Int → K)) (efc_frictionloss_out : (Int → Int → K)) (efc_nnz_out : (Int → Int)) (tendon_range_shape0 : Int) (tendon_margin_shape0 : Int) (alloc0 : Int) (st_is_sparse_and_newton : Bool) (alloc1 : Int) (st_is_sparse : Bool) (alloc2 : Int) (tendon_invweight0_shape0 : Int) (tendon_solref_lim_shape0 : Int) (tendon_solimp_lim_shape0 : Int) (opt_timestep_shape0 : Int) (tid0 : Int) (tid1 : Int) :
      IsClassThread "nl_out" tid0 1 4 (Gen.Constraint._limit_tendon__kernel nv opt_timestep opt_disableflags ten_J_rownnz ten_J_rowadr ten_J_colind tendon_solref_lim tendon_solimp_lim tendon_range tendon_margin tendon_invweight0 tendon_limited_adr qvel_in ten_J_in ten_length_in njmax_in njmax_nnz_in nl_out nefc_out efc_type_out efc_id_out efc_jtdaj_adr_out efc_jtdaj_nrow_out efc_jtdaj_nblock_out efc_J_rownnz_out efc_J_rowadr_out efc_J_colind_out efc_J_out efc_pos_out efc_margin_out efc_D_out efc_vel_out efc_aref_out efc_frictionloss_out efc_nnz_out tendon_range_shape0 tendon_margin_shape0 alloc0 st_is_sparse_and_newton alloc1 st_is_sparse alloc2 tendon_invweight0_shape0 tendon_solref_lim_shape0 tendon_solimp_lim_shape0 opt_timestep_shape0 tid0 tid1)


theorem IsClassThread.counts {K : Type} [Scalar K] {ctr : String} {wid k ty : Int} {ws : List (Write K)}
    (h : IsClassThread ctr wid k ty ws) : CountsAs ws ctr wid k := by
  cases h <;> first | apply Lemmas.C05.equality_connect_counts | apply Lemmas.C05.equality_weld_counts | apply Lemmas.C05.equality_joint_counts | apply Lemmas.C05.equality_tendon_counts | apply Lemmas.C05.equality_flex_counts | apply Lemmas.C05.friction_dof_counts | apply Lemmas.C05.friction_tendon_counts | apply Lemmas.C05.limit_slide_hinge_counts | apply Lemmas.C05.limit_ball_counts | apply Lemmas.C05.limit_tendon_counts

theorem IsClassThread.type {K : Type} [Scalar K] {ctr : String} {wid k ty : Int} {ws : List (Write K)}
    (h : IsClassThread ctr wid k ty ws) : ∀ w ∈ ws, w.arr = "efc_type_out" → w.val = WVal.i ty := by
  cases h <;> first | apply Lemmas.C05.equality_connect_type | apply Lemmas.C05.equality_weld_type | apply Lemmas.C05.equality_joint_type | apply Lemmas.C05.equality_tendon_type | apply Lemmas.C05.equality_flex_type | apply Lemmas.C05.friction_dof_type | apply Lemmas.C05.friction_tendon_type | apply Lemmas.C05.limit_slide_hinge_type | apply Lemmas.C05.limit_ball_type | apply Lemmas.C05.limit_tendon_type

theorem IsClassThread.class_of_type {K : Type} [Scalar K] {ctr : String} {wid k ty : Int} {ws : List (Write K)}
    (h : IsClassThread ctr wid k ty ws) :
    (ctr = "ne_out" ∧ ty = 0) ∨ (ctr = "nf_out" ∧ (ty = 1 ∨ ty = 2)) ∨ (ctr = "nl_out" ∧ (ty = 3 ∨ ty = 4)) := by
  cases h <;> simp


/-- `IsContactInit wid n ws`: `ws` is the write list of a thread of `_efc_contact_init` whose contact lives in
    world `wid` and has `n` rows (`ndimOf`: elliptic `condim`, pyramidal `1` or `2(condim-1)`) -/
inductive IsContactInit {K : Type} [Scalar K] : Int → Int → List (Write K) → Prop
  | mk (body_weldid : (Int → Int)) (body_dofnum : (Int → Int)) (body_dofadr : (Int → Int)) (dof_parentid : (Int → Int)) (geom_bodyid : (Int → Int)) (njmax_in : Int) (njmax_nnz_in : Int) (nacon_in : (Int → Int)) (dist_in : (Int → K)) (condim_in : (Int → Int)) (includemargin_in : (Int → K)) (adhesion_in : (Int → K)) (worldid_in : (Int → Int)) (geom_in : (Int → I2)) (type_in : (Int → Int)) (nefc_out : (Int → Int)) (contact_efc_address_out : (Int → Int → Int)) (efc_id_out : (Int → Int → Int)) (efc_jtdaj_adr_out : (Int → Int → Int)) (efc_jtdaj_nrow_out : (Int → Int → Int)) (efc_jtdaj_nblock_out : (Int → Int)) (efc_J_rownnz_out : (Int → Int → Int)) (efc_J_rowadr_out : (Int → Int → Int)) (efc_nnz_out : (Int → Int)) (st_flg_adhesion : Bool) (st_IS_ELLIPTIC : Bool) (alloc0 : Int) (st_is_sparse_and_newton : Bool) (alloc1 : Int) (st_IS_SPARSE : Bool) (alloc2 : Int) (fuel : Nat) (tid0 : Int) :
      IsContactInit (worldid_in tid0) (ndimOf st_IS_ELLIPTIC (condim_in tid0)) (Gen.Constraint._efc_contact_init__kernel body_weldid body_dofnum body_dofadr dof_parentid geom_bodyid njmax_in njmax_nnz_in nacon_in dist_in condim_in includemargin_in adhesion_in worldid_in geom_in type_in nefc_out contact_efc_address_out efc_id_out efc_jtdaj_adr_out efc_jtdaj_nrow_out efc_jtdaj_nblock_out efc_J_rownnz_out efc_J_rowadr_out efc_nnz_out st_flg_adhesion st_IS_ELLIPTIC alloc0 st_is_sparse_and_newton alloc1 st_IS_SPARSE alloc2 fuel tid0)

theorem IsContactInit.counts {K : Type} [Scalar K] {wid n : Int} {ws : List (Write K)} (h : IsContactInit wid n ws) :
    (reached ws "nefc_out" [wid] → contrib "nefc_out" [wid] ws = n)
    ∧ (¬ reached ws "nefc_out" [wid] → contrib "nefc_out" [wid] ws = 0)
    ∧ (∀ idx, idx ≠ [wid] → contrib "nefc_out" idx ws = 0)
    ∧ (∀ c, c ∈ ["ne_out", "nf_out", "nl_out"] → ∀ idx, contrib c idx ws = 0)
    ∧ AllW (fun w => w.arr ∈ counters → (w.kind = WKind.aadd ∨ w.kind = WKind.alloc)) ws := by
  cases h
  exact Lemmas.C05.contact_init_counts ..

/-- a thread of one of the ten class builders: write list, class counter, world, block size -/
structure Thread (K : Type) where
  ws : List (Write K)
  ctr : String
  wid : Int
  k : Int

/-- a thread of `_efc_contact_init`: write list, world, number of rows of its contact -/
structure CThread (K : Type) where
  ws : List (Write K)
  wid : Int
  n : Int

/-- `_zero_constraint_counts` resets the four counters of its world (so the sums below start from 0) -/
theorem zero_counts {K : Type} [Scalar K] (ne_out nf_out nl_out nefc_out nblock nnz : Int → Int) (tid0 : Int)
    (c : String) (hc : c ∈ counters) (v : Int) :
    Write.lookupI (Gen.Constraint._zero_constraint_counts (K := K) ne_out nf_out nl_out nefc_out nblock nnz tid0) c [tid0] v = 0 := by
  simp only [counters, List.mem_cons, List.mem_nil_iff, or_false] at hc
  rcases hc with rfl | rfl | rfl | rfl <;> simp [Gen.Constraint._zero_constraint_counts, Write.lookupI]

/-- (3) **row_counts**.  Let `ths` be ANY threads of the ten class builders (equality connect/weld/joint/tendon/flex,
    dof/tendon friction, ball/slide-hinge/tendon limits — any worlds, any inputs) and `cts` any threads of
    `_efc_contact_init`, and let `tr` be ANY interleaving of all their writes (any permutation of the concatenation:
    every thread order, every interleaving of the atomics).  Starting from the zeroed counters, for every world `w`:
      `ne[w]` = Σ of the block sizes (connect 3, weld 6, joint/tendon/flex 1) of the equality threads of `w` that
                performed their allocating atomic,  `nf[w]`, `nl[w]` likewise (1 per friction / limit thread),
      `nefc[w]` = the sum over ALL threads of `w` (contacts: `ndim` rows each).
    The class counter is bumped together with `nefc` and BEFORE the capacity guard, so it counts REQUESTED rows:
    `ne + nf + nl ≤ nefc` always, with equality of the prefix sums used by `type_blocks_ordered`. -/
theorem row_counts {K : Type} [Scalar K] (ths : List (Thread K)) (cts : List (CThread K))
    (hth : ∀ t ∈ ths, ∃ ty, IsClassThread t.ctr t.wid t.k ty t.ws)
    (hct : ∀ c ∈ cts, IsContactInit c.wid c.n c.ws)
    (tr : List (Write K)) (hp : tr.Perm ((ths.map (·.ws)).flatten ++ (cts.map (·.ws)).flatten)) (w : Int) :
    (∀ c ∈ ["ne_out", "nf_out", "nl_out"],
      Write.lookupI tr c [w] 0 = (ths.map (fun t => if t.wid = w ∧ t.ctr = c then requested t.ws t.wid t.k else 0)).sum)
    ∧ Write.lookupI tr "nefc_out" [w] 0
        = (ths.map (fun t => if t.wid = w then requested t.ws t.wid t.k else 0)).sum
          + (cts.map (fun c => if c.wid = w then requested c.ws c.wid c.n else 0)).sum := by
  have hkinds : ∀ c ∈ counters, AllW (fun x => x.arr = c → (x.kind = WKind.aadd ∨ x.kind = WKind.alloc)) tr := by
    intro c hc
    refine allW_perm hp ?_
    intro x hx
    rw [List.mem_append] at hx
    intro hxa
    rcases hx with hx | hx
    · obtain ⟨l, hl, hxl⟩ := List.mem_flatten.mp hx
      obtain ⟨t, ht, rfl⟩ := List.mem_map.mp hl
      obtain ⟨ty, hty⟩ := hth t ht
      exact hty.counts.2.2.2.2.2 x hxl (hxa ▸ hc)
    · obtain ⟨l, hl, hxl⟩ := List.mem_flatten.mp hx
      obtain ⟨t, ht, rfl⟩ := List.mem_map.mp hl
      exact (hct t ht).counts.2.2.2.2 x hxl (hxa ▸ hc)
  constructor
  · intro c hc
    have hc' : c ∈ counters := by
      simp only [counters, List.mem_cons, List.mem_nil_iff, or_false] at hc ⊢; tauto
    rw [lookupI_adds tr c [w] 0 (hkinds c hc'), contrib_perm hp, contrib_append, contrib_flatten, contrib_flatten,
      List.map_map, List.map_map, Int.zero_add]
    have h2 : (cts.map (contrib c [w] ∘ fun x => x.ws)).sum = 0 := by
      rw [sum_map_congr _ _ (fun _ => 0)]
      · simp
      · intro t ht
        exact (hct t ht).counts.2.2.2.1 c hc _
    rw [h2, Int.add_zero]
    apply sum_map_congr
    intro t ht
    obtain ⟨ty, hty⟩ := hth t ht
    exact hty.counts.contrib_class c hc w
  · rw [lookupI_adds tr "nefc_out" [w] 0 (hkinds _ (by simp [counters])), contrib_perm hp, contrib_append,
      contrib_flatten, contrib_flatten, List.map_map, List.map_map, Int.zero_add]
    congr 1
    · apply sum_map_congr
      intro t ht
      obtain ⟨ty, hty⟩ := hth t ht
      exact hty.counts.contrib_nefc w
    · apply sum_map_congr
      intro t ht
      obtain ⟨h1, h2, h3, _, _⟩ := (hct t ht).counts
      simp only [Function.comp, requested]
      split_ifs with hw hr
      · subst hw; exact h1 hr
      · subst hw; exact h2 hr
      · exact h3 [w] (by simpa using Ne.symm hw)


/-! ## 3. Row classes occupy consecutive index ranges -/

/-- (4) **type_blocks_ordered**.  `R` = the arena requests of one world per allocating launch of `make_constraint`
    (`Spec.MakeConstraint.launches`: connect, weld, joint, tendon, flex, flexstrain | dof friction, tendon friction |
    ball, slide-hinge, tendon limits | contact init — all on the same counter `nefc`, zeroed first), `os` ANY schedule
    (an arbitrary thread order inside every launch; launches are sequential), `guard`/`C` any capacity guard/capacity.
    With `ne, nf, nl, nc` = the requested rows per class (= the counters of `row_counts`):
    (a) running the launches back to back is one run of the arena on the concatenated order;
    (b) the counter ends at `ne + nf + nl + nc`;
    (c) every block handed out in a launch lies inside the range of the launch's class:
        equality `[0, ne)`, friction `[ne, ne+nf)`, limit `[ne+nf, ne+nf+nl)`, contact `[ne+nf+nl, nefc)`;
    (d) hence a row index `r` of a block is classified by comparisons alone — `r < ne` ⇔ equality, … — which is what
        `_update_constraint_efc` (`efcid < ne`, `efcid < ne + nf`) relies on;
    (e) the blocks tile `[0, nefc)`: every index below `nefc` belongs to some block;
    (f) when nothing is dropped (`nefc ≤ C`, exact fit included) every block is granted (ideal guard; the guards of
        all builders are equivalent to it, `Props/C16`), so every row `r < nefc` was written by a thread of the class
        its index says.   (When rows ARE dropped the ranges (c)-(e) still hold for the REQUESTED blocks, but rows
        `≥ njmax` do not exist; that case is reported by the NEFC overflow bit, `Props/C16`.) -/
theorem type_blocks_ordered (R : Requests) (os : List (List Req)) (hs : IsSchedule (launches R) os)
    (guard : Guard) (C : Int) :
    (runLaunches guard C os 0).flatten = run guard C os.flatten
    ∧ final os.flatten = ne R + nf R + nl R + nc R
    ∧ (∀ p ∈ (launches R).zip (runLaunches guard C os 0), ∀ g ∈ p.2,
        lo R p.1.cls ≤ g.off ∧ g.off + g.k ≤ hi R p.1.cls)
    ∧ (∀ p ∈ (launches R).zip (runLaunches guard C os 0), ∀ g ∈ p.2, ∀ r, g.off ≤ r → r < g.off + g.k →
        (r < ne R ↔ p.1.cls = RowClass.equality)
        ∧ (ne R ≤ r ∧ r < ne R + nf R ↔ p.1.cls = RowClass.friction)
        ∧ (ne R + nf R ≤ r ∧ r < ne R + nf R + nl R ↔ p.1.cls = RowClass.limit)
        ∧ (ne R + nf R + nl R ≤ r ↔ p.1.cls = RowClass.contact))
    ∧ (∀ r, 0 ≤ r → r < final os.flatten → ∃ g ∈ run guard C os.flatten, g.off ≤ r ∧ r < g.off + g.k)
    ∧ (final os.flatten ≤ C → ∀ g ∈ run idealGuard C os.flatten, g.granted = true) := by
  have hc := launch_blocks_in_class_range R os hs guard C
  have hfin : final os.flatten = ne R + nf R + nl R + nc R := by
    obtain ⟨o1, o2, o3, o4, o5, o6, o7, o8, o9, o10, o11, o12, rfl, p1, p2, p3, p4, p5, p6, p7, p8, p9, p10, p11, p12⟩ :=
      isSchedule_launches R os hs
    have e1 := final_perm p1; have e2 := final_perm p2; have e3 := final_perm p3; have e4 := final_perm p4
    have e5 := final_perm p5; have e6 := final_perm p6; have e7 := final_perm p7; have e8 := final_perm p8
    have e9 := final_perm p9; have e10 := final_perm p10; have e11 := final_perm p11; have e12 := final_perm p12
    simp only [List.flatten_cons, List.flatten_nil, List.append_nil, final_append, ne, nf, nl, nc]
    omega
  have hnn : 0 ≤ ne R ∧ 0 ≤ nf R ∧ 0 ≤ nl R ∧ 0 ≤ nc R := by
    simp only [ne, nf, nl, nc]
    have := final_nonneg R.connect; have := final_nonneg R.weld; have := final_nonneg R.joint
    have := final_nonneg R.tendon; have := final_nonneg R.flex; have := final_nonneg R.flexstrain
    have := final_nonneg R.frictionDof; have := final_nonneg R.frictionTendon
    have := final_nonneg R.limitBall; have := final_nonneg R.limitSlideHinge; have := final_nonneg R.limitTendon
    have := final_nonneg R.contact
    omega
  refine ⟨runLaunches_flatten guard C os 0, hfin, hc, ?_, ?_, ?_⟩
  · intro p hp g hg r h1 h2
    have hb := hc p hp g hg
    obtain ⟨n1, n2, n3, n4⟩ := hnn
    cases hcl : p.1.cls <;> simp only [hcl, lo, hi] at hb <;> simp <;> omega
  · intro r h0 h1
    exact runFrom_covers guard C os.flatten 0 r h0 h1
  · intro hfit g hg
    have hb := mem_runFrom_bounds idealGuard C os.flatten 0 g hg
    rw [mem_runFrom_granted idealGuard C os.flatten 0 g hg]
    simp only [idealGuard, decide_eq_true_eq]
    have : finalFrom os.flatten 0 = final os.flatten := rfl
    omega


/-! ## 4. Contact row addresses (`_efc_contact_init__kernel`) -/
section contact_init
variable {K : Type} [Scalar K] (body_weldid : (Int → Int)) (body_dofnum : (Int → Int)) (body_dofadr : (Int → Int)) (dof_parentid : (Int → Int)) (geom_bodyid : (Int → Int)) (njmax_in : Int) (njmax_nnz_in : Int) (nacon_in : (Int → Int)) (dist_in : (Int → K)) (condim_in : (Int → Int)) (includemargin_in : (Int → K)) (adhesion_in : (Int → K)) (worldid_in : (Int → Int)) (geom_in : (Int → I2)) (type_in : (Int → Int)) (nefc_out : (Int → Int)) (contact_efc_address_out : (Int → Int → Int)) (efc_id_out : (Int → Int → Int)) (efc_jtdaj_adr_out : (Int → Int → Int)) (efc_jtdaj_nrow_out : (Int → Int → Int)) (efc_jtdaj_nblock_out : (Int → Int)) (efc_J_rownnz_out : (Int → Int → Int)) (efc_J_rowadr_out : (Int → Int → Int)) (efc_nnz_out : (Int → Int)) (st_flg_adhesion : Bool) (st_IS_ELLIPTIC : Bool) (alloc0 : Int) (st_is_sparse_and_newton : Bool) (alloc1 : Int) (st_IS_SPARSE : Bool) (alloc2 : Int) (fuel : Nat) (tid0 : Int)
local notation "KW" => Gen.Constraint._efc_contact_init__kernel body_weldid body_dofnum body_dofadr dof_parentid geom_bodyid njmax_in njmax_nnz_in nacon_in dist_in condim_in includemargin_in adhesion_in worldid_in geom_in type_in nefc_out contact_efc_address_out efc_id_out efc_jtdaj_adr_out efc_jtdaj_nrow_out efc_jtdaj_nblock_out efc_J_rownnz_out efc_J_rowadr_out efc_nnz_out st_flg_adhesion st_IS_ELLIPTIC alloc0 st_is_sparse_and_newton alloc1 st_IS_SPARSE alloc2 fuel tid0

/-- (5) **contact_address_valid** (thread = contact `conid = tid0`, world `worldid_in conid`, `alloc0` = the value
    returned by its `atomic_add(nefc_out, worldid, ndim)`, `0 ≤ alloc0` as every arena offset):
    (a) every cell of `contact.efc_address` the thread writes is `[conid, d]` with `0 ≤ d < ndim`
        (`ndim = ndimOf cone condim`), and the value `a` written is
          * `a ≥ 0` ⇒ `a = alloc0 + d < njmax` and THE SAME THREAD sets `efc_id[worldid, a] := conid`
            — the address points at a row of that contact;
          * `a < 0` ⇒ `a = -1` and the row did not fit (`njmax ≤ alloc0 + d`);
    (b) conversely a thread that allocated writes the address of EVERY dimension `0 ≤ d < ndim`
        (`alloc0 + d` if it fits, else `-1`);
    (c) the rows of the contact are contiguous: the thread sets `efc_id[worldid, r]` exactly for
        `alloc0 ≤ r < alloc0 + ndim`, `r < njmax`; every such cell holds `conid`.
    Rows of DIFFERENT contacts never overlap: the blocks `[alloc0, alloc0 + ndim)` are handed out by the arena
    (`type_blocks_ordered`, `Props.C16.row_blocks_disjoint`). -/
theorem contact_address_valid (h0 : 0 ≤ alloc0) :
    (∀ w ∈ KW, w.arr = "contact_efc_address_out" →
      ∃ d a, w.idx = [tid0, d] ∧ w.kind = WKind.set ∧ w.val = WVal.i a
        ∧ 0 ≤ d ∧ d < ndimOf st_IS_ELLIPTIC (condim_in tid0)
        ∧ (0 ≤ a → a = alloc0 + d ∧ a < njmax_in ∧ setsI KW "efc_id_out" [worldid_in tid0, a] tid0)
        ∧ (a < 0 → a = -1 ∧ njmax_in ≤ alloc0 + d))
    ∧ (reached KW "nefc_out" [worldid_in tid0] → ∀ d, 0 ≤ d → d < ndimOf st_IS_ELLIPTIC (condim_in tid0) →
        (alloc0 + d < njmax_in → setsI KW "contact_efc_address_out" [tid0, d] (alloc0 + d))
        ∧ (njmax_in ≤ alloc0 + d → setsI KW "contact_efc_address_out" [tid0, d] (-1)))
    ∧ (∀ r, writesRow KW "efc_id_out" (worldid_in tid0) r ↔
        (reached KW "nefc_out" [worldid_in tid0] ∧ alloc0 ≤ r
          ∧ r < alloc0 + ndimOf st_IS_ELLIPTIC (condim_in tid0) ∧ r < njmax_in))
    ∧ (∀ w ∈ KW, w.arr = "efc_id_out" → w.val = WVal.i tid0) := by
  refine ⟨?_, ?_, ?_, ?_⟩
  · intro w hw harr
    obtain ⟨d, hd0, hd1, hidx, hkind, hval⟩ := Lemmas.C05.contact_init_address body_weldid body_dofnum body_dofadr dof_parentid geom_bodyid njmax_in njmax_nnz_in nacon_in dist_in condim_in includemargin_in adhesion_in worldid_in geom_in type_in nefc_out contact_efc_address_out efc_id_out efc_jtdaj_adr_out efc_jtdaj_nrow_out efc_jtdaj_nblock_out efc_J_rownnz_out efc_J_rowadr_out efc_nnz_out st_flg_adhesion st_IS_ELLIPTIC alloc0 st_is_sparse_and_newton alloc1 st_IS_SPARSE alloc2 fuel tid0 w hw harr
    have hreach := Lemmas.C05.contact_init_address_reached body_weldid body_dofnum body_dofadr dof_parentid geom_bodyid njmax_in njmax_nnz_in nacon_in dist_in condim_in includemargin_in adhesion_in worldid_in geom_in type_in nefc_out contact_efc_address_out efc_id_out efc_jtdaj_adr_out efc_jtdaj_nrow_out efc_jtdaj_nblock_out efc_J_rownnz_out efc_J_rowadr_out efc_nnz_out st_flg_adhesion st_IS_ELLIPTIC alloc0 st_is_sparse_and_newton alloc1 st_IS_SPARSE alloc2 fuel tid0 ⟨w, hw, harr⟩
    have hrow := Lemmas.C05.contact_init_address_row body_weldid body_dofnum body_dofadr dof_parentid geom_bodyid njmax_in njmax_nnz_in nacon_in dist_in condim_in includemargin_in adhesion_in worldid_in geom_in type_in nefc_out contact_efc_address_out efc_id_out efc_jtdaj_adr_out efc_jtdaj_nrow_out efc_jtdaj_nblock_out efc_J_rownnz_out efc_J_rowadr_out efc_nnz_out st_flg_adhesion st_IS_ELLIPTIC alloc0 st_is_sparse_and_newton alloc1 st_IS_SPARSE alloc2 fuel tid0 hreach d hd0 hd1
    rcases hval with ⟨hfit, hv⟩ | ⟨hno, hv⟩
    · refine ⟨d, alloc0 + d, hidx, hkind, hv, hd0, hd1, fun _ => ⟨rfl, hfit, (hrow.1 hfit).2⟩, fun h => ?_⟩
      omega
    · refine ⟨d, -1, hidx, hkind, hv, hd0, hd1, fun h => ?_, fun _ => ⟨rfl, hno⟩⟩
      omega
  · intro hreach d hd0 hd1
    have hrow := Lemmas.C05.contact_init_address_row body_weldid body_dofnum body_dofadr dof_parentid geom_bodyid njmax_in njmax_nnz_in nacon_in dist_in condim_in includemargin_in adhesion_in worldid_in geom_in type_in nefc_out contact_efc_address_out efc_id_out efc_jtdaj_adr_out efc_jtdaj_nrow_out efc_jtdaj_nblock_out efc_J_rownnz_out efc_J_rowadr_out efc_nnz_out st_flg_adhesion st_IS_ELLIPTIC alloc0 st_is_sparse_and_newton alloc1 st_IS_SPARSE alloc2 fuel tid0 hreach d hd0 hd1
    exact ⟨fun h => (hrow.1 h).1, hrow.2⟩
  · intro r
    rw [Mjw.Lemmas.C16.contact_init_rows]
    constructor
    · rintro ⟨n, hn, h1, h2, h3⟩
      obtain ⟨_, rfl⟩ := Lemmas.C05.contact_init_ndim body_weldid body_dofnum body_dofadr dof_parentid geom_bodyid njmax_in njmax_nnz_in nacon_in dist_in condim_in includemargin_in adhesion_in worldid_in geom_in type_in nefc_out contact_efc_address_out efc_id_out efc_jtdaj_adr_out efc_jtdaj_nrow_out efc_jtdaj_nblock_out efc_J_rownnz_out efc_J_rowadr_out efc_nnz_out st_flg_adhesion st_IS_ELLIPTIC alloc0 st_is_sparse_and_newton alloc1 st_IS_SPARSE alloc2 fuel tid0 _ n hn
      exact ⟨allocReq_reached _ _ _ _ hn, h1, h2, h3⟩
    · rintro ⟨hr, h1, h2, h3⟩
      obtain ⟨w, hw, ha, hk, hi⟩ := hr
      refine ⟨ndimOf st_IS_ELLIPTIC (condim_in tid0), ?_, h1, h2, h3⟩
      exact Lemmas.C05.contact_init_allocReq body_weldid body_dofnum body_dofadr dof_parentid geom_bodyid njmax_in njmax_nnz_in nacon_in dist_in condim_in includemargin_in adhesion_in worldid_in geom_in type_in nefc_out contact_efc_address_out efc_id_out efc_jtdaj_adr_out efc_jtdaj_nrow_out efc_jtdaj_nblock_out efc_J_rownnz_out efc_J_rowadr_out efc_nnz_out st_flg_adhesion st_IS_ELLIPTIC alloc0 st_is_sparse_and_newton alloc1 st_IS_SPARSE alloc2 fuel tid0 ⟨w, hw, ha, hk, hi⟩
  · exact Lemmas.C05.contact_init_id_value body_weldid body_dofnum body_dofadr dof_parentid geom_bodyid njmax_in njmax_nnz_in nacon_in dist_in condim_in includemargin_in adhesion_in worldid_in geom_in type_in nefc_out contact_efc_address_out efc_id_out efc_jtdaj_adr_out efc_jtdaj_nrow_out efc_jtdaj_nblock_out efc_J_rownnz_out efc_J_rowadr_out efc_nnz_out st_flg_adhesion st_IS_ELLIPTIC alloc0 st_is_sparse_and_newton alloc1 st_IS_SPARSE alloc2 fuel tid0
end contact_init

end Mjw.Props.C05
