/-
  C36  Results do not depend on what else ran in the process.

  Process-global state of mujoco_warp that outlives a model: (A) `_KERNEL_CACHE` (`warp_util.cache_kernel`),
  (C) formerly the module-level primitive dispatch lists of collision_primitive.py.  Both are modelled in
  `Model/ProcState.lean` (hand-written; this property has no generated kernel: the code is host-side Python).

  Theorems
  --------
  1 `cache_transparent`            if a builder's result depends on its arguments only through their key and no
                                   other builder shares its `__name__`, then after EVERY call history the
                                   decorated builder returns exactly `build args`
  1' `cache_transparent_family`    the same for a whole family of builders with pairwise distinct names
  2 `cache_collision_example`      argument pairs with EQUAL keys that a closure could tell apart: `True`/`1`,
                                   `1.0`/`1`, `-1`/`-2`, two TileSets of equal size, two NumPy scalars
  2' `cache_not_transparent_witness`, `same_name_collision_witness`: what goes wrong if a hypothesis of (1) fails
  3 `key_determines_reads`         semantic justification of the table `distinguishes`: for arguments of a
                                   parameter's kind, equal key components give equal observations for every read
                                   the table allows
  3' `all_builders_safe`           TABLE theorem: each of the 75 `@cache_kernel` builders of the package reads from
                                   each parameter only what the key distinguishes (`decide`)
  3'' `builder_names_distinct`     the 75 `__name__`s are pairwise distinct (the key contains only the bare name,
                                   not the module)
  4 `accumulating_dispatch_history_dependent` (historical, repaired in aa3ef03) and
    `per_call_dispatch_history_independent`, `per_call_dispatch_only_wanted` (the code now)

  What is NOT proved (scope): that each builder's Python closure really reads only what the table says — the
  table is data written from the source (file:line in every entry; cross-checked by an AST scan of every
  occurrence of each parameter name, and by recording the argument types of 57 of the 75 builders at run time:
  only `int`, `bool`, `IntEnum`/`IntFlag`, `TileSet`, `list` occur — no NumPy scalar).  No builder body refers to
  a mutable module-level object (AST scan of free names: only functions, imports and numeric constants).

  Residual hazards recorded here rather than hidden:
  * `hash(-1) == hash(-2)`: `opt.ccd_iterations`, `opt.ls_iterations`, `opt.contact_sensor_maxmatch` are user
    integers passed as `nat` parameters; two models with values -1 and -2 would share a kernel.  MuJoCo requires
    these to be non-negative; `ofKind .nat` carries `0 ≤ n < 2^61 - 1`.
  * a NumPy integer passed to a builder would be keyed by `.size = 1` (kind `npScalar`, distinguishes nothing).
    All call sites pass Python ints today (`int(...)` conversions in io.py); nothing enforces it.
  * keyword arguments are rejected (`wrapper(*args)`), and a defaulted argument that is omitted gives a different
    key (shorter tuple) than the same value passed explicitly: a duplicate cache entry, not a wrong kernel.
-/
import MjwVerif.Lemmas.Real
import MjwVerif.Lemmas.C36

set_option linter.unusedVariables false

namespace Mjw.Props.C36
open Mjw.ProcState Mjw.Lemmas.C36

/-! ## 1. Transparency of the cache -/

/-- (1) **cache_transparent**.  Let `b` be a builder whose result depends on its arguments only through their
    key (`key a = key a' → build a = build a'`).  Then after EVERY history of calls — calls of `b` itself with any
    arguments and calls of builders with other names, in any order, starting from the empty cache —
    the decorated `b(args)` returns exactly `b.build args` (for every `args` that can be hashed at all). -/
theorem cache_transparent {κ : Type} (b : Builder κ)
    (hb : ∀ a a' k, key b.name a = some k → key b.name a' = some k → b.build a = b.build a')
    (hist : List (Builder κ × List Arg)) (hh : ∀ x ∈ hist, x.1 = b ∨ x.1.name ≠ b.name)
    (args : List Arg) (k : Key) (hk : key b.name args = some k) :
    (cachedBuild (runHistory hist []) b args).map Prod.fst = some (b.build args) :=
  cachedBuild_of_inv b _ (inv_run b hb hist [] (inv_nil b) hh) args k hk

/-- (1') a family of builders with pairwise distinct names, each respecting its keys: every call in every history
    over the family returns the builder's own result -/
theorem cache_transparent_family {κ : Type} (fam : List (Builder κ))
    (hnames : ∀ b ∈ fam, ∀ b' ∈ fam, b.name = b'.name → b = b')
    (hresp : ∀ b ∈ fam, ∀ a a' k, key b.name a = some k → key b.name a' = some k → b.build a = b.build a')
    (hist : List (Builder κ × List Arg)) (hh : ∀ x ∈ hist, x.1 ∈ fam)
    (b : Builder κ) (hbf : b ∈ fam) (args : List Arg) (k : Key) (hk : key b.name args = some k) :
    (cachedBuild (runHistory hist []) b args).map Prod.fst = some (b.build args) := by
  apply cache_transparent b (hresp b hbf) hist _ args k hk
  intro x hx
  by_cases hn : x.1.name = b.name
  · exact Or.inl (hnames _ (hh x hx) _ hbf hn)
  · exact Or.inr hn

/-! ## 2. Key collisions: the hypotheses a builder must not violate -/

/-- (2) **cache_collision_example**: pairs of DIFFERENT arguments with EQUAL cache keys.
    (i) `True` / `1`, (ii) `1.0` / `1`, (iii) `-1` / `-2` (CPython: `hash(-1) == -2`), (iv) two TileSets of size 4
    with different `adr`, (v) two NumPy scalars 5 and 7 (both `.size == 1`), (vi) `2^61 - 1` / `0`.
    The last line shows the observations that tell them apart (`pytype`, `payload`, `value`). -/
theorem cache_collision_example :
    key "f" [.bool true] = key "f" [.int 1]
    ∧ key "f" [.float 1] = key "f" [.int 1]
    ∧ key "f" [.int (-1)] = key "f" [.int (-2)]
    ∧ key "f" [.sized 4 10] = key "f" [.sized 4 11]
    ∧ key "f" [.sized 1 5] = key "f" [.sized 1 7]
    ∧ key "f" [.int 2305843009213693951] = key "f" [.int 0]
    ∧ observe .pytype (.bool true) ≠ observe .pytype (.int 1)
    ∧ observe .payload (.sized 4 10) ≠ observe .payload (.sized 4 11)
    ∧ observe .value (.sized 1 5) ≠ observe .value (.sized 1 7)
    ∧ observe .value (.int (-1)) ≠ observe .value (.int (-2)) := by decide

/-- a builder that reads the payload of a sized argument (e.g. `tile.adr`) -/
def payloadReader : Builder Int := ⟨"reads_adr", fun args => match args with | [.sized _ p] => p | _ => 0⟩

/-- (2') **cache_not_transparent_witness**: `payloadReader` violates the hypothesis of `cache_transparent`
    (equal keys, different results), and indeed after the one-call history `[payloadReader(tile(4, 10))]` the call
    `payloadReader(tile(4, 11))` returns the kernel built for the OTHER tile. -/
theorem cache_not_transparent_witness :
    key payloadReader.name [.sized 4 10] = key payloadReader.name [.sized 4 11]
    ∧ payloadReader.build [.sized 4 10] ≠ payloadReader.build [.sized 4 11]
    ∧ (cachedBuild (runHistory [(payloadReader, [.sized 4 10])] []) payloadReader [.sized 4 11]).map Prod.fst = some 10
    ∧ payloadReader.build [.sized 4 11] = 11
    ∧ (cachedBuild [] payloadReader [.sized 4 11]).map Prod.fst = some 11 := by decide

/-- (2'') **same_name_collision_witness**: two different builders with the same `__name__` (the key holds the bare
    name only, not the module): the second one gets the first one's kernel. -/
theorem same_name_collision_witness :
    (cachedBuild (runHistory [((⟨"kernel", fun _ => 1⟩ : Builder Int), [.int 3])] [])
        (⟨"kernel", fun _ => 2⟩ : Builder Int) [.int 3]).map Prod.fst = some 1 := by decide

/-! ## 3. The builders of the package -/

/-- (3) **key_determines_reads**: for two arguments of the kind a parameter has at its call sites, equal key
    components (`_hash_arg`) imply equal observations for every read that `distinguishes` lists for that kind.
    (`nat/bool/enum`: the value up to Python `==`; `tile`: `.size`; lists: the items and the length.) -/
theorem key_determines_reads (k : PKind) (a a' : Arg) (ha : ofKind k a = true) (ha' : ofKind k a' = true)
    (h : hashArg a = hashArg a') (r : Read) (hr : r ∈ distinguishes k) : observe r a = observe r a' :=
  Mjw.Lemmas.C36.key_determines_reads k a a' ha ha' h r hr

/-- (3') **all_builders_safe** — the TABLE theorem: every one of the 75 `@cache_kernel` builders reads, from
    each of its parameters, only what the cache key distinguishes. -/
theorem all_builders_safe : builders.all safe = true := by decide

/-- the table covers 75 builders, 152 parameters -/
theorem builders_count : builders.length = 75 ∧ (builders.map (fun b => b.params.length)).sum = 152 := by decide

/-- (3'') **builder_names_distinct**: the `__name__`s are pairwise distinct, so `hash(func.__name__)` separates the
    builders (hypothesis `hnames` of `cache_transparent_family`) -/
theorem builder_names_distinct : (builders.map (fun b => b.name)).Nodup := by decide

/-- `safe` is not vacuous: a builder reading a TileSet's `adr`, one taking a NumPy scalar, one testing `x is True` -/
theorem safe_rejects :
    safe ⟨"reads_adr", "-", 0, [⟨"tile", .tile, [.size, .payload]⟩]⟩ = false
    ∧ safe ⟨"numpy_arg", "-", 0, [⟨"n", .npScalar, [.value]⟩]⟩ = false
    ∧ safe ⟨"is_true", "-", 0, [⟨"flag", .bool, [.pytype]⟩]⟩ = false := by decide

/-! ## 4. The primitive-narrowphase dispatch list -/

/-- model A: `<flag nativeccd="disable"/>` (box-box routed to the primitive path) with one box-box pair -/
def modelA : ModelInfo :=
  { table := PRIMITIVE_COLLISIONS, count := fun t => if t = (BOX, BOX) then 1 else 0 }

/-- model B: default flags (box-box is NOT in the primitive table: it is a CONVEX pair), one plane-box and one
    box-box pair -/
def modelB : ModelInfo :=
  { table := PRIMITIVE_COLLISIONS.filter (fun t => t != (BOX, BOX)),
    count := fun t => if t = (BOX, BOX) ∨ t = (PLANE, BOX) then 1 else 0 }

/-- (4a) **accumulating_dispatch_history_dependent** (the code BEFORE aa3ef03): the dispatch list used for
    model B depends on whether model A ran earlier in the process.  Alone: `[(PLANE, BOX)]`.  After A:
    `[(BOX, BOX), (PLANE, BOX)]` — B's box-box pairs are then handled by the primitive kernel AND by the convex
    kernel (duplicated contacts; reproduced on the real code: 12 contacts instead of 8). -/
theorem accumulating_dispatch_history_dependent :
    dispatchAfter stepAccumulating [] modelB = [(PLANE, BOX)]
    ∧ dispatchAfter stepAccumulating [modelA] modelB = [(BOX, BOX), (PLANE, BOX)]
    ∧ dispatchAfter stepAccumulating [modelA] modelB ≠ dispatchAfter stepAccumulating [] modelB
    ∧ (BOX, BOX) ∉ modelB.table := by decide

/-- (4b) **per_call_dispatch_history_independent** (the code now): for EVERY history and every model the dispatch
    list is the list computed from the current model alone, and the module-level list stays empty. -/
theorem per_call_dispatch_history_independent (hist : List ModelInfo) (m : ModelInfo) :
    dispatchAfter stepPerCall hist m = dispatchAfter stepPerCall [] m
    ∧ dispatchAfter stepPerCall hist m = appendWanted [] m
    ∧ hist.foldl (fun g x => (stepPerCall g x).1) [] = [] := by
  have h : ∀ (l : List ModelInfo) (g : List PairType), l.foldl (fun g x => (stepPerCall g x).1) g = g := by
    intro l
    induction l with
    | nil => intro g; rfl
    | cons x xs ih => intro g; simp only [List.foldl_cons, stepPerCall]; exact ih g
  exact ⟨rfl, rfl, h hist []⟩

/-- (4c) **per_call_dispatch_only_wanted**: every pair type the per-call kernel handles is routed to the primitive
    path by the CURRENT model's collision table and occurs in the current model — a pair type routed to the convex
    path (box-box by default) is never also handled by the primitive kernel, whatever ran before. -/
theorem per_call_dispatch_only_wanted (hist : List ModelInfo) (m : ModelInfo) (t : PairType)
    (h : t ∈ dispatchAfter stepPerCall hist m) :
    t ∈ PRIMITIVE_COLLISIONS ∧ t ∈ m.table ∧ m.count t ≠ 0 := by
  rw [(per_call_dispatch_history_independent hist m).2.1] at h
  rcases mem_appendWanted_aux m PRIMITIVE_COLLISIONS [] t h with h | h
  · simp at h
  · exact h

/-! ## Examples -/

/-- the hypothesis of `cache_transparent` is satisfiable by a non-constant builder: one that reads `.size` only -/
def sizeReader : Builder Int := ⟨"reads_size", fun args => match args with | [.sized s _] => s | _ => 0⟩

example : (cachedBuild (runHistory [(sizeReader, [.sized 4 10]), (payloadReader, [.sized 4 10])] []) sizeReader
    [.sized 4 11]).map Prod.fst = some 4 := by decide
example : (cachedBuild (runHistory [(sizeReader, [.sized 4 10])] []) sizeReader [.sized 6 11]).map Prod.fst
    = some 6 := by decide
/-- the real `_primitive_narrowphase` arguments of two different models have different keys -/
example : key "_primitive_narrowphase" [.list [.int 6], .list [.obj 1]]
    ≠ key "_primitive_narrowphase" [.list [.int 102, .int 6], .list [.obj 13, .obj 1]] := by decide
example : dispatchAfter stepPerCall [modelA, modelA] modelB = [(PLANE, BOX)] := by decide
example : (builders.filter (fun b => b.params.any (fun p => p.kind == .tile))).map (fun b => b.name)
    = ["_tile_cholesky_factorize_block", "_tile_cholesky_solve_block", "_tile_cholesky_factorize_solve_block"] := by
  decide

end Mjw.Props.C36
