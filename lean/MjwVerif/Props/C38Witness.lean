/-
  C38 witnesses: concrete inputs on which the LITERAL reading of C38 fails (the conditional forms proved in
  `Props/C38.lean` carry exactly the hypotheses that exclude these).  All on the generated kernels
  (`Mjw.Gen.Island._reset_compact_maps`, `_compact_dofs` through `updateActiveDofs`), evaluated by `decide`.

  W1 "the compaction is order preserving": it preserves the VISITING order (tree index, j).  That is the
     dof order only if the trees' dof ranges are laid out increasingly (`TreesSorted`, hypothesis of
     `C38.compact_order_preserving`; true of MuJoCo models).  For a disjoint, in-range but unsorted layout
     (tree 0 = dofs {3,4}, tree 1 = dofs {0,1,2}) two awake dofs `0 < 3` get `dof_cdof 0 = 2 > dof_cdof 3 = 0`.
  W2 "bit 128 of overflow[w] is set ⇔ count > nvmax": the word is sticky (only OR-ed; cleared by
     `reset_data` only).  With the bit set on entry and a world that FITS, the bit is still set afterwards
     (hence the hypothesis `hclear` of `C38.compact_overflow_iff`).
  W3 "the maps are mutually inverse between awake dofs and [0, ncdof)" fails on overflow (hypothesis
     `hfit` of `C38.compact_maps_inverse`): with `nvmax = 4` and awake trees {0,1} | {2,3,4}, tree 1 is SPLIT:
     dofs 2,3 are granted, the awake dof 4 keeps `dof_cdof = -1` and would be treated as frozen (qacc = 0) by
     `_scatter_dof_vecs`; only the overflow bit reports it ("behavior undefined" in the source's printf).
-/
import MjwVerif.Props.C38

namespace Mjw.Props.C38Witness
open Mjw Mjw.Compact Mjw.Props.C38

/-- W1: unsorted but disjoint and in-range layout, everything fits (count 5 ≤ nvmax 8), yet the
    compaction reverses the order of the awake dofs 0 and 3. -/
theorem order_not_preserved_unsorted_witness :
    let m2 := updateActiveDofs Float 5 8 2 adrU numU (fun _ _ => 1) 8 false (grid2 1 8) (grid1 1) mem7
    IsAwakeDof 2 adrU numU (fun _ => 1) 0 ∧ IsAwakeDof 2 adrU numU (fun _ => 1) 3
    ∧ (awakeCount 2 numU (fun _ => 1) : Int) ≤ 8
    ∧ (0 : Int) < 3 ∧ m2 "dof_cdof_out" [0, 0] = 2 ∧ m2 "dof_cdof_out" [0, 3] = 0
    ∧ ¬ (m2 "dof_cdof_out" [0, 0] < m2 "dof_cdof_out" [0, 3]) := by
  refine ⟨⟨1, 0, by decide, by decide, rfl, by decide, by decide, by decide⟩,
    ⟨0, 0, by decide, by decide, rfl, by decide, by decide, by decide⟩, by decide, by decide, by decide, by decide,
    by decide⟩

/-- the layout of W1 satisfies the other well-formedness hypotheses -/
theorem order_witness_layout_ok : TreesDisjoint 2 adrU numU ∧ TreesInRange 2 adrU numU 5 := by
  refine ⟨treesDisjoint_U, ?_⟩
  intro t h0 h1 _
  have ht : t = 0 ∨ t = 1 := by omega
  rcases ht with rfl | rfl <;> decide

/-- W2: NVMAX bit (and an unrelated bit 16) set on entry, world fits (count 3 ≤ nvmax 4): the word is
    untouched, so the bit is set although there is no overflow. -/
theorem overflow_bit_sticky_witness :
    let m0 : IMem := fun a _ => if a = "overflow_out" then 144 else 7
    let m2 := updateActiveDofs Float 6 4 3 adr3 num3 (fun _ => awake3) 4 false (grid2 1 6) (grid1 1) m0
    hasNvmaxBit (m0 "overflow_out" [0]) = true
    ∧ ¬ ((awakeCount 3 num3 awake3 : Int) > 4)
    ∧ m2 "overflow_out" [0] = 144 ∧ hasNvmaxBit (m2 "overflow_out" [0]) = true := by
  refine ⟨by decide, by decide, by decide, by decide⟩

/-- W3: overflow splits a tree.  `nvmax = 4`, trees 0 = {0,1} and 1 = {2,3,4} awake (count 5): dofs 2 and
    3 of tree 1 are granted, dof 4 of the same tree is not (`dof_cdof = -1`), `ncdof = 4`, bit set. -/
theorem overflow_splits_tree_witness :
    let m2 := updateActiveDofs Float 6 4 3 adr3 num3 (fun _ => awake3') 4 false (grid2 1 6) (grid1 1) mem7
    IsAwakeDof 3 adr3 num3 awake3' 2 ∧ IsAwakeDof 3 adr3 num3 awake3' 3 ∧ IsAwakeDof 3 adr3 num3 awake3' 4
    ∧ m2 "dof_cdof_out" [0, 2] = 2 ∧ m2 "dof_cdof_out" [0, 3] = 3 ∧ m2 "dof_cdof_out" [0, 4] = -1
    ∧ m2 "ncdof_out" [0] = 4 ∧ hasNvmaxBit (m2 "overflow_out" [0]) = true := by
  refine ⟨⟨1, 0, by decide, by decide, rfl, by decide, by decide, by decide⟩,
    ⟨1, 1, by decide, by decide, rfl, by decide, by decide, by decide⟩,
    ⟨1, 2, by decide, by decide, rfl, by decide, by decide, by decide⟩,
    by decide, by decide, by decide, by decide, by decide⟩

end Mjw.Props.C38Witness
