/-
  C29, witnesses for statements that are FALSE of the model (and of the generated code).

  1. `wake_order_dependent_witness` (3 trees, model) and `wake_tree_order_dependent_witness` (the same through the
     GENERATED `_wake_tree`): "the state after a wake launch is independent of the task order" is false.  Two
     wakers with different values address one sleeping cycle: the first waker's value goes to ALL members
     (`Props.C29.wake_tree_values` (ii)); the second waker finds its addressed tree awake and only lowers THAT
     tree's countdown if its own value is smaller (`wake_tree_values` (i)).  So the other members keep the first
     waker's value, the addressed trees take a minimum: the final VALUES depend on the order.  What is order
     independent is the SET of awake trees (`Props.C29.awake_set_order_independent`) — also checked here.
  2. `wake_collision_order_dependent_witness` (4 trees): the same produced by the GENERATED
     `_wake_collision_kernel`: trees 0, 1 awake with countdowns −3, −7, trees 2, 3 one sleeping cycle, contacts
     (0,2) and (1,3).  Thread order 0,1 → `[-3,-7,-3,-7]`, thread order 1,0 → `[-3,-7,-7,-7]`.
     (3 trees cannot show it with this kernel: two different wake values need two awake trees, and "other
     members" need a sleeping cycle of at least two.)
  3. `build_cycles_breaks_cycle_witness`: "`_build_cycles` keeps the state well-formed" is false without the
     hypothesis of `Props.C29.build_cycles_establishes_wf`: if an island that is put to sleep contains a tree
     that is already asleep (`_check_island_can_sleep` does not veto: it tests `< −1` only), phase 1 overwrites
     that tree's cycle pointer and the rest of its old cycle dangles.  The same instance shows that the strict
     reading of "a tree falls asleep only if EVERY tree of its island had countdown −1" is false: an
     island-mate may be a tree that was already asleep (`falls_asleep_strict_witness`).
  4. `wake_tree_corrupt_witness`: a sleeping entry ≥ ntree is never woken by `_wake_tree` (the walk's first
     test `next_tree >= ntree` breaks before any store).
-/
import MjwVerif.Lemmas.Real
import MjwVerif.Lemmas.C29
import MjwVerif.Gen.Sleep

namespace Mjw.Props.C29
open Mjw Mjw.Sleep Mjw.Lemmas.C29

/-- (1) three trees in ONE sleep cycle 0 → 1 → 2 → 0; waker A addresses tree 0 with −3, waker B tree 1 with −7.
    The hypotheses of `awake_set_order_independent` hold; the final arrays differ; the awake sets agree. -/
theorem wake_order_dependent_witness :
    let s : List Int := [1, 2, 0]
    let ab : List (Int × Int) := [(0, -3), (1, -7)]
    let ba : List (Int × Int) := [(1, -7), (0, -3)]
    WF s ∧ ab.Perm ba ∧ (∀ tv ∈ ab, tv.2 < 0) ∧
    wakeLaunch ab s = [-3, -7, -3] ∧ wakeLaunch ba s = [-7, -7, -7] ∧
    wakeLaunch ab s ≠ wakeLaunch ba s ∧
    awakeSet (wakeLaunch ab s) = awakeSet (wakeLaunch ba s) := by
  refine ⟨by decide, List.Perm.swap _ _ _, by decide, by decide, by decide, by decide, by decide⟩

/-- (1') the same two launches performed by the GENERATED `_wake_tree` (world 0, ntree = 3) on the list state -/
theorem wake_tree_order_dependent_witness :
    let task := fun (arr : Int → Int → Int) (tv : Int × Int) => (Gen.Sleep._wake_tree (K := Float) 3 0 tv.1 tv.2 arr).2
    launchK 0 task [(0, -3), (1, -7)] [1, 2, 0] = [-3, -7, -3] ∧
    launchK 0 task [(1, -7), (0, -3)] [1, 2, 0] = [-7, -7, -7] := by
  decide

/-- inputs of the 4-tree instance: body b = geom b = tree b; contact 0 = geoms (0,2), contact 1 = geoms (1,3);
    `tree_awake = [1,1,0,0]` (consistent with `tree_asleep = [-3,-7,3,2]`) -/
def geomW : Int → I2 := fun c => if c = 0 then ⟨0, 2⟩ else ⟨1, 3⟩
def awakeW : Int → Int → Int := fun _ t => if t = 0 ∨ t = 1 then 1 else 0

/-- (2) the GENERATED `_wake_collision_kernel` (world 0, ntree = 4, nacon = 2), thread orders 0,1 and 1,0 -/
theorem wake_collision_order_dependent_witness :
    let task := fun (arr : Int → Int → Int) (conid : Int) =>
      Gen.Sleep._wake_collision_kernel (K := Float) 4 id id awakeW geomW (fun _ => 0) (fun _ => 2) arr conid
    let s : List Int := [-3, -7, 3, 2]
    WF s ∧ treeAwake s = [1, 1, 0, 0] ∧
    launchK 0 task [0, 1] s = [-3, -7, -3, -7] ∧
    launchK 0 task [1, 0] s = [-3, -7, -7, -7] ∧
    awakeSet (launchK 0 task [0, 1] s) = awakeSet (launchK 0 task [1, 0] s) := by
  decide

/-- (3) trees 0, 1 asleep (cycle 0 ↔ 1), tree 2 awake with countdown −1; `tree_island = [0, −1, 0]`, one
    island.  Tree 0 does not veto, island 0 = {0, 2} is put to sleep, `tree_asleep[0]` is overwritten with 2:
    tree 1 still points at 0 but is on no cycle any more. -/
theorem build_cycles_breaks_cycle_witness :
    let s : List Int := [1, 0, -1]
    let island : Int → Int := fun t => [0, -1, 0].getD t.toNat (-1)
    let s' := sleepStep (fun _ => true) island 1 [0, 1, 2] [0, 1, 2] s
    WF s ∧ s' = [2, 0, 0] ∧ ¬ WF s' ∧
    -- the missing hypothesis of `build_cycles_establishes_wf`: tree 0 is asleep and in island 0 which may sleep
    (rd s 0 ≥ 0 ∧ island 0 = 0 ∧ islandCanSleep island (sweep (fun _ => true) [0, 1, 2] s) 0 = 1) := by
  decide

/-- (3') in that step tree 2 falls asleep although its island-mate tree 0 did NOT have countdown −1 (it was
    asleep): the strict reading of C29's "every tree of its island" is false; `falls_asleep_only_if` states
    "≥ −1". -/
theorem falls_asleep_strict_witness :
    let s : List Int := [1, 0, -1]
    let island : Int → Int := fun t => [0, -1, 0].getD t.toNat (-1)
    let s' := sleepStep (fun _ => true) island 1 [0, 1, 2] [0, 1, 2] s
    rd s 2 < 0 ∧ rd s' 2 ≥ 0 ∧ island 0 = island 2 ∧ rd (sweep (fun _ => true) [0, 1, 2] s) 0 ≠ -1 := by
  decide

/-- (4) a sleeping entry that points outside the array: `_wake_tree` (model and generated) stores nothing -/
theorem wake_tree_corrupt_witness :
    wakeTree [5, -11] 0 (-11) = [5, -11] ∧
    wproj (Gen.Sleep._wake_tree (K := Float) 2 0 0 (-11) (asArr [5, -11])).2 = [] ∧
    (Gen.Sleep._wake_tree (K := Float) 2 0 0 (-11) (asArr [5, -11])).1 = 0 := by
  decide

end Mjw.Props.C29
