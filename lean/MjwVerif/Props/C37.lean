/-
  C37  Pipeline stages compose consistently.
  Over the host event lists regenerated from /repo's forward.py (and everything it calls) on every run
  (Gen/Host.lean: ordered kernel launches / host array writes with their enclosing host conditions):
  (1) for the Euler and the implicit configurations (sleeping off) `step1 ; step2` launches exactly the same kernels,
      in the same order, as `step` — except for the inertia factor/solve kernels, which `step1` runs as
      factor (in fwd_position) + solve (in fwd_acceleration) where `step` runs the fused factor-solve;
  (2) `forward()` writes no integration-state field except the listed ones.
  A configuration is given by the list of host conditions that are false in it; every other condition (those about
  model sizes, flags, solver type …) is kept on BOTH sides, so the equality holds for all their values.
-/
import MjwVerif.Gen.Host

namespace Mjw.Props.C37
open Mjw.HostGraph Mjw.Gen.Host

def ids (l : List String) : List Nat := l.map nameId

/-- kernels that factor and/or solve with the inertia matrix (the only place where step and step1;step2 differ) -/
def factorSolve : List String :=
  ["smooth._small_cholesky_factorize_block.kernel", "smooth._tile_cholesky_factorize_block.kernel",
   "smooth._small_cholesky_factorize_solve_block.kernel", "smooth._tile_cholesky_factorize_solve_block.kernel",
   "smooth._small_cholesky_solve_block.kernel", "smooth._tile_cholesky_solve_block.kernel",
   "smooth._qLD_acc", "smooth._qLDiag_div", "smooth._solve_LD_sparse_fused.kernel", "L", "L_ldl"]

def sleepConds : List String :=
  ["bool(m.opt.enableflags & EnableBit.SLEEP) and (not bool(m.opt.disableflags & DisableBit.ISLAND))",
   "bool(m.opt.enableflags & types.EnableBit.SLEEP)", "m.opt.enableflags & types.EnableBit.SLEEP",
   "sleep_enabled and m.ntendon > 0"]

/-- conditions that are false in the Euler / sleeping-off configuration -/
def eulerFalse : List String :=
  ["m.opt.integrator == IntegratorType.RK4", "not (m.opt.integrator == IntegratorType.EULER)",
   "m.opt.integrator in (IntegratorType.IMPLICITFAST, IntegratorType.IMPLICIT)",
   "m.opt.integrator == IntegratorType.IMPLICIT"] ++ sleepConds

/-- conditions that are false in the implicit-fast / sleeping-off configuration -/
def implicitFalse : List String :=
  ["m.opt.integrator == IntegratorType.RK4", "m.opt.integrator == IntegratorType.EULER",
   "not (m.opt.integrator in (IntegratorType.IMPLICITFAST, IntegratorType.IMPLICIT))",
   "m.opt.integrator == IntegratorType.IMPLICIT"] ++ sleepConds

/-- subjects (kernel or host-written field) of the events that run in the configuration, factor/solve removed -/
def seqIn (falseConds : List String) (evs : List Event) : List Nat :=
  let f := ids falseConds
  let fs := ids factorSolve
  ((evs.filter (fun e => e.conds.all (fun c => !f.contains c))).map (·.subject)).filter (fun s => !fs.contains s)

theorem step1_step2_eq_step_euler :
    seqIn eulerFalse (forward_step1 ++ forward_step2) = seqIn eulerFalse forward_step := by decide +kernel

theorem step1_step2_eq_step_implicit :
    seqIn implicitFalse (forward_step1 ++ forward_step2) = seqIn implicitFalse forward_step := by decide +kernel

/-- non-vacuity: the compared sequences are long (hundreds of launches), not empty -/
theorem compared_sequences_nontrivial : 250 < (seqIn eulerFalse forward_step).length ∧ 250 < (seqIn implicitFalse forward_step).length := by
  decide +kernel

def stateFields : List String :=
  ["d.time", "d.qpos", "d.qvel", "d.act", "d.history", "d.qacc_warmstart", "d.ctrl", "d.qfrc_applied", "d.xfrc_applied",
   "d.eq_active", "d.mocap_pos", "d.mocap_quat", "d.userdata"]

/-- integration-state fields written by any kernel launch or host write reachable from `forward()` -/
def forwardStateWrites : List String :=
  ((writtenFields forward_forward).filter (fun f => (ids stateFields).contains f)).map name

/-- **`forward()` writes no integration-state field, except `d.history`**: delayed sensors insert their fresh sample
    into the history buffer during `sensor_*` (as `mj_forward` does when sensors have delays).  So for models
    without delayed sensors forward() never changes the integration state. -/
theorem forward_preserves_state_partial : forwardStateWrites = ["d.history"] := by decide +kernel

end Mjw.Props.C37
