/-
  C37  Pipeline stages compose consistently.
  Over the host event lists regenerated from /repo's forward.py (and everything it calls) on every run
  (Gen/Host.lean: ordered kernel launches / host array writes with their enclosing host conditions):
  (1) for the Euler and the implicit configurations (sleeping off) `step1 ; step2` launches exactly the same kernels,
      in the same order, as `step` — except for the inertia factor/solve kernels, which `step1` runs as
      factor (in fwd_position) + solve (in fwd_acceleration) where `step` runs the fused factor-solve;
  (2) `forward()` writes no integration-state field except the listed ones;
  (3) in `step1 ; step2`, `forward` and `step` the inertia matrix `d.M` is complete (zeroing, crb, tendon armature) before any event
      reads it, and every solve with the inertia factor follows a factorisation of the CURRENT `d.M` (list order).
  A configuration is given by the list of host conditions that are false in it; every other condition (those about
  model sizes, flags, solver type …) is kept on BOTH sides, so the equality holds for all their values.
-/
import MjwVerif.Gen.Host

namespace Mjw.Props.C37
open Mjw.HostGraph Mjw.Gen.Host

def ids (l : List String) : List Nat := l.map nameId

/-- kernels that factor and/or solve with the inertia matrix (the only place where step and step1;step2 differ) -/
def factorSolve : List String :=
  ["smooth._small_cholesky_factorize_block.kernel", "smooth._tile_cholesky_factorize_block.kernel",
   "smooth._small_cholesky_factorize_solve_block.kernel", "smooth._tile_cholesky_factorize_solve_block.kernel",
   "smooth._small_cholesky_solve_block.kernel", "smooth._tile_cholesky_solve_block.kernel",
   "smooth._qLD_acc", "smooth._qLDiag_div", "smooth._solve_LD_sparse_fused.kernel", "L", "L_ldl"]

def sleepConds : List String :=
  ["bool(m.opt.enableflags & EnableBit.SLEEP) and (not bool(m.opt.disableflags & DisableBit.ISLAND))",
   "bool(m.opt.enableflags & types.EnableBit.SLEEP)", "m.opt.enableflags & types.EnableBit.SLEEP",
   "sleep_enabled and m.ntendon > 0"]

/-- conditions that are false in the Euler / sleeping-off configuration -/
def eulerFalse : List String :=
  ["m.opt.integrator == IntegratorType.RK4", "not (m.opt.integrator == IntegratorType.EULER)",
   "m.opt.integrator in (IntegratorType.IMPLICITFAST, IntegratorType.IMPLICIT)",
   "m.opt.integrator == IntegratorType.IMPLICIT"] ++ sleepConds

/-- conditions that are false in the implicit-fast / sleeping-off configuration -/
def implicitFalse : List String :=
  ["m.opt.integrator == IntegratorType.RK4", "m.opt.integrator == IntegratorType.EULER",
   "not (m.opt.integrator in (IntegratorType.IMPLICITFAST, IntegratorType.IMPLICIT))",
   "m.opt.integrator == IntegratorType.IMPLICIT"] ++ sleepConds

/-- subjects (kernel or host-written field) of the events that run in the configuration, factor/solve removed -/
def seqIn (falseConds : List String) (evs : List Event) : List Nat :=
  let f := ids falseConds
  let fs := ids factorSolve
  ((evs.filter (fun e => e.conds.all (fun c => !f.contains c))).map (·.subject)).filter (fun s => !fs.contains s)

theorem step1_step2_eq_step_euler :
    seqIn eulerFalse (forward_step1 ++ forward_step2) = seqIn eulerFalse forward_step := by decide +kernel

theorem step1_step2_eq_step_implicit :
    seqIn implicitFalse (forward_step1 ++ forward_step2) = seqIn implicitFalse forward_step := by decide +kernel

/-- non-vacuity: the compared sequences are long (hundreds of launches), not empty -/
theorem compared_sequences_nontrivial : 250 < (seqIn eulerFalse forward_step).length ∧ 250 < (seqIn implicitFalse forward_step).length := by
  decide +kernel

def stateFields : List String :=
  ["d.time", "d.qpos", "d.qvel", "d.act", "d.history", "d.qacc_warmstart", "d.ctrl", "d.qfrc_applied", "d.xfrc_applied",
   "d.eq_active", "d.mocap_pos", "d.mocap_quat", "d.userdata"]

/-- integration-state fields written by any kernel launch or host write reachable from `forward()` -/
def forwardStateWrites : List String :=
  ((writtenFields forward_forward).filter (fun f => (ids stateFields).contains f)).map name

/-- **`forward()` writes no integration-state field, except `d.history`**: delayed sensors insert their fresh sample
    into the history buffer during `sensor_*` (as `mj_forward` does when sensors have delays).  So for models
    without delayed sensors forward() never changes the integration state. -/
theorem forward_preserves_state_partial : forwardStateWrites = ["d.history"] := by decide +kernel

/-! ## Ordering of the writers and the consumers of the inertia matrix `d.M` and of its factor -/

/-- evaluate `nameId s` ONCE (the match forces it to a numeral) and hand the numeral to `k` (as in Props/C08.lean) -/
def withId {α : Type} (s : String) (k : Nat → α) : α :=
  match nameId s with
  | 0 => k 0
  | n + 1 => k (n + 1)

/-- Positions (in list order) of the events that WRITE field `f` after some event has READ it without writing it, within one
    recomputation of `f`: a recomputation starts at a host-side re-initialisation of `f` (`hostWrite`: `d.M.zero_()`).
    Empty = every consumer of `f` sees the finished value: no stage adds to `f` behind a consumer's back. -/
def writeAfterRead (f : Nat) (evs : List Event) : List Nat :=
  let rec go (evs : List Event) (i : Nat) (consumed : Bool) (acc : List Nat) : List Nat :=
    match evs with
    | [] => acc.reverse
    | e :: rest =>
      let w := e.writes.contains f
      if w && e.kind == EvKind.hostWrite then go rest (i + 1) false acc
      else if w then go rest (i + 1) consumed (if consumed then i :: acc else acc)
      else go rest (i + 1) (consumed || e.reads.contains f) acc
  go evs 0 false []

/-- Positions of the events that SOLVE with the inertia factor (read one of the fields `fac` without writing any of them)
    while the factor is stale: no factorisation (an event reading `mM` and writing one of `fac`) has run since the last
    write of `mM` — or none at all. -/
def staleSolves (mM : Nat) (fac : List Nat) (evs : List Event) : List Nat :=
  let rec go (evs : List Event) (i : Nat) (fresh : Bool) (acc : List Nat) : List Nat :=
    match evs with
    | [] => acc.reverse
    | e :: rest =>
      let wf := e.writes.any fac.contains
      if e.writes.contains mM then go rest (i + 1) false acc
      else if wf && e.reads.contains mM then go rest (i + 1) true acc
      else if !wf && e.reads.any fac.contains then go rest (i + 1) fresh (if fresh then acc else i :: acc)
      else go rest (i + 1) fresh acc
  go evs 0 false []

/-- (writers of `mM`, events reading `mM` without writing it, solves with the factor) — for non-vacuity -/
def inertiaCounts (mM : Nat) (fac : List Nat) (evs : List Event) : Nat × Nat × Nat :=
  ((evs.filter (fun e => e.writes.contains mM)).length,
   (evs.filter (fun e => !e.writes.contains mM && e.reads.contains mM)).length,
   (evs.filter (fun e => !e.writes.any fac.contains && e.reads.any fac.contains)).length)

/-- the launches (not the host re-initialisation) that write `mM` -/
def accumulators (mM : Nat) (evs : List Event) : List Event :=
  evs.filter (fun e => e.kind == EvKind.launch && e.writes.contains mM)

/-- the factor of M as the host events see it: `d.qLD`, `d.qLDiagInv` and the local slices `L` / `L_ldl` of `d.qLD`
    (the LDL region handed to the sparse factor/solve; the extractor keeps the local name) -/
def withInertiaIds {α : Type} (k : Nat → List Nat → α) : α :=
  withId "d.M" fun mM => withId "d.qLD" fun qLD => withId "d.qLDiagInv" fun qLDi => withId "L" fun l => withId "L_ldl" fun lldl =>
    k mM [qLD, qLDi, l, lldl]

def inertiaOrderFacts : List (List Nat × List Nat) :=
  withInertiaIds fun mM fac =>
    [forward_step1 ++ forward_step2, forward_forward, forward_step].map fun evs => (writeAfterRead mM evs, staleSolves mM fac evs)

theorem inertia_order_facts : inertiaOrderFacts = [([], []), ([], []), ([], [])] := by decide +kernel

/-- **inertia_complete_before_use**: in `step1; step2`, in `forward` and in `step` (all integrators, RK4 stages included;
    list order, host conditions ignored) every event that reads `d.M` without writing it — the factorisations
    (`factor_m` in step1, the fused factor-solve in `fwd_acceleration`), the gather for sleeping islands, Newton's
    Hessian `JᵀDJ + M`, the implicit integrators — comes after ALL events that write `d.M` since its last
    re-initialisation (`d.M.zero_()`, `crb`'s `_M`, `_tendon_armature`): nobody consumes an inertia matrix that a later
    stage still adds to.  Running `tendon_armature` after `factor_m` (or after anything else that reads M) breaks this proof. -/
theorem inertia_complete_before_use : inertiaOrderFacts.map (·.1) = [[], [], []] :=
  by rw [inertia_order_facts]; rfl

/-- **inertia_factor_fresh_at_solve**: in the same three pipelines every solve with the inertia factor (`solve_m`:
    `qacc_smooth` in step2, the CG preconditioner `Mgrad`; reads `d.qLD`/`d.qLDiagInv`) is preceded by a factorisation that read
    `d.M`, with NO write of `d.M` between that factorisation and the solve. -/
theorem inertia_factor_fresh_at_solve : inertiaOrderFacts.map (·.2) = [[], [], []] :=
  by rw [inertia_order_facts]; rfl

def inertiaNonVacuity : Bool × List String × Bool × Bool × Bool :=
  withInertiaIds fun mM fac =>
    let late := accumulators mM forward_step1
    (([forward_step1 ++ forward_step2, forward_forward, forward_step].map (inertiaCounts mM fac)).all
        (fun c => 3 ≤ c.1 && 3 ≤ c.2.1 && 3 ≤ c.2.2),
     late.map (fun e => name e.subject),
     -- step2 on its own solves with a factor that no event of the list produced
     (staleSolves mM fac forward_step2).isEmpty,
     -- the launches that add to M, replayed behind step1's factorisation: caught by both scans
     (writeAfterRead mM (forward_step1 ++ late ++ forward_step2)).isEmpty,
     (staleSolves mM fac (forward_step1 ++ late ++ forward_step2)).isEmpty)

/-- non-vacuity: the scans see writers (≥ 3), consumers (≥ 3) and solves (≥ 3) in every pipeline, the launches that write `d.M`
    in step1 are `crb`'s `_M` and `_tendon_armature`, and the scans are NOT empty on `step2` alone nor when those launches
    run (again) between step1's factorisation and step2's solve. -/
theorem inertia_order_nonvacuous :
    inertiaNonVacuity = (true, ["smooth._M", "smooth._tendon_armature"], false, false, false) := by
  decide +kernel

end Mjw.Props.C37
