/-
  C01  Kinematics agree with MuJoCo C.

  Theorems are about `Mjw.Gen.Smooth.*`, regenerated from /repo/mujoco_warp/_src/smooth.py on every run.
  `kin a w br` abbreviates `Gen.Smooth._kinematics_branch a.qpos0 … a.qpos0_shape0 w br` (the kernel applied
  to the bundle `a : KinArgs K` of its array arguments; `Lemmas/C01.lean`).  MuJoCo's `mj_kinematics`,
  `mj_local2Global`, `mj_comPos` are transcribed in `Spec/Kinematics.lean`.

  Contents: 1 `kinematics_body_step_structural`, `kinematics_body_step_eq_spec`, `kinematics_body_step_mocap`,
  `kinematics_step_hinge/_slide/_ball/_free`; 2 `kinematics_branch_closed_form`, `kinematics_branch_eq_seq`,
  `kinematics_branch_body_writes_eq_seq`, `shared_ancestors_same_value(_joints)`, `world_pose_not_written`;
  3 `xquat_unit`, `compute_body_matrices_spec`, `xmat_proper_rotation`; 4 `geom_site_local_to_global_spec` (+ write
  lists, `inertial_frames_spec`, `static_geom_not_written`); 5 `subtree_com_*_writes`, `subtree_div_eq_spec`,
  `subtree_div_massless`, `subtree_com_level_eq_seq`, `subtree_com_acc_launch_effect`; 6 `cinert_cdof_spec`.

  Structure of the kinematics result:
    (A) for EVERY scalar type K and ALL inputs, the kernel's write list is given in closed form by
        `kinBodyW` / `kinChainW` (the kernel's own recursion: `kinematics_body_step_structural`,
        `kinematics_branch_closed_form`, `shared_ancestors_same_value`);
    (B) over ℝ, `kinBodyW = Spec.kinBody` (MuJoCo's C) when the quaternions involved are unit / regular
        (`kinematics_body_step_eq_spec`, `kinematics_branch_eq_seq`).  The hypotheses of (B) are exactly the places
        where the two codes differ on degenerate input; see `Props/C01Witness.lean`.
-/
import MjwVerif.Lemmas.C01Real
import MjwVerif.Lemmas.C01Tree

set_option linter.unusedVariables false
set_option linter.unusedSimpArgs false
namespace Mjw.Props.C01
open Mjw Mjw.Gen.Math Mjw.Spec.Kinematics Mjw.Lemmas.C01 Mjw.Lemmas.C01R Mjw.Lemmas.C13 Mjw.Props.C23

/-! ## 1. one iteration of the body loop -/

/-- (1, structural; every scalar type, all inputs, no hypotheses).  The generated kernel is the fold of its
    loop body over the chain `body_branches[start..end)`, and ONE iteration for body `b = body_branches[i]`
    appends exactly the writes of `kinBodyW`: xpos/xquat of `b` and xanchor/xaxis of each joint of `b`, computed
    from the parent pose the thread reads back from its own writes `ws` (or from the pre-launch arrays if it has
    not written the parent: the world). -/
theorem kinematics_body_step_structural {K : Type} [Scalar K] (a : KinArgs K) (w br : Int) :
    kin a w br = forRange (a.body_branch_start br) (a.body_branch_start (br + 1)) [] (bodyStepG a w)
    ∧ ∀ (i : Int) (ws : List (Write K)),
        bodyStepG a w i ws
          = ws ++ bodyWrites w (a.body_branches i) (a.body_jntadr (a.body_branches i)) (isFree a (a.body_branches i))
              (kinBodyW (parentOf a w ws (a.body_branches i)) (bpAt a w (a.body_branches i))
                (jointsOf a w (a.body_branches i)) (a.qpos_in w) (a.qpos0 (Int.tmod w a.qpos0_shape0))) :=
  ⟨kinematics_branch_unfold a w br, fun i ws => bodyStepG_eq a w i ws⟩

/-- (1) **one iteration writes exactly `Spec.kinBody`** (MuJoCo's `mj_kinematics` body step), over ℝ.
    `parent = some P`: the thread reads back the pose `P` (unit quaternion) for the parent;
    `parent = none`: the parent is the world and the thread reads the stored world pose (0, identity).
    `BodyOK`: body_quat / mocap_quat unit, HINGE axes unit, BALL / FREE quaternions in qpos regular.
    All joint types and any number of joints per body are covered (`jointsOf` is the body's joint range). -/
theorem kinematics_body_step_eq_spec (a : KinArgs ℝ) (w br i : Int) (ws : List (Write ℝ)) (parent : Option (Pose ℝ))
    (hpar : parentOf a w ws (a.body_branches i) = parentW parent)
    (hP : ∀ P, parent = some P → nrm2 P.quat = 1)
    (hb : BodyOK (bpAt a w (a.body_branches i)) (jointsOf a w (a.body_branches i)) (a.qpos_in w)) :
    kin a w br = forRange (a.body_branch_start br) (a.body_branch_start (br + 1)) [] (bodyStepG a w)
    ∧ bodyStepG a w i ws
      = ws ++ bodyWrites w (a.body_branches i) (a.body_jntadr (a.body_branches i)) (isFree a (a.body_branches i))
          (kinBody parent (bpAt a w (a.body_branches i)) (jointsOf a w (a.body_branches i)) (a.qpos_in w)
            (a.qpos0 (Int.tmod w a.qpos0_shape0))) := by
  refine ⟨kinematics_branch_unfold a w br, ?_⟩
  rw [bodyStepG_eq, bodyOutW, hpar, kinBodyW_eq_spec parent _ _ _ _ hP hb]

/-- (1, mocap) a mocap body — child of the world, no joints — whose `mocap_quat` the user set to a NON-unit (but
    regular: not ≈ 0) quaternion is also written as MuJoCo computes it (MuJoCo normalises `mocap_quat` before use,
    mujoco_warp only at the end) -/
theorem kinematics_body_step_mocap (a : KinArgs ℝ) (w i : Int) (ws : List (Write ℝ)) (mp : V3 ℝ) (mq : Q ℝ)
    (hpar : parentOf a w ws (a.body_branches i) = some worldPose)
    (hm : (bpAt a w (a.body_branches i)).mocap = some (mp, mq)) (hr : Regular mq)
    (hj : jointsOf a w (a.body_branches i) = []) (br : Int) :
    KernelLoop a w br (bodyStepG a w)
    ∧ bodyStepG a w i ws
      = ws ++ bodyWrites w (a.body_branches i) (a.body_jntadr (a.body_branches i)) (isFree a (a.body_branches i))
          (kinBody none (bpAt a w (a.body_branches i)) [] (a.qpos_in w) (a.qpos0 (Int.tmod w a.qpos0_shape0))) := by
  refine ⟨kernelLoop a w br, ?_⟩
  rw [bodyStepG_eq, bodyOutW, hpar, hj, mocap_body_eq_spec _ mp mq hm hr]

/-! ### (1) per joint type: the four writes of a single-joint body, in program order

  `KernelLoop a w br f` says `kin a w br = forRange start end [] f` (`Lemmas/C01.lean`); `F` is MuJoCo's body frame
  before joints (`Spec.bodyFrame`: parent pose ∘ body_pos/body_quat or the mocap pose).  Hypotheses as in
  `kinematics_body_step_eq_spec`.  The Spec closed forms used are `kinBody_hinge/_slide/_ball/_free`
  (`Lemmas/C01Real.lean`); bodies with several joints fold `Spec.jointApply` over the joint range (`kinBody_joints`). -/

section per_joint
variable (a : KinArgs ℝ) (w br i : Int) (ws : List (Write ℝ)) (parent : Option (Pose ℝ))
  (hpar : parentOf a w ws (a.body_branches i) = parentW parent)
  (hP : ∀ P, parent = some P → nrm2 P.quat = 1)
  (hb : BodyOK (bpAt a w (a.body_branches i)) (jointsOf a w (a.body_branches i)) (a.qpos_in w))
  (j : Joint ℝ) (hj : jointsOf a w (a.body_branches i) = [j])

include hpar hP hb hj in
/-- HINGE: rotate by `qpos − qpos0` about the joint axis through the anchor -/
theorem kinematics_step_hinge (ht : j.type = 3) :
    KernelLoop a w br (bodyStepG a w)
    ∧ bodyStepG a w i ws = ws ++
      (let F := bodyFrame parent (bpAt a w (a.body_branches i))
       let xanchor := V3.add (rotVecQuat j.pos F.quat) F.pos
       let q := mulQuat F.quat (axisAngle2Quat j.axis (a.qpos_in w j.qadr - a.qpos0 (Int.tmod w a.qpos0_shape0) j.qadr))
       [(Write.mk "xanchor_out" [w, a.body_jntadr (a.body_branches i)] (WVal.v (V3.toList xanchor)) WKind.set : Write ℝ),
        (Write.mk "xaxis_out" [w, a.body_jntadr (a.body_branches i)] (WVal.v (V3.toList (rotVecQuat j.axis F.quat))) WKind.set : Write ℝ),
        (Write.mk "xpos_out" [w, a.body_branches i] (WVal.v (V3.toList (V3.sub xanchor (rotVecQuat j.pos q)))) WKind.set : Write ℝ),
        (Write.mk "xquat_out" [w, a.body_branches i] (WVal.v (Q.toList (normalize4 q))) WKind.set : Write ℝ)]) := by
  refine ⟨kernelLoop a w br, ?_⟩
  rw [(kinematics_body_step_eq_spec a w br i ws parent hpar hP hb).2, isFree_single a w _ j hj, hj, kinBody_hinge _ _ _ _ _ ht]
  simp [bodyWrites, jntWrites, jntWrite, poseWrites, ht]

include hpar hP hb hj in
/-- SLIDE: translate along the rotated joint axis by `qpos − qpos0` -/
theorem kinematics_step_slide (ht : j.type = 2) :
    KernelLoop a w br (bodyStepG a w)
    ∧ bodyStepG a w i ws = ws ++
      (let F := bodyFrame parent (bpAt a w (a.body_branches i))
       let xaxis := rotVecQuat j.axis F.quat
       [(Write.mk "xanchor_out" [w, a.body_jntadr (a.body_branches i)] (WVal.v (V3.toList (V3.add (rotVecQuat j.pos F.quat) F.pos))) WKind.set : Write ℝ),
        (Write.mk "xaxis_out" [w, a.body_jntadr (a.body_branches i)] (WVal.v (V3.toList xaxis)) WKind.set : Write ℝ),
        (Write.mk "xpos_out" [w, a.body_branches i] (WVal.v (V3.toList (V3.add F.pos (V3.muls xaxis
            (a.qpos_in w j.qadr - a.qpos0 (Int.tmod w a.qpos0_shape0) j.qadr))))) WKind.set : Write ℝ),
        (Write.mk "xquat_out" [w, a.body_branches i] (WVal.v (Q.toList (normalize4 F.quat))) WKind.set : Write ℝ)]) := by
  refine ⟨kernelLoop a w br, ?_⟩
  rw [(kinematics_body_step_eq_spec a w br i ws parent hpar hP hb).2, isFree_single a w _ j hj, hj, kinBody_slide _ _ _ _ _ ht]
  simp [bodyWrites, jntWrites, jntWrite, poseWrites, ht]

include hpar hP hb hj in
/-- BALL: rotate by the normalised quaternion in qpos about the anchor -/
theorem kinematics_step_ball (ht : j.type = 1) :
    KernelLoop a w br (bodyStepG a w)
    ∧ bodyStepG a w i ws = ws ++
      (let F := bodyFrame parent (bpAt a w (a.body_branches i))
       let xanchor := V3.add (rotVecQuat j.pos F.quat) F.pos
       let q := mulQuat F.quat (normalize4 (qposQuat (a.qpos_in w) j.qadr))
       [(Write.mk "xanchor_out" [w, a.body_jntadr (a.body_branches i)] (WVal.v (V3.toList xanchor)) WKind.set : Write ℝ),
        (Write.mk "xaxis_out" [w, a.body_jntadr (a.body_branches i)] (WVal.v (V3.toList (rotVecQuat j.axis F.quat))) WKind.set : Write ℝ),
        (Write.mk "xpos_out" [w, a.body_branches i] (WVal.v (V3.toList (V3.sub xanchor (rotVecQuat j.pos q)))) WKind.set : Write ℝ),
        (Write.mk "xquat_out" [w, a.body_branches i] (WVal.v (Q.toList (normalize4 q))) WKind.set : Write ℝ)]) := by
  refine ⟨kernelLoop a w br, ?_⟩
  rw [(kinematics_body_step_eq_spec a w br i ws parent hpar hP hb).2, isFree_single a w _ j hj, hj, kinBody_ball _ _ _ _ _ ht]
  simp [bodyWrites, jntWrites, jntWrite, poseWrites, ht]

include hpar hP hb hj in
/-- FREE (the kernel's shortcut: pose first, then anchor/axis): position and normalised quaternion straight from
    qpos, independent of the parent; anchor = position, axis = `jnt_axis` unrotated -/
theorem kinematics_step_free (ht : j.type = 0) :
    KernelLoop a w br (bodyStepG a w)
    ∧ bodyStepG a w i ws = ws ++
      (let xpos : V3 ℝ := ⟨a.qpos_in w j.qadr, a.qpos_in w (j.qadr + 1), a.qpos_in w (j.qadr + 2)⟩
       [(Write.mk "xpos_out" [w, a.body_branches i] (WVal.v (V3.toList xpos)) WKind.set : Write ℝ),
        (Write.mk "xquat_out" [w, a.body_branches i]
          (WVal.v (Q.toList (normalize4 (normalize4 (qposQuat (a.qpos_in w) (j.qadr + 3)))))) WKind.set : Write ℝ),
        (Write.mk "xanchor_out" [w, a.body_jntadr (a.body_branches i)] (WVal.v (V3.toList xpos)) WKind.set : Write ℝ),
        (Write.mk "xaxis_out" [w, a.body_jntadr (a.body_branches i)] (WVal.v (V3.toList j.axis)) WKind.set : Write ℝ)]) := by
  refine ⟨kernelLoop a w br, ?_⟩
  rw [(kinematics_body_step_eq_spec a w br i ws parent hpar hP hb).2, isFree_single a w _ j hj, hj, kinBody_free _ _ _ _ _ ht]
  simp [bodyWrites, jntWrites, jntWrite, poseWrites, ht]

end per_joint

/-! ## 2. the whole chain -/

/-- (2, structural; every scalar type, all inputs).  If the chain of branch `br` is parent-linked, the thread's
    complete write list is, in program order, the concatenation over the chain bodies `c 0, c 1, …` of the writes
    of `kinChainW` — a recursion in which body `c k` composes with the value computed for `c (k-1)`.
    Holds for every chain length (the `forRange` is unrolled by induction) and every mix of joints. -/
theorem kinematics_branch_closed_form {K : Type} [Scalar K] (a : KinArgs K) (w br : Int) (hl : Linked a br) :
    kin a w br = chainWrites a w br (chainLen a br) :=
  kin_eq_chainWrites a w br hl

/-- (2) **`kinematics_branch_eq_seq`**: for a well-formed chain `c 0 = root, …, c (n-1)` (each the parent of the
    next, the root a child of the world) the LAST write of the thread to `xpos_out[w, c i]` / `xquat_out[w, c i]` is
    the pose `Spec.kinChain` (MuJoCo's sequential recursion) assigns to `c i` — for every chain length and joint mix.
    Hypotheses: stored world pose = (0, identity) (what `make_data` stores and MuJoCo re-sets on every call), and
    `BodyOK` for the bodies of the chain (unit body/mocap quaternions, unit hinge axes, regular qpos quaternions). -/
theorem kinematics_branch_eq_seq (a : KinArgs ℝ) (w br : Int) (h : WF a br)
    (hwp : a.xpos_out w 0 = ⟨0, 0, 0⟩) (hwq : a.xquat_out w 0 = ⟨1, 0, 0, 0⟩)
    (hb : ∀ k, k < chainLen a br →
      BodyOK (bpAt a w (chainBody a br k)) (jointsOf a w (chainBody a br k)) (a.qpos_in w))
    (i : Nat) (hi : i < chainLen a br) :
    let spec := kinChain (fun k => bpAt a w (chainBody a br k)) (fun k => jointsOf a w (chainBody a br k))
                  (a.qpos_in w) (a.qpos0 (Int.tmod w a.qpos0_shape0)) i
    final (kin a w br) "xpos_out" [w, chainBody a br i] = some (WVal.v (V3.toList spec.pose.pos), WKind.set)
    ∧ final (kin a w br) "xquat_out" [w, chainBody a br i] = some (WVal.v (Q.toList spec.pose.quat), WKind.set) := by
  intro spec
  have hout : chainOut a w br i = spec := by
    unfold chainOut
    rw [parentOf_root a w br h (by omega) hwp hwq]
    exact kinChainW_eq_spec _ _ _ _ i (fun k hk => hb k (by omega))
  rw [kin_eq_chainWrites a w br h.linked, ← hout]
  exact final_chainWrites a w br h i hi

/-- the joint anchors / axes of chain body `c i` are written as `Spec.kinChain` computes them: the thread's writes
    for that body are exactly `bodyWrites` of the spec value (same hypotheses as `kinematics_branch_eq_seq`) -/
theorem kinematics_branch_body_writes_eq_seq (a : KinArgs ℝ) (w br : Int) (h : WF a br)
    (hwp : a.xpos_out w 0 = ⟨0, 0, 0⟩) (hwq : a.xquat_out w 0 = ⟨1, 0, 0, 0⟩)
    (hb : ∀ k, k < chainLen a br →
      BodyOK (bpAt a w (chainBody a br k)) (jointsOf a w (chainBody a br k)) (a.qpos_in w)) :
    kin a w br = (List.range (chainLen a br)).flatMap (fun i =>
      bodyWrites w (chainBody a br i) (a.body_jntadr (chainBody a br i)) (isFree a (chainBody a br i))
        (kinChain (fun k => bpAt a w (chainBody a br k)) (fun k => jointsOf a w (chainBody a br k))
          (a.qpos_in w) (a.qpos0 (Int.tmod w a.qpos0_shape0)) i)) := by
  rw [kin_eq_chainWrites a w br h.linked, chainWrites]
  apply List.flatMap_congr
  intro i hi
  have hi' : i < chainLen a br := List.mem_range.mp hi
  unfold chainBodyWrites chainOut
  rw [parentOf_root a w br h (by omega) hwp hwq, kinChainW_eq_spec _ _ _ _ i (fun k hk => hb k (by omega))]

/-- **`shared_ancestors_same_value`** (every scalar type — also float32 —, all inputs): two branch threads (of any
    two worlds) whose chains are well formed write the SAME value whenever they write the same cell of `xpos_out` or
    `xquat_out`: the cell `[w, b]` determines the root path of `b`, and the value depends only on that path.
    This is the "benign race" on shared ancestors that C11 needs for `smooth._kinematics_branch`. -/
theorem shared_ancestors_same_value {K : Type} [Scalar K] (a : KinArgs K) (w1 w2 br1 br2 : Int)
    (h1 : WF a br1) (h2 : WF a br2) (x y : Write K) (hx : x ∈ kin a w1 br1) (hy : y ∈ kin a w2 br2)
    (harr : x.arr = y.arr) (hpose : x.arr = "xpos_out" ∨ x.arr = "xquat_out") (hidx : x.idx = y.idx) :
    x = y := by
  rw [kin_eq_chainWrites a w1 br1 h1.linked] at hx
  rw [kin_eq_chainWrites a w2 br2 h2.linked] at hy
  obtain ⟨k1, hk1, hx1⟩ := chainWrites_pose a w1 br1 _ x hx hpose
  obtain ⟨k2, hk2, hy2⟩ := chainWrites_pose a w2 br2 _ y hy (harr ▸ hpose)
  have same : ∀ (hw : w1 = w2) (hc : chainBody a br1 k1 = chainBody a br2 k2),
      chainOut a w1 br1 k1 = chainOut a w2 br2 k2 := by
    intro hw hc
    subst hw
    obtain ⟨hk, hpre⟩ := chain_prefix a br1 br2 h1 h2 k1 k2 hk1 hk2 hc
    subst hk
    exact chainOut_congr a w1 br1 br2 k1 hpre
  rcases hx1 with rfl | rfl <;> rcases hy2 with rfl | rfl
  · have hh : w1 = w2 ∧ chainBody a br1 k1 = chainBody a br2 k2 := by simpa using hidx
    rw [same hh.1 hh.2, hh.1, hh.2]
  · exact absurd (show ("xpos_out" : String) = "xquat_out" from harr) (by decide)
  · exact absurd (show ("xquat_out" : String) = "xpos_out" from harr) (by decide)
  · have hh : w1 = w2 ∧ chainBody a br1 k1 = chainBody a br2 k2 := by simpa using hidx
    rw [same hh.1 hh.2, hh.1, hh.2]

/-- the same for the joint cells: two branch threads that write the same cell of `xanchor_out` / `xaxis_out`
    (the joints of a shared ancestor) write the same value, provided joint address ranges of different bodies do not
    overlap (`JntDisjoint`, a compiled-model invariant).  Every scalar type, all inputs. -/
theorem shared_ancestors_same_value_joints {K : Type} [Scalar K] (a : KinArgs K) (w1 w2 br1 br2 : Int)
    (h1 : WF a br1) (h2 : WF a br2) (hdis : JntDisjoint a) (x y : Write K) (hx : x ∈ kin a w1 br1)
    (hy : y ∈ kin a w2 br2) (harr : x.arr = y.arr) (hj : x.arr = "xanchor_out" ∨ x.arr = "xaxis_out")
    (hidx : x.idx = y.idx) : x = y := by
  rw [kin_eq_chainWrites a w1 br1 h1.linked] at hx
  rw [kin_eq_chainWrites a w2 br2 h2.linked] at hy
  obtain ⟨k1, hk1, r1, hr1, hx1⟩ := chainWrites_jnt a w1 br1 _ x hx hj
  obtain ⟨k2, hk2, r2, hr2, hy2⟩ := chainWrites_jnt a w2 br2 _ y hy (harr ▸ hj)
  have getElem_eq : ∀ (o1 o2 : BodyOut K) (e : o1 = o2) (s1 s2 : Nat) (es : s1 = s2) (g1 : s1 < o1.jnt.length)
      (g2 : s2 < o2.jnt.length), o1.jnt[s1] = o2.jnt[s2] := by
    intro o1 o2 e s1 s2 es g1 g2; subst e; subst es; rfl
  -- equal cells ⇒ same world, same body, same joint number, same chain prefix ⇒ same result
  have same : ∀ (hw : w1 = w2)
      (hc : a.body_jntadr (chainBody a br1 k1) + (r1 : Int) = a.body_jntadr (chainBody a br2 k2) + (r2 : Int)),
      chainBody a br1 k1 = chainBody a br2 k2 ∧ r1 = r2 ∧ (chainOut a w1 br1 k1).jnt[r1] = (chainOut a w2 br2 k2).jnt[r2] := by
    intro hw hc
    subst hw
    have hb : chainBody a br1 k1 = chainBody a br2 k2 :=
      hdis _ _ r1 r2 (by rw [← chainOut_jnt_length a w1]; exact hr1) (by rw [← chainOut_jnt_length a w1]; exact hr2) hc
    have hr : r1 = r2 := by rw [hb] at hc; omega
    obtain ⟨hk, hpre⟩ := chain_prefix a br1 br2 h1 h2 k1 k2 hk1 hk2 hb
    subst hk
    exact ⟨hb, hr, getElem_eq _ _ (chainOut_congr a w1 br1 br2 k1 hpre) _ _ hr _ _⟩
  rcases hx1 with rfl | rfl <;> rcases hy2 with rfl | rfl
  · have hh : w1 = w2 ∧ a.body_jntadr (chainBody a br1 k1) + (r1 : Int) = a.body_jntadr (chainBody a br2 k2) + (r2 : Int) := by
      simpa using hidx
    obtain ⟨hb, hr, hv⟩ := same hh.1 hh.2
    rw [hv, hh.1, hh.2]
  · exact absurd (show ("xanchor_out" : String) = "xaxis_out" from harr) (by decide)
  · exact absurd (show ("xaxis_out" : String) = "xanchor_out" from harr) (by decide)
  · have hh : w1 = w2 ∧ a.body_jntadr (chainBody a br1 k1) + (r1 : Int) = a.body_jntadr (chainBody a br2 k2) + (r2 : Int) := by
      simpa using hidx
    obtain ⟨hb, hr, hv⟩ := same hh.1 hh.2
    rw [hv, hh.1, hh.2]

/-- no thread writes the pose of the world body: `xpos[w, 0]`, `xquat[w, 0]` keep what `make_data` stored — the value
    the roots compose with (hypotheses `hwp`, `hwq` of `kinematics_branch_eq_seq`); MuJoCo re-sets it on every call -/
theorem world_pose_not_written {K : Type} [Scalar K] (a : KinArgs K) (w br : Int) (h : WF a br) (x : Write K)
    (hx : x ∈ kin a w br) (ha : x.arr = "xpos_out" ∨ x.arr = "xquat_out") (w' : Int) : x.idx ≠ [w', 0] := by
  rw [kin_eq_chainWrites a w br h.linked] at hx
  obtain ⟨k, hk, hxk⟩ := chainWrites_pose a w br _ x hx ha
  have hpos := h.pos k hk
  rcases hxk with rfl | rfl <;> simp <;> omega

/-! ## 3. unit quaternions, proper rotations -/

/-- (3) **every `xquat_out` value the kernel writes is a unit quaternion** — all inputs (zero / non-unit
    quaternions in qpos, body_quat, mocap_quat included), no hypothesis on the tree -/
theorem xquat_unit (a : KinArgs ℝ) (w br : Int) (x : Write ℝ) (hx : x ∈ kin a w br) (ha : x.arr = "xquat_out") :
    ∃ q : Q ℝ, x.val = WVal.v (Q.toList q) ∧ x.kind = WKind.set ∧ nrm2 q = 1 := by
  rw [kinematics_branch_unfold] at hx
  revert x
  apply Mjw.Lemmas.C01.forRange_inv
    (fun ws : List (Write ℝ) => ∀ x ∈ ws, x.arr = "xquat_out" →
      ∃ q : Q ℝ, x.val = WVal.v (Q.toList q) ∧ x.kind = WKind.set ∧ nrm2 q = 1)
  · intro x hx; cases hx
  · intro i ws _ _ ih x hx ha
    rw [bodyStepG_eq] at hx
    rcases List.mem_append.mp hx with hx | hx
    · exact ih x hx ha
    · rcases mem_bodyWrites_pose _ _ _ _ _ x hx (Or.inr ha) with rfl | rfl
      · exact absurd (show ("xpos_out" : String) = "xquat_out" from ha) (by decide)
      · exact ⟨_, rfl, rfl, kinBodyW_unit _ _ _ _ _⟩

/-- exact write list of `_compute_body_matrices`: `xmat[w, b] = quat_to_mat(xquat[w, b])` -/
theorem compute_body_matrices_spec {K : Type} [Scalar K] (xquat_in : Int → Int → Q K) (xmat_out : Int → Int → M33 K)
    (w b : Int) :
    Gen.Smooth._compute_body_matrices xquat_in xmat_out w b
      = [(Write.mk "xmat_out" [w, b] (WVal.v (M33.toList (quat_to_mat (xquat_in w b)))) WKind.set : Write K)] := rfl

/-- (3) hence `xmat` is a proper rotation (orthogonal, det 1) for every unit `xquat` (as `xquat_unit` guarantees),
    and it is MuJoCo's `mju_quat2Mat(xquat)` -/
theorem xmat_proper_rotation (xquat_in : Int → Int → Q ℝ) (xmat_out : Int → Int → M33 ℝ) (w b : Int)
    (hq : nrm2 (xquat_in w b) = 1) :
    ∃ R : M33 ℝ, Gen.Smooth._compute_body_matrices xquat_in xmat_out w b
        = [(Write.mk "xmat_out" [w, b] (WVal.v (M33.toList R)) WKind.set : Write ℝ)]
      ∧ R = quat2Mat (xquat_in w b)
      ∧ M33.mul (M33.transpose R) R = M33.identity ∧ M33.det R = 1 :=
  ⟨quat_to_mat (xquat_in w b), rfl, (quat2Mat_eq _).symm, quat_to_mat_orthogonal _ hq⟩


/-! ## 4. geoms, sites, inertial frames -/

/-- exact write list of `_geom_local_to_global`.  Guard: a geom whose body is welded to the world
    (`body_weldid == 0`) and does not descend from a mocap body (`body_mocapid[body_rootid] == -1`) is STATIC: the
    task returns before writing, so `geom_xpos` / `geom_xmat` keep the values `make_data` / `put_data` stored. -/
theorem geom_local_to_global_writes {K : Type} [Scalar K] (body_rootid body_weldid body_mocapid geom_bodyid : Int → Int)
    (geom_pos : Int → Int → V3 K) (geom_quat : Int → Int → Q K) (xpos_in : Int → Int → V3 K)
    (xquat_in : Int → Int → Q K) (geom_xpos_out : Int → Int → V3 K) (geom_xmat_out : Int → Int → M33 K)
    (sp sq w g : Int) :
    Gen.Smooth._geom_local_to_global body_rootid body_weldid body_mocapid geom_bodyid geom_pos geom_quat xpos_in
        xquat_in geom_xpos_out geom_xmat_out sp sq w g
      = if body_weldid (geom_bodyid g) = 0 ∧ body_mocapid (body_rootid (geom_bodyid g)) = -1 then []
        else
          [(Write.mk "geom_xpos_out" [w, g] (WVal.v (V3.toList (V3.add (xpos_in w (geom_bodyid g))
              (rot_vec_quat (geom_pos (Int.tmod w sp) g) (xquat_in w (geom_bodyid g)))))) WKind.set : Write K),
           (Write.mk "geom_xmat_out" [w, g] (WVal.v (M33.toList (quat_to_mat
              (mul_quat (xquat_in w (geom_bodyid g)) (geom_quat (Int.tmod w sq) g))))) WKind.set : Write K)] := by
  unfold Gen.Smooth._geom_local_to_global
  by_cases h1 : body_weldid (geom_bodyid g) = 0 <;> by_cases h2 : body_mocapid (body_rootid (geom_bodyid g)) = -1 <;>
    simp [h1, h2]

/-- exact write list of `_site_local_to_global` (no guard: every site is written) -/
theorem site_local_to_global_writes {K : Type} [Scalar K] (site_bodyid : Int → Int)
    (site_pos : Int → Int → V3 K) (site_quat : Int → Int → Q K) (xpos_in : Int → Int → V3 K)
    (xquat_in : Int → Int → Q K) (site_xpos_out : Int → Int → V3 K) (site_xmat_out : Int → Int → M33 K)
    (sp sq w s : Int) :
    Gen.Smooth._site_local_to_global site_bodyid site_pos site_quat xpos_in xquat_in site_xpos_out site_xmat_out
        sp sq w s
      = [(Write.mk "site_xpos_out" [w, s] (WVal.v (V3.toList (V3.add (xpos_in w (site_bodyid s))
            (rot_vec_quat (site_pos (Int.tmod w sp) s) (xquat_in w (site_bodyid s)))))) WKind.set : Write K),
         (Write.mk "site_xmat_out" [w, s] (WVal.v (M33.toList (quat_to_mat
            (mul_quat (xquat_in w (site_bodyid s)) (site_quat (Int.tmod w sq) s))))) WKind.set : Write K)] := rfl

/-- exact write list of `_compute_body_inertial_frames` (xipos, ximat) -/
theorem compute_body_inertial_frames_writes {K : Type} [Scalar K] (body_ipos : Int → Int → V3 K)
    (body_iquat : Int → Int → Q K) (xpos_in : Int → Int → V3 K) (xquat_in : Int → Int → Q K)
    (xipos_out : Int → Int → V3 K) (ximat_out : Int → Int → M33 K) (sp sq w b : Int) :
    Gen.Smooth._compute_body_inertial_frames body_ipos body_iquat xpos_in xquat_in xipos_out ximat_out sp sq w b
      = [(Write.mk "xipos_out" [w, b] (WVal.v (V3.toList (V3.add (xpos_in w b)
            (rot_vec_quat (body_ipos (Int.tmod w sp) b) (xquat_in w b))))) WKind.set : Write K),
         (Write.mk "ximat_out" [w, b] (WVal.v (M33.toList (quat_to_mat
            (mul_quat (xquat_in w b) (body_iquat (Int.tmod w sq) b))))) WKind.set : Write K)] := rfl

/-- the frame formula all three kernels use equals MuJoCo's `mj_local2Global` — for EVERY body pose (also non-unit
    quaternions: both sides use the same homogeneous-quadratic matrix) -/
theorem local_frame_eq_spec (xpos : V3 ℝ) (xquat : Q ℝ) (pos : V3 ℝ) (quat : Q ℝ) :
    (V3.add xpos (rot_vec_quat pos xquat), quat_to_mat (mul_quat xquat quat)) = local2Global ⟨xpos, xquat⟩ pos quat := by
  unfold local2Global
  rw [mat_mulVec_eq, quat2Mat_eq, mulQuat_eq]
  congr 1
  apply V3.ext' <;> simp only [V3.add, hadd] <;> ring

/-- `xipos`, `ximat` are MuJoCo's `mj_local2Global(xpos[b], xquat[b], body_ipos[b], body_iquat[b])` -/
theorem inertial_frames_spec (body_ipos : Int → Int → V3 ℝ) (body_iquat : Int → Int → Q ℝ)
    (xpos_in : Int → Int → V3 ℝ) (xquat_in : Int → Int → Q ℝ) (xipos_out : Int → Int → V3 ℝ)
    (ximat_out : Int → Int → M33 ℝ) (sp sq w b : Int) :
    Gen.Smooth._compute_body_inertial_frames body_ipos body_iquat xpos_in xquat_in xipos_out ximat_out sp sq w b
      = (let r := local2Global ⟨xpos_in w b, xquat_in w b⟩ (body_ipos (Int.tmod w sp) b) (body_iquat (Int.tmod w sq) b)
         [(Write.mk "xipos_out" [w, b] (WVal.v (V3.toList r.1)) WKind.set : Write ℝ),
          (Write.mk "ximat_out" [w, b] (WVal.v (M33.toList r.2)) WKind.set : Write ℝ)]) := by
  rw [compute_body_inertial_frames_writes]
  simp only [← local_frame_eq_spec]

/-- (4) **`geom_site_local_to_global_spec`**: a non-static geom and every site get exactly MuJoCo's
    `mj_local2Global(xpos[body], xquat[body], pos, quat)`; a static geom gets no write. -/
theorem geom_site_local_to_global_spec (body_rootid body_weldid body_mocapid geom_bodyid site_bodyid : Int → Int)
    (geom_pos site_pos : Int → Int → V3 ℝ) (geom_quat site_quat : Int → Int → Q ℝ) (xpos_in : Int → Int → V3 ℝ)
    (xquat_in : Int → Int → Q ℝ) (gx sx : Int → Int → V3 ℝ) (gm sm : Int → Int → M33 ℝ) (sp sq w g s : Int) :
    (Gen.Smooth._geom_local_to_global body_rootid body_weldid body_mocapid geom_bodyid geom_pos geom_quat xpos_in
        xquat_in gx gm sp sq w g
      = if body_weldid (geom_bodyid g) = 0 ∧ body_mocapid (body_rootid (geom_bodyid g)) = -1 then []
        else
          let r := local2Global ⟨xpos_in w (geom_bodyid g), xquat_in w (geom_bodyid g)⟩
                    (geom_pos (Int.tmod w sp) g) (geom_quat (Int.tmod w sq) g)
          [(Write.mk "geom_xpos_out" [w, g] (WVal.v (V3.toList r.1)) WKind.set : Write ℝ),
           (Write.mk "geom_xmat_out" [w, g] (WVal.v (M33.toList r.2)) WKind.set : Write ℝ)])
    ∧ (Gen.Smooth._site_local_to_global site_bodyid site_pos site_quat xpos_in xquat_in sx sm sp sq w s
      = let r := local2Global ⟨xpos_in w (site_bodyid s), xquat_in w (site_bodyid s)⟩
                    (site_pos (Int.tmod w sp) s) (site_quat (Int.tmod w sq) s)
        [(Write.mk "site_xpos_out" [w, s] (WVal.v (V3.toList r.1)) WKind.set : Write ℝ),
         (Write.mk "site_xmat_out" [w, s] (WVal.v (M33.toList r.2)) WKind.set : Write ℝ)]) := by
  constructor
  · rw [geom_local_to_global_writes]
    simp only [← local_frame_eq_spec]
  · rw [site_local_to_global_writes]
    simp only [← local_frame_eq_spec]

/-- a static geom's cells are not written at all, whatever `geom_pos` / `geom_quat` / the body pose are -/
theorem static_geom_not_written {K : Type} [Scalar K] (body_rootid body_weldid body_mocapid geom_bodyid : Int → Int)
    (geom_pos : Int → Int → V3 K) (geom_quat : Int → Int → Q K) (xpos_in : Int → Int → V3 K)
    (xquat_in : Int → Int → Q K) (gx : Int → Int → V3 K) (gm : Int → Int → M33 K) (sp sq w g : Int)
    (hw : body_weldid (geom_bodyid g) = 0) (hm : body_mocapid (body_rootid (geom_bodyid g)) = -1) :
    Gen.Smooth._geom_local_to_global body_rootid body_weldid body_mocapid geom_bodyid geom_pos geom_quat xpos_in
        xquat_in gx gm sp sq w g = [] := by
  rw [geom_local_to_global_writes, if_pos ⟨hw, hm⟩]


/-! ## 5. subtree centers of mass: the three kernels -/

/-- exact write list of `_subtree_com_init`: `subtree_com[w, b] = xipos[w, b] * body_mass[b]` -/
theorem subtree_com_init_writes {K : Type} [Scalar K] (body_mass : Int → Int → K) (xipos_in : Int → Int → V3 K)
    (subtree_com_out : Int → Int → V3 K) (sm w b : Int) :
    Gen.Smooth._subtree_com_init body_mass xipos_in subtree_com_out sm w b
      = [(Write.mk "subtree_com_out" [w, b]
            (WVal.v (V3.toList (V3.muls (xipos_in w b) (body_mass (Int.tmod w sm) b)))) WKind.set : Write K)] := rfl

/-- exact write list of `_subtree_com_acc` (one launch per tree level, deepest first; `body_tree_` lists the bodies
    of that level): an ATOMIC ADD of the child's current value into its parent's cell; the world (body 0) adds
    nothing.  Readers (level d) and writers (level d−1 cells) of one launch are disjoint. -/
theorem subtree_com_acc_writes {K : Type} [Scalar K] (body_parentid : Int → Int) (subtree_com_in : Int → Int → V3 K)
    (body_tree_ : Int → Int) (subtree_com_out : Int → Int → V3 K) (w n : Int) :
    Gen.Smooth._subtree_com_acc body_parentid subtree_com_in body_tree_ subtree_com_out w n
      = if body_tree_ n ≠ 0 then
          [(Write.mk "subtree_com_out" [w, body_parentid (body_tree_ n)]
              (WVal.v (V3.toList (subtree_com_in w (body_tree_ n)))) WKind.aadd : Write K)]
        else [] := by
  unfold Gen.Smooth._subtree_com_acc
  by_cases h : body_tree_ n = 0 <;> simp [h]

/-- exact write list of `_subtree_div`: divides by `body_subtreemass` iff it is `!= 0`; for a MASSLESS subtree
    (mass exactly 0) nothing is written, i.e. `subtree_com` keeps the accumulated raw sum Σ mass·xipos (= 0 when all
    masses are 0) — MuJoCo instead stores `xipos[b]` (and does so whenever subtreemass < mjMINVAL). -/
theorem subtree_div_writes (body_subtreemass : Int → Int → ℝ) (subtree_com_in subtree_com_out : Int → Int → V3 ℝ)
    (sm w b : Int) :
    Gen.Smooth._subtree_div body_subtreemass subtree_com_in subtree_com_out sm w b
      = if body_subtreemass (Int.tmod w sm) b ≠ 0 then
          [(Write.mk "subtree_com_out" [w, b]
              (WVal.v (V3.toList (V3.divs (subtree_com_in w b) (body_subtreemass (Int.tmod w sm) b)))) WKind.set : Write ℝ)]
        else [] := by
  unfold Gen.Smooth._subtree_div
  by_cases h : body_subtreemass (Int.tmod w sm) b = 0
  · simp [h, Scalar.bne, Scalar.beq]
  · have : Scalar.bne (body_subtreemass (Int.tmod w sm) b) (Scalar.lit 0 0 : ℝ) = true := by
      rw [sbne]; simpa using h
    simp [h, this]

/-- for a subtree mass that MuJoCo does not treat as massless (`mjMINVAL ≤ mass`), the written value is MuJoCo's
    `raw * (1 / max(mjMINVAL, mass))` -/
theorem subtree_div_eq_spec (body_subtreemass : Int → Int → ℝ) (subtree_com_in subtree_com_out : Int → Int → V3 ℝ)
    (xipos : V3 ℝ) (sm w b : Int) (hm : minval ≤ body_subtreemass (Int.tmod w sm) b) :
    Gen.Smooth._subtree_div body_subtreemass subtree_com_in subtree_com_out sm w b
      = [(Write.mk "subtree_com_out" [w, b]
            (WVal.v (V3.toList (subtreeComFinal (body_subtreemass (Int.tmod w sm) b) xipos (subtree_com_in w b))))
            WKind.set : Write ℝ)] := by
  have hpos : 0 < body_subtreemass (Int.tmod w sm) b := lt_of_lt_of_le minval_pos hm
  rw [subtree_div_writes, if_pos (ne_of_gt hpos)]
  unfold subtreeComFinal
  rw [mjMINVAL_eq]
  have h1 : Scalar.lt (body_subtreemass (Int.tmod w sm) b) minval = false :=
    Bool.eq_false_iff.mpr (fun hc => absurd ((slt _ _).mp hc) (not_lt.mpr hm))
  simp only [h1, smax, max_eq_right hm, Bool.false_eq_true, if_false]
  congr 4
  apply V3.ext' <;> simp only [V3.divs, V3.muls, hdiv, hmul, slit] <;> field_simp <;> norm_num

/-! ### level-by-level accumulation = MuJoCo's sequential backward pass -/

open Mjw.Lemmas.C01Tree in
/-- (5) **`subtree_com_level_eq_seq`**: on a tree given by `p i < i` (0 < i < n) with depths `d`, the host loop of
    `com_pos` — one `_subtree_com_acc` launch per level, deepest level first, the tasks of a launch in ANY order, each
    adding the value its body had at launch start to the parent's cell — leaves in `subtree_com` exactly what MuJoCo's
    sequential `for i = n-1 … 1: com[parent i] += com[i]` leaves.  `levels` enumerates the bodies `0 … n-1` once each;
    the bodies of one launch have equal depth; depth does not increase along the launch order.  (`levelAcc`,
    `launch`, `pushSnap` in `Lemmas/C01Tree.lean`; `subtree_com_acc_launch_effect` ties `launch` to the kernel.) -/
theorem subtree_com_level_eq_seq (p : Nat → Nat) (n : Nat) (hT : ∀ i, 0 < i → i < n → p i < i)
    (d : Nat → Nat) (hd : ∀ i, 0 < i → i < n → d i = d (p i) + 1)
    (levels : List (List Nat)) (hnd : levels.flatten.Nodup) (hmem : ∀ i, i ∈ levels.flatten ↔ i < n)
    (hsame : ∀ l ∈ levels, ∀ i ∈ l, ∀ j ∈ l, d i = d j)
    (hdeep : levels.flatten.Pairwise (fun x y => d y ≤ d x)) (c : Nat → V3 ℝ) :
    levelAcc V3.add p levels c = comBackward p n c := by
  rw [comBackward_eq_seqAcc]
  exact levelAcc_eq_seqAcc v3_add_comm v3_add_assoc p n hT d hd levels hnd hmem hsame hdeep c

open Mjw.Lemmas.C01Tree in
/-- the same over `Int` (any commutative semigroup works: the lemma is `Lemmas.C01Tree.levelAcc_eq_seqAcc`) -/
theorem level_acc_eq_seq_int (p : Nat → Nat) (n : Nat) (hT : ∀ i, 0 < i → i < n → p i < i)
    (d : Nat → Nat) (hd : ∀ i, 0 < i → i < n → d i = d (p i) + 1)
    (levels : List (List Nat)) (hnd : levels.flatten.Nodup) (hmem : ∀ i, i ∈ levels.flatten ↔ i < n)
    (hsame : ∀ l ∈ levels, ∀ i ∈ l, ∀ j ∈ l, d i = d j)
    (hdeep : levels.flatten.Pairwise (fun x y => d y ≤ d x)) (c : Nat → Int) :
    levelAcc (· + ·) p levels c = seqAcc (· + ·) p n c :=
  levelAcc_eq_seqAcc Int.add_comm Int.add_assoc p n hT d hd levels hnd hmem hsame hdeep c

/-- effect of one write of a `_subtree_com_acc` launch on row `w` of `subtree_com` (as a function of the body id):
    an atomic add to cell `[w, k]` adds the vector; anything else leaves the row alone -/
noncomputable def applyAcc (w : Int) (c : Nat → V3 ℝ) (x : Write ℝ) : Nat → V3 ℝ :=
  match x.idx, x.val with
  | [w', k], WVal.v l =>
    if w' = w ∧ x.kind = WKind.aadd ∧ x.arr = "subtree_com_out" then
      fun j => if (j : Int) = k then V3.add (c j) (V3.ofList l) else c j
    else c
  | _, _ => c

open Mjw.Lemmas.C01Tree in
/-- the writes of the tasks `nodes` (in any execution order) of one `_subtree_com_acc` launch act on row `w` exactly
    as the abstract `pushSnap` fold over the bodies `body_tree_[nodes]`, `pre` being the pre-launch row the
    tasks read -/
theorem subtree_com_acc_launch_effect (body_parentid : Int → Int) (subtree_com_in subtree_com_out : Int → Int → V3 ℝ)
    (body_tree_ : Int → Int) (w : Int) (p t : Nat → Nat) (nodes : List Nat)
    (hp : ∀ i : Nat, body_parentid (i : Int) = ((p i : Nat) : Int))
    (ht : ∀ nd : Nat, body_tree_ (nd : Int) = ((t nd : Nat) : Int)) (c : Nat → V3 ℝ) :
    (nodes.flatMap (fun (nd : Nat) => Gen.Smooth._subtree_com_acc body_parentid subtree_com_in body_tree_
        subtree_com_out w (Int.ofNat nd))).foldl (applyAcc w) c
      = (nodes.map t).foldl (pushSnap V3.add p (fun i => subtree_com_in w (i : Int))) c := by
  induction nodes generalizing c with
  | nil => rfl
  | cons nd nodes ih =>
    simp only [List.flatMap_cons, List.foldl_append, List.map_cons, List.foldl_cons]
    rw [← ih]
    congr 1
    have htn : body_tree_ (Int.ofNat nd) = ((t nd : Nat) : Int) := ht nd
    rw [subtree_com_acc_writes, htn]
    by_cases h0 : t nd = 0
    · simp [h0, pushSnap]
    · have h0' : ((t nd : Nat) : Int) ≠ 0 := by omega
      rw [if_pos h0', hp]
      simp only [List.foldl_cons, List.foldl_nil, applyAcc, pushSnap, h0, if_false, true_and, and_self, if_true,
        V3_ofList_toList]
      funext j
      have : ((j : Int) = ((p (t nd) : Nat) : Int)) ↔ j = p (t nd) := by omega
      simp only [this]

/-- massless subtree: `_subtree_div` writes nothing when `body_subtreemass == 0`, so `subtree_com[w, b]` keeps the
    raw accumulated sum, whereas MuJoCo's final value is `xipos[b]` -/
theorem subtree_div_massless (body_subtreemass : Int → Int → ℝ) (subtree_com_in subtree_com_out : Int → Int → V3 ℝ)
    (xipos raw : V3 ℝ) (sm w b : Int) (h0 : body_subtreemass (Int.tmod w sm) b = 0) :
    Gen.Smooth._subtree_div body_subtreemass subtree_com_in subtree_com_out sm w b = []
    ∧ subtreeComFinal (body_subtreemass (Int.tmod w sm) b) xipos raw = xipos := by
  constructor
  · rw [subtree_div_writes, if_neg (by simpa using h0)]
  · unfold subtreeComFinal
    rw [h0, mjMINVAL_eq]
    have : Scalar.lt (0 : ℝ) minval = true := (slt _ _).mpr minval_pos
    simp [this]

/-! ## 6. cinert and cdof -/

/-- the writes of one joint's motion dofs: dof `jnt_dofadr + k` for each `(k, value)` -/
def cdofWrites {K : Type} (w dofadr : Int) (l : List (Int × V6 K)) : List (Write K) :=
  l.map (fun p => (Write.mk "cdof_out" [w, dofadr + p.1] (WVal.v (V6.toList p.2)) WKind.set : Write K))

/-- (6) exact write list of `_cdof` = MuJoCo's `mj_comPos` joint loop (`mju_dofCom`), for every scalar type:
    FREE: 3 unit translations + 3 rotations about the COLUMNS of `xmat` through the anchor; BALL: the 3 rotations;
    SLIDE: `(0, xaxis)`; HINGE: `(xaxis, xaxis × offset)`, `offset = subtree_com[root] − xanchor`.
    Any other joint type: nothing. -/
theorem cdof_spec {K : Type} [Scalar K] (body_rootid jnt_type jnt_dofadr jnt_bodyid : Int → Int)
    (xmat_in : Int → Int → M33 K) (xanchor_in xaxis_in subtree_com_in : Int → Int → V3 K)
    (cdof_out : Int → Int → V6 K) (w j : Int) :
    Gen.Smooth._cdof body_rootid jnt_type jnt_dofadr jnt_bodyid xmat_in xanchor_in xaxis_in subtree_com_in cdof_out w j
      = cdofWrites w (jnt_dofadr j)
          (cdofJoint (jnt_type j) (xmat_in w (jnt_bodyid j)) (xaxis_in w j)
            (V3.sub (subtree_com_in w (body_rootid (jnt_bodyid j))) (xanchor_in w j))) := by
  unfold Gen.Smooth._cdof cdofWrites cdofJoint
  simp only [jFREE, jBALL, jSLIDE, jHINGE, decide_eq_true_eq]
  by_cases h0 : jnt_type j = 0
  · simp [h0, dofCom, matCol, M33.row, M33.col, M33.transpose]
  · by_cases h1 : jnt_type j = 1
    · simp [h1, dofCom, matCol, M33.row, M33.col, M33.transpose]
    · by_cases h2 : jnt_type j = 2
      · simp [h2, dofCom, V3.fill]
      · by_cases h3 : jnt_type j = 3
        · simp [h3, dofCom]
        · simp [h0, h1, h2, h3]

/-- (6) exact write list of `_cinert` = MuJoCo's `mju_inertCom(body_inertia, ximat, xipos − subtree_com[root], mass)` -/
theorem cinert_spec (body_rootid : Int → Int) (body_mass : Int → Int → ℝ) (body_inertia : Int → Int → V3 ℝ)
    (xipos_in : Int → Int → V3 ℝ) (ximat_in : Int → Int → M33 ℝ) (subtree_com_in : Int → Int → V3 ℝ)
    (cinert_out : Int → Int → V10 ℝ) (si sm w b : Int) :
    Gen.Smooth._cinert body_rootid body_mass body_inertia xipos_in ximat_in subtree_com_in cinert_out si sm w b
      = [(Write.mk "cinert_out" [w, b]
            (WVal.v (V10.toList (inertCom (body_inertia (Int.tmod w si) b) (ximat_in w b)
              (V3.sub (xipos_in w b) (subtree_com_in w (body_rootid b))) (body_mass (Int.tmod w sm) b))))
            WKind.set : Write ℝ)] := by
  unfold Gen.Smooth._cinert
  refine congrArg (fun r => [(Write.mk "cinert_out" [w, b] (WVal.v (V10.toList r)) WKind.set : Write ℝ)]) ?_
  apply V10.ext' <;>
    simp only [inertCom, V10.zero, V10.fill, M33.mul, M33.diag, M33.transpose, V3.sub, hadd, hsub, hmul, slit] <;>
    ring

/-- (6) **`cinert_cdof_spec`** -/
theorem cinert_cdof_spec (body_rootid jnt_type jnt_dofadr jnt_bodyid : Int → Int) (body_mass : Int → Int → ℝ)
    (body_inertia : Int → Int → V3 ℝ) (xipos_in : Int → Int → V3 ℝ) (ximat_in xmat_in : Int → Int → M33 ℝ)
    (xanchor_in xaxis_in subtree_com_in : Int → Int → V3 ℝ) (cinert_out : Int → Int → V10 ℝ)
    (cdof_out : Int → Int → V6 ℝ) (si sm w b j : Int) :
    Gen.Smooth._cinert body_rootid body_mass body_inertia xipos_in ximat_in subtree_com_in cinert_out si sm w b
      = [(Write.mk "cinert_out" [w, b]
            (WVal.v (V10.toList (inertCom (body_inertia (Int.tmod w si) b) (ximat_in w b)
              (V3.sub (xipos_in w b) (subtree_com_in w (body_rootid b))) (body_mass (Int.tmod w sm) b))))
            WKind.set : Write ℝ)]
    ∧ Gen.Smooth._cdof body_rootid jnt_type jnt_dofadr jnt_bodyid xmat_in xanchor_in xaxis_in subtree_com_in cdof_out w j
      = cdofWrites w (jnt_dofadr j)
          (cdofJoint (jnt_type j) (xmat_in w (jnt_bodyid j)) (xaxis_in w j)
            (V3.sub (subtree_com_in w (body_rootid (jnt_bodyid j))) (xanchor_in w j))) :=
  ⟨cinert_spec _ _ _ _ _ _ _ _ _ _ _, cdof_spec _ _ _ _ _ _ _ _ _ _ _⟩


/-! ## non-vacuity: a concrete two-body chain (free-floating body 1 with a hinged child 2) meets every hypothesis -/

/-- the example's joint ranges are disjoint (`JntDisjoint`, hypothesis of `shared_ancestors_same_value_joints`) -/
example : JntDisjoint exArgs := by
  intro b1 b2 r1 r2 h1 h2 h
  simp [exArgs] at h1 h2 h
  omega

/-- `kinematics_branch_eq_seq` applies to the example (both bodies) -/
example (i : Nat) (hi : i < chainLen exArgs 0) :
    final (kin exArgs 0 0) "xquat_out" [0, chainBody exArgs 0 i]
      = some (WVal.v (Q.toList (kinChain (fun k => bpAt exArgs 0 (chainBody exArgs 0 k))
          (fun k => jointsOf exArgs 0 (chainBody exArgs 0 k)) (exArgs.qpos_in 0)
          (exArgs.qpos0 (Int.tmod 0 exArgs.qpos0_shape0)) i).pose.quat), WKind.set) :=
  (kinematics_branch_eq_seq exArgs 0 0 exArgs_wf rfl rfl exArgs_bodyOK i hi).2

/-- the hypotheses of `subtree_com_level_eq_seq` are met by the 4-body tree 0 ← 1 ← {2, 3} with launch order
    `[[3, 2], [1], [0]]` (deepest level first, level 2 in reversed task order) -/
example (c : Nat → V3 ℝ) :
    Mjw.Lemmas.C01Tree.levelAcc V3.add (fun i => if i = 1 then 0 else if i = 0 then 0 else 1) [[3, 2], [1], [0]] c
      = comBackward (fun i => if i = 1 then 0 else if i = 0 then 0 else 1) 4 c := by
  apply subtree_com_level_eq_seq _ 4 _ (fun i => if i = 0 then 0 else if i = 1 then 1 else 2)
  · intro i h0 hi
    rcases (by omega : i = 1 ∨ i = 2 ∨ i = 3) with rfl | rfl | rfl <;> simp
  · decide
  · intro i; simp; omega
  · intro l hl i hi j hj
    simp only [List.mem_cons, List.mem_nil_iff, or_false] at hl
    rcases hl with rfl | rfl | rfl <;> simp only [List.mem_cons, List.mem_nil_iff, or_false] at hi hj <;>
      rcases hi with rfl | rfl <;> rcases hj with rfl | rfl <;> rfl
  · decide
  · intro i h0 hi
    rcases (by omega : i = 1 ∨ i = 2 ∨ i = 3) with rfl | rfl | rfl <;> simp

end Mjw.Props.C01
