/-
  C30  Delayed controls and sensors read the right past sample.

  Code: /repo/mujoco_warp/_src/history.py, translated (regenerated on every run) to `Mjw.Gen.History`.
  Spec: `MjwVerif/Model/History.lean` (`Mjw.Hist`): the LOGICAL view `logical buf w off n` of a circular
  buffer (list of `(time, value)`, oldest first), `Spec.insert`, `Spec.read`, `applyWrites`.
  Helpers: `MjwVerif/Lemmas/C30.lean`.  Everything below is at `K = ℝ`.

  Buffer `(w, off, n)` = row `w` of `d.history`, cells `off` (user), `off+1` (cursor), `off+2+p` (times),
  `off+2+n+p` (values), `p = 0..n-1`.
  `Inv buf w off n` : `1 ≤ n`, `0 ≤ cursor < n`, logical times strictly increasing.
  `ins buf w off n t v fuel` = `buf` after applying the write list of `_history_insert_scalar` (`Hist.step`).

  Hypotheses that appear everywhere and what they mean:
  * `hn32 : n ≤ 2^30`  -- the binary search computes `(lo + hi) >> 1` in int32; beyond 2^30 samples it wraps.
  * `hfuel : n - 1 ≤ 2^fuel` -- fuel of the translated `while` loop; `fuel ≥ n` suffices (`fuel_of_ge`), and
    the result does not depend on the fuel (`find_index_terminates`), i.e. the loop really terminates.

  What is proved
   1. `physical_index_spec`, `physical_index_bijective`
   2. `find_index_correct`, `find_index_least`, `find_index_terminates`, `find_index_refines`
   3. `insert_refines` (all four cases at once) + the four cases separately on the logical functions,
      (`insert_exact_match`, `insert_older_than_oldest`, `insert_newer_than_newest`, `insert_out_of_order`),
      `insert_preserves_inv` (EVERY insertion, not only `t > newest`), `insert_frame`,
      `insert_advances_cursor_wraps`, `insert_newest_logical` (wrap-around), `insert_seq_logical`
   4. `read_refines` for ALL interpolation modes (ZOH, linear, cubic Catmull-Rom), and what it means:
      `read_before_oldest`, `read_after_newest`, `read_zoh_holds`, `read_linear_interpolates`
   5. `delayed_ctrl_is_past_sample` (function level) and `delayed_ctrl_kernel` (kernels
      `_insert_ctrl_history_kernel` / `_read_ctrl_delayed_kernel`, one actuator)
   6. is in `Props/C30Witness.lean` (the all-zero buffer of `make_data`/`reset_data` violates `Inv` and a
      delayed read from it differs from MuJoCo's).
   Vector variants: at `dim = 1` the vector functions ARE the scalar ones (`read_vector_dim1_is_scalar`,
   `insert_vector_dim1_is_scalar`); `dim > 1` is `vector_general_partial` (statement in the comment there).

  Findings recorded here rather than hidden:
  * ZOH with the `1e-6` windows is not exactly "latest sample with time ≤ t": for `t` within `1e-6` BELOW
    `time_i` the code already returns sample `i` (`read_zoh_early_switch`).  Harmless when `dt ≫ 1e-6`.
  * The end-to-end statement needs `1e-6 < dt`; for `dt ≤ 1e-6` consecutive samples merge (exact-match
    window) and the statement is false of the code.
  * `Inv` is NOT established by `make_data`/`reset_data` (all-zero history) nor by
    `init_ctrl_history(times=None)` (all times `-1e10`): see `Props/C30Witness.lean`.
-/
import MjwVerif.Lemmas.Real
import MjwVerif.Lemmas.C30
import MjwVerif.Gen.History

namespace Mjw.Props.C30
open Mjw Mjw.Hist Mjw.Lemmas.C30

/-! ## 1. physical index -/

/-- (1) for `0 ≤ cursor < n`, `0 ≤ logical < n` the generated index function is `(cursor+1+logical) mod n`
    and lands in `[0, n)` -/
theorem physical_index_spec {K : Type} [Scalar K] (cursor n logical : Int) (hc0 : 0 ≤ cursor) (hc : cursor < n)
    (hl0 : 0 ≤ logical) (hl : logical < n) :
    Gen.History._history_physical_index (K := K) cursor n logical = (cursor + 1 + logical) % n
    ∧ 0 ≤ Gen.History._history_physical_index (K := K) cursor n logical
    ∧ Gen.History._history_physical_index (K := K) cursor n logical < n := by
  rw [gphys_eq cursor n logical hc0 hl0]
  exact ⟨rfl, phys_range cursor n logical hc0 hc hl0 hl⟩

/-- (1') it is a bijection of `[0, n)` (a rotation): injective and onto -/
theorem physical_index_bijective {K : Type} [Scalar K] (cursor n : Int) (hc0 : 0 ≤ cursor) (hc : cursor < n) :
    (∀ l l', 0 ≤ l → l < n → 0 ≤ l' → l' < n →
      Gen.History._history_physical_index (K := K) cursor n l
        = Gen.History._history_physical_index (K := K) cursor n l' → l = l')
    ∧ (∀ p, 0 ≤ p → p < n → ∃ l, 0 ≤ l ∧ l < n ∧ Gen.History._history_physical_index (K := K) cursor n l = p) := by
  constructor
  · intro l l' h0 h1 h0' h1' h
    rw [gphys_eq cursor n l hc0 h0, gphys_eq cursor n l' hc0 h0'] at h
    exact phys_inj cursor n l l' hc0 hc h0 h1 h0' h1' h
  · intro p h0 h1
    obtain ⟨l, a, b, c⟩ := phys_surj cursor n p hc0 hc h0 h1
    exact ⟨l, a, b, by rw [gphys_eq cursor n l hc0 a]; exact c⟩

/-- the newest sample (logical `n-1`) sits at the cursor, the oldest right after it -/
theorem physical_index_newest_oldest {K : Type} [Scalar K] (cursor n : Int) (hc0 : 0 ≤ cursor) (hc : cursor < n) :
    Gen.History._history_physical_index (K := K) cursor n (n - 1) = cursor
    ∧ Gen.History._history_physical_index (K := K) cursor n 0 = (cursor + 1) % n := by
  rw [gphys_eq cursor n _ hc0 (by omega), gphys_eq cursor n 0 hc0 (le_refl _)]
  exact ⟨phys_newest cursor n hc0 hc, (advance_cursor cursor n hc0 hc).1.symm⟩

/-! ## 2. binary search -/

variable {buf : Int → Int → ℝ} {w off n : Int} {t v : ℝ} {fuel : Nat}

/-- `fuel ≥ n` is enough fuel -/
theorem fuel_of_ge (n : Int) (fuel : Nat) (h : n ≤ fuel) : n - 1 ≤ 2 ^ fuel := by
  have : (fuel : Int) < 2 ^ fuel := by exact_mod_cast Nat.lt_two_pow_self
  omega

/-- (2) on an `Inv` buffer `_history_find_index` returns `i ∈ [0, n]` with
    `time_j < t` for all `j < i` and `t ≤ time_j` for all `j ≥ i` -/
theorem find_index_correct (hI : Inv buf w off n) (hn32 : n ≤ 2 ^ 30) (hfuel : n - 1 ≤ 2 ^ fuel) :
    0 ≤ Gen.History._history_find_index buf w off n (cursorOf buf w off) t fuel
    ∧ Gen.History._history_find_index buf w off n (cursorOf buf w off) t fuel ≤ n
    ∧ (∀ j, 0 ≤ j → j < Gen.History._history_find_index buf w off n (cursorOf buf w off) t fuel →
        ltime buf w off n j < t)
    ∧ (∀ j, Gen.History._history_find_index buf w off n (cursorOf buf w off) t fuel ≤ j → j < n →
        t ≤ ltime buf w off n j) :=
  find_index_spec buf w off n t fuel hI hn32 hfuel

/-- (2') i.e. it is the LEAST logical index `i` with `t ≤ time_i`, and `n` if there is none -/
theorem find_index_least (hI : Inv buf w off n) (hn32 : n ≤ 2 ^ 30) (hfuel : n - 1 ≤ 2 ^ fuel) (i : Int)
    (hi : Gen.History._history_find_index buf w off n (cursorOf buf w off) t fuel = i) :
    (i = n ∨ (0 ≤ i ∧ i < n ∧ t ≤ ltime buf w off n i))
    ∧ ∀ j, 0 ≤ j → j < i → ¬ t ≤ ltime buf w off n j := by
  obtain ⟨f0, fn, flt, fge⟩ := find_index_spec buf w off n t fuel hI hn32 hfuel
  rw [hi] at f0 fn flt fge
  refine ⟨?_, fun j a b => not_le.mpr (flt j a b)⟩
  rcases Int.lt_or_eq_of_le fn with h | h
  · exact Or.inr ⟨f0, h, fge i (le_refl _) h⟩
  · exact Or.inl h

/-- (2'') the `while` loop terminates within the fuel: any two sufficient fuels give the same result, which is
    the unique index determined by `find_index_correct` -/
theorem find_index_terminates (hI : Inv buf w off n) (hn32 : n ≤ 2 ^ 30) (fuel fuel' : Nat)
    (hfuel : n - 1 ≤ 2 ^ fuel) (hfuel' : n - 1 ≤ 2 ^ fuel') :
    Gen.History._history_find_index buf w off n (cursorOf buf w off) t fuel
      = Gen.History._history_find_index buf w off n (cursorOf buf w off) t fuel' := by
  obtain ⟨f0, fn, flt, fge⟩ := find_index_spec buf w off n t fuel' hI hn32 hfuel'
  exact find_index_eq hI hn32 hfuel _ f0 fn (fun h => flt _ (by omega) (by omega)) (fun h => fge _ (le_refl _) h)

/-- (2''') it is `Spec.findIdx` of the logical view -/
theorem find_index_refines (hI : Inv buf w off n) (hn32 : n ≤ 2 ^ 30) (hfuel : n - 1 ≤ 2 ^ fuel) :
    Gen.History._history_find_index buf w off n (cursorOf buf w off) t fuel
      = (Spec.findIdx (logical buf w off n) t : Int) :=
  (findIdx_logical hI hn32 hfuel).symm

/-! ## 3. insert -/

/-- (3) **insert_refines**: applying the write list of `_history_insert_scalar` to an `Inv` buffer yields a
    buffer whose logical view is `Spec.insert (logical b) t v` — in each of the four cases. -/
theorem insert_refines (hI : Inv buf w off n) (hn32 : n ≤ 2 ^ 30) (hfuel : n - 1 ≤ 2 ^ fuel) :
    logical (step (fun b => Gen.History._history_insert_scalar w off n t v b fuel) buf) w off n
      = Spec.insert (logical buf w off n) t v :=
  insert_refines_list hI hn32 hfuel

/-- (3a) `Inv` is preserved by EVERY insertion (whatever the time stamp) -/
theorem insert_preserves_inv (hI : Inv buf w off n) (hn32 : n ≤ 2 ^ 30) (hfuel : n - 1 ≤ 2 ^ fuel) :
    Inv (step (fun b => Gen.History._history_insert_scalar w off n t v b fuel) buf) w off n :=
  insert_inv hI hn32 hfuel

/-- (3b) frame: other rows, the user slot `off`, and all cells outside `[off+1, off+2+2n)` are untouched
    (so buffers of different actuators/sensors in one row do not interfere) -/
theorem insert_frame (hI : Inv buf w off n) (hn32 : n ≤ 2 ^ 30) (hfuel : n - 1 ≤ 2 ^ fuel) (w' x : Int)
    (h : w' ≠ w ∨ x < off + 1 ∨ off + 2 + 2 * n ≤ x) :
    step (fun b => Gen.History._history_insert_scalar w off n t v b fuel) buf w' x = buf w' x :=
  (insert_post (v := v) hI hn32 hfuel _ rfl).2.2 w' x h

/-- (3c) case "exact match" (`i < n`, `|t - time_i| < 1e-6`): only the VALUE of sample `i` changes -/
theorem insert_exact_match (hI : Inv buf w off n) (hn32 : n ≤ 2 ^ 30) (hfuel : n - 1 ≤ 2 ^ fuel) (i : Int)
    (hi : Gen.History._history_find_index buf w off n (cursorOf buf w off) t fuel = i) (hin : i < n)
    (hex : |t - ltime buf w off n i| < (eps : ℝ)) (l : Int) (h0 : 0 ≤ l) (h1 : l < n) :
    cursorOf (ins buf w off n t v fuel) w off = cursorOf buf w off
    ∧ ltime (ins buf w off n t v fuel) w off n l = ltime buf w off n l
    ∧ lval (ins buf w off n t v fuel) w off n l = if l = i then v else lval buf w off n l := by
  have f0 := (find_index_spec buf w off n t fuel hI hn32 hfuel).1
  rw [hi] at f0
  obtain ⟨p1, p2, -⟩ := post_exact (v := v) hI i hi f0 hin hex
  exact ⟨p1, p2 l h0 h1⟩

/-- (3d) case "older than the oldest" (`i = 0`, no exact match): the code REPLACES the oldest sample -/
theorem insert_older_than_oldest (hI : Inv buf w off n)
    (hi : Gen.History._history_find_index buf w off n (cursorOf buf w off) t fuel = 0)
    (hex : ¬ |t - ltime buf w off n 0| < (eps : ℝ)) (l : Int) (h0 : 0 ≤ l) (h1 : l < n) :
    cursorOf (ins buf w off n t v fuel) w off = cursorOf buf w off
    ∧ ltime (ins buf w off n t v fuel) w off n l = (if l = 0 then t else ltime buf w off n l)
    ∧ lval (ins buf w off n t v fuel) w off n l = if l = 0 then v else lval buf w off n l := by
  obtain ⟨p1, p2, -⟩ := post_oldest (v := v) hI hi hex
  exact ⟨p1, p2 l h0 h1⟩

/-- (3e) case "newer than the newest" (`i = n`; the normal per-step case): the cursor advances by one
    MODULO `n` (wrap-around), every sample moves down one logical place, the oldest is evicted, the new
    sample becomes the newest -/
theorem insert_newer_than_newest (hI : Inv buf w off n) (hn32 : n ≤ 2 ^ 30) (hfuel : n - 1 ≤ 2 ^ fuel)
    (ht : ltime buf w off n (n - 1) < t) (l : Int) (h0 : 0 ≤ l) (h1 : l < n) :
    cursorOf (ins buf w off n t v fuel) w off = (cursorOf buf w off + 1) % n
    ∧ ltime (ins buf w off n t v fuel) w off n l = (if l < n - 1 then ltime buf w off n (l + 1) else t)
    ∧ lval (ins buf w off n t v fuel) w off n l = if l < n - 1 then lval buf w off n (l + 1) else v := by
  have hn := hI.npos
  have hfi : Gen.History._history_find_index buf w off n (cursorOf buf w off) t fuel = n :=
    find_index_eq hI hn32 hfuel n (by omega) (le_refl _) (fun _ => ht) (fun h => absurd h (lt_irrefl _))
  obtain ⟨p1, p2, -⟩ := post_advance (v := v) hI hfi
  exact ⟨p1, p2 l h0 h1⟩

/-- (3e') wrap-around made explicit: from `cursor = n-1` the cursor goes to `0` -/
theorem insert_advances_cursor_wraps (hI : Inv buf w off n) (hn32 : n ≤ 2 ^ 30) (hfuel : n - 1 ≤ 2 ^ fuel)
    (ht : ltime buf w off n (n - 1) < t) (hc : cursorOf buf w off = n - 1) :
    cursorOf (ins buf w off n t v fuel) w off = 0 := by
  have hn := hI.npos
  rw [(insert_newer_than_newest (v := v) hI hn32 hfuel ht 0 (le_refl _) (by omega)).1, hc]
  simp

/-- (3e'') the same on the logical list -/
theorem insert_newest_logical (hI : Inv buf w off n) (hn32 : n ≤ 2 ^ 30) (hfuel : n - 1 ≤ 2 ^ fuel)
    (ht : ltime buf w off n (n - 1) < t) :
    logical (ins buf w off n t v fuel) w off n = (logical buf w off n).drop 1 ++ [(t, v)] :=
  (insert_newest hI hn32 hfuel ht).1

/-- (3f) case "out of order" (`0 < i < n`, no exact match): the oldest sample is evicted, samples
    `1..i-1` move down, the new sample becomes logical `i-1` -/
theorem insert_out_of_order (hI : Inv buf w off n) (i : Int)
    (hi : Gen.History._history_find_index buf w off n (cursorOf buf w off) t fuel = i) (hi1 : 1 ≤ i)
    (hin : i < n) (hex : ¬ |t - ltime buf w off n i| < (eps : ℝ)) (l : Int) (h0 : 0 ≤ l) (h1 : l < n) :
    cursorOf (ins buf w off n t v fuel) w off = cursorOf buf w off
    ∧ ltime (ins buf w off n t v fuel) w off n l
        = (if l < i - 1 then ltime buf w off n (l + 1) else if l = i - 1 then t else ltime buf w off n l)
    ∧ lval (ins buf w off n t v fuel) w off n l
        = if l < i - 1 then lval buf w off n (l + 1) else if l = i - 1 then v else lval buf w off n l := by
  obtain ⟨p1, p2, -⟩ := post_middle (v := v) hI i hi hi1 hin hex
  exact ⟨p1, p2 l h0 h1⟩

/-- (3g) **insert_seq_logical**: after inserting samples with strictly increasing times, all later than the
    newest sample of an `Inv` buffer (the per-step case `t_k = k·dt`), for ANY number of insertions (so the
    cursor wraps arbitrarily often), the buffer satisfies `Inv` and its logical view is the last `n` of
    `old samples ++ new samples`. -/
theorem insert_seq_logical (hI : Inv buf w off n) (hn32 : n ≤ 2 ^ 30) (hfuel : n - 1 ≤ 2 ^ fuel)
    (ss : List (ℝ × ℝ)) (hA : Ascending (ltime buf w off n (n - 1)) ss) :
    Inv (insMany w off n fuel buf ss) w off n
    ∧ logical (insMany w off n fuel buf ss) w off n = (logical buf w off n ++ ss).drop ss.length :=
  insert_seq hn32 hfuel ss buf hI hA

/-- (3h) ANY sequence of insertions (arbitrary time stamps: out of order, duplicates, older than the oldest)
    refines `Spec.insertMany`, and `Inv` holds afterwards -/
theorem insert_many_refines (hn32 : n ≤ 2 ^ 30) (hfuel : n - 1 ≤ 2 ^ fuel) (ss : List (ℝ × ℝ)) :
    ∀ buf : Int → Int → ℝ, Inv buf w off n →
      Inv (insMany w off n fuel buf ss) w off n
      ∧ logical (insMany w off n fuel buf ss) w off n = Spec.insertMany (logical buf w off n) ss := by
  induction ss with
  | nil => intro buf hI; exact ⟨hI, rfl⟩
  | cons s r ih =>
    intro buf hI
    obtain ⟨i1, i2⟩ := ih _ (insert_inv (t := s.1) (v := s.2) hI hn32 hfuel)
    refine ⟨i1, ?_⟩
    show logical (insMany w off n fuel (ins buf w off n s.1 s.2 fuel) r) w off n = _
    rw [i2, insert_refines_list hI hn32 hfuel]
    rfl

/-- (3g') the logical view always has exactly `n` entries -/
theorem logical_has_length (buf : Int → Int → ℝ) (w off n : Int) :
    (logical buf w off n).length = n.toNat := logical_length _ _ _ _

/-! ## 4. read -/

/-- (4) **read_refines**: `_history_read_scalar` on an `Inv` buffer is `Spec.read` of the logical view, for
    every interpolation mode (0 = ZOH, 1 = linear, otherwise cubic Catmull-Rom) -/
theorem read_refines (hI : Inv buf w off n) (hn32 : n ≤ 2 ^ 30) (hfuel : n - 1 ≤ 2 ^ fuel) (interp : Int) :
    Gen.History._history_read_scalar buf w off n t interp fuel = Spec.read (logical buf w off n) t interp :=
  read_refines_list hI hn32 hfuel interp

/-- (4a) `t` before (or within `1e-6` after) the oldest sample: the oldest value, any mode -/
theorem read_before_oldest (hI : Inv buf w off n) (hn32 : n ≤ 2 ^ 30) (hfuel : n - 1 ≤ 2 ^ fuel) (interp : Int)
    (h : t ≤ ltime buf w off n 0 + (eps : ℝ)) :
    Gen.History._history_read_scalar buf w off n t interp fuel = lval buf w off n 0 :=
  read_before hI hn32 hfuel interp h

/-- (4b) `t` after (or within `1e-6` before) the newest sample: the newest value, any mode -/
theorem read_after_newest (hI : Inv buf w off n) (hn32 : n ≤ 2 ^ 30) (hfuel : n - 1 ≤ 2 ^ fuel) (interp : Int)
    (h1 : ltime buf w off n 0 + (eps : ℝ) < t) (h : ltime buf w off n (n - 1) - (eps : ℝ) ≤ t) :
    Gen.History._history_read_scalar buf w off n t interp fuel = lval buf w off n (n - 1) :=
  read_after hI hn32 hfuel interp h1 h

/-- (4c) zero-order hold: for `time_j ≤ t ≤ time_{j+1} - 1e-6` the value of sample `j`
    (the latest sample with time ≤ t) -/
theorem read_zoh_holds (hI : Inv buf w off n) (hn32 : n ≤ 2 ^ 30) (hfuel : n - 1 ≤ 2 ^ fuel)
    (h1 : ltime buf w off n 0 + (eps : ℝ) < t) (h2 : t < ltime buf w off n (n - 1) - (eps : ℝ))
    (j : Int) (hj0 : 0 ≤ j) (hj : j + 1 < n) (ha : ltime buf w off n j ≤ t)
    (hb : t ≤ ltime buf w off n (j + 1) - (eps : ℝ)) :
    Gen.History._history_read_scalar buf w off n t 0 fuel = lval buf w off n j :=
  read_zoh hI hn32 hfuel h1 h2 j hj0 hj ha hb

/-- (4c') finding: within `1e-6` BELOW `time_{j+1}` ZOH already returns sample `j+1` (any mode does) -/
theorem read_zoh_early_switch (hI : Inv buf w off n) (hn32 : n ≤ 2 ^ 30) (hfuel : n - 1 ≤ 2 ^ fuel)
    (interp : Int)
    (h1 : ltime buf w off n 0 + (eps : ℝ) < t) (h2 : t < ltime buf w off n (n - 1) - (eps : ℝ))
    (j : Int) (hj0 : 0 ≤ j) (hj : j + 1 < n) (ha : ltime buf w off n j < t)
    (hb : ltime buf w off n (j + 1) - (eps : ℝ) < t) (hc : t ≤ ltime buf w off n (j + 1)) :
    Gen.History._history_read_scalar buf w off n t interp fuel = lval buf w off n (j + 1) := by
  rw [read_eq_readF hI hn32 hfuel]; unfold readF
  rw [if_neg (not_le.mpr h1), if_neg (not_le.mpr h2)]
  have hfi := find_index_eq (t := t) hI hn32 hfuel (j + 1) (by omega) (by omega)
    (fun _ => by rw [add_sub_cancel_right]; exact ha) (fun _ => hc)
  rw [hfi, if_pos]
  rw [abs_lt]; constructor <;> linarith [eps_pos]

/-- (4d) linear interpolation between the bracketing samples -/
theorem read_linear_interpolates (hI : Inv buf w off n) (hn32 : n ≤ 2 ^ 30) (hfuel : n - 1 ≤ 2 ^ fuel)
    (h1 : ltime buf w off n 0 + (eps : ℝ) < t) (h2 : t < ltime buf w off n (n - 1) - (eps : ℝ))
    (j : Int) (hj0 : 0 ≤ j) (hj : j + 1 < n) (ha : ltime buf w off n j < t)
    (hb : t ≤ ltime buf w off n (j + 1) - (eps : ℝ)) :
    Gen.History._history_read_scalar buf w off n t 1 fuel
      = lval buf w off n j + (t - ltime buf w off n j) / (ltime buf w off n (j + 1) - ltime buf w off n j)
          * (lval buf w off n (j + 1) - lval buf w off n j) :=
  read_linear hI hn32 hfuel h1 h2 j hj0 hj ha hb

/-- (4e) vector read at `dim = 1` is the scalar read, written to `sensordata_out[w, adr]` (no hypothesis) -/
theorem read_vector_dim1_is_scalar (adr : Int) (buf : Int → Int → ℝ) (w off n : Int) (t : ℝ) (interp : Int)
    (out : Int → Int → ℝ) (fuel : Nat) :
    Gen.History._history_read_vector adr buf w off n 1 t interp out fuel
      = (1, [Write.mk "sensordata_out" [w, adr + 0]
          (WVal.f (Gen.History._history_read_scalar buf w off n t interp fuel)) WKind.set]) :=
  read_vector_dim1 adr buf w off n t interp out fuel

/-- (4f) vector insert at `dim = 1` is the scalar insert (identical write list), so (3) applies to it -/
theorem insert_vector_dim1_is_scalar (hI : Inv buf w off n) (hn32 : n ≤ 2 ^ 30) (hfuel : n - 1 ≤ 2 ^ fuel)
    (src : Int → Int → ℝ) (adr : Int) :
    Gen.History._history_insert_vector w off n 1 t src adr buf fuel
      = Gen.History._history_insert_scalar w off n t (src w (adr + 0)) buf fuel :=
  insert_vector_dim1 hI hn32 hfuel t src adr

/-- `vector_general_partial`.  FULL statement (not proved): for every `dim ≥ 1`, on a buffer with layout
    `[user, cursor, times[n], values[n*dim]]` whose logical view is the list of `(time, value vector)`,
    `_history_insert_vector` refines `Spec.insert` and `_history_read_vector` refines `Spec.read` componentwise
    (each component `d` behaves like a scalar buffer with values at `off+2+n+p*dim+d`).
    PROVED: only `dim = 1` (the two theorems above), and that the vector read always reports success. -/
theorem vector_general_partial (adr : Int) (buf : Int → Int → ℝ) (w off n dim : Int) (t : ℝ) (interp : Int)
    (out : Int → Int → ℝ) (fuel : Nat) :
    (Gen.History._history_read_vector adr buf w off n dim t interp out fuel).1 = 1 := by
  unfold Gen.History._history_read_vector
  dsimp only
  split_ifs <;> rfl

/-! ## 5. end to end -/

/-- the MuJoCo-initialised buffer has logical view `Spec.mjInit n dt = [(-n·dt, 0), …, (-dt, 0)]` -/
theorem mjInit_logical {b0 : Int → Int → ℝ} {dt : ℝ} (hn : 1 ≤ n) (h0 : MjInit b0 w off n dt) :
    logical b0 w off n = Spec.mjInit n.toNat dt := by
  have hN : ((n.toNat : Nat) : Int) = n := Int.toNat_of_nonneg (by omega)
  rw [logical_eq_tab]
  unfold Spec.mjInit tab
  apply List.map_congr_left
  intro j hj
  have hj' : (j : Int) < n := by have := List.mem_range.mp hj; omega
  rw [ltime_of_cursor h0.cursor, lval_of_cursor h0.cursor, phys_init n j hn (by omega) hj',
    h0.times j (by omega) hj', h0.values j (by omega) hj', hN]
  simp

/-- (5) **delayed_ctrl_is_past_sample** (function level).  Start from the MuJoCo-initialised buffer
    (`cursor = n-1`, `times = -n·dt … -dt`, `values = 0`).  Do `k` steps; step `j = 0..k-1` inserts
    `(j·dt, c j)`.  Then the ZOH read at time `k·dt - delay`, `delay = m·dt`, `1 ≤ m ≤ n`, returns `c (k-m)`
    if `k ≥ m`, else the initial `0`.  Any `n ≥ 1`, any `k` (the cursor wraps `⌊k/n⌋` times).
    Needs `1e-6 < dt` (otherwise consecutive samples merge). -/
theorem delayed_ctrl_is_past_sample {b0 : Int → Int → ℝ} {dt : ℝ} (c : Nat → ℝ) (hn : 1 ≤ n) (hn32 : n ≤ 2 ^ 30)
    (hfuel : n - 1 ≤ 2 ^ fuel) (hdt : (eps : ℝ) < dt) (h0 : MjInit b0 w off n dt) (k m : Nat)
    (hm1 : 1 ≤ m) (hmn : (m : Int) ≤ n) :
    Gen.History._history_read_scalar (runCtrl b0 w off n dt c fuel k) w off n ((k : ℝ) * dt - (m : ℝ) * dt) 0 fuel
      = if m ≤ k then c (k - m) else 0 := by
  have e : (k : ℝ) * dt - (m : ℝ) * dt = (((k : Int) - m : Int) : ℝ) * dt := by push_cast; ring
  rw [e, run_read c hn hn32 hfuel hdt h0 k m hm1 hmn]
  unfold ctrlAt
  by_cases h : m ≤ k
  · rw [if_pos h, if_pos (by omega)]; congr 1; omega
  · rw [if_neg h, if_neg (by omega)]

/-- (5') the buffer satisfies `Inv` after every step and holds exactly the last `n` recorded samples -/
theorem delayed_ctrl_buffer_contents {b0 : Int → Int → ℝ} {dt : ℝ} (c : Nat → ℝ) (hn : 1 ≤ n) (hn32 : n ≤ 2 ^ 30)
    (hfuel : n - 1 ≤ 2 ^ fuel) (hdt : 0 < dt) (h0 : MjInit b0 w off n dt) (k : Nat) :
    Inv (runCtrl b0 w off n dt c fuel k) w off n
    ∧ ∀ l, 0 ≤ l → l < n →
        ltime (runCtrl b0 w off n dt c fuel k) w off n l = (((k : Int) - n + l : Int) : ℝ) * dt
        ∧ lval (runCtrl b0 w off n dt c fuel k) w off n l = ctrlAt c ((k : Int) - n + l) :=
  run_inv c hn hn32 hfuel hdt h0 k

/-- (5'') **kernel level**: with `actuator_history[uid] = (n, 0)` (ZOH), `actuator_delay[uid] = m·dt`, after `k`
    launches of the insert kernel, the launch of `_read_ctrl_delayed_kernel` at `d.time = k·dt` writes
    `ctrl_out[w, uid] = c (k-m)` (or `0` if `k < m`) -/
theorem delayed_ctrl_kernel (ah : Int → I2) (aha : Int → Int) (ad : Int → ℝ) (b0 ctrl_in ctrl_out : Int → Int → ℝ)
    (uid : Int) {dt : ℝ} (c : Nat → ℝ) (hn : 1 ≤ n) (hn32 : n ≤ 2 ^ 30) (hfuel : n - 1 ≤ 2 ^ fuel)
    (hdt : (eps : ℝ) < dt) (hns : (ah uid).c0 = n) (hzoh : (ah uid).c1 = 0) (k m : Nat)
    (hm1 : 1 ≤ m) (hmn : (m : Int) ≤ n) (hdelay : ad uid = (m : ℝ) * dt) (h0 : MjInit b0 w (aha uid) n dt) :
    Gen.History._read_ctrl_delayed_kernel ah aha ad (fun _ => (k : ℝ) * dt)
        (runKernel ah aha b0 w uid dt c fuel k) ctrl_in ctrl_out fuel w uid
      = [Write.mk "ctrl_out" [w, uid] (WVal.f (if m ≤ k then c (k - m) else 0)) WKind.set] := by
  have hdt0 : 0 < dt := lt_trans eps_pos hdt
  have hd : ad uid ≠ 0 := by
    rw [hdelay]; have : (0 : ℝ) < (m : ℝ) := by exact_mod_cast hm1
    positivity
  rw [read_kernel_eq ah aha ad _ _ ctrl_in ctrl_out fuel w uid (by rw [hns]; omega) hd,
    runKernel_eq ah aha b0 w uid dt c fuel (by rw [hns]; omega), hns, hzoh, hdelay,
    delayed_ctrl_is_past_sample c hn hn32 hfuel hdt h0 k m hm1 hmn]

/-! ## the hypotheses are satisfiable -/

/-- the MuJoCo-initialised 2-sample buffer (`dt = 1/128`) satisfies `MjInit`, hence `Inv` -/
example : MjInit mjBuf 0 0 2 (1 / 128) ∧ Inv mjBuf 0 0 2 :=
  ⟨mjBuf_init, (run_inv (fuel := 1) (fun _ => 0) (by norm_num) (by norm_num) (by norm_num) (by norm_num)
    mjBuf_init 0).1⟩

/-- `delayed_ctrl_kernel` instantiated: `nsample = 2`, ZOH, `delay = 2·dt`, `dt = 1/128`, 5 steps, controls
    `c j = j`: the kernel writes `ctrl_out[0, 0] = c 3 = 3` -/
example : Gen.History._read_ctrl_delayed_kernel (fun _ => ⟨2, 0⟩) (fun _ => 0) (fun _ => ((2 : Nat) : ℝ) * (1 / 128))
      (fun _ => ((5 : Nat) : ℝ) * (1 / 128))
      (runKernel (fun _ => ⟨2, 0⟩) (fun _ => 0) mjBuf 0 0 (1 / 128) (fun j => (j : ℝ)) 1 5)
      (fun _ _ => 0) (fun _ _ => 0) 1 0 0
    = [Write.mk "ctrl_out" [0, 0] (WVal.f 3) WKind.set] := by
  have := delayed_ctrl_kernel (w := 0) (n := 2) (fuel := 1) (fun _ => ⟨2, 0⟩) (fun _ => 0)
    (fun _ => ((2 : Nat) : ℝ) * (1 / 128)) mjBuf (fun _ _ => 0) (fun _ _ => 0) 0 (dt := 1 / 128)
    (fun j => (j : ℝ)) (by norm_num) (by norm_num) (by norm_num) (by rw [eps_real]; norm_num) rfl rfl 5 2
    (by norm_num) (by norm_num) rfl mjBuf_init
  rw [this]; norm_num

example : ((eps : ℝ) < 1 / 128) ∧ ((2 : Int) ≤ 2 ^ 30) ∧ ((2 : Int) - 1 ≤ 2 ^ 1) := by
  rw [eps_real]; norm_num

end Mjw.Props.C30
