/-
  C16 witnesses: concrete inputs on which the LITERAL reading of C16 fails.

  There is none left.  Both defects this property found were repaired in /repo, Gen was regenerated, and the
  statements that used to be false are now theorems of `Props/C16.lean`:

  F1  repaired in /repo commit 'fix: equality connect/weld rows were dropped silently when they fit the row capacity
      exactly'; the exact-fit theorems now hold (`C16.equality_connect_exact_fit`, `C16.equality_weld_exact_fit`,
      `C16.row_overflow_never_silent_all`).  `Alloc.geMinusGuard` / `C16.geMinusGuard_not_ideal` remain in the model
      as a record of why the old guard was wrong.
  F2  repaired in /repo commits 'fix: njmax_nnz overflow was silent unless the last constraint row happened to record it'
      (new kernel `_nnz_overflow`) and 'fix: a row dropped for lack of njmax_nnz kept its non-zero count (out-of-bounds
      read of efc.J)'; now proved: `C16.nnz_overflow_never_silent`, `C16.<builder>_nnz_overflow_never_silent`,
      `C16.<builder>_dropped_row_has_no_nonzeros`.  The former witnesses (`nnz_overflow_silent_witness`,
      `nnz_overflow_silent_two_joints_witness`, which showed `_next_time` alone staying silent) were removed: the step
      is no longer silent on those inputs.
-/
import MjwVerif.Props.C16

namespace Mjw.Props.C16Witness
end Mjw.Props.C16Witness
