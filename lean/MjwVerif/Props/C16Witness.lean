/-
  C16 witnesses: concrete inputs on which the LITERAL reading of C16 fails.

  F1 repaired in /repo commit 'fix: equality connect/weld rows were dropped silently…'; the exact-fit theorems now
  hold (see C16.lean: `equality_connect_exact_fit`, `equality_weld_exact_fit`, `row_overflow_never_silent_all`).  The
  former exact-fit witnesses were removed; `Alloc.geMinusGuard` / `C16.geMinusGuard_not_ideal` remain in the model as
  a record of why the old guard was wrong.

  Still OPEN (F2/F3, NJMAX_NNZ):
  W3 a single sparse connect thread whose nnz request (3) exceeds `njmax_nnz = 2`: rows 0..2 allocated and counted,
     nnz guard fails, no per-row array written at all; `_next_time` reads the zero-initialised
     `efc_J_rowadr/rownnz[0, 2]` and sets NO bit.
  W4 two sparse joint equalities, `njmax_nnz = 1`: thread A (row 0, rowadr 0, nnz 1) is granted, thread B
     (row 1 = the LAST row, rowadr 1, nnz 1: 1 + 1 > 1) is dropped after having written `rownnz[1] = 1`;
     `_next_time` adds the stale `rowadr[1] = 0`: 0 + 1 ≤ 1, no bit.
-/
import MjwVerif.Props.C16
set_option linter.unusedVariables false
set_option linter.unusedSimpArgs false
set_option linter.unusedSectionVars false

namespace Mjw.Props.C16Witness
open Mjw Mjw.Alloc Mjw.Lemmas.C16 Mjw.Props.C16


/-! ## W3: NJMAX_NNZ overflow of a single connect thread is silent -/
section nnz_connect
variable {K : Type} [Scalar K] (nv : Int) (opt_timestep : (Int → K)) (opt_disableflags : Int) (body_parentid : (Int → Int)) (body_rootid : (Int → Int)) (body_invweight0 : (Int → Int → V2 K)) (jnt_type : (Int → Int)) (jnt_dofadr : (Int → Int)) (dof_bodyid : (Int → Int)) (dof_jntid : (Int → Int)) (site_bodyid : (Int → Int)) (eq_obj1id : (Int → Int)) (eq_obj2id : (Int → Int)) (eq_objtype : (Int → Int)) (eq_solref : (Int → Int → V2 K)) (eq_solimp : (Int → Int → V5 K)) (eq_data : (Int → Int → V11 K)) (body_isdofancestor : (Int → Int → Int)) (eq_connect_adr : (Int → Int)) (qvel_in : (Int → Int → K)) (xpos_in : (Int → Int → V3 K)) (xmat_in : (Int → Int → M33 K)) (site_xpos_in : (Int → Int → V3 K)) (subtree_com_in : (Int → Int → V3 K)) (cdof_in : (Int → Int → V6 K)) (cvel_in : (Int → Int → V6 K)) (cdof_dot_in : (Int → Int → V6 K)) (subtree_linvel_in : (Int → Int → V3 K)) (ne_out : (Int → Int)) (nefc_out : (Int → Int)) (efc_type_out : (Int → Int → Int)) (efc_id_out : (Int → Int → Int)) (efc_jtdaj_adr_out : (Int → Int → Int)) (efc_jtdaj_nrow_out : (Int → Int → Int)) (efc_jtdaj_nblock_out : (Int → Int)) (efc_J_rownnz_out : (Int → Int → Int)) (efc_J_rowadr_out : (Int → Int → Int)) (efc_J_colind_out : (Int → Int → Int → Int)) (efc_J_out : (Int → Int → Int → K)) (efc_pos_out : (Int → Int → K)) (efc_margin_out : (Int → Int → K)) (efc_D_out : (Int → Int → K)) (efc_vel_out : (Int → Int → K)) (efc_aref_out : (Int → Int → K)) (efc_frictionloss_out : (Int → Int → K)) (efc_nnz_out : (Int → Int)) (st_is_sparse_and_newton : Bool) (alloc1 : Int) (eq_data_shape0 : Int) (body_invweight0_shape0 : Int) (eq_solref_shape0 : Int) (eq_solimp_shape0 : Int) (opt_timestep_shape0 : Int) (tid0 : Int) (tid1 : Int)

/-- sparse connect between two bodies with one dof each (`rownnz = 1`, request `3·1 = 3`), `njmax_in = 4`,
    `njmax_nnz_in = 2`, `alloc0 = alloc2 = 0`: the rows pass the row guard (`0 + 3 ≤ 4`), the nnz request does not
    fit (`0 + 3 > 2`), and the thread writes no per-row array at all. -/
theorem nnz_overflow_silent_witness_builder :
    allocReq (Gen.Constraint._equality_connect__kernel nv (0 : Int) opt_timestep opt_disableflags body_parentid body_rootid (fun _ => 0) (fun _ => 1) (fun _ => 0) body_invweight0 jnt_type jnt_dofadr dof_bodyid dof_jntid (fun _ => -1) site_bodyid eq_obj1id eq_obj2id eq_objtype eq_solref eq_solimp eq_data body_isdofancestor eq_connect_adr qvel_in (fun _ _ => true) xpos_in xmat_in site_xpos_in subtree_com_in cdof_in cvel_in cdof_dot_in subtree_linvel_in (4 : Int) (2 : Int) ne_out nefc_out efc_type_out efc_id_out efc_jtdaj_adr_out efc_jtdaj_nrow_out efc_jtdaj_nblock_out efc_J_rownnz_out efc_J_rowadr_out efc_J_colind_out efc_J_out efc_pos_out efc_margin_out efc_D_out efc_vel_out efc_aref_out efc_frictionloss_out efc_nnz_out (0 : Int) st_is_sparse_and_newton alloc1 eq_data_shape0 true (0 : Int) body_invweight0_shape0 eq_solref_shape0 eq_solimp_shape0 opt_timestep_shape0 (2 : Nat) tid0 tid1) "nefc_out" [tid0] 3
    ∧ allocReq (Gen.Constraint._equality_connect__kernel nv (0 : Int) opt_timestep opt_disableflags body_parentid body_rootid (fun _ => 0) (fun _ => 1) (fun _ => 0) body_invweight0 jnt_type jnt_dofadr dof_bodyid dof_jntid (fun _ => -1) site_bodyid eq_obj1id eq_obj2id eq_objtype eq_solref eq_solimp eq_data body_isdofancestor eq_connect_adr qvel_in (fun _ _ => true) xpos_in xmat_in site_xpos_in subtree_com_in cdof_in cvel_in cdof_dot_in subtree_linvel_in (4 : Int) (2 : Int) ne_out nefc_out efc_type_out efc_id_out efc_jtdaj_adr_out efc_jtdaj_nrow_out efc_jtdaj_nblock_out efc_J_rownnz_out efc_J_rowadr_out efc_J_colind_out efc_J_out efc_pos_out efc_margin_out efc_D_out efc_vel_out efc_aref_out efc_frictionloss_out efc_nnz_out (0 : Int) st_is_sparse_and_newton alloc1 eq_data_shape0 true (0 : Int) body_invweight0_shape0 eq_solref_shape0 eq_solimp_shape0 opt_timestep_shape0 (2 : Nat) tid0 tid1) "efc_nnz_out" [tid0] 3
    ∧ ¬ allocFits (Gen.Constraint._equality_connect__kernel nv (0 : Int) opt_timestep opt_disableflags body_parentid body_rootid (fun _ => 0) (fun _ => 1) (fun _ => 0) body_invweight0 jnt_type jnt_dofadr dof_bodyid dof_jntid (fun _ => -1) site_bodyid eq_obj1id eq_obj2id eq_objtype eq_solref eq_solimp eq_data body_isdofancestor eq_connect_adr qvel_in (fun _ _ => true) xpos_in xmat_in site_xpos_in subtree_com_in cdof_in cvel_in cdof_dot_in subtree_linvel_in (4 : Int) (2 : Int) ne_out nefc_out efc_type_out efc_id_out efc_jtdaj_adr_out efc_jtdaj_nrow_out efc_jtdaj_nblock_out efc_J_rownnz_out efc_J_rowadr_out efc_J_colind_out efc_J_out efc_pos_out efc_margin_out efc_D_out efc_vel_out efc_aref_out efc_frictionloss_out efc_nnz_out (0 : Int) st_is_sparse_and_newton alloc1 eq_data_shape0 true (0 : Int) body_invweight0_shape0 eq_solref_shape0 eq_solimp_shape0 opt_timestep_shape0 (2 : Nat) tid0 tid1) "efc_nnz_out" [tid0] 0 2
    ∧ ∀ w ∈ (Gen.Constraint._equality_connect__kernel nv (0 : Int) opt_timestep opt_disableflags body_parentid body_rootid (fun _ => 0) (fun _ => 1) (fun _ => 0) body_invweight0 jnt_type jnt_dofadr dof_bodyid dof_jntid (fun _ => -1) site_bodyid eq_obj1id eq_obj2id eq_objtype eq_solref eq_solimp eq_data body_isdofancestor eq_connect_adr qvel_in (fun _ _ => true) xpos_in xmat_in site_xpos_in subtree_com_in cdof_in cvel_in cdof_dot_in subtree_linvel_in (4 : Int) (2 : Int) ne_out nefc_out efc_type_out efc_id_out efc_jtdaj_adr_out efc_jtdaj_nrow_out efc_jtdaj_nblock_out efc_J_rownnz_out efc_J_rowadr_out efc_J_colind_out efc_J_out efc_pos_out efc_margin_out efc_D_out efc_vel_out efc_aref_out efc_frictionloss_out efc_nnz_out (0 : Int) st_is_sparse_and_newton alloc1 eq_data_shape0 true (0 : Int) body_invweight0_shape0 eq_solref_shape0 eq_solimp_shape0 opt_timestep_shape0 (2 : Nat) tid0 tid1), w.arr ∉ rowArrays := by
  refine ⟨?_, ?_, ?_, ?_⟩
  · unfold Gen.Constraint._equality_connect__kernel; cases st_is_sparse_and_newton <;> ksimp [Mjw.whileFuel]
  · unfold Gen.Constraint._equality_connect__kernel; cases st_is_sparse_and_newton <;> ksimp [Mjw.whileFuel]
  · unfold Gen.Constraint._equality_connect__kernel; cases st_is_sparse_and_newton <;> ksimp [Mjw.whileFuel]
  · show AllW (fun w => w.arr ∉ rowArrays) _
    unfold Gen.Constraint._equality_connect__kernel; cases st_is_sparse_and_newton <;> ksimp [Mjw.whileFuel]
end nnz_connect

section nnz_connect_nt
variable {K : Type} [Scalar K] (opt_timestep : (Int → K)) (time_in : (Int → K)) (nworld_in : Int) (time_out : (Int → K)) (opt_timestep_shape0 : Int) (st_warn_overflow : Bool) (tid0 : Int)

/-- … and `_next_time` of that world (`nefc = 3 ≤ njmax = 4`, sparse, zero-initialised `efc_J_rowadr/rownnz`, no
    contact overflow, clear word on entry) writes only `time_out`: NO overflow bit although the world's nnz demand
    (3) exceeds `njmax_nnz = 2` and three counted rows are missing. -/
theorem nnz_overflow_silent_witness :
    (∀ w ∈ (Gen.Forward._next_time_builder___next_time opt_timestep true (fun _ => 3) time_in (fun _ _ => 0) (fun _ _ => 0) nworld_in (0 : Int) (4 : Int) (2 : Int) (fun _ => 0) (fun _ => 0) time_out (fun _ => 0) opt_timestep_shape0 st_warn_overflow tid0), w.arr ≠ "overflow_out")
    ∧ Write.lookupI (Gen.Forward._next_time_builder___next_time opt_timestep true (fun _ => 3) time_in (fun _ _ => 0) (fun _ _ => 0) nworld_in (0 : Int) (4 : Int) (2 : Int) (fun _ => 0) (fun _ => 0) time_out (fun _ => 0) opt_timestep_shape0 st_warn_overflow tid0) "overflow_out" [tid0] 0 = 0 := by
  have hws : (Gen.Forward._next_time_builder___next_time opt_timestep true (fun _ => 3) time_in (fun _ _ => 0) (fun _ _ => 0) nworld_in (0 : Int) (4 : Int) (2 : Int) (fun _ => 0) (fun _ => 0) time_out (fun _ => 0) opt_timestep_shape0 st_warn_overflow tid0) = [⟨"time_out", [tid0], WVal.f (time_in tid0 + opt_timestep (Int.tmod tid0 opt_timestep_shape0)), WKind.set⟩] := by
    unfold Gen.Forward._next_time_builder___next_time
    simp
  rw [hws]
  refine ⟨by simp, by simp [Write.lookupI]⟩
end nnz_connect_nt


/-! ## W4: the dropped thread owns the last row -/
section nnz_joint
variable {K : Type} [Scalar K] (nv : Int) (opt_timestep : (Int → K)) (opt_disableflags : Int) (qpos0 : (Int → Int → K)) (jnt_qposadr : (Int → Int)) (jnt_dofadr : (Int → Int)) (dof_invweight0 : (Int → Int → K)) (eq_obj1id : (Int → Int)) (eq_solref : (Int → Int → V2 K)) (eq_solimp : (Int → Int → V5 K)) (eq_data : (Int → Int → V11 K)) (eq_jnt_adr : (Int → Int)) (qpos_in : (Int → Int → K)) (qvel_in : (Int → Int → K)) (ne_out : (Int → Int)) (nefc_out : (Int → Int)) (efc_type_out : (Int → Int → Int)) (efc_id_out : (Int → Int → Int)) (efc_jtdaj_adr_out : (Int → Int → Int)) (efc_jtdaj_nrow_out : (Int → Int → Int)) (efc_jtdaj_nblock_out : (Int → Int)) (efc_J_rownnz_out : (Int → Int → Int)) (efc_J_rowadr_out : (Int → Int → Int)) (efc_J_colind_out : (Int → Int → Int → Int)) (efc_J_out : (Int → Int → Int → K)) (efc_pos_out : (Int → Int → K)) (efc_margin_out : (Int → Int → K)) (efc_D_out : (Int → Int → K)) (efc_vel_out : (Int → Int → K)) (efc_aref_out : (Int → Int → K)) (efc_frictionloss_out : (Int → Int → K)) (efc_nnz_out : (Int → Int)) (st_is_sparse_and_newton : Bool) (alloc1 : Int) (eq_data_shape0 : Int) (qpos0_shape0 : Int) (dof_invweight0_shape0 : Int) (opt_timestep_shape0 : Int) (eq_solref_shape0 : Int) (eq_solimp_shape0 : Int) (cl_rowadr : Int) (tid0 : Int) (tid1 : Int)

/-- thread B: single-joint equality (`rownnz = 1`), `alloc0 = 1` (row 1 of `njmax_in = 2`), `alloc2 = 1` (thread A took
    nnz cell 0), `njmax_nnz_in = 1`: the nnz request does not fit (`1 + 1 > 1`); B has written `efc_J_rownnz_out[w,1] = 1`,
    never writes `efc_J_rowadr_out` nor its row. -/
theorem nnz_overflow_silent_two_joints_witness_builder :
    reached (Gen.Constraint._equality_joint__kernel nv opt_timestep opt_disableflags qpos0 jnt_qposadr jnt_dofadr dof_invweight0 eq_obj1id (fun _ => -1) eq_solref eq_solimp eq_data eq_jnt_adr qpos_in qvel_in (fun _ _ => true) (2 : Int) (1 : Int) ne_out nefc_out efc_type_out efc_id_out efc_jtdaj_adr_out efc_jtdaj_nrow_out efc_jtdaj_nblock_out efc_J_rownnz_out efc_J_rowadr_out efc_J_colind_out efc_J_out efc_pos_out efc_margin_out efc_D_out efc_vel_out efc_aref_out efc_frictionloss_out efc_nnz_out (1 : Int) st_is_sparse_and_newton alloc1 eq_data_shape0 qpos0_shape0 dof_invweight0_shape0 true (1 : Int) opt_timestep_shape0 eq_solref_shape0 eq_solimp_shape0 cl_rowadr tid0 tid1) "nefc_out" [tid0]
    ∧ ¬ allocFits (Gen.Constraint._equality_joint__kernel nv opt_timestep opt_disableflags qpos0 jnt_qposadr jnt_dofadr dof_invweight0 eq_obj1id (fun _ => -1) eq_solref eq_solimp eq_data eq_jnt_adr qpos_in qvel_in (fun _ _ => true) (2 : Int) (1 : Int) ne_out nefc_out efc_type_out efc_id_out efc_jtdaj_adr_out efc_jtdaj_nrow_out efc_jtdaj_nblock_out efc_J_rownnz_out efc_J_rowadr_out efc_J_colind_out efc_J_out efc_pos_out efc_margin_out efc_D_out efc_vel_out efc_aref_out efc_frictionloss_out efc_nnz_out (1 : Int) st_is_sparse_and_newton alloc1 eq_data_shape0 qpos0_shape0 dof_invweight0_shape0 true (1 : Int) opt_timestep_shape0 eq_solref_shape0 eq_solimp_shape0 cl_rowadr tid0 tid1) "efc_nnz_out" [tid0] 1 1
    ∧ cellI (Gen.Constraint._equality_joint__kernel nv opt_timestep opt_disableflags qpos0 jnt_qposadr jnt_dofadr dof_invweight0 eq_obj1id (fun _ => -1) eq_solref eq_solimp eq_data eq_jnt_adr qpos_in qvel_in (fun _ _ => true) (2 : Int) (1 : Int) ne_out nefc_out efc_type_out efc_id_out efc_jtdaj_adr_out efc_jtdaj_nrow_out efc_jtdaj_nblock_out efc_J_rownnz_out efc_J_rowadr_out efc_J_colind_out efc_J_out efc_pos_out efc_margin_out efc_D_out efc_vel_out efc_aref_out efc_frictionloss_out efc_nnz_out (1 : Int) st_is_sparse_and_newton alloc1 eq_data_shape0 qpos0_shape0 dof_invweight0_shape0 true (1 : Int) opt_timestep_shape0 eq_solref_shape0 eq_solimp_shape0 cl_rowadr tid0 tid1) "efc_J_rownnz_out" tid0 1 1
    ∧ (∀ r v, ¬ cellI (Gen.Constraint._equality_joint__kernel nv opt_timestep opt_disableflags qpos0 jnt_qposadr jnt_dofadr dof_invweight0 eq_obj1id (fun _ => -1) eq_solref eq_solimp eq_data eq_jnt_adr qpos_in qvel_in (fun _ _ => true) (2 : Int) (1 : Int) ne_out nefc_out efc_type_out efc_id_out efc_jtdaj_adr_out efc_jtdaj_nrow_out efc_jtdaj_nblock_out efc_J_rownnz_out efc_J_rowadr_out efc_J_colind_out efc_J_out efc_pos_out efc_margin_out efc_D_out efc_vel_out efc_aref_out efc_frictionloss_out efc_nnz_out (1 : Int) st_is_sparse_and_newton alloc1 eq_data_shape0 qpos0_shape0 dof_invweight0_shape0 true (1 : Int) opt_timestep_shape0 eq_solref_shape0 eq_solimp_shape0 cl_rowadr tid0 tid1) "efc_J_rowadr_out" tid0 r v)
    ∧ ∀ r, ¬ writesRow (Gen.Constraint._equality_joint__kernel nv opt_timestep opt_disableflags qpos0 jnt_qposadr jnt_dofadr dof_invweight0 eq_obj1id (fun _ => -1) eq_solref eq_solimp eq_data eq_jnt_adr qpos_in qvel_in (fun _ _ => true) (2 : Int) (1 : Int) ne_out nefc_out efc_type_out efc_id_out efc_jtdaj_adr_out efc_jtdaj_nrow_out efc_jtdaj_nblock_out efc_J_rownnz_out efc_J_rowadr_out efc_J_colind_out efc_J_out efc_pos_out efc_margin_out efc_D_out efc_vel_out efc_aref_out efc_frictionloss_out efc_nnz_out (1 : Int) st_is_sparse_and_newton alloc1 eq_data_shape0 qpos0_shape0 dof_invweight0_shape0 true (1 : Int) opt_timestep_shape0 eq_solref_shape0 eq_solimp_shape0 cl_rowadr tid0 tid1) "efc_type_out" tid0 r := by
  have hr : reached (Gen.Constraint._equality_joint__kernel nv opt_timestep opt_disableflags qpos0 jnt_qposadr jnt_dofadr dof_invweight0 eq_obj1id (fun _ => -1) eq_solref eq_solimp eq_data eq_jnt_adr qpos_in qvel_in (fun _ _ => true) (2 : Int) (1 : Int) ne_out nefc_out efc_type_out efc_id_out efc_jtdaj_adr_out efc_jtdaj_nrow_out efc_jtdaj_nblock_out efc_J_rownnz_out efc_J_rowadr_out efc_J_colind_out efc_J_out efc_pos_out efc_margin_out efc_D_out efc_vel_out efc_aref_out efc_frictionloss_out efc_nnz_out (1 : Int) st_is_sparse_and_newton alloc1 eq_data_shape0 qpos0_shape0 dof_invweight0_shape0 true (1 : Int) opt_timestep_shape0 eq_solref_shape0 eq_solimp_shape0 cl_rowadr tid0 tid1) "nefc_out" [tid0] := by
    unfold Gen.Constraint._equality_joint__kernel; ksimp []
  have hd : ¬ allocFits (Gen.Constraint._equality_joint__kernel nv opt_timestep opt_disableflags qpos0 jnt_qposadr jnt_dofadr dof_invweight0 eq_obj1id (fun _ => -1) eq_solref eq_solimp eq_data eq_jnt_adr qpos_in qvel_in (fun _ _ => true) (2 : Int) (1 : Int) ne_out nefc_out efc_type_out efc_id_out efc_jtdaj_adr_out efc_jtdaj_nrow_out efc_jtdaj_nblock_out efc_J_rownnz_out efc_J_rowadr_out efc_J_colind_out efc_J_out efc_pos_out efc_margin_out efc_D_out efc_vel_out efc_aref_out efc_frictionloss_out efc_nnz_out (1 : Int) st_is_sparse_and_newton alloc1 eq_data_shape0 qpos0_shape0 dof_invweight0_shape0 true (1 : Int) opt_timestep_shape0 eq_solref_shape0 eq_solimp_shape0 cl_rowadr tid0 tid1) "efc_nnz_out" [tid0] 1 1 := by
    unfold Gen.Constraint._equality_joint__kernel; ksimp []
  refine ⟨hr, hd, ?_, ?_, ?_⟩
  · unfold Gen.Constraint._equality_joint__kernel; ksimp [cellI]
  · exact (Props.C16.equality_joint_dropped_cells nv opt_timestep opt_disableflags qpos0 jnt_qposadr jnt_dofadr dof_invweight0 eq_obj1id (fun _ => -1) eq_solref eq_solimp eq_data eq_jnt_adr qpos_in qvel_in (fun _ _ => true) (2 : Int) (1 : Int) ne_out nefc_out efc_type_out efc_id_out efc_jtdaj_adr_out efc_jtdaj_nrow_out efc_jtdaj_nblock_out efc_J_rownnz_out efc_J_rowadr_out efc_J_colind_out efc_J_out efc_pos_out efc_margin_out efc_D_out efc_vel_out efc_aref_out efc_frictionloss_out efc_nnz_out (1 : Int) st_is_sparse_and_newton alloc1 eq_data_shape0 qpos0_shape0 dof_invweight0_shape0 true (1 : Int) opt_timestep_shape0 eq_solref_shape0 eq_solimp_shape0 cl_rowadr tid0 tid1 hr (by norm_num) rfl hd).2
  · exact Props.C16.equality_joint_nnz_dropped nv opt_timestep opt_disableflags qpos0 jnt_qposadr jnt_dofadr dof_invweight0 eq_obj1id (fun _ => -1) eq_solref eq_solimp eq_data eq_jnt_adr qpos_in qvel_in (fun _ _ => true) (2 : Int) (1 : Int) ne_out nefc_out efc_type_out efc_id_out efc_jtdaj_adr_out efc_jtdaj_nrow_out efc_jtdaj_nblock_out efc_J_rownnz_out efc_J_rowadr_out efc_J_colind_out efc_J_out efc_pos_out efc_margin_out efc_D_out efc_vel_out efc_aref_out efc_frictionloss_out efc_nnz_out (1 : Int) st_is_sparse_and_newton alloc1 eq_data_shape0 qpos0_shape0 dof_invweight0_shape0 true (1 : Int) opt_timestep_shape0 eq_solref_shape0 eq_solimp_shape0 cl_rowadr tid0 tid1 rfl hd
end nnz_joint

section nnz_joint_nt
variable {K : Type} [Scalar K] (opt_timestep : (Int → K)) (time_in : (Int → K)) (nworld_in : Int) (time_out : (Int → K)) (opt_timestep_shape0 : Int) (st_warn_overflow : Bool) (tid0 : Int)

/-- `_next_time` of that world: `nefc = 2 = njmax`, last row 1, `rowadr[1] = 0` (stale), `rownnz[1] = 1` (B's write):
    `0 + 1 ≤ 1`, no bit — although B's nnz request was dropped and row 1 is missing. -/
theorem nnz_overflow_silent_two_joints_witness :
    ∀ w ∈ (Gen.Forward._next_time_builder___next_time opt_timestep true (fun _ => 2) time_in (fun _ _ => 1) (fun _ _ => 0) nworld_in (0 : Int) (2 : Int) (1 : Int) (fun _ => 0) (fun _ => 0) time_out (fun _ => 0) opt_timestep_shape0 st_warn_overflow tid0), w.arr ≠ "overflow_out" := by
  have hws : (Gen.Forward._next_time_builder___next_time opt_timestep true (fun _ => 2) time_in (fun _ _ => 1) (fun _ _ => 0) nworld_in (0 : Int) (2 : Int) (1 : Int) (fun _ => 0) (fun _ => 0) time_out (fun _ => 0) opt_timestep_shape0 st_warn_overflow tid0) = [⟨"time_out", [tid0], WVal.f (time_in tid0 + opt_timestep (Int.tmod tid0 opt_timestep_shape0)), WKind.set⟩] := by
    unfold Gen.Forward._next_time_builder___next_time
    simp
  rw [hws]; simp
end nnz_joint_nt

end Mjw.Props.C16Witness

