/-
  C24 witnesses: statements one might expect of the constraint force law that are FALSE of the
  generated code, each refuted on a concrete input.

  W1.  "Force and cost of a friction-loss row are continuous across the branch boundary jaref = ±rf"
       holds for D > 0 (Props/C24: `friction_boundary_neg/pos`, `friction_cost_hasDerivAt`,
       `friction_force_continuous`) but FAILS for D = 0 with frictionloss > 0:
       `safe_div(frictionloss, 0)` returns frictionloss / MJ_MINVAL = frictionloss·10¹⁵, so the
       boundary sits at |jaref| = 10¹⁵·frictionloss, where the LINEAR branch gives
       force = ±frictionloss and cost = ½·frictionloss²·10¹⁵, while the adjacent QUADRATIC branch gives
       force = 0 and cost = 0.  (|force| ≤ frictionloss and cost ≥ 0 still hold at D = 0, see
       `friction_abs_le`, `cost_nonneg`.)  D = 0 is degenerate (efc_D = 1/R with R > 0 upstream), so
       this is a robustness remark rather than a reachable defect.
-/
import MjwVerif.Lemmas.C24

set_option linter.unusedVariables false
set_option linter.unusedSimpArgs false

namespace Mjw.Props.C24Witness
open Mjw Mjw.Gen.Solver Mjw.Gen.Math Mjw.Lemmas.C24

/-- W1a: D = 0, frictionloss = 1, at the boundary jaref = -10¹⁵: state LINEARNEG (2), force 1,
    cost 5·10¹⁴ — not the QUADRATIC values (-D·jaref = 0, ½·D·jaref² = 0). -/
theorem friction_boundary_D_zero_witness :
    _eval_constraint false true false (-(10:ℝ) ^ 15) 0 1 0 0 0 0 0 0 0 = ⟨1, 2, 5 * 10 ^ 14⟩ ∧
    (_eval_constraint false true false (-(10:ℝ) ^ 15) 0 1 0 0 0 0 0 0 0).c0
      ≠ -(0 * (-(10:ℝ) ^ 15)) ∧
    (_eval_constraint false true false (-(10:ℝ) ^ 15) 0 1 0 0 0 0 0 0 0).c2
      ≠ 1 / 2 * 0 * (-(10:ℝ) ^ 15) ^ 2 := by
  have h : _eval_constraint false true false (-(10:ℝ) ^ 15) 0 1 0 0 0 0 0 0 0 = ⟨1, 2, 5 * 10 ^ 14⟩ := by
    rw [eval_friction, safe_div_zero]; norm_num
  refine ⟨h, ?_, ?_⟩ <;> rw [h] <;> norm_num

/-- W1b: one unit to the right of that boundary the row is QUADRATIC with force 0 and cost 0: the force
    jumps by frictionloss = 1 and the cost by 5·10¹⁴ over a step of 1 in jaref (relative step 10⁻¹⁵). -/
theorem friction_jump_D_zero_witness :
    _eval_constraint false true false (-(10:ℝ) ^ 15 + 1) 0 1 0 0 0 0 0 0 0 = ⟨0, 1, 0⟩ := by
  rw [eval_friction, safe_div_zero]; norm_num

/-- W1c: hence "for all D ≥ 0, frictionloss ≥ 0 the LINEARNEG-boundary cost equals the quadratic
    formula" is false. -/
theorem friction_boundary_agreement_needs_D_pos :
    ¬ (∀ D f : ℝ, 0 ≤ D → 0 ≤ f →
        (_eval_constraint false true false (-(safe_div_F_F f D)) D f 0 0 0 0 0 0 0).c2
          = 1 / 2 * D * (-(safe_div_F_F f D)) ^ 2) := by
  intro h
  have := h 0 1 le_rfl zero_le_one
  rw [eval_friction, safe_div_zero] at this
  norm_num at this

end Mjw.Props.C24Witness
