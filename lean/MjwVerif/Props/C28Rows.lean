/-
  C28 (part 3, row → tree): the tree an EQUALITY row of kind connect/weld is attributed to.

  Source: /repo/mujoco_warp/_src/island.py — kernel `_compute_efc_tree`, regenerated into
  `Mjw.Gen.Island._compute_efc_tree` on every run.  For ALL inputs: a live connect/weld row writes exactly one cell,
  `efc_tree_out[worldid, efcid]`, and its value is the tree of the FIRST body when that body moves, otherwise the tree
  of the SECOND body — where, for site-addressed equalities (`eq_objtype = mjOBJ_SITE = 6`), BOTH ends are resolved
  through `site_bodyid` before `body_treeid` is consulted.  (Seeded change C28c resolved only the first end.)
  `efc_tree_dof_rows` (dof friction → tree of the dof, joint limit → tree of the joint's first dof) and `efc_tree_contact` (geom–geom
  contact rows of all three kinds → tree of the first geom whose body moves) close the other non-generic branches the same way; tendon
  rows, joint/tendon/flex equalities and flex contacts take the generic Jacobian scan (first dof with a nonzero entry), not stated here.
-/
import MjwVerif.Gen.Island

namespace Mjw.Props.C28Rows
open Mjw Mjw.Gen.Island

/-- the body an end of the equality refers to -/
def endBody (site_bodyid : Int → Int) (objtype obj : Int) : Int :=
  if objtype = 6 then site_bodyid obj else obj

/-- the specification: first moving end wins -/
def eqTree (body_treeid site_bodyid : Int → Int) (objtype o1 o2 : Int) : Int :=
  if body_treeid (endBody site_bodyid objtype o1) ≥ 0 then body_treeid (endBody site_bodyid objtype o1)
  else body_treeid (endBody site_bodyid objtype o2)

/-- **efc_tree_connect_weld**: for all inputs, a live equality row of type connect (0) or weld (1) is attributed to
    `eqTree` of its two ends, both resolved through `site_bodyid` when the equality is site-addressed. -/
theorem efc_tree_connect_weld {K : Type} [Scalar K] (nv : Int) (body_treeid jnt_dofadr dof_treeid geom_bodyid site_bodyid eq_type eq_obj1id eq_obj2id eq_objtype : Int → Int)
    (is_sparse : Bool) (nefc_in : Int → Int) (contact_geom_in : Int → I2) (efc_type_in efc_id_in : Int → Int → Int) (efc_J_in : Int → Int → Int → K)
    (efc_J_rownnz_in efc_J_rowadr_in : Int → Int → Int) (efc_J_colind_in : Int → Int → Int → Int) (njmax_in : Int) (efc_tree_out : Int → Int → Int) (w r : Int)
    (hlive : r < min njmax_in (nefc_in w)) (htype : efc_type_in w r = 0)
    (hkind : eq_type (efc_id_in w r) = 0 ∨ eq_type (efc_id_in w r) = 1) :
    _compute_efc_tree (K := K) nv body_treeid jnt_dofadr dof_treeid geom_bodyid site_bodyid eq_type eq_obj1id eq_obj2id eq_objtype is_sparse nefc_in contact_geom_in
        efc_type_in efc_id_in efc_J_in efc_J_rownnz_in efc_J_rowadr_in efc_J_colind_in njmax_in efc_tree_out w r
      = [(Write.mk "efc_tree_out" [w, r]
          (WVal.i (eqTree body_treeid site_bodyid (eq_objtype (efc_id_in w r)) (eq_obj1id (efc_id_in w r)) (eq_obj2id (efc_id_in w r)))) WKind.set : Write K)] := by
  have hnot : ¬ (r ≥ min njmax_in (nefc_in w)) := by omega
  unfold _compute_efc_tree eqTree endBody
  rcases hkind with hk | hk <;>
    by_cases hs : eq_objtype (efc_id_in w r) = 6 <;>
    by_cases ht : body_treeid (site_bodyid (eq_obj1id (efc_id_in w r))) ≥ 0 <;>
    by_cases ht' : body_treeid (eq_obj1id (efc_id_in w r)) ≥ 0 <;>
    simp [hnot, htype, hk, hs, ht, ht']

/-- **efc_tree_dof_rows**: for all inputs, a live dof-friction row (type 1) goes to the tree of its dof, a live joint-limit row (type 3)
    to the tree of the joint's first dof. -/
theorem efc_tree_dof_rows {K : Type} [Scalar K] (nv : Int) (body_treeid jnt_dofadr dof_treeid geom_bodyid site_bodyid eq_type eq_obj1id eq_obj2id eq_objtype : Int → Int)
    (is_sparse : Bool) (nefc_in : Int → Int) (contact_geom_in : Int → I2) (efc_type_in efc_id_in : Int → Int → Int) (efc_J_in : Int → Int → Int → K)
    (efc_J_rownnz_in efc_J_rowadr_in : Int → Int → Int) (efc_J_colind_in : Int → Int → Int → Int) (njmax_in : Int) (efc_tree_out : Int → Int → Int) (w r : Int)
    (hlive : r < min njmax_in (nefc_in w)) (htype : efc_type_in w r = 1 ∨ efc_type_in w r = 3) :
    _compute_efc_tree (K := K) nv body_treeid jnt_dofadr dof_treeid geom_bodyid site_bodyid eq_type eq_obj1id eq_obj2id eq_objtype is_sparse nefc_in contact_geom_in
        efc_type_in efc_id_in efc_J_in efc_J_rownnz_in efc_J_rowadr_in efc_J_colind_in njmax_in efc_tree_out w r
      = [(Write.mk "efc_tree_out" [w, r]
          (WVal.i (if efc_type_in w r = 1 then dof_treeid (efc_id_in w r) else dof_treeid (jnt_dofadr (efc_id_in w r)))) WKind.set : Write K)] := by
  have hnot : ¬ (r ≥ min njmax_in (nefc_in w)) := by omega
  unfold _compute_efc_tree
  rcases htype with ht | ht <;> simp [hnot, ht]

/-- the specification for contact rows: the first geom whose body moves wins -/
def contactTree (body_treeid geom_bodyid : Int → Int) (g : I2) : Int :=
  if body_treeid (geom_bodyid g.c0) ≥ 0 then body_treeid (geom_bodyid g.c0) else body_treeid (geom_bodyid g.c1)

/-- **efc_tree_contact**: for all inputs, a live contact row (frictionless 5, pyramidal 6, elliptic 7) between two GEOMS goes to
    `contactTree` of the contact's geom pair (flex contacts, geom id −1, take the generic Jacobian scan instead). -/
theorem efc_tree_contact {K : Type} [Scalar K] (nv : Int) (body_treeid jnt_dofadr dof_treeid geom_bodyid site_bodyid eq_type eq_obj1id eq_obj2id eq_objtype : Int → Int)
    (is_sparse : Bool) (nefc_in : Int → Int) (contact_geom_in : Int → I2) (efc_type_in efc_id_in : Int → Int → Int) (efc_J_in : Int → Int → Int → K)
    (efc_J_rownnz_in efc_J_rowadr_in : Int → Int → Int) (efc_J_colind_in : Int → Int → Int → Int) (njmax_in : Int) (efc_tree_out : Int → Int → Int) (w r : Int)
    (hlive : r < min njmax_in (nefc_in w)) (htype : efc_type_in w r = 5 ∨ efc_type_in w r = 6 ∨ efc_type_in w r = 7)
    (hg0 : (contact_geom_in (efc_id_in w r)).c0 ≥ 0) (hg1 : (contact_geom_in (efc_id_in w r)).c1 ≥ 0) :
    _compute_efc_tree (K := K) nv body_treeid jnt_dofadr dof_treeid geom_bodyid site_bodyid eq_type eq_obj1id eq_obj2id eq_objtype is_sparse nefc_in contact_geom_in
        efc_type_in efc_id_in efc_J_in efc_J_rownnz_in efc_J_rowadr_in efc_J_colind_in njmax_in efc_tree_out w r
      = [(Write.mk "efc_tree_out" [w, r] (WVal.i (contactTree body_treeid geom_bodyid (contact_geom_in (efc_id_in w r)))) WKind.set : Write K)] := by
  have hnot : ¬ (r ≥ min njmax_in (nefc_in w)) := by omega
  unfold _compute_efc_tree contactTree
  rcases htype with ht | ht | ht <;>
    by_cases hb : body_treeid (geom_bodyid (contact_geom_in (efc_id_in w r)).c0) ≥ 0 <;>
    simp [hnot, ht, hg0, hg1, hb]

/-- non-vacuity: a site-addressed connect whose first site is on the world body (tree −1) goes to the tree of the SECOND site's body
    (site 3 sits on body 1, tree 0; body 3 — the site id misread as a body id — is in tree 2). -/
example : eqTree (fun b => if b = 0 then -1 else b - 1) (fun s => if s = 3 then 1 else 0) 6 0 3 = 0 := by decide

end Mjw.Props.C28Rows
