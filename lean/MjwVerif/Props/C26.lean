/-
  C26  Forward and inverse dynamics are consistent.

  Source: /repo/mujoco_warp/_src/inverse.py (`inverse`, `discrete_acc`, `_qfrc_inverse`, `_qfrc_eulerdamp`),
  forward.py (`fwd_acceleration` → `_qfrc_smooth`, `euler`, `implicit`), solver.py (`_update_gradient_grad`,
  `_qfrc_constraint_from_grad`).  Generated kernels: `Mjw.Gen.Inverse.*`, `Mjw.Gen.Forward.*`, `Mjw.Gen.Solver.*`.

  Sections
   1  exact write lists of the kernels (generic scalar `K`, so they also hold for Float32):
        `_qfrc_inverse`, `_qfrc_smooth__kernel`, `_update_gradient_grad__kernel`, `_qfrc_constraint_from_grad`,
        `_qfrc_eulerdamp`, `_compute_damping_deriv`, `_euler_damp_qfrc`.
   2  per-dof consistency, stated on the values the generated kernels write (K = ℝ):
        qfrc_inverse − (qfrc_applied + xfrc + qfrc_actuator) = the solver gradient  Ma − qfrc_smooth − qfrc_constraint.
   3  the same over ℝ-vectors / matrices (`Fin n → ℝ`, `Matrix`): `inverse_eq_applied_plus_grad` and corollaries.
   4  discrete-time inverse dynamics (INVDISCRETE): what `discrete_acc` computes, tied to the kernel
        `_qfrc_eulerdamp`; `discrete_roundtrip_euler`, `discrete_roundtrip_implicitfast`,
        `inverse_discrete_consistent`.
   5  non-vacuity examples.

  What is NOT covered here (host-side Python control flow is not translated): that `inverse()` feeds the
  kernels the same `qfrc_bias / qfrc_passive / M` as `forward()` did (it recomputes them from the same
  qpos, qvel), and that `inv_constraint` reproduces the forward solver's `qfrc_constraint` from `qacc`
  (that is C06's statement f = −s'(J·qacc − aref)).   Two caveats visible in the specs below:
   * sleeping dofs: `_qfrc_smooth__kernel` writes 0 for a dof of a sleeping tree, `_qfrc_inverse` has no sleep
     mask — the consistency identity is about awake dofs (`st_enable_sleep = false` or tree awake).
   * `euler()` integrates damping implicitly iff neither EULERDAMP nor DAMPER is disabled, `discrete_acc` tests
     only EULERDAMP (read from the Python; see `discrete_guard_mismatch_model` in Props/C26Witness.lean).
-/
import MjwVerif.Lemmas.Real
import MjwVerif.Gen.Inverse
import MjwVerif.Gen.Forward
import MjwVerif.Gen.Solver
import Mathlib.LinearAlgebra.Matrix.NonsingularInverse

set_option linter.unusedVariables false
set_option linter.unusedSimpArgs false

namespace Mjw.Props.C26
open Mjw Mjw.Gen.Inverse Mjw.Gen.Forward Mjw.Gen.Solver Mjw.Gen.Util_misc

/-! ## 1. exact write lists (generic `K`) -/

section writes
variable {K : Type} [Scalar K]

/-- `_qfrc_inverse`: thread (w, i) performs exactly one plain store
    `qfrc_inverse[w,i] := ((qfrc_bias + Ma) − qfrc_passive) − qfrc_constraint`  (this association order). -/
theorem qfrc_inverse_writes (bias passive constr Ma out : Int → Int → K) (w i : Int) :
    _qfrc_inverse bias passive constr Ma out w i
      = [Write.mk "qfrc_inverse_out" [w, i]
          (WVal.f (((bias w i + Ma w i) - passive w i) - constr w i)) WKind.set] := rfl

/-- `_qfrc_smooth` (sleep disabled, or sleep enabled and the dof's tree is awake / the dof is static):
    `qfrc_smooth[w,i] := ((qfrc_passive − qfrc_bias) + qfrc_actuator) + qfrc_applied`. -/
theorem qfrc_smooth_writes_awake (body_treeid dof_bodyid : Int → Int) (applied : Int → Int → K)
    (awake : Int → Int → Int) (bias passive act out : Int → Int → K) (sleep : Bool) (w i : Int)
    (h : sleep = false ∨ ¬ (body_treeid (dof_bodyid i) ≥ 0 ∧ awake w (body_treeid (dof_bodyid i)) = 0)) :
    _qfrc_smooth__kernel body_treeid dof_bodyid applied awake bias passive act out sleep w i
      = [Write.mk "qfrc_smooth_out" [w, i]
          (WVal.f (((passive w i - bias w i) + act w i) + applied w i)) WKind.set] := by
  unfold _qfrc_smooth__kernel
  rcases h with h | h
  · subst h; rfl
  · cases sleep
    · rfl
    · have : ((decide (body_treeid (dof_bodyid i) ≥ 0)) && (decide (awake w (body_treeid (dof_bodyid i)) = 0))) = false := by
        simpa [Bool.and_eq_true] using h
      simp only [this, if_true, Bool.false_eq_true, if_false]
      rfl

/-- `_qfrc_smooth` with sleep enabled, dof in a sleeping tree: `qfrc_smooth[w,i] := 0`
    (so the consistency identity of section 2 is NOT claimed for sleeping dofs). -/
theorem qfrc_smooth_writes_asleep (body_treeid dof_bodyid : Int → Int) (applied : Int → Int → K)
    (awake : Int → Int → Int) (bias passive act out : Int → Int → K) (w i : Int)
    (h1 : body_treeid (dof_bodyid i) ≥ 0) (h2 : awake w (body_treeid (dof_bodyid i)) = 0) :
    _qfrc_smooth__kernel body_treeid dof_bodyid applied awake bias passive act out true w i
      = [Write.mk "qfrc_smooth_out" [w, i] (WVal.f (Scalar.lit 0 0 : K)) WKind.set] := by
  unfold _qfrc_smooth__kernel
  have : ((decide (body_treeid (dof_bodyid i) ≥ 0)) && (decide (awake w (body_treeid (dof_bodyid i)) = 0))) = true := by
    simp [h1, h2]
  simp only [this, if_true]
  rfl

/-- the solver's gradient kernel (world not done, slow path): `grad[w,i] := (Ma − qfrc_smooth) − qfrc_constraint`
    and `grad_dot[w] += grad²`. -/
theorem update_gradient_grad_writes (smooth constr Ma : Int → Int → K) (cnt : Int → Int)
    (done : Int → Bool) (gout : Int → Int → K) (gdot : Int → K) (w i : Int) (hd : done w = false) :
    _update_gradient_grad__kernel smooth constr Ma cnt done gout gdot false w i
      = [Write.mk "ctx_grad_out" [w, i] (WVal.f ((Ma w i - smooth w i) - constr w i)) WKind.set,
         Write.mk "ctx_grad_dot_out" [w]
           (WVal.f (((Ma w i - smooth w i) - constr w i) * ((Ma w i - smooth w i) - constr w i))) WKind.aadd] := by
  unfold _update_gradient_grad__kernel
  simp only [hd, Bool.false_eq_true, if_false]
  rfl

/-- incremental solver: after the iterations `qfrc_constraint` is *recovered* from the (scaled) gradient,
    `qfrc_constraint[w,i] := (Ma − qfrc_smooth) − grad_scale[w]·grad[w,i]`. -/
theorem qfrc_constraint_from_grad_writes (smooth Ma grad : Int → Int → K) (scale : Int → K)
    (out : Int → Int → K) (w i : Int) :
    _qfrc_constraint_from_grad smooth Ma grad scale out w i
      = [Write.mk "qfrc_constraint_out" [w, i]
          (WVal.f ((Ma w i - smooth w i) - scale w * grad w i)) WKind.set] := rfl

/-- `_qfrc_eulerdamp` (called by `discrete_acc` after `qfrc = M·qacc`):
    `qfrc[w,i] := qfrc[w,i] + (h · B_i) · qacc[w,i]`,  `B_i = _poly_force_deriv(dof_damping_i, dof_dampingpoly_i, qvel_i, 1)`. -/
theorem qfrc_eulerdamp_writes (h : Int → K) (damping : Int → Int → K) (dpoly : Int → Int → V2 K)
    (qvel qacc qfrc : Int → Int → K) (s0 s1 s2 w i : Int) :
    _qfrc_eulerdamp h damping dpoly qvel qacc qfrc s0 s1 s2 w i
      = [Write.mk "qfrc_out" [w, i]
          (WVal.f (qfrc w i
            + (h (Int.tmod w s0)
                * _poly_force_deriv (damping (Int.tmod w s1) i) (dpoly (Int.tmod w s2) i) (qvel w i) 1)
              * qacc w i)) WKind.set] := rfl

/-- `_compute_damping_deriv` (called by `euler`): `deriv[w,i] := B_i` — the SAME coefficient as in `_qfrc_eulerdamp`. -/
theorem compute_damping_deriv_writes (damping : Int → Int → K) (dpoly : Int → Int → V2 K)
    (qvel out : Int → Int → K) (s1 s2 w i : Int) :
    _compute_damping_deriv damping dpoly qvel out s1 s2 w i
      = [Write.mk "deriv_out" [w, i]
          (WVal.f (_poly_force_deriv (damping (Int.tmod w s1) i) (dpoly (Int.tmod w s2) i) (qvel w i) 1))
          WKind.set] := rfl

/-- `_euler_damp_qfrc` (called by `euler` on a clone of M): the last entry of CSR row i (the diagonal of the
    lower-triangular row) gets `M_ii := M_ii + h · deriv[w,i]`. -/
theorem euler_damp_qfrc_writes (h : Int → K) (rownnz rowadr : Int → Int) (deriv Mint : Int → Int → K)
    (s0 w i : Int) :
    _euler_damp_qfrc h rownnz rowadr deriv Mint s0 w i
      = [Write.mk "M_integration_out" [w, rowadr i + rownnz i - 1]
          (WVal.f (Mint w (rowadr i + rownnz i - 1) + h (Int.tmod w s0) * deriv w i)) WKind.set] := rfl

end writes

/-! ## 2. per-dof consistency on the values written by the generated kernels (K = ℝ)

`Write.lookupF ws arr idx dflt` is the content of cell `arr[idx]` after the writes `ws`. -/

/-- value stored in `qfrc_inverse[w,i]` by `_qfrc_inverse` -/
noncomputable def invVal (bias passive constr Ma out : Int → Int → ℝ) (w i : Int) : ℝ :=
  Write.lookupF (_qfrc_inverse bias passive constr Ma out w i) "qfrc_inverse_out" [w, i] (out w i)

/-- value stored in `qfrc_smooth[w,i]` by `_qfrc_smooth` (sleep disabled) -/
noncomputable def smoothVal (tre bod : Int → Int) (applied : Int → Int → ℝ) (awake : Int → Int → Int)
    (bias passive act out : Int → Int → ℝ) (w i : Int) : ℝ :=
  Write.lookupF (_qfrc_smooth__kernel tre bod applied awake bias passive act out false w i)
    "qfrc_smooth_out" [w, i] (out w i)

/-- value stored in `ctx.grad[w,i]` by `_update_gradient_grad` -/
noncomputable def gradVal (smooth constr Ma : Int → Int → ℝ) (cnt : Int → Int) (gout : Int → Int → ℝ)
    (gdot : Int → ℝ) (w i : Int) : ℝ :=
  Write.lookupF (_update_gradient_grad__kernel smooth constr Ma cnt (fun _ => false) gout gdot false w i)
    "ctx_grad_out" [w, i] (gout w i)

theorem invVal_eq (bias passive constr Ma out : Int → Int → ℝ) (w i : Int) :
    invVal bias passive constr Ma out w i = bias w i + Ma w i - passive w i - constr w i := by
  simp [invVal, qfrc_inverse_writes, Write.lookupF]

theorem smoothVal_eq (tre bod : Int → Int) (applied : Int → Int → ℝ) (awake : Int → Int → Int)
    (bias passive act out : Int → Int → ℝ) (w i : Int) :
    smoothVal tre bod applied awake bias passive act out w i
      = passive w i - bias w i + act w i + applied w i := by
  unfold smoothVal
  rw [qfrc_smooth_writes_awake _ _ _ _ _ _ _ _ _ _ _ (Or.inl rfl)]
  simp [Write.lookupF]

theorem gradVal_eq (smooth constr Ma : Int → Int → ℝ) (cnt : Int → Int) (gout : Int → Int → ℝ)
    (gdot : Int → ℝ) (w i : Int) :
    gradVal smooth constr Ma cnt gout gdot w i = Ma w i - smooth w i - constr w i := by
  unfold gradVal
  rw [update_gradient_grad_writes _ _ _ _ _ _ _ _ _ rfl]
  simp [Write.lookupF]

/-- **per-dof consistency.**  Let `qfrc_smooth` be what `_qfrc_smooth` stores plus the Cartesian forces
    `xfrc` that `xfrc_accumulate` adds on top (any array `xfrc`), and let `Ma, qfrc_bias, qfrc_passive,
    qfrc_constraint` be the same arrays in forward and inverse.  Then what `_qfrc_inverse` stores minus the
    externally supplied forces (applied + Cartesian + actuator) is EXACTLY the value `_update_gradient_grad`
    stores as the solver gradient.  So forward and inverse agree iff the solver's gradient vanishes, and differ
    by the solver residual otherwise. -/
theorem inverse_minus_applied_eq_solver_grad
    (tre bod : Int → Int) (applied xfrc act bias passive constr Ma : Int → Int → ℝ)
    (awake : Int → Int → Int) (o1 o2 o3 : Int → Int → ℝ) (cnt : Int → Int) (gdot : Int → ℝ) (w i : Int) :
    invVal bias passive constr Ma o1 w i - (applied w i + xfrc w i + act w i)
      = gradVal (fun w i => smoothVal tre bod applied awake bias passive act o2 w i + xfrc w i)
          constr Ma cnt o3 gdot w i := by
  rw [invVal_eq, gradVal_eq, smoothVal_eq]
  ring

/-- incremental solver: with `qfrc_constraint` recovered by `_qfrc_constraint_from_grad`, the residual of the
    inverse dynamics is exactly `grad_scale · grad` (the solver's current true gradient). -/
theorem inverse_minus_applied_eq_scaled_grad
    (tre bod : Int → Int) (applied xfrc act bias passive Ma grad : Int → Int → ℝ) (scale : Int → ℝ)
    (awake : Int → Int → Int) (o1 o2 o3 : Int → Int → ℝ) (w i : Int) :
    let smooth := fun w i => smoothVal tre bod applied awake bias passive act o2 w i + xfrc w i
    let constr := fun w i =>
      Write.lookupF (_qfrc_constraint_from_grad smooth Ma grad scale o3 w i) "qfrc_constraint_out" [w, i] (o3 w i)
    invVal bias passive constr Ma o1 w i - (applied w i + xfrc w i + act w i) = scale w * grad w i := by
  intro smooth constr
  rw [invVal_eq]
  have hc : constr w i = Ma w i - smooth w i - scale w * grad w i := by
    simp [constr, qfrc_constraint_from_grad_writes, Write.lookupF]
  rw [hc]
  simp only [smooth, smoothVal_eq]
  ring

/-! ## 3. vector / matrix form -/

section algebra
open Matrix
variable {n m : ℕ}

/-- `qfrc_smooth = qfrc_passive − qfrc_bias + qfrc_actuator + qfrc_applied (+ xfrc)`: `_qfrc_smooth` + `xfrc_accumulate` -/
def qfrcSmooth (passive bias act applied xfrc : Fin n → ℝ) : Fin n → ℝ :=
  passive - bias + act + applied + xfrc

/-- `qfrc_inverse = qfrc_bias + M·a − qfrc_passive − Jᵀ f`: `_qfrc_inverse` with `Ma = mul_m(qacc)`,
    `qfrc_constraint = Jᵀ·efc_force` -/
def qfrcInverse (M : Matrix (Fin n) (Fin n) ℝ) (J : Matrix (Fin m) (Fin n) ℝ)
    (a bias passive : Fin n → ℝ) (f : Fin m → ℝ) : Fin n → ℝ :=
  bias + M *ᵥ a - passive - Jᵀ *ᵥ f

/-- the forward solver's gradient `Ma − qfrc_smooth − qfrc_constraint` (= ∇cost(a), see C06 `grad_formula`) -/
def solverGrad (M : Matrix (Fin n) (Fin n) ℝ) (J : Matrix (Fin m) (Fin n) ℝ)
    (a smooth : Fin n → ℝ) (f : Fin m → ℝ) : Fin n → ℝ :=
  M *ᵥ a - smooth - Jᵀ *ᵥ f

/-- **inverse − (applied + Cartesian + actuator) = M a − qfrc_smooth − Jᵀ f = ∇cost(a).** -/
theorem inverse_eq_applied_plus_grad (M : Matrix (Fin n) (Fin n) ℝ) (J : Matrix (Fin m) (Fin n) ℝ)
    (a bias passive act applied xfrc : Fin n → ℝ) (f : Fin m → ℝ) :
    qfrcInverse M J a bias passive f - (applied + xfrc + act)
      = solverGrad M J a (qfrcSmooth passive bias act applied xfrc) f := by
  unfold qfrcInverse solverGrad qfrcSmooth
  abel

/-- exact agreement iff the solver gradient is zero -/
theorem inverse_eq_applied_iff_grad_zero (M : Matrix (Fin n) (Fin n) ℝ) (J : Matrix (Fin m) (Fin n) ℝ)
    (a bias passive act applied xfrc : Fin n → ℝ) (f : Fin m → ℝ) :
    qfrcInverse M J a bias passive f = applied + xfrc + act
      ↔ solverGrad M J a (qfrcSmooth passive bias act applied xfrc) f = 0 := by
  rw [← inverse_eq_applied_plus_grad, sub_eq_zero]

/-- agreement within the solver residual, componentwise: if every component of the gradient is at most ε in
    absolute value, so is every component of `qfrc_inverse − (applied + xfrc + actuator)`. -/
theorem inverse_within_residual (M : Matrix (Fin n) (Fin n) ℝ) (J : Matrix (Fin m) (Fin n) ℝ)
    (a bias passive act applied xfrc : Fin n → ℝ) (f : Fin m → ℝ) (ε : ℝ)
    (h : ∀ i, |solverGrad M J a (qfrcSmooth passive bias act applied xfrc) f i| ≤ ε) (i : Fin n) :
    |qfrcInverse M J a bias passive f i - (applied i + xfrc i + act i)| ≤ ε := by
  have := congrFun (inverse_eq_applied_plus_grad M J a bias passive act applied xfrc f) i
  simp only [Pi.sub_apply, Pi.add_apply] at this
  rw [this]; exact h i

/-- … and in the Euclidean (squared) norm: Σ residual² = Σ grad² (= `ctx.grad_dot`, the quantity the solver's
    convergence test uses). -/
theorem inverse_residual_sq_eq_grad_dot (M : Matrix (Fin n) (Fin n) ℝ) (J : Matrix (Fin m) (Fin n) ℝ)
    (a bias passive act applied xfrc : Fin n → ℝ) (f : Fin m → ℝ) :
    ∑ i, (qfrcInverse M J a bias passive f i - (applied i + xfrc i + act i)) ^ 2
      = ∑ i, (solverGrad M J a (qfrcSmooth passive bias act applied xfrc) f i) ^ 2 := by
  refine Finset.sum_congr rfl (fun i _ => ?_)
  have := congrFun (inverse_eq_applied_plus_grad M J a bias passive act applied xfrc f) i
  simp only [Pi.sub_apply, Pi.add_apply] at this
  rw [this]

/-- unconstrained case (no rows, or all forces zero): the forward acceleration `a = M⁻¹ qfrc_smooth` makes the
    inverse return exactly applied + xfrc + actuator. -/
theorem inverse_exact_unconstrained (M : Matrix (Fin n) (Fin n) ℝ) (hM : IsUnit M.det)
    (J : Matrix (Fin m) (Fin n) ℝ) (bias passive act applied xfrc : Fin n → ℝ) :
    qfrcInverse M J (M⁻¹ *ᵥ qfrcSmooth passive bias act applied xfrc) bias passive 0
      = applied + xfrc + act := by
  rw [inverse_eq_applied_iff_grad_zero]
  unfold solverGrad
  rw [Matrix.mulVec_mulVec, Matrix.mul_nonsing_inv _ hM, Matrix.one_mulVec, Matrix.mulVec_zero]
  simp

end algebra

/-! ## 4. discrete-time inverse dynamics (INVDISCRETE)

`euler`:     solves `(M + h·diag B) a_d = M a_c`   (`_compute_damping_deriv`, `_euler_damp_qfrc`, `factor_solve_i(…, efc.Ma)`).
`implicit` (implicitfast): solves `(M − h·qDeriv) a_d = M a_c`   (`deriv_smooth_vel` returns `M − h·qDeriv`).
`discrete_acc`: Euler: `qfrc = M a_d` (`mul_m`), `qfrc += h·B∘a_d` (`_qfrc_eulerdamp`), `a_c = M⁻¹ qfrc` (`solve_m`);
                implicitfast: `qfrc = (M − h·qDeriv) a_d` (`mul_m` with `M=qDeriv`), `a_c = M⁻¹ qfrc`. -/

section discrete
open Matrix
variable {n m : ℕ}

/-- what the integrator does: continuous → discrete acceleration, `a_d = A⁻¹ (M a_c)` -/
noncomputable def toDiscrete (M A : Matrix (Fin n) (Fin n) ℝ) (ac : Fin n → ℝ) : Fin n → ℝ :=
  A⁻¹ *ᵥ (M *ᵥ ac)

/-- what `discrete_acc` does: discrete → continuous acceleration, `a_c = M⁻¹ (A a_d)` -/
noncomputable def toContinuous (M A : Matrix (Fin n) (Fin n) ℝ) (ad : Fin n → ℝ) : Fin n → ℝ :=
  M⁻¹ *ᵥ (A *ᵥ ad)

/-- the two maps are mutually inverse for ANY pair of invertible matrices -/
theorem discrete_roundtrip (M A : Matrix (Fin n) (Fin n) ℝ) (hM : IsUnit M.det) (hA : IsUnit A.det)
    (a : Fin n → ℝ) :
    toContinuous M A (toDiscrete M A a) = a ∧ toDiscrete M A (toContinuous M A a) = a := by
  unfold toContinuous toDiscrete
  have e1 : ∀ (X : Matrix (Fin n) (Fin n) ℝ) (_ : IsUnit X.det) (v : Fin n → ℝ), X *ᵥ (X⁻¹ *ᵥ v) = v := by
    intro X hX v
    rw [Matrix.mulVec_mulVec, Matrix.mul_nonsing_inv _ hX, Matrix.one_mulVec]
  have e2 : ∀ (X : Matrix (Fin n) (Fin n) ℝ) (_ : IsUnit X.det) (v : Fin n → ℝ), X⁻¹ *ᵥ (X *ᵥ v) = v := by
    intro X hX v
    rw [Matrix.mulVec_mulVec, Matrix.nonsing_inv_mul _ hX, Matrix.one_mulVec]
  exact ⟨by rw [e1 A hA, e2 M hM], by rw [e1 M hM, e2 A hA]⟩

/-- the right-hand side `discrete_acc` builds for Euler, exactly as the kernels compute it:
    component i is `(M a)_i + (h · B_i) · a_i` (`mul_m` then `_qfrc_eulerdamp`) -/
def eulerQfrc (M : Matrix (Fin n) (Fin n) ℝ) (h : ℝ) (B a : Fin n → ℝ) : Fin n → ℝ :=
  fun i => (M *ᵥ a) i + (h * B i) * a i

/-- … which is `(M + h·diag B) a`, the matrix `euler` factorises (`_euler_damp_qfrc` adds `h·B_i` to `M_ii`). -/
theorem eulerQfrc_eq (M : Matrix (Fin n) (Fin n) ℝ) (h : ℝ) (B a : Fin n → ℝ) :
    eulerQfrc M h B a = (M + h • Matrix.diagonal B) *ᵥ a := by
  funext i
  simp only [eulerQfrc, Matrix.add_mulVec, Pi.add_apply, Matrix.smul_mulVec, Pi.smul_apply,
    Matrix.mulVec_diagonal, smul_eq_mul]
  ring

/-- tie to the generated kernel: the cell `_qfrc_eulerdamp` stores, given that `qfrc` holds `M·qacc` before the
    launch, is component i of `eulerQfrc` with `B_i = _poly_force_deriv(damping_i, dpoly_i, qvel_i, 1)`. -/
theorem qfrc_eulerdamp_value (h : Int → ℝ) (damping : Int → Int → ℝ) (dpoly : Int → Int → V2 ℝ)
    (qvel qacc qfrc : Int → Int → ℝ) (s0 s1 s2 w i : Int) :
    Write.lookupF (_qfrc_eulerdamp h damping dpoly qvel qacc qfrc s0 s1 s2 w i) "qfrc_out" [w, i] (qfrc w i)
      = qfrc w i + (h (Int.tmod w s0)
          * _poly_force_deriv (damping (Int.tmod w s1) i) (dpoly (Int.tmod w s2) i) (qvel w i) 1) * qacc w i := by
  simp [qfrc_eulerdamp_writes, Write.lookupF]

/-- the diagonal entry `euler` factorises: `_euler_damp_qfrc` fed with `_compute_damping_deriv`'s output stores
    `M_ii + h · B_i` with the same `B_i` — so forward and inverse use the same matrix `M + h·diag B`. -/
theorem euler_diag_value (h : Int → ℝ) (damping : Int → Int → ℝ) (dpoly : Int → Int → V2 ℝ)
    (qvel d0 Mint : Int → Int → ℝ) (rownnz rowadr : Int → Int) (s0 s1 s2 w i : Int) :
    let deriv := fun w i =>
      Write.lookupF (_compute_damping_deriv damping dpoly qvel d0 s1 s2 w i) "deriv_out" [w, i] (d0 w i)
    Write.lookupF (_euler_damp_qfrc h rownnz rowadr deriv Mint s0 w i) "M_integration_out"
        [w, rowadr i + rownnz i - 1] (Mint w (rowadr i + rownnz i - 1))
      = Mint w (rowadr i + rownnz i - 1) + h (Int.tmod w s0)
          * _poly_force_deriv (damping (Int.tmod w s1) i) (dpoly (Int.tmod w s2) i) (qvel w i) 1 := by
  simp [euler_damp_qfrc_writes, compute_damping_deriv_writes, Write.lookupF]

/-- **Euler round trip**: with `M` and `M + h·diag B` invertible, `discrete_acc` (continuous from discrete) and
    the Euler step's solve (discrete from continuous) are mutually inverse. -/
theorem discrete_roundtrip_euler (M : Matrix (Fin n) (Fin n) ℝ) (h : ℝ) (B : Fin n → ℝ)
    (hM : IsUnit M.det) (hA : IsUnit (M + h • Matrix.diagonal B).det) (a : Fin n → ℝ) :
    M⁻¹ *ᵥ eulerQfrc M h B ((M + h • Matrix.diagonal B)⁻¹ *ᵥ (M *ᵥ a)) = a ∧
    (M + h • Matrix.diagonal B)⁻¹ *ᵥ (M *ᵥ (M⁻¹ *ᵥ eulerQfrc M h B a)) = a := by
  simp only [eulerQfrc_eq]
  exact discrete_roundtrip M _ hM hA a

/-- **implicit-fast round trip**: same with `A = M − h·qDeriv`. -/
theorem discrete_roundtrip_implicitfast (M D : Matrix (Fin n) (Fin n) ℝ) (h : ℝ)
    (hM : IsUnit M.det) (hA : IsUnit (M - h • D).det) (a : Fin n → ℝ) :
    toContinuous M (M - h • D) (toDiscrete M (M - h • D) a) = a ∧
    toDiscrete M (M - h • D) (toContinuous M (M - h • D) a) = a :=
  discrete_roundtrip M _ hM hA a

/-- **discrete-time consistency**: if the step used `a_d = A⁻¹ M a_c`, then `inverse()` with INVDISCRETE, fed
    `a_d`, evaluates `_qfrc_inverse` at `toContinuous a_d = a_c`: its output minus the external forces is again
    exactly the solver gradient at `a_c`. -/
theorem inverse_discrete_consistent (M A : Matrix (Fin n) (Fin n) ℝ) (hM : IsUnit M.det) (hA : IsUnit A.det)
    (J : Matrix (Fin m) (Fin n) ℝ) (ac bias passive act applied xfrc : Fin n → ℝ) (f : Fin m → ℝ) :
    qfrcInverse M J (toContinuous M A (toDiscrete M A ac)) bias passive f - (applied + xfrc + act)
      = solverGrad M J ac (qfrcSmooth passive bias act applied xfrc) f := by
  rw [(discrete_roundtrip M A hM hA ac).1, inverse_eq_applied_plus_grad]

/-- implicit-fast as written in the source: `discrete_acc` calls `factor_solve_i(M, …, qacc, qfrc)` and THEN
    `solve_m(qacc, qfrc)` — both compute `M⁻¹ qfrc`, so the second solve is redundant but harmless. -/
theorem implicitfast_double_solve (M A : Matrix (Fin n) (Fin n) ℝ) (ad : Fin n → ℝ) :
    let qfrc := A *ᵥ ad
    let qacc1 := M⁻¹ *ᵥ qfrc      -- factor_solve_i
    let qacc2 := M⁻¹ *ᵥ qfrc      -- solve_m (reads qfrc, overwrites qacc)
    qacc2 = toContinuous M A ad := rfl

end discrete

/-! ## 5. non-vacuity -/

section examples
open Matrix

/-- concrete dof: bias 3, Ma 10, passive 2, constraint 4 → qfrc_inverse 7; applied 1, xfrc 0.5, actuator 5
    → smooth = 2 − 3 + 5 + 1 + 0.5 = 5.5, grad = 10 − 5.5 − 4 = 0.5 = 7 − 6.5. -/
example : invVal (fun _ _ => 3) (fun _ _ => 2) (fun _ _ => 4) (fun _ _ => 10) (fun _ _ => 0) 0 0 = 7 := by
  rw [invVal_eq]; norm_num

example : gradVal (fun _ _ => 5.5) (fun _ _ => 4) (fun _ _ => 10) (fun _ => 0) (fun _ _ => 0) (fun _ => 0) 0 0
    = 7 - (1 + 0.5 + 5) := by
  rw [gradVal_eq]; norm_num

/-- invertible 1×1 instance of the Euler round trip: M = 2, h = 0.5, B = 4 (M + hB = 4). -/
example : IsUnit (Matrix.diagonal (fun _ : Fin 1 => (2:ℝ))).det ∧
    IsUnit (Matrix.diagonal (fun _ : Fin 1 => (2:ℝ)) + (0.5:ℝ) • Matrix.diagonal (fun _ : Fin 1 => (4:ℝ))).det := by
  constructor
  · simp
  · rw [← Matrix.diagonal_smul, Matrix.diagonal_add]
    simp
    norm_num

/-- and the damping term is not trivially zero: the cell written by `_qfrc_eulerdamp` for h = 0.5,
    damping 4 (no polynomial terms), qacc 3, qfrc = M·qacc = 6 is 6 + 0.5·4·3 = 12. -/
example : Write.lookupF (_qfrc_eulerdamp (fun _ => (0.5:ℝ)) (fun _ _ => 4) (fun _ _ => ⟨0, 0⟩) (fun _ _ => 1)
    (fun _ _ => 3) (fun _ _ => 6) 1 1 1 0 0) "qfrc_out" [0, 0] 6 = 12 := by
  rw [qfrc_eulerdamp_value]
  simp [_poly_force_deriv]
  norm_num

end examples

end Mjw.Props.C26
