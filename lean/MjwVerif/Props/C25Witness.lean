/-
  C25 witnesses: concrete inputs on which the LITERAL reading of C25 fails.

  W1 (kernel level, `Mjw.Gen.Solver._solve_done__kernel` at K = ℝ): the ITERATIONS bit is sticky.  The
     solver only ORs into `overflow[w]` (`reset_data` is the only place that clears it), so if the bit
     is set on entry (e.g. left by an earlier step that hit the limit), a world that CONVERGES at its
     first iteration still ends with the bit set.  "bit set ⇔ this solve stopped without meeting the
     tolerance" therefore needs "bit clear on entry" (that is the hypothesis of `C25.overflow_iff`).
  W2 (protocol model, host-loop level): with a NEGATIVE `opt.iterations` and `graph_conditional` the host
     takes the `capture_while` branch (the guard is `iterations != 0`), the limit test
     `niter + 1 == iterations` can never fire, and a world whose tolerance test keeps failing iterates
     forever: `niter` exceeds the configured limit, the loop does not terminate and no bit is reported.
-/
import MjwVerif.Props.C25

namespace Mjw.Props.C25Witness
open Mjw Mjw.Term Mjw.Props.C25

/-- the post-launch contents seen through the task's own writes -/
noncomputable def w1Writes : List (Write ℝ) :=
  Gen.Solver._solve_done__kernel (K := ℝ)
    (1 : Int)            -- nv
    (fun _ => 1)         -- opt_tolerance
    (10 : Int)           -- opt_iterations
    (fun _ => 1)         -- stat_meaninertia
    (fun _ => 0)         -- ctx_grad_dot_in
    (fun _ => 0)         -- ctx_newton_decrement_in
    (fun _ => 0)         -- ctx_improvement_in      (0/(1·1) < 1: the tolerance test succeeds)
    (fun _ => false)     -- ctx_done_in
    (fun _ => 0)         -- solver_niter_out
    (fun _ => 512)       -- overflow_out: ITERATIONS bit already set on entry
    (fun _ => 1)         -- nsolving_out
    (fun _ => false)     -- ctx_done_out
    1 1 false 0

/-- W1: world 0 converges at iteration 1 of 10 (done := true, niter := 1, nsolving -= 1), the task does
    not touch `overflow_out`, so the ITERATIONS bit is still set after the solve. -/
theorem overflow_bit_sticky_witness :
    Write.lookupB w1Writes "ctx_done_out" [0] false = true
    ∧ Write.lookupI w1Writes "solver_niter_out" [0] 0 = 1
    ∧ Write.lookupI w1Writes "nsolving_out" [0] 1 = 0
    ∧ (∀ x ∈ w1Writes, x.arr ≠ "overflow_out")
    ∧ hasIterBit (Write.lookupI w1Writes "overflow_out" [0] 512) = true := by
  have hc : kernelConv (1 : Int) (fun _ => (1 : ℝ)) (fun _ => 1) (fun _ => 0) (fun _ => 0) (fun _ => 0) 1 1 0 = true := by
    rw [kernelConv_real]; left; norm_num
  have hw : w1Writes =
      [(Write.mk "solver_niter_out" [0] (WVal.i 1) WKind.set : Write ℝ),
       (Write.mk "ctx_done_out" [0] (WVal.b true) WKind.set : Write ℝ),
       (Write.mk "nsolving_out" [0] (WVal.i (-1)) WKind.aadd : Write ℝ)] := by
    unfold w1Writes
    rw [kernel_refines_model]
    simp [hc, worldStep, taskWrites]
  rw [hw]
  refine ⟨by simp [Write.lookupB], by simp [Write.lookupI], by simp [Write.lookupI], by simp, ?_⟩
  simp [Write.lookupI]
  decide

/-- W1 at model level, for every run: a bit set on entry is set on exit, whatever the oracle — in
    particular for a world with `conv w 1 = true`. -/
theorem overflow_bit_sticky_model (nworld : Nat) (it : Int) (conv : Oracle) (ov0 : WorldId → Int)
    (hit : 1 ≤ it) (orders : Nat → List WorldId) (hp : ∀ j, (orders j).Perm (List.range nworld))
    (w : WorldId) (hw : w < nworld) (hset : hasIterBit (ov0 w) = true) :
    hasIterBit ((runFixed it conv orders (init nworld ov0)).ws w).overflow = true := by
  have hv := overflow_value nworld it conv ov0 hit orders hp w hw
  simp only at hv
  rw [hv]
  split
  · exact Lemmas.C25.hasIterBit_ior _
  · exact hset

/-- concrete instance: one world, limit 10, converges at iteration 1, entry word 512 -/
theorem overflow_bit_sticky_model_witness :
    snapshot 1 (runFixed 10 (fun _ _ => true) (canonical 1) (init 1 (fun _ => 512))) = ([(1, true, 512)], 0) := by
  decide

/-- W2: `iterations = -1`, one world that never meets the tolerance, while loop: after any fuel `f` the
    loop is still running (`nsolving = 1`), `niter = f` (> -1 = the configured limit), not done, no bit. -/
theorem negative_iterations_while_diverges_witness (f : Nat) :
    let g := runWhile f (-1) (fun _ _ => false) (canonical 1) (init 1 (fun _ => 0))
    g.nsolving = 1 ∧ g.ws 0 = ⟨f, false, 0⟩ := by
  have h := iterations_zero_while_may_not_terminate 1 (-1) (fun _ => 0) (by omega) (by omega)
    (canonical 1) (fun _ => List.Perm.refl _) f
  exact ⟨h.1, h.2.2 0 (by omega)⟩

end Mjw.Props.C25Witness
