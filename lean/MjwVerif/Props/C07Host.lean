/-
  C07 (part 4)  When is the energy evaluated: theorems over the host event list of `forward()` regenerated from /repo on
  every run (Gen/Host.lean), against MuJoCo's rule `Spec.Sensor.energyEvaluated` (mj_forwardSkip / mj_sensorPos).
  See the header of Props/C07.lean for the overview.
  Method: (4.0) the complete list of energy-related events of `forward()` — kernel launches of energy_pos/energy_vel, the
  position-sensor kernel that reads d.energy, host writes of d.energy — with the source text of their enclosing host
  conditions is extracted from the generated graph and fixed by kernel evaluation; (4a-4d) every guard is interpreted
  in each of the 16 configurations of (ENERGY enable flag, SENSOR disable flag, e_potential sensor, e_kinetic sensor)
  (guards about gravity/spring flags and ntendon are kept, i.e. the statements hold for all their values).
-/
import MjwVerif.Gen.Host
import MjwVerif.Spec.Sensor

namespace Mjw.Props.C07
open Mjw Mjw.Spec.Sensor

/-! ## 4. when is the energy evaluated (host graph of `forward()`, Gen/Host.lean) -/

open Mjw.HostGraph Mjw.Gen.Host

/-- a host event with its names spelled out: (kind, kernel or field, enclosing host conditions outermost first) -/
abbrev NEvent := EvKind × String × List String

def energySubjects : List String :=
  ["sensor._energy_pos_zero", "sensor._energy_pos_gravity", "sensor._energy_pos_passive_joint",
   "sensor._energy_pos_passive_tendon", "sensor._energy_vel_kinetic.energy_vel_kinetic", "sensor._sensor_pos", "d.energy"]

/-- the energy-related events of `forward()`, in program order -/
def energyEvents : List NEvent :=
  (forward_forward.filter (fun ev => energySubjects.contains (name ev.subject))).map
    (fun ev => (ev.kind, name ev.subject, ev.conds.map name))

/-- (4.0) **the complete list**: the sensor stage evaluates the energies for the energy sensors (guards: sensors
    enabled, sensor present), then `_sensor_pos` copies them; `_energy_pos/_energy_vel` evaluate them under the ENERGY
    flag when the sensor stage did not (no such sensor, or sensors disabled), and zero `d.energy` when the flag is off -/
theorem energy_events_eq : energyEvents = [
   (EvKind.launch, "sensor._energy_pos_zero", ["not (m.opt.disableflags & DisableBit.SENSOR)", "m.sensor_e_potential"]),
   (EvKind.launch, "sensor._energy_pos_gravity", ["not (m.opt.disableflags & DisableBit.SENSOR)", "m.sensor_e_potential", "not m.opt.disableflags & DisableBit.GRAVITY"]),
   (EvKind.launch, "sensor._energy_pos_passive_joint", ["not (m.opt.disableflags & DisableBit.SENSOR)", "m.sensor_e_potential", "not m.opt.disableflags & DisableBit.SPRING"]),
   (EvKind.launch, "sensor._energy_pos_passive_tendon", ["not (m.opt.disableflags & DisableBit.SENSOR)", "m.sensor_e_potential", "not m.opt.disableflags & DisableBit.SPRING", "m.ntendon"]),
   (EvKind.launch, "sensor._energy_vel_kinetic.energy_vel_kinetic", ["not (m.opt.disableflags & DisableBit.SENSOR)", "m.sensor_e_kinetic"]),
   (EvKind.launch, "sensor._sensor_pos", ["not (m.opt.disableflags & DisableBit.SENSOR)"]),
   (EvKind.launch, "sensor._energy_pos_zero", ["m.opt.enableflags & EnableBit.ENERGY", "m.sensor_e_potential == 0 or m.opt.disableflags & DisableBit.SENSOR"]),
   (EvKind.launch, "sensor._energy_pos_gravity", ["m.opt.enableflags & EnableBit.ENERGY", "m.sensor_e_potential == 0 or m.opt.disableflags & DisableBit.SENSOR", "not m.opt.disableflags & DisableBit.GRAVITY"]),
   (EvKind.launch, "sensor._energy_pos_passive_joint", ["m.opt.enableflags & EnableBit.ENERGY", "m.sensor_e_potential == 0 or m.opt.disableflags & DisableBit.SENSOR", "not m.opt.disableflags & DisableBit.SPRING"]),
   (EvKind.launch, "sensor._energy_pos_passive_tendon", ["m.opt.enableflags & EnableBit.ENERGY", "m.sensor_e_potential == 0 or m.opt.disableflags & DisableBit.SENSOR", "not m.opt.disableflags & DisableBit.SPRING", "m.ntendon"]),
   (EvKind.hostWrite, "d.energy", ["not (m.opt.enableflags & EnableBit.ENERGY)"]),
   (EvKind.launch, "sensor._energy_vel_kinetic.energy_vel_kinetic", ["m.opt.enableflags & EnableBit.ENERGY", "m.sensor_e_kinetic == 0 or m.opt.disableflags & DisableBit.SENSOR"])] := by
  decide +kernel

/-- truth value of a host guard in the configuration (ENERGY enable flag `e`, SENSOR disable flag `s`, model has an
    `e_potential` sensor `p` / an `e_kinetic` sensor `k`); any other guard is kept -/
def guardHolds (e s p k : Bool) (g : String) : Bool :=
  if g = "m.opt.enableflags & EnableBit.ENERGY" then e
  else if g = "not (m.opt.enableflags & EnableBit.ENERGY)" then !e
  else if g = "not (m.opt.disableflags & DisableBit.SENSOR)" then !s
  else if g = "m.sensor_e_potential" then p
  else if g = "m.sensor_e_kinetic" then k
  else if g = "m.sensor_e_potential == 0 or m.opt.disableflags & DisableBit.SENSOR" then !p || s
  else if g = "m.sensor_e_kinetic == 0 or m.opt.disableflags & DisableBit.SENSOR" then !k || s
  else true

/-- events that run in the configuration -/
def eventsIn (evs : List NEvent) (e s p k : Bool) : List NEvent := evs.filter (fun ev => ev.2.2.all (guardHolds e s p k))

/-- how often `kernel` is launched in the configuration -/
def launchCount (evs : List NEvent) (e s p k : Bool) (kernel : String) : Nat :=
  ((eventsIn evs e s p k).filter (fun ev => ev.1 == EvKind.launch && ev.2.1 == kernel)).length

/-- (4a) the potential energy is (re)initialised and accumulated once by the sensor stage iff an `e_potential` sensor
    exists and sensors are enabled, and once by `_energy_pos` iff the ENERGY flag is set and the sensor stage does not do
    it (no such sensor, or sensors disabled); likewise for the kinetic energy.  In particular it is never evaluated twice. -/
theorem energy_launch_counts : ∀ e s p k : Bool,
    launchCount energyEvents e s p k "sensor._energy_pos_zero" = (if p && !s then 1 else 0) + (if e && (!p || s) then 1 else 0)
    ∧ launchCount energyEvents e s p k "sensor._energy_vel_kinetic.energy_vel_kinetic"
        = (if k && !s then 1 else 0) + (if e && (!k || s) then 1 else 0) := by
  rw [energy_events_eq]; decide +kernel

/-- (4b) **agreement with MuJoCo's gating in all 16 configurations**: the energy kernels run iff `energyEvaluated`
    (ENERGY flag set, or energy sensor present and sensors enabled), and then exactly once.
    (Before /repo commit "fix: d.energy stayed stale with the energy flag on, an energy sensor present and the sensor
    stage disabled" this failed for flag ∧ sensor ∧ sensors-disabled; found by this property's check.) -/
theorem energy_gating : ∀ e s p k : Bool,
    launchCount energyEvents e s p k "sensor._energy_pos_zero" = (if energyEvaluated e s p then 1 else 0)
    ∧ launchCount energyEvents e s p k "sensor._energy_vel_kinetic.energy_vel_kinetic" = (if energyEvaluated e s k then 1 else 0) := by
  rw [energy_events_eq]; decide +kernel

/-- (4c) `d.energy` is zeroed by the host iff the ENERGY flag is off (MuJoCo never computes it then, unless an energy
    sensor does — in which case MuJoCo keeps the sensor-computed value, see C07Witness W5) -/
theorem energy_zeroed_iff_flag_off : ∀ e s p k : Bool,
    ((eventsIn energyEvents e s p k).filter (fun ev => ev.1 == EvKind.hostWrite && ev.2.1 == "d.energy")).length
      = if e then 0 else 1 := by
  rw [energy_events_eq]; decide +kernel

/-- energy-related events that run in the configuration, in program order -/
def energySeq (evs : List NEvent) (e s p k : Bool) : List String := (eventsIn evs e s p k).map (·.2.1)

/-- (4d) order with energy sensors and the flag off: zero → gravity → joint springs → tendon springs → kinetic → the
    sensor kernel copies `d.energy` → `d.energy` is zeroed;  with the flag on and no energy sensor: sensors first, then
    the same accumulation order, kinetic after the velocity stage;  with the flag on, energy sensors present and the
    sensor stage disabled (the repaired configuration): the same kernels, run by `_energy_pos/_energy_vel` -/
theorem energy_sequences :
    energySeq energyEvents false false true true
      = ["sensor._energy_pos_zero", "sensor._energy_pos_gravity", "sensor._energy_pos_passive_joint",
         "sensor._energy_pos_passive_tendon", "sensor._energy_vel_kinetic.energy_vel_kinetic", "sensor._sensor_pos", "d.energy"]
    ∧ energySeq energyEvents true false false false
      = ["sensor._sensor_pos", "sensor._energy_pos_zero", "sensor._energy_pos_gravity", "sensor._energy_pos_passive_joint",
         "sensor._energy_pos_passive_tendon", "sensor._energy_vel_kinetic.energy_vel_kinetic"]
    ∧ energySeq energyEvents true true true true
      = ["sensor._energy_pos_zero", "sensor._energy_pos_gravity", "sensor._energy_pos_passive_joint",
         "sensor._energy_pos_passive_tendon", "sensor._energy_vel_kinetic.energy_vel_kinetic"] := by
  rw [energy_events_eq]; decide +kernel

/-! ## 5. the cutoff pass over atomically accumulated sensors (touch, tendon actuator force) -/

/-- (5a) **touch sensors are accumulated, then cut off**: the events of `forward()` that read `m.sensor_touch_adr` are, in
    program order, the launch of `_sensor_touch` (atomic accumulation of the normal forces) and the launch of the generic
    cutoff post-pass `_tendon_actuator_force_cutoff` (kernel theorems `cutoff_postpass_spec`, `touch_cutoff_spec` of
    Props/C07.lean), both guarded by "sensors enabled" only.
    (Before /repo commit "fix: touch sensors ignored sensor_cutoff" only the first event existed; found by this check.) -/
theorem touch_then_cutoff_pass :
    ((forward_forward.filter (fun ev => ev.reads.contains (nameId "m.sensor_touch_adr"))).map
        (fun ev => (ev.kind, name ev.subject, ev.conds.map name)))
      = [(EvKind.launch, "sensor._sensor_touch", ["not (m.opt.disableflags & DisableBit.SENSOR)"]),
         (EvKind.launch, "sensor._tendon_actuator_force_cutoff", ["not (m.opt.disableflags & DisableBit.SENSOR)"])] := by
  decide +kernel

/-- (5b) every launch of `forward()` that accumulates into `d.sensordata` atomically over contacts or actuators
    (`_sensor_touch`, `_tendon_actuator_force`) is followed IMMEDIATELY (next host event, same guards) by a launch of the
    cutoff post-pass over the same address list, which reads the sensors' type, data type, address, cutoff and
    `d.sensordata` -/
theorem accumulating_sensor_launches_have_cutoff_pass :
    ((forward_forward.zip (forward_forward.drop 1)).filter
        (fun p => p.1.subject == nameId "sensor._sensor_touch" || p.1.subject == nameId "sensor._tendon_actuator_force")).map
      (fun p => (name p.1.subject, p.2.kind, name p.2.subject, p.2.conds == p.1.conds,
        ["m.sensor_type", "m.sensor_datatype", "m.sensor_adr", "m.sensor_cutoff", "d.sensordata",
         if p.1.subject == nameId "sensor._sensor_touch" then "m.sensor_touch_adr" else "m.sensor_tendonactfrc_adr"].all
          (fun s => p.2.reads.contains (nameId s))))
      = [("sensor._sensor_touch", EvKind.launch, "sensor._tendon_actuator_force_cutoff", true, true),
         ("sensor._tendon_actuator_force", EvKind.launch, "sensor._tendon_actuator_force_cutoff", true, true)] := by
  decide +kernel

end Mjw.Props.C07
