/-
  C14 witnesses: "worlds with an invalid key index are left untouched" fails for the contact arrays,
  because `reset_data_keyframe` calls `reset_data` with the partial mask computed by `valid_key_mask`.
  Both are the C13 witnesses (Props/C13Witness.lean) with the mask produced from a key array (`C14.keyMask`,
  which is what `Mjw.Gen.Io.reset_data_keyframe__valid_key_mask` writes, `C14.valid_key_mask_spec`).

  * `invalid_key_world_loses_contact`   nkey = 1, keys = [0, -1] (world 0 valid, world 1 invalid), one active
        contact owned by world 1: after the reset launches `nacon[0] = 0` although world 1's tasks wrote nothing.
  * `invalid_key_world_gets_phantom`    nkey = 1, keys = [-1, 0] (world 0 invalid, world 1 valid), two active
        contacts: `nacon[0]` stays 2 and world 1's cleared slot is re-tagged `worldid = 0`, `dim = 0`.
-/
import MjwVerif.Lemmas.Real
import MjwVerif.Lemmas.C13
import MjwVerif.Props.C13Witness
import MjwVerif.Props.C14
import MjwVerif.Gen.Io

namespace Mjw.Props.C14Witness
open Mjw Mjw.Lemmas.C13 Mjw.Props.C14

/-- keys `[0, -1, -1, …]` with one keyframe: exactly world 0 is valid -/
theorem keyMask_only_world0 :
    keyMask 1 (fun w => if w = 0 then 0 else -1) = fun w => decide (w = 0) := by
  funext w
  by_cases h : w = 0 <;> simp [keyMask, h]

/-- keys: world 1 ↦ 0, every other world ↦ -1, one keyframe: exactly world 1 is valid -/
theorem keyMask_only_world1 :
    keyMask 1 (fun w => if w = 1 then 0 else -1) = fun w => decide (w = 1) := by
  funext w
  by_cases h : w = 1 <;> simp [keyMask, h]

section
variable {K : Type} [Scalar K] (nq nv nu na nbody ntree neq nuserdata nsensordata : Int) (qpos0 : Int → Int → K)
  (eq_active0 : Int → Bool) (nworld_in : Int)
  (solver_niter_out ne_out nf_out nl_out nefc_out ntree_awake_out nbody_awake_out nv_awake_out : Int → Int)
  (time_out : Int → K) (energy_out : Int → V2 K)
  (qpos_out qvel_out act_out qacc_warmstart_out ctrl_out qfrc_applied_out : Int → Int → K)
  (eq_active_out : Int → Int → Bool) (qacc_out act_dot_out userdata_out sensordata_out : Int → Int → K)
  (nacon_out overflow_out : Int → Int) (qpos0_shape0 : Int)
  (nefcaddress : Int)
  (contact_dist_out : Int → K) (contact_pos_out : Int → V3 K) (contact_frame_out : Int → M33 K)
  (contact_includemargin_out : Int → K) (contact_friction_out : Int → V5 K)
  (contact_solref_out contact_solreffriction_out : Int → V2 K) (contact_solimp_out : Int → V5 K)
  (contact_dim_out : Int → Int) (contact_geom_out contact_flex_out contact_elem_out contact_vert_out : Int → I2)
  (contact_efc_address_out : Int → Int → Int)
  (contact_type_out contact_geomcollisionid_out : Int → Int) (contact_adhesion_out : Int → K)
  (sh_flex sh_elem sh_vert : Int)

local notation "NW(" m ", " w ")" =>
  Gen.Io.reset_data__reset_nworld nq nv nu na nbody ntree neq nuserdata nsensordata qpos0 eq_active0 nworld_in
    m solver_niter_out ne_out nf_out nl_out nefc_out ntree_awake_out nbody_awake_out nv_awake_out
    time_out energy_out qpos_out qvel_out act_out qacc_warmstart_out ctrl_out qfrc_applied_out eq_active_out
    qacc_out act_dot_out userdata_out sensordata_out nacon_out overflow_out true qpos0_shape0 w

local notation "RC(" n ", " m ", " cw ", " c ")" =>
  Gen.Io.reset_data__reset_contact n m nefcaddress contact_dist_out contact_pos_out
    contact_frame_out contact_includemargin_out contact_friction_out contact_solref_out
    contact_solreffriction_out contact_solimp_out contact_dim_out contact_geom_out contact_flex_out
    contact_elem_out contact_vert_out contact_efc_address_out cw contact_type_out
    contact_geomcollisionid_out contact_adhesion_out true sh_flex sh_elem sh_vert c

/-- **invalid_key_world_loses_contact**: keys = [0, -1], nkey = 1.  World 1 (invalid key) is "left untouched"
    by its own tasks, but its single live contact drops out of the active range: `nacon[0]` becomes 0. -/
theorem invalid_key_world_loses_contact :
    let m : Int → Bool := keyMask 1 (fun w => if w = 0 then 0 else -1)
    let n : Int → Int := fun _ => 1
    let cw : Int → Int := fun _ => 1
    let contactLaunch : List (Write K) := RC(n, m, cw, 0) ++ RC(n, m, cw, 1)
    let nworldLaunch : List (Write K) := NW(m, 0) ++ NW(m, 1)
    contactLaunch = [] ∧ NW(m, 1) = []
      ∧ Write.lookupI (contactLaunch ++ nworldLaunch) "nacon_out" [0] (n 0) = 0 := by
  rw [keyMask_only_world0]
  exact C13Witness.nacon_dropped_witness nq nv nu na nbody ntree neq nuserdata nsensordata qpos0 eq_active0
    nworld_in solver_niter_out ne_out nf_out nl_out nefc_out ntree_awake_out nbody_awake_out nv_awake_out
    time_out energy_out qpos_out qvel_out act_out qacc_warmstart_out ctrl_out qfrc_applied_out eq_active_out
    qacc_out act_dot_out userdata_out sensordata_out nacon_out overflow_out qpos0_shape0 nefcaddress
    contact_dist_out contact_pos_out contact_frame_out contact_includemargin_out contact_friction_out
    contact_solref_out contact_solreffriction_out contact_solimp_out contact_dim_out contact_geom_out
    contact_flex_out contact_elem_out contact_vert_out contact_efc_address_out contact_type_out
    contact_geomcollisionid_out contact_adhesion_out sh_flex sh_elem sh_vert

/-- **invalid_key_world_gets_phantom**: keys = [-1, 0], nkey = 1.  World 0 (invalid key) is not reset, yet after
    the launches it owns both active contact slots (slot 1 re-tagged `worldid = 0`, `dim = 0`), `nacon` still 2. -/
theorem invalid_key_world_gets_phantom :
    let m : Int → Bool := keyMask 1 (fun w => if w = 1 then 0 else -1)
    let n : Int → Int := fun _ => 2
    let cw : Int → Int := fun c => c
    let contactLaunch : List (Write K) := RC(n, m, cw, 0) ++ RC(n, m, cw, 1)
    let nworldLaunch : List (Write K) := NW(m, 0) ++ NW(m, 1)
    let all := contactLaunch ++ nworldLaunch
    RC(n, m, cw, 0) = [] ∧ NW(m, 0) = []
      ∧ Write.lookupI all "nacon_out" [0] (n 0) = 2
      ∧ Write.lookupI all "contact_worldid_out" [0] (cw 0) = 0
      ∧ Write.lookupI all "contact_worldid_out" [1] (cw 1) = 0
      ∧ Write.lookupI all "contact_dim_out" [1] (contact_dim_out 1) = 0 := by
  rw [keyMask_only_world1]
  exact C13Witness.phantom_contact_witness nq nv nu na nbody ntree neq nuserdata nsensordata qpos0 eq_active0
    nworld_in solver_niter_out ne_out nf_out nl_out nefc_out ntree_awake_out nbody_awake_out nv_awake_out
    time_out energy_out qpos_out qvel_out act_out qacc_warmstart_out ctrl_out qfrc_applied_out eq_active_out
    qacc_out act_dot_out userdata_out sensordata_out nacon_out overflow_out qpos0_shape0 nefcaddress
    contact_dist_out contact_pos_out contact_frame_out contact_includemargin_out contact_friction_out
    contact_solref_out contact_solreffriction_out contact_solimp_out contact_dim_out contact_geom_out
    contact_flex_out contact_elem_out contact_vert_out contact_efc_address_out contact_type_out
    contact_geomcollisionid_out contact_adhesion_out sh_flex sh_elem sh_vert

end

end Mjw.Props.C14Witness
