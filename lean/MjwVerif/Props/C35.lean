/-
  C35  Rendered depth and segmentation match ray casting:  for every camera pixel, the rendered depth and
  segmentation equal the distance and the geom of the nearest hit of that pixel's camera ray among rendered geoms.

  STATUS: `C35_partial`.

  PROVED (all inputs, K = ℝ):
  §1  nearest-hit reduction of the per-pixel loop of `render.py:cast_ray` (hand model `Model/RayCast.lean`, the loop and
      the megakernel are not in `Gen/`): the result distance is ≤ the start bound and ≤ every valid (`d ≥ 0`) candidate
      distance and is attained; `geom_id = -1` iff nothing is hit below `max_dist`; misses are irrelevant; permuting the
      candidates never changes the distance and changes the id only on exact ties; on ties the FIRST candidate wins
      (strict `<`); backface culling turns exactly the hits with `dir·n > 0` into misses; stored depth is the PLANAR depth
      `dist·(-ray_local.z)` = minus the camera-frame z of the hit point, 0 on a miss; segmentation `(-1,-1)` on a miss.
  §2  BVH traversal soundness for the model `RayCast.traverse` (ANY binary tree, ANY child order, ANY box test evaluated
      against the current best distance): if the box test never prunes a node above a primitive that is hit below the
      current bound (`Sound`; implied by: nested boxes + leaf boxes contain the hit points + the test accepts every box
      containing a ray point with `0 ≤ t < tmax`), the traversal result equals the brute-force loop over all leaves
      (distance always, id when there is no exact tie).
  §3  `Gen.Render_util.compute_ray` (regenerated from render_util.py): closed forms for the fovy and the
      intrinsic/sensorsize branch; the result is a unit vector; it is the direction from the eye through the centre of
      pixel `(px,py)` on the image plane `z = -znear` (`left + (right-left)(px+½)/W`, `top + (bottom-top)(py+½)/H`);
      the centre pixel of an odd-sized image maps to `(0,0,-1)`; in the fovy branch the direction does not depend on
      `znear`; ORTHOGRAPHIC cameras get the same ray `(0,0,-1)` for every pixel (see the Witness file: a defect).
  §4  `Gen.Bvh._compute_{sphere,capsule,box,ellipsoid,cylinder,plane}_bounds` (regenerated from bvh.py): the leaf box
      contains every point of the geom (plane: only for a FINITE plane `size0,size1 > 0`).
      MESH leaves (defect found by this check, repaired in /repo 670227b "fix: rendered meshes were clipped when their
      vertex bounding box is not centred on the geom frame"): with the host-side half extent
      `half = max(|pmin|, |pmax|)` of `bvh.build_mesh_bvh` (hand model `RayCast.meshHalf`, numpy code is not translated)
      every vertex satisfies `|v_i| ≤ half_i`, hence `_compute_box_bounds(pos, rot, half)` contains every vertex and every
      point of every triangle of the mesh, for every vertex list, pose and `rot`.
  §5  end to end for scenes of spheres, with `Gen.Ray.ray_sphere` and `Gen.Bvh._compute_sphere_bounds`: any BVH over
      the sphere leaf boxes with nested inner boxes, traversed in any order with any correct ray/box test, returns the
      distance of the brute-force nearest `ray_sphere` hit.
  Ray/primitive intersection functions themselves (nearest root, on-surface, normal) are C34's theorems (`Props/C34`).

  ASSUMED / TRUSTED: Warp's `wp.Bvh` build/refit and `wp.bvh_query_ray/next` (opaque; only their contract is used, as
  hypotheses `Nested`, `VisitOK`), `wp.mesh_query_ray`; float32 round-off; `RayCast` is a transcription of the Python loop
  (checked against the real renderer only through the harness oracle, which compares each pixel with `mujoco.mj_ray`).

  MISSING: `render._render_megakernel`, `cast_ray`, `bvh._compute_bvh_bounds` are not translated (closure factories,
  opaque BVH builtins, branch-defined locals), so the pixel → (camera, px, py) decoding, the `enabled_geom_ids`
  indirection and the per-type dispatch of the leaf callback are not covered by a theorem; mesh / hfield / flex leaves;
  §5 only for spheres (other primitives need C34's local-frame statements transported to world coordinates).

  FALSE of the code (see `Props/C35Witness.lean`): infinite planes get a ±1000 leaf box; orthographic cameras get one
  ray for all pixels (`compute_ray_orthographic_constant` below); a scene without rendered geoms crashes (harness only).
-/
import MjwVerif.Lemmas.C35Geom
import MjwVerif.Props.C34
import MjwVerif.Gen.Ray

set_option linter.unusedSimpArgs false
namespace Mjw.Props.C35
open Mjw Mjw.RayCast Mjw.Lemmas.C34 Mjw.Lemmas.C35 Mjw.Gen.Bvh Mjw.Gen.Render_util Mjw.Gen.Ray

/-! ### §1 nearest-hit reduction -/

/-- (1a) the loop returns a nearest-hit answer: distance `≤ max_dist`, `≤` every valid candidate distance, and it is
    either the start state `(max_dist, -1)` or a valid candidate strictly below `max_dist`. -/
theorem castList_nearest (maxDist : ℝ) (L : List (Int × ℝ)) :
    IsNearest ⟨maxDist, -1⟩ L (castList maxDist L) :=
  castFrom_isNearest L _

/-- (1b) no hit is reported (`geom_id = -1`, i.e. background pixel) iff no candidate is a valid hit below `max_dist`
    (candidate ids are geom ids, never -1). -/
theorem castList_miss_iff (maxDist : ℝ) (L : List (Int × ℝ)) (hid : ∀ c ∈ L, c.1 ≠ -1) :
    (castList maxDist L).id = -1 ↔ ∀ c ∈ L, c.2 < 0 ∨ maxDist ≤ c.2 := by
  have h := castList_nearest maxDist L
  constructor
  · intro he c hc
    rcases h.attained with e | ⟨c', hc', h0, hlt, e⟩
    · by_contra hn
      rw [not_or, not_lt, not_le] at hn
      have := h.le_hits c hc hn.1
      rw [e] at this
      linarith [hn.2]
    · rw [e] at he
      exact absurd he (hid c' hc')
  · intro hall
    have : castList maxDist L = ⟨maxDist, -1⟩ := castFrom_of_no_better L _ hall
    rw [this]

/-- (1c) candidates that miss (`d < 0`) or lie at/after the bound do not influence the result -/
theorem castList_ignores_misses (maxDist : ℝ) (L : List (Int × ℝ)) :
    castList maxDist (L.filter (fun c => decide (0 ≤ c.2))) = castList maxDist L := by
  unfold castList
  generalize (⟨maxDist, -1⟩ : Best ℝ) = b
  induction L generalizing b with
  | nil => rfl
  | cons c L ih =>
    by_cases hc : 0 ≤ c.2
    · rw [List.filter_cons_of_pos (by simpa using hc), castFrom_cons, castFrom_cons, ih]
    · rw [List.filter_cons_of_neg (by simpa using hc), castFrom_cons,
        step_of_not_better b c.1 c.2 (Or.inl (not_le.mp hc)), ih]

/-- (1d) permutation invariance: the distance never depends on the order of the candidates; the id does not either
    unless two valid candidates are at exactly the same distance. -/
theorem castList_perm (maxDist : ℝ) (L L' : List (Int × ℝ)) (hp : L.Perm L') :
    (castList maxDist L).dist = (castList maxDist L').dist ∧
    (NoTies L → castList maxDist L = castList maxDist L') := by
  have h := castList_nearest maxDist L
  have h' := (castList_nearest maxDist L').congr (fun c => (hp.mem_iff (a := c)).symm)
  exact ⟨h.dist_unique h', fun hnt => h.unique hnt h'⟩

/-- (1e) tie rule (strict `d < dist`): the FIRST candidate attaining the minimum wins. -/
theorem castList_first_wins (maxDist : ℝ) (L1 L2 : List (Int × ℝ)) (i : Int) (d : ℝ)
    (h0 : 0 ≤ d) (hlt : d < maxDist) (h1 : ∀ c ∈ L1, c.2 < 0 ∨ d < c.2) (h2 : ∀ c ∈ L2, c.2 < 0 ∨ d ≤ c.2) :
    castList maxDist (L1 ++ (i, d) :: L2) = ⟨d, i⟩ := by
  unfold castList
  rw [castFrom_append, castFrom_cons]
  have hn := castFrom_isNearest L1 (⟨maxDist, -1⟩ : Best ℝ)
  have hd : d < (castFrom (⟨maxDist, -1⟩ : Best ℝ) L1).dist := by
    rcases hn.attained with e | ⟨c, hc, c0, _, e⟩
    · rw [e]; exact hlt
    · rw [e]
      rcases h1 c hc with h | h
      · linarith
      · exact h
  have hs : step (castFrom (⟨maxDist, -1⟩ : Best ℝ) L1) i d = ⟨d, i⟩ := by
    rw [step_eq, if_pos ⟨h0, hd⟩]
  rw [hs]
  exact castFrom_of_no_better L2 _ h2

/-- (1f) backface culling: with culling enabled exactly the valid hits whose normal points along the ray
    (`dir·n > 0`: ray leaves the geom, i.e. the origin is inside) become misses; everything else is unchanged. -/
theorem cull_spec (c : Bool) (d dt : ℝ) :
    (c = true → 0 ≤ d → 0 < dt → cull c d dt = -1) ∧ (¬ (c = true ∧ 0 ≤ d ∧ 0 < dt) → cull c d dt = d) := by
  rw [cull_eq]
  constructor
  · intro h1 h2 h3; rw [if_pos ⟨h1, h2, h3⟩]
  · intro h; rw [if_neg h]

/-- (1g) the stored depth is PLANAR depth: for a hit, `depth = dist·(-dir_local.z)`, which is minus the z coordinate of
    the hit point `dist·dir_local` in the camera frame (distance along the optical axis `-z`), not the Euclidean
    distance `dist`; for a miss depth is 0 and segmentation stays `(-1,-1)`. -/
theorem depth_is_planar (r : Best ℝ) (dirLocal : V3 ℝ) :
    (r.id ≠ -1 → depthOut r dirLocal.c2 = -(V3.muls dirLocal r.dist).c2 ∧ segOut r = (r.id, 5)) ∧
    (r.id = -1 → depthOut r dirLocal.c2 = 0 ∧ segOut r = (-1, -1)) := by
  constructor
  · intro h
    simp only [depthOut, segOut, if_neg h, V3.muls, hmul, hneg]
    exact ⟨by ring, trivial⟩
  · intro h
    simp only [depthOut, segOut, if_pos h, lit0]
    exact ⟨trivial, trivial⟩

example : castList (10 : ℝ) [(3, -1), (7, 2), (4, 5), (9, 2)] = ⟨2, 7⟩ :=
  castList_first_wins 10 [(3, -1)] [(4, 5), (9, 2)] 7 2 (by norm_num) (by norm_num)
    (by intro c hc; simp only [List.mem_singleton] at hc; subst hc; left; norm_num)
    (by intro c hc; simp only [List.mem_cons, List.not_mem_nil, or_false] at hc; rcases hc with rfl | rfl <;> right <;> norm_num)

/-! ### §2 BVH traversal soundness -/

/-- (2a) any sound pruned traversal returns a nearest-hit answer over ALL leaves -/
theorem castTree_nearest {B : Type} (visit order : B → ℝ → Bool) (hitD : Int → ℝ) (maxDist : ℝ) (t : BvhTree B)
    (hs : Sound visit hitD t) :
    IsNearest ⟨maxDist, -1⟩ (cands hitD t) (castTree visit order hitD maxDist t) :=
  traverse_isNearest visit order hitD t _ hs

/-- (2b) **traversal = brute force**: same distance as the loop over all leaves, for every tree shape, child order and
    sound box test; same geom id too unless two leaves are hit at exactly the same distance. -/
theorem castTree_eq_bruteforce {B : Type} (visit order : B → ℝ → Bool) (hitD : Int → ℝ) (maxDist : ℝ) (t : BvhTree B)
    (hs : Sound visit hitD t) :
    (castTree visit order hitD maxDist t).dist = (castList maxDist (cands hitD t)).dist ∧
    (NoTies (cands hitD t) → castTree visit order hitD maxDist t = castList maxDist (cands hitD t)) := by
  have h := castTree_nearest visit order hitD maxDist t hs
  have h' := castList_nearest maxDist (cands hitD t)
  exact ⟨h.dist_unique h', fun hnt => h.unique hnt h'⟩

/-- (2c) two sound traversals (different orders, different box tests, e.g. before/after a refit) agree -/
theorem castTree_order_independent {B : Type} (visit visit' order order' : B → ℝ → Bool) (hitD : Int → ℝ) (maxDist : ℝ)
    (t : BvhTree B) (hs : Sound visit hitD t) (hs' : Sound visit' hitD t) :
    (castTree visit order hitD maxDist t).dist = (castTree visit' order' hitD maxDist t).dist :=
  (castTree_nearest visit order hitD maxDist t hs).dist_unique (castTree_nearest visit' order' hitD maxDist t hs')

/-- (2d) geometric form: boxes nested, every leaf box contains the point where the ray hits its primitive, and the
    ray/box test accepts every box containing a ray point with `0 ≤ t < tmax` ⇒ traversal = brute force. -/
theorem castTree_eq_bruteforce_geometric (pnt vec : V3 ℝ) (visit order : Box ℝ → ℝ → Bool) (hitD : Int → ℝ)
    (maxDist : ℝ) (t : BvhTree (Box ℝ)) (hv : VisitOK pnt vec visit) (hn : Nested t) (hl : LeafOK pnt vec hitD t) :
    (castTree visit order hitD maxDist t).dist = (castList maxDist (cands hitD t)).dist ∧
    (NoTies (cands hitD t) → castTree visit order hitD maxDist t = castList maxDist (cands hitD t)) :=
  castTree_eq_bruteforce visit order hitD maxDist t (sound_of_geometry pnt vec visit hitD hv t hn hl)

/-! ### §3 `compute_ray` -/

/-- (3a) perspective camera, `sensorsize[1] = 0`: direction through `(hw·ndc_x, -hh·ndc_y, -znear)` with
    `hh = znear·tan(fovy/2)`, `hw = hh·W/H`, `ndc = 2(p+½)/n - 1`. -/
theorem compute_ray_fovy_form (proj : Int) (fovy : ℝ) (ss : V2 ℝ) (intr : V4 ℝ) (w h px py : Int) (zn : ℝ)
    (hp : proj ≠ 1) (hs : ss.c1 = 0) :
    compute_ray proj fovy ss intr w h px py zn =
      V3.normalize ⟨zn * halfTan fovy * ((w : ℝ) / (h : ℝ)) * ndc px w, zn * halfTan fovy * (-(ndc py h)), -zn⟩ :=
  compute_ray_fovy proj fovy ss intr w h px py zn hp hs

/-- (3b) perspective camera with sensor size: direction through
    `(znear/fx·(sw'·ndc_x/2 + cx), znear/fy·(-sh'·ndc_y/2 - cy), -znear)`, `(sw',sh')` = sensor clipped to the image
    aspect ratio. -/
theorem compute_ray_intrinsic_form (proj : Int) (fovy : ℝ) (ss : V2 ℝ) (intr : V4 ℝ) (w h px py : Int) (zn : ℝ)
    (hp : proj ≠ 1) (hs : ss.c1 ≠ 0) :
    compute_ray proj fovy ss intr w h px py zn =
      V3.normalize ⟨zn / intr.c0 * ((effSensor ss w h).1 * (ndc px w / 2) + intr.c2),
                    zn / intr.c1 * ((effSensor ss w h).2 * (-(ndc py h) / 2) - intr.c3), -zn⟩ :=
  compute_ray_intrinsic proj fovy ss intr w h px py zn hp hs

/-- every generated ray is `normalize (x, y, -znear)` (perspective) or `(0,0,-1)` (orthographic) -/
theorem compute_ray_shape (proj : Int) (fovy : ℝ) (ss : V2 ℝ) (intr : V4 ℝ) (w h px py : Int) (zn : ℝ) (hp : proj ≠ 1) :
    ∃ x y : ℝ, compute_ray proj fovy ss intr w h px py zn = V3.normalize ⟨x, y, -zn⟩ := by
  by_cases hs : ss.c1 = 0
  · exact ⟨_, _, compute_ray_fovy proj fovy ss intr w h px py zn hp hs⟩
  · exact ⟨_, _, compute_ray_intrinsic proj fovy ss intr w h px py zn hp hs⟩

/-- (3c) **unit length**, every projection, every pixel, every intrinsics (only `znear ≠ 0`) -/
theorem compute_ray_unit (proj : Int) (fovy : ℝ) (ss : V2 ℝ) (intr : V4 ℝ) (w h px py : Int) (zn : ℝ) (hz : zn ≠ 0) :
    V3.dot (compute_ray proj fovy ss intr w h px py zn) (compute_ray proj fovy ss intr w h px py zn) = 1 := by
  by_cases hp : proj = 1
  · rw [hp, compute_ray_ortho]
    simp only [V3.dot, hadd, hmul]; norm_num
  · obtain ⟨x, y, e⟩ := compute_ray_shape proj fovy ss intr w h px py zn hp
    rw [e]
    exact normalize_unit_of_z x y (-zn) (neg_ne_zero.mpr hz)

/-- (3d) **through the pixel centre**: for `znear > 0` the ray points forward (`z < 0`) and, rescaled to the image plane
    `z = -znear`, it passes through `(left + (right-left)·u, top + (bottom-top)·v)`, `u = (px+½)/W`, `v = (py+½)/H`
    (fovy branch written out: `x = hw·ndc_x`, `y = -hh·ndc_y`). -/
theorem compute_ray_through_pixel_centre (proj : Int) (fovy : ℝ) (ss : V2 ℝ) (intr : V4 ℝ) (w h px py : Int) (zn : ℝ)
    (hp : proj ≠ 1) (hs : ss.c1 = 0) (hz : 0 < zn) :
    let r := compute_ray proj fovy ss intr w h px py zn
    r.c2 < 0 ∧
    V3.muls r (-zn / r.c2) =
      ⟨zn * halfTan fovy * ((w : ℝ) / (h : ℝ)) * ndc px w, zn * halfTan fovy * (-(ndc py h)), -zn⟩ := by
  intro r
  have e : r = _ := compute_ray_fovy proj fovy ss intr w h px py zn hp hs
  rw [e]
  exact normalize_through _ _ (-zn) (by linarith)

/-- (3d') the same for the intrinsic branch -/
theorem compute_ray_through_pixel_centre_intrinsic (proj : Int) (fovy : ℝ) (ss : V2 ℝ) (intr : V4 ℝ)
    (w h px py : Int) (zn : ℝ) (hp : proj ≠ 1) (hs : ss.c1 ≠ 0) (hz : 0 < zn) :
    let r := compute_ray proj fovy ss intr w h px py zn
    r.c2 < 0 ∧
    V3.muls r (-zn / r.c2) =
      ⟨zn / intr.c0 * ((effSensor ss w h).1 * (ndc px w / 2) + intr.c2),
       zn / intr.c1 * ((effSensor ss w h).2 * (-(ndc py h) / 2) - intr.c3), -zn⟩ := by
  intro r
  have e : r = _ := compute_ray_intrinsic proj fovy ss intr w h px py zn hp hs
  rw [e]
  exact normalize_through _ _ (-zn) (by linarith)

theorem ndc_centre (p : Int) (hp : 0 ≤ p) : ndc p (2 * p + 1) = 0 := by
  have : (0 : ℝ) ≤ (p : ℝ) := by exact_mod_cast hp
  simp only [ndc]
  push_cast
  have h : (2 * (p : ℝ) + 1) ≠ 0 := by linarith
  field_simp
  ring

/-- (3e) **centre pixel**: in an image of odd size `(2a+1)×(2b+1)` pixel `(a,b)` looks along the optical axis `-z`. -/
theorem compute_ray_centre_pixel (proj : Int) (fovy : ℝ) (ss : V2 ℝ) (intr : V4 ℝ) (a b : Int) (zn : ℝ)
    (hp : proj ≠ 1) (hs : ss.c1 = 0) (hz : 0 < zn) (ha : 0 ≤ a) (hb : 0 ≤ b) :
    compute_ray proj fovy ss intr (2 * a + 1) (2 * b + 1) a b zn = ⟨0, 0, -1⟩ := by
  rw [compute_ray_fovy proj fovy ss intr _ _ a b zn hp hs, ndc_centre a ha, ndc_centre b hb]
  simp only [mul_zero, neg_zero]
  exact normalize_axis (-zn) (by linarith)

/-- (3f) in the fovy branch the direction does not depend on `znear` (so precomputed rays built with the model's
    `znear` and per-world rays agree, and a reference implementation may use `znear = 1`). -/
theorem compute_ray_znear_independent (proj : Int) (fovy : ℝ) (ss : V2 ℝ) (intr : V4 ℝ) (w h px py : Int) (zn : ℝ)
    (hp : proj ≠ 1) (hs : ss.c1 = 0) (hz : 0 < zn) :
    compute_ray proj fovy ss intr w h px py zn = compute_ray proj fovy ss intr w h px py 1 := by
  rw [compute_ray_fovy proj fovy ss intr w h px py zn hp hs, compute_ray_fovy proj fovy ss intr w h px py 1 hp hs]
  have := normalize_smul zn (1 * halfTan fovy * ((w : ℝ) / (h : ℝ)) * ndc px w) (1 * halfTan fovy * (-(ndc py h))) (-1) hz
    (by norm_num)
  rw [← this]
  congr 1
  apply v3_congr <;> ring

/-- (3g) ORTHOGRAPHIC projection (`projection = 1`): the same direction `(0,0,-1)` for every pixel, resolution, fovy and
    intrinsics.  (The kernel also uses the same origin `cam_xpos` for every pixel, so an orthographic camera renders a
    constant image; see `C35Witness`.) -/
theorem compute_ray_orthographic_constant (fovy fovy' : ℝ) (ss ss' : V2 ℝ) (intr intr' : V4 ℝ)
    (w h px py w' h' px' py' : Int) (zn zn' : ℝ) :
    compute_ray 1 fovy ss intr w h px py zn = compute_ray 1 fovy' ss' intr' w' h' px' py' zn' := by
  rw [compute_ray_ortho, compute_ray_ortho]

example : compute_ray (0 : Int) (90 : ℝ) ⟨0, 0⟩ ⟨0, 0, 0, 0⟩ 3 5 1 2 (1 / 100) = ⟨0, 0, -1⟩ :=
  compute_ray_centre_pixel 0 90 ⟨0, 0⟩ ⟨0, 0, 0, 0⟩ 1 2 (1 / 100) (by norm_num) rfl (by norm_num) (by norm_num) (by norm_num)

/-! ### §4 the BVH leaf boxes contain the geoms -/

/-- (4a) sphere: every point within `r = size[0] ≥ 0` of `pos` -/
theorem sphere_bounds_contain (pos : V3 ℝ) (rot : M33 ℝ) (size p : V3 ℝ) (hr : 0 ≤ size.c0)
    (hp : distSq p pos ≤ size.c0 * size.c0) : (boxOf (_compute_sphere_bounds pos rot size)).contains p := by
  simp only [distSq, V3.dot, V3.sub, hsub, hadd, hmul] at hp
  simp only [_compute_sphere_bounds, boxOf, Box.contains, V3.sub, V3.add, hsub, hadd]
  have h0 := abs_le_of_sq (a := p.c0 - pos.c0) hr (by nlinarith [mul_self_nonneg (p.c1 - pos.c1), mul_self_nonneg (p.c2 - pos.c2)])
  have h1 := abs_le_of_sq (a := p.c1 - pos.c1) hr (by nlinarith [mul_self_nonneg (p.c0 - pos.c0), mul_self_nonneg (p.c2 - pos.c2)])
  have h2 := abs_le_of_sq (a := p.c2 - pos.c2) hr (by nlinarith [mul_self_nonneg (p.c1 - pos.c1), mul_self_nonneg (p.c0 - pos.c0)])
  refine ⟨?_, ?_, ?_, ?_, ?_, ?_⟩ <;> linarith [h0.1, h0.2, h1.1, h1.2, h2.1, h2.2]

/-- (4b) capsule = segment `pos + (h·s)·z`, `s ∈ [-1,1]`, `z` = third column of `rot`, inflated by `w`, `|w| ≤ r` -/
theorem capsule_bounds_contain (pos : V3 ℝ) (rot : M33 ℝ) (size w : V3 ℝ) (s : ℝ) (hr : 0 ≤ size.c0)
    (ls : -1 ≤ s) (us : s ≤ 1) (hw : V3.dot w w ≤ size.c0 * size.c0) :
    (boxOf (_compute_capsule_bounds pos rot size)).contains
      (V3.add (V3.add pos (V3.muls ⟨rot.m02, rot.m12, rot.m22⟩ (size.c1 * s))) w) := by
  simp only [V3.dot, hadd, hmul] at hw
  simp only [_compute_capsule_bounds, boxOf, Box.contains, V3.sub, V3.add, V3.muls, V3.vmin, V3.vmax, hsub, hadd, hmul, smin, smax]
  have h0 := abs_le_of_sq (a := w.c0) hr (by nlinarith [mul_self_nonneg w.c1, mul_self_nonneg w.c2])
  have h1 := abs_le_of_sq (a := w.c1) hr (by nlinarith [mul_self_nonneg w.c0, mul_self_nonneg w.c2])
  have h2 := abs_le_of_sq (a := w.c2) hr (by nlinarith [mul_self_nonneg w.c1, mul_self_nonneg w.c0])
  have k0 := lin1 pos.c0 (rot.m02 * size.c1) s (min (pos.c0 - rot.m02 * size.c1) (pos.c0 + rot.m02 * size.c1)) ls us (min_le_left _ _) (min_le_right _ _)
  have k1 := lin1 pos.c1 (rot.m12 * size.c1) s (min (pos.c1 - rot.m12 * size.c1) (pos.c1 + rot.m12 * size.c1)) ls us (min_le_left _ _) (min_le_right _ _)
  have k2 := lin1 pos.c2 (rot.m22 * size.c1) s (min (pos.c2 - rot.m22 * size.c1) (pos.c2 + rot.m22 * size.c1)) ls us (min_le_left _ _) (min_le_right _ _)
  have j0 := lin1 (-pos.c0) (rot.m02 * size.c1) (-s) (-(max (pos.c0 - rot.m02 * size.c1) (pos.c0 + rot.m02 * size.c1))) (by linarith) (by linarith) (by linarith [le_max_right (pos.c0 - rot.m02 * size.c1) (pos.c0 + rot.m02 * size.c1)]) (by linarith [le_max_left (pos.c0 - rot.m02 * size.c1) (pos.c0 + rot.m02 * size.c1)])
  have j1 := lin1 (-pos.c1) (rot.m12 * size.c1) (-s) (-(max (pos.c1 - rot.m12 * size.c1) (pos.c1 + rot.m12 * size.c1))) (by linarith) (by linarith) (by linarith [le_max_right (pos.c1 - rot.m12 * size.c1) (pos.c1 + rot.m12 * size.c1)]) (by linarith [le_max_left (pos.c1 - rot.m12 * size.c1) (pos.c1 + rot.m12 * size.c1)])
  have j2 := lin1 (-pos.c2) (rot.m22 * size.c1) (-s) (-(max (pos.c2 - rot.m22 * size.c1) (pos.c2 + rot.m22 * size.c1))) (by linarith) (by linarith) (by linarith [le_max_right (pos.c2 - rot.m22 * size.c1) (pos.c2 + rot.m22 * size.c1)]) (by linarith [le_max_left (pos.c2 - rot.m22 * size.c1) (pos.c2 + rot.m22 * size.c1)])
  refine ⟨?_, ?_, ?_, ?_, ?_, ?_⟩ <;> nlinarith [h0.1, h0.2, h1.1, h1.2, h2.1, h2.2, k0, k1, k2, j0, j1, j2]

/-- (4c) box = `pos + rot·(size ∘ s)`, `s ∈ [-1,1]³` (any `rot`, any sign of `size`; also the mesh / hfield leaf box,
    see (4g)). -/
theorem box_bounds_contain (pos : V3 ℝ) (rot : M33 ℝ) (size s : V3 ℝ)
    (l0 : -1 ≤ s.c0) (u0 : s.c0 ≤ 1) (l1 : -1 ≤ s.c1) (u1 : s.c1 ≤ 1) (l2 : -1 ≤ s.c2) (u2 : s.c2 ≤ 1) :
    (boxOf (_compute_box_bounds pos rot size)).contains
      (V3.add pos (M33.mulVec rot ⟨size.c0 * s.c0, size.c1 * s.c1, size.c2 * s.c2⟩)) := by
  simp only [_compute_box_bounds, boxOf, Box.contains, V3.add, M33.mulVec, V3.vmin, V3.vmax, hsub, hadd, hmul, hneg, smin, smax,
    lit_two, lit0, lit_one', lit_maxval]
  refine ⟨?_, ?_, ?_, ?_, ?_, ?_⟩
  · exact nested_min_cube _ pos.c0 (rot.m00 * size.c0) (rot.m01 * size.c1) (rot.m02 * size.c2) s.c0 s.c1 s.c2 _ _ _ _ _ _ _ _ _
      l0 u0 l1 u1 l2 u2 (by ring) (by ring) (by ring) (by ring) (by ring) (by ring) (by ring) (by ring) (by ring)
  · exact nested_max_cube _ pos.c0 (rot.m00 * size.c0) (rot.m01 * size.c1) (rot.m02 * size.c2) s.c0 s.c1 s.c2 _ _ _ _ _ _ _ _ _
      l0 u0 l1 u1 l2 u2 (by ring) (by ring) (by ring) (by ring) (by ring) (by ring) (by ring) (by ring) (by ring)
  · exact nested_min_cube _ pos.c1 (rot.m10 * size.c0) (rot.m11 * size.c1) (rot.m12 * size.c2) s.c0 s.c1 s.c2 _ _ _ _ _ _ _ _ _
      l0 u0 l1 u1 l2 u2 (by ring) (by ring) (by ring) (by ring) (by ring) (by ring) (by ring) (by ring) (by ring)
  · exact nested_max_cube _ pos.c1 (rot.m10 * size.c0) (rot.m11 * size.c1) (rot.m12 * size.c2) s.c0 s.c1 s.c2 _ _ _ _ _ _ _ _ _
      l0 u0 l1 u1 l2 u2 (by ring) (by ring) (by ring) (by ring) (by ring) (by ring) (by ring) (by ring) (by ring)
  · exact nested_min_cube _ pos.c2 (rot.m20 * size.c0) (rot.m21 * size.c1) (rot.m22 * size.c2) s.c0 s.c1 s.c2 _ _ _ _ _ _ _ _ _
      l0 u0 l1 u1 l2 u2 (by ring) (by ring) (by ring) (by ring) (by ring) (by ring) (by ring) (by ring) (by ring)
  · exact nested_max_cube _ pos.c2 (rot.m20 * size.c0) (rot.m21 * size.c1) (rot.m22 * size.c2) s.c0 s.c1 s.c2 _ _ _ _ _ _ _ _ _
      l0 u0 l1 u1 l2 u2 (by ring) (by ring) (by ring) (by ring) (by ring) (by ring) (by ring) (by ring) (by ring)

/-- (4d) ellipsoid = `pos + rot·(size ∘ u)`, `|u| ≤ 1` (any `rot`) -/
theorem ellipsoid_bounds_contain (pos : V3 ℝ) (rot : M33 ℝ) (size u : V3 ℝ) (hu : V3.dot u u ≤ 1) :
    (boxOf (_compute_ellipsoid_bounds pos rot size)).contains
      (V3.add pos (M33.mulVec rot ⟨size.c0 * u.c0, size.c1 * u.c1, size.c2 * u.c2⟩)) := by
  simp only [V3.dot, hadd, hmul] at hu
  simp only [_compute_ellipsoid_bounds, boxOf, Box.contains, V3.add, V3.sub, M33.mulVec, V3.length, V3.dot, hsub, hadd, hmul, ssqrt]
  have h0 := ell_coord (rot.m00 * size.c0) (rot.m01 * size.c1) (rot.m02 * size.c2) u.c0 u.c1 u.c2 hu
  have h1 := ell_coord (rot.m10 * size.c0) (rot.m11 * size.c1) (rot.m12 * size.c2) u.c0 u.c1 u.c2 hu
  have h2 := ell_coord (rot.m20 * size.c0) (rot.m21 * size.c1) (rot.m22 * size.c2) u.c0 u.c1 u.c2 hu
  refine ⟨?_, ?_, ?_, ?_, ?_, ?_⟩ <;> nlinarith [h0.1, h0.2, h1.1, h1.2, h2.1, h2.2]

/-- (4e) cylinder = `pos + rot·q`, `q.x² + q.y² ≤ r²`, `|q.z| ≤ h` (any `rot`) -/
theorem cylinder_bounds_contain (pos : V3 ℝ) (rot : M33 ℝ) (size q : V3 ℝ) (hr : 0 ≤ size.c0)
    (hxy : q.c0 * q.c0 + q.c1 * q.c1 ≤ size.c0 * size.c0) (lz : -size.c1 ≤ q.c2) (uz : q.c2 ≤ size.c1) :
    (boxOf (_compute_cylinder_bounds pos rot size)).contains (V3.add pos (M33.mulVec rot q)) := by
  simp only [_compute_cylinder_bounds, boxOf, Box.contains, V3.add, V3.sub, M33.mulVec, hsub, hadd, hmul, ssqrt, sabs]
  have h0 := cyl_coord rot.m00 rot.m01 rot.m02 size.c0 size.c1 q.c0 q.c1 q.c2 hr hxy lz uz
  have h1 := cyl_coord rot.m10 rot.m11 rot.m12 size.c0 size.c1 q.c0 q.c1 q.c2 hr hxy lz uz
  have h2 := cyl_coord rot.m20 rot.m21 rot.m22 size.c0 size.c1 q.c0 q.c1 q.c2 hr hxy lz uz
  refine ⟨?_, ?_, ?_, ?_, ?_, ?_⟩ <;> linarith [h0.1, h0.2, h1.1, h1.2, h2.1, h2.2]

/-- (4f) FINITE plane (`size0, size1 > 0`) = `pos + rot·(x, y, 0)`, `|x| ≤ size0`, `|y| ≤ size1`.
    For an "infinite" plane (`size0 ≤ 0` or `size1 ≤ 0`) this is FALSE: `C35Witness.infinite_plane_box_witness`. -/
theorem plane_bounds_contain_finite (pos : V3 ℝ) (rot : M33 ℝ) (size : V3 ℝ) (x y : ℝ)
    (h0 : 0 < size.c0) (h1 : 0 < size.c1) (lx : -size.c0 ≤ x) (ux : x ≤ size.c0) (ly : -size.c1 ≤ y) (uy : y ≤ size.c1) :
    (boxOf (_compute_plane_bounds pos rot size)).contains (V3.add pos (M33.mulVec rot ⟨x, y, 0⟩)) := by
  have hS0 : size.c0 ≤ max size.c0 size.c1 * 2 := by have := le_max_left size.c0 size.c1; linarith
  have hS1 : size.c1 ≤ max size.c0 size.c1 * 2 := by have := le_max_right size.c0 size.c1; linarith
  simp only [_compute_plane_bounds, boxOf, Box.contains, V3.add, V3.sub, M33.mulVec, V3.vmin, V3.vmax, hsub, hadd, hmul, hneg, smin, smax, sle,
    Bool.or_eq_true, not_le.mpr h0, not_le.mpr h1, or_self, if_false,
    lit_two, lit0, lit_one', lit_maxval, lit_001]
  refine ⟨?_, ?_, ?_, ?_, ?_, ?_⟩
  · exact nested_min_sq _ pos.c0 rot.m00 rot.m01 (max size.c0 size.c1 * 2) x y _ _ _ _ _
      (by linarith) (by linarith) (by linarith) (by linarith) (by ring) (by ring) (by ring) (by ring) (by ring)
  · exact nested_max_sq _ pos.c0 rot.m00 rot.m01 (max size.c0 size.c1 * 2) x y _ _ _ _ _
      (by linarith) (by linarith) (by linarith) (by linarith) (by ring) (by ring) (by ring) (by ring) (by ring)
  · exact nested_min_sq _ pos.c1 rot.m10 rot.m11 (max size.c0 size.c1 * 2) x y _ _ _ _ _
      (by linarith) (by linarith) (by linarith) (by linarith) (by ring) (by ring) (by ring) (by ring) (by ring)
  · exact nested_max_sq _ pos.c1 rot.m10 rot.m11 (max size.c0 size.c1 * 2) x y _ _ _ _ _
      (by linarith) (by linarith) (by linarith) (by linarith) (by ring) (by ring) (by ring) (by ring) (by ring)
  · exact nested_min_sq _ pos.c2 rot.m20 rot.m21 (max size.c0 size.c1 * 2) x y _ _ _ _ _
      (by linarith) (by linarith) (by linarith) (by linarith) (by ring) (by ring) (by ring) (by ring) (by ring)
  · exact nested_max_sq _ pos.c2 rot.m20 rot.m21 (max size.c0 size.c1 * 2) x y _ _ _ _ _
      (by linarith) (by linarith) (by linarith) (by linarith) (by ring) (by ring) (by ring) (by ring) (by ring)

/-- (4g) MESH leaf box: a box `_compute_box_bounds(pos, rot, half)` contains the world image `pos + rot·q` of every
    mesh-frame point `q` with `|q_i| ≤ half_i` (any `rot`, also when some `half_i = 0`). -/
theorem mesh_leaf_contains_local (pos : V3 ℝ) (rot : M33 ℝ) (half q : V3 ℝ)
    (h0 : |q.c0| ≤ half.c0) (h1 : |q.c1| ≤ half.c1) (h2 : |q.c2| ≤ half.c2) :
    (boxOf (_compute_box_bounds pos rot half)).contains (V3.add pos (M33.mulVec rot q)) := by
  obtain ⟨s0, l0, u0, e0⟩ := scaled_of_abs_le h0
  obtain ⟨s1, l1, u1, e1⟩ := scaled_of_abs_le h1
  obtain ⟨s2, l2, u2, e2⟩ := scaled_of_abs_le h2
  have hq : q = ⟨half.c0 * (⟨s0, s1, s2⟩ : V3 ℝ).c0, half.c1 * (⟨s0, s1, s2⟩ : V3 ℝ).c1, half.c2 * (⟨s0, s1, s2⟩ : V3 ℝ).c2⟩ := by
    apply V3.ext' <;> assumption
  rw [hq]
  exact box_bounds_contain pos rot half ⟨s0, s1, s2⟩ l0 u0 l1 u1 l2 u2

/-- (4h) **repaired `build_mesh_bvh`**: with `half = max(|pmin|, |pmax|)` over the vertex list `v0 :: vs`, the leaf
    box contains every vertex of the mesh in every pose (the statement that was FALSE for the old
    `half = (pmax - pmin)/2` whenever the vertex AABB is not centred at the mesh-frame origin). -/
theorem mesh_leaf_contains_vertex (pos : V3 ℝ) (rot : M33 ℝ) (v0 : V3 ℝ) (vs : List (V3 ℝ)) (v : V3 ℝ)
    (hv : v ∈ v0 :: vs) :
    (boxOf (_compute_box_bounds pos rot (meshHalf v0 vs))).contains (V3.add pos (M33.mulVec rot v)) := by
  obtain ⟨h0, h1, h2⟩ := meshHalf_bound v0 vs v hv
  exact mesh_leaf_contains_local pos rot _ v h0 h1 h2

/-- (4i) … and every point `a·p0 + b·p1 + c·p2` (`a,b,c ≥ 0`, `a+b+c = 1`) of every triangle with vertices in the list:
    the leaf box contains the whole mesh surface, so a ray that hits the mesh at `t` has its hit point in the box. -/
theorem mesh_leaf_contains_triangle (pos : V3 ℝ) (rot : M33 ℝ) (v0 : V3 ℝ) (vs : List (V3 ℝ)) (p0 p1 p2 : V3 ℝ)
    (a b c : ℝ) (hp0 : p0 ∈ v0 :: vs) (hp1 : p1 ∈ v0 :: vs) (hp2 : p2 ∈ v0 :: vs)
    (ha : 0 ≤ a) (hb : 0 ≤ b) (hc : 0 ≤ c) (hs : a + b + c = 1) :
    (boxOf (_compute_box_bounds pos rot (meshHalf v0 vs))).contains
      (V3.add pos (M33.mulVec rot ⟨a * p0.c0 + b * p1.c0 + c * p2.c0, a * p0.c1 + b * p1.c1 + c * p2.c1,
        a * p0.c2 + b * p1.c2 + c * p2.c2⟩)) := by
  obtain ⟨x0, x1, x2⟩ := meshHalf_bound v0 vs p0 hp0
  obtain ⟨y0, y1, y2⟩ := meshHalf_bound v0 vs p1 hp1
  obtain ⟨z0, z1, z2⟩ := meshHalf_bound v0 vs p2 hp2
  exact mesh_leaf_contains_local pos rot _ _ (abs_convex3_le ha hb hc hs x0 y0 z0) (abs_convex3_le ha hb hc hs x1 y1 z1)
    (abs_convex3_le ha hb hc hs x2 y2 z2)

/-- the regression input of the repaired defect: the pyramid with base 1×1 and apex at height 4 has mesh-frame vertices
    with z ∈ [-1, 3]; the repaired half extent is (0.5, 0.5, 3) (the old one was (0.5, 0.5, 2), which left the apex out) -/
example : meshHalf (⟨-0.5, -0.5, -1⟩ : V3 ℝ) [⟨0.5, -0.5, -1⟩, ⟨0.5, 0.5, -1⟩, ⟨-0.5, 0.5, -1⟩, ⟨0, 0, 3⟩] = ⟨0.5, 0.5, 3⟩ := by
  simp only [meshHalf, meshMin, meshMax, List.foldl, V3.vmin, V3.vmax, V3.vabs, smin, smax, sabs]
  norm_num [abs_of_nonneg, abs_of_neg]

/-- non-vacuity (4): the centre of every geom satisfies the hypotheses -/
example (pos : V3 ℝ) (rot : M33 ℝ) : (boxOf (_compute_box_bounds pos rot ⟨1, 2, 3⟩)).contains
    (V3.add pos (M33.mulVec rot ⟨1 * 0, 2 * 0, 3 * 0⟩)) :=
  box_bounds_contain pos rot ⟨1, 2, 3⟩ ⟨0, 0, 0⟩ (by norm_num) (by norm_num) (by norm_num) (by norm_num) (by norm_num) (by norm_num)
example (pos : V3 ℝ) (rot : M33 ℝ) : (boxOf (_compute_cylinder_bounds pos rot ⟨1, 2, 0⟩)).contains
    (V3.add pos (M33.mulVec rot ⟨1, 0, -2⟩)) :=
  cylinder_bounds_contain pos rot ⟨1, 2, 0⟩ ⟨1, 0, -2⟩ (by norm_num) (by norm_num) (by norm_num) (by norm_num)
example (pos : V3 ℝ) (rot : M33 ℝ) : (boxOf (_compute_plane_bounds pos rot ⟨1, 2, 0⟩)).contains
    (V3.add pos (M33.mulVec rot ⟨1, -2, 0⟩)) :=
  plane_bounds_contain_finite pos rot ⟨1, 2, 0⟩ 1 (-2) (by norm_num) (by norm_num) (by norm_num) (by norm_num) (by norm_num) (by norm_num)

/-! ### §5 end to end for spheres: `Gen.Ray.ray_sphere` + `Gen.Bvh._compute_sphere_bounds` + any sound traversal -/

/-- the distance the leaf callback computes for sphere `i` (as `cast_ray` calls it: `ray_sphere(pos, size[0]², …)`) -/
noncomputable def sphereHit (pos : Int → V3 ℝ) (rad : Int → ℝ) (pnt vec : V3 ℝ) (i : Int) : ℝ :=
  (ray_sphere (pos i) (rad i * rad i) pnt vec).1

/-- every leaf `(b, i)` carries the box `_compute_sphere_bounds (pos i) rot (rad i, ·, ·)` -/
def SphereLeaves (pos : Int → V3 ℝ) (rad : Int → ℝ) (rot : Int → M33 ℝ) : BvhTree (Box ℝ) → Prop
  | .leaf b i => b = boxOf (_compute_sphere_bounds (pos i) (rot i) ⟨rad i, 0, 0⟩)
  | .node _ l r => SphereLeaves pos rad rot l ∧ SphereLeaves pos rad rot r

/-- (5a) the leaf box computed by `_compute_sphere_bounds` contains the point where `ray_sphere` reports the hit -/
theorem sphere_leaf_contains_hit (pos : V3 ℝ) (rot : M33 ℝ) (r : ℝ) (pnt vec : V3 ℝ) (hr : 0 ≤ r)
    (h0 : 0 ≤ (ray_sphere pos (r * r) pnt vec).1) :
    (boxOf (_compute_sphere_bounds pos rot ⟨r, 0, 0⟩)).contains (rayPt pnt vec (ray_sphere pos (r * r) pnt vec).1) := by
  obtain ⟨-, hon, -⟩ := Mjw.Props.C34.ray_sphere_hit pos (r * r) pnt vec h0
  exact sphere_bounds_contain pos rot ⟨r, 0, 0⟩ _ hr (le_of_eq hon)

theorem sphere_leafOK (pos : Int → V3 ℝ) (rad : Int → ℝ) (rot : Int → M33 ℝ) (pnt vec : V3 ℝ) (hr : ∀ i, 0 ≤ rad i) :
    ∀ t : BvhTree (Box ℝ), SphereLeaves pos rad rot t → LeafOK pnt vec (sphereHit pos rad pnt vec) t := by
  intro t
  induction t with
  | leaf b i =>
    intro hb h0
    rw [hb]
    exact sphere_leaf_contains_hit (pos i) (rot i) (rad i) pnt vec (hr i) h0
  | node b l r ihl ihr =>
    intro h
    exact ⟨ihl h.1, ihr h.2⟩

/-- (5b) **scene of spheres**: for any BVH whose leaf boxes are those of `bvh._compute_sphere_bounds` and whose inner
    boxes are nested, any traversal order and any ray/box test that accepts boxes containing a ray point with
    `0 ≤ t < tmax`: the traversal's distance is the brute-force nearest `ray.ray_sphere` hit over all spheres
    (and the same sphere id unless two spheres are hit at exactly equal distance). -/
theorem sphere_scene_render_eq_bruteforce (pos : Int → V3 ℝ) (rad : Int → ℝ) (rot : Int → M33 ℝ) (pnt vec : V3 ℝ)
    (visit order : Box ℝ → ℝ → Bool) (maxDist : ℝ) (t : BvhTree (Box ℝ))
    (hr : ∀ i, 0 ≤ rad i) (hv : VisitOK pnt vec visit) (hn : Nested t) (hl : SphereLeaves pos rad rot t) :
    let hitD := sphereHit pos rad pnt vec
    (castTree visit order hitD maxDist t).dist = (castList maxDist (cands hitD t)).dist ∧
    (NoTies (cands hitD t) → castTree visit order hitD maxDist t = castList maxDist (cands hitD t)) :=
  castTree_eq_bruteforce_geometric pnt vec visit order _ maxDist t hv hn (sphere_leafOK pos rad rot pnt vec hr t hl)

/-- non-vacuity (5): two unit spheres at x = 3 and x = 6 seen from the origin along +x, a two-leaf BVH whose root box is
    everything in between, the classical slab test: hypotheses hold. -/
example : ∃ t : BvhTree (Box ℝ),
    Nested t ∧ SphereLeaves (fun i => ⟨3 * (i : ℝ), 0, 0⟩) (fun _ => 1) (fun _ => ⟨1, 0, 0, 0, 1, 0, 0, 0, 1⟩) t ∧
    VisitOK ⟨0, 0, 0⟩ ⟨1, 0, 0⟩ (slabVisit ⟨0, 0, 0⟩ ⟨1, 0, 0⟩) ∧ t.leaves = [1, 2] := by
  refine ⟨.node ⟨⟨2, -1, -1⟩, ⟨7, 1, 1⟩⟩
      (.leaf (boxOf (_compute_sphere_bounds ⟨3 * ((1 : Int) : ℝ), 0, 0⟩ ⟨1, 0, 0, 0, 1, 0, 0, 0, 1⟩ ⟨1, 0, 0⟩)) 1)
      (.leaf (boxOf (_compute_sphere_bounds ⟨3 * ((2 : Int) : ℝ), 0, 0⟩ ⟨1, 0, 0, 0, 1, 0, 0, 0, 1⟩ ⟨1, 0, 0⟩)) 2),
    ?_, ⟨rfl, rfl⟩, slabVisit_ok _ _, rfl⟩
  simp only [Nested, Box.sub, BvhTree.box, boxOf, _compute_sphere_bounds, V3.sub, V3.add, hsub, hadd, and_true]
  norm_num

end Mjw.Props.C35
