/-
  C13 witnesses: concrete configurations on which the FULL statement of C13 fails, derived from the
  exact characterisations in Props/C13.lean.  All are about the generated kernels `Mjw.Gen.Io.reset_data__*`;
  every parameter that is not fixed below is universally quantified.

  * (removed) `act_tail_not_reset_witness` — act-tail defect repaired in /repo commit
        'fix: reset_data left activations act[nu:na] untouched'; the positive statement is now
        `C13.act_reset_all` (every `act[w, i]`, `0 ≤ i < na`, gets `set 0`).  The witnesses below are still open.
  * `history_not_restored_witness`    no task of any translated reset kernel writes `history_out`; every cell
        keeps its value, so delay buffers are not restored.
  * `nacon_dropped_witness` (w1)      2 worlds, mask = {world 0}, one active contact, owned by world 1:
        the contact kernel writes nothing, world 1's task writes nothing, yet `nacon[0]` becomes 0 —
        the unselected world 1 loses its contact.
  * `phantom_contact_witness` (w2)    2 worlds, mask = {world 1}, two active contacts (slot 0: world 0,
        slot 1: world 1): `nacon[0]` stays 2 and slot 1 is re-tagged `worldid := 0` with `dim := 0` —
        the unselected world 0 now owns two active slots, one of them an empty phantom.

  Launch model used in (w1)/(w2): the launch of a kernel is the concatenation of its tasks' write lists
  (tasks in thread order; for these write lists the order is irrelevant: all writes to a cell carry the same
  value); launches in host order (`reset_contact` before `reset_nworld`; the other launches write none of the
  arrays concerned, `C13.history_not_reset`); a cell's value after the writes is `Write.lookupI`.
-/
import MjwVerif.Lemmas.Real
import MjwVerif.Lemmas.C13
import MjwVerif.Props.C13
import MjwVerif.Gen.Io

namespace Mjw.Props.C13Witness
open Mjw Mjw.Lemmas.C13 Mjw.Props.C13

/-! ### history -/

/-- **history_not_restored_witness**: for all inputs, masks and thread ids, no task of the translated reset
    kernels writes any cell of `history_out`; under the kernel calculus' cell semantics every history cell
    keeps its pre-reset value `h` (shown for the two kernels that carry the integration state; the other three
    are covered by `C13.history_not_reset` in the same way). -/
theorem history_not_restored_witness {K : Type} [Scalar K]
    (nq nv nu na nbody ntree neq nuserdata nsensordata : Int) (qpos0 : Int → Int → K)
    (eq_active0 : Int → Bool) (nworld_in : Int) (reset_in : Int → Bool)
    (solver_niter_out ne_out nf_out nl_out nefc_out ntree_awake_out nbody_awake_out nv_awake_out : Int → Int)
    (time_out : Int → K) (energy_out : Int → V2 K)
    (qpos_out qvel_out act_out qacc_warmstart_out ctrl_out qfrc_applied_out : Int → Int → K)
    (eq_active_out : Int → Int → Bool) (qacc_out act_dot_out userdata_out sensordata_out : Int → Int → K)
    (nacon_out overflow_out : Int → Int) (st : Bool) (qpos0_shape0 w : Int)
    (body_mocapid : Int → Int) (body_pos : Int → Int → V3 K) (body_quat : Int → Int → Q K)
    (mocap_pos_out : Int → Int → V3 K) (mocap_quat_out : Int → Int → Q K) (sh_pos sh_quat b : Int)
    (idx : List Int) (h : K) :
    let NW := Gen.Io.reset_data__reset_nworld nq nv nu na nbody ntree neq nuserdata nsensordata qpos0 eq_active0
      nworld_in reset_in solver_niter_out ne_out nf_out nl_out nefc_out ntree_awake_out nbody_awake_out
      nv_awake_out time_out energy_out qpos_out qvel_out act_out qacc_warmstart_out ctrl_out qfrc_applied_out
      eq_active_out qacc_out act_dot_out userdata_out sensordata_out nacon_out overflow_out st qpos0_shape0 w
    let RM := Gen.Io.reset_data__reset_mocap body_mocapid body_pos body_quat reset_in mocap_pos_out
      mocap_quat_out st sh_pos sh_quat w b
    final NW "history_out" idx = none ∧ Write.lookupF NW "history_out" idx h = h
    ∧ final RM "history_out" idx = none ∧ Write.lookupF RM "history_out" idx h = h := by
  intro NW RM
  obtain ⟨-, hN, hM, -, -⟩ := history_not_reset (K := K)
  have h1 : final NW "history_out" idx = none :=
    final_none_of_arrsIn (ws := NW) (by apply hN) _ history_not_in_resetArrays.1 idx
  have h2 : final RM "history_out" idx = none :=
    final_none_of_arrsIn (ws := RM) (by apply hM) _ history_not_in_resetArrays.1 idx
  exact ⟨h1, lookupF_of_final_none _ _ _ _ h1, h2, lookupF_of_final_none _ _ _ _ h2⟩

/-! ### the global contact counter under partial masks -/

section contacts
variable {K : Type} [Scalar K] (nq nv nu na nbody ntree neq nuserdata nsensordata : Int) (qpos0 : Int → Int → K)
  (eq_active0 : Int → Bool) (nworld_in : Int)
  (solver_niter_out ne_out nf_out nl_out nefc_out ntree_awake_out nbody_awake_out nv_awake_out : Int → Int)
  (time_out : Int → K) (energy_out : Int → V2 K)
  (qpos_out qvel_out act_out qacc_warmstart_out ctrl_out qfrc_applied_out : Int → Int → K)
  (eq_active_out : Int → Int → Bool) (qacc_out act_dot_out userdata_out sensordata_out : Int → Int → K)
  (nacon_out overflow_out : Int → Int) (qpos0_shape0 : Int)
  (nefcaddress : Int)
  (contact_dist_out : Int → K) (contact_pos_out : Int → V3 K) (contact_frame_out : Int → M33 K)
  (contact_includemargin_out : Int → K) (contact_friction_out : Int → V5 K)
  (contact_solref_out contact_solreffriction_out : Int → V2 K) (contact_solimp_out : Int → V5 K)
  (contact_dim_out : Int → Int) (contact_geom_out contact_flex_out contact_elem_out contact_vert_out : Int → I2)
  (contact_efc_address_out : Int → Int → Int)
  (contact_type_out contact_geomcollisionid_out : Int → Int) (contact_adhesion_out : Int → K)
  (sh_flex sh_elem sh_vert : Int)

/-- `reset_nworld` task of world `w` under mask `m` (mask in use) -/
local notation "NW(" m ", " w ")" =>
  Gen.Io.reset_data__reset_nworld nq nv nu na nbody ntree neq nuserdata nsensordata qpos0 eq_active0 nworld_in
    m solver_niter_out ne_out nf_out nl_out nefc_out ntree_awake_out nbody_awake_out nv_awake_out
    time_out energy_out qpos_out qvel_out act_out qacc_warmstart_out ctrl_out qfrc_applied_out eq_active_out
    qacc_out act_dot_out userdata_out sensordata_out nacon_out overflow_out true qpos0_shape0 w

/-- `reset_contact` task of slot `c` under mask `m`, contact counter `n`, slot owners `cw` (mask in use) -/
local notation "RC(" n ", " m ", " cw ", " c ")" =>
  Gen.Io.reset_data__reset_contact n m nefcaddress contact_dist_out contact_pos_out
    contact_frame_out contact_includemargin_out contact_friction_out contact_solref_out
    contact_solreffriction_out contact_solimp_out contact_dim_out contact_geom_out contact_flex_out
    contact_elem_out contact_vert_out contact_efc_address_out cw contact_type_out
    contact_geomcollisionid_out contact_adhesion_out true sh_flex sh_elem sh_vert c

/-- (w1) **nacon_dropped_witness**: 2 worlds, naconmax = 2, mask selects ONLY world 0; before the reset
    `nacon[0] = 1` and the single active contact (slot 0) belongs to world 1.  Then: both `reset_contact` tasks
    write nothing (slot 0 is still world 1's contact, untouched), world 1's `reset_nworld` task writes nothing,
    but after the two launches `nacon[0] = 0`: the live contact of the UNSELECTED world 1 is no longer in the
    active range `[0, nacon)`. -/
theorem nacon_dropped_witness :
    let m : Int → Bool := fun w => decide (w = 0)
    let n : Int → Int := fun _ => 1
    let cw : Int → Int := fun _ => 1
    let contactLaunch : List (Write K) := RC(n, m, cw, 0) ++ RC(n, m, cw, 1)
    let nworldLaunch : List (Write K) := NW(m, 0) ++ NW(m, 1)
    contactLaunch = [] ∧ NW(m, 1) = []
      ∧ Write.lookupI (contactLaunch ++ nworldLaunch) "nacon_out" [0] (n 0) = 0 := by
  intro m n cw contactLaunch nworldLaunch
  have hc0 : RC(n, m, cw, 0) = [] := by
    apply reset_contact_unselected_untouched
    exact Or.inr ⟨rfl, by decide, by decide⟩
  have hc1 : RC(n, m, cw, 1) = [] := by
    apply reset_contact_unselected_untouched
    exact Or.inl (by decide)
  have hw1 : NW(m, 1) = [] :=
    (reset_unselected_untouched (K := K) m 1 (by decide)).2.1 ..
  have hcl : contactLaunch = [] := by simp only [contactLaunch, hc0, hc1, List.append_nil]
  refine ⟨hcl, hw1, ?_⟩
  have hn := nacon_reset_cell nq nv nu na nbody ntree neq nuserdata nsensordata qpos0 eq_active0 nworld_in m
    solver_niter_out ne_out nf_out nl_out nefc_out ntree_awake_out nbody_awake_out nv_awake_out time_out
    energy_out qpos_out qvel_out act_out qacc_warmstart_out ctrl_out qfrc_applied_out eq_active_out qacc_out
    act_dot_out userdata_out sensordata_out nacon_out overflow_out true qpos0_shape0 0
  rw [if_pos ⟨Or.inr (by decide), rfl⟩] at hn
  apply lookupI_of_final_set
  simp only [hcl, nworldLaunch, hw1, List.nil_append, List.append_nil]
  exact hn

/-- (w2) **phantom_contact_witness**: 2 worlds, naconmax = 2, mask selects ONLY world 1; before the reset
    `nacon[0] = 2`, slot 0 belongs to world 0 and slot 1 to world 1.  After the `reset_contact` and
    `reset_nworld` launches: slot 0 untouched, world 0's task wrote nothing, `nacon[0]` is still 2, and slot 1
    now carries `worldid = 0`, `dim = 0`: the UNSELECTED world 0 owns both active slots, the second being an
    empty phantom contact; the selected world 1's contact count is not reflected in `nacon`. -/
theorem phantom_contact_witness :
    let m : Int → Bool := fun w => decide (w = 1)
    let n : Int → Int := fun _ => 2
    let cw : Int → Int := fun c => c
    let contactLaunch : List (Write K) := RC(n, m, cw, 0) ++ RC(n, m, cw, 1)
    let nworldLaunch : List (Write K) := NW(m, 0) ++ NW(m, 1)
    let all := contactLaunch ++ nworldLaunch
    RC(n, m, cw, 0) = [] ∧ NW(m, 0) = []
      ∧ Write.lookupI all "nacon_out" [0] (n 0) = 2
      ∧ Write.lookupI all "contact_worldid_out" [0] (cw 0) = 0
      ∧ Write.lookupI all "contact_worldid_out" [1] (cw 1) = 0
      ∧ Write.lookupI all "contact_dim_out" [1] (contact_dim_out 1) = 0 := by
  intro m n cw contactLaunch nworldLaunch all
  have hc0 : RC(n, m, cw, 0) = [] := by
    apply reset_contact_unselected_untouched
    exact Or.inr ⟨rfl, by decide, by decide⟩
  have hw0 : NW(m, 0) = [] :=
    (reset_unselected_untouched (K := K) m 0 (by decide)).2.1 ..
  have hall : all = RC(n, m, cw, 1) ++ NW(m, 1) := by
    simp only [all, contactLaunch, nworldLaunch, hc0, hw0, List.nil_append]
  -- slot 1 is cleared
  obtain ⟨-, hwid, hdim, -, -, hnac⟩ := reset_contact_cleared_slot n m nefcaddress contact_dist_out
    contact_pos_out contact_frame_out contact_includemargin_out contact_friction_out contact_solref_out
    contact_solreffriction_out contact_solimp_out contact_dim_out contact_geom_out contact_flex_out
    contact_elem_out contact_vert_out contact_efc_address_out cw contact_type_out contact_geomcollisionid_out
    contact_adhesion_out true sh_flex sh_elem sh_vert 1 (by decide) (Or.inr (Or.inr (by decide)))
  -- world 1's nworld task: no nacon write, no contact-array write
  have hn1 := nacon_reset_cell nq nv nu na nbody ntree neq nuserdata nsensordata qpos0 eq_active0 nworld_in m
    solver_niter_out ne_out nf_out nl_out nefc_out ntree_awake_out nbody_awake_out nv_awake_out time_out
    energy_out qpos_out qvel_out act_out qacc_warmstart_out ctrl_out qfrc_applied_out eq_active_out qacc_out
    act_dot_out userdata_out sensordata_out nacon_out overflow_out true qpos0_shape0 1
  rw [if_neg (by decide)] at hn1
  have hnw : ∀ (arr : String) (idx : List Int), arr ∈ ["contact_worldid_out", "contact_dim_out"] →
      final (NW(m, 1)) arr idx = none := by
    intro arr idx harr
    rw [reset_nworld_eq, if_neg (by decide)]
    apply final_none_of_toArr_nil
    simp only [List.mem_cons, List.mem_nil_iff, or_false] at harr
    rcases harr with rfl | rfl <;> (unfold nworldWrites; toArr_simp)
  refine ⟨hc0, hw0, ?_, ?_, ?_, ?_⟩
  · apply lookupI_of_final_none
    rw [hall, final_append, hn1, Option.none_or]
    exact final_none_of_toArr_nil _ _ hnac _
  · apply lookupI_of_final_none
    rw [hall, final_append, hnw _ _ (by simp), Option.none_or, final_eq_none_iff]
    intro x hx hc
    have := (reset_contact_eq n m nefcaddress contact_dist_out contact_pos_out contact_frame_out
      contact_includemargin_out contact_friction_out contact_solref_out contact_solreffriction_out
      contact_solimp_out contact_dim_out contact_geom_out contact_flex_out contact_elem_out contact_vert_out
      contact_efc_address_out cw contact_type_out contact_geomcollisionid_out contact_adhesion_out true sh_flex
      sh_elem sh_vert 1)
    rw [this, if_neg (by decide), if_neg (by decide)] at hx
    have hfin : final (contactWrites (K := K) nefcaddress sh_flex sh_elem sh_vert 1) "contact_worldid_out" [0]
        = none := by
      unfold contactWrites; final_simp
    exact (final_eq_none_iff _ _ _).mp hfin x hx hc
  · apply lookupI_of_final_set
    rw [hall, final_append, hnw _ _ (by simp), Option.none_or]
    exact hwid
  · apply lookupI_of_final_set
    rw [hall, final_append, hnw _ _ (by simp), Option.none_or]
    exact hdim

end contacts

end Mjw.Props.C13Witness
