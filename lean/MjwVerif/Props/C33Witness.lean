/-
  C33, witnesses: the literal statement "every derived field set_const documents equals what mj_setConst computes"
  is FALSE for the camera / light reference fields.

  1. `trackcom_poscom0_not_recomputed` (all inputs) + `set_const_tracking_camera_witness` (concrete):
     `set_const_0` evaluates `smooth.camlight` at qpos0 WITH THE MODEL'S OWN `cam_mode`.  For a camera in mode
     TRACKCOM (2) `_cam_local_to_global` returns `cam_xpos = subtree_com[body] + cam_poscom0` — the STALE reference —
     and `_compute_cam_pos0` then stores `cam_poscom0 := cam_xpos − subtree_com[body]`, i.e. the old value again,
     whatever `cam_pos`, the body pose or the masses have become.  MuJoCo's `set0` switches every camera and
     light to mode FIXED while it evaluates `mj_camlight` (engine_setconst.c saves / restores `cam_mode`,
     `light_mode`), so it stores `xpos[body] + R(xquat[body])·cam_pos − subtree_com[body]`.
     The same happens to `cam_pos0` in mode TRACK, to `cam_mat0` in modes TARGETBODY(COM) (the look-at matrix is
     stored instead of the body-frame orientation) and to `light_pos0 / light_poscom0 / light_dir0`.
     Reproduction on the real code: /verif/harness/props/c33.py (`camlight-mode` scenario) or the stand-alone
     script in the C33 report (one body, `<camera mode="trackcom" pos="1 0 0"/>`, change `body_mass`, call
     `mjw.set_const`, compare `m.cam_poscom0` with `mujoco.mj_setConst`).
  2. `cam_ref_batch_index_witness`: `_compute_cam_pos0` indexes `cam_poscom0` and `cam_mat0` with the batch size of
     `cam_pos0` (the kernel has no other size parameter; `smooth._cam_local_to_global` reads the three fields with
     three separate sizes).  With `cam_pos0` unbatched and `cam_mat0` batched, world 1's orientation lands in slot 0
     and slot 1 is never written; with `cam_pos0` batched and `cam_mat0` unbatched the task of world 1 writes slot 1
     of a one-slot array.  Same for `_compute_light_pos0`.
-/
import MjwVerif.Props.C33
import MjwVerif.Gen.Smooth

set_option linter.unusedVariables false
set_option linter.unusedSimpArgs false

namespace Mjw.Props.C33
open Mjw Mjw.Gen.Set_const Mjw.Lemmas.C33

/-- `smooth._cam_local_to_global`, camera in mode TRACKCOM (`CamLightType.TRACKCOM = 2`): orientation and position
    come from the reference fields `cam_mat0`, `cam_poscom0` -/
theorem cam_local_to_global_trackcom {K : Type} [Scalar K] (cam_mode cam_bodyid cam_target : Int → Int)
    (cam_pos : Int → Int → V3 K) (cam_quat : Int → Int → Q K) (poscom0 pos0 : Int → Int → V3 K)
    (mat0 : Int → Int → M33 K) (xpos : Int → Int → V3 K) (xquat : Int → Int → Q K) (com ox : Int → Int → V3 K)
    (om : Int → Int → M33 K) (s1 s2 s3 s4 s5 w c : Int) (hm : cam_mode c = 2) :
    Gen.Smooth._cam_local_to_global cam_mode cam_bodyid cam_target cam_pos cam_quat poscom0 pos0 mat0 xpos xquat com
        ox om s1 s2 s3 s4 s5 w c
      = [Write.mk "cam_xmat_out" [w, c] (WVal.v (M33.toList (mat0 (Int.tmod w s3) c))) WKind.set,
         Write.mk "cam_xpos_out" [w, c]
           (WVal.v (V3.toList (V3.add (com w (cam_bodyid c)) (poscom0 (Int.tmod w s5) c)))) WKind.set] := by
  unfold Gen.Smooth._cam_local_to_global
  simp [hm]

/-- the same kernel, mode FIXED (0): the body-frame placement `xpos + R(xquat)·cam_pos`, `R(xquat · cam_quat)` -/
theorem cam_local_to_global_fixed {K : Type} [Scalar K] (cam_mode cam_bodyid cam_target : Int → Int)
    (cam_pos : Int → Int → V3 K) (cam_quat : Int → Int → Q K) (poscom0 pos0 : Int → Int → V3 K)
    (mat0 : Int → Int → M33 K) (xpos : Int → Int → V3 K) (xquat : Int → Int → Q K) (com ox : Int → Int → V3 K)
    (om : Int → Int → M33 K) (s1 s2 s3 s4 s5 w c : Int) (hm : cam_mode c = 0) :
    Gen.Smooth._cam_local_to_global cam_mode cam_bodyid cam_target cam_pos cam_quat poscom0 pos0 mat0 xpos xquat com
        ox om s1 s2 s3 s4 s5 w c
      = [Write.mk "cam_xpos_out" [w, c]
           (WVal.v (V3.toList (V3.add (xpos w (cam_bodyid c))
             (Mjw.Gen.Math.rot_vec_quat (cam_pos (Int.tmod w s1) c) (xquat w (cam_bodyid c)))))) WKind.set,
         Write.mk "cam_xmat_out" [w, c]
           (WVal.v (M33.toList (Mjw.Gen.Math.quat_to_mat
             (Mjw.Gen.Math.mul_quat (xquat w (cam_bodyid c)) (cam_quat (Int.tmod w s2) c))))) WKind.set] := by
  unfold Gen.Smooth._cam_local_to_global
  simp [hm]

/-- what `set_const_0` leaves in `cam_poscom0[w % n, c]`: `_compute_cam_pos0` applied to the `cam_xpos` that
    `smooth.camlight` (`_cam_local_to_global`, run with the model's `cam_mode`) stored in Data at qpos0 -/
noncomputable def newPoscom0 (cam_mode cam_bodyid cam_target : Int → Int)
    (cam_pos : Int → Int → V3 ℝ) (cam_quat : Int → Int → Q ℝ) (poscom0 pos0 : Int → Int → V3 ℝ)
    (mat0 : Int → Int → M33 ℝ) (xpos : Int → Int → V3 ℝ) (xquat : Int → Int → Q ℝ) (com ox : Int → Int → V3 ℝ)
    (om : Int → Int → M33 ℝ) (s1 s2 s3 s4 s5 w c : Int) : List ℝ :=
  let camW := Gen.Smooth._cam_local_to_global cam_mode cam_bodyid cam_target cam_pos cam_quat poscom0 pos0 mat0 xpos
    xquat com ox om s1 s2 s3 s4 s5 w c
  let camx : Int → Int → V3 ℝ := fun w' c' =>
    V3.ofList (Write.lookupV camW "cam_xpos_out" [w', c'] (V3.toList (ox w' c')))
  Write.lookupV (_compute_cam_pos0 cam_bodyid cam_target camx om xpos com pos0 poscom0 mat0 s4 w c)
    "cam_poscom0_out" [Int.tmod w s4, c] (V3.toList (poscom0 (Int.tmod w s4) c))

/-- **set_const never recomputes `cam_poscom0` of a TRACKCOM camera**: for all `cam_pos`, body poses, centres of
    mass and batch sizes, the value stored is the value that was there before. -/
theorem trackcom_poscom0_not_recomputed (cam_mode cam_bodyid cam_target : Int → Int)
    (cam_pos : Int → Int → V3 ℝ) (cam_quat : Int → Int → Q ℝ) (poscom0 pos0 : Int → Int → V3 ℝ)
    (mat0 : Int → Int → M33 ℝ) (xpos : Int → Int → V3 ℝ) (xquat : Int → Int → Q ℝ) (com ox : Int → Int → V3 ℝ)
    (om : Int → Int → M33 ℝ) (s1 s2 s3 s4 s5 w c : Int) (hm : cam_mode c = 2) (ht : cam_target c < 0) :
    newPoscom0 cam_mode cam_bodyid cam_target cam_pos cam_quat poscom0 pos0 mat0 xpos xquat com ox om s1 s2 s3 s4 s5 w c
      = V3.toList (poscom0 (Int.tmod w s5) c) := by
  unfold newPoscom0
  rw [cam_local_to_global_trackcom _ _ _ _ _ _ _ _ _ _ _ _ _ _ _ _ _ _ _ _ hm]
  dsimp only
  rw [cam_pos0_spec]
  have ht' : ¬ (cam_target c ≥ 0) := not_le.mpr ht
  simp [Write.lookupV, ht', V3.sub, V3.add, V3.toList, V3.ofList]

/-- one camera on body 1 at local offset `cam_pos = (1,0,0)`; body 1 at the origin with identity orientation, its
    subtree COM at the origin; stale reference `cam_poscom0 = 0`.
    `set_const_0` with the camera in mode TRACKCOM stores `cam_poscom0 = (0,0,0)`; evaluated in mode FIXED — what
    MuJoCo's `mj_setConst` does for every camera — the same two kernels store `(1,0,0)`. -/
theorem set_const_tracking_camera_witness :
    newPoscom0 (fun _ => 2) (fun _ => 1) (fun _ => -1) (fun _ _ => ⟨1, 0, 0⟩) (fun _ _ => ⟨1, 0, 0, 0⟩)
        (fun _ _ => ⟨0, 0, 0⟩) (fun _ _ => ⟨0, 0, 0⟩) (fun _ _ => ⟨1, 0, 0, 0, 1, 0, 0, 0, 1⟩)
        (fun _ _ => ⟨0, 0, 0⟩) (fun _ _ => ⟨1, 0, 0, 0⟩) (fun _ _ => ⟨0, 0, 0⟩) (fun _ _ => ⟨0, 0, 0⟩)
        (fun _ _ => ⟨1, 0, 0, 0, 1, 0, 0, 0, 1⟩) 1 1 1 1 1 0 0 = [0, 0, 0]
    ∧ newPoscom0 (fun _ => 0) (fun _ => 1) (fun _ => -1) (fun _ _ => ⟨1, 0, 0⟩) (fun _ _ => ⟨1, 0, 0, 0⟩)
        (fun _ _ => ⟨0, 0, 0⟩) (fun _ _ => ⟨0, 0, 0⟩) (fun _ _ => ⟨1, 0, 0, 0, 1, 0, 0, 0, 1⟩)
        (fun _ _ => ⟨0, 0, 0⟩) (fun _ _ => ⟨1, 0, 0, 0⟩) (fun _ _ => ⟨0, 0, 0⟩) (fun _ _ => ⟨0, 0, 0⟩)
        (fun _ _ => ⟨1, 0, 0, 0, 1, 0, 0, 0, 1⟩) 1 1 1 1 1 0 0 = [1, 0, 0] := by
  constructor
  · rw [trackcom_poscom0_not_recomputed _ _ _ _ _ _ _ _ _ _ _ _ _ _ _ _ _ _ _ _ rfl (by norm_num)]
    rfl
  · unfold newPoscom0
    rw [cam_local_to_global_fixed _ _ _ _ _ _ _ _ _ _ _ _ _ _ _ _ _ _ _ _ rfl]
    dsimp only
    rw [cam_pos0_spec]
    simp [Write.lookupV, Mjw.Gen.Math.rot_vec_quat, V3.sub, V3.add, V3.smul, V3.dot, V3.cross, V3.toList,
      V3.ofList]
    try norm_num

/-- (2) the batch slot of all three camera outputs is `w % cam_pos0.shape[0]` -/
theorem cam_ref_batch_index_witness (cam_bodyid cam_target : Int → Int) (camx : Int → Int → V3 ℝ)
    (camm : Int → Int → M33 ℝ) (xpos com o1 o2 : Int → Int → V3 ℝ) (o3 : Int → Int → M33 ℝ) :
    -- cam_pos0 unbatched (shape0 = 1): world 1 writes slot 0 of cam_poscom0 / cam_mat0
    (_compute_cam_pos0 cam_bodyid cam_target camx camm xpos com o1 o2 o3 1 1 0).map (fun x => (x.arr, x.idx))
      = [("cam_pos0_out", [0, 0]), ("cam_poscom0_out", [0, 0]), ("cam_mat0_out", [0, 0])]
    -- cam_pos0 batched over 2 worlds: world 1 writes slot 1 of cam_poscom0 / cam_mat0, whatever their own size
    ∧ (_compute_cam_pos0 cam_bodyid cam_target camx camm xpos com o1 o2 o3 2 1 0).map (fun x => (x.arr, x.idx))
      = [("cam_pos0_out", [1, 0]), ("cam_poscom0_out", [1, 0]), ("cam_mat0_out", [1, 0])] := by
  constructor <;> (rw [cam_pos0_spec]; simp)

end Mjw.Props.C33
