/-
  C33, witnesses: the literal statement "every derived field set_const documents equals what mj_setConst computes"
  is FALSE for the camera / light reference fields.

  1. `trackcom_poscom0_not_recomputed` (all inputs) + `set_const_tracking_camera_witness` (concrete):
     `set_const_0` evaluates `smooth.camlight` at qpos0 WITH THE MODEL'S OWN `cam_mode`.  For a camera in mode
     TRACKCOM (2) `_cam_local_to_global` returns `cam_xpos = subtree_com[body] + cam_poscom0` — the STALE reference —
     and `_compute_cam_pos0` then stores `cam_poscom0 := cam_xpos − subtree_com[body]`, i.e. the old value again,
     whatever `cam_pos`, the body pose or the masses have become.  MuJoCo's `set0` switches every camera and
     light to mode FIXED while it evaluates `mj_camlight` (engine_setconst.c saves / restores `cam_mode`,
     `light_mode`), so it stores `xpos[body] + R(xquat[body])·cam_pos − subtree_com[body]`.
     The same happens to `cam_pos0` in mode TRACK, to `cam_mat0` in modes TARGETBODY(COM) (the look-at matrix is
     stored instead of the body-frame orientation) and to `light_pos0 / light_poscom0 / light_dir0`.
     Reproduction on the real code: /verif/harness/props/c33.py (trigger `camlight-mode`) or the stand-alone
     /verif/scripts/repro_c33.py (D1: `<camera mode="trackcom"/>`, change `body_mass`, call `mjw.set_const`, compare
     `m.cam_poscom0` / `cam_xpos` after forward with `mujoco.mj_setConst`; D2, D3 are items 3, 4 below; D4 is repaired).
  2. (removed) the former `cam_ref_batch_index_witness` — all three camera outputs indexed with `cam_pos0`'s batch size —
     was repaired in /repo ("fix: set_const indexed cam_poscom0, cam_mat0, light_poscom0 and light_dir0 with another
     field's batch size"); the positive statement is `Props.C33.cam_light_ref_slices`.
  3. `body_invweight0_fallback_witness`: degenerate component of `body_invweight0` replaced by the other one; MuJoCo
     (≥ 3.11, the reference of the repo's own tests) keeps the plain means.
  4. `dampratio_noise_sensitivity_witness`: the absolute test `|moment| > 1e-15` of `_resolve_dampratio` lets binary32
     round-off (1e-9) into `Σ dof_M0/moment²`; on the real code a dampratio position actuator on a spatial tendon of a
     floating body gets kv = -3.5e9 where MuJoCo gets -2.7e3.
-/
import MjwVerif.Props.C33
import MjwVerif.Gen.Smooth

set_option linter.unusedVariables false
set_option linter.unusedSimpArgs false

namespace Mjw.Props.C33
open Mjw Mjw.Gen.Set_const Mjw.Lemmas.C33

/-- `smooth._cam_local_to_global`, camera in mode TRACKCOM (`CamLightType.TRACKCOM = 2`): orientation and position
    come from the reference fields `cam_mat0`, `cam_poscom0` -/
theorem cam_local_to_global_trackcom {K : Type} [Scalar K] (cam_mode cam_bodyid cam_target : Int → Int)
    (cam_pos : Int → Int → V3 K) (cam_quat : Int → Int → Q K) (poscom0 pos0 : Int → Int → V3 K)
    (mat0 : Int → Int → M33 K) (xpos : Int → Int → V3 K) (xquat : Int → Int → Q K) (com ox : Int → Int → V3 K)
    (om : Int → Int → M33 K) (s1 s2 s3 s4 s5 w c : Int) (hm : cam_mode c = 2) :
    Gen.Smooth._cam_local_to_global cam_mode cam_bodyid cam_target cam_pos cam_quat poscom0 pos0 mat0 xpos xquat com
        ox om s1 s2 s3 s4 s5 w c
      = [Write.mk "cam_xmat_out" [w, c] (WVal.v (M33.toList (mat0 (Int.tmod w s3) c))) WKind.set,
         Write.mk "cam_xpos_out" [w, c]
           (WVal.v (V3.toList (V3.add (com w (cam_bodyid c)) (poscom0 (Int.tmod w s5) c)))) WKind.set] := by
  unfold Gen.Smooth._cam_local_to_global
  simp [hm]

/-- the same kernel, mode FIXED (0): the body-frame placement `xpos + R(xquat)·cam_pos`, `R(xquat · cam_quat)` -/
theorem cam_local_to_global_fixed {K : Type} [Scalar K] (cam_mode cam_bodyid cam_target : Int → Int)
    (cam_pos : Int → Int → V3 K) (cam_quat : Int → Int → Q K) (poscom0 pos0 : Int → Int → V3 K)
    (mat0 : Int → Int → M33 K) (xpos : Int → Int → V3 K) (xquat : Int → Int → Q K) (com ox : Int → Int → V3 K)
    (om : Int → Int → M33 K) (s1 s2 s3 s4 s5 w c : Int) (hm : cam_mode c = 0) :
    Gen.Smooth._cam_local_to_global cam_mode cam_bodyid cam_target cam_pos cam_quat poscom0 pos0 mat0 xpos xquat com
        ox om s1 s2 s3 s4 s5 w c
      = [Write.mk "cam_xpos_out" [w, c]
           (WVal.v (V3.toList (V3.add (xpos w (cam_bodyid c))
             (Mjw.Gen.Math.rot_vec_quat (cam_pos (Int.tmod w s1) c) (xquat w (cam_bodyid c)))))) WKind.set,
         Write.mk "cam_xmat_out" [w, c]
           (WVal.v (M33.toList (Mjw.Gen.Math.quat_to_mat
             (Mjw.Gen.Math.mul_quat (xquat w (cam_bodyid c)) (cam_quat (Int.tmod w s2) c))))) WKind.set] := by
  unfold Gen.Smooth._cam_local_to_global
  simp [hm]

/-- what `set_const_0` leaves in `cam_poscom0[w % n, c]`: `_compute_cam_pos0` applied to the `cam_xpos` that
    `smooth.camlight` (`_cam_local_to_global`, run with the model's `cam_mode`) stored in Data at qpos0 -/
noncomputable def newPoscom0 (cam_mode cam_bodyid cam_target : Int → Int)
    (cam_pos : Int → Int → V3 ℝ) (cam_quat : Int → Int → Q ℝ) (poscom0 pos0 : Int → Int → V3 ℝ)
    (mat0 : Int → Int → M33 ℝ) (xpos : Int → Int → V3 ℝ) (xquat : Int → Int → Q ℝ) (com ox : Int → Int → V3 ℝ)
    (om : Int → Int → M33 ℝ) (s1 s2 s3 s4 s5 w c : Int) : List ℝ :=
  let camW := Gen.Smooth._cam_local_to_global cam_mode cam_bodyid cam_target cam_pos cam_quat poscom0 pos0 mat0 xpos
    xquat com ox om s1 s2 s3 s4 s5 w c
  let camx : Int → Int → V3 ℝ := fun w' c' =>
    V3.ofList (Write.lookupV camW "cam_xpos_out" [w', c'] (V3.toList (ox w' c')))
  Write.lookupV (_compute_cam_pos0 cam_bodyid cam_target camx om xpos com pos0 poscom0 mat0 s4 s5 s3 w c)
    "cam_poscom0_out" [Int.tmod w s5, c] (V3.toList (poscom0 (Int.tmod w s5) c))

/-- **set_const never recomputes `cam_poscom0` of a TRACKCOM camera**: for all `cam_pos`, body poses, centres of
    mass and batch sizes, the value stored is the value that was there before. -/
theorem trackcom_poscom0_not_recomputed (cam_mode cam_bodyid cam_target : Int → Int)
    (cam_pos : Int → Int → V3 ℝ) (cam_quat : Int → Int → Q ℝ) (poscom0 pos0 : Int → Int → V3 ℝ)
    (mat0 : Int → Int → M33 ℝ) (xpos : Int → Int → V3 ℝ) (xquat : Int → Int → Q ℝ) (com ox : Int → Int → V3 ℝ)
    (om : Int → Int → M33 ℝ) (s1 s2 s3 s4 s5 w c : Int) (hm : cam_mode c = 2) (ht : cam_target c < 0) :
    newPoscom0 cam_mode cam_bodyid cam_target cam_pos cam_quat poscom0 pos0 mat0 xpos xquat com ox om s1 s2 s3 s4 s5 w c
      = V3.toList (poscom0 (Int.tmod w s5) c) := by
  unfold newPoscom0
  rw [cam_local_to_global_trackcom _ _ _ _ _ _ _ _ _ _ _ _ _ _ _ _ _ _ _ _ hm]
  dsimp only
  rw [cam_pos0_spec]
  have ht' : ¬ (cam_target c ≥ 0) := not_le.mpr ht
  simp [Write.lookupV, ht', V3.sub, V3.add, V3.toList, V3.ofList]

/-- one camera on body 1 at local offset `cam_pos = (1,0,0)`; body 1 at the origin with identity orientation, its
    subtree COM at the origin; stale reference `cam_poscom0 = 0`.
    `set_const_0` with the camera in mode TRACKCOM stores `cam_poscom0 = (0,0,0)`; evaluated in mode FIXED — what
    MuJoCo's `mj_setConst` does for every camera — the same two kernels store `(1,0,0)`. -/
theorem set_const_tracking_camera_witness :
    newPoscom0 (fun _ => 2) (fun _ => 1) (fun _ => -1) (fun _ _ => ⟨1, 0, 0⟩) (fun _ _ => ⟨1, 0, 0, 0⟩)
        (fun _ _ => ⟨0, 0, 0⟩) (fun _ _ => ⟨0, 0, 0⟩) (fun _ _ => ⟨1, 0, 0, 0, 1, 0, 0, 0, 1⟩)
        (fun _ _ => ⟨0, 0, 0⟩) (fun _ _ => ⟨1, 0, 0, 0⟩) (fun _ _ => ⟨0, 0, 0⟩) (fun _ _ => ⟨0, 0, 0⟩)
        (fun _ _ => ⟨1, 0, 0, 0, 1, 0, 0, 0, 1⟩) 1 1 1 1 1 0 0 = [0, 0, 0]
    ∧ newPoscom0 (fun _ => 0) (fun _ => 1) (fun _ => -1) (fun _ _ => ⟨1, 0, 0⟩) (fun _ _ => ⟨1, 0, 0, 0⟩)
        (fun _ _ => ⟨0, 0, 0⟩) (fun _ _ => ⟨0, 0, 0⟩) (fun _ _ => ⟨1, 0, 0, 0, 1, 0, 0, 0, 1⟩)
        (fun _ _ => ⟨0, 0, 0⟩) (fun _ _ => ⟨1, 0, 0, 0⟩) (fun _ _ => ⟨0, 0, 0⟩) (fun _ _ => ⟨0, 0, 0⟩)
        (fun _ _ => ⟨1, 0, 0, 0, 1, 0, 0, 0, 1⟩) 1 1 1 1 1 0 0 = [1, 0, 0] := by
  constructor
  · rw [trackcom_poscom0_not_recomputed _ _ _ _ _ _ _ _ _ _ _ _ _ _ _ _ _ _ _ _ rfl (by norm_num)]
    rfl
  · unfold newPoscom0
    rw [cam_local_to_global_fixed _ _ _ _ _ _ _ _ _ _ _ _ _ _ _ _ _ _ _ _ rfl]
    dsimp only
    rw [cam_pos0_spec]
    simp [Write.lookupV, Mjw.Gen.Math.rot_vec_quat, V3.sub, V3.add, V3.smul, V3.dot, V3.cross, V3.toList,
      V3.ofList]
    try norm_num

/-- (3) **`body_invweight0` differs from MuJoCo (≥ 3.11) for degenerate bodies.**  A body that can only translate (slide
    joints): rotational block of `J M⁻¹ Jᵀ` zero, translational diagonal `(1/4, 1/4, 0)`.  `_finalize_body_invweight0`
    stores the translational mean in BOTH components (`Lemmas.C33.bodyInvweight_fallback`), `mujoco.mj_setConst` the plain
    means `(third·½, 0)`.  (MuJoCo additionally special-cases slider-only "simple" bodies: `(1/mass, 0)`.) -/
theorem body_invweight0_fallback_witness :
    _finalize_body_invweight0 (fun _ => 1) (fun _ _ k => if k = 0 ∨ k = 1 then (1 / 4 : ℝ) else 0)
        (fun _ _ => ⟨0, 0⟩) 1 1 0 1
      = [Write.mk "body_invweight0_out" [0, 1] (WVal.v [third * (1 / 2), third * (1 / 2)]) WKind.set]
    ∧ third * (1 / 2) ≠ 0 := by
  have hm : minval < third * (1 / 2) := by unfold minval third; norm_num
  constructor
  · rw [finalize_body_invweight0_spec]
    have hb : ¬ ((1 : Int) = 0 ∨ (fun _ : Int => (1 : Int)) 1 = 0) := by simp
    rw [if_neg hb]
    have hA : bodyInvweight (fun k : Int => if k = 0 ∨ k = 1 then (1 / 4 : ℝ) else 0)
        = (third * (1 / 2), third * (1 / 2)) := by
      have e1 : third * ((fun k : Int => if k = 0 ∨ k = 1 then (1 / 4 : ℝ) else 0) 0
          + (fun k : Int => if k = 0 ∨ k = 1 then (1 / 4 : ℝ) else 0) 1
          + (fun k : Int => if k = 0 ∨ k = 1 then (1 / 4 : ℝ) else 0) 2) = third * (1 / 2) := by norm_num
      have e2 : third * ((fun k : Int => if k = 0 ∨ k = 1 then (1 / 4 : ℝ) else 0) 3
          + (fun k : Int => if k = 0 ∨ k = 1 then (1 / 4 : ℝ) else 0) 4
          + (fun k : Int => if k = 0 ∨ k = 1 then (1 / 4 : ℝ) else 0) 5) = 0 := by norm_num
      unfold bodyInvweight
      rw [e1, e2, if_neg (fun h => absurd h.1 (not_lt.mpr hm.le)), if_pos ⟨minval_pos, hm⟩]
    rw [hA]
    rfl
  · exact ne_of_gt (lt_trans minval_pos hm)

/-- (4) **dampratio resolution is hypersensitive to round-off in the moment arm.**  `_resolve_dampratio` takes every
    entry with `|moment| > 1e-15` into the reflected mass `Σ dof_M0/moment²` (`Props.C33.resolve_dampratio_spec`).
    A moment entry that is analytically 0 but carries binary32 round-off `1e-9` (spatial-tendon / site transmissions
    on a floating base) contributes `1e18`: the stored damping grows by the factor `1e9`.  (MuJoCo's identical test is
    harmless in binary64, where the round-off is `1e-17 < mjMINVAL`.) -/
theorem dampratio_noise_sensitivity_witness :
    reflectedMass 2 0 (fun k => k) (fun k => if k = 0 then (1 / 10 ^ 9 : ℝ) else 1) (fun _ => 1) = 10 ^ 18 + 1
    ∧ reflectedMass 2 0 (fun k => k) (fun k => if k = 0 then (0 : ℝ) else 1) (fun _ => 1) = 1 := by
  have h1 : minval < 1 := by unfold minval; norm_num
  have h9 : minval < |(1 / 10 ^ 9 : ℝ)| := by
    rw [abs_of_pos (by positivity)]; unfold minval; norm_num
  have h0 : ¬ minval < |(0 : ℝ)| := by rw [abs_zero]; exact not_lt.mpr minval_pos.le
  have h9' : minval < (1 / 1000000000 : ℝ) := by unfold minval; norm_num
  constructor
  · unfold reflectedMass
    simp [Finset.sum_range_succ, h1, h9, h9']
    all_goals (unfold minval; norm_num)
  · unfold reflectedMass
    simp [Finset.sum_range_succ, h1, h0, minval_pos.le]

end Mjw.Props.C33
