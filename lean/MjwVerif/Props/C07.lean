/-
  C07  Sensors and energy agree with MuJoCo C.                                                     (C07_partial)

  Theorems about the functions/kernels of /repo/mujoco_warp/_src/sensor.py as regenerated into `Mjw.Gen.Sensor` on
  every run, against the hand-written transcription of MuJoCo's C definitions in `Spec/Sensor.lean`
  (engine_sensor.c `apply_cutoff`/`get_xpos_xmat`/`get_xquat`, engine_support.c `mj_objectVelocity/Acceleration`,
  `mj_energyPos`, `mj_forwardSkip`), and about the host graph of `forward()` (Gen/Host.lean).

  PROVED
  1. cutoff (`_write_scalar`, K = ℝ): exactly one store to `out[sensor_adr[sid]]` of MuJoCo's `apply_cutoff` value
     (1a/1b); REAL → clipped to [-c, c], unchanged inside (1c); POSITIVE → min(x, c) only (1d); AXIS/QUATERNION untouched
     (1e); cutoff ≤ 0 = no cutoff (1f); GEOMFROMTO exempt (1g); idempotent (1h); monotone (1i).
  2. per-sensor formulas (generic K, all inputs): object position/body/orientation tables `_get_pos`, `_get_body_id`,
     `_get_quat` = `get_xpos_xmat`/`get_xquat` for BODY/XBODY/GEOM/SITE/CAMERA/other (2a-2c); FRAMEQUAT = q_obj or
     conj(q_ref)·q_obj (2d); `_cvel_offset` and FRAMELINACC/FRAMEANGACC use the same tables and MuJoCo's point
     velocity/acceleration formulas (2e-2g); VELOCIMETER, GYRO, ACCELEROMETER, FORCE, TORQUE, MAGNETOMETER (2h); the
     copying sensors (2i); BALLQUAT (2j).  Over ℝ: ACCELEROMETER = R_siteᵀ · FRAMELINACC(site) for proper rotations
     (2k); velocimeter/gyro preserve length (2l); BALLQUAT, `_get_quat`, FRAMEQUAT are unit quaternions (2m-2o); a frame
     relative to itself has identity orientation (2p).  Limit sensors: `_limit_pos/_vel/_frc` write iff the row is a
     limit row with `efc_id == sensor_objid` AND row kind = sensor kind, value through the cutoff stage (2q-2t).
     Cutoff post-pass `_tendon_actuator_force_cutoff` over an address list: one store of `apply_cutoff` of the
     accumulated cell (2u); for a TOUCH sensor the cell ends at min(sum, cutoff) for cutoff > 0, unchanged otherwise (2v).
  3. energy kernels (K = ℝ unless noted): exact write list of the gravity kernel (generic K) = −m g·xipos, linear in g
     (3a-3c); tendon springs with the dead band, zero inside, ≥ 0 for linear k ≥ 0 (3d, 3e); slide/hinge, ball, free
     joint springs = poly_potential of the displacement / quaternion distance (3f, 3g); ½k x², ≥ 0, zero at the
     reference (3f); all joint springs ≥ 0 for linear k ≥ 0 (3h).
  4. (in Props/C07Host.lean) gating on the host graph: how often energy_pos / energy_vel run in each of the 16 configurations of (ENERGY flag,
     SENSOR disable flag, e_potential sensor, e_kinetic sensor) (4.0, 4a); equals MuJoCo's rule in ALL 16 (4b
     `energy_gating`); d.energy zeroed iff flag off (4c); order of the energy kernels and of the sensor kernel (4d).
  5. (in Props/C07Host.lean) the launches reading `m.sensor_touch_adr` are `_sensor_touch` then the cutoff post-pass (5a);
     `_sensor_touch` and `_tendon_actuator_force` are each followed immediately by a cutoff post-pass over the same
     address list (5b).

  SCOPE of the Spec: `pointAcc` is the classical mj_objectAcceleration formula; MuJoCo 3.13 additionally reports 0 for
  objects on bodies welded to the world (observed, C07Witness W6) — 2f, 2h (accelerometer), 2k describe MuJoCo for the
  other bodies.
  ASSUMED (hypotheses): `site_xmat` is a proper rotation (2k, 2l); xquat / model frame quaternions have unit norm
  (2n-2p); CONTACT sensors never go through `_write_scalar` (true of sensor.py: `_sensor_acc` stores them directly).

  FALSE of the code (Props/C07Witness.lean): with the ENERGY flag off d.energy is
  zeroed although an energy sensor computed it (MuJoCo keeps it); accelerometer/framelinacc on bodies welded to the world
  report −gravity (MuJoCo 3.13: 0); BALLQUAT of a zero quaternion is (0,0,0,1), MuJoCo gives
  (1,0,0,0).
  REPAIRED in /repo after this check found them (now theorems): limit sensors compared only the id, not the row kind
  (2q-2t); ENERGY flag + energy sensor + sensors disabled left d.energy stale (4b); touch sensors ignored their cutoff
  (2u-2v, 5a-5b; what is NOT proved: that `_sensor_touch`'s atomic adds sum to MuJoCo's touch force — sampled — and that
  no later kernel of `sensor_acc` overwrites a touch cell — the host extractor lists the later writers of d.sensordata,
  their address sets are not modelled).

  MISSING (C07_partial): `_write_vector`, `_get_mat`, `_frame_pos`, `_frame_axis`, `_frame_linvel`, `_frame_angvel`, the
  dispatch kernels `_sensor_pos/_vel/_acc`, `_energy_pos_zero`, the tiled kinetic-energy kernel, `_sensor_tactile` and
  `contact_sort` are not translated (translator: `wp.identity(3, dtype=…)` keyword call, array views passed to a writing
  function, tile primitives, vec8i) — FRAMEPOS/AXIS/LINVEL/ANGVEL, the per-type dispatch, vector cutoffs, geom distance,
  insidesite, contact sensors and ½ vᵀMv are covered only by the differential oracle of harness/props/c07.py, which
  also evaluates the Spec formulas on mujoco_warp's own Data arrays.  Numerical agreement with MuJoCo C is sampled.
-/
import MjwVerif.Lemmas.C07

set_option linter.unusedVariables false
set_option linter.unusedSimpArgs false
set_option linter.unusedTactic false
set_option linter.unreachableTactic false

namespace Mjw.Props.C07
open Mjw Mjw.Gen.Sensor Mjw.Lemmas.C07 Mjw.Spec.Sensor

/-! ## 1. cutoff handling (`_write_scalar`) -/

/-- the cell a scalar sensor leaves behind: value of `out[sensor_adr[sid]]` after the writes of `_write_scalar`
    (the kernel calculus' own read-back function), whatever it held before -/
noncomputable def cell (stype sdatatype sadr : Int → Int) (scutoff : Int → ℝ) (sid : Int) (x : ℝ) : ℝ :=
  Write.lookupF (_write_scalar_A_A_A_A_I_F_A stype sdatatype sadr scutoff sid x (fun _ => 0)) "out" [sadr sid] 0

theorem min_eq_mjuMin (x c : ℝ) : min x c = if c < x then c else x := by
  by_cases h : c < x
  · rw [if_pos h, min_eq_right (le_of_lt h)]
  · rw [if_neg h, min_eq_left (not_lt.mp h)]

/-- **(1a) `_write_scalar` performs exactly one store, to `out[sensor_adr[sid]]`, of MuJoCo's `apply_cutoff` value**
    (for every sensor type except CONTACT, which never goes through `_write_scalar`). -/
theorem write_scalar_spec (stype sdatatype sadr : Int → Int) (scutoff : Int → ℝ) (sid : Int) (x : ℝ) (out : Int → ℝ)
    (hct : stype sid ≠ SENS_CONTACT) :
    _write_scalar_A_A_A_A_I_F_A stype sdatatype sadr scutoff sid x out
      = [⟨"out", [sadr sid], WVal.f (applyCutoff (stype sid) (sdatatype sid) (scutoff sid) x), WKind.set⟩] := by
  have hct' : ¬ stype sid = 42 := hct
  unfold _write_scalar_A_A_A_A_I_F_A applyCutoff
  rcases lt_or_ge 0 (scutoff sid) with hc | hc
  · have hc0 : 0 ≤ scutoff sid := le_of_lt hc
    by_cases ht : stype sid = 41
    · simp [hc, ht, sgt, slit]
    · by_cases h0 : sdatatype sid = 0
      · simp [hc, ht, hct', h0, sgt, slit, clamp_eq_clip _ _ hc0]
      · by_cases h1 : sdatatype sid = 1
        · simp [hc, ht, hct', h0, h1, sgt, slit, slt, smin, min_eq_mjuMin]
        · simp [hc, ht, hct', h0, h1, sgt, slit]
  · have hc' : ¬ 0 < scutoff sid := not_lt.mpr hc
    simp [hc', sgt, slit]

/-- (1b) read back: the cell holds the `apply_cutoff` value -/
theorem cell_eq_spec (stype sdatatype sadr : Int → Int) (scutoff : Int → ℝ) (sid : Int) (x : ℝ)
    (hct : stype sid ≠ SENS_CONTACT) :
    cell stype sdatatype sadr scutoff sid x = applyCutoff (stype sid) (sdatatype sid) (scutoff sid) x := by
  unfold cell
  rw [write_scalar_spec _ _ _ _ _ _ _ hct]
  simp [Write.lookupF]

/-- (1c) REAL sensors with a positive cutoff end up in `[-cutoff, cutoff]` and are unchanged inside it -/
theorem cutoff_real (stype sdatatype sadr : Int → Int) (scutoff : Int → ℝ) (sid : Int) (x : ℝ)
    (hct : stype sid ≠ SENS_CONTACT) (hft : stype sid ≠ SENS_GEOMFROMTO) (hd : sdatatype sid = REAL) (hc : 0 < scutoff sid) :
    -scutoff sid ≤ cell stype sdatatype sadr scutoff sid x ∧ cell stype sdatatype sadr scutoff sid x ≤ scutoff sid
    ∧ (|x| ≤ scutoff sid → cell stype sdatatype sadr scutoff sid x = x)
    ∧ cell stype sdatatype sadr scutoff sid x = max (-scutoff sid) (min x (scutoff sid)) := by
  have hct' : ¬ stype sid = 42 := hct
  have hft' : ¬ stype sid = 41 := hft
  have hd' : sdatatype sid = 0 := hd
  rw [cell_eq_spec _ _ _ _ _ _ hct]
  have e : applyCutoff (stype sid) (sdatatype sid) (scutoff sid) x = mjuClip x (-scutoff sid) (scutoff sid) := by
    unfold applyCutoff; simp [hc, hct', hft', hd', sgt, slit]
  rw [e]
  unfold mjuClip
  simp only [slt, sgt, hneg]
  refine ⟨?_, ?_, ?_, ?_⟩
  · split_ifs <;> linarith
  · split_ifs <;> linarith
  · intro hx
    have := abs_le.mp hx
    split_ifs <;> linarith
  · split_ifs with h1 h2
    · rw [min_eq_left (by linarith), max_eq_left (by linarith)]
    · rw [min_eq_right (by linarith), max_eq_right (by linarith)]
    · rw [min_eq_left (by linarith), max_eq_right (by linarith)]

/-- (1d) POSITIVE sensors with a positive cutoff: `min(x, cutoff)` — capped above only (a rangefinder's `-1` passes) -/
theorem cutoff_positive (stype sdatatype sadr : Int → Int) (scutoff : Int → ℝ) (sid : Int) (x : ℝ)
    (hct : stype sid ≠ SENS_CONTACT) (hft : stype sid ≠ SENS_GEOMFROMTO) (hd : sdatatype sid = POSITIVE) (hc : 0 < scutoff sid) :
    cell stype sdatatype sadr scutoff sid x = min x (scutoff sid) := by
  have hct' : ¬ stype sid = 42 := hct
  have hft' : ¬ stype sid = 41 := hft
  have hd' : sdatatype sid = 1 := hd
  rw [cell_eq_spec _ _ _ _ _ _ hct]
  unfold applyCutoff
  simp [hc, hct', hft', hd', sgt, slit, slt, min_eq_mjuMin]

/-- (1e) AXIS and QUATERNION sensors are never touched by the cutoff -/
theorem cutoff_axis_quat_untouched (stype sdatatype sadr : Int → Int) (scutoff : Int → ℝ) (sid : Int) (x : ℝ)
    (hct : stype sid ≠ SENS_CONTACT) (hd : sdatatype sid = AXIS ∨ sdatatype sid = QUATERNION) :
    cell stype sdatatype sadr scutoff sid x = x := by
  have h0 : ¬ sdatatype sid = 0 := by rcases hd with h | h <;> (rw [h]; decide)
  have h1 : ¬ sdatatype sid = 1 := by rcases hd with h | h <;> (rw [h]; decide)
  rw [cell_eq_spec _ _ _ _ _ _ hct]
  unfold applyCutoff
  by_cases hg : (Scalar.gt (scutoff sid) (Scalar.lit 0 0 : ℝ) && !(stype sid == SENS_GEOMFROMTO) && !(stype sid == SENS_CONTACT)) = true
  · rw [if_pos hg]; simp [h0, h1]
  · rw [if_neg hg]

/-- (1f) a cutoff of zero (or a negative one) means "no cutoff" -/
theorem cutoff_nonpositive_noop (stype sdatatype sadr : Int → Int) (scutoff : Int → ℝ) (sid : Int) (x : ℝ)
    (hct : stype sid ≠ SENS_CONTACT) (hc : scutoff sid ≤ 0) :
    cell stype sdatatype sadr scutoff sid x = x := by
  have hc' : ¬ 0 < scutoff sid := not_lt.mpr hc
  rw [cell_eq_spec _ _ _ _ _ _ hct]
  unfold applyCutoff
  simp [hc', sgt, slit]

/-- (1g) GEOMFROMTO is exempt: its cutoff is the search radius of the distance query, not a clamp -/
theorem cutoff_fromto_exempt (stype sdatatype sadr : Int → Int) (scutoff : Int → ℝ) (sid : Int) (x : ℝ)
    (hft : stype sid = SENS_GEOMFROMTO) :
    cell stype sdatatype sadr scutoff sid x = x := by
  have hft' : stype sid = 41 := hft
  have hct : stype sid ≠ SENS_CONTACT := by rw [hft]; decide
  rw [cell_eq_spec _ _ _ _ _ _ hct]
  unfold applyCutoff
  simp [hft']

/-- (1h) idempotent: sending the stored value through the cutoff again changes nothing -/
theorem cutoff_idempotent (stype sdatatype sadr : Int → Int) (scutoff : Int → ℝ) (sid : Int) (x : ℝ)
    (hct : stype sid ≠ SENS_CONTACT) :
    cell stype sdatatype sadr scutoff sid (cell stype sdatatype sadr scutoff sid x) = cell stype sdatatype sadr scutoff sid x := by
  rcases le_or_gt (scutoff sid) 0 with hc | hc
  · rw [cutoff_nonpositive_noop _ _ _ _ _ _ hct hc, cutoff_nonpositive_noop _ _ _ _ _ _ hct hc]
  · by_cases hft : stype sid = SENS_GEOMFROMTO
    · rw [cutoff_fromto_exempt _ _ _ _ _ _ hft, cutoff_fromto_exempt _ _ _ _ _ _ hft]
    · by_cases h0 : sdatatype sid = REAL
      · obtain ⟨hlo, hhi, hin, _⟩ := cutoff_real stype sdatatype sadr scutoff sid x hct hft h0 hc
        obtain ⟨_, _, hin2, _⟩ := cutoff_real stype sdatatype sadr scutoff sid (cell stype sdatatype sadr scutoff sid x) hct hft h0 hc
        exact hin2 (abs_le.mpr ⟨hlo, hhi⟩)
      · by_cases h1 : sdatatype sid = POSITIVE
        · rw [cutoff_positive _ _ _ _ _ _ hct hft h1 hc, cutoff_positive _ _ _ _ _ _ hct hft h1 hc]
          rw [min_assoc, min_self]
        · have h0' : ¬ sdatatype sid = 0 := h0
          have h1' : ¬ sdatatype sid = 1 := h1
          have e : ∀ y, cell stype sdatatype sadr scutoff sid y = y := by
            intro y
            rw [cell_eq_spec _ _ _ _ _ _ hct]
            unfold applyCutoff
            split_ifs <;> first | rfl | simp_all
          rw [e, e]

/-- (1i) monotone: a larger raw reading never yields a smaller sensor value -/
theorem cutoff_monotone (stype sdatatype sadr : Int → Int) (scutoff : Int → ℝ) (sid : Int) (x y : ℝ)
    (hct : stype sid ≠ SENS_CONTACT) (hxy : x ≤ y) :
    cell stype sdatatype sadr scutoff sid x ≤ cell stype sdatatype sadr scutoff sid y := by
  rcases le_or_gt (scutoff sid) 0 with hc | hc
  · rw [cutoff_nonpositive_noop _ _ _ _ _ _ hct hc, cutoff_nonpositive_noop _ _ _ _ _ _ hct hc]; exact hxy
  · by_cases hft : stype sid = SENS_GEOMFROMTO
    · rw [cutoff_fromto_exempt _ _ _ _ _ _ hft, cutoff_fromto_exempt _ _ _ _ _ _ hft]; exact hxy
    · by_cases h0 : sdatatype sid = REAL
      · rw [(cutoff_real stype sdatatype sadr scutoff sid x hct hft h0 hc).2.2.2,
            (cutoff_real stype sdatatype sadr scutoff sid y hct hft h0 hc).2.2.2]
        exact max_le_max le_rfl (min_le_min hxy le_rfl)
      · by_cases h1 : sdatatype sid = POSITIVE
        · rw [cutoff_positive _ _ _ _ _ _ hct hft h1 hc, cutoff_positive _ _ _ _ _ _ hct hft h1 hc]
          exact min_le_min hxy le_rfl
        · have h0' : ¬ sdatatype sid = 0 := h0
          have h1' : ¬ sdatatype sid = 1 := h1
          have e : ∀ z, cell stype sdatatype sadr scutoff sid z = z := by
            intro z
            rw [cell_eq_spec _ _ _ _ _ _ hct]
            unfold applyCutoff
            split_ifs <;> first | rfl | simp_all
          rw [e, e]; exact hxy

/-- non-vacuity of the cutoff hypotheses: a REAL joint-position sensor (type 9) with cutoff 0.5 reading 2 stores 0.5;
    a POSITIVE one reading -1 keeps -1 -/
example : cell (fun _ => 9) (fun _ => REAL) (fun _ => 0) (fun _ => (1 / 2 : ℝ)) 0 2 = 1 / 2 := by
  have h := (cutoff_real (fun _ => 9) (fun _ => REAL) (fun _ => 0) (fun _ => (1 / 2 : ℝ)) 0 2 (by decide) (by decide) rfl
    (by norm_num)).2.2.2
  rw [h]; norm_num
example : cell (fun _ => 7) (fun _ => POSITIVE) (fun _ => 0) (fun _ => (1 / 2 : ℝ)) 0 (-1) = -1 := by
  rw [cutoff_positive _ _ _ _ _ _ (by decide) (by decide) rfl (by norm_num)]; norm_num


/-! ## 2. per-sensor formulas -/

section generic
variable {K : Type} [Scalar K]

theorem objtype_cases (t : Int) :
    t = 1 ∨ t = 2 ∨ t = 5 ∨ t = 6 ∨ t = 7 ∨ (t ≠ 1 ∧ t ≠ 2 ∧ t ≠ 5 ∧ t ≠ 6 ∧ t ≠ 7) := by omega

/-- the generated quaternion product is MuJoCo's `mju_mulQuat`, `quat_inv` is `mju_negQuat` -/
theorem mul_quat_spec (u v : Q K) : Gen.Math.mul_quat u v = Spec.Kinematics.mulQuat u v := rfl
theorem quat_inv_spec (u : Q K) : Gen.Math.quat_inv u = negQuat u := rfl

/-- (2a) `_get_pos` is `get_xpos_xmat`'s position table: BODY → xipos, XBODY → xpos, GEOM, SITE, CAMERA, else 0 -/
theorem get_pos_spec (xpos xipos gxpos sxpos cxpos : Int → Int → V3 K) (w t o : Int) :
    _get_pos xpos xipos gxpos sxpos cxpos w t o = objPos (xpos w) (xipos w) (gxpos w) (sxpos w) (cxpos w) t o := by
  unfold _get_pos objPos
  rcases objtype_cases t with rfl | rfl | rfl | rfl | rfl | ⟨h1, h2, h5, h6, h7⟩
  all_goals simp [V3.fill, *]

/-- (2b) `_get_body_id`: the body an object is attached to -/
theorem get_body_id_spec (gb sb cb : Int → Int) (t o : Int) :
    _get_body_id (K := K) gb sb cb t o = objBody gb sb cb t o := by
  unfold _get_body_id objBody
  rcases objtype_cases t with rfl | rfl | rfl | rfl | rfl | ⟨h1, h2, h5, h6, h7⟩
  all_goals simp [*]

/-- (2c) `_get_quat` is `get_xquat` (local orientation composed with the body's; batched model fields are read at
    `worldid % shape[0]`) -/
theorem get_quat_spec (biq : Int → Int → Q K) (gb : Int → Int) (gq : Int → Int → Q K) (sb : Int → Int)
    (sq : Int → Int → Q K) (cb : Int → Int) (cq : Int → Int → Q K) (xquat : Int → Int → Q K) (w t o s1 s2 s3 s4 : Int) :
    _get_quat biq gb gq sb sq cb cq xquat w t o s1 s2 s3 s4
      = objQuat (xquat w) (biq (Int.tmod w s1)) (gq (Int.tmod w s2)) (sq (Int.tmod w s3)) (cq (Int.tmod w s4)) gb sb cb t o := by
  unfold _get_quat objQuat
  rcases objtype_cases t with rfl | rfl | rfl | rfl | rfl | ⟨h1, h2, h5, h6, h7⟩
  all_goals simp [mul_quat_spec, *]

/-- (2d) FRAMEQUAT: the object's orientation, or `conj(q_ref) * q_obj` relative to a reference frame -/
theorem frame_quat_spec (biq : Int → Int → Q K) (gb : Int → Int) (gq : Int → Int → Q K) (sb : Int → Int)
    (sq : Int → Int → Q K) (cb : Int → Int) (cq : Int → Int → Q K) (xquat : Int → Int → Q K)
    (w o t r rt s1 s2 s3 s4 : Int) :
    _frame_quat biq gb gq sb sq cb cq xquat w o t r rt s1 s2 s3 s4
      = frameQuat (_get_quat biq gb gq sb sq cb cq xquat w t o s1 s2 s3 s4)
          (if r = -1 then none else some (_get_quat biq gb gq sb sq cb cq xquat w rt r s1 s2 s3 s4)) := by
  unfold _frame_quat frameQuat
  by_cases h : r = -1
  · simp [h]
  · simp [h, mul_quat_spec, quat_inv_spec]

/-- (2e) `_cvel_offset`: spatial velocity of the object's body, and the offset of the object's position from the
    subtree com of the body's kinematic root — with the same position/body tables as `_get_pos`/`_get_body_id` -/
theorem cvel_offset_spec (root gb sb cb : Int → Int) (xpos xipos gxpos sxpos cxpos com : Int → Int → V3 K)
    (cvel : Int → Int → V6 K) (w t o : Int) :
    _cvel_offset root gb sb cb xpos xipos gxpos sxpos cxpos com cvel w t o
      = (cvel w (objBody gb sb cb t o),
         V3.sub (objPos (xpos w) (xipos w) (gxpos w) (sxpos w) (cxpos w) t o) (com w (root (objBody gb sb cb t o)))) := by
  unfold _cvel_offset objPos objBody
  rcases objtype_cases t with rfl | rfl | rfl | rfl | rfl | ⟨h1, h2, h5, h6, h7⟩
  all_goals simp [V3.fill, *]

/-- (2f) FRAMELINACC is `mj_objectAcceleration`'s linear part in world orientation: `a − offset × α + ω × v` at the
    object's position, for the object's body -/
theorem framelinacc_spec (root gb sb cb : Int → Int) (xpos xipos gxpos sxpos cxpos com : Int → Int → V3 K)
    (cvel cacc : Int → Int → V6 K) (w o t : Int) :
    _framelinacc root gb sb cb xpos xipos gxpos sxpos cxpos com cvel cacc w o t
      = pointAcc (cacc w (objBody gb sb cb t o)) (cvel w (objBody gb sb cb t o))
          (V3.sub (objPos (xpos w) (xipos w) (gxpos w) (sxpos w) (cxpos w) t o) (com w (root (objBody gb sb cb t o)))) := by
  unfold _framelinacc objPos objBody pointAcc pointVel
  rcases objtype_cases t with rfl | rfl | rfl | rfl | rfl | ⟨h1, h2, h5, h6, h7⟩
  all_goals simp [V3.fill, *]

/-- (2g) FRAMEANGACC: rotational part of the body's `cacc` -/
theorem frameangacc_spec (gb sb cb : Int → Int) (cacc : Int → Int → V6 K) (w o t : Int) :
    _frameangacc gb sb cb cacc w o t = V6.top (cacc w (objBody gb sb cb t o)) := by
  unfold _frameangacc objBody
  rcases objtype_cases t with rfl | rfl | rfl | rfl | rfl | ⟨h1, h2, h5, h6, h7⟩
  all_goals simp [*]

/-- (2h) site-attached sensors: VELOCIMETER `Rᵀ(v − offset × ω)`, GYRO `Rᵀω`, ACCELEROMETER (correction formed in the
    site frame), FORCE `Rᵀf`, TORQUE `Rᵀ(τ − offset × f)`, MAGNETOMETER `RᵀB`; offset = site − subtree_com[root] -/
theorem site_sensors_spec (root sb : Int → Int) (sxpos : Int → Int → V3 K) (sxmat : Int → Int → M33 K)
    (com : Int → Int → V3 K) (cvel cacc cfrc : Int → Int → V6 K) (mag : Int → V3 K) (w o s : Int) :
    _velocimeter root sb sxpos sxmat com cvel w o
        = velocimeter (sxmat w o) (cvel w (sb o)) (V3.sub (sxpos w o) (com w (root (sb o))))
    ∧ _gyro sb sxmat cvel w o = gyro (sxmat w o) (cvel w (sb o))
    ∧ _accelerometer root sb sxpos sxmat com cvel cacc w o
        = accelerometer (sxmat w o) (cacc w (sb o)) (cvel w (sb o)) (V3.sub (sxpos w o) (com w (root (sb o))))
    ∧ _force sb sxmat cfrc w o = force (sxmat w o) (cfrc w (sb o))
    ∧ _torque root sb sxpos sxmat com cfrc w o
        = torque (sxmat w o) (cfrc w (sb o)) (V3.sub (sxpos w o) (com w (root (sb o))))
    ∧ _magnetometer mag sxmat w o s = magnetometer (sxmat w o) (mag (Int.tmod w s)) :=
  ⟨rfl, rfl, rfl, rfl, rfl, rfl⟩

/-- (2i) sensors that copy a computed quantity: joint/tendon/actuator position and velocity, actuator and joint
    actuator force, ball angular velocity, subtree com / linear velocity / angular momentum, clock -/
theorem copy_sensors_spec (qadr dadr : Int → Int) (qpos qvel tlen tvel alen avel afrc qfrc : Int → Int → K)
    (scom slin sang : Int → Int → V3 K) (time : Int → K) (w o : Int) :
    _joint_pos qadr qpos w o = qpos w (qadr o) ∧ _joint_vel dadr qvel w o = qvel w (dadr o)
    ∧ _tendon_pos tlen w o = tlen w o ∧ _tendon_vel tvel w o = tvel w o
    ∧ _actuator_pos alen w o = alen w o ∧ _actuator_vel avel w o = avel w o
    ∧ _actuator_force afrc w o = afrc w o ∧ _joint_actuator_force dadr qfrc w o = qfrc w (dadr o)
    ∧ _ball_ang_vel dadr qvel w o = ⟨qvel w (dadr o + 0), qvel w (dadr o + 1), qvel w (dadr o + 2)⟩
    ∧ _subtree_com scom w o = scom w o ∧ _subtree_linvel slin w o = slin w o ∧ _subtree_angmom sang w o = sang w o
    ∧ _clock time w = time w :=
  ⟨rfl, rfl, rfl, rfl, rfl, rfl, rfl, rfl, rfl, rfl, rfl, rfl, rfl⟩

/-- (2j) BALLQUAT: the joint's quaternion, normalised -/
theorem ball_quat_spec (qadr : Int → Int) (qpos : Int → Int → K) (w o : Int) :
    _ball_quat qadr qpos w o
      = Q.normalize ⟨qpos w (qadr o + 0), qpos w (qadr o + 1), qpos w (qadr o + 2), qpos w (qadr o + 3)⟩ := rfl

end generic

/-! ### laws over ℝ -/

/-- (2k) **the accelerometer is the site-frame rotation of FRAMELINACC at the same site**: forming the Coriolis
    correction after rotating (sensor.py `_accelerometer`, MuJoCo `flg_local = 1`) or before (`_framelinacc`) is the
    same thing when `site_xmat` is a proper rotation -/
theorem accelerometer_eq_rotated_framelinacc (root gb sb cb : Int → Int)
    (xpos xipos gxpos sxpos cxpos com : Int → Int → V3 ℝ) (sxmat : Int → Int → M33 ℝ) (cvel cacc : Int → Int → V6 ℝ)
    (w o : Int) (hR : IsRotation (sxmat w o)) :
    _accelerometer root sb sxpos sxmat com cvel cacc w o
      = M33.mulVec (M33.transpose (sxmat w o))
          (_framelinacc root gb sb cb xpos xipos gxpos sxpos cxpos com cvel cacc w o OBJ_SITE) := by
  rw [framelinacc_spec]
  have hb : objBody gb sb cb OBJ_SITE o = sb o := by simp [objBody]
  have hp : objPos (xpos w) (xipos w) (gxpos w) (sxpos w) (cxpos w) OBJ_SITE o = sxpos w o := by simp [objPos]
  rw [hb, hp]
  show accelerometer (sxmat w o) (cacc w (sb o)) (cvel w (sb o)) (V3.sub (sxpos w o) (com w (root (sb o)))) = _
  simp only [accelerometer, pointAcc, rotT_add, rotT_cross hR]

/-- (2l) a proper rotation preserves lengths: `|velocimeter|² = |v_site|²`, `|gyro|² = |ω|²` -/
theorem velocimeter_gyro_lengthSq (root sb : Int → Int) (sxpos : Int → Int → V3 ℝ) (sxmat : Int → Int → M33 ℝ)
    (com : Int → Int → V3 ℝ) (cvel : Int → Int → V6 ℝ) (w o : Int) (hR : IsRotation (sxmat w o)) :
    V3.dot (_velocimeter root sb sxpos sxmat com cvel w o) (_velocimeter root sb sxpos sxmat com cvel w o)
        = V3.dot (pointVel (cvel w (sb o)) (V3.sub (sxpos w o) (com w (root (sb o)))))
            (pointVel (cvel w (sb o)) (V3.sub (sxpos w o) (com w (root (sb o)))))
    ∧ V3.dot (_gyro sb sxmat cvel w o) (_gyro sb sxmat cvel w o) = V3.dot (V6.top (cvel w (sb o))) (V6.top (cvel w (sb o))) :=
  ⟨rotT_lengthSq hR _, rotT_lengthSq hR _⟩

/-- (2m) BALLQUAT of a non-zero joint quaternion has unit norm -/
theorem ball_quat_unit (qadr : Int → Int) (qpos : Int → Int → ℝ) (w o : Int)
    (h : qn2 ⟨qpos w (qadr o + 0), qpos w (qadr o + 1), qpos w (qadr o + 2), qpos w (qadr o + 3)⟩ ≠ 0) :
    qn2 (_ball_quat qadr qpos w o) = 1 := by
  rw [ball_quat_spec]; exact qn2_normalize _ h

/-- (2n) `_get_quat` is a unit quaternion whenever the body orientations and the local frame quaternions are -/
theorem get_quat_unit (biq : Int → Int → Q ℝ) (gb : Int → Int) (gq : Int → Int → Q ℝ) (sb : Int → Int)
    (sq : Int → Int → Q ℝ) (cb : Int → Int) (cq : Int → Int → Q ℝ) (xquat : Int → Int → Q ℝ) (w t o s1 s2 s3 s4 : Int)
    (hx : ∀ i, qn2 (xquat w i) = 1) (hb : ∀ a i, qn2 (biq a i) = 1) (hg : ∀ a i, qn2 (gq a i) = 1)
    (hs : ∀ a i, qn2 (sq a i) = 1) (hc : ∀ a i, qn2 (cq a i) = 1) :
    qn2 (_get_quat biq gb gq sb sq cb cq xquat w t o s1 s2 s3 s4) = 1 := by
  unfold _get_quat
  rcases objtype_cases t with rfl | rfl | rfl | rfl | rfl | ⟨h1, h2, h5, h6, h7⟩
  all_goals simp [qn2_mul, hx, hb, hg, hs, hc, *]
  all_goals simp [qn2, slit]

/-- (2o) FRAMEQUAT is a unit quaternion (with or without reference frame) under the same hypotheses -/
theorem frame_quat_unit (biq : Int → Int → Q ℝ) (gb : Int → Int) (gq : Int → Int → Q ℝ) (sb : Int → Int)
    (sq : Int → Int → Q ℝ) (cb : Int → Int) (cq : Int → Int → Q ℝ) (xquat : Int → Int → Q ℝ)
    (w o t r rt s1 s2 s3 s4 : Int)
    (hx : ∀ i, qn2 (xquat w i) = 1) (hb : ∀ a i, qn2 (biq a i) = 1) (hg : ∀ a i, qn2 (gq a i) = 1)
    (hs : ∀ a i, qn2 (sq a i) = 1) (hc : ∀ a i, qn2 (cq a i) = 1) :
    qn2 (_frame_quat biq gb gq sb sq cb cq xquat w o t r rt s1 s2 s3 s4) = 1 := by
  unfold _frame_quat
  by_cases h : r = -1
  · simp only [h, decide_true, if_true]
    exact get_quat_unit _ _ _ _ _ _ _ _ _ _ _ _ _ _ _ hx hb hg hs hc
  · simp only [h, decide_false, Bool.false_eq_true, if_false]
    rw [qn2_mul, qn2_inv, get_quat_unit _ _ _ _ _ _ _ _ _ _ _ _ _ _ _ hx hb hg hs hc,
      get_quat_unit _ _ _ _ _ _ _ _ _ _ _ _ _ _ _ hx hb hg hs hc]
    norm_num

/-- (2p) **a frame measured relative to itself has the identity orientation** (`refid = objid`, `reftype = objtype`) -/
theorem frame_quat_self_reference (biq : Int → Int → Q ℝ) (gb : Int → Int) (gq : Int → Int → Q ℝ) (sb : Int → Int)
    (sq : Int → Int → Q ℝ) (cb : Int → Int) (cq : Int → Int → Q ℝ) (xquat : Int → Int → Q ℝ)
    (w o t s1 s2 s3 s4 : Int) (ho : o ≠ -1)
    (hx : ∀ i, qn2 (xquat w i) = 1) (hb : ∀ a i, qn2 (biq a i) = 1) (hg : ∀ a i, qn2 (gq a i) = 1)
    (hs : ∀ a i, qn2 (sq a i) = 1) (hc : ∀ a i, qn2 (cq a i) = 1) :
    _frame_quat biq gb gq sb sq cb cq xquat w o t o t s1 s2 s3 s4 = ⟨1, 0, 0, 0⟩ := by
  unfold _frame_quat
  simp only [ho, decide_false, Bool.false_eq_true, if_false]
  rw [inv_mul_self, get_quat_unit _ _ _ _ _ _ _ _ _ _ _ _ _ _ _ hx hb hg hs hc]

/-- non-vacuity: identity orientations everywhere satisfy the unit-norm hypotheses -/
example : ∀ i : Int, qn2 ((fun (_ _ : Int) => (⟨1, 0, 0, 0⟩ : Q ℝ)) 0 i) = 1 := by intro i; simp [qn2]
example : IsRotation ((fun (_ _ : Int) => (⟨0, -1, 0, 1, 0, 0, 0, 0, 1⟩ : M33 ℝ)) 0 0) := isRotation_quarter


/-! ## 2'. limit sensors (`_limit_pos`, `_limit_vel`, `_limit_frc`) -/

section limit
variable {K : Type} [Scalar K]

/-- the (identity) renaming the translator wraps around the call of `_write_scalar` -/
abbrev limitRename : List (String × String) :=
  [("sensor_type", "sensor_type"), ("sensor_datatype", "sensor_datatype"), ("sensor_adr", "sensor_adr"), ("sensor_cutoff", "sensor_cutoff")]

/-- (2q) **`_limit_pos` writes iff the row is a limit row whose id is the sensor's object AND whose kind matches the
    sensor's kind** (joint row ↔ JOINTLIMITPOS = 20, tendon row ↔ TENDONLIMITPOS = 23), and then it hands
    `efc_pos − efc_margin` to the cutoff stage; in every other case it writes nothing.
    (Before /repo commit "fix: joint-limit and tendon-limit sensors read each other's constraint rows" the kind was
    not compared; found by this property's check.) -/
theorem limit_pos_writes (stype sdt sobj sadr : Int → Int) (scut : Int → K) (ladr ne nf nl : Int → Int)
    (etype eid : Int → Int → Int) (epos emargin sdata : Int → Int → K) (w row k : Int) :
    _limit_pos stype sdt sobj sadr scut ladr ne nf nl etype eid epos emargin sdata w row k
      = if isLimitRow (ne w) (nf w) (nl w) row ∧ limitRowFeeds 20 23 (etype w row) (eid w row) (stype (ladr k)) (sobj (ladr k)) then
          Write.renameAll limitRename
            (_write_scalar_A_A_A_A_I_F_A stype sdt sadr scut (ladr k) (epos w row - emargin w row) (sdata w))
        else [] := by
  unfold _limit_pos isLimitRow limitRowFeeds
  by_cases h1 : row < ne w + nf w
  · have : ¬ ne w + nf w ≤ row := not_le.mpr h1
    simp [h1, this]
  by_cases h2 : ne w + nf w + nl w ≤ row
  · have : ¬ row < ne w + nf w + nl w := not_lt.mpr h2
    simp [h2, this]
  have h1' : ne w + nf w ≤ row := not_lt.mp h1
  have h2' : row < ne w + nf w + nl w := not_le.mp h2
  by_cases hid : eid w row = sobj (ladr k)
  · by_cases hk : (etype w row = 3 ∧ stype (ladr k) = 20) ∨ (etype w row = 4 ∧ stype (ladr k) = 23)
    · rcases hk with ⟨a, b⟩ | ⟨a, b⟩ <;> simp [h1, h2, h1', h2', hid, a, b]
    · have hb : ((decide (etype w row = 3) && decide (stype (ladr k) = 20)) || (decide (etype w row = 4) && decide (stype (ladr k) = 23))) = false := by
        rw [Bool.eq_false_iff]; intro h; apply hk; simpa using h
      simp only [h1, h2, hid, hb, hk, h1', h2']
      simp
  · simp [h1, h2, hid, h1', h2']

/-- (2r) the same for `_limit_vel` (JOINTLIMITVEL = 21, TENDONLIMITVEL = 24; value `efc_vel`) -/
theorem limit_vel_writes (stype sdt sobj sadr : Int → Int) (scut : Int → K) (ladr ne nf nl : Int → Int)
    (etype eid : Int → Int → Int) (evel sdata : Int → Int → K) (w row k : Int) :
    _limit_vel stype sdt sobj sadr scut ladr ne nf nl etype eid evel sdata w row k
      = if isLimitRow (ne w) (nf w) (nl w) row ∧ limitRowFeeds 21 24 (etype w row) (eid w row) (stype (ladr k)) (sobj (ladr k)) then
          Write.renameAll limitRename (_write_scalar_A_A_A_A_I_F_A stype sdt sadr scut (ladr k) (evel w row) (sdata w))
        else [] := by
  unfold _limit_vel isLimitRow limitRowFeeds
  by_cases h1 : row < ne w + nf w
  · have : ¬ ne w + nf w ≤ row := not_le.mpr h1
    simp [h1, this]
  by_cases h2 : ne w + nf w + nl w ≤ row
  · have : ¬ row < ne w + nf w + nl w := not_lt.mpr h2
    simp [h2, this]
  have h1' : ne w + nf w ≤ row := not_lt.mp h1
  have h2' : row < ne w + nf w + nl w := not_le.mp h2
  by_cases hid : eid w row = sobj (ladr k)
  · by_cases hk : (etype w row = 3 ∧ stype (ladr k) = 21) ∨ (etype w row = 4 ∧ stype (ladr k) = 24)
    · rcases hk with ⟨a, b⟩ | ⟨a, b⟩ <;> simp [h1, h2, h1', h2', hid, a, b]
    · have hb : ((decide (etype w row = 3) && decide (stype (ladr k) = 21)) || (decide (etype w row = 4) && decide (stype (ladr k) = 24))) = false := by
        rw [Bool.eq_false_iff]; intro h; apply hk; simpa using h
      simp only [h1, h2, hid, hb, hk, h1', h2']
      simp
  · simp [h1, h2, hid, h1', h2']

/-- (2s) the same for `_limit_frc` (JOINTLIMITFRC = 22, TENDONLIMITFRC = 25; value `efc_force`) -/
theorem limit_frc_writes (stype sdt sobj sadr : Int → Int) (scut : Int → K) (ladr ne nf nl : Int → Int)
    (etype eid : Int → Int → Int) (efrc sdata : Int → Int → K) (w row k : Int) :
    _limit_frc stype sdt sobj sadr scut ladr ne nf nl etype eid efrc sdata w row k
      = if isLimitRow (ne w) (nf w) (nl w) row ∧ limitRowFeeds 22 25 (etype w row) (eid w row) (stype (ladr k)) (sobj (ladr k)) then
          Write.renameAll limitRename (_write_scalar_A_A_A_A_I_F_A stype sdt sadr scut (ladr k) (efrc w row) (sdata w))
        else [] := by
  unfold _limit_frc isLimitRow limitRowFeeds
  by_cases h1 : row < ne w + nf w
  · have : ¬ ne w + nf w ≤ row := not_le.mpr h1
    simp [h1, this]
  by_cases h2 : ne w + nf w + nl w ≤ row
  · have : ¬ row < ne w + nf w + nl w := not_lt.mpr h2
    simp [h2, this]
  have h1' : ne w + nf w ≤ row := not_lt.mp h1
  have h2' : row < ne w + nf w + nl w := not_le.mp h2
  by_cases hid : eid w row = sobj (ladr k)
  · by_cases hk : (etype w row = 3 ∧ stype (ladr k) = 22) ∨ (etype w row = 4 ∧ stype (ladr k) = 25)
    · rcases hk with ⟨a, b⟩ | ⟨a, b⟩ <;> simp [h1, h2, h1', h2', hid, a, b]
    · have hb : ((decide (etype w row = 3) && decide (stype (ladr k) = 22)) || (decide (etype w row = 4) && decide (stype (ladr k) = 25))) = false := by
        rw [Bool.eq_false_iff]; intro h; apply hk; simpa using h
      simp only [h1, h2, hid, hb, hk, h1', h2']
      simp
  · simp [h1, h2, hid, h1', h2']

end limit

/-- (2t) over ℝ, with the cutoff stage resolved: thread `(w, row, k)` of `_limit_pos` stores MuJoCo's
    `apply_cutoff(efc_pos − efc_margin)` into the sensor's cell iff row kind and sensor kind agree and
    `efc_id == sensor_objid`; otherwise it stores nothing (the cell keeps the 0 that `forward()` put there, MuJoCo's
    value for an inactive limit) -/
theorem limit_pos_spec (stype sdt sobj sadr : Int → Int) (scut : Int → ℝ) (ladr ne nf nl : Int → Int)
    (etype eid : Int → Int → Int) (epos emargin sdata : Int → Int → ℝ) (w row k : Int) :
    _limit_pos stype sdt sobj sadr scut ladr ne nf nl etype eid epos emargin sdata w row k
      = if isLimitRow (ne w) (nf w) (nl w) row ∧ limitRowFeeds 20 23 (etype w row) (eid w row) (stype (ladr k)) (sobj (ladr k)) then
          [⟨"out", [sadr (ladr k)],
            WVal.f (applyCutoff (stype (ladr k)) (sdt (ladr k)) (scut (ladr k)) (epos w row - emargin w row)), WKind.set⟩]
        else [] := by
  rw [limit_pos_writes]
  by_cases h : isLimitRow (ne w) (nf w) (nl w) row ∧ limitRowFeeds 20 23 (etype w row) (eid w row) (stype (ladr k)) (sobj (ladr k))
  · have hct : stype (ladr k) ≠ SENS_CONTACT := by
      rcases h.2.2 with ⟨_, b⟩ | ⟨_, b⟩ <;> (rw [b]; decide)
    rw [if_pos h, if_pos h, write_scalar_spec _ _ _ _ _ _ _ hct]
    simp [Write.renameAll, Write.rename]
  · rw [if_neg h, if_neg h]

/-- non-vacuity and the repaired case: a JOINTLIMITPOS sensor (20) of joint 0 with one active limit row of TENDON 0
    (kind 4, id 0) stores nothing; with a joint row (kind 3) it stores `efc_pos − efc_margin` -/
example : _limit_pos (fun _ => 20) (fun _ => 0) (fun _ => 0) (fun _ => 0) (fun _ => (0 : ℝ)) (fun _ => 0)
    (fun _ => 0) (fun _ => 0) (fun _ => 1) (fun _ _ => 4) (fun _ _ => 0) (fun _ _ => (-3 / 10 : ℝ)) (fun _ _ => 0)
    (fun _ _ => 0) 0 0 0 = [] := by
  rw [limit_pos_spec]; simp [isLimitRow, limitRowFeeds]
example : _limit_pos (fun _ => 20) (fun _ => 0) (fun _ => 0) (fun _ => 0) (fun _ => (0 : ℝ)) (fun _ => 0)
    (fun _ => 0) (fun _ => 0) (fun _ => 1) (fun _ _ => 3) (fun _ _ => 0) (fun _ _ => (-3 / 10 : ℝ)) (fun _ _ => 0)
    (fun _ _ => 0) 0 0 0 = [⟨"out", [0], WVal.f (-3 / 10), WKind.set⟩] := by
  rw [limit_pos_spec]; simp [isLimitRow, limitRowFeeds, applyCutoff, sgt, slit]

/-! ## 2''. the cutoff post-pass over atomically accumulated sensors (`_tendon_actuator_force_cutoff`) -/

/-- (2u) **the generic cutoff post-pass**: thread `(w, k)` of `_tendon_actuator_force_cutoff`, launched over an address
    list `adrs` (`m.sensor_tendonactfrc_adr`, and since /repo commit "fix: touch sensors ignored sensor_cutoff" also
    `m.sensor_touch_adr`), re-reads the accumulated cell `sensordata[w, sensor_adr[sid]]` of sensor `sid = adrs k` and
    stores MuJoCo's `apply_cutoff` value of it into the same cell — exactly one store, for all inputs -/
theorem cutoff_postpass_spec (stype sdt sadr : Int → Int) (scut : Int → ℝ) (adrs : Int → Int) (sin sout : Int → Int → ℝ)
    (w k : Int) (hct : stype (adrs k) ≠ SENS_CONTACT) :
    _tendon_actuator_force_cutoff stype sdt sadr scut adrs sin sout w k
      = [⟨"out", [sadr (adrs k)],
          WVal.f (applyCutoff (stype (adrs k)) (sdt (adrs k)) (scut (adrs k)) (sin w (sadr (adrs k)))), WKind.set⟩] := by
  unfold _tendon_actuator_force_cutoff
  simp only []
  rw [write_scalar_spec _ _ _ _ _ _ _ hct]
  simp [Write.renameAll, Write.rename]

/-- (2v) **touch sensors end at `min(sum, cutoff)`**: a TOUCH sensor (datatype POSITIVE) whose cell holds the sum `s` of
    the normal forces that `_sensor_touch` accumulated is left by the post-pass at `min(s, cutoff)` when `cutoff > 0` and
    at `s` when `cutoff ≤ 0` — MuJoCo's `apply_cutoff` for mjSENS_TOUCH.
    (Before /repo commit "fix: touch sensors ignored sensor_cutoff" no kernel of `sensor_acc` revisited the touch cells;
    found by this property's check, formerly C07Witness W1.) -/
theorem touch_cutoff_spec (stype sdt sadr : Int → Int) (scut : Int → ℝ) (adrs : Int → Int) (sin sout : Int → Int → ℝ)
    (w k : Int) (ht : stype (adrs k) = SENS_TOUCH) (hd : sdt (adrs k) = POSITIVE) :
    _tendon_actuator_force_cutoff stype sdt sadr scut adrs sin sout w k
      = [⟨"out", [sadr (adrs k)],
          WVal.f (if 0 < scut (adrs k) then min (sin w (sadr (adrs k))) (scut (adrs k)) else sin w (sadr (adrs k))), WKind.set⟩] := by
  have hct : stype (adrs k) ≠ SENS_CONTACT := by rw [ht]; decide
  have ht' : stype (adrs k) = 0 := ht
  have hd' : sdt (adrs k) = 1 := hd
  rw [cutoff_postpass_spec _ _ _ _ _ _ _ _ _ hct]
  unfold applyCutoff
  by_cases hc : 0 < scut (adrs k)
  · simp [hc, ht', hd', sgt, slit, slt, min_eq_mjuMin]
  · simp [hc, sgt, slit]

/-- non-vacuity (the formerly failing case): accumulated force 34.3, cutoff 2.5 → the cell is left at 2.5; cutoff 0 → 34.3 -/
example : _tendon_actuator_force_cutoff (fun _ => 0) (fun _ => 1) (fun _ => 0) (fun _ => (5 / 2 : ℝ)) (fun _ => 0)
    (fun _ _ => (343 / 10 : ℝ)) (fun _ _ => 0) 0 0 = [⟨"out", [0], WVal.f (5 / 2), WKind.set⟩] := by
  rw [touch_cutoff_spec _ _ _ _ _ _ _ _ _ rfl rfl]
  norm_num
example : _tendon_actuator_force_cutoff (fun _ => 0) (fun _ => 1) (fun _ => 0) (fun _ => (0 : ℝ)) (fun _ => 0)
    (fun _ _ => (343 / 10 : ℝ)) (fun _ _ => 0) 0 0 = [⟨"out", [0], WVal.f (343 / 10), WKind.set⟩] := by
  rw [touch_cutoff_spec _ _ _ _ _ _ _ _ _ rfl rfl]
  norm_num

/-! ## 3. energy -/

/-- (3a) exact write list of the gravity kernel: thread `(w, b)` subtracts `(m_{b+1} g·xipos_{b+1}, 0)` from
    `energy[w]` (world body skipped; batched model fields read at `w % shape[0]`) -/
theorem energy_gravity_writes {K : Type} [Scalar K] (g : Int → V3 K) (mass : Int → Int → K) (xipos : Int → Int → V3 K)
    (e : Int → V2 K) (gs ms w b : Int) :
    _energy_pos_gravity g mass xipos e gs ms w b
      = [⟨"energy_out", [w],
          WVal.v [mass (Int.tmod w ms) (b + 1) * V3.dot (g (Int.tmod w gs)) (xipos w (b + 1)), Scalar.lit 0 0], WKind.asub⟩] := rfl

/-- net contribution of one thread's write list to the potential energy `energy[w][0]` -/
noncomputable def potential (ws : List (Write ℝ)) : ℝ :=
  ws.foldl (fun acc w =>
    match w.kind, w.val with
    | WKind.aadd, WVal.v (x :: _) => acc + x
    | WKind.asub, WVal.v (x :: _) => acc - x
    | _, _ => acc) 0

/-- (3b) the gravity thread contributes MuJoCo's `− m g·xipos` -/
theorem energy_gravity_potential (g : Int → V3 ℝ) (mass : Int → Int → ℝ) (xipos : Int → Int → V3 ℝ)
    (e : Int → V2 ℝ) (gs ms w b : Int) :
    potential (_energy_pos_gravity g mass xipos e gs ms w b)
      = gravityPotential (mass (Int.tmod w ms) (b + 1)) (g (Int.tmod w gs)) (xipos w (b + 1)) := by
  rw [energy_gravity_writes]
  simp [potential, gravityPotential]

/-- (3c) … which is linear in the gravity vector -/
theorem energy_gravity_linear (g1 g2 : Int → V3 ℝ) (a : ℝ) (mass : Int → Int → ℝ) (xipos : Int → Int → V3 ℝ)
    (e : Int → V2 ℝ) (gs ms w b : Int) :
    potential (_energy_pos_gravity (fun i => V3.add (V3.smul a (g1 i)) (g2 i)) mass xipos e gs ms w b)
      = a * potential (_energy_pos_gravity g1 mass xipos e gs ms w b)
        + potential (_energy_pos_gravity g2 mass xipos e gs ms w b) := by
  simp only [energy_gravity_potential, gravityPotential, V3.dot, V3.add, V3.smul, hadd, hmul, hneg]
  ring

/-- (3d) tendon springs: thread `(w, t)` adds `poly_potential(k, poly, x)` with `x` the displacement outside the
    dead band `[lower, upper]` of `tendon_lengthspring` (nothing — equivalently 0 — when all coefficients vanish) -/
theorem energy_tendon_potential (ks : Int → Int → ℝ) (kp : Int → Int → V2 ℝ) (ls : Int → Int → V2 ℝ)
    (len : Int → Int → ℝ) (e : Int → V2 ℝ) (s1 s2 s3 w t : Int) :
    potential (_energy_pos_passive_tendon ks kp ls len e s1 s2 s3 w t)
      = Gen.Util_misc.poly_potential (ks (Int.tmod w s1) t) (kp (Int.tmod w s2) t)
          (deadband (len w t) (ls (Int.tmod w s3) t).c0 (ls (Int.tmod w s3) t).c1) 0 := by
  unfold _energy_pos_passive_tendon
  by_cases hz : ks (Int.tmod w s1) t = 0 ∧ (kp (Int.tmod w s2) t).c0 = 0 ∧ (kp (Int.tmod w s2) t).c1 = 0
  · obtain ⟨h0, h1, h2⟩ := hz
    rw [poly_potential_even]
    simp [potential, h0, h1, h2, sbeq, slit]
  · have hc : ¬ ((Scalar.beq (ks (Int.tmod w s1) t) (Scalar.lit 0 0 : ℝ) && Scalar.beq (kp (Int.tmod w s2) t).c0 (Scalar.lit 0 0 : ℝ)
        && Scalar.beq (kp (Int.tmod w s2) t).c1 (Scalar.lit 0 0 : ℝ)) = true) := by
      simp only [Bool.and_eq_true, sbeq, slit]
      norm_num
      intro a b
      exact fun c => hz ⟨a, b, c⟩
    simp only [hc, if_false]
    simp [potential, deadband, V2.toList]

/-- (3e) inside the dead band a tendon spring stores no energy; with a plain linear spring (`poly = 0`, `k ≥ 0`) the
    energy is `½ k x² ≥ 0` -/
theorem energy_tendon_band_and_sign (ks : Int → Int → ℝ) (kp : Int → Int → V2 ℝ) (ls : Int → Int → V2 ℝ)
    (len : Int → Int → ℝ) (e : Int → V2 ℝ) (s1 s2 s3 w t : Int) :
    ((ls (Int.tmod w s3) t).c0 ≤ len w t → len w t ≤ (ls (Int.tmod w s3) t).c1 →
        potential (_energy_pos_passive_tendon ks kp ls len e s1 s2 s3 w t) = 0)
    ∧ (kp (Int.tmod w s2) t = ⟨0, 0⟩ → 0 ≤ ks (Int.tmod w s1) t →
        0 ≤ potential (_energy_pos_passive_tendon ks kp ls len e s1 s2 s3 w t)) := by
  rw [energy_tendon_potential]
  constructor
  · intro hlo hhi
    have hd : deadband (len w t) (ls (Int.tmod w s3) t).c0 (ls (Int.tmod w s3) t).c1 = 0 := by
      unfold deadband
      simp only [sgt, slt, slit]
      rw [if_neg (not_lt.mpr hhi), if_neg (not_lt.mpr hlo)]
      norm_num
    rw [hd, poly_potential_even]; ring
  · intro hp hk
    rw [hp, poly_potential_linear]
    positivity

/-- (3f) slide and hinge joint springs: `poly_potential(k, poly, q − q_spring)`; for a linear spring this is
    `½ k (q − q_spring)²`, non-negative for `k ≥ 0` and zero at the spring reference -/
theorem energy_joint_slide_hinge (qs : Int → Int → ℝ) (jt qadr : Int → Int) (ks : Int → Int → ℝ) (kp : Int → Int → V2 ℝ)
    (qpos : Int → Int → ℝ) (e : Int → V2 ℝ) (s1 s2 s3 w j : Int) (hj : jt j = 2 ∨ jt j = 3) :
    potential (_energy_pos_passive_joint qs jt qadr ks kp qpos e s1 s2 s3 w j)
      = Gen.Util_misc.poly_potential (ks (Int.tmod w s1) j) (kp (Int.tmod w s2) j)
          (qpos w (qadr j) - qs (Int.tmod w s3) (qadr j)) 0 := by
  unfold _energy_pos_passive_joint
  by_cases hz : ks (Int.tmod w s1) j = 0 ∧ (kp (Int.tmod w s2) j).c0 = 0 ∧ (kp (Int.tmod w s2) j).c1 = 0
  · obtain ⟨h0, h1, h2⟩ := hz
    rw [poly_potential_even]
    simp [potential, h0, h1, h2, sbeq, slit]
  · have hc : ¬ ((Scalar.beq (ks (Int.tmod w s1) j) (Scalar.lit 0 0 : ℝ) && Scalar.beq (kp (Int.tmod w s2) j).c0 (Scalar.lit 0 0 : ℝ)
        && Scalar.beq (kp (Int.tmod w s2) j).c1 (Scalar.lit 0 0 : ℝ)) = true) := by
      simp only [Bool.and_eq_true, sbeq, slit]
      norm_num
      intro a b
      exact fun c => hz ⟨a, b, c⟩
    simp only [hc, if_false]
    rcases hj with h | h <;> simp [potential, h, V2.toList]

theorem energy_joint_slide_hinge_linear (qs : Int → Int → ℝ) (jt qadr : Int → Int) (ks : Int → Int → ℝ)
    (kp : Int → Int → V2 ℝ) (qpos : Int → Int → ℝ) (e : Int → V2 ℝ) (s1 s2 s3 w j : Int) (hj : jt j = 2 ∨ jt j = 3)
    (hp : kp (Int.tmod w s2) j = ⟨0, 0⟩) :
    potential (_energy_pos_passive_joint qs jt qadr ks kp qpos e s1 s2 s3 w j)
        = springPotential (ks (Int.tmod w s1) j) (qpos w (qadr j) - qs (Int.tmod w s3) (qadr j))
    ∧ (0 ≤ ks (Int.tmod w s1) j → 0 ≤ potential (_energy_pos_passive_joint qs jt qadr ks kp qpos e s1 s2 s3 w j))
    ∧ (qpos w (qadr j) = qs (Int.tmod w s3) (qadr j) →
        potential (_energy_pos_passive_joint qs jt qadr ks kp qpos e s1 s2 s3 w j) = 0) := by
  rw [energy_joint_slide_hinge _ _ _ _ _ _ _ _ _ _ _ _ hj, hp, poly_potential_linear]
  refine ⟨?_, ?_, ?_⟩
  · have h5 : (Scalar.lit 5 (-1) : ℝ) = 1 / 2 := by simp only [slit]; norm_num
    simp only [springPotential, h5, hmul]; ring
  · intro hk; positivity
  · intro hq; rw [hq]; ring

/-- (3g) ball and free joint springs use the quaternion distance `|quat_sub(normalize(q), q_spring)|` (free joints add
    the translational part `|p − p_spring|`) -/
theorem energy_joint_ball (qs : Int → Int → ℝ) (jt qadr : Int → Int) (ks : Int → Int → ℝ) (kp : Int → Int → V2 ℝ)
    (qpos : Int → Int → ℝ) (e : Int → V2 ℝ) (s1 s2 s3 w j : Int) (hj : jt j = 1) :
    potential (_energy_pos_passive_joint qs jt qadr ks kp qpos e s1 s2 s3 w j)
      = Gen.Util_misc.poly_potential (ks (Int.tmod w s1) j) (kp (Int.tmod w s2) j)
          (V3.length (Gen.Math.quat_sub
            (Q.normalize ⟨qpos w (qadr j + 0), qpos w (qadr j + 1), qpos w (qadr j + 2), qpos w (qadr j + 3)⟩)
            ⟨qs (Int.tmod w s3) (qadr j + 0), qs (Int.tmod w s3) (qadr j + 1), qs (Int.tmod w s3) (qadr j + 2),
             qs (Int.tmod w s3) (qadr j + 3)⟩)) 0 := by
  unfold _energy_pos_passive_joint
  by_cases hz : ks (Int.tmod w s1) j = 0 ∧ (kp (Int.tmod w s2) j).c0 = 0 ∧ (kp (Int.tmod w s2) j).c1 = 0
  · obtain ⟨h0, h1, h2⟩ := hz
    rw [poly_potential_even]
    simp [potential, h0, h1, h2, sbeq, slit]
  · have hc : ¬ ((Scalar.beq (ks (Int.tmod w s1) j) (Scalar.lit 0 0 : ℝ) && Scalar.beq (kp (Int.tmod w s2) j).c0 (Scalar.lit 0 0 : ℝ)
        && Scalar.beq (kp (Int.tmod w s2) j).c1 (Scalar.lit 0 0 : ℝ)) = true) := by
      simp only [Bool.and_eq_true, sbeq, slit]
      norm_num
      intro a b
      exact fun c => hz ⟨a, b, c⟩
    simp only [hc, if_false]
    simp [potential, hj, V2.toList]

theorem energy_joint_free (qs : Int → Int → ℝ) (jt qadr : Int → Int) (ks : Int → Int → ℝ) (kp : Int → Int → V2 ℝ)
    (qpos : Int → Int → ℝ) (e : Int → V2 ℝ) (s1 s2 s3 w j : Int) (hj : jt j = 0) :
    potential (_energy_pos_passive_joint qs jt qadr ks kp qpos e s1 s2 s3 w j)
      = Gen.Util_misc.poly_potential (ks (Int.tmod w s1) j) (kp (Int.tmod w s2) j)
          (V3.length ⟨qpos w (qadr j + 0) - qs (Int.tmod w s3) (qadr j + 0), qpos w (qadr j + 1) - qs (Int.tmod w s3) (qadr j + 1),
            qpos w (qadr j + 2) - qs (Int.tmod w s3) (qadr j + 2)⟩) 0
        + Gen.Util_misc.poly_potential (ks (Int.tmod w s1) j) (kp (Int.tmod w s2) j)
          (V3.length (Gen.Math.quat_sub
            (Q.normalize ⟨qpos w (qadr j + 3), qpos w (qadr j + 4), qpos w (qadr j + 5), qpos w (qadr j + 6)⟩)
            ⟨qs (Int.tmod w s3) (qadr j + 3), qs (Int.tmod w s3) (qadr j + 4), qs (Int.tmod w s3) (qadr j + 5),
             qs (Int.tmod w s3) (qadr j + 6)⟩)) 0 := by
  unfold _energy_pos_passive_joint
  by_cases hz : ks (Int.tmod w s1) j = 0 ∧ (kp (Int.tmod w s2) j).c0 = 0 ∧ (kp (Int.tmod w s2) j).c1 = 0
  · obtain ⟨h0, h1, h2⟩ := hz
    rw [poly_potential_even, poly_potential_even]
    simp [potential, h0, h1, h2, sbeq, slit]
  · have hc : ¬ ((Scalar.beq (ks (Int.tmod w s1) j) (Scalar.lit 0 0 : ℝ) && Scalar.beq (kp (Int.tmod w s2) j).c0 (Scalar.lit 0 0 : ℝ)
        && Scalar.beq (kp (Int.tmod w s2) j).c1 (Scalar.lit 0 0 : ℝ)) = true) := by
      simp only [Bool.and_eq_true, sbeq, slit]
      norm_num
      intro a b
      exact fun c => hz ⟨a, b, c⟩
    simp only [hc, if_false]
    simp [potential, hj, V2.toList]

/-- (3h) **every joint spring with a plain linear stiffness `k ≥ 0` stores non-negative energy**, whatever the joint
    type (slide, hinge, ball, free; any other type code contributes nothing) -/
theorem energy_joint_nonneg (qs : Int → Int → ℝ) (jt qadr : Int → Int) (ks : Int → Int → ℝ) (kp : Int → Int → V2 ℝ)
    (qpos : Int → Int → ℝ) (e : Int → V2 ℝ) (s1 s2 s3 w j : Int)
    (hp : kp (Int.tmod w s2) j = ⟨0, 0⟩) (hk : 0 ≤ ks (Int.tmod w s1) j) :
    0 ≤ potential (_energy_pos_passive_joint qs jt qadr ks kp qpos e s1 s2 s3 w j) := by
  by_cases h0 : jt j = 0
  · rw [energy_joint_free _ _ _ _ _ _ _ _ _ _ _ _ h0, hp, poly_potential_linear, poly_potential_linear]; positivity
  by_cases h1 : jt j = 1
  · rw [energy_joint_ball _ _ _ _ _ _ _ _ _ _ _ _ h1, hp, poly_potential_linear]; positivity
  by_cases h23 : jt j = 2 ∨ jt j = 3
  · exact (energy_joint_slide_hinge_linear _ _ _ _ _ _ _ _ _ _ _ _ h23 hp).2.1 hk
  · have h2 : ¬ jt j = 2 := fun h => h23 (Or.inl h)
    have h3 : ¬ jt j = 3 := fun h => h23 (Or.inr h)
    unfold _energy_pos_passive_joint
    by_cases hc : ((Scalar.beq (ks (Int.tmod w s1) j) (Scalar.lit 0 0 : ℝ) && Scalar.beq (kp (Int.tmod w s2) j).c0 (Scalar.lit 0 0 : ℝ)
        && Scalar.beq (kp (Int.tmod w s2) j).c1 (Scalar.lit 0 0 : ℝ)) = true)
    · simp only [hc, if_true]; simp [potential]
    · simp only [hc, if_false]; simp [potential, h0, h1, h2, h3]

/-- non-vacuity: a hinge (type 3) with stiffness 2, reference 0.5 at q = 1.5 stores ½·2·1² = 1 -/
example : potential (_energy_pos_passive_joint (fun _ _ => (1 / 2 : ℝ)) (fun _ => 3) (fun _ => 0) (fun _ _ => 2)
    (fun _ _ => ⟨0, 0⟩) (fun _ _ => (3 / 2 : ℝ)) (fun _ => ⟨0, 0⟩) 1 1 1 0 0) = 1 := by
  rw [(energy_joint_slide_hinge_linear _ _ _ _ _ _ _ _ _ _ _ _ (Or.inr rfl) rfl).1]
  have h5 : (Scalar.lit 5 (-1) : ℝ) = 1 / 2 := by simp only [slit]; norm_num
  simp only [springPotential, h5, hmul, hsub]; norm_num

end Mjw.Props.C07
