/-
  C28 witnesses.

  W (`self_edge_convention_witness`): "every touched tree has a self edge" is not what `_tree_edges`
     produces: a contact between two different trees (tree0 = 0, tree1 = 1) writes only the two
     off-diagonal entries.  (The flood fill does not need the convention: `has_edge` scans the whole row;
     `C28.flood_fill_components` uses `Touched` = "the row has a nonzero entry".)

  History (no longer a theorem, kept as a comment): with an earlier translator the generated `_flood_fill`
  treated `labels_in`/`tree_island_out` and `stack_in`/`stack_out` as four different arrays, although the
  host binds each pair to one array and the kernel reads what it has just written.  Read that way, on 2
  trees joined by one edge (`labels_in ≡ -1`, `stack_in ≡ 0`) the code popped `stack_in[w,0] = 0` for ever,
  labelled tree 0 as often as the fuel allowed, never labelled tree 1 and ended with `nisland = 2`
  (former `generated_flood_fill_ignores_aliasing_witness`).  The translator now resolves such reads through
  the thread's own writes; the generated kernel gives labels `[0, 0]`, `nisland = 1` on that graph for every
  fuel ≥ 2 (last-but-one `example` of `Props/C28.lean`, evaluated by `decide` on the generated code), and
  `C28.flood_fill_refines_model` is a theorem about the generated kernel itself.
-/
import MjwVerif.Props.C28

namespace Mjw.Props.C28Witness
open Mjw Mjw.Island Mjw.Props.C28

/-- W: a contact row (type 5 = CONTACT_FRICTIONLESS) between geoms of tree 0 and tree 1 marks `[0,1]` and
    `[1,0]` only — no diagonal entry. -/
theorem self_edge_convention_witness :
    (Gen.Island._tree_edges (K := Float) 2
        (fun b => b)        -- body_treeid: body b is in tree b
        (fun _ => 0) (fun _ => 0)
        (fun g => g)        -- geom_bodyid
        (fun _ => 0) (fun _ => 0) (fun _ => 0) (fun _ => 0) (fun _ => 0) false
        (fun _ => 1)        -- nefc
        (fun _ => ⟨0, 1⟩)   -- contact geoms 0 and 1
        (fun _ _ => 5)      -- efc_type: a contact row
        (fun _ _ => 0) (fun _ _ => 0) (fun _ _ => 0) (fun _ _ _ => 0) (fun _ _ _ => 0)
        1 (fun _ _ _ => 0) 0 0).map proj
      = [("tree_tree", [0, 0, 1], 1), ("tree_tree", [0, 1, 0], 1)] := by decide

end Mjw.Props.C28Witness
