/-
  C11 (consumers of thread-ordered slot allocations): the actuator-moment rows.

  `smooth._transmission` hands every actuator its row of the sparse moment matrix with `wp.atomic_add(moment_nnz, worldid, nnz)`:
  WHERE a row lands (`moment_rowadr[w, a]`) is the task order of that launch.  A consumer is order independent iff its result depends
  only on the row's CONTENT, addressed through the actuator's own `(rowadr, rownnz)`.

  Source: /repo/mujoco_warp/_src/forward.py — kernel `_actuator_velocity`, regenerated into `Mjw.Gen.Forward._actuator_velocity` on
  every run.
    * `actuator_velocity_own_row`        for all inputs the single write is the dot product over the actuator's OWN row
                                          `rowadr[w,a] .. rowadr[w,a] + rownnz[w,a]` (by `rfl`: no other actuator's address is read);
    * `actuator_velocity_slot_independent`  for ALL pairs of allocations (any two task orders of `_transmission`) that store the same
                                          row content at their respective addresses, the kernel writes the same value.
    * `qfrc_actuator_own_row`, `qfrc_actuator_slot_independent`  the same two statements for `_qfrc_actuator`, the scatter of the actuator
                                          force through the same rows: the task's list of atomic adds (cells and values) is slot independent.
  (Seeded change C11c took the row end from the NEXT actuator's `rowadr`.)
-/
import MjwVerif.Gen.Forward

namespace Mjw.Props.C11Rows
open Mjw Mjw.Gen.Forward

/-- dot product of a stored row with qvel: `Σ_{k < n} moment[adr + k] · qvel[colind[adr + k]]`, summed in index order from 0 -/
def rowDot {K : Type} [Scalar K] (n adr : Int) (colind : Int → Int) (moment : Int → K) (qvel : Int → K) : K :=
  (List.range n.toNat).foldl (fun (s : K) (k : Nat) => s + moment (adr + Int.ofNat k) * qvel (colind (adr + Int.ofNat k))) (Scalar.lit 0 0 : K)

theorem actuator_velocity_own_row {K : Type} [Scalar K] (qvel_in : Int → Int → K) (moment_rownnz_in moment_rowadr_in moment_colind_in : Int → Int → Int)
    (actuator_moment_in : Int → Int → K) (actuator_velocity_out : Int → Int → K) (w a : Int) :
    _actuator_velocity qvel_in moment_rownnz_in moment_rowadr_in moment_colind_in actuator_moment_in actuator_velocity_out w a
      = [(Write.mk "actuator_velocity_out" [w, a]
          (WVal.f (rowDot (moment_rownnz_in w a) (moment_rowadr_in w a) (moment_colind_in w) (actuator_moment_in w) (qvel_in w))) WKind.set : Write K)] := by
  simp [_actuator_velocity, rowDot, forRange]

theorem foldl_range_congr {σ : Type} (f g : σ → Nat → σ) (n : Nat) (s : σ) (h : ∀ k, k < n → ∀ s, f s k = g s k) :
    (List.range n).foldl f s = (List.range n).foldl g s := by
  induction n generalizing s with
  | zero => rfl
  | succ n ih =>
    rw [List.range_succ, List.foldl_append, List.foldl_append, ih s (fun k hk => h k (Nat.lt_succ_of_lt hk))]
    simp [h n (Nat.lt_succ_self n)]

theorem rowDot_content {K : Type} [Scalar K] (n adr adr' : Int) (colind colind' : Int → Int) (moment moment' : Int → K) (qvel : Int → K)
    (h : ∀ k : Int, 0 ≤ k → k < n → colind' (adr' + k) = colind (adr + k) ∧ moment' (adr' + k) = moment (adr + k)) :
    rowDot n adr' colind' moment' qvel = rowDot n adr colind moment qvel := by
  unfold rowDot
  apply foldl_range_congr
  intro k hk s
  have hk' : (Int.ofNat k) < n := by
    have : ((k : Nat) : Int) < n := by omega
    simpa using this
  obtain ⟨h1, h2⟩ := h (Int.ofNat k) (by simp) hk'
  rw [h1, h2]

/-- **actuator_velocity_slot_independent**: two allocations of the moment rows (two task orders of `_transmission`) with the same row
    lengths and the same row content at their own addresses give the same actuator velocity, for every world and actuator. -/
theorem actuator_velocity_slot_independent {K : Type} [Scalar K] (qvel_in : Int → Int → K) (rownnz rowadr rowadr' colind colind' : Int → Int → Int)
    (moment moment' : Int → Int → K) (out : Int → Int → K) (w a : Int)
    (h : ∀ k : Int, 0 ≤ k → k < rownnz w a →
      colind' w (rowadr' w a + k) = colind w (rowadr w a + k) ∧ moment' w (rowadr' w a + k) = moment w (rowadr w a + k)) :
    _actuator_velocity qvel_in rownnz rowadr' colind' moment' out w a = _actuator_velocity qvel_in rownnz rowadr colind moment out w a := by
  rw [actuator_velocity_own_row, actuator_velocity_own_row, rowDot_content _ _ _ _ _ _ _ _ h]

/-! ### the other consumer of the same rows: `_qfrc_actuator` (scatter of the actuator force through its moment row) -/

/-- atomic adds of `moment[adr + k] · force` into the dof cells `colind[adr + k]`, `k < n`, in index order -/
def rowScatter {K : Type} [Scalar K] (w : Int) (n adr : Int) (colind : Int → Int) (moment : Int → K) (force : K) : List (Write K) :=
  (List.range n.toNat).foldl (fun (ws : List (Write K)) (k : Nat) =>
    ws ++ [(Write.mk "qfrc_actuator_out" [w, colind (adr + Int.ofNat k)] (WVal.f (moment (adr + Int.ofNat k) * force)) WKind.aadd : Write K)]) []

theorem qfrc_actuator_own_row {K : Type} [Scalar K] (moment_rownnz_in moment_rowadr_in moment_colind_in : Int → Int → Int)
    (actuator_moment_in actuator_force_in qfrc_actuator_out : Int → Int → K) (w a : Int) :
    _qfrc_actuator moment_rownnz_in moment_rowadr_in moment_colind_in actuator_moment_in actuator_force_in qfrc_actuator_out w a
      = rowScatter w (moment_rownnz_in w a) (moment_rowadr_in w a) (moment_colind_in w) (actuator_moment_in w) (actuator_force_in w a) := by
  simp [_qfrc_actuator, rowScatter, forRange]

/-- **qfrc_actuator_slot_independent**: the list of atomic adds a task contributes to `qfrc_actuator` (cells AND values, in order) is the
    same for any two allocations of the moment rows that hold the same row content — so the accumulated generalized force does not
    depend on the task order of `_transmission`. -/
theorem qfrc_actuator_slot_independent {K : Type} [Scalar K] (rownnz rowadr rowadr' colind colind' : Int → Int → Int)
    (moment moment' force out : Int → Int → K) (w a : Int)
    (h : ∀ k : Int, 0 ≤ k → k < rownnz w a →
      colind' w (rowadr' w a + k) = colind w (rowadr w a + k) ∧ moment' w (rowadr' w a + k) = moment w (rowadr w a + k)) :
    _qfrc_actuator rownnz rowadr' colind' moment' force out w a = _qfrc_actuator rownnz rowadr colind moment force out w a := by
  rw [qfrc_actuator_own_row, qfrc_actuator_own_row]
  unfold rowScatter
  apply foldl_range_congr
  intro k hk ws
  have hk' : (Int.ofNat k) < rownnz w a := by
    have : ((k : Nat) : Int) < rownnz w a := by omega
    simpa using this
  obtain ⟨h1, h2⟩ := h (Int.ofNat k) (by simp) hk'
  rw [h1, h2]

/-- non-vacuity: three actuators whose rows were allocated in reverse order (addresses 2, 1, 0) against the ascending allocation -/
example : ∀ k : Int, 0 ≤ k → k < (1 : Int) →
    (fun (_ : Int) (i : Int) => 2 - i) 0 ((fun (_ a : Int) => 2 - a) 0 1 + k) = (fun (_ : Int) (i : Int) => i) 0 ((fun (_ a : Int) => a) 0 1 + k) := by
  intro k h0 h1; have : k = 0 := by omega
  subst this; decide

end Mjw.Props.C11Rows
