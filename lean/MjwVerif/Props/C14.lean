/-
  C14  "reset_data_keyframe semantics".

  Host code (io.py `reset_data_keyframe`): (a) launch `valid_key_mask` into a fresh `reset_mask`,
  (b) call `reset_data(m, d, reset_mask)`, (c) launch `reset_keyframe_data` with the same mask.
  Theorems are about the GENERATED kernels `Mjw.Gen.Io.reset_data_keyframe__valid_key_mask` and
  `Mjw.Gen.Io.reset_data_keyframe__reset_keyframe_data` (and, for the composition (b);(c), about
  `Mjw.Gen.Io.reset_data__reset_nworld`), at every scalar type, for all sizes, contents and key arrays.
  Vocabulary: `final`, `tabL`, `keyframeWrites` from Lemmas/C13.lean (see Props/C13.lean).

  * `valid_key_mask_spec`     the task writes exactly `mask_out[w] := (0 ≤ key_in[w] ∧ key_in[w] < nkey)`.
        It does NOT read or combine with the previous content of `mask_out` (the host passes a fresh array).
  * `keyframe_writes`         world with `reset_in w = false`: no write.  Otherwise, with `key = key_in[w]`:
        time[w] := key_time[key]; qpos[w, 0..nq) := key_qpos[key]; qvel[w, 0..nv) := key_qvel[key];
        act[w, 0..na) := key_act[key]  (ALL `na` entries — the loop is `range(na)`);
        mocap_pos/quat[w, 0..nmocap) := key_mpos/key_mquat[key]; ctrl[w, 0..nu) := key_ctrl[key]; nothing else.
  * `keyframe_after_reset`    (b);(c) for one world: for a VALID key the `reset_nworld` task followed by the
        `reset_keyframe_data` task leaves time/qpos/qvel/act/ctrl at the keyframe values on their whole ranges
        and qacc_warmstart etc. at the reset values; `act[w, 0..na)` is first zeroed by `reset_nworld`
        (C13 `act_reset_all`, since the repair of the act-tail defect) and then overwritten with all `na`
        keyframe activations.  For an INVALID key both tasks write nothing.

  What C14 inherits from C13 and is therefore NOT true in full: step (b) runs `reset_data` with a partial mask
  whenever some key is invalid, so (i) history buffers are not reset, (ii) "worlds with an invalid index are
  untouched" fails for the contact arrays: if world 0 has a valid key, `nacon` is zeroed and the invalid-key
  worlds lose their contacts; if world 0's key is invalid, `nacon` is kept and cleared slots are re-tagged to
  world 0 (Props/C14Witness.lean instantiates the C13 witnesses with key arrays).
  The plain-integer `key` path (host `ValueError` for out-of-range, then `wp.full`) is host code: it yields a
  constant `key_in` with a valid key, i.e. the all-true mask.
-/
import MjwVerif.Lemmas.Real
import MjwVerif.Lemmas.C13
import MjwVerif.Gen.Io

namespace Mjw.Props.C14
open Mjw Mjw.Lemmas.C13

/-! ## 1. The validity mask -/

/-- **valid_key_mask_spec**: the only write of the task of world `w` is
    `mask_out[w] := (key_in[w] ≥ 0 and key_in[w] < nkey)`; the written Boolean is true iff
    `0 ≤ key_in w < nkey`; the previous content of `mask_out` is irrelevant (no combination with an incoming mask). -/
theorem valid_key_mask_spec {K : Type} [Scalar K] (nkey : Int) (key_in : Int → Int) (mask_out : Int → Bool)
    (w : Int) :
    Gen.Io.reset_data_keyframe__valid_key_mask (K := K) nkey key_in mask_out w
        = [Write.mk "mask_out" [w] (WVal.b (decide (0 ≤ key_in w) && decide (key_in w < nkey))) WKind.set]
    ∧ ((decide (0 ≤ key_in w) && decide (key_in w < nkey)) = true ↔ (0 ≤ key_in w ∧ key_in w < nkey))
    ∧ (∀ mask_out' : Int → Bool,
        Gen.Io.reset_data_keyframe__valid_key_mask (K := K) nkey key_in mask_out' w
          = Gen.Io.reset_data_keyframe__valid_key_mask (K := K) nkey key_in mask_out w) := by
  refine ⟨valid_key_mask_eq .., by simp, fun m' => ?_⟩
  rw [valid_key_mask_eq, valid_key_mask_eq]

/-- the mask that step (a) produces, as a function of the world -/
def keyMask (nkey : Int) (key_in : Int → Int) : Int → Bool :=
  fun w => decide (0 ≤ key_in w) && decide (key_in w < nkey)

theorem keyMask_true_iff (nkey : Int) (key_in : Int → Int) (w : Int) :
    keyMask nkey key_in w = true ↔ (0 ≤ key_in w ∧ key_in w < nkey) := by
  simp [keyMask]

/-! ## 2. The keyframe copy -/

section keyframe
variable {K : Type} [Scalar K] (nq nv nu na nmocap : Int) (key_time : Int → K)
  (key_qpos key_qvel key_act : Int → Int → K) (key_mpos : Int → Int → V3 K) (key_mquat : Int → Int → Q K)
  (key_ctrl : Int → Int → K) (key_in : Int → Int) (reset_in : Int → Bool) (time_out : Int → K)
  (qpos_out qvel_out act_out ctrl_out : Int → Int → K) (mocap_pos_out : Int → Int → V3 K)
  (mocap_quat_out : Int → Int → Q K) (w : Int)

/-- the `reset_keyframe_data` task of world `w` -/
local notation "KF" =>
  Gen.Io.reset_data_keyframe__reset_keyframe_data nq nv nu na nmocap key_time key_qpos key_qvel key_act
    key_mpos key_mquat key_ctrl key_in reset_in time_out qpos_out qvel_out act_out ctrl_out mocap_pos_out
    mocap_quat_out w

/-- exact write list (program order) of a `reset_keyframe_data` task -/
theorem keyframe_exact :
    KF = if reset_in w = false then []
         else keyframeWrites nq nv nu na nmocap key_time key_qpos key_qvel key_act key_mpos key_mquat key_ctrl
           (key_in w) w :=
  reset_keyframe_data_eq ..

/-- **keyframe_writes** (invalid world): nothing is written -/
theorem keyframe_writes_invalid (h : reset_in w = false) : KF = [] := by
  rw [reset_keyframe_data_eq, if_pos h]

/-- **keyframe_writes** (valid world): for each array and index the final write, from keyframe row
    `key_in w`.  `act` gets ALL `na` entries.  `else none` = not written. -/
theorem keyframe_writes (h : reset_in w = true) :
    final KF "time_out" [w] = some (WVal.f (key_time (key_in w)), WKind.set)
    ∧ (∀ i, final KF "qpos_out" [w, i]
        = if 0 ≤ i ∧ i < nq then some (WVal.f (key_qpos (key_in w) i), WKind.set) else none)
    ∧ (∀ i, final KF "qvel_out" [w, i]
        = if 0 ≤ i ∧ i < nv then some (WVal.f (key_qvel (key_in w) i), WKind.set) else none)
    ∧ (∀ i, final KF "act_out" [w, i]
        = if 0 ≤ i ∧ i < na then some (WVal.f (key_act (key_in w) i), WKind.set) else none)
    ∧ (∀ i, final KF "mocap_pos_out" [w, i]
        = if 0 ≤ i ∧ i < nmocap then some (WVal.v (V3.toList (key_mpos (key_in w) i)), WKind.set) else none)
    ∧ (∀ i, final KF "mocap_quat_out" [w, i]
        = if 0 ≤ i ∧ i < nmocap then some (WVal.v (Q.toList (key_mquat (key_in w) i)), WKind.set) else none)
    ∧ (∀ i, final KF "ctrl_out" [w, i]
        = if 0 ≤ i ∧ i < nu then some (WVal.f (key_ctrl (key_in w) i), WKind.set) else none) := by
  rw [reset_keyframe_data_eq, if_neg (by rw [h]; decide)]
  unfold keyframeWrites
  refine ⟨?_, ?_, ?_, ?_, ?_, ?_, ?_⟩
  · final_simp
  · intro i; final_simp
  · intro i; final_simp
  · intro i; final_simp
  · intro i; final_simp
  · intro i; final_simp
  · intro i; final_simp

/-- the task writes to no other array than these seven -/
theorem keyframe_arrays :
    arrsIn ["time_out", "qpos_out", "qvel_out", "act_out", "mocap_pos_out", "mocap_quat_out", "ctrl_out"] KF := by
  rw [reset_keyframe_data_eq]
  apply arrsIn_ite _ (arrsIn_nil _)
  unfold keyframeWrites
  repeat' first
    | apply arrsIn_append
    | apply arrsIn_tabL; intro i; simp only [kmocapBody, cellBody]
    | apply arrsIn_cons (by simp)
    | exact arrsIn_nil _

end keyframe

/-! ## 3. Reset followed by keyframe copy, per world -/

section composition
variable {K : Type} [Scalar K] (nq nv nu na nbody ntree neq nuserdata nsensordata nmocap nkey : Int)
  (qpos0 : Int → Int → K) (eq_active0 : Int → Bool) (nworld_in : Int)
  (solver_niter_out ne_out nf_out nl_out nefc_out ntree_awake_out nbody_awake_out nv_awake_out : Int → Int)
  (time_out : Int → K) (energy_out : Int → V2 K)
  (qpos_out qvel_out act_out qacc_warmstart_out ctrl_out qfrc_applied_out : Int → Int → K)
  (eq_active_out : Int → Int → Bool) (qacc_out act_dot_out userdata_out sensordata_out : Int → Int → K)
  (nacon_out overflow_out : Int → Int) (qpos0_shape0 : Int)
  (key_time : Int → K) (key_qpos key_qvel key_act : Int → Int → K) (key_mpos : Int → Int → V3 K)
  (key_mquat : Int → Int → Q K) (key_ctrl : Int → Int → K) (key_in : Int → Int)
  (mocap_pos_out : Int → Int → V3 K) (mocap_quat_out : Int → Int → Q K) (w : Int)

/-- the writes of world `w`'s `reset_nworld` task (mask in use, mask = `keyMask`) followed by those of its
    `reset_keyframe_data` task (same mask) -/
local notation "SEQ" =>
  (Gen.Io.reset_data__reset_nworld nq nv nu na nbody ntree neq nuserdata nsensordata qpos0 eq_active0 nworld_in
      (keyMask nkey key_in) solver_niter_out ne_out nf_out nl_out nefc_out ntree_awake_out nbody_awake_out
      nv_awake_out time_out energy_out qpos_out qvel_out act_out qacc_warmstart_out ctrl_out qfrc_applied_out
      eq_active_out qacc_out act_dot_out userdata_out sensordata_out nacon_out overflow_out true qpos0_shape0 w
    ++ Gen.Io.reset_data_keyframe__reset_keyframe_data nq nv nu na nmocap key_time key_qpos key_qvel key_act
      key_mpos key_mquat key_ctrl key_in (keyMask nkey key_in) time_out qpos_out qvel_out act_out ctrl_out
      mocap_pos_out mocap_quat_out w)

/-- **keyframe_after_reset** (invalid key): neither task writes anything -/
theorem keyframe_after_reset_invalid (h : ¬ (0 ≤ key_in w ∧ key_in w < nkey)) : SEQ = [] := by
  have hm : keyMask nkey key_in w = false := by
    cases hk : keyMask nkey key_in w
    · rfl
    · exact absurd ((keyMask_true_iff nkey key_in w).mp hk) h
  rw [reset_nworld_eq, reset_keyframe_data_eq, if_pos ⟨rfl, hm⟩, if_pos hm]; rfl

/-- **keyframe_after_reset** (valid key `k = key_in w`): after both tasks, on the WHOLE ranges:
    time = key_time[k]; qpos[0..nq) = key_qpos[k]; qvel[0..nv) = key_qvel[k];
    **act[0..na) = key_act[k]** (all `na` activations, also `nu ≤ i < na`);
    ctrl[0..nu) = key_ctrl[k]; and the reset values survive where the keyframe copy does not write
    (qacc_warmstart[0..min nq nv) = 0, eq_active[0..neq) = eq_active0, userdata = 0). -/
theorem keyframe_after_reset (h : 0 ≤ key_in w ∧ key_in w < nkey) :
    final SEQ "time_out" [w] = some (WVal.f (key_time (key_in w)), WKind.set)
    ∧ (∀ i, 0 ≤ i → i < nq → final SEQ "qpos_out" [w, i] = some (WVal.f (key_qpos (key_in w) i), WKind.set))
    ∧ (∀ i, 0 ≤ i → i < nv → final SEQ "qvel_out" [w, i] = some (WVal.f (key_qvel (key_in w) i), WKind.set))
    ∧ (∀ i, 0 ≤ i → i < na → final SEQ "act_out" [w, i] = some (WVal.f (key_act (key_in w) i), WKind.set))
    ∧ (∀ i, 0 ≤ i → i < nu → final SEQ "ctrl_out" [w, i] = some (WVal.f (key_ctrl (key_in w) i), WKind.set))
    ∧ (∀ i, 0 ≤ i → i < nq → i < nv → final SEQ "qacc_warmstart_out" [w, i] = some (fz, WKind.set))
    ∧ (∀ i, 0 ≤ i → i < neq → final SEQ "eq_active_out" [w, i] = some (WVal.b (eq_active0 i), WKind.set))
    ∧ (∀ i, 0 ≤ i → i < nuserdata → final SEQ "userdata_out" [w, i] = some (fz, WKind.set)) := by
  have hm : keyMask nkey key_in w = true := (keyMask_true_iff nkey key_in w).mpr h
  rw [reset_nworld_eq, reset_keyframe_data_eq, if_neg (by rw [hm]; simp), if_neg (by rw [hm]; simp)]
  unfold nworldWrites keyframeWrites
  refine ⟨?_, ?_, ?_, ?_, ?_, ?_, ?_, ?_⟩
  · final_simp
  · intro i h0 h1; final_simp; simp [h0, h1]
  · intro i h0 h1; final_simp; simp [h0, h1]
  · intro i h0 h1; final_simp; simp [h0, h1]
  · intro i h0 h1; final_simp; simp [h0, h1]
  · intro i h0 h1 h2; final_simp; simp [h0, h1, h2]
  · intro i h0 h1; final_simp; simp [h0, h1]
  · intro i h0 h1; final_simp; simp [h0, h1]

end composition

/-! ## Non-vacuity -/

example : ∃ (nkey : Int) (key_in : Int → Int) (w : Int), 0 ≤ key_in w ∧ key_in w < nkey := ⟨2, fun _ => 1, 0, by decide, by decide⟩
example : ∃ (nkey : Int) (key_in : Int → Int) (w : Int), ¬ (0 ≤ key_in w ∧ key_in w < nkey) := ⟨2, fun _ => 2, 0, by decide⟩
example : keyMask 2 (fun w => w) 1 = true ∧ keyMask 2 (fun w => w) 2 = false ∧ keyMask 2 (fun w => w) (-1) = false := by
  decide

end Mjw.Props.C14
