/-
  C35 witnesses: statements of the property that are FALSE of the code, on concrete inputs.
  Reproduction on the real renderer: harness/props/c35.py (`_probes`), triggers `plane-far`, `orthographic`, `empty-scene-crash`
  (`mesh-offcentre` is now a regression input that must pass).

  * `infinite_plane_box_witness`   `bvh._compute_plane_bounds` gives an "infinite" plane (size 0) the leaf box
      `[-1000.01, 1000.01]² × [-0.01, 0.01]` (in the plane frame).  A camera 2000 m from the plane's frame origin that
      looks straight down hits the plane (`ray.ray_plane` = 1) but its ray never enters the leaf box, so every correct
      ray/box test prunes the leaf: the pixel is rendered as background (depth 0, seg (-1,-1)).
  * `infinite_plane_traversal_witness`  the same in the traversal model: with the code's leaf box and the exact slab
      test the BVH cast returns "no hit" while the brute-force cast returns the plane at distance 1.
  (The former `mesh_box_misses_vertex_witness` — mesh leaf box centred at the frame origin with half the AABB extent — was
  repaired in /repo 670227b; the positive statement is now `Props.C35.mesh_leaf_contains_vertex / _triangle`.)
  Orthographic cameras: the universal statement `Props.C35.compute_ray_orthographic_constant` is the witness.
-/
import MjwVerif.Lemmas.C35Geom
import MjwVerif.Gen.Ray

set_option linter.unusedSimpArgs false
namespace Mjw.Props.C35Witness
open Mjw Mjw.RayCast Mjw.Lemmas.C34 Mjw.Lemmas.C35 Mjw.Gen.Bvh Mjw.Gen.Ray

/-- identity frame -/
def I3 : M33 ℝ := ⟨1, 0, 0, 0, 1, 0, 0, 0, 1⟩

theorem plane_bounds_infinite_identity :
    _compute_plane_bounds (⟨0, 0, 0⟩ : V3 ℝ) I3 ⟨0, 0, 0.1⟩ =
      (⟨-1000.01, -1000.01, -0.01⟩, ⟨1000.01, 1000.01, 0.01⟩) := by
  simp only [_compute_plane_bounds, I3, V3.add, V3.sub, M33.mulVec, V3.vmin, V3.vmax, hsub, hadd, hmul, hneg, smin, smax, sle,
    Bool.or_eq_true, le_refl, or_self, if_true, true_or,
    lit_two, lit0, lit_one', lit_maxval, lit_001, lit_1000]
  norm_num

theorem ray_plane_far_hit :
    (ray_plane (⟨0, 0, 0⟩ : V3 ℝ) I3 ⟨0, 0, 0.1⟩ ⟨2000, 0, 1⟩ ⟨0, 0, -1⟩).1 = 1 := by
  simp only [ray_plane, _ray_map, I3, M33.mulVec, M33.transpose, V3.sub, hsub, hadd, hmul, hdiv, hneg, sgt, slt, sle, sabs,
    Bool.or_eq_true, Bool.and_eq_true, lit0, litm1, lit_minval']
  norm_num [minval]

/-- the plane is hit at distance 1, but no point of the ray lies in the plane's BVH leaf box -/
theorem infinite_plane_box_witness :
    (ray_plane (⟨0, 0, 0⟩ : V3 ℝ) I3 ⟨0, 0, 0.1⟩ ⟨2000, 0, 1⟩ ⟨0, 0, -1⟩).1 = 1 ∧
    ∀ t : ℝ, ¬ (boxOf (_compute_plane_bounds (⟨0, 0, 0⟩ : V3 ℝ) I3 ⟨0, 0, 0.1⟩)).contains
      (rayPt ⟨2000, 0, 1⟩ ⟨0, 0, -1⟩ t) := by
  refine ⟨ray_plane_far_hit, ?_⟩
  intro t h
  rw [plane_bounds_infinite_identity] at h
  simp only [boxOf, Box.contains, rayPt, V3.add, V3.muls, hadd, hmul] at h
  norm_num at h

/-- in the traversal model: the code's leaf box + the exact slab test lose the plane; brute force finds it -/
theorem infinite_plane_traversal_witness :
    let pnt : V3 ℝ := ⟨2000, 0, 1⟩
    let vec : V3 ℝ := ⟨0, 0, -1⟩
    let hitD : Int → ℝ := fun _ => (ray_plane (⟨0, 0, 0⟩ : V3 ℝ) I3 ⟨0, 0, 0.1⟩ pnt vec).1
    let t : BvhTree (Box ℝ) := .leaf (boxOf (_compute_plane_bounds (⟨0, 0, 0⟩ : V3 ℝ) I3 ⟨0, 0, 0.1⟩)) 0
    castTree (slabVisit pnt vec) (fun _ _ => false) hitD (10 ^ 10) t = ⟨10 ^ 10, -1⟩ ∧
    castList (10 ^ 10) (cands hitD t) = ⟨1, 0⟩ := by
  intro pnt vec hitD t
  constructor
  · have hv : slabVisit pnt vec (boxOf (_compute_plane_bounds (⟨0, 0, 0⟩ : V3 ℝ) I3 ⟨0, 0, 0.1⟩)) (10 ^ 10) = false := by
      simp only [slabVisit, decide_eq_false_iff_not]
      rintro ⟨s, -, -, hc⟩
      exact infinite_plane_box_witness.2 s hc
    simp only [castTree, t, RayCast.traverse, hv, Bool.false_eq_true, if_false]
  · simp only [castList, cands, t, BvhTree.leaves, List.map, castFrom, List.foldl, hitD, pnt, vec, ray_plane_far_hit, step_eq]
    norm_num

end Mjw.Props.C35Witness
