/-
  C34 witnesses: statements one might expect of the ray primitives that are FALSE of the generated code
  (K = ℝ), each refuted on a concrete input.  They delimit the hypotheses carried in `Props/C34.lean`.

  W1/W2: `_ray_quad` has no guard on `a` (only on the discriminant).  For `a < 0` the scalar it returns is
         the LARGER root, for `a = 0, b ≠ 0` it is not a root at all.  Every caller in ray.py passes a
         (weighted) sum of squares for `a` and the matching `b` (so `a = 0 → b = 0 → det = 0 → rejected`),
         hence these inputs are not reachable through `ray_sphere/ellipsoid/capsule/cylinder`; they only show
         that `0 < a` cannot be dropped from `ray_quad_nearest`.
  W3:    `ray_box` (like capsule/cylinder) pre-filters with the bounding sphere, whose quadratic is rejected
         when its discriminant is `< MJ_MINVAL`.  A ray that touches the box exactly at a corner, tangentially
         to the bounding sphere, is therefore reported as a miss although the corner is a surface point on a
         tested face: "every surface hit at `t ≥ 0` is reported" is false without the hypothesis
         `0 ≤ (ray_sphere …).1` carried by `ray_box_nearest`.
-/
import MjwVerif.Lemmas.C34

namespace Mjw.Props.C34Witness
open Mjw Mjw.Gen.Ray Mjw.Lemmas.C34

/-- W1: `a = -1, b = 2, c = -3` (`-x² + 4x - 3`, roots 1 and 3, discriminant 1 ≥ MJ_MINVAL):
    `_ray_quad` returns 3 although the smaller non-negative root is 1. -/
theorem ray_quad_neg_a_not_nearest_witness :
    (_ray_quad (-1 : ℝ) 2 (-3)).1 = 3 ∧ minval ≤ (2 : ℝ) * 2 - (-1) * (-3) ∧
    ¬ (∀ t : ℝ, 0 ≤ t → (-1 : ℝ) * t ^ 2 + 2 * 2 * t + (-3) = 0 → (_ray_quad (-1 : ℝ) 2 (-3)).1 ≤ t) := by
  have h : (_ray_quad (-1 : ℝ) 2 (-3)).1 = 3 := by
    rw [ray_quad_eq]
    norm_num [minval]
  refine ⟨h, by norm_num [minval], ?_⟩
  intro hall
  have := hall 1 (by norm_num) (by norm_num)
  rw [h] at this
  norm_num at this

/-- W2: `a = 0, b = 1, c = -1` (`2x - 1`, root 1/2, discriminant 1 ≥ MJ_MINVAL): `_ray_quad` returns 0,
    which is `≥ 0` but not a root. -/
theorem ray_quad_zero_a_not_root_witness :
    (_ray_quad (0 : ℝ) 1 (-1)).1 = 0 ∧ minval ≤ (1 : ℝ) * 1 - 0 * (-1) ∧
    (0 : ℝ) * 0 ^ 2 + 2 * 1 * 0 + (-1) ≠ 0 := by
  refine ⟨?_, by norm_num [minval], by norm_num⟩
  rw [ray_quad_eq]
  norm_num [minval]

/-- W3: unit-half-size box at the origin, ray from (2,0,1) along (-1,1,0).  At `t = 1` the ray is at the
    corner (1,1,1): on the face `x = +1` (an axis with `|lvec.x| = 1 > MJ_MINVAL`) and within the bounds of
    the other two axes — yet `ray_box` returns `-1`, because the ray is tangent to the bounding sphere
    (discriminant 0 < MJ_MINVAL). -/
theorem ray_box_corner_graze_witness :
    (ray_box (⟨0, 0, 0⟩ : V3 ℝ) M33.identity ⟨1, 1, 1⟩ ⟨2, 0, 1⟩ ⟨-1, 1, 0⟩).1 = -1 ∧
    rayPt (_ray_map (⟨0, 0, 0⟩ : V3 ℝ) M33.identity ⟨2, 0, 1⟩ ⟨-1, 1, 0⟩).1
      (_ray_map (⟨0, 0, 0⟩ : V3 ℝ) M33.identity ⟨2, 0, 1⟩ ⟨-1, 1, 0⟩).2 1 = ⟨1, 1, 1⟩ ∧
    BoxCand (_ray_map (⟨0, 0, 0⟩ : V3 ℝ) M33.identity ⟨2, 0, 1⟩ ⟨-1, 1, 0⟩).1
      (_ray_map (⟨0, 0, 0⟩ : V3 ℝ) M33.identity ⟨2, 0, 1⟩ ⟨-1, 1, 0⟩).2 ⟨1, 1, 1⟩ 1 := by
  refine ⟨?_, ?_, ?_⟩
  · rw [ray_box_eq]
    norm_num [ray_sphere_eq, ray_quad_eq, V3.sub, V3.dot, minval]
  · norm_num [rayPt, _ray_map, M33.mulVec, M33.transpose, M33.identity, V3.sub, V3.add, V3.muls]
  · left
    norm_num [FaceCand, _ray_map, M33.mulVec, M33.transpose, M33.identity, V3.sub, minval]

end Mjw.Props.C34Witness
